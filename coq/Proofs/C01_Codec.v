(* C01 - lemmas, part 2: the msgpack reader inverts the writer (unpack_pack), format by format. *)
From Coq Require Import List NArith ZArith Bool Lia ZifyBool ZifyNat ZifyN.
From Orso Require Import Gen.C01_RowFmt Model.C01 Proofs.C01_Header.
Import ListNotations.
Open Scope N_scope.

(* ---------- take / has ---------- *)
Lemma take_0 l : take l 0 = Some ([], l).
Proof. destruct l; reflexivity. Qed.

Lemma take_app s : forall rest, take (s ++ rest) (len s) = Some (s, rest).
Proof.
  induction s as [|a s IH]; intros rest.
  - cbn [app]. apply take_0.
  - cbn [app take]. rewrite len_cons.
    destruct (N.succ (len s) =? 0) eqn:E; [lia|].
    rewrite N.pred_succ, IH. reflexivity.
Qed.

Lemma has_ge : forall l n, n <= len l -> has l n = true.
Proof.
  induction l as [|a l IH]; intros n H.
  - rewrite len_nil in H. replace n with 0 by lia. reflexivity.
  - cbn [has]. destruct (n =? 0) eqn:E; [reflexivity|].
    apply IH. rewrite len_cons in H. lia.
Qed.

(* ---------- reading fixed-width integers ---------- *)
Lemma rd_be1 x rest : x < 256 -> rd 1 (be 1 x ++ rest) 0 = Some (x, rest).
Proof. intros H. apply rd_be0. exact H. Qed.
Lemma rd_be2 x rest : x < 65536 -> rd 2 (be 2 x ++ rest) 0 = Some (x, rest).
Proof. intros H. apply rd_be0. exact H. Qed.
Lemma rd_be4 x rest : x < 4294967296 -> rd 4 (be 4 x ++ rest) 0 = Some (x, rest).
Proof. intros H. apply rd_be0. exact H. Qed.
Lemma rd_be8 x rest : x < 18446744073709551616 -> rd 8 (be 8 x ++ rest) 0 = Some (x, rest).
Proof. intros H. apply rd_be0. exact H. Qed.

Lemma unpack_S f b r : unpack (S f) (b :: r) =
  match container_hdr b r with
  | HArr n r' => if has r' n then match many (unpack f) (N.to_nat n) r' with Some (vs, r'') => Some (MArr vs, r'') | None => None end else None
  | HMap n r' => if has r' n then match many_kv (unpack f) (N.to_nat n) r' with Some (kvs, r'') => Some (MMap kvs, r'') | None => None end else None
  | HScalar => unpack_scalar b r
  | HErr => None
  end.
Proof. reflexivity. Qed.

Lemma container_hdr_scalar b r :
  (b <? 128) || ((160 <=? b) && (b <? 220)) || (224 <=? b) = true -> container_hdr b r = HScalar.
Proof.
  intros H. unfold container_hdr.
  destruct ((128 <=? b) && (b <? 144)) eqn:E1; [lia|].
  destruct ((144 <=? b) && (b <? 160)) eqn:E2; [lia|].
  destruct (b =? 220) eqn:E3; [lia|]. destruct (b =? 221) eqn:E4; [lia|].
  destruct (b =? 222) eqn:E5; [lia|]. destruct (b =? 223) eqn:E6; [lia|]. reflexivity.
Qed.

(* ---------- integers ---------- *)
Ltac const_scalar b :=
  rewrite unpack_S; rewrite (container_hdr_scalar b) by reflexivity.

Lemma unpack_int f z rest : int_ok z = true -> unpack (S f) (pack_int z ++ rest) = Some (MInt z, rest).
Proof.
  unfold int_ok. intros Hz. unfold pack_int.
  destruct (0 <=? z)%Z eqn:E0.
  - destruct (Z.to_N z <? 128) eqn:E1.
    { cbn [app]. rewrite unpack_S, container_hdr_scalar by lia. unfold unpack_scalar. rewrite E1. f_equal. f_equal. f_equal. lia. }
    destruct (Z.to_N z <? 256) eqn:E2.
    { cbn [app]. const_scalar 204. change (unpack_scalar 204 ?r) with (rd_uint 1 r). unfold rd_uint.
      rewrite rd_be1 by lia. f_equal. f_equal. f_equal. lia. }
    destruct (Z.to_N z <? 65536) eqn:E3.
    { cbn [app]. const_scalar 205. change (unpack_scalar 205 ?r) with (rd_uint 2 r). unfold rd_uint.
      rewrite rd_be2 by lia. f_equal. f_equal. f_equal. lia. }
    destruct (Z.to_N z <? 4294967296) eqn:E4.
    { cbn [app]. const_scalar 206. change (unpack_scalar 206 ?r) with (rd_uint 4 r). unfold rd_uint.
      rewrite rd_be4 by lia. f_equal. f_equal. f_equal. lia. }
    cbn [app]. const_scalar 207. change (unpack_scalar 207 ?r) with (rd_uint 8 r). unfold rd_uint.
    rewrite rd_be8 by lia. f_equal. f_equal. f_equal. lia.
  - destruct (-32 <=? z)%Z eqn:E1.
    { cbn [app]. rewrite unpack_S, container_hdr_scalar by lia. unfold unpack_scalar.
      destruct (Z.to_N (256 + z) <? 128) eqn:F1; [lia|].
      destruct ((160 <=? Z.to_N (256 + z)) && (Z.to_N (256 + z) <? 192)) eqn:F2; [lia|].
      repeat (match goal with |- context [?a =? ?b] => destruct (a =? b) eqn:?; [lia|] end).
      cbn [orb].
      destruct ((224 <=? Z.to_N (256 + z)) && (Z.to_N (256 + z) <? 256)) eqn:F3; [|lia].
      f_equal. f_equal. f_equal. lia. }
    destruct (-128 <=? z)%Z eqn:E2.
    { cbn [app]. const_scalar 208. change (unpack_scalar 208 ?r) with (rd_sint 1 r). unfold rd_sint.
      rewrite rd_be1 by lia. f_equal. f_equal. f_equal. unfold two_compl.
      change (2 ^ (8 * N.of_nat 1 - 1)) with 128. change (2 ^ (8 * N.of_nat 1)) with 256.
      destruct (Z.to_N (256 + z) <? 128) eqn:F; lia. }
    destruct (-32768 <=? z)%Z eqn:E3.
    { cbn [app]. const_scalar 209. change (unpack_scalar 209 ?r) with (rd_sint 2 r). unfold rd_sint.
      rewrite rd_be2 by lia. f_equal. f_equal. f_equal. unfold two_compl.
      change (2 ^ (8 * N.of_nat 2 - 1)) with 32768. change (2 ^ (8 * N.of_nat 2)) with 65536.
      destruct (Z.to_N (65536 + z) <? 32768) eqn:F; lia. }
    destruct (-2147483648 <=? z)%Z eqn:E4.
    { cbn [app]. const_scalar 210. change (unpack_scalar 210 ?r) with (rd_sint 4 r). unfold rd_sint.
      rewrite rd_be4 by lia. f_equal. f_equal. f_equal. unfold two_compl.
      change (2 ^ (8 * N.of_nat 4 - 1)) with 2147483648. change (2 ^ (8 * N.of_nat 4)) with 4294967296.
      destruct (Z.to_N (4294967296 + z) <? 2147483648) eqn:F; lia. }
    cbn [app]. const_scalar 211. change (unpack_scalar 211 ?r) with (rd_sint 8 r). unfold rd_sint.
    rewrite rd_be8 by lia. f_equal. f_equal. f_equal. unfold two_compl.
    change (2 ^ (8 * N.of_nat 8 - 1)) with 9223372036854775808. change (2 ^ (8 * N.of_nat 8)) with 18446744073709551616.
    destruct (Z.to_N (18446744073709551616 + z) <? 9223372036854775808) eqn:F; lia.
Qed.

(* ---------- nil, booleans, floats ---------- *)
Lemma unpack_nil f rest : unpack (S f) (pack MNil ++ rest) = Some (MNil, rest).
Proof. reflexivity. Qed.
Lemma unpack_bool f b rest : unpack (S f) (pack (MBool b) ++ rest) = Some (MBool b, rest).
Proof. destruct b; reflexivity. Qed.
Lemma unpack_float f b rest : b < 18446744073709551616 -> unpack (S f) (pack (MFloat b) ++ rest) = Some (MFloat b, rest).
Proof.
  intros H. cbn [pack app]. const_scalar 203.
  change (unpack_scalar 203 ?r) with (match rd 8 r 0 with Some (u, r') => Some (MFloat u, r') | None => None end).
  rewrite rd_be8 by exact H. reflexivity.
Qed.

(* ---------- text ---------- *)
Lemma unpack_str_body_ok s rest : utf8_valid s = true -> unpack_str_body (len s) (s ++ rest) = Some (s, rest).
Proof. intros H. unfold unpack_str_body. rewrite take_app, H. reflexivity. Qed.

Lemma unpack_str_ok s rest : utf8_valid s = true -> len s < 4294967296 ->
  unpack_str (pack_str s ++ rest) = Some (s, rest).
Proof.
  intros Hu Hl. unfold pack_str, str_hdr.
  destruct (len s <? 32) eqn:E1.
  { cbn [app]. unfold unpack_str. destruct ((160 <=? 160 + len s) && (160 + len s <? 192)) eqn:F; [|lia].
    replace (160 + len s - 160) with (len s) by lia. apply unpack_str_body_ok. exact Hu. }
  destruct (len s <? 256) eqn:E2.
  { cbn [app]. change (unpack_str (217 :: ?r)) with (match rd 1 r 0 with Some (n, r') => unpack_str_body n r' | None => None end).
    rewrite <- app_assoc, rd_be1 by lia. apply unpack_str_body_ok. exact Hu. }
  destruct (len s <? 65536) eqn:E3.
  { cbn [app]. change (unpack_str (218 :: ?r)) with (match rd 2 r 0 with Some (n, r') => unpack_str_body n r' | None => None end).
    rewrite <- app_assoc, rd_be2 by lia. apply unpack_str_body_ok. exact Hu. }
  cbn [app]. change (unpack_str (219 :: ?r)) with (match rd 4 r 0 with Some (n, r') => unpack_str_body n r' | None => None end).
  rewrite <- app_assoc, rd_be4 by lia. apply unpack_str_body_ok. exact Hu.
Qed.

Definition is_str_byte (b : N) : bool := ((160 <=? b) && (b <? 192)) || (b =? 217) || (b =? 218) || (b =? 219).

Lemma unpack_scalar_str b r : is_str_byte b = true ->
  unpack_scalar b r = match unpack_str (b :: r) with Some (s, r') => Some (MStr s, r') | None => None end.
Proof.
  unfold is_str_byte. intros H. unfold unpack_scalar.
  destruct (b <? 128) eqn:E0; [lia|].
  destruct ((160 <=? b) && (b <? 192)) eqn:E1; [unfold unpack_str; rewrite E1; reflexivity|].
  repeat (match goal with |- context [if ?a =? ?k then _ else _] => destruct (a =? k) eqn:?; [lia|] end).
  destruct ((b =? 217) || (b =? 218) || (b =? 219)) eqn:F; [reflexivity|lia].
Qed.

Lemma str_hdr_first n : exists b tl, str_hdr n = b :: tl /\ is_str_byte b = true.
Proof.
  unfold str_hdr, is_str_byte.
  destruct (n <? 32) eqn:E1; [do 2 eexists; split; [reflexivity|lia]|].
  destruct (n <? 256); [do 2 eexists; split; reflexivity|].
  destruct (n <? 65536); do 2 eexists; split; reflexivity.
Qed.

Lemma is_str_byte_scalar b r : is_str_byte b = true -> container_hdr b r = HScalar.
Proof. unfold is_str_byte. intros H. apply container_hdr_scalar. lia. Qed.

Lemma unpack_str_val f s rest : utf8_valid s = true -> len s < 4294967296 ->
  unpack (S f) (pack (MStr s) ++ rest) = Some (MStr s, rest).
Proof.
  intros Hu Hl. pose proof (unpack_str_ok s rest Hu Hl) as E.
  cbn [pack]. unfold pack_str in *.
  destruct (str_hdr_first (len s)) as (b & tl & Hb & Hs). rewrite Hb in *. cbn [app] in *.
  rewrite unpack_S, is_str_byte_scalar by exact Hs.
  rewrite unpack_scalar_str by exact Hs. rewrite E. reflexivity.
Qed.

(* ---------- binary ---------- *)
Lemma unpack_bin_val f s rest : len s < 4294967296 ->
  unpack (S f) (pack (MBin s) ++ rest) = Some (MBin s, rest).
Proof.
  intros Hl. cbn [pack]. unfold bin_hdr.
  destruct (len s <? 256) eqn:E1.
  { cbn [app]. const_scalar 196. change (unpack_scalar 196 ?r) with (rd_bin 1 r). unfold rd_bin.
    rewrite <- app_assoc, rd_be1 by lia. rewrite take_app. reflexivity. }
  destruct (len s <? 65536) eqn:E2.
  { cbn [app]. const_scalar 197. change (unpack_scalar 197 ?r) with (rd_bin 2 r). unfold rd_bin.
    rewrite <- app_assoc, rd_be2 by lia. rewrite take_app. reflexivity. }
  cbn [app]. const_scalar 198. change (unpack_scalar 198 ?r) with (rd_bin 4 r). unfold rd_bin.
  rewrite <- app_assoc, rd_be4 by lia. rewrite take_app. reflexivity.
Qed.

(* ---------- container headers ---------- *)
Lemma arr_hdr_ok n r : n < 4294967296 ->
  exists b tl, arr_hdr n = b :: tl /\ container_hdr b (tl ++ r) = HArr n r.
Proof.
  intros H. unfold arr_hdr.
  destruct (n <? 16) eqn:E1.
  { do 2 eexists. split; [reflexivity|]. cbn [app]. unfold container_hdr.
    destruct ((128 <=? 144 + n) && (144 + n <? 144)) eqn:F1; [lia|].
    destruct ((144 <=? 144 + n) && (144 + n <? 160)) eqn:F2; [|lia].
    f_equal. lia. }
  destruct (n <? 65536) eqn:E2.
  { do 2 eexists. split; [reflexivity|].
    change (container_hdr 220 ?x) with (match rd 2 x 0 with Some (n, r') => HArr n r' | None => HErr end).
    rewrite rd_be2 by lia. reflexivity. }
  do 2 eexists. split; [reflexivity|].
  change (container_hdr 221 ?x) with (match rd 4 x 0 with Some (n, r') => HArr n r' | None => HErr end).
  rewrite rd_be4 by lia. reflexivity.
Qed.

Lemma map_hdr_ok n r : n < 4294967296 ->
  exists b tl, map_hdr n = b :: tl /\ container_hdr b (tl ++ r) = HMap n r.
Proof.
  intros H. unfold map_hdr.
  destruct (n <? 16) eqn:E1.
  { do 2 eexists. split; [reflexivity|]. cbn [app]. unfold container_hdr.
    destruct ((128 <=? 128 + n) && (128 + n <? 144)) eqn:F1; [|lia].
    f_equal. lia. }
  destruct (n <? 65536) eqn:E2.
  { do 2 eexists. split; [reflexivity|].
    change (container_hdr 222 ?x) with (match rd 2 x 0 with Some (n, r') => HMap n r' | None => HErr end).
    rewrite rd_be2 by lia. reflexivity. }
  do 2 eexists. split; [reflexivity|].
  change (container_hdr 223 ?x) with (match rd 4 x 0 with Some (n, r') => HMap n r' | None => HErr end).
  rewrite rd_be4 by lia. reflexivity.
Qed.

(* ---------- sequences of values ---------- *)
Definition pack_kv (kv : bytes * mval) : bytes := pack_str (fst kv) ++ pack (snd kv).

Lemma many_ok rec l :
  Forall (fun v => forall rest, rec (pack v ++ rest) = Some (v, rest)) l ->
  forall rest, many rec (length l) (flat_map pack l ++ rest) = Some (l, rest).
Proof.
  induction 1 as [|x t Hx Ht IH]; intros rest; [reflexivity|].
  cbn [length flat_map many]. rewrite <- app_assoc, Hx, IH. reflexivity.
Qed.

Lemma many_kv_ok rec kvs :
  Forall (fun kv => utf8_valid (fst kv) = true /\ len (fst kv) < 4294967296 /\
                    forall rest, rec (pack (snd kv) ++ rest) = Some (snd kv, rest)) kvs ->
  forall rest, many_kv rec (length kvs) (flat_map pack_kv kvs ++ rest) = Some (kvs, rest).
Proof.
  induction 1 as [|[k v] t (Hu & Hl & Hv) Ht IH]; intros rest; [reflexivity|].
  cbn [length flat_map many_kv]. unfold pack_kv at 1. cbn [fst snd] in *.
  rewrite <- !app_assoc, (unpack_str_ok k _ Hu Hl), Hv, IH. reflexivity.
Qed.

Lemma pack_nonempty v : 1 <= len (pack v).
Proof.
  assert (G : forall n tl, 1 <= len (n :: tl : bytes)) by (intros; rewrite len_cons; lia).
  destruct v as [| [|] | z | b | s | s | l | kvs]; cbn [pack]; try apply G.
  - unfold pack_int. repeat (match goal with |- context [if ?c then _ else _] => destruct c end); apply G.
  - unfold pack_str, str_hdr. repeat (match goal with |- context [if ?c then _ else _] => destruct c end); cbn [app]; apply G.
  - unfold bin_hdr. repeat (match goal with |- context [if ?c then _ else _] => destruct c end); cbn [app]; apply G.
  - unfold arr_hdr. repeat (match goal with |- context [if ?c then _ else _] => destruct c end); cbn [app]; apply G.
  - unfold map_hdr. repeat (match goal with |- context [if ?c then _ else _] => destruct c end); cbn [app]; apply G.
Qed.

Lemma flat_map_len_ge {A} (f : A -> bytes) l : (forall x, 1 <= len (f x)) -> len l <= len (flat_map f l).
Proof.
  intros Hf. induction l as [|x t IH]; [reflexivity|].
  cbn [flat_map]. rewrite len_cons, len_app. specialize (Hf x). lia.
Qed.

Lemma pack_kv_nonempty kv : 1 <= len (pack_kv kv).
Proof. unfold pack_kv. rewrite len_app. pose proof (pack_nonempty (snd kv)). lia. Qed.

(* ---------- induction principle for the nested type ---------- *)
Lemma mval_ind' (P : mval -> Prop) :
  P MNil -> (forall b, P (MBool b)) -> (forall z, P (MInt z)) -> (forall b, P (MFloat b)) ->
  (forall s, P (MStr s)) -> (forall s, P (MBin s)) ->
  (forall l, Forall P l -> P (MArr l)) ->
  (forall kvs, Forall (fun kv => P (snd kv)) kvs -> P (MMap kvs)) ->
  forall v, P v.
Proof.
  intros Hn Hb Hi Hf Hs Hy Ha Hm. fix IH 1. intros [| b | z | b | s | s | l | kvs].
  - exact Hn. - apply Hb. - apply Hi. - apply Hf. - apply Hs. - apply Hy.
  - apply Ha. induction l as [|x t IHt]; constructor; [apply IH | exact IHt].
  - apply Hm. induction kvs as [|[k x] t IHt]; constructor; [apply IH | exact IHt].
Qed.

(* ---------- well-formedness and depth, unfolded one level ---------- *)
Lemma wf_arr l : wfb (MArr l) = true -> len l < 4294967296 /\ Forall wf l.
Proof.
  cbn [wfb]. intros H. apply andb_prop in H. destruct H as [Hl Hall]. unfold len_ok in Hl. split; [lia|].
  rewrite forallb_forall in Hall. apply Forall_forall. exact Hall.
Qed.

Lemma wf_map kvs : wfb (MMap kvs) = true ->
  len kvs < 4294967296 /\ Forall (fun kv => utf8_valid (fst kv) = true /\ len (fst kv) < 4294967296 /\ wf (snd kv)) kvs.
Proof.
  cbn [wfb]. intros H. apply andb_prop in H. destruct H as [Hl Hall]. unfold len_ok in Hl. split; [lia|].
  rewrite forallb_forall in Hall. apply Forall_forall. intros kv Hin. specialize (Hall kv Hin).
  apply andb_prop in Hall. destruct Hall as [Hall Hw]. apply andb_prop in Hall. destruct Hall as [Hu Hk].
  unfold len_ok in Hk. repeat split; [exact Hu | lia | exact Hw].
Qed.

Lemma vdepth_arr l f : (vdepth (MArr l) <= S f)%nat -> Forall (fun x => (vdepth x <= f)%nat) l.
Proof.
  cbn [vdepth]. intros H. apply Nat.succ_le_mono in H.
  induction l as [|x t IH]; constructor; cbn [fold_right] in H; [lia | apply IH; lia].
Qed.

Lemma vdepth_map kvs f : (vdepth (MMap kvs) <= S f)%nat -> Forall (fun kv => (vdepth (snd kv) <= f)%nat) kvs.
Proof.
  cbn [vdepth]. intros H. apply Nat.succ_le_mono in H.
  induction kvs as [|x t IH]; constructor; cbn [fold_right] in H; [lia | apply IH; lia].
Qed.

Lemma vdepth_pos v : (1 <= vdepth v)%nat.
Proof. destruct v; cbn [vdepth]; lia. Qed.

(* ---------- the reader inverts the writer ---------- *)
Theorem unpack_pack v : wf v -> forall fuel rest, (vdepth v <= fuel)%nat ->
  unpack fuel (pack v ++ rest) = Some (v, rest).
Proof.
  induction v as [| b | z | b | s | s | l IH | kvs IH] using mval_ind'; intros Hwf fuel rest Hf;
    (destruct fuel as [|f]; [pose proof (vdepth_pos (MNil)); cbn [vdepth] in Hf; lia|]); unfold wf in Hwf.
  - apply unpack_nil.
  - apply unpack_bool.
  - apply unpack_int. exact Hwf.
  - apply unpack_float. cbn [wfb] in Hwf. lia.
  - cbn [wfb] in Hwf. apply andb_prop in Hwf. destruct Hwf as [Hu Hl]. unfold len_ok in Hl.
    apply unpack_str_val; [exact Hu | lia].
  - cbn [wfb] in Hwf. unfold len_ok in Hwf. apply unpack_bin_val. lia.
  - apply wf_arr in Hwf. destruct Hwf as [Hlen Hall]. apply vdepth_arr in Hf.
    cbn [pack]. destruct (arr_hdr_ok (len l) (flat_map pack l ++ rest) Hlen) as (b & tl & Hb & Hh).
    rewrite Hb. cbn [app]. rewrite <- app_assoc. rewrite unpack_S, Hh.
    rewrite has_ge by (rewrite len_app; pose proof (flat_map_len_ge pack l pack_nonempty); lia).
    unfold len. rewrite Nat2N.id.
    rewrite many_ok; [reflexivity|].
    rewrite Forall_forall in *. intros x Hin rest0. apply IH; auto.
  - apply wf_map in Hwf. destruct Hwf as [Hlen Hall]. apply vdepth_map in Hf.
    cbn [pack]. change (fun kv : bytes * mval => pack_str (fst kv) ++ pack (snd kv)) with pack_kv.
    destruct (map_hdr_ok (len kvs) (flat_map pack_kv kvs ++ rest) Hlen) as (b & tl & Hb & Hh).
    rewrite Hb. cbn [app]. rewrite <- app_assoc. rewrite unpack_S, Hh.
    rewrite has_ge by (rewrite len_app; pose proof (flat_map_len_ge pack_kv kvs pack_kv_nonempty); lia).
    unfold len at 1. rewrite Nat2N.id.
    rewrite many_kv_ok; [reflexivity|].
    rewrite Forall_forall in *. intros kv Hin. destruct (Hall kv Hin) as (Hu & Hk & Hw).
    repeat split; [exact Hu | exact Hk |]. intros rest0. apply IH; auto.
Qed.
