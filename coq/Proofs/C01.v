(* C01 - lemmas, part 3: encoder/decoder composition (round trip), totality of the encoder on its domain,
   single-bit changes.  Parts 1 and 2 are re-exported. *)
From Coq Require Import List NArith ZArith Bool Lia ZifyBool ZifyNat ZifyN.
From Orso Require Import Gen.C01_RowFmt Model.C01.
From Orso Require Export Proofs.C01_Header Proofs.C01_Codec.
Import ListNotations.
Open Scope N_scope.

(* ---------- value depth vs container depth ---------- *)
Lemma vdepth_cdepth v : N.of_nat (vdepth v) <= cdepth v + 1.
Proof.
  induction v as [| b | z | b | s | s | l IH | kvs IH] using mval_ind'; try (cbn [vdepth cdepth]; lia).
  - cbn [vdepth cdepth].
    assert (G : N.of_nat (fold_right (fun x m => Nat.max (vdepth x) m) 1%nat l) <= fold_right (fun x m => N.max (cdepth x) m) 0 l + 1).
    { induction IH as [|x t Hx Ht IHt]; cbn [fold_right]; lia. }
    lia.
  - cbn [vdepth cdepth].
    assert (G : N.of_nat (fold_right (fun kv m => Nat.max (vdepth (snd kv)) m) 1%nat kvs) <= fold_right (fun kv m => N.max (cdepth (snd kv)) m) 0 kvs + 1).
    { induction IH as [|x t Hx Ht IHt]; cbn [fold_right]; lia. }
    lia.
Qed.

Lemma post_plain row : no_datetime row = true -> post row = Ok (map CVal row).
Proof.
  unfold no_datetime. induction row as [|it r IH]; intros H; [reflexivity|].
  cbn [forallb] in H. apply andb_prop in H. destruct H as [Hit Hr].
  cbn [post map]. unfold rewrite_item. destruct (dt_form it); [discriminate|].
  rewrite (IH Hr). reflexivity.
Qed.

Lemma skipn_exact {A} (a b : list A) k : length a = k -> skipn k (a ++ b) = b.
Proof. intros <-. induction a; [reflexivity|]. cbn [length app skipn]. assumption. Qed.

Lemma hdr_ok_record ts payload : (Z.of_N (len payload) <= row_MAXIMUM_RECORD_SIZE)%Z -> hdr_ok (record ts payload) = true.
Proof.
  intros Hcap. pose proof cap_lt_2_31 as Hc.
  destruct (record_shape ts payload) as (c2 & c3 & c4 & c5 & tl & Hr & H2 & H3 & H4 & H5 & Hf & Htl); [lia|].
  unfold hdr_ok. cbv zeta. rewrite record_length. rewrite Hr. rewrite record_size_bytes by assumption.
  rewrite Hf. rewrite wrap32_small by lia.
  unfold version_ok, pyx_version_offset, pyx_VERSION_MASK, pyx_VERSION_VALUE, pyx_HEADER_SIZE, byte_at. cbn [nth].
  change (N.land 16 240 =? 16) with true. cbn [negb orb andb].
  destruct (Z.of_nat (14 + length payload) <? 14)%Z eqn:E; [lia|]. cbn [negb andb].
  unfold len. lia.
Qed.

(* every emitted record passes the three header checks and unpacks to exactly the row that was packed;
   what remains is the ['__datetime__', x] rewrite *)
Theorem decode_encode ts row r : encode_row ts row = Ok r -> decode_row r = post row.
Proof.
  intros He. apply encode_row_inv in He. destruct He as (-> & Hcap & Hwf & Hd).
  rewrite decode_row_hdr_ok by (apply hdr_ok_record; exact Hcap).
  unfold record. change (Z.to_nat pyx_HEADER_SIZE) with 14%nat.
  rewrite !app_assoc. rewrite skipn_exact by (rewrite !app_length, !be_length; reflexivity).
  rewrite <- (app_nil_r (pack (MArr row))).
  rewrite unpack_pack; [reflexivity | exact Hwf |].
  unfold dec_fuel. pose proof (vdepth_cdepth (MArr row)) as Hv. pose proof enc_limit_le_dec_limit as Hl.
  unfold enc_limit in Hl. lia.
Qed.

Theorem roundtrip ts row r : encode_row ts row = Ok r -> no_datetime row = true ->
  decode_row r = Ok (map CVal row).
Proof. intros He Hnd. rewrite (decode_encode ts row r He). apply post_plain. exact Hnd. Qed.

(* the encoder refuses nothing that is well-formed, shallow enough and within the cap *)
Lemma encode_total ts row : wf (MArr row) -> cdepth (MArr row) <= enc_container_limit ->
  (Z.of_N (len (pack (MArr row))) <= row_MAXIMUM_RECORD_SIZE)%Z ->
  encode_row ts row = Ok (record ts (pack (MArr row))).
Proof.
  unfold wf. intros Hwf Hd Hcap. unfold encode_row. rewrite Hwf.
  destruct (cdepth (MArr row) <=? enc_container_limit) eqn:E; [|lia]. cbn [andb negb].
  unfold size_ok. destruct (row_MAXIMUM_RECORD_SIZE <? Z.of_N (len (pack (MArr row))))%Z eqn:F; [lia|]. reflexivity.
Qed.

Theorem roundtrip_explicit ts row : wf (MArr row) -> cdepth (MArr row) <= enc_container_limit ->
  no_datetime row = true -> (Z.of_N (len (pack (MArr row))) <= row_MAXIMUM_RECORD_SIZE)%Z ->
  exists r, encode_row ts row = Ok r /\ decode_row r = Ok (map CVal row).
Proof.
  intros Hwf Hd Hnd Hcap. eexists. split; [apply encode_total; assumption|].
  eapply roundtrip; [apply encode_total; assumption | exact Hnd].
Qed.

(* above the cap the encoder raises DataError and emits nothing *)
Lemma encode_oversize ts row : wf (MArr row) -> cdepth (MArr row) <= enc_container_limit ->
  (row_MAXIMUM_RECORD_SIZE < Z.of_N (len (pack (MArr row))))%Z -> encode_row ts row = Raise DataError.
Proof.
  unfold wf. intros Hwf Hd Hcap. unfold encode_row. rewrite Hwf.
  destruct (cdepth (MArr row) <=? enc_container_limit) eqn:E; [|lia]. cbn [andb negb].
  unfold size_ok. destruct (row_MAXIMUM_RECORD_SIZE <? Z.of_N (len (pack (MArr row))))%Z eqn:F; [reflexivity|lia].
Qed.

(* ---------- single-bit changes of the version nibble and of the four length bytes ---------- *)
Lemma flip_enum :
  forallb (fun b => forallb (fun i => (flip_bit b i <? 256) && negb (flip_bit b i =? b)) (map N.of_nat (seq 0 8)))
          (map N.of_nat (seq 0 256)) = true.
Proof. vm_compute. reflexivity. Qed.

Lemma in_range k n : n < N.of_nat k -> In n (map N.of_nat (seq 0 k)).
Proof. intros H. apply in_map_iff. exists (N.to_nat n). split; [apply N2Nat.id|]. apply in_seq. lia. Qed.

Lemma flip_bit_byte b i : b < 256 -> i < 8 -> flip_bit b i < 256 /\ flip_bit b i <> b.
Proof.
  intros Hb Hi. pose proof flip_enum as E. rewrite forallb_forall in E.
  specialize (E b (in_range 256 b Hb)). rewrite forallb_forall in E. specialize (E i (in_range 8 i Hi)).
  apply andb_prop in E. destruct E as [E1 E2]. apply negb_true_iff in E2. split; lia.
Qed.

Theorem single_bit_flips ts row r i b : encode_row ts row = Ok r ->
  (i = 0 /\ 4 <= b < 8) \/ (2 <= i <= 5 /\ b < 8) ->
  decode_row (flip_at r i b) = Raise DataError.
Proof.
  intros He Hib. pose proof He as He0. apply encode_row_inv in He0. destruct He0 as (Er & Hcap & _ & _).
  pose proof cap_lt_2_31 as Hc.
  destruct (record_shape ts (pack (MArr row))) as (c2 & c3 & c4 & c5 & tl & Hr & H2 & H3 & H4 & H5 & Hf & Htl); [lia|].
  rewrite Hr in Er. subst r. unfold flip_at.
  destruct Hib as [[-> Hb] | [Hi Hb]].
  - change (set_nth (16 :: ?t) (N.to_nat 0) ?f) with (f 16 :: t).
    eapply version_altered_rejected; [exact He | |].
    + assert (G : b = 4 \/ b = 5 \/ b = 6 \/ b = 7) by lia. destruct G as [-> | [-> | [-> | ->]]]; reflexivity.
    + assert (G : b = 4 \/ b = 5 \/ b = 6 \/ b = 7) by lia. destruct G as [-> | [-> | [-> | ->]]]; vm_compute; discriminate.
  - assert (G : i = 2 \/ i = 3 \/ i = 4 \/ i = 5) by lia.
    destruct G as [-> | [-> | [-> | ->]]].
    + change (set_nth (?a0 :: ?a1 :: ?x :: ?t) (N.to_nat 2) ?f) with (a0 :: a1 :: f x :: t).
      destruct (flip_bit_byte c2 b H2 Hb) as [G1 G2].
      eapply length_altered_rejected; [exact He | | | | |]; try assumption. congruence.
    + change (set_nth (?a0 :: ?a1 :: ?a2 :: ?x :: ?t) (N.to_nat 3) ?f) with (a0 :: a1 :: a2 :: f x :: t).
      destruct (flip_bit_byte c3 b H3 Hb) as [G1 G2].
      eapply length_altered_rejected; [exact He | | | | |]; try assumption. congruence.
    + change (set_nth (?a0 :: ?a1 :: ?a2 :: ?a3 :: ?x :: ?t) (N.to_nat 4) ?f) with (a0 :: a1 :: a2 :: a3 :: f x :: t).
      destruct (flip_bit_byte c4 b H4 Hb) as [G1 G2].
      eapply length_altered_rejected; [exact He | | | | |]; try assumption. congruence.
    + change (set_nth (?a0 :: ?a1 :: ?a2 :: ?a3 :: ?a4 :: ?x :: ?t) (N.to_nat 5) ?f) with (a0 :: a1 :: a2 :: a3 :: a4 :: f x :: t).
      destruct (flip_bit_byte c5 b H5 Hb) as [G1 G2].
      eapply length_altered_rejected; [exact He | | | | |]; try assumption. congruence.
Qed.

(* ---------- the record determines the row: nothing is folded together on the way in ---------- *)
Theorem encode_injective ts ts' row row' r :
  encode_row ts row = Ok r -> encode_row ts' row' = Ok r -> row = row'.
Proof.
  intros H1 H2. apply encode_row_inv in H1. apply encode_row_inv in H2.
  destruct H1 as (E1 & _ & W1 & D1). destruct H2 as (E2 & _ & W2 & D2).
  assert (P : pack (MArr row) = pack (MArr row')).
  { rewrite E1 in E2. unfold record in E2. apply (f_equal (skipn 14)) in E2. rewrite !app_assoc in E2.
    rewrite !skipn_exact in E2 by (rewrite !app_length, !be_length; reflexivity). exact E2. }
  pose proof enc_limit_le_dec_limit as Hl. unfold enc_limit in Hl.
  assert (U1 : unpack dec_fuel (pack (MArr row) ++ []) = Some (MArr row, [])).
  { apply unpack_pack; [exact W1|]. unfold dec_fuel. pose proof (vdepth_cdepth (MArr row)) as Hv. lia. }
  assert (U2 : unpack dec_fuel (pack (MArr row') ++ []) = Some (MArr row', [])).
  { apply unpack_pack; [exact W2|]. unfold dec_fuel. pose proof (vdepth_cdepth (MArr row')) as Hv. lia. }
  rewrite P in U1. rewrite U1 in U2. congruence.
Qed.

(* ---------- the other entry points agree with the two the rest of the development is about ---------- *)
Lemma from_bytes_cls_agrees c data : from_bytes_cls c data = decode_row data.
Proof. unfold from_bytes_cls, row_new. destruct (decode_row data); reflexivity. Qed.

Lemma encode_row_cls_agrees c ts row : encode_row_cls c ts row = encode_row ts row.
Proof. reflexivity. Qed.

Theorem roundtrip_any_class c c' ts row r :
  encode_row_cls c ts row = Ok r -> no_datetime row = true -> from_bytes_cls c' r = Ok (map CVal row).
Proof. rewrite encode_row_cls_agrees, from_bytes_cls_agrees. apply roundtrip. Qed.

Theorem rejected_any_class c c' ts row r x :
  encode_row_cls c ts row = Ok r ->
  (exists k, (k < length r)%nat /\ x = firstn k r) \/ (exists s, s <> [] /\ x = r ++ s) \/
  (exists i b, ((i = 0 /\ 4 <= b < 8) \/ (2 <= i <= 5 /\ b < 8)) /\ x = flip_at r i b) ->
  from_bytes_cls c' x = Raise DataError.
Proof.
  rewrite encode_row_cls_agrees, from_bytes_cls_agrees. intros He [(k & Hk & ->) | [(s & Hs & ->) | (i & b & Hib & ->)]].
  - eapply torn_rejected; eassumption.
  - eapply extended_rejected; eassumption.
  - eapply single_bit_flips; eassumption.
Qed.
