(* C01 - lemmas (being built) *)
From Coq Require Import List NArith ZArith Bool Lia.
From Orso Require Import Gen.C01_RowFmt Model.C01.
Import ListNotations.
