(* C06 round 4 - lemmas about FlatColumn's own keyword arguments next to the type name
   (Model/C06.v: kwargs, elt_resolve, column_kw, decl_model, unspecified). *)
From Coq Require Import List NArith ZArith Bool String.
From Orso Require Import Base.C06_Defs Gen.C06_Types Gen.C06_Names Gen.C06_Env Model.C06 Proofs.C06.
Import ListNotations.
Open Scope N_scope.

Lemma onone_none : forall (A : Type) (o : option A), onone o = true -> o = None.
Proof. intros A [a|] H; [discriminate H|reflexivity]. Qed.

Lemma unspecified_spec : forall kw, unspecified kw = true ->
  kwN_value (k_len kw) = None /\ kwN_value (k_prec kw) = None /\ kwN_value (k_scale kw) = None /\
  elt_resolve (k_elt kw) = Ok None.
Proof.
  intros kw H. unfold unspecified in H.
  apply andb_true_iff in H. destruct H as [H He].
  apply andb_true_iff in H. destruct H as [H Hs].
  apply andb_true_iff in H. destruct H as [Hl Hp].
  repeat split; try (apply onone_none; assumption).
  destruct (k_elt kw); try discriminate He; reflexivity.
Qed.

(* an explicit None is 'unspecified': the column is what the type name alone gives *)
Lemma column_kw_unspecified : forall kw d,
  kwN_value (k_len kw) = None -> kwN_value (k_prec kw) = None -> kwN_value (k_scale kw) = None ->
  column_kw kw None d = column_of d.
Proof.
  intros kw [ty l p s e] Hl Hp Hs. unfold column_kw, column_of. rewrite Hl, Hp, Hs.
  cbn [d_ty d_len d_prec d_scale d_elt fill].
  destruct ty as [m| |]; cbn [plain]; reflexivity.
Qed.

Lemma decl_model_unspecified : forall ci kw, unspecified kw = true ->
  decl_model ci kw = column_model (ci_X ci) (fun _ => ci_upper ci) (ci_text ci).
Proof.
  intros ci kw H. destruct (unspecified_spec kw H) as [Hl [Hp [Hs He]]].
  unfold decl_model, column_model. rewrite He. fold (ci_resolve ci).
  destruct (ci_resolve ci) as [d|e]; [|reflexivity].
  rewrite (column_kw_unspecified kw d Hl Hp Hs). reflexivity.
Qed.

(* the end-to-end statement of round 1, for a column declared with any mixture of omitted and None keywords *)
Lemma declared_column_kw : forall (ci : col_in) (kw : kwargs) (t : tname),
  unspecified kw = true ->
  wf_name t = true -> ci_upper ci = render t -> proper (denote t) = true ->
  exists c d',
    decl_model ci kw = ColOk c (type_code c) (desc_prec c) (desc_scale c) (Ok d') /\
    d_ty c = d_ty (denote t) /\ d_len c = d_len (denote t) /\ d_elt c = d_elt (denote t) /\
    (forall p, d_prec (denote t) = Some p -> d_prec c = Some p) /\
    (forall sc, d_scale (denote t) = Some sc -> d_scale c = Some sc) /\
    d_ty d' = d_ty c /\ d_prec d' = desc_prec c /\ d_scale d' = desc_scale c /\
    (forall e, d_elt c = Some e -> d_elt d' = Some e).
Proof.
  intros ci kw t U W E P. rewrite (decl_model_unspecified ci kw U).
  exact (declared_column (ci_X ci) (fun _ => ci_upper ci) t (ci_text ci) W E P).
Qed.

(* a keyword passed with a value is what the column carries, whatever the name says; the type is the name's *)
Lemma explicit_values_kept : forall kw e0 d,
  d_ty (column_kw kw e0 d) = d_ty d /\
  (forall n, k_len kw = KVal n -> d_len (column_kw kw e0 d) = Some n) /\
  (forall n, k_prec kw = KVal n -> d_prec (column_kw kw e0 d) = Some n) /\
  (forall n, k_scale kw = KVal n -> d_scale (column_kw kw e0 d) = Some n) /\
  (forall m, e0 = Some m -> d_elt (column_kw kw e0 d) = Some m).
Proof.
  intros kw e0 [ty l p s e]. unfold column_kw. cbn [d_ty d_len d_prec d_scale d_elt].
  destruct ty as [m| |]; [destruct (str_eqb m ty_decimal)|..]; cbn [d_ty d_len d_prec d_scale d_elt];
    (split; [reflexivity|]);
    (split; [intros n H; rewrite H; reflexivity|]);
    (split; [intros n H; rewrite H; reflexivity|]);
    (split; [intros n H; rewrite H; reflexivity|]);
    intros m' H; subst e0; reflexivity.
Qed.
