(* C17, round 7 - the union taken through the augmented-assignment operator (`acc = s; acc += t`,
   operator.iadd, a chain folded with +=).  The step [HIAdd i j] of Model/C17.v is specified as the
   plain sum: it appends [add a b] to the store and leaves every existing schema - the left operand,
   which the caller still holds under another reference, included - as it was.  A chain
   `acc = store[i]; for j in js: acc += store[j]` (each intermediate kept by the harness) leaves the
   original store as a prefix and ends with [fold_left add]. *)
From Coq Require Import List Arith Bool Lia.
From Orso Require Import Model.C17 Proofs.C17 Proofs.C17_Iter.
Import ListNotations.

Section IAdd.
Variables I T P : Type.
Variable ieqb : I -> I -> bool.
Variable teqb : T -> T -> bool.
Variable lower : T -> T.
Variable peqb : P -> P -> bool.

Notation schema := (schema I T P).
Notation hstep := (hstep ieqb teqb lower peqb).
Notation hrun := (hrun ieqb teqb lower peqb).
Notation add := (add ieqb).

Lemma iadd_step (st : list schema) (its : iters T) (i j : nat) (a b : schema) :
  nth_error st i = Some a -> nth_error st j = Some b ->
  hstep (st, its) (HIAdd i j) = ((st ++ [add a b], its), XNew (sname a) (saliases a)) /\
  hstep (st, its) (HIAdd i j) = hstep (st, its) (HOp (OAdd i j)) /\
  (forall k s, nth_error st k = Some s -> nth_error (st ++ [add a b]) k = Some s) /\
  nth_error (st ++ [add a b]) (length st) = Some (add a b).
Proof.
  intros Ha Hb. split; [|split; [reflexivity|split]].
  - simpl. rewrite Ha, Hb. reflexivity.
  - intros k s Hk. rewrite nth_error_app1; [exact Hk|]. apply nth_error_Some. rewrite Hk. discriminate.
  - rewrite nth_error_app2, Nat.sub_diag by lia. reflexivity.
Qed.

(* `acc = store[left]; acc += store[j1]; acc += store[j2]; ...` with every intermediate appended to the
   store: the first += has left operand [left], each later one the result of the previous step *)
Fixpoint iadd_chain (left next : nat) (js : list nat) : list (hop T) :=
  match js with
  | [] => []
  | j :: r => HIAdd left j :: iadd_chain next (S next) r
  end.

Fixpoint partials (a : schema) (bs : list schema) : list schema :=
  match bs with
  | [] => []
  | b :: r => add a b :: partials (add a b) r
  end.

Lemma last_cons_default {A : Type} (l : list A) : forall x d, last (x :: l) d = last l x.
Proof.
  induction l as [|y l IH]; intros x d; [reflexivity|].
  change (last (x :: y :: l) d) with (last (y :: l) d). rewrite !IH. reflexivity.
Qed.

Lemma partials_last (bs : list schema) : forall a, last (partials a bs) a = fold_left add bs a.
Proof.
  induction bs as [|b r IH]; intros a; [reflexivity|].
  cbn [partials fold_left]. rewrite last_cons_default. apply IH.
Qed.

Lemma iadd_chain_run (js : list nat) : forall (st : list schema) (its : iters T) (i : nat) (a : schema) (bs : list schema),
  nth_error st i = Some a -> Forall2 (fun j b => nth_error st j = Some b) js bs ->
  fst (hrun (st, its) (iadd_chain i (length st) js)) = (st ++ partials a bs, its).
Proof.
  induction js as [|j r IH]; intros st its i a bs Ha F; inversion F as [|j' b r' bs' Hb F' E1 E2]; subst.
  - cbn [iadd_chain C17.hrun fst partials]. rewrite app_nil_r. reflexivity.
  - cbn [iadd_chain C17.hrun partials].
    destruct (iadd_step st its i j a b Ha Hb) as (Es & _ & Hk & Hl). unfold store in *. rewrite Es.
    assert (Len : length (st ++ [add a b]) = S (length st)) by (rewrite app_length; simpl; lia).
    assert (F2 : Forall2 (fun j b0 => nth_error (st ++ [add a b]) j = Some b0) r bs').
    { clear - F' Hk. induction F' as [|x y l l' Hx F' IHF]; constructor; [apply Hk; exact Hx | exact IHF]. }
    pose proof (IH (st ++ [add a b]) its (length st) (add a b) bs' Hl F2) as IH'. rewrite Len in IH'.
    destruct (hrun (st ++ [add a b], its) (iadd_chain (length st) (S (length st)) r)) as (sti2, xs).
    cbn [fst] in *. rewrite IH', <- app_assoc. reflexivity.
Qed.

End IAdd.
