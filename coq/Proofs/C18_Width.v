(* C18 - width accounting: scan / trunc_printable on well-formed markup, the cell formatter,
   the line builders and the final cut. *)
From Coq Require Import String.
From Coq Require Import List NArith ZArith Bool Arith Lia.
From Orso Require Import Gen.C18_Tables Model.C18.
Import ListNotations.
Local Open Scope list_scope.

(* ------------------------------------------------------------------ *)
(* characters *)
Definition pc (c : N) : Prop := (32 <= c <= 126)%N.
Definition pascii (s : text) : Prop := Forall pc s.

(* what trunc_printable can account for exactly: \001, or a one-column character that is
   not LF / CR / ESC *)
Definition okcb (c : N) : bool :=
  (c =? 1)%N || (negb (c =? 10)%N && negb (c =? 13)%N && negb (c =? 27)%N && (char_width c =? 1)).
Definition okt (s : text) : Prop := Forall (fun c => okcb c = true) s.

Lemma ascii_widths : forallb (fun k => char_width (N.of_nat k) =? 1) (seq 32 95) = true.
Proof. vm_compute. reflexivity. Qed.

Lemma pc_width c : pc c -> char_width c = 1.
Proof.
  intros [H1 H2]. pose proof ascii_widths as H. rewrite forallb_forall in H.
  specialize (H (N.to_nat c)). rewrite N2Nat.id in H. apply Nat.eqb_eq, H, in_seq. lia.
Qed.

Lemma pc_okc c : pc c -> okcb c = true.
Proof.
  intros H. unfold okcb. rewrite (pc_width c H). destruct H as [H1 H2].
  destruct (c =? 1)%N eqn:E1; [reflexivity|].
  destruct (c =? 10)%N eqn:E2; [apply N.eqb_eq in E2; lia|].
  destruct (c =? 13)%N eqn:E3; [apply N.eqb_eq in E3; lia|].
  destruct (c =? 27)%N eqn:E4; [apply N.eqb_eq in E4; lia|]. reflexivity.
Qed.

Lemma pc_plain c : pc c -> (c =? 27)%N = false /\ (c =? 1)%N = false /\ (c =? 10)%N = false /\ (c =? 13)%N = false.
Proof. intros [H1 H2]. repeat split; apply N.eqb_neq; lia. Qed.

Lemma pascii_okt s : pascii s -> okt s.
Proof. intros H. eapply Forall_impl; [|exact H]. exact pc_okc. Qed.

Lemma pascii_app a b : pascii a -> pascii b -> pascii (a ++ b).
Proof. intros; apply Forall_app; auto. Qed.
Lemma okt_app a b : okt a -> okt b -> okt (a ++ b).
Proof. intros; apply Forall_app; auto. Qed.

Lemma pascii_spaces k : pascii (spaces k).
Proof. unfold spaces. induction k; cbn; constructor; auto. unfold pc; lia. Qed.

Lemma pascii_firstn k s : pascii s -> pascii (firstn k s).
Proof.
  intros H. revert k; induction H as [|c s Hc Hs IH]; intros [|k]; cbn [firstn]; try constructor; auto.
  apply IH.
Qed.

(* ------------------------------------------------------------------ *)
(* scan *)
Lemma scan_app a b ign :
  scan (a ++ b) ign =
  let '(ka, e) := scan a ign in let '(kb, e') := scan b e in (ka + kb, e').
Proof.
  revert ign; induction a as [|c a IH]; intros ign; cbn [app scan].
  - destruct (scan b ign). reflexivity.
  - rewrite IH.
    destruct (scan a _) as [ka e]. destruct (scan b e) as [kb e'].
    destruct (ign || (c =? 27)%N || (c =? 1)%N); reflexivity.
Qed.

Lemma scan_pascii s : pascii s -> scan s false = (length s, false).
Proof.
  induction 1 as [|c s Hc Hs IH]; cbn [scan length]; [reflexivity|].
  destruct (pc_plain c Hc) as (E1 & E2 & _). rewrite E1, E2. cbn [orb andb]. rewrite IH. reflexivity.
Qed.

(* well-formed piece of markup showing k columns *)
Definition wf (s : text) (k : nat) : Prop := okt s /\ scan s false = (k, false).

Definition wfb (s : text) (k : nat) : bool :=
  forallb okcb s && (let '(k', e) := scan s false in (k' =? k) && negb e).

Lemma wfb_wf s k : wfb s k = true -> wf s k.
Proof.
  unfold wfb, wf. intros H. apply andb_prop in H. destruct H as [H1 H2]. split.
  - apply Forall_forall. rewrite forallb_forall in H1. exact H1.
  - destruct (scan s false) as [k' e]. apply andb_prop in H2. destruct H2 as [H2 H3].
    apply Nat.eqb_eq in H2. destruct e; [discriminate|]. now subst.
Qed.

Lemma wf_app a b ka kb : wf a ka -> wf b kb -> wf (a ++ b) (ka + kb).
Proof.
  intros [Ha1 Ha2] [Hb1 Hb2]. split; [now apply okt_app|].
  rewrite scan_app, Ha2, Hb2. reflexivity.
Qed.

Lemma wf_pascii s : pascii s -> wf s (length s).
Proof. intros H. split; [now apply pascii_okt|now apply scan_pascii]. Qed.

Lemma wf_nil : wf [] 0.
Proof. split; [constructor|reflexivity]. Qed.

Lemma wf_spaces k : wf (spaces k) k.
Proof.
  pose proof (wf_pascii _ (pascii_spaces k)) as H. unfold spaces in *. now rewrite repeat_length in H.
Qed.

Lemma wf_repeat c k : wfb [c] 1 = true -> wf (repeat c k) k.
Proof.
  intros H. apply wfb_wf in H. induction k as [|k IH]; cbn [repeat]; [exact wf_nil|].
  change (c :: repeat c k) with ([c] ++ repeat c k). change (S k) with (1 + k). now apply wf_app.
Qed.

(* ------------------------------------------------------------------ *)
(* trunc_printable *)
Lemma tp_go_spec s : forall w off ign, okt s -> off < w ->
  let '(e, o, early) := tp_go w s off ign in
  okt e /\
  if early then scan e ign = (w - off, false) /\ o = w /\ w <= off + fst (scan s ign)
  else e = s /\ o = off + fst (scan s ign) /\ o < w.
Proof.
  induction s as [|c r IH]; intros w off ign Hs Hoff; cbn [tp_go scan].
  - split; [constructor|]. cbn. repeat split; lia.
  - inversion Hs as [|c' r' Hc Hr]; subst. unfold okcb in Hc.
    destruct (c =? 1)%N eqn:E1.
    + (* \001 *)
      apply N.eqb_eq in E1. subst c. cbn [N.eqb Pos.eqb orb andb negb].
      rewrite !orb_true_r. cbn [negb andb].
      specialize (IH w off true Hr Hoff).
      destruct (tp_go w r off true) as [[e o] early].
      destruct (scan r true) as [k ig] eqn:Es. destruct IH as [IH1 IH2].
      split; [constructor; [reflexivity|exact IH1]|].
      destruct early.
      * cbn [scan N.eqb Pos.eqb orb andb]. rewrite !orb_true_r. cbn [andb].
        destruct IH2 as (H1 & H2 & H3). rewrite H1. repeat split; auto.
      * destruct IH2 as (H1 & H2 & H3). subst e. repeat split; auto.
    + cbn [orb] in Hc. apply andb_prop in Hc. destruct Hc as [Hc Hw].
      apply andb_prop in Hc. destruct Hc as [Hc H27]. apply andb_prop in Hc. destruct Hc as [H10 H13].
      apply negb_true_iff in H10, H13, H27. apply Nat.eqb_eq in Hw.
      rewrite H10, H13, H27, Hw. rewrite !orb_false_r.
      destruct ign.
      * (* inside a token *)
        cbn [andb].
        destruct (c =? 109)%N eqn:Em.
        -- cbn [negb andb].
           destruct (w <=? off) eqn:Ew; [apply Nat.leb_le in Ew; lia|].
           specialize (IH w off false Hr Hoff).
           destruct (tp_go w r off false) as [[e o] early].
           destruct (scan r false) as [k ig] eqn:Es. destruct IH as [IH1 IH2].
           split; [constructor; [unfold okcb; now rewrite E1, H10, H13, H27, Hw|exact IH1]|].
           destruct early.
           ++ cbn [scan]. rewrite H27, E1, Em. cbn [orb andb].
              destruct IH2 as (H1 & H2 & H3). rewrite H1. repeat split; auto.
           ++ destruct IH2 as (H1 & H2 & H3). subst e. repeat split; auto.
        -- cbn [negb andb].
           specialize (IH w off true Hr Hoff).
           destruct (tp_go w r off true) as [[e o] early].
           destruct (scan r true) as [k ig] eqn:Es. destruct IH as [IH1 IH2].
           split; [constructor; [unfold okcb; now rewrite E1, H10, H13, H27, Hw|exact IH1]|].
           destruct early.
           ++ cbn [scan]. rewrite H27, E1, Em. cbn [orb andb].
              destruct IH2 as (H1 & H2 & H3). rewrite H1. repeat split; auto.
           ++ destruct IH2 as (H1 & H2 & H3). subst e. repeat split; auto.
      * (* visible character *)
        cbn [andb negb].
        destruct (w <=? off + 1) eqn:Ew.
        -- apply Nat.leb_le in Ew.
           split; [constructor; [unfold okcb; now rewrite E1, H10, H13, H27, Hw|constructor]|].
           cbn [scan]. rewrite H27, E1. cbn [orb andb].
           destruct (scan r false) as [k ig]. cbn [fst].
           repeat split; try lia. f_equal. lia.
        -- apply Nat.leb_gt in Ew.
           specialize (IH w (off + 1) false Hr Ew).
           destruct (tp_go w r (off + 1) false) as [[e o] early].
           destruct (scan r false) as [k ig] eqn:Es. destruct IH as [IH1 IH2].
           split; [constructor; [unfold okcb; now rewrite E1, H10, H13, H27, Hw|exact IH1]|].
           destruct early.
           ++ cbn [scan]. rewrite H27, E1. cbn [orb andb].
              destruct IH2 as (H1 & H2 & H3). rewrite H1. cbn [fst] in *. repeat split; try lia. f_equal. lia.
           ++ destruct IH2 as (H1 & H2 & H3). subst e. cbn [fst] in *. repeat split; lia.
Qed.

Lemma wf_cast s k k' : wf s k -> k = k' -> wf s k'.
Proof. intros H <-. exact H. Qed.

Lemma wf_OFF : wf OFF 0.
Proof. apply wfb_wf. vm_compute. reflexivity. Qed.

(* full_line: exactly w columns *)
Lemma trunc_full_wf s k w : wf s k -> 1 <= w -> wf (trunc_printable s w true) w.
Proof.
  intros [Hs1 Hs2] Hw. unfold trunc_printable.
  pose proof (tp_go_spec s w 0 false Hs1 Hw) as H.
  destruct (tp_go w s 0 false) as [[e o] early]. destruct H as [He H].
  rewrite Hs2 in H. cbn [fst] in H.
  destruct early.
  - destruct H as (H1 & H2 & H3). rewrite Nat.sub_0_r in H1.
    eapply wf_cast; [apply wf_app; [split; eassumption|exact wf_OFF]|lia].
  - destruct H as (H1 & H2 & H3). subst e o. cbn [Nat.add] in *.
    eapply wf_cast; [apply wf_app; [split; eassumption|apply wf_app; [exact wf_OFF|apply wf_spaces]]|lia].
Qed.

(* the final cut: min k w columns *)
Lemma trunc_cut_wf s k w : wf s k -> 1 <= w -> wf (trunc_printable s w false) (Nat.min k w).
Proof.
  intros [Hs1 Hs2] Hw. unfold trunc_printable.
  pose proof (tp_go_spec s w 0 false Hs1 Hw) as H.
  destruct (tp_go w s 0 false) as [[e o] early]. destruct H as [He H].
  rewrite Hs2 in H. cbn [fst] in H.
  destruct early.
  - destruct H as (H1 & H2 & H3). rewrite Nat.sub_0_r in H1. cbn [Nat.add] in H3.
    eapply wf_cast; [apply wf_app; [split; eassumption|exact wf_OFF]|lia].
  - destruct H as (H1 & H2 & H3). subst e o. cbn [Nat.add] in *.
    eapply wf_cast; [apply wf_app; [split; eassumption|exact wf_OFF]|lia].
Qed.

Lemma wf_pw s k : wf s k -> pw s = k.
Proof. intros [_ H]. unfold pw. now rewrite H. Qed.

(* ------------------------------------------------------------------ *)
(* str helpers on printable ASCII *)
Definition pasciib (s : text) : bool := forallb (fun c => (32 <=? c)%N && (c <=? 126)%N) s.
Lemma pasciib_pascii s : pasciib s = true -> pascii s.
Proof.
  unfold pasciib, pascii. rewrite forallb_forall, Forall_forall. intros H c Hc.
  specialize (H c Hc). apply andb_prop in H. destruct H as [H1 H2].
  apply N.leb_le in H1, H2. split; assumption.
Qed.

Lemma spaces_length k : length (spaces k) = k.
Proof. apply repeat_length. Qed.

Lemma pascii_ljust w s : pascii s -> pascii (ljust w s).
Proof. intros. apply pascii_app; auto using pascii_spaces. Qed.
Lemma pascii_rjust w s : pascii s -> pascii (rjust w s).
Proof. intros. apply pascii_app; auto using pascii_spaces. Qed.
Lemma pascii_center w s : pascii s -> pascii (center w s).
Proof. intros. unfold center. repeat apply pascii_app; auto using pascii_spaces. Qed.

Lemma ljust_length w s : length (ljust w s) = Nat.max w (length s).
Proof. unfold ljust. rewrite app_length, spaces_length. lia. Qed.
Lemma rjust_length w s : length (rjust w s) = Nat.max w (length s).
Proof. unfold rjust. rewrite app_length, spaces_length. lia. Qed.
Lemma center_length w s : length (center w s) = Nat.max w (length s).
Proof.
  unfold center. rewrite !app_length, !spaces_length.
  set (marg := w - length s).
  assert (marg / 2 + (if Nat.odd marg && Nat.odd w then 1 else 0) <= marg).
  { destruct marg as [|[|m]].
    - cbn. lia.
    - cbn. destruct (Nat.odd w); cbn; lia.
    - assert (S (S m) / 2 < S (S m)) by (apply Nat.div_lt; lia).
      assert (S (S m) / 2 <= S m) by lia.
      destruct (Nat.odd (S (S m)) && Nat.odd w); [|lia].
      pose proof (Nat.div_mod (S (S m)) 2 ltac:(lia)). pose proof (Nat.mod_upper_bound (S (S m)) 2 ltac:(lia)). lia. }
  subst marg. lia.
Qed.

Lemma take_exact w s : w <= length s -> length (take w s) = w.
Proof. intros. unfold take. rewrite firstn_length. lia. Qed.

Lemma wf_take_pad w s :
  pascii s -> w <= length s -> wf (take w s) w.
Proof.
  intros Hp Hl. pose proof (wf_pascii _ (pascii_firstn w s Hp)) as H.
  unfold take. rewrite firstn_length in H. eapply wf_cast; [exact H|lia].
Qed.

Lemma wf_take_rjust w s : pascii s -> wf (take w (rjust w s)) w.
Proof. intros. apply wf_take_pad; [now apply pascii_rjust|rewrite rjust_length; lia]. Qed.
Lemma wf_take_ljust w s : pascii s -> wf (take w (ljust w s)) w.
Proof. intros. apply wf_take_pad; [now apply pascii_ljust|rewrite ljust_length; lia]. Qed.
Lemma wf_take_center w s : pascii s -> wf (take w (center w s)) w.
Proof. intros. apply wf_take_pad; [now apply pascii_center|rewrite center_length; lia]. Qed.

(* tokens *)
Ltac wfc := apply wfb_wf; vm_compute; reflexivity.
Lemma wf_NULL : wf (tok "NULL") 0. Proof. wfc. Qed.
Lemma wf_CONST : wf (tok "CONST") 0. Proof. wfc. Qed.
Lemma wf_INTEGER : wf (tok "INTEGER") 0. Proof. wfc. Qed.
Lemma wf_FLOAT : wf (tok "FLOAT") 0. Proof. wfc. Qed.
Lemma wf_VARCHAR : wf (tok "VARCHAR") 0. Proof. wfc. Qed.
Lemma wf_DATE : wf (tok "DATE") 0. Proof. wfc. Qed.
Lemma wf_TIME : wf (tok "TIME") 0. Proof. wfc. Qed.
Lemma wf_BLOB : wf (tok "BLOB") 0. Proof. wfc. Qed.
Lemma wf_PUNC : wf (tok "PUNC") 0. Proof. wfc. Qed.
Lemma wf_KEY : wf (tok "KEY") 0. Proof. wfc. Qed.
Lemma wf_VALUE : wf (tok "VALUE") 0. Proof. wfc. Qed.
Lemma wf_INTERVAL : wf (tok "INTERVAL") 0. Proof. wfc. Qed.
Lemma wf_TYPE : wf (tok "TYPE") 0. Proof. wfc. Qed.
Lemma wf_HEAD : wf (tok "HEAD") 0. Proof. wfc. Qed.

(* some width *)
Definition wfx (s : text) : Prop := exists k, wf s k.
Lemma wfx_of s k : wf s k -> wfx s. Proof. intros; now exists k. Qed.
Lemma wfx_app a b : wfx a -> wfx b -> wfx (a ++ b).
Proof. intros [ka Ha] [kb Hb]. exists (ka + kb). now apply wf_app. Qed.
Lemma wfx_pascii s : pascii s -> wfx s.
Proof. intros. eexists. now apply wf_pascii. Qed.
Lemma wfx_T s : pasciib s = true -> wfx s.
Proof. intros. apply wfx_pascii, pasciib_pascii; assumption. Qed.

Lemma wfx_join sep l : wfx sep -> Forall wfx l -> wfx (join sep l).
Proof.
  intros Hs H. induction H as [|x l Hx Hl IH]; cbn [join]; [exists 0; exact wf_nil|].
  destruct l as [|y l']; [exact Hx|]. apply wfx_app; [exact Hx|apply wfx_app; [exact Hs|exact IH]].
Qed.

Lemma trunc_full_wfx s w : wfx s -> 1 <= w -> wf (trunc_printable s w true) w.
Proof. intros [k H] Hw. eapply trunc_full_wf; eauto. Qed.

(* decimal digits *)
Lemma pascii_decN_go fuel : forall n acc, pascii acc -> pascii (decN_go fuel n acc).
Proof.
  induction fuel as [|f IH]; intros n acc Ha; cbn [decN_go]; [exact Ha|].
  assert (Hd : pascii ((48 + n mod 10)%N :: acc)).
  { constructor; [|exact Ha]. pose proof (N.mod_upper_bound n 10 ltac:(lia)) as Hm. unfold pc.
    revert Hm. generalize (n mod 10)%N. intros; lia. }
  destruct (n <? 10)%N; [exact Hd|apply IH, Hd].
Qed.
Lemma pascii_dec_N n : pascii (dec_N n).
Proof. apply pascii_decN_go. constructor. Qed.
Lemma pascii_dec_Z z : pascii (dec_Z z).
Proof.
  unfold dec_Z. destruct (z <? 0)%Z; [|apply pascii_dec_N].
  constructor; [unfold pc; lia|apply pascii_dec_N].
Qed.
Lemma pascii_two n : (n < 100)%N -> pascii (two n).
Proof.
  intros H. unfold two. pose proof (N.mod_upper_bound n 10 ltac:(lia)) as Hm.
  assert (Hd : (n / 10 < 10)%N) by (apply N.div_lt_upper_bound; lia).
  revert Hm Hd. generalize (n mod 10)%N (n / 10)%N. intros.
  repeat constructor; unfold pc; lia.
Qed.
Lemma pascii_sec_text s frac : pascii (sec_text s frac).
Proof.
  unfold sec_text. apply pascii_app; [apply pascii_dec_N|].
  apply pascii_app; [repeat constructor; unfold pc; lia|].
  apply pascii_two. apply N.mod_upper_bound. lia.
Qed.

Lemma pascii_dec_go fuel : forall n acc, pascii acc -> pascii (dec_go fuel n acc).
Proof.
  induction fuel as [|f IH]; intros n acc Ha; cbn [dec_go]; [exact Ha|].
  assert (Hd : pascii (N.of_nat (48 + n mod 10) :: acc)).
  { constructor; [|exact Ha]. pose proof (Nat.mod_upper_bound n 10 ltac:(lia)) as Hm. unfold pc.
    revert Hm. generalize (n mod 10). intros; lia. }
  destruct (n <? 10); [exact Hd|apply IH, Hd].
Qed.
Lemma pascii_dec_nat n : pascii (dec_nat n).
Proof. apply pascii_dec_go. constructor. Qed.

(* number of digits, and its monotonicity *)
Fixpoint nd (fuel n : nat) : nat :=
  match fuel with O => 0 | S f => if n <? 10 then 1 else S (nd f (n / 10)) end.
Lemma dec_go_length fuel : forall n acc, length (dec_go fuel n acc) = length acc + nd fuel n.
Proof.
  induction fuel as [|f IH]; intros n acc; cbn [dec_go nd]; [lia|].
  destruct (n <? 10); [cbn [length]; lia|]. rewrite IH. cbn [length]. lia.
Qed.
Lemma dec_nat_length n : length (dec_nat n) = nd (S n) n.
Proof. unfold dec_nat. now rewrite dec_go_length. Qed.
Lemma nd_mono fa : forall fb a b, a <= b -> a < fa -> b < fb -> nd fa a <= nd fb b.
Proof.
  induction fa as [|fa IH]; intros fb a b Hab Ha Hb; [lia|].
  destruct fb as [|fb]; [lia|]. cbn [nd].
  destruct (a <? 10) eqn:Ea.
  - destruct (b <? 10); lia.
  - apply Nat.ltb_ge in Ea. destruct (b <? 10) eqn:Eb; [apply Nat.ltb_lt in Eb; lia|].
    apply le_n_S. apply IH.
    + apply Nat.div_le_mono; lia.
    + assert (a / 10 < a) by (apply Nat.div_lt; lia). lia.
    + apply Nat.ltb_ge in Eb. assert (b / 10 < b) by (apply Nat.div_lt; lia). lia.
Qed.
Lemma dec_nat_length_mono a b : a <= b -> length (dec_nat a) <= length (dec_nat b).
Proof. intros. rewrite !dec_nat_length. apply nd_mono; lia. Qed.
Lemma dec_nat_length_pos a : 1 <= length (dec_nat a).
Proof. rewrite dec_nat_length. cbn [nd]. destruct (a <? 10); lia. Qed.

(* UTF-8 decoding of ASCII bytes is the identity *)
Lemma utf8_items_ascii bs : Forall (fun b => (b < 128)%N) bs -> utf8_items bs = map Some bs.
Proof.
  induction 1 as [|b bs Hb Hbs IH]; cbn [utf8_items map]; [reflexivity|].
  apply N.ltb_lt in Hb. rewrite Hb, IH. reflexivity.
Qed.
Lemma utf8_decode_ascii r bs : pascii bs -> utf8_decode r bs = Ok bs.
Proof.
  intros H. unfold utf8_decode. rewrite utf8_items_ascii.
  - assert (E : forallb (fun o : option N => match o with Some _ => true | None => false end) (map Some bs) = true).
    { apply forallb_forall. intros o Ho. apply in_map_iff in Ho. now destruct Ho as (x & <- & _). }
    rewrite E, map_map, map_id. destruct r; reflexivity.
  - eapply Forall_impl; [|exact H]. intros c [_ Hc]. lia.
Qed.

(* ------------------------------------------------------------------ *)
(* printable cell values and the formatter *)
Fixpoint pval (v : value) : Prop :=
  match v with
  | VNone | VBool _ | VNpBool _ | VInterval _ _ _ _ | VNpTimedelta _ _ _ => True
  | VInt s | VFloat _ s | VDecimal s | VStr s | VDate s | VOther s
  | VNpInt s | VNpFloat _ s | VNpOther s => pascii s
  | VDateTime d t => pascii d /\ pascii t
  | VBytes bs => pascii bs
  | VDict kvs => Forall (fun kv => pascii (fst kv) /\ pascii (snd kv)) kvs
  | VList items => Forall pascii items
  | VNpArray x => pval x
  | VSub x => pval x
  end.

Lemma pval_unsub v : pval v -> pval (unsub v).
Proof. induction v; cbn [unsub pval]; auto. Qed.

Lemma unsub_idem v : unsub (unsub v) = unsub v.
Proof. induction v; cbn [unsub]; auto. Qed.

Lemma pascii_bool_text b : pascii (bool_text b).
Proof. destruct b; apply pasciib_pascii; reflexivity. Qed.

Lemma wf3 a b c w : wf a 0 -> wf b w -> wf c 0 -> wf (a ++ b ++ c) w.
Proof.
  intros Ha Hb Hc. eapply wf_cast; [apply wf_app; [exact Ha|apply wf_app; [exact Hb|exact Hc]]|lia].
Qed.

Lemma wfx_dict_item kv : pascii (fst kv) -> pascii (snd kv) -> wfx (dict_item kv).
Proof.
  intros Hk Hv. unfold dict_item.
  apply wfx_app; [apply wfx_T; reflexivity|].
  apply wfx_app; [exact (wfx_of _ _ wf_KEY)|].
  apply wfx_app; [now apply wfx_pascii|].
  apply wfx_app; [exact (wfx_of _ _ wf_PUNC)|].
  apply wfx_app; [apply wfx_T; reflexivity|].
  apply wfx_app; [exact (wfx_of _ _ wf_VALUE)|].
  apply wfx_app; [now apply wfx_pascii|].
  apply wfx_app; [exact (wfx_of _ _ wf_PUNC)|apply wfx_T; reflexivity].
Qed.

Lemma pascii_interval_parts m d s f : Forall pascii (interval_parts m d s f).
Proof.
  unfold interval_parts.
  repeat (apply Forall_app; split);
  match goal with |- Forall _ (if ?c then _ else _) => destruct c end;
  try constructor; try constructor;
  try (apply pascii_app; [first [apply pascii_dec_Z|apply pascii_sec_text]|apply pasciib_pascii; reflexivity]).
Qed.

Lemma Ok_inj {A} (a b : A) : Ok a = Ok b -> a = b.
Proof. intros H; injection H; auto. Qed.

Lemma fmt_value_wf v w t : pval v -> 1 <= w -> fmt_value v w = Ok t -> wf t w.
Proof.
  intros Hv Hw H.
  destruct v; cbn [fmt_value pval] in *.
  - (* VNone *) apply Ok_inj in H; subst t. apply wf3; [exact wf_NULL|apply wf_take_rjust, pasciib_pascii; reflexivity|exact wf_OFF].
  - apply Ok_inj in H; subst t. apply wf3; [exact wf_CONST|apply wf_take_rjust, pascii_bool_text|exact wf_OFF].
  - apply Ok_inj in H; subst t. apply wf3; [exact wf_INTEGER|now apply wf_take_rjust|exact wf_OFF].
  - destruct isnan; apply Ok_inj in H; subst t.
    + apply wf3; [exact wf_NULL|apply wf_take_rjust, pasciib_pascii; reflexivity|exact wf_OFF].
    + apply wf3; [exact wf_FLOAT|now apply wf_take_rjust|exact wf_OFF].
  - apply Ok_inj in H; subst t. apply wf3; [exact wf_FLOAT|now apply wf_take_rjust|exact wf_OFF].
  - (* VStr *) apply Ok_inj in H; subst t.
    apply wf3; [exact wf_VARCHAR| |exact wf_OFF].
    apply trunc_full_wfx; [|exact Hw]. apply wfx_pascii. now apply pascii_ljust.
  - (* VDateTime *) destruct Hv as [Hd Ht]. apply Ok_inj in H; subst t.
    apply wf3; [exact wf_DATE| |exact wf_OFF].
    apply trunc_full_wfx; [|exact Hw]. unfold rjust.
    apply wfx_app; [apply wfx_pascii, pascii_spaces|].
    apply wfx_app; [now apply wfx_pascii|]. apply wfx_app; [apply wfx_T; reflexivity|].
    apply wfx_app; [exact (wfx_of _ _ wf_TIME)|now apply wfx_pascii].
  - (* VDate *) apply Ok_inj in H; subst t.
    apply wf3; [exact wf_DATE| |exact wf_OFF].
    apply trunc_full_wfx; [|exact Hw]. apply wfx_pascii. now apply pascii_rjust.
  - (* VBytes *) rewrite (utf8_decode_ascii _ _ Hv) in H. cbn [bind] in H. apply Ok_inj in H; subst t.
    apply wf3; [exact wf_BLOB| |exact wf_OFF].
    apply trunc_full_wfx; [|exact Hw]. apply wfx_pascii. now apply pascii_ljust.
  - (* VDict *) apply Ok_inj in H; subst t. apply trunc_full_wfx; [|exact Hw].
    apply wfx_app; [exact (wfx_of _ _ wf_PUNC)|]. apply wfx_app; [apply wfx_T; reflexivity|].
    apply wfx_app; [|apply wfx_app; [apply wfx_T; reflexivity|exact (wfx_of _ _ wf_OFF)]].
    apply wfx_join; [apply wfx_app; [exact (wfx_of _ _ wf_PUNC)|apply wfx_T; reflexivity]|].
    apply Forall_map. eapply Forall_impl; [|exact Hv]. intros kv [Hk Hx]. now apply wfx_dict_item.
  - (* VInterval *) apply Ok_inj in H; subst t. apply trunc_full_wfx; [|exact Hw].
    apply wfx_app; [exact (wfx_of _ _ wf_INTERVAL)|]. apply wfx_app; [|exact (wfx_of _ _ wf_OFF)].
    apply wfx_join; [apply wfx_T; reflexivity|].
    eapply Forall_impl; [|apply pascii_interval_parts]. exact wfx_pascii.
  - (* VList *) apply Ok_inj in H; subst t. apply trunc_full_wfx; [|exact Hw].
    apply wfx_app; [exact (wfx_of _ _ wf_PUNC)|]. apply wfx_app; [apply wfx_T; reflexivity|].
    apply wfx_app; [exact (wfx_of _ _ wf_VALUE)|].
    apply wfx_app; [|apply wfx_app; [exact (wfx_of _ _ wf_PUNC)|apply wfx_app; [apply wfx_T; reflexivity|exact (wfx_of _ _ wf_OFF)]]].
    apply wfx_join.
    + apply wfx_app; [exact (wfx_of _ _ wf_PUNC)|]. apply wfx_app; [apply wfx_T; reflexivity|exact (wfx_of _ _ wf_VALUE)].
    + eapply Forall_impl; [|exact Hv]. exact wfx_pascii.
  - apply Ok_inj in H; subst t. now apply wf_take_ljust.
  - apply Ok_inj in H; subst t. now apply wf_take_ljust.
  - apply Ok_inj in H; subst t. now apply wf_take_ljust.
  - apply Ok_inj in H; subst t. apply wf_take_ljust, pascii_bool_text.
  - apply Ok_inj in H; subst t. now apply wf_take_ljust.
  - apply Ok_inj in H; subst t. apply wf_take_pad; [apply pascii_spaces|rewrite spaces_length; lia].
  - apply Ok_inj in H; subst t. apply wf_take_pad; [apply pascii_spaces|rewrite spaces_length; lia].
  - (* VSub *) apply Ok_inj in H; subst t. apply wf_take_pad; [apply pascii_spaces|rewrite spaces_length; lia].
Qed.

Lemma np_map_pval v v' : pval v -> np_map v = Ok v' -> pval v'.
Proof.
  intros Hv H. destruct v; cbn [np_map pval] in *; try (inversion H; subst; cbn [pval]; auto; fail).
  destruct is_nat; [inversion H; subst; exact I|]. destruct (negb linear); inversion H; subst; exact I.
Qed.

Definition pcell (c : cell) : Prop := pval (cv c).

Lemma type_formatter_wf c w t : pcell c -> 1 <= w -> type_formatter c w = Ok t -> wf t w.
Proof.
  unfold type_formatter, pcell. intros Hc Hw H.
  destruct (np_map (unsub (cv c))) as [v'|e] eqn:E; cbn [bind] in H; [|discriminate].
  apply (fmt_value_wf (unsub v') w t); [exact (pval_unsub _ (np_map_pval _ _ (pval_unsub _ Hc) E))|exact Hw|exact H].
Qed.

(* ------------------------------------------------------------------ *)
(* totality: the formatter returns Ok for every modelled value and every width *)
Lemma fmt_value_total v w : exists t, fmt_value v w = Ok t.
Proof.
  destruct v; cbn [fmt_value]; try (eexists; reflexivity).
  destruct isnan; eexists; reflexivity.
Qed.

Lemma np_map_total v : exists v', np_map v = Ok v'.
Proof.
  destruct v; cbn [np_map]; try (eexists; reflexivity).
  destruct is_nat; [eexists; reflexivity|]. destruct (negb linear); eexists; reflexivity.
Qed.

Lemma type_formatter_total c w : exists t, type_formatter c w = Ok t.
Proof.
  unfold type_formatter. destruct (np_map_total (unsub (cv c))) as [v' ->]. cbn [bind]. apply fmt_value_total.
Qed.

(* ------------------------------------------------------------------ *)
(* subclass instances: every observer of a cell the renderers use (is_none, cell_str = str(value) as supplied,
   type_formatter) gives a subclass instance what it gives the base-class instance of equal content *)
Lemma is_none_sub v s : is_none (mkcell (VSub v) s) = is_none (mkcell v s).
Proof. reflexivity. Qed.

Lemma cell_str_sub v s : cell_str (mkcell (VSub v) s) = cell_str (mkcell v s).
Proof. reflexivity. Qed.

Lemma type_formatter_sub v s w : type_formatter (mkcell (VSub v) s) w = type_formatter (mkcell v s) w.
Proof. reflexivity. Qed.

Lemma type_formatter_unsub c w : type_formatter (mkcell (unsub (cv c)) (cs c)) w = type_formatter c w.
Proof. unfold type_formatter. cbn [cv]. now rewrite unsub_idem. Qed.

(* an ndarray subclass instance (masked array, matrix, recarray, ...) of any content is formatted as its tolist() is *)
Lemma subarray_as_tolist x s w :
  type_formatter (mkcell (VSub (VNpArray x)) s) w = fmt_value (unsub x) w.
Proof. reflexivity. Qed.
