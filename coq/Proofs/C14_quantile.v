(* C14 - quantile is monotone and total on [0,1] (exact arithmetic).
   quantile(q) = clamp(raw(int(total*q))) where raw is piecewise linear in the integer rank:
   a left tail from min to the first centre, one segment per pair of adjacent bins, a right
   tail from the last centre to max.  Each piece is non-decreasing and the pieces are ordered
   (strictly increasing centres), so the whole estimator is non-decreasing in q. *)
From Coq Require Import QArith Qround Lqa ZArith List Bool Lia Sorted Arith.
From Orso Require Import Model.C13 Model.C13_Q Proofs.C13_lists Proofs.C13 Proofs.C13_hist Proofs.C14.
Import ListNotations.
Open Scope Q_scope.

Notation bin := (Q * Z)%type.

(* ---------- arithmetic helpers ---------- *)
Lemma frac_bounds a m : 0 < m -> 0 <= a -> a <= m -> 0 <= a / m /\ a / m <= 1.
Proof.
  intros Hm Ha Ham. split.
  - apply Qle_shift_div_l; [exact Hm|lra].
  - apply Qle_shift_div_r; [exact Hm|lra].
Qed.

Lemma div_mono a1 a2 m : 0 < m -> a1 <= a2 -> a1 / m <= a2 / m.
Proof.
  intros Hm H. unfold Qdiv. apply Qmult_le_compat_r; [exact H|]. apply Qlt_le_weak, Qinv_lt_0_compat. exact Hm.
Qed.

Lemma lerp_bounds u w t : u <= w -> 0 <= t -> t <= 1 -> u <= u + t * (w - u) /\ u + t * (w - u) <= w.
Proof. intros; split; nra. Qed.

Lemma lerp_mono u w t1 t2 : u <= w -> t1 <= t2 -> u + t1 * (w - u) <= u + t2 * (w - u).
Proof. intros; nra. Qed.

Lemma clamp_mono x y lo hi : x <= y -> pmin QA (pmax QA x lo) hi <= pmin QA (pmax QA y lo) hi.
Proof.
  intros H. unfold pmin, pmax. cbn [ltb QA].
  destruct (Qltb_spec x lo), (Qltb_spec y lo);
    repeat match goal with |- context [Qltb ?a ?b] => destruct (Qltb_spec a b) end; lra.
Qed.

Lemma Qtrunc_floor x : 0 <= x -> Qtrunc x = Qfloor x.
Proof.
  destruct x as [n d]. unfold Qle. cbn [Qnum Qden]. intros H. unfold Qtrunc, Qfloor. cbn [Qnum Qden].
  apply Z.quot_div_nonneg; lia.
Qed.

Lemma Qtrunc_mono x y : 0 <= x -> x <= y -> (Qtrunc x <= Qtrunc y)%Z.
Proof. intros Hx Hxy. rewrite !Qtrunc_floor by lra. now apply Qfloor_resp_le. Qed.

Lemma Qtrunc_bounds x : 0 <= x -> (0 <= Qtrunc x)%Z /\ inject_Z (Qtrunc x) <= x.
Proof.
  intros Hx. rewrite Qtrunc_floor by exact Hx. split; [|apply Qfloor_le].
  change 0%Z with (Qfloor 0). now apply Qfloor_resp_le.
Qed.

(* ---------- sums ---------- *)
Fixpoint qsum (l : list Q) : Q := match l with [] => 0 | x :: t => x + qsum t end.

Lemma qsum_app l1 l2 : qsum (l1 ++ l2) == qsum l1 + qsum l2.
Proof. induction l1 as [|x t IH]; cbn [app qsum]; [lra|rewrite IH; lra]. Qed.

Lemma psum_qsum_gen l : forall a, fold_left Qplus l a == a + qsum l.
Proof. induction l as [|x t IH]; intros a; cbn [fold_left qsum]; [lra|rewrite IH; lra]. Qed.

Lemma psum_qsum l : psum QA l == qsum l.
Proof. unfold psum. cbn [add ofZ QA]. rewrite psum_qsum_gen. change (inject_Z 0) with 0. lra. Qed.

(* ---------- mids ---------- *)
Lemma mids_nth (b : list bin) : forall i,
  nth_error (mids QA b) i =
  match nth_error b i, nth_error b (S i) with
  | Some (_, fi), Some (_, fj) => Some (inject_Z (fi + fj) / inject_Z 2)
  | _, _ => None
  end.
Proof.
  induction b as [|[v1 f1] t IH]; intros i; [now destruct i|].
  destruct t as [|[v2 f2] t'].
  - destruct i as [|[|i]]; reflexivity.
  - change (mids QA ((v1, f1) :: (v2, f2) :: t')) with (inject_Z (f1 + f2) / inject_Z 2 :: mids QA ((v2, f2) :: t')).
    destruct i as [|i]; [reflexivity|]. cbn [nth_error]. rewrite IH. reflexivity.
Qed.

Lemma mids_pos (b : list bin) m : pos_counts b -> In m (mids QA b) -> 0 < m.
Proof.
  intros Hp Hm. apply In_nth_error in Hm as [i Hi]. rewrite mids_nth in Hi.
  destruct (nth_error b i) as [[vi fi]|] eqn:E1; [|discriminate].
  destruct (nth_error b (S i)) as [[vj fj]|] eqn:E2; [|discriminate]. inversion Hi; subst.
  unfold pos_counts in Hp. rewrite Forall_forall in Hp.
  pose proof (Hp _ (nth_error_In _ _ E1)) as P1. pose proof (Hp _ (nth_error_In _ _ E2)) as P2. cbn [snd] in *.
  apply Qlt_shift_div_l; [reflexivity|]. rewrite Qmult_0_l. change 0 with (inject_Z 0). rewrite <- Zlt_Qlt. lia.
Qed.

Lemma qsum_firstn_nonneg (l : list Q) : (forall m, In m l -> 0 < m) -> forall k, 0 <= qsum (firstn k l).
Proof.
  induction l as [|x t IH]; intros Hp k; [rewrite firstn_nil; cbn; lra|].
  destruct k; cbn [firstn qsum]; [lra|].
  pose proof (Hp x (or_introl eq_refl)). pose proof (IH (fun m H => Hp m (or_intror H)) k). lra.
Qed.

Lemma qsum_firstn_mono (l : list Q) : (forall m, In m l -> 0 < m) ->
  forall i k, (i <= k)%nat -> qsum (firstn i l) <= qsum (firstn k l).
Proof.
  induction l as [|x t IH]; intros Hp i k Hik.
  - rewrite !firstn_nil. lra.
  - destruct i as [|i]; destruct k as [|k]; cbn [firstn qsum]; try lia; try lra.
    + pose proof (qsum_firstn_nonneg t (fun m H => Hp m (or_intror H)) k).
      pose proof (Hp x (or_introl eq_refl)). lra.
    + pose proof (IH (fun m H => Hp m (or_intror H)) i k ltac:(lia)). lra.
Qed.

(* ---------- find_mid ---------- *)
Definition accv (acc : option Q) : Q := match acc with None => 0 | Some a => a end.

Lemma find_mid_spec (l : list Q) : forall mb acc i0 i m,
  match acc with None => True | Some a => a <= mb end ->
  find_mid QA mb acc i0 l = Some (i, m) ->
  exists k, i = (i0 + k)%nat /\ nth_error l k = Some m /\
            match k, acc with O, None => True | _, _ => accv acc + qsum (firstn k l) <= mb end /\
            mb < accv acc + qsum (firstn k l) + m.
Proof.
  induction l as [|x t IH]; intros mb acc i0 i m Hacc H; cbn [find_mid] in H; [discriminate|].
  cbn [ltb add QA] in H.
  set (acc' := match acc with None => x | Some a => a + x end) in *.
  assert (Eacc' : acc' == accv acc + x) by (unfold acc', accv; destruct acc; lra).
  destruct (Qltb_spec mb acc') as [Hlt|Hge].
  - inversion H; subst. exists 0%nat. split; [lia|]. split; [reflexivity|]. cbn [firstn qsum]. split.
    + destruct acc; [|exact I]. cbn [accv]. lra.
    + lra.
  - destruct (IH mb (Some acc') (S i0) i m ltac:(cbn; lra) H) as (k & Ei & Hn & Hlo & Hhi).
    exists (S k). split; [lia|]. split; [exact Hn|]. cbn [firstn qsum accv] in *. split.
    + destruct k; destruct acc; cbn [accv] in *; lra.
    + lra.
Qed.

(* ---------- the interior segments ---------- *)
Section QM.
Variable s : @C13.st Q.
Variables mn mx : Q.
Hypothesis HI : Inv s.
Hypothesis Hmn : hmin s = Some mn.
Hypothesis Hmx : hmax s = Some mx.

Let b := bins s.
Let ms := mids QA b.

Definition mid_raw (mb : Q) : option Q :=
  match find_mid QA mb None O ms with
  | None => None
  | Some (i, mi) =>
      match nth_error b i, nth_error b (S i) with
      | Some (vi, _), Some (vj, _) =>
          Some (add QA vi (mul QA (div QA (sub QA mb (psum QA (firstn i ms))) mi) (sub QA vj vi)))
      | _, _ => None
      end
  end.

Lemma ms_pos m : In m ms -> 0 < m.
Proof. destruct HI as (_ & Hp & _). now apply mids_pos. Qed.

Lemma mid_raw_char mb x : 0 <= mb -> mid_raw mb = Some x ->
  exists i vi fi vj fj mi C,
    nth_error b i = Some (vi, fi) /\ nth_error b (S i) = Some (vj, fj) /\ nth_error ms i = Some mi /\
    C == qsum (firstn i ms) /\ C <= mb /\ mb < C + mi /\ 0 < mi /\ vi < vj /\
    x = vi + (mb - C) / mi * (vj - vi).
Proof.
  intros Hmb. unfold mid_raw. destruct (find_mid QA mb None 0 ms) as [[i mi]|] eqn:F; [|discriminate].
  destruct (nth_error b i) as [[vi fi]|] eqn:E1; [|discriminate].
  destruct (nth_error b (S i)) as [[vj fj]|] eqn:E2; [|discriminate].
  intros H; inversion H; subst x; clear H.
  destruct (find_mid_spec ms mb None 0%nat i mi I F) as (k & Ek & Hn & Hlo & Hhi). cbn in Ek. subst k.
  cbn [accv] in *.
  exists i, vi, fi, vj, fj, mi, (psum QA (firstn i ms)).
  pose proof (psum_qsum (firstn i ms)) as EC.
  assert (Hlo' : qsum (firstn i ms) <= mb).
  { destruct i; [cbn; exact Hmb|lra]. }
  destruct HI as (Hs & _).
  pose proof (sorted_nth_lt b i (S i) (vi, fi) (vj, fj) Hs ltac:(lia) E1 E2) as Hlt. cbn [fst] in Hlt.
  assert (Pm : 0 < mi) by (apply ms_pos; eapply nth_error_In; eauto).
  repeat split; auto; try lra.
Qed.

Lemma firstn_S_qsum i mi : nth_error ms i = Some mi -> qsum (firstn (S i) ms) == qsum (firstn i ms) + mi.
Proof. intros H. rewrite (firstn_S_snoc ms i mi H), qsum_app. cbn [qsum]. lra. Qed.

Lemma mid_raw_mono mb1 mb2 x1 x2 :
  0 <= mb1 -> mb1 <= mb2 -> mid_raw mb1 = Some x1 -> mid_raw mb2 = Some x2 -> x1 <= x2.
Proof.
  intros H0 H12 R1 R2.
  destruct (mid_raw_char mb1 x1 H0 R1) as (i1 & vi1 & fi1 & vj1 & fj1 & m1 & C1 & A1 & B1 & M1 & EC1 & L1 & U1 & P1 & S1 & X1).
  destruct (mid_raw_char mb2 x2 ltac:(lra) R2) as (i2 & vi2 & fi2 & vj2 & fj2 & m2 & C2 & A2 & B2 & M2 & EC2 & L2 & U2 & P2 & S2 & X2).
  destruct (frac_bounds (mb1 - C1) m1 P1 ltac:(lra) ltac:(lra)) as [T1a T1b].
  destruct (frac_bounds (mb2 - C2) m2 P2 ltac:(lra) ltac:(lra)) as [T2a T2b].
  destruct (lerp_bounds vi1 vj1 _ ltac:(lra) T1a T1b) as [X1a X1b].
  destruct (lerp_bounds vi2 vj2 _ ltac:(lra) T2a T2b) as [X2a X2b].
  destruct (Nat.lt_trichotomy i1 i2) as [Hlt|[Heq|Hgt]].
  - (* a later segment *)
    assert (vj1 <= vi2).
    { destruct (Nat.eq_dec (S i1) i2) as [E|N].
      - subst i2. rewrite B1 in A2. inversion A2; subst. lra.
      - destruct HI as (Hs & _).
        pose proof (sorted_nth_lt b (S i1) i2 _ _ Hs ltac:(lia) B1 A2) as Hx. cbn [fst] in Hx. lra. }
    subst x1 x2. lra.
  - (* the same segment *)
    subst i2. rewrite A1 in A2. rewrite B1 in B2. rewrite M1 in M2. inversion A2; inversion B2; inversion M2; subst.
    assert (EC : C1 == C2) by lra.
    assert (Ht : (mb1 - C1) / m2 <= (mb2 - C2) / m2) by (apply div_mono; lra).
    pose proof (lerp_mono vi2 vj2 _ _ ltac:(lra) Ht). lra.
  - (* an earlier segment: impossible *)
    exfalso.
    pose proof (qsum_firstn_mono ms ms_pos (S i2) i1 ltac:(lia)) as Hm.
    rewrite (firstn_S_qsum i2 m2 M2) in Hm. lra.
Qed.

(* every interior estimate lies between the first and the last centre *)
Lemma mid_raw_range mb x v0 f0 vl fl :
  0 <= mb -> mid_raw mb = Some x ->
  nth_error b 0 = Some (v0, f0) -> nth_error b (length b - 1) = Some (vl, fl) ->
  v0 <= x /\ x <= vl.
Proof.
  intros H0 R E0 El.
  destruct (mid_raw_char mb x H0 R) as (i & vi & fi & vj & fj & m & C & A & B & M & EC & L & U & P & Hvv & X).
  destruct (frac_bounds (mb - C) m P ltac:(lra) ltac:(lra)) as [Ta Tb].
  destruct (lerp_bounds vi vj _ ltac:(lra) Ta Tb) as [Xa Xb].
  destruct HI as (Hs & _).
  assert (v0 <= vi).
  { destruct i as [|i]; [rewrite E0 in A; inversion A; subst; lra|].
    pose proof (sorted_nth_lt b 0 (S i) _ _ Hs ltac:(lia) E0 A) as Hx. cbn [fst] in Hx. lra. }
  assert (vj <= vl).
  { assert (Hlen : (S i < length b)%nat) by (eapply nth_error_Some_lt; eauto).
    destruct (Nat.eq_dec (S i) (length b - 1)) as [E|N].
    - rewrite E in B. rewrite El in B. inversion B; subst. lra.
    - pose proof (sorted_nth_lt b (S i) (length b - 1) _ _ Hs ltac:(lia) B El) as Hx. cbn [fst] in Hx. lra. }
  subst x. lra.
Qed.

End QM.

(* ---------- the whole estimator as a function of the integer rank ---------- *)
Definition rawq (s : @C13.st Q) (v0 : Q) (f0 : Z) (vl : Q) (fl : Z) (mn mx : Q) (qc : Z) : option Q :=
  let qcT := inject_Z qc in
  let half0 := inject_Z f0 / inject_Z 2 in
  let halfl := inject_Z fl / inject_Z 2 in
  if Qle_bool qcT half0 then Some (mn + qcT / half0 * (v0 - mn))
  else if Qle_bool (inject_Z (count s) - halfl) qcT then
    let fr := (qcT - (inject_Z (count s) - halfl)) / halfl in
    Some (if Qle_bool (inject_Z 1) fr then mx else vl + fr * (mx - vl))
  else mid_raw s (qcT - half0).

Lemma quantile_unfold (s : @C13.st Q) v0 f0 t vl fl mn mx q :
  bins s = (v0, f0) :: t -> hmin s = Some mn -> hmax s = Some mx ->
  nth_error (bins s) (length (bins s) - 1) = Some (vl, fl) -> 0 <= q -> q <= 1 ->
  quantile QA s q =
  match rawq s v0 f0 vl fl mn mx (Qtrunc (inject_Z (count s) * q)) with
  | None => AErr
  | Some x => ANum (pmin QA (pmax QA x mn) mx)
  end.
Proof.
  intros E0 Hmn Hmx Hn Hq0 Hq1. unfold quantile. rewrite Hmn, Hmx, Hn. rewrite E0 at 1.
  cbn [leb ofZ QA].
  destruct (Qleb_spec (inject_Z 0) q) as [_|N]; [|exfalso; apply N; exact Hq0].
  destruct (Qleb_spec q (inject_Z 1)) as [_|N]; [|exfalso; apply N; exact Hq1].
  cbn [andb negb]. unfold rawq, mid_raw, two. cbn [leb ofZ QA add sub mul div trunc].
  destruct (Qle_bool _ _); [reflexivity|]. destruct (Qle_bool _ _); [reflexivity|].
  destruct (find_mid _ _ _ _ _) as [[i mi]|]; [|reflexivity].
  destruct (nth_error (bins s) i) as [[vi fi]|]; [|reflexivity].
  destruct (nth_error (bins s) (S i)) as [[vj fj]|]; reflexivity.
Qed.

Section Raw.
Variable s : @C13.st Q.
Variables mn mx v0 vl : Q.
Variables f0 fl : Z.
Hypothesis HI : Inv s.
Hypothesis E0 : nth_error (bins s) 0 = Some (v0, f0).
Hypothesis El : nth_error (bins s) (length (bins s) - 1) = Some (vl, fl).
Hypothesis Hb0 : mn <= v0.
Hypothesis Hbl : vl <= mx.

Lemma raw_facts : 0 < inject_Z f0 / inject_Z 2 /\ 0 < inject_Z fl / inject_Z 2 /\ v0 <= vl.
Proof.
  destruct HI as (Hs & Hp & _). unfold pos_counts in Hp. rewrite Forall_forall in Hp.
  pose proof (Hp _ (nth_error_In _ _ E0)) as P0. pose proof (Hp _ (nth_error_In _ _ El)) as Pl. cbn [snd] in *.
  pose proof (pos_inject f0 P0). pose proof (pos_inject fl Pl). change (inject_Z 2) with 2.
  split; [apply Qlt_shift_div_l; lra|]. split; [apply Qlt_shift_div_l; lra|].
  destruct (Nat.eq_dec 0 (length (bins s) - 1)) as [E|N].
  - rewrite <- E in El. rewrite E0 in El. inversion El; subst. lra.
  - assert (0 < length (bins s))%nat by (eapply nth_error_Some_lt; eauto).
    pose proof (sorted_nth_lt (bins s) 0 (length (bins s) - 1) _ _ Hs ltac:(lia) E0 El) as Hx. cbn [fst] in Hx. lra.
Qed.

Lemma rawq_mono k1 k2 y1 y2 :
  (0 <= k1)%Z -> (k1 <= k2)%Z ->
  rawq s v0 f0 vl fl mn mx k1 = Some y1 -> rawq s v0 f0 vl fl mn mx k2 = Some y2 -> y1 <= y2.
Proof.
  intros Hk0 Hk12. destruct raw_facts as (Ph0 & Phl & Hvv).
  assert (K0 : 0 <= inject_Z k1) by (change 0 with (inject_Z 0); rewrite <- Zle_Qle; exact Hk0).
  assert (K12 : inject_Z k1 <= inject_Z k2) by (rewrite <- Zle_Qle; exact Hk12).
  unfold rawq.
  set (h0 := inject_Z f0 / inject_Z 2) in *. set (hl := inject_Z fl / inject_Z 2) in *.
  set (T := inject_Z (count s)). set (a1 := inject_Z k1) in *. set (a2 := inject_Z k2) in *.
  change (inject_Z 1) with 1.
  destruct (Qleb_spec a1 h0) as [L1|L1].
  - (* first rank in the left tail *)
    intros H1; inversion H1; subst y1; clear H1.
    destruct (frac_bounds a1 h0 Ph0 K0 L1) as [Ta Tb].
    destruct (lerp_bounds mn v0 _ Hb0 Ta Tb) as [Ya Yb].
    destruct (Qleb_spec a2 h0) as [L2|L2].
    + intros H2; inversion H2; subst y2; clear H2.
      apply lerp_mono; [exact Hb0|]. apply div_mono; assumption.
    + destruct (Qleb_spec (T - hl) a2) as [R2|R2].
      * intros H2; inversion H2; subst y2; clear H2.
        set (fr := (a2 - (T - hl)) / hl).
        assert (0 <= fr) by (apply Qle_shift_div_l; [exact Phl|lra]).
        destruct (Qleb_spec 1 fr) as [F|F]; [lra|].
        destruct (lerp_bounds vl mx fr Hbl ltac:(assumption) ltac:(lra)). lra.
      * intros H2. destruct (mid_raw_range s HI (a2 - h0) y2 v0 f0 vl fl ltac:(lra) H2 E0 El). lra.
  - destruct (Qleb_spec (T - hl) a1) as [R1|R1].
    + (* first rank in the right tail *)
      intros H1; inversion H1; subst y1; clear H1.
      destruct (Qleb_spec a2 h0) as [L2|L2]; [lra|].
      destruct (Qleb_spec (T - hl) a2) as [R2|R2]; [|lra].
      intros H2; inversion H2; subst y2; clear H2.
      set (fr1 := (a1 - (T - hl)) / hl). set (fr2 := (a2 - (T - hl)) / hl).
      assert (F0 : 0 <= fr1) by (apply Qle_shift_div_l; [exact Phl|lra]).
      assert (F12 : fr1 <= fr2) by (apply div_mono; [exact Phl|lra]).
      destruct (Qleb_spec 1 fr1) as [G1|G1]; destruct (Qleb_spec 1 fr2) as [G2|G2]; try lra.
      * destruct (lerp_bounds vl mx fr1 Hbl F0 ltac:(lra)). lra.
      * apply lerp_mono; assumption.
    + (* first rank in an interior segment *)
      intros H1.
      destruct (mid_raw_range s HI (a1 - h0) y1 v0 f0 vl fl ltac:(lra) H1 E0 El) as [Y1a Y1b].
      destruct (Qleb_spec a2 h0) as [L2|L2]; [lra|].
      destruct (Qleb_spec (T - hl) a2) as [R2|R2].
      * intros H2; inversion H2; subst y2; clear H2.
        set (fr := (a2 - (T - hl)) / hl).
        assert (0 <= fr) by (apply Qle_shift_div_l; [exact Phl|lra]).
        destruct (Qleb_spec 1 fr) as [F|F]; [lra|].
        destruct (lerp_bounds vl mx fr Hbl ltac:(assumption) ltac:(lra)). lra.
      * intros H2. apply (mid_raw_mono s HI (a1 - h0) (a2 - h0)); auto; lra.
Qed.
End Raw.

(* ---------- quantile is non-decreasing ---------- *)
Theorem quantile_monotone (s : @C13.st Q) mn mx q1 q2 x1 x2 :
  Inv s -> hmin s = Some mn -> hmax s = Some mx -> q1 <= q2 ->
  quantile QA s q1 = ANum x1 -> quantile QA s q2 = ANum x2 -> x1 <= x2.
Proof.
  intros HI Hmn Hmx Hq H1 H2.
  destruct (bins s) as [|[v0 f0] t] eqn:E0; [unfold quantile in H1; rewrite E0 in H1; discriminate|].
  assert (Q1 : 0 <= q1 /\ q1 <= 1).
  { destruct (Qlt_le_dec q1 0) as [A|A]; [rewrite (quantile_outside_valid s mn mx q1 Hmn Hmx (or_introl A)) in H1; discriminate|].
    destruct (Qlt_le_dec 1 q1) as [B|B]; [rewrite (quantile_outside_valid s mn mx q1 Hmn Hmx (or_intror B)) in H1; discriminate|]. now split. }
  assert (Q2 : 0 <= q2 /\ q2 <= 1).
  { destruct (Qlt_le_dec q2 0) as [A|A]; [rewrite (quantile_outside_valid s mn mx q2 Hmn Hmx (or_introl A)) in H2; discriminate|].
    destruct (Qlt_le_dec 1 q2) as [B|B]; [rewrite (quantile_outside_valid s mn mx q2 Hmn Hmx (or_intror B)) in H2; discriminate|]. now split. }
  destruct (nth_error_lt_Some (bins s) (length (bins s) - 1)) as [[vl fl] Hn]; [rewrite E0; cbn [length]; lia|].
  rewrite (quantile_unfold s v0 f0 t vl fl mn mx q1 E0 Hmn Hmx Hn (proj1 Q1) (proj2 Q1)) in H1.
  rewrite (quantile_unfold s v0 f0 t vl fl mn mx q2 E0 Hmn Hmx Hn (proj1 Q2) (proj2 Q2)) in H2.
  destruct (rawq s v0 f0 vl fl mn mx (Qtrunc (inject_Z (count s) * q1))) as [y1|] eqn:R1; [|discriminate].
  destruct (rawq s v0 f0 vl fl mn mx (Qtrunc (inject_Z (count s) * q2))) as [y2|] eqn:R2; [|discriminate].
  inversion H1; inversion H2; subst. apply clamp_mono.
  (* the facts about the bounds *)
  assert (Hne : bins s <> []) by (rewrite E0; discriminate).
  pose proof (within_bins s mn mx HI Hmn Hmx Hne) as Hw. unfold within in Hw. rewrite Forall_forall in Hw.
  assert (E00 : nth_error (bins s) 0 = Some (v0, f0)) by (rewrite E0; reflexivity).
  pose proof (Hw _ (nth_error_In _ _ E00)) as W0. pose proof (Hw _ (nth_error_In _ _ Hn)) as Wl. cbn [fst] in *.
  assert (Tn : 0 <= inject_Z (count s)).
  { rewrite count_is_mass. destruct HI as (_ & Hp & _). change 0 with (inject_Z 0). rewrite <- Zle_Qle.
    clear - Hp. induction (bins s) as [|[v f] r IH]; cbn [mass fold_right]; [lia|].
    inversion Hp; subst. cbn [snd] in *. specialize (IH H2). unfold mass in IH. lia. }
  refine (rawq_mono s mn mx v0 vl f0 fl HI E00 Hn _ _ (Qtrunc (inject_Z (count s) * q1)) (Qtrunc (inject_Z (count s) * q2)) y1 y2 _ _ R1 R2).
  - lra.
  - lra.
  - apply Qtrunc_bounds. nra.
  - apply Qtrunc_mono; nra.
Qed.

(* ---------- quantile is total on [0,1]: next() never runs off the end ---------- *)
Lemma find_mid_total (l : list Q) : forall mb acc i0,
  accv acc <= mb -> mb < accv acc + qsum l -> exists i m, find_mid QA mb acc i0 l = Some (i, m).
Proof.
  induction l as [|x t IH]; intros mb acc i0 Hlo Hhi; cbn [qsum] in Hhi; [lra|].
  cbn [find_mid ltb add QA].
  set (acc' := match acc with None => x | Some a => a + x end).
  assert (Eacc' : acc' == accv acc + x) by (unfold acc', accv; destruct acc; lra).
  destruct (Qltb_spec mb acc') as [Hlt|Hge]; [eauto|].
  apply IH; cbn [accv]; lra.
Qed.

Lemma qsum_mids (b : list bin) : forall v0 f0 t vl fl,
  b = (v0, f0) :: t -> nth_error b (length b - 1) = Some (vl, fl) ->
  qsum (mids QA b) == inject_Z (mass b) - inject_Z f0 / inject_Z 2 - inject_Z fl / inject_Z 2.
Proof.
  induction b as [|[v1 f1] r IH]; intros v0 f0 t vl fl Eb Hl; [discriminate|]. inversion Eb; subst; clear Eb.
  destruct t as [|[v2 f2] t'].
  - cbn in Hl. inversion Hl; subst. cbn [mids qsum mass fold_right snd]. rewrite Z.add_0_r. field.
  - change (mids QA ((v0, f0) :: (v2, f2) :: t')) with (inject_Z (f0 + f2) / inject_Z 2 :: mids QA ((v2, f2) :: t')).
    cbn [qsum]. rewrite (IH v2 f2 t' vl fl eq_refl).
    + change (mass ((v0, f0) :: (v2, f2) :: t')) with (f0 + mass ((v2, f2) :: t'))%Z.
      rewrite !inject_Z_plus. field.
    + cbn [length] in *. replace (S (S (length t')) - 1)%nat with (S (length t')) in Hl by lia.
      replace (S (length t') - 1)%nat with (length t') by lia. exact Hl.
Qed.

Theorem quantile_total (s : @C13.st Q) mn mx q :
  Inv s -> bins s <> [] -> hmin s = Some mn -> hmax s = Some mx -> 0 <= q -> q <= 1 ->
  exists x, quantile QA s q = ANum x.
Proof.
  intros HI Hne Hmn Hmx Hq0 Hq1.
  destruct (bins s) as [|[v0 f0] t] eqn:E0; [congruence|].
  destruct (nth_error_lt_Some (bins s) (length (bins s) - 1)) as [[vl fl] Hn]; [rewrite E0; cbn [length]; lia|].
  rewrite (quantile_unfold s v0 f0 t vl fl mn mx q E0 Hmn Hmx Hn Hq0 Hq1).
  unfold rawq. set (k := Qtrunc (inject_Z (count s) * q)).
  destruct (Qle_bool (inject_Z k) (inject_Z f0 / inject_Z 2)) eqn:L; [eauto|].
  destruct (Qle_bool (inject_Z (count s) - inject_Z fl / inject_Z 2) (inject_Z k)) eqn:R; [eauto|].
  destruct (Qleb_spec (inject_Z k) (inject_Z f0 / inject_Z 2)) as [|L']; [discriminate|].
  destruct (Qleb_spec (inject_Z (count s) - inject_Z fl / inject_Z 2) (inject_Z k)) as [|R']; [discriminate|].
  unfold mid_raw.
  pose proof (qsum_mids (bins s) v0 f0 t vl fl E0 Hn) as ES. rewrite <- count_is_mass in ES.
  destruct HI as (_ & Hp & _).
  assert (P0 : 0 < inject_Z f0 / inject_Z 2).
  { unfold pos_counts in Hp. rewrite Forall_forall in Hp.
    assert (I0 : In (v0, f0) (bins s)) by (rewrite E0; now left). pose proof (Hp _ I0) as P. cbn [snd] in P.
    pose proof (pos_inject f0 P). change (inject_Z 2) with 2. apply Qlt_shift_div_l; lra. }
  destruct (find_mid_total (mids QA (bins s)) (inject_Z k - inject_Z f0 / inject_Z 2) None 0%nat) as (i & m & F).
  - cbn [accv]. lra.
  - cbn [accv]. rewrite ES. lra.
  - rewrite F. destruct (find_mid_spec _ _ None 0%nat i m I F) as (j & Ej & Hm & _). cbn in Ej. subst j.
    rewrite mids_nth in Hm.
    destruct (nth_error (bins s) i) as [[vi fi]|]; [|discriminate].
    destruct (nth_error (bins s) (S i)) as [[vj fj]|]; [|discriminate]. eauto.
Qed.
