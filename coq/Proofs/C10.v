(* C10 - lemmas about the model of the native kernels (Model/C10.v). *)
From Coq Require Import List ZArith Bool NArith Lia ZifyBool Arith.
From Orso Require Import Model.C10.
Import ListNotations.

(* ---------- the access monad ---------- *)
Lemma bind_ok_ret : forall (T : Type) (a : access T), bind a (fun x => Ok x) = a.
Proof. intros T [x|e|]; reflexivity. Qed.

Lemma bind_assoc : forall (T U W : Type) (a : access T) (f : T -> access U) (g : U -> access W),
  bind (bind a f) g = bind a (fun x => bind (f x) g).
Proof. intros T U W [x|e|] f g; reflexivity. Qed.

Lemma mapM_ext : forall (T U : Type) (f g : T -> access U) (l : list T),
  (forall x, In x l -> f x = g x) -> mapM f l = mapM g l.
Proof.
  intros T U f g l. induction l as [|x r IH]; intros H; cbn [mapM].
  - reflexivity.
  - rewrite (H x (or_introl eq_refl)). rewrite IH; [reflexivity|].
    intros y Hy. apply H. right. exact Hy.
Qed.

(* a loop whose body ends in a pure repackaging *)
Lemma mapM_bind_ret : forall (T U W : Type) (f : T -> access U) (g : U -> W) (l : list T),
  mapM (fun i => bind (f i) (fun v => Ok (g v))) l = bind (mapM f l) (fun vs => Ok (map g vs)).
Proof.
  intros T U W f g l. induction l as [|x r IH]; cbn [mapM].
  - reflexivity.
  - rewrite IH. destruct (f x) as [v|e|]; cbn [bind]; [|reflexivity|reflexivity].
    destruct (mapM f r) as [vs|e|]; reflexivity.
Qed.

Definition to_access {T : Type} (o : option T) : access T :=
  match o with Some x => Ok x | None => UB end.

Lemma mapM_to_access : forall (T U : Type) (f : T -> option U) (l : list T),
  mapM (fun x => to_access (f x)) l = to_access (mapO f l).
Proof.
  intros T U f l. induction l as [|x r IH]; cbn [mapM mapO].
  - reflexivity.
  - destruct (f x) as [y|]; cbn [to_access bind]; [|reflexivity].
    rewrite IH. destruct (mapO f r) as [ys|]; reflexivity.
Qed.

Lemma mapO_ext : forall (T U : Type) (f g : T -> option U) (l : list T),
  (forall x, In x l -> f x = g x) -> mapO f l = mapO g l.
Proof.
  intros T U f g l. induction l as [|x r IH]; intros H; cbn [mapO].
  - reflexivity.
  - rewrite (H x (or_introl eq_refl)). rewrite IH; [reflexivity|].
    intros y Hy. apply H. right. exact Hy.
Qed.

Lemma mapO_none_iff : forall (T U : Type) (f : T -> option U) (l : list T),
  mapO f l = None <-> exists x, In x l /\ f x = None.
Proof.
  intros T U f l. induction l as [|x r IH]; cbn [mapO].
  - split; [discriminate|]. intros [x [[] _]].
  - destruct (f x) as [y|] eqn:Hx.
    + destruct (mapO f r) as [ys|] eqn:Hr.
      * split; [discriminate|]. intros [z [[Hz|Hz] Hn]].
        -- subst z. congruence.
        -- assert (Hnone : (None : option (list U)) = None) by reflexivity.
           destruct IH as [_ IH2]. discriminate IH2. exists z. split; assumption.
      * split; [|reflexivity]. intros _. destruct IH as [IH1 _].
        destruct (IH1 eq_refl) as [z [Hz Hn]]. exists z. split; [right; exact Hz|exact Hn].
    + split; [|reflexivity]. intros _. exists x. split; [left; reflexivity|exact Hx].
Qed.

Lemma mapO_some_length : forall (T U : Type) (f : T -> option U) (l : list T) (r : list U),
  mapO f l = Some r -> length r = length l.
Proof.
  intros T U f l. induction l as [|x t IH]; intros r H; cbn [mapO] in H.
  - injection H as <-. reflexivity.
  - destruct (f x) as [y|]; [|discriminate]. destruct (mapO f t) as [ys|] eqn:Ht; [|discriminate].
    injection H as <-. cbn [length]. f_equal. apply IH. reflexivity.
Qed.

Lemma mapO_nth : forall (T U : Type) (f : T -> option U) (l : list T) (r : list U) (i : nat) (x : T),
  mapO f l = Some r -> nth_error l i = Some x -> exists y, nth_error r i = Some y /\ f x = Some y.
Proof.
  intros T U f l. induction l as [|a t IH]; intros r i x H Hi.
  - destruct i; discriminate Hi.
  - cbn [mapO] in H. destruct (f a) as [y|] eqn:Ha; [|discriminate].
    destruct (mapO f t) as [ys|] eqn:Ht; [|discriminate]. injection H as <-.
    destruct i as [|i]; cbn [nth_error] in *.
    + injection Hi as <-. exists y. split; [reflexivity|exact Ha].
    + apply (IH ys i x eq_refl Hi).
Qed.

Lemma In_firstn : forall (T : Type) (n : nat) (l : list T) (x : T), In x (firstn n l) -> In x l.
Proof.
  intros T n l. revert n. induction l as [|a t IH]; intros n x H.
  - destruct n; destruct H.
  - destruct n as [|n]; [destruct H|]. cbn [firstn] in H. destruct H as [->|H].
    + left. reflexivity.
    + right. apply (IH n x H).
Qed.

Section CollectProofs.
Variable A : Type.
Notation rowobj := (rowobj A).

(* ---------- transposition ---------- *)
Lemma transpose_1 : forall (vs : list A), transpose 1 (map (fun v => [v]) vs) = [vs].
Proof.
  intros vs. unfold transpose. cbn [repeat].
  induction vs as [|v r IH]; cbn [map fold_right].
  - reflexivity.
  - rewrite IH. reflexivity.
Qed.

Lemma transpose_2 : forall (ps : list (A * A)),
  transpose 2 (map (fun p => [fst p; snd p]) ps) = [map fst ps; map snd ps].
Proof.
  intros ps. unfold transpose. cbn [repeat].
  induction ps as [|p r IH]; cbn [map fold_right].
  - reflexivity.
  - rewrite IH. reflexivity.
Qed.

(* ---------- the three paths agree, on every input (also where they go wrong) ---------- *)
Lemma path1_pathn : forall (rows : list rowobj) (n : nat) (c0 : Z),
  path1 rows n c0 = pathn rows n [c0].
Proof.
  intros rows n c0. unfold path1, pathn.
  rewrite (mapM_ext _ _ (fun i => bind (list_item_unchecked rows i) (fun r => mapM (tuple_item_unchecked r) [c0]))
                     (fun i => bind (bind (list_item_unchecked rows i) (fun r => tuple_item_unchecked r c0)) (fun v => Ok [v]))).
  - rewrite mapM_bind_ret. rewrite bind_assoc.
    destruct (mapM _ (seq 0 n)) as [vs|e|]; cbn [bind]; [|reflexivity|reflexivity].
    cbn [length]. rewrite transpose_1. reflexivity.
  - intros i _. rewrite bind_assoc. destruct (list_item_unchecked rows i) as [r|e|]; cbn [bind]; [|reflexivity|reflexivity].
    cbn [mapM]. destruct (tuple_item_unchecked r c0); reflexivity.
Qed.

Lemma path2_pathn : forall (rows : list rowobj) (n : nat) (c0 c1 : Z),
  path2 rows n c0 c1 = pathn rows n [c0; c1].
Proof.
  intros rows n c0 c1. unfold path2, pathn.
  rewrite (mapM_ext _ _ (fun i => bind (list_item_unchecked rows i) (fun r => mapM (tuple_item_unchecked r) [c0; c1]))
                     (fun i => bind (bind (list_item_unchecked rows i) (fun r =>
                                     bind (tuple_item_unchecked r c0) (fun a =>
                                     bind (tuple_item_unchecked r c1) (fun b => Ok (a, b)))))
                                    (fun p => Ok [fst p; snd p]))).
  - rewrite mapM_bind_ret. rewrite bind_assoc.
    destruct (mapM _ (seq 0 n)) as [ps|e|]; cbn [bind]; [|reflexivity|reflexivity].
    cbn [length]. rewrite transpose_2. reflexivity.
  - intros i _. rewrite bind_assoc. destruct (list_item_unchecked rows i) as [r|e|]; cbn [bind]; [|reflexivity|reflexivity].
    cbn [mapM]. destruct (tuple_item_unchecked r c0); cbn [bind]; [|reflexivity|reflexivity].
    destruct (tuple_item_unchecked r c1); reflexivity.
Qed.

Lemma dispatch_pathn : forall (rows : list rowobj) (n : nat) (cols : list Z),
  dispatch rows n cols = pathn rows n cols.
Proof.
  intros rows n cols. destruct cols as [|c0 [|c1 [|c2 r]]]; cbn [dispatch].
  - reflexivity.
  - apply path1_pathn.
  - apply path2_pathn.
  - reflexivity.
Qed.

Lemma collect_general_eq : forall (rows : list rowobj) (cols : list Z) (limit : Z),
  collect rows cols limit = collect_general rows cols limit.
Proof.
  intros rows cols limit. unfold collect, collect_general, collect_with.
  destruct rows as [|r0 rows']; [reflexivity|]. destruct cols as [|c cols']; [reflexivity|].
  destruct (py_len r0) as [w|e|]; cbn [bind]; [|reflexivity|reflexivity].
  destruct (bounds_loop (c :: cols') w) as [u|e|]; cbn [bind]; [|reflexivity|reflexivity].
  apply dispatch_pathn.
Qed.

(* ---------- the row loop reads exactly the first n rows ---------- *)
Lemma row_loop_firstn : forall (T : Type) (g : rowobj -> access T) (rows pre : list rowobj) (n : nat),
  n <= length rows ->
  mapM (fun i => bind (list_item_unchecked (pre ++ rows) i) g) (seq (length pre) n) = mapM g (firstn n rows).
Proof.
  intros T g rows. induction rows as [|r rows' IH]; intros pre n Hn.
  - cbn [length] in Hn. assert (n = 0) by lia. subst n. reflexivity.
  - destruct n as [|n]; [reflexivity|]. cbn [seq mapM firstn].
    unfold list_item_unchecked at 1. rewrite nth_error_app2 by lia. rewrite Nat.sub_diag. cbn [nth_error bind].
    replace (pre ++ r :: rows') with ((pre ++ [r]) ++ rows') by (rewrite <- app_assoc; reflexivity).
    replace (S (length pre)) with (length (pre ++ [r])) by (rewrite app_length; cbn [length]; lia).
    rewrite IH by (cbn [length] in Hn; lia). reflexivity.
Qed.

Lemma row_loop_firstn0 : forall (T : Type) (g : rowobj -> access T) (rows : list rowobj) (n : nat),
  n <= length rows ->
  mapM (fun i => bind (list_item_unchecked rows i) g) (seq 0 n) = mapM g (firstn n rows).
Proof. intros T g rows n Hn. apply (row_loop_firstn T g rows [] n Hn). Qed.

(* the loop counter stays inside the list iff the clamp is right *)
Lemma clamp_limit_le : forall (limit : Z) (n : nat), clamp_limit limit n <= n.
Proof.
  intros limit n. unfold clamp_limit.
  destruct ((0 <=? limit)%Z && (limit <? Z.of_nat n)%Z) eqn:H; lia.
Qed.

Lemma clamp_limit_eff : forall (limit : Z) (n : nat), clamp_limit limit n = eff_limit limit n.
Proof.
  intros limit n. unfold clamp_limit, eff_limit.
  destruct ((0 <=? limit)%Z && (limit <? Z.of_nat n)%Z) eqn:H; destruct (limit <? 0)%Z eqn:H0; lia.
Qed.

(* ---------- bounds loop ---------- *)
Lemma bounds_loop_forallb : forall (cols : list Z) (w : nat),
  bounds_loop cols w = if forallb (in_range w) cols then Ok tt else Raise IndexError.
Proof.
  intros cols w. induction cols as [|c r IH]; cbn [bounds_loop forallb].
  - reflexivity.
  - unfold in_range at 1.
    destruct ((c <? 0)%Z || (c >=? Z.of_nat w)%Z) eqn:Hb;
      destruct ((0 <=? c)%Z && (c <? Z.of_nat w)%Z) eqn:Hi; try lia; cbn [andb].
    + reflexivity.
    + exact IH.
Qed.

(* ---------- tuple rows: unchecked reads = the definition where defined, UB elsewhere ---------- *)
Lemma tuple_item_def : forall (l : list A) (c : Z),
  tuple_item_unchecked (RTuple l) c = to_access (get_def l c).
Proof.
  intros l c. unfold tuple_item_unchecked, get_def, get_unchecked.
  destruct (c <? 0)%Z; [reflexivity|]. destruct (nth_error l (Z.to_nat c)); reflexivity.
Qed.

Lemma tuple_rows_loop : forall (cols : list Z) (rws : list (list A)),
  mapM (fun r => mapM (tuple_item_unchecked r) cols) (map RTuple rws)
  = to_access (mapO (fun l => mapO (get_def l) cols) rws).
Proof.
  intros cols rws. induction rws as [|l r IH]; cbn [map mapM mapO].
  - reflexivity.
  - rewrite (mapM_ext _ _ (tuple_item_unchecked (RTuple l)) (fun c => to_access (get_def l c)))
      by (intros c _; apply tuple_item_def).
    rewrite mapM_to_access. destruct (mapO (get_def l) cols) as [p|]; cbn [to_access bind]; [|reflexivity].
    rewrite IH. destruct (mapO _ r) as [ps|]; reflexivity.
Qed.

(* row-major picks, transposed = the column-major definition *)
Lemma zip_step : forall (T : Type) (g : T -> option A) (h : T -> option (list A)) (cols : list T),
  mapO (fun c => match g c with
                 | None => None
                 | Some v => match h c with None => None | Some vs => Some (v :: vs) end
                 end) cols
  = match mapO g cols with
    | None => None
    | Some p => match mapO h cols with None => None | Some cs => Some (zip_cons p cs) end
    end.
Proof.
  intros T g h cols. induction cols as [|c r IH]; cbn [mapO].
  - reflexivity.
  - rewrite IH. destruct (g c) as [v|]; [|reflexivity].
    destruct (h c) as [vs|].
    + destruct (mapO g r) as [p|]; [|reflexivity]. destruct (mapO h r) as [cs|]; reflexivity.
    + destruct (mapO g r) as [p|]; [|reflexivity]. reflexivity.
Qed.

Lemma transpose_def : forall (T : Type) (f : list A -> T -> option A) (cols : list T) (rws : list (list A)),
  option_map (transpose (length cols)) (mapO (fun l => mapO (f l) cols) rws)
  = mapO (fun c => mapO (fun l => f l c) rws) cols.
Proof.
  intros T f cols rws. induction rws as [|l r IH].
  - cbn [mapO option_map]. unfold transpose. cbn [fold_right].
    induction cols as [|c cs IHc]; cbn [mapO length repeat]; [reflexivity|].
    rewrite <- IHc. reflexivity.
  - cbn [mapO].
    rewrite (zip_step T (f l) (fun c => mapO (fun l' => f l' c) r) cols). rewrite <- IH.
    destruct (mapO (f l) cols) as [p|]; [|reflexivity].
    destruct (mapO (fun l0 => mapO (f l0) cols) r) as [ps|]; reflexivity.
Qed.

Lemma pathn_tuples : forall (rows : list (list A)) (n : nat) (cols : list Z),
  n <= length rows ->
  pathn (map RTuple rows) n cols = to_access (collect_def rows cols n).
Proof.
  intros rows n cols Hn. unfold pathn, collect_def.
  rewrite row_loop_firstn0 by (rewrite map_length; exact Hn).
  rewrite firstn_map. rewrite tuple_rows_loop. rewrite <- transpose_def.
  destruct (mapO _ (firstn n rows)) as [ps|]; reflexivity.
Qed.

(* ---------- characterisation of collect on tuple rows ---------- *)
Lemma collect_tuples_char : forall (rows : list (list A)) (cols : list Z) (limit : Z),
  collect (map RTuple rows) cols limit =
  match rows, cols with
  | [], _ | _, [] => Ok (repeat [] (length cols))
  | r0 :: _, _ :: _ =>
      if forallb (in_range (length r0)) cols
      then to_access (collect_def rows cols (eff_limit limit (length rows)))
      else Raise IndexError
  end.
Proof.
  intros rows cols limit. rewrite collect_general_eq. unfold collect_general, collect_with.
  destruct rows as [|r0 rows']; [reflexivity|]. destruct cols as [|c cols']; [reflexivity|].
  cbn [map py_len bind]. rewrite bounds_loop_forallb.
  destruct (forallb (in_range (length r0)) (c :: cols')); cbn [bind]; [|reflexivity].
  change (RTuple r0 :: map RTuple rows') with (map (@RTuple A) (r0 :: rows')).
  rewrite map_length. rewrite pathn_tuples by apply clamp_limit_le.
  rewrite clamp_limit_eff. reflexivity.
Qed.

(* when is the definition undefined *)
Lemma get_def_none : forall (row : list A) (c : Z),
  get_def row c = None <-> (c < 0)%Z \/ (Z.of_nat (length row) <= c)%Z.
Proof.
  intros row c. unfold get_def. destruct (c <? 0)%Z eqn:H0.
  - split; [intros _; left; lia|reflexivity].
  - rewrite nth_error_None. lia.
Qed.

Lemma collect_def_none_iff : forall (rows : list (list A)) (cols : list Z) (n : nat),
  collect_def rows cols n = None <->
  exists c row, In c cols /\ In row (firstn n rows) /\ ((c < 0)%Z \/ (Z.of_nat (length row) <= c)%Z).
Proof.
  intros rows cols n. unfold collect_def. rewrite mapO_none_iff. split.
  - intros [c [Hc Hn]]. rewrite mapO_none_iff in Hn. destruct Hn as [row [Hr Hg]].
    exists c, row. rewrite get_def_none in Hg. auto.
  - intros [c [row [Hc [Hr Hg]]]]. exists c. split; [exact Hc|].
    rewrite mapO_none_iff. exists row. split; [exact Hr|]. rewrite get_def_none. exact Hg.
Qed.

Lemma in_range_spec : forall (w : nat) (c : Z), in_range w c = true <-> (0 <= c < Z.of_nat w)%Z.
Proof. intros w c. unfold in_range. lia. Qed.

Lemma forallb_in_range : forall (w : nat) (cols : list Z),
  forallb (in_range w) cols = true <-> (forall c, In c cols -> (0 <= c < Z.of_nat w)%Z).
Proof.
  intros w cols. rewrite forallb_forall. split; intros H c Hc.
  - apply in_range_spec. apply H. exact Hc.
  - apply in_range_spec. apply H. exact Hc.
Qed.

Lemma forallb_in_range_false : forall (w : nat) (cols : list Z),
  forallb (in_range w) cols = false <-> (exists c, In c cols /\ ((c < 0)%Z \/ (Z.of_nat w <= c)%Z)).
Proof.
  intros w cols. split.
  - intros H. induction cols as [|c r IH]; cbn [forallb] in H; [discriminate|].
    destruct (in_range w c) eqn:Hc; cbn [andb] in H.
    + destruct (IH H) as [c' [Hin Hb]]. exists c'. split; [right; exact Hin|exact Hb].
    + exists c. split; [left; reflexivity|]. unfold in_range in Hc. lia.
  - intros [c [Hin Hb]]. destruct (forallb (in_range w) cols) eqn:H; [|reflexivity].
    rewrite forallb_in_range in H. specialize (H c Hin). lia.
Qed.

Definition rectangular (w : nat) (rows : list (list A)) : Prop := Forall (fun r => length r = w) rows.

Lemma rect_firstn : forall (w n : nat) (rows : list (list A)) (row : list A),
  rectangular w rows -> In row (firstn n rows) -> length row = w.
Proof.
  intros w n rows row H Hin. unfold rectangular in H. rewrite Forall_forall in H.
  apply H. apply (In_firstn _ n rows row Hin).
Qed.

(* rectangular rows, every index in range: the definition is defined *)
Lemma collect_def_total : forall (w : nat) (rows : list (list A)) (cols : list Z) (n : nat),
  rectangular w rows -> (forall c, In c cols -> (0 <= c < Z.of_nat w)%Z) ->
  exists res, collect_def rows cols n = Some res.
Proof.
  intros w rows cols n Hr Hc. destruct (collect_def rows cols n) as [res|] eqn:H.
  - exists res. reflexivity.
  - rewrite collect_def_none_iff in H. destruct H as [c [row [Hin [Hrow Hb]]]].
    rewrite (rect_firstn w n rows row Hr Hrow) in Hb. specialize (Hc c Hin). lia.
Qed.

(* ---------- the property statements ---------- *)

(* Correctness for rectangular rows: Ok of the definition when every index is in range,
   IndexError exactly when one is not (and there is a first row to be outside of). *)
Lemma collect_correct : forall (w : nat) (rows : list (list A)) (cols : list Z) (limit : Z),
  rectangular w rows ->
  (rows = [] -> collect (map RTuple rows) cols limit = Ok (repeat [] (length cols))) /\
  (rows <> [] ->
     ((forall c, In c cols -> (0 <= c < Z.of_nat w)%Z) ->
        exists res, collect (map RTuple rows) cols limit = Ok res /\
                    collect_def rows cols (eff_limit limit (length rows)) = Some res) /\
     ((exists c, In c cols /\ ((c < 0)%Z \/ (Z.of_nat w <= c)%Z)) <->
        collect (map RTuple rows) cols limit = Raise IndexError)).
Proof.
  intros w rows cols limit Hr. rewrite collect_tuples_char. split.
  - intros ->. reflexivity.
  - intros Hne. destruct rows as [|r0 rows']; [congruence|].
    assert (Hw : length r0 = w) by (unfold rectangular in Hr; inversion Hr; assumption).
    rewrite Hw. destruct cols as [|c cols'].
    + split.
      * intros _. exists []. split; reflexivity.
      * split; [intros [c [[] _]]|discriminate].
    + split.
      * intros Hc. rewrite (proj2 (forallb_in_range w (c :: cols')) Hc).
        destruct (collect_def_total w (r0 :: rows') (c :: cols') (eff_limit limit (length (r0 :: rows'))) Hr Hc) as [res Hres].
        exists res. rewrite Hres. split; reflexivity.
      * split.
        -- intros Hb. rewrite (proj2 (forallb_in_range_false w (c :: cols')) Hb). reflexivity.
        -- intros H. destruct (forallb (in_range w) (c :: cols')) eqn:Hf.
           ++ destruct (collect_def (r0 :: rows') (c :: cols') _); discriminate H.
           ++ apply forallb_in_range_false. exact Hf.
Qed.

(* pointwise reading of the definition: result[i][j] = rows[j][cols[i]] *)
Lemma collect_def_pointwise : forall (rows : list (list A)) (cols : list Z) (n : nat) (res : list (list A)),
  collect_def rows cols n = Some res ->
  length res = length cols /\
  forall i c, nth_error cols i = Some c ->
    exists col, nth_error res i = Some col /\ length col = length (firstn n rows) /\
      forall j row, nth_error (firstn n rows) j = Some row ->
        exists v, nth_error col j = Some v /\ (0 <= c)%Z /\ nth_error row (Z.to_nat c) = Some v.
Proof.
  intros rows cols n res H. unfold collect_def in H. split.
  - apply (mapO_some_length _ _ _ _ _ H).
  - intros i c Hi. destruct (mapO_nth _ _ _ _ _ i c H Hi) as [col [Hcol Hc]].
    exists col. split; [exact Hcol|]. split; [apply (mapO_some_length _ _ _ _ _ Hc)|].
    intros j row Hj. destruct (mapO_nth _ _ _ _ _ j row Hc Hj) as [v [Hv Hg]].
    exists v. split; [exact Hv|]. unfold get_def in Hg. destruct (c <? 0)%Z eqn:H0; [discriminate|].
    split; [lia|exact Hg].
Qed.

Lemma firstn_eff_length : forall (limit : Z) (rows : list (list A)),
  length (firstn (eff_limit limit (length rows)) rows) =
  if (limit <? 0)%Z then length rows else Nat.min (Z.to_nat limit) (length rows).
Proof.
  intros limit rows. rewrite firstn_length. unfold eff_limit. destruct (limit <? 0)%Z; lia.
Qed.

(* No UB for rectangular rows (the guard of F-C10-1 as a hypothesis) *)
Lemma collect_safe_rect : forall (w : nat) (rows : list (list A)) (cols : list Z) (limit : Z),
  rectangular w rows -> collect (map RTuple rows) cols limit <> UB.
Proof.
  intros w rows cols limit Hr. rewrite collect_tuples_char.
  destruct rows as [|r0 rows']; [discriminate|]. destruct cols as [|c cols']; [discriminate|].
  assert (Hw : length r0 = w) by (unfold rectangular in Hr; inversion Hr; assumption).
  rewrite Hw. destruct (forallb (in_range w) (c :: cols')) eqn:Hf; [|discriminate].
  rewrite forallb_in_range in Hf.
  destruct (collect_def_total w (r0 :: rows') (c :: cols') (eff_limit limit (length (r0 :: rows'))) Hr Hf) as [res Hres].
  rewrite Hres. discriminate.
Qed.

(* Exactly where tuple rows reach UB: the indexes pass the test against the first row and one of the
   first limit' rows is too short for a requested index. *)
Lemma collect_ub_iff : forall (rows : list (list A)) (cols : list Z) (limit : Z),
  collect (map RTuple rows) cols limit = UB <->
  exists r0, hd_error rows = Some r0 /\
    (forall c, In c cols -> (0 <= c < Z.of_nat (length r0))%Z) /\
    exists c row, In c cols /\ In row (firstn (eff_limit limit (length rows)) rows) /\
                  (Z.of_nat (length row) <= c)%Z.
Proof.
  intros rows cols limit. rewrite collect_tuples_char. split.
  - intros H. destruct rows as [|r0 rows']; [discriminate|]. destruct cols as [|c cols']; [discriminate|].
    destruct (forallb (in_range (length r0)) (c :: cols')) eqn:Hf; [|discriminate].
    rewrite forallb_in_range in Hf.
    destruct (collect_def (r0 :: rows') (c :: cols') _) as [res|] eqn:Hd; [discriminate|].
    rewrite collect_def_none_iff in Hd. destruct Hd as [c' [row [Hin [Hrow Hb]]]].
    exists r0. split; [reflexivity|]. split; [exact Hf|].
    exists c', row. split; [exact Hin|]. split; [exact Hrow|].
    specialize (Hf c' Hin). lia.
  - intros [r0 [Hhd [Hf [c' [row [Hin [Hrow Hb]]]]]]].
    destruct rows as [|r0' rows']; [discriminate|]. cbn [hd_error] in Hhd. injection Hhd as ->.
    destruct cols as [|c cols']; [destruct Hin|].
    rewrite (proj2 (forallb_in_range (length r0) (c :: cols')) Hf).
    replace (collect_def (r0 :: rows') (c :: cols') _) with (@None (list (list A))); [reflexivity|].
    symmetry. apply collect_def_none_iff. exists c', row. auto.
Qed.

(* rows all at least as wide as the first are as good as rectangular *)
Lemma collect_safe_wide : forall (rows : list (list A)) (cols : list Z) (limit : Z) (r0 : list A),
  hd_error rows = Some r0 -> Forall (fun r => length r0 <= length r) rows ->
  collect (map RTuple rows) cols limit <> UB.
Proof.
  intros rows cols limit r0 Hhd Hw H. rewrite collect_ub_iff in H.
  destruct H as [r0' [Hhd' [Hf [c [row [Hin [Hrow Hb]]]]]]].
  rewrite Hhd in Hhd'. injection Hhd' as <-.
  rewrite Forall_forall in Hw. specialize (Hw row (In_firstn _ _ rows row Hrow)).
  specialize (Hf c Hin). lia.
Qed.

End CollectProofs.

(* ---------- DataFrame.collect: limit None / negative = all rows ---------- *)
Lemma df_limit_eff : forall (limit : option Z) (n : nat),
  eff_limit (match limit with None => (-1)%Z | Some l => if (l <? 0)%Z then (-1)%Z else l end) n
  = match limit with None => n | Some l => eff_limit l n end.
Proof.
  intros [l|] n; [|reflexivity]. unfold eff_limit.
  destruct (l <? 0)%Z eqn:H; [reflexivity|]. rewrite H. reflexivity.
Qed.

(* ---------- refutations (witnesses evaluated by the VM) ---------- *)
Lemma collect_ragged_ub :
  collect (map RTuple [[1; 2]; [3]]%Z) [1%Z] (-1)%Z = UB.
Proof. vm_compute. reflexivity. Qed.

Lemma collect_listrows_ub :
  collect [RSeq 2; RSeq 2] [0%Z] (-1)%Z = (UB : access (list (list Z))).
Proof. vm_compute. reflexivity. Qed.

(* ---------- extract_dict_columns ---------- *)
Section ExtractProofs.
Variable K V : Type.
Variable keq : K -> K -> bool.
Variable none : V.

Lemma extract_length : forall (data : option (list (K * V))) (fields : list (field K)),
  length (extract keq none data fields) = length fields.
Proof. intros data fields. unfold extract. apply map_length. Qed.

Lemma extract_nth : forall (data : option (list (K * V))) (fields : list (field K)) (i : nat) (f : field K),
  nth_error fields i = Some f ->
  nth_error (extract keq none data fields) i =
  Some (match dict_get_item keq data f with Some v => v | None => none end).
Proof.
  intros data fields i f H. unfold extract.
  rewrite nth_error_map. rewrite H. reflexivity.
Qed.

(* lookup returns the value of the first entry whose key equals k; None iff no key equals k *)
Lemma lookup_some : forall (d : list (K * V)) (k : K) (v : V),
  lookup keq d k = Some v ->
  exists pre k' post, d = pre ++ (k', v) :: post /\ keq k' k = true /\
                      forall k'' v'', In (k'', v'') pre -> keq k'' k = false.
Proof.
  intros d k v. induction d as [|[k1 v1] r IH]; intros H; cbn [lookup] in H.
  - discriminate.
  - destruct (keq k1 k) eqn:He.
    + injection H as ->. exists [], k1, r. split; [reflexivity|]. split; [exact He|]. intros k'' v'' [].
    + destruct (IH H) as [pre [k' [post [Hd [Hk Hpre]]]]].
      exists ((k1, v1) :: pre), k', post. split; [rewrite Hd; reflexivity|]. split; [exact Hk|].
      intros k'' v'' [Hin|Hin].
      * injection Hin as <- <-. exact He.
      * apply (Hpre k'' v'' Hin).
Qed.

Lemma lookup_none : forall (d : list (K * V)) (k : K),
  lookup keq d k = None <-> forall k' v', In (k', v') d -> keq k' k = false.
Proof.
  intros d k. induction d as [|[k1 v1] r IH]; cbn [lookup].
  - split; [intros _ k' v' []|reflexivity].
  - destruct (keq k1 k) eqn:He.
    + split; [discriminate|]. intros H. specialize (H k1 v1 (or_introl eq_refl)). congruence.
    + rewrite IH. split.
      * intros H k' v' [Hin|Hin]; [injection Hin as <- <-; exact He|apply (H k' v' Hin)].
      * intros H k' v' Hin. apply (H k' v'). right. exact Hin.
Qed.

End ExtractProofs.

(* ---------- calculate_data_width ---------- *)
Lemma width_loop_spec : forall (vals : list (option (list N))) (m : Z),
  (m <= width_loop vals m)%Z /\
  (forall s, In (Some s) vals -> (Z.of_nat (length s) <= width_loop vals m)%Z) /\
  (width_loop vals m = m \/ exists s, In (Some s) vals /\ width_loop vals m = Z.of_nat (length s)).
Proof.
  induction vals as [|[s|] r IH]; intros m; cbn [width_loop].
  - split; [lia|]. split; [intros s []|left; reflexivity].
  - destruct (Z.of_nat (length s) >? m)%Z eqn:Hgt.
    + destruct (IH (Z.of_nat (length s))) as [H1 [H2 H3]]. split; [lia|]. split.
      * intros s' [Hs|Hs]; [injection Hs as <-; exact H1|apply H2; exact Hs].
      * right. destruct H3 as [H3|[s' [Hin H3]]].
        -- exists s. split; [left; reflexivity|exact H3].
        -- exists s'. split; [right; exact Hin|exact H3].
    + destruct (IH m) as [H1 [H2 H3]]. split; [exact H1|]. split.
      * intros s' [Hs|Hs]; [injection Hs as <-; lia|apply H2; exact Hs].
      * destruct H3 as [H3|[s' [Hin H3]]]; [left; exact H3|].
        right. exists s'. split; [right; exact Hin|exact H3].
  - destruct (IH m) as [H1 [H2 H3]]. split; [exact H1|]. split.
    + intros s' [Hs|Hs]; [discriminate Hs|apply H2; exact Hs].
    + destruct H3 as [H3|[s' [Hin H3]]]; [left; exact H3|].
      right. exists s'. split; [right; exact Hin|exact H3].
Qed.

Lemma data_width_spec : forall (vals : list (option (list N))),
  (4 <= data_width vals)%Z /\
  (forall s, In (Some s) vals -> (Z.of_nat (length s) <= data_width vals)%Z) /\
  (data_width vals = 4%Z \/ exists s, In (Some s) vals /\ data_width vals = Z.of_nat (length s)).
Proof. intros vals. apply (width_loop_spec vals 4%Z). Qed.
