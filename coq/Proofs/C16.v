(* C16 - lemmas about the model of schema / column persistence (coq/Model/C16.v). *)
From Coq Require Import List NArith ZArith Bool Lia.
From Coq Require Import String.  (* string literal notation only *)
From Orso Require Import Base.C16_Defs Gen.C16_Fields Model.C16.
From Orso Require Base.C06_Defs Gen.C06_Types Model.C06 Model.C05.
Import ListNotations.

(* ---------- the regenerated tables are the ones modelled ---------- *)
Lemma field_tables_modelled :
  map fst column_field_table = map field_name all_fields /\
  map fst schema_field_table = schema_field_names.
Proof. split; vm_compute; reflexivity. Qed.

(* the type table from_name (Model/C06.v) works on is the one regenerated here *)
Lemma type_table_shared : type_members = Gen.C06_Types.members.
Proof. vm_compute; reflexivity. Qed.

(* ---------- text ---------- *)
Lemma str_eqb_refl : forall a, str_eqb a a = true.
Proof. induction a as [|x a IH]; cbn [str_eqb]; [reflexivity|]. rewrite N.eqb_refl, IH. reflexivity. Qed.

Lemma str_eqb_eq : forall a b, str_eqb a b = true -> a = b.
Proof.
  induction a as [|x a IH]; destruct b as [|y b]; cbn [str_eqb]; intros H; try discriminate; [reflexivity|].
  apply andb_true_iff in H. destruct H as [H1 H2]. apply N.eqb_eq in H1. f_equal; auto.
Qed.

Lemma str_eqb_neq : forall a b, a <> b -> str_eqb a b = false.
Proof. intros a b H. destruct (str_eqb a b) eqn:E; [|reflexivity]. apply str_eqb_eq in E. contradiction. Qed.

Lemma mem_In : forall x l, mem x l = true -> In x l.
Proof.
  intros x l H. unfold mem in H. apply existsb_exists in H. destruct H as [y [Hy E]].
  apply str_eqb_eq in E. subst. exact Hy.
Qed.

(* ---------- records ---------- *)
Lemma get_build : forall g f, get f (build g) = g f.
Proof. intros g f. destruct f; reflexivity. Qed.

Lemma build_get : forall c, build (fun f => get f c) = c.
Proof. intros c. destruct c; reflexivity. Qed.

Lemma set_same : forall f c, set f (get f c) c = c.
Proof. intros f c. destruct c, f; reflexivity. Qed.

Lemma get_set_same : forall f v c, get f (set f v c) = v.
Proof. intros f v c. destruct f; reflexivity. Qed.

Lemma get_set_other : forall f f' v c, f <> f' -> get f' (set f v c) = get f' c.
Proof. intros f f' v c H. destruct f, f'; try reflexivity; contradiction H; reflexivity. Qed.

Lemma is_none_eq : forall v, is_none v = true -> v = PNone.
Proof. intros v H. destruct v as [a|l]; [destruct a|]; try discriminate. reflexivity. Qed.

Lemma fill_none : forall f c, fill f PNone c = c.
Proof.
  intros f c. unfold fill. destruct (is_none (get f c)) eqn:E; [|reflexivity].
  apply is_none_eq in E. rewrite <- E. apply set_same.
Qed.

Lemma fill_present : forall f v c, is_none (get f c) = false -> fill f v c = c.
Proof. intros f v c H. unfold fill. rewrite H. reflexivity. Qed.

Lemma lookup_map : forall (g : field -> pv) f, lookup f (map (fun f' => (f', g f')) all_fields) = Some (g f).
Proof. intros g f. destruct f; reflexivity. Qed.

Lemma lookup_to_dict : forall f c, lookup f (to_dict_col c) = Some (conv (get f c)).
Proof. intros f c. unfold to_dict_col. apply (lookup_map (fun f' => conv (get f' c))). Qed.

Lemma of_assoc_map : forall g, of_assoc (map (fun f => (f, g f)) all_fields) = build g.
Proof. intros g. reflexivity. Qed.

Lemma mapM_ok : forall (A B : Type) (F : A -> result B) (G : A -> B) (l : list A),
  (forall x, In x l -> F x = Ok (G x)) -> mapM F l = Ok (map G l).
Proof.
  intros A B F G l. induction l as [|x l IH]; intros H; cbn [mapM map]; [reflexivity|].
  rewrite (H x (or_introl eq_refl)). cbn [bind]. rewrite IH; [reflexivity|].
  intros y Hy. apply H. right. exact Hy.
Qed.

(* ---------- names of types and dispositions resolve back to their members ---------- *)
Definition ty_varchar : str := Eval vm_compute in txt "VARCHAR"%string.

Lemma member_names_resolve :
  Forall (fun x => x = missing_member \/
                   from_name_pv (PA (AText (type_value x))) =
                   Ok (Model.C06.plain (Model.C06.TMember x) (if str_eqb x ty_array then Some ty_varchar else None)))
         type_names.
Proof.
  unfold type_names, type_members. cbn [map fst].
  repeat (constructor; [ first [ left; reflexivity | right; vm_compute; reflexivity ] | ]).
  constructor.
Qed.

Lemma missing_name_resolves :
  from_name_pv (PA (AText (type_value missing_member))) = Ok (Model.C06.plain Model.C06.TZero None) /\
  from_name_pv (PA (AInt 0)) = Ok (Model.C06.plain Model.C06.TZero None).
Proof. split; vm_compute; reflexivity. Qed.

Lemma disposition_values_resolve :
  Forall (fun x => disp_of_value (disp_value x) = Some x) disp_names.
Proof.
  unfold disp_names, disposition_members. cbn [map fst].
  repeat (constructor; [ vm_compute; reflexivity | ]). constructor.
Qed.

Lemma member_resolves : forall m,
  mem m type_names = true -> m <> missing_member ->
  from_name_pv (PA (AText (type_value m))) =
  Ok (Model.C06.plain (Model.C06.TMember m) (if str_eqb m ty_array then Some ty_varchar else None)).
Proof.
  intros m Hm Hn. apply mem_In in Hm.
  pose proof (proj1 (Forall_forall _ _) member_names_resolve m Hm) as [H|H]; [contradiction|exact H].
Qed.

Lemma disposition_resolves : forall d, mem d disp_names = true -> disp_of_value (disp_value d) = Some d.
Proof. intros d Hd. apply mem_In in Hd. exact (proj1 (Forall_forall _ _) disposition_values_resolve d Hd). Qed.

Section Chain.
Variable parse : str -> pv -> result pv.

Definition untyped (c : column) : bool :=
  match c_type c with PA (ATy m) => str_eqb m missing_member | _ => false end.
Definition restored (c : column) : column := if untyped c then set FType (PA (AInt 0)) c else c.

(* what is required of a column for its text form to resolve back to it *)
Record wf_col (c : column) : Prop := mkwf {
  wf_type : exists m, c_type c = PA (ATy m) /\ mem m type_names = true;
  wf_elt : c_elt c = PNone \/ exists e, c_elt c = PA (ATy e) /\ mem e type_names = true /\ e <> missing_member;
  wf_arr : c_type c = PA (ATy ty_array) -> c_elt c <> PNone;
  wf_disp : c_disposition c = PNone \/ exists d, c_disposition c = PA (ADisp d) /\ mem d disp_names = true;
  wf_dec : c_type c = PA (ATy ty_decimal) -> is_none (c_precision c) = false /\ is_none (c_scale c) = false
}.

(* the chain of normalisation steps on a column whose type / element type / disposition are in text form *)
Definition chain (c1 : column) : result column :=
  bind (norm_disposition c1) (fun c1 =>
  bind (norm_element c1) (fun c2 =>
  bind (norm_type c2) (fun c3 =>
  bind (norm_default parse c3) (fun c4 =>
  norm_decimal c4)))).

Definition text_form (v : pv) : pv :=
  match v with
  | PA (ATy m) => PA (AText (type_value m))
  | PA (ADisp m) => PA (AText (disp_value m))
  | _ => v
  end.

Definition kw_view (c : column) (D X : pv) (f : field) : pv :=
  match f with
  | FType => text_form (c_type c)
  | FElementType => text_form (c_elt c)
  | FDisposition => text_form (c_disposition c)
  | FDefault => D
  | FExpectations => X
  | _ => get f c
  end.

Lemma chain_text : forall c D,
  wf_col c ->
  (if untyped c then truthy D = false /\ D = c_default c
   else (truthy D = true -> forall m, c_type c = PA (ATy m) -> parse m D = Ok (c_default c)) /\
        (truthy D = false -> D = c_default c)) ->
  chain (build (kw_view c D (c_expectations c))) = Ok (restored c).
Proof.
  intros c D [[m [Ht Hm]] He Ha Hd Hdec] HD.
  destruct c as [n d t e ds dp al nu ex id ln pr sc og hi lo nc].
  cbn [c_type c_elt c_disposition c_default c_precision c_scale c_expectations] in *. subst t.
  unfold chain, restored, untyped in *. cbn [c_type c_expectations] in *.
  (* disposition *)
  change (build (kw_view (mkcolumn n d (PA (ATy m)) e ds dp al nu ex id ln pr sc og hi lo nc) D ex))
    with (mkcolumn n D (PA (AText (type_value m))) (text_form e) ds (text_form dp) al nu ex id ln pr sc og hi lo nc).
  assert (S1 : norm_disposition (mkcolumn n D (PA (AText (type_value m))) (text_form e) ds (text_form dp) al nu ex id ln pr sc og hi lo nc)
               = Ok (mkcolumn n D (PA (AText (type_value m))) (text_form e) ds dp al nu ex id ln pr sc og hi lo nc)).
  { destruct Hd as [-> | [x [-> Hx]]].
    - reflexivity.
    - unfold norm_disposition. cbn [c_disposition text_form].
      rewrite (disposition_resolves x Hx). reflexivity. }
  rewrite S1. cbn [bind]. clear S1.
  (* element type *)
  assert (S2 : norm_element (mkcolumn n D (PA (AText (type_value m))) (text_form e) ds dp al nu ex id ln pr sc og hi lo nc)
               = Ok (mkcolumn n D (PA (AText (type_value m))) e ds dp al nu ex id ln pr sc og hi lo nc)).
  { destruct He as [-> | [y [-> [Hy Hny]]]].
    - reflexivity.
    - unfold norm_element. cbn [c_elt text_form]. rewrite (member_resolves y Hy Hny). reflexivity. }
  rewrite S2. cbn [bind]. clear S2.
  (* type *)
  destruct (str_eqb m missing_member) eqn:Em.
  - apply str_eqb_eq in Em. subst m. destruct HD as [HD1 HD2]. subst D.
    unfold norm_type. cbn [c_type]. rewrite (proj1 missing_name_resolves). cbn [bind].
    unfold Model.C06.plain. cbn [Model.C06.d_ty pv_of_tyref].
    change (set FType (PA (AInt 0)) (mkcolumn n d (PA (AText (type_value missing_member))) e ds dp al nu ex id ln pr sc og hi lo nc))
      with (mkcolumn n d (PA (AInt 0)) e ds dp al nu ex id ln pr sc og hi lo nc).
    cbn [bind]. unfold norm_default. cbn [c_default c_type]. rewrite HD1. cbn [bind].
    reflexivity.
  - assert (Hn : m <> missing_member) by (intros ->; rewrite str_eqb_refl in Em; discriminate).
    assert (S3 : norm_type (mkcolumn n D (PA (AText (type_value m))) e ds dp al nu ex id ln pr sc og hi lo nc)
                 = Ok (mkcolumn n D (PA (ATy m)) e ds dp al nu ex id ln pr sc og hi lo nc)).
    { unfold norm_type. cbn [c_type]. rewrite (member_resolves m Hm Hn). cbn [bind].
      unfold Model.C06.plain. cbn [Model.C06.d_ty Model.C06.d_len Model.C06.d_prec Model.C06.d_scale Model.C06.d_elt pv_of_tyref pv_of_optN].
      rewrite !fill_none.
      destruct (str_eqb m ty_array) eqn:Ea.
      + apply str_eqb_eq in Ea. subst m. rewrite fill_present; [reflexivity|].
        cbn. destruct e as [[]|]; try reflexivity. exfalso. apply (Ha eq_refl). reflexivity.
      + cbn [pv_of_optT]. rewrite fill_none. reflexivity. }
    rewrite S3. cbn [bind]. clear S3.
    destruct HD as [HD1 HD2].
    assert (S4 : norm_default parse (mkcolumn n D (PA (ATy m)) e ds dp al nu ex id ln pr sc og hi lo nc)
                 = Ok (mkcolumn n d (PA (ATy m)) e ds dp al nu ex id ln pr sc og hi lo nc)).
    { unfold norm_default. cbn [c_default c_type]. destruct (truthy D) eqn:ET.
      - rewrite (HD1 eq_refl m eq_refl). reflexivity.
      - rewrite (HD2 eq_refl). reflexivity. }
    rewrite S4. cbn [bind]. clear S4.
    unfold norm_decimal. cbn [c_type]. destruct (str_eqb m ty_decimal) eqn:Edc; [|reflexivity].
    apply str_eqb_eq in Edc. subst m. destruct (Hdec eq_refl) as [Hp Hs].
    rewrite fill_present by exact Hp. cbn [c_scale]. rewrite Hs. reflexivity.
Qed.

(* ---------- FlatColumn(keywords) when the keywords are a column's attributes with type / element type /
   disposition in text form ---------- *)
Definition free (f : field) : bool :=
  negb (field_eqb f FType || field_eqb f FElementType || field_eqb f FDisposition).

Definition default_ok (c : column) (D : pv) : Prop :=
  if untyped c then truthy D = false /\ D = c_default c
  else (truthy D = true -> forall m, c_type c = PA (ATy m) -> parse m D = Ok (c_default c)) /\
       (truthy D = false -> D = c_default c).

Lemma init_text : forall cls fresh kw c D X,
  wf_col c -> default_ok c D -> exp_in X = Ok (c_expectations c) ->
  (forall f, lookup f kw = Some (kw_view c D X f)) ->
  init parse cls fresh kw = Ok (restored c).
Proof.
  intros cls fresh kw c D X Hwf HD HX Hkw. unfold init.
  assert (HC : collect cls fresh kw =
               Ok (map (fun f => (f, if field_eqb f FExpectations then c_expectations c else kw_view c D X f)) all_fields)).
  { unfold collect. apply mapM_ok. intros f _. unfold field_value. rewrite Hkw.
    destruct f; cbn [field_eqb kw_view bind]; try reflexivity. rewrite HX. reflexivity. }
  rewrite HC. cbn [bind]. rewrite of_assoc_map.
  change (build (fun f => if field_eqb f FExpectations then c_expectations c else kw_view c D X f))
    with (build (kw_view c D (c_expectations c))).
  exact (chain_text c D Hwf HD).
Qed.

(* ---------- dictionary round trip of one column ---------- *)
Definition plain_free (c : column) : Prop := forall f, free f = true -> conv (get f c) = get f c.

Lemma conv_text_form : forall c, wf_col c ->
  conv (c_type c) = text_form (c_type c) /\ conv (c_elt c) = text_form (c_elt c) /\
  conv (c_disposition c) = text_form (c_disposition c).
Proof.
  intros c [[m [Ht _]] He _ Hd _]. rewrite Ht. split; [reflexivity|]. split.
  - destruct He as [-> | [e [-> _]]]; reflexivity.
  - destruct Hd as [-> | [d [-> _]]]; reflexivity.
Qed.

Lemma init_to_dict : forall cls fresh c,
  wf_col c -> plain_free c -> default_ok c (c_default c) ->
  exp_in (c_expectations c) = Ok (c_expectations c) ->
  init parse cls fresh (to_dict_col c) = Ok (restored c).
Proof.
  intros cls fresh c Hwf Hpl HD HX.
  apply (init_text cls fresh (to_dict_col c) c (c_default c) (c_expectations c) Hwf HD HX).
  intros f. rewrite lookup_to_dict. destruct (conv_text_form c Hwf) as [H1 [H2 H3]].
  destruct f; cbn [kw_view]; apply f_equal; first [ apply Hpl; reflexivity | exact H1 | exact H2 | exact H3 ].
Qed.

(* ---------- schemas ---------- *)
Lemma restore_cols_to_dict : forall fresh cs i,
  Forall (fun c => wf_col c /\ plain_free c /\ default_ok c (c_default c) /\
                   exp_in (c_expectations c) = Ok (c_expectations c)) cs ->
  restore_cols parse fresh i (map (fun c => DCol (to_dict_col c)) cs) = Ok (map restored cs).
Proof.
  intros fresh cs. induction cs as [|c cs IH]; intros i H; cbn [map restore_cols]; [reflexivity|].
  inversion H as [|? ? [H1 [H2 [H3 H4]]] Hr]; subst.
  rewrite (init_to_dict class_flat (fresh i) c H1 H2 H3 H4). cbn [bind].
  rewrite (IH (S i) Hr). reflexivity.
Qed.

Lemma from_dict_to_dict : forall fresh s,
  Forall (fun c => wf_col c /\ plain_free c /\ default_ok c (c_default c) /\
                   exp_in (c_expectations c) = Ok (c_expectations c)) (s_columns s) ->
  from_dict parse fresh (to_dict s) =
  Ok (mkschema (conv (s_name s)) (conv (s_aliases s)) (map restored (s_columns s)) (conv (s_pk s)) PNone PNone PNone PNone).
Proof.
  intros fresh s H. unfold from_dict, to_dict. cbn [d_name d_aliases d_columns d_pk].
  rewrite (restore_cols_to_dict fresh (s_columns s) 0 H). reflexivity.
Qed.

Lemma restored_typed : forall c, untyped c = false -> restored c = c.
Proof. intros c H. unfold restored. rewrite H. reflexivity. Qed.

Lemma map_restored_typed : forall cs, Forall (fun c => untyped c = false) cs -> map restored cs = cs.
Proof.
  induction cs as [|c cs IH]; intros H; cbn [map]; [reflexivity|].
  inversion H; subst. rewrite restored_typed by assumption. rewrite IH by assumption. reflexivity.
Qed.

Lemma restored_other : forall c f, f <> FType -> get f (restored c) = get f c.
Proof.
  intros c f Hf. unfold restored. destruct (untyped c); [|reflexivity].
  apply get_set_other. intros E. apply Hf. symmetry. exact E.
Qed.

(* ---------- behaviour of the restored column ---------- *)
Lemma proj_restored : forall key c, proj_col key (restored c) = proj_col key c.
Proof.
  intros key c. unfold restored, untyped. destruct c as [n d t e ds dp al nu ex id ln pr sc og hi lo nc].
  cbn [c_type]. destruct t as [[]|]; try reflexivity.
  destruct (str_eqb m missing_member) eqn:E; [|reflexivity].
  unfold proj_col, set, build. cbn [get field_eqb c_name c_type c_nullable proj_type]. rewrite E. reflexivity.
Qed.

Lemma proj_schema_restored : forall key cs, map (proj_col key) (map restored cs) = map (proj_col key) cs.
Proof. intros key cs. rewrite map_map. apply map_ext. intros c. apply proj_restored. Qed.

Lemma missing_truthy : truthy (PA (ATy missing_member)) = true.
Proof. vm_compute. reflexivity. Qed.

Lemma describe_restored : forall c, describe (restored c) = describe c.
Proof.
  intros c. unfold restored, untyped. destruct c as [n d t e ds dp al nu ex id ln pr sc og hi lo nc].
  cbn [c_type]. destruct t as [[]|]; try reflexivity.
  destruct (str_eqb m missing_member) eqn:E; [|reflexivity].
  apply str_eqb_eq in E. subst m.
  unfold describe, set, build. cbn [get field_eqb c_type c_name c_precision c_scale c_nullable c_elt].
  rewrite missing_truthy. reflexivity.
Qed.
End Chain.
