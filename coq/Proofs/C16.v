(* C16 - lemmas about the model of schema / column persistence (coq/Model/C16.v). *)
From Coq Require Import List NArith ZArith Bool Lia Arith.
From Coq Require Import String.  (* string literal notation only *)
From Orso Require Import Base.C16_Defs Gen.C16_Fields Model.C16.
From Orso Require Base.C06_Defs Gen.C06_Types Model.C06 Model.C05.
Import ListNotations.

(* ---------- the regenerated tables are the ones modelled ---------- *)
Lemma field_tables_modelled :
  map fst column_field_table = map field_name all_fields /\
  map fst schema_field_table = schema_field_names.
Proof. split; vm_compute; reflexivity. Qed.

(* the type table from_name (Model/C06.v) works on is the one regenerated here *)
Lemma type_table_shared : type_members = Gen.C06_Types.members.
Proof. vm_compute; reflexivity. Qed.

(* ---------- text ---------- *)
Lemma str_eqb_refl : forall a, str_eqb a a = true.
Proof. induction a as [|x a IH]; cbn [str_eqb]; [reflexivity|]. rewrite N.eqb_refl, IH. reflexivity. Qed.

Lemma str_eqb_eq : forall a b, str_eqb a b = true -> a = b.
Proof.
  induction a as [|x a IH]; destruct b as [|y b]; cbn [str_eqb]; intros H; try discriminate; [reflexivity|].
  apply andb_true_iff in H. destruct H as [H1 H2]. apply N.eqb_eq in H1. f_equal; auto.
Qed.

Lemma str_eqb_neq : forall a b, a <> b -> str_eqb a b = false.
Proof. intros a b H. destruct (str_eqb a b) eqn:E; [|reflexivity]. apply str_eqb_eq in E. contradiction. Qed.

Lemma mem_In : forall x l, mem x l = true -> In x l.
Proof.
  intros x l H. unfold mem in H. apply existsb_exists in H. destruct H as [y [Hy E]].
  apply str_eqb_eq in E. subst. exact Hy.
Qed.

(* ---------- records ---------- *)
Lemma get_build : forall g f, get f (build g) = g f.
Proof. intros g f. destruct f; reflexivity. Qed.

Lemma build_get : forall c, build (fun f => get f c) = c.
Proof. intros c. destruct c; reflexivity. Qed.

Lemma set_same : forall f c, set f (get f c) c = c.
Proof. intros f c. destruct c, f; reflexivity. Qed.

Lemma get_set_same : forall f v c, get f (set f v c) = v.
Proof. intros f v c. destruct f; reflexivity. Qed.

Lemma get_set_other : forall f f' v c, f <> f' -> get f' (set f v c) = get f' c.
Proof. intros f f' v c H. destruct f, f'; try reflexivity; contradiction H; reflexivity. Qed.

Lemma is_none_eq : forall v, is_none v = true -> v = PNone.
Proof. intros v H. destruct v as [a|l]; [destruct a|]; try discriminate. reflexivity. Qed.

Lemma fill_none : forall f c, fill f PNone c = c.
Proof.
  intros f c. unfold fill. destruct (is_none (get f c)) eqn:E; [|reflexivity].
  apply is_none_eq in E. rewrite <- E. apply set_same.
Qed.

Lemma fill_present : forall f v c, is_none (get f c) = false -> fill f v c = c.
Proof. intros f v c H. unfold fill. rewrite H. reflexivity. Qed.

Lemma lookup_map : forall (g : field -> pv) f, lookup f (map (fun f' => (f', g f')) all_fields) = Some (g f).
Proof. intros g f. destruct f; reflexivity. Qed.

Lemma lookup_to_dict : forall f c, lookup f (to_dict_col c) = Some (conv (get f c)).
Proof. intros f c. unfold to_dict_col. apply (lookup_map (fun f' => conv (get f' c))). Qed.

Lemma of_assoc_map : forall g, of_assoc (map (fun f => (f, g f)) all_fields) = build g.
Proof. intros g. reflexivity. Qed.

Lemma mapM_ok : forall (A B : Type) (F : A -> result B) (G : A -> B) (l : list A),
  (forall x, In x l -> F x = Ok (G x)) -> mapM F l = Ok (map G l).
Proof.
  intros A B F G l. induction l as [|x l IH]; intros H; cbn [mapM map]; [reflexivity|].
  rewrite (H x (or_introl eq_refl)). cbn [bind]. rewrite IH; [reflexivity|].
  intros y Hy. apply H. right. exact Hy.
Qed.

(* ---------- names of types and dispositions resolve back to their members ---------- *)
Definition ty_varchar : str := Eval vm_compute in txt "VARCHAR"%string.

Lemma member_names_resolve :
  Forall (fun x => x = missing_member \/
                   from_name_pv (PA (AText (type_value x))) =
                   Ok (Model.C06.plain (Model.C06.TMember x) (if str_eqb x ty_array then Some ty_varchar else None)))
         type_names.
Proof.
  unfold type_names, type_members. cbn [map fst].
  repeat (constructor; [ first [ left; reflexivity | right; vm_compute; reflexivity ] | ]).
  constructor.
Qed.

Lemma missing_name_resolves :
  from_name_pv (PA (AText (type_value missing_member))) = Ok (Model.C06.plain Model.C06.TZero None) /\
  from_name_pv (PA (AInt 0)) = Ok (Model.C06.plain Model.C06.TZero None).
Proof. split; vm_compute; reflexivity. Qed.

Lemma disposition_values_resolve :
  Forall (fun x => disp_of_value (disp_value x) = Some x) disp_names.
Proof.
  unfold disp_names, disposition_members. cbn [map fst].
  repeat (constructor; [ vm_compute; reflexivity | ]). constructor.
Qed.

Lemma member_resolves : forall m,
  mem m type_names = true -> m <> missing_member ->
  from_name_pv (PA (AText (type_value m))) =
  Ok (Model.C06.plain (Model.C06.TMember m) (if str_eqb m ty_array then Some ty_varchar else None)).
Proof.
  intros m Hm Hn. apply mem_In in Hm.
  pose proof (proj1 (Forall_forall _ _) member_names_resolve m Hm) as [H|H]; [contradiction|exact H].
Qed.

Lemma disposition_resolves : forall d, mem d disp_names = true -> disp_of_value (disp_value d) = Some d.
Proof. intros d Hd. apply mem_In in Hd. exact (proj1 (Forall_forall _ _) disposition_values_resolve d Hd). Qed.

Section Chain.
Variable parse : str -> params -> pv -> result pv.

Definition untyped (c : column) : bool :=
  match c_type c with PA (ATy m) => str_eqb m missing_member | _ => false end.
Definition restored (c : column) : column := if untyped c then set FType (PA (AInt 0)) c else c.

(* what is required of a column for its text form to resolve back to it *)
Record wf_col (c : column) : Prop := mkwf {
  wf_type : exists m, c_type c = PA (ATy m) /\ mem m type_names = true;
  wf_elt : c_elt c = PNone \/ exists e, c_elt c = PA (ATy e) /\ mem e type_names = true /\ e <> missing_member;
  wf_arr : c_type c = PA (ATy ty_array) -> c_elt c <> PNone;
  wf_disp : c_disposition c = PNone \/ exists d, c_disposition c = PA (ADisp d) /\ mem d disp_names = true;
  wf_dec : c_type c = PA (ATy ty_decimal) -> is_none (c_precision c) = false /\ is_none (c_scale c) = false
}.

(* the chain of normalisation steps on a column whose type / element type / disposition are in text form *)
Definition chain (c1 : column) : result column :=
  bind (norm_disposition c1) (fun c1 =>
  bind (norm_element c1) (fun c2 =>
  bind (norm_type c2) (fun c3 =>
  bind (norm_decimal c3) (fun c4 =>
  norm_default parse c4)))).

Definition text_form (v : pv) : pv :=
  match v with
  | PA (ATy m) => PA (AText (type_value m))
  | PA (ADisp m) => PA (AText (disp_value m))
  | _ => v
  end.

Definition kw_view (c : column) (D X : pv) (f : field) : pv :=
  match f with
  | FType => text_form (c_type c)
  | FElementType => text_form (c_elt c)
  | FDisposition => text_form (c_disposition c)
  | FDefault => D
  | FExpectations => X
  | _ => get f c
  end.

(* what the default keyword D must be for the constructor to end with c's default: an untyped column keeps it
   untouched; a typed column keeps None and casts anything else with the column's own parameters *)
Definition default_ok (c : column) (D : pv) : Prop :=
  if untyped c then D = c_default c
  else (is_none D = true -> D = c_default c) /\
       (is_none D = false -> forall m, c_type c = PA (ATy m) -> parse m (col_params c) D = Ok (c_default c)).

Lemma chain_text : forall c D,
  wf_col c ->
  default_ok c D ->
  chain (build (kw_view c D (c_expectations c))) = Ok (restored c).
Proof.
  intros c D [[m [Ht Hm]] He Ha Hd Hdec] HD.
  destruct c as [n d t e ds dp al nu ex id ln pr sc og hi lo nc].
  cbn [c_type c_elt c_disposition c_default c_precision c_scale c_expectations] in *. subst t.
  unfold chain, restored, default_ok, untyped, col_params in *. cbn [c_type c_expectations c_default c_length c_precision c_scale c_elt] in *.
  (* disposition *)
  change (build (kw_view (mkcolumn n d (PA (ATy m)) e ds dp al nu ex id ln pr sc og hi lo nc) D ex))
    with (mkcolumn n D (PA (AText (type_value m))) (text_form e) ds (text_form dp) al nu ex id ln pr sc og hi lo nc).
  assert (S1 : norm_disposition (mkcolumn n D (PA (AText (type_value m))) (text_form e) ds (text_form dp) al nu ex id ln pr sc og hi lo nc)
               = Ok (mkcolumn n D (PA (AText (type_value m))) (text_form e) ds dp al nu ex id ln pr sc og hi lo nc)).
  { destruct Hd as [-> | [x [-> Hx]]].
    - reflexivity.
    - unfold norm_disposition. cbn [c_disposition text_form].
      rewrite (disposition_resolves x Hx). reflexivity. }
  rewrite S1. cbn [bind]. clear S1.
  (* element type *)
  assert (S2 : norm_element (mkcolumn n D (PA (AText (type_value m))) (text_form e) ds dp al nu ex id ln pr sc og hi lo nc)
               = Ok (mkcolumn n D (PA (AText (type_value m))) e ds dp al nu ex id ln pr sc og hi lo nc)).
  { destruct He as [-> | [y [-> [Hy Hny]]]].
    - reflexivity.
    - unfold norm_element. cbn [c_elt text_form]. rewrite (member_resolves y Hy Hny). reflexivity. }
  rewrite S2. cbn [bind]. clear S2.
  (* type *)
  destruct (str_eqb m missing_member) eqn:Em.
  - apply str_eqb_eq in Em. subst m. subst D.
    unfold norm_type. cbn [c_type]. rewrite (proj1 missing_name_resolves). cbn [bind].
    unfold Model.C06.plain. cbn [Model.C06.d_ty pv_of_tyref].
    change (set FType (PA (AInt 0)) (mkcolumn n d (PA (AText (type_value missing_member))) e ds dp al nu ex id ln pr sc og hi lo nc))
      with (mkcolumn n d (PA (AInt 0)) e ds dp al nu ex id ln pr sc og hi lo nc).
    cbn [bind]. unfold norm_decimal at 1. cbn [c_type bind]. unfold norm_default. cbn [c_default c_type].
    destruct (is_none d); reflexivity.
  - assert (Hn : m <> missing_member) by (intros ->; rewrite str_eqb_refl in Em; discriminate).
    assert (S3 : norm_type (mkcolumn n D (PA (AText (type_value m))) e ds dp al nu ex id ln pr sc og hi lo nc)
                 = Ok (mkcolumn n D (PA (ATy m)) e ds dp al nu ex id ln pr sc og hi lo nc)).
    { unfold norm_type. cbn [c_type]. rewrite (member_resolves m Hm Hn). cbn [bind].
      unfold Model.C06.plain. cbn [Model.C06.d_ty Model.C06.d_len Model.C06.d_prec Model.C06.d_scale Model.C06.d_elt pv_of_tyref pv_of_optN].
      rewrite !fill_none.
      destruct (str_eqb m ty_array) eqn:Ea.
      + apply str_eqb_eq in Ea. subst m. rewrite fill_present; [reflexivity|].
        cbn. destruct e as [[]|]; try reflexivity. exfalso. apply (Ha eq_refl). reflexivity.
      + cbn [pv_of_optT]. rewrite fill_none. reflexivity. }
    rewrite S3. cbn [bind]. clear S3.
    assert (S4 : norm_decimal (mkcolumn n D (PA (ATy m)) e ds dp al nu ex id ln pr sc og hi lo nc)
                 = Ok (mkcolumn n D (PA (ATy m)) e ds dp al nu ex id ln pr sc og hi lo nc)).
    { unfold norm_decimal. cbn [c_type]. destruct (str_eqb m ty_decimal) eqn:Edc; [|reflexivity].
      apply str_eqb_eq in Edc. subst m. destruct (Hdec eq_refl) as [Hp Hs].
      rewrite fill_present by exact Hp. cbn [c_scale]. rewrite Hs. reflexivity. }
    rewrite S4. cbn [bind]. clear S4.
    destruct HD as [HD1 HD2].
    unfold norm_default, col_params. cbn [c_default c_type c_length c_precision c_scale c_elt]. rewrite Em.
    destruct (is_none D) eqn:ET.
    + rewrite (HD1 eq_refl). reflexivity.
    + rewrite (HD2 eq_refl m eq_refl). reflexivity.
Qed.

(* ---------- FlatColumn(keywords) when the keywords are a column's attributes with type / element type /
   disposition in text form ---------- *)
Definition free (f : field) : bool :=
  negb (field_eqb f FType || field_eqb f FElementType || field_eqb f FDisposition).

Lemma init_text : forall cls fresh kw c D X,
  wf_col c -> default_ok c D -> exp_in X = Ok (c_expectations c) ->
  (forall f, lookup f kw = Some (kw_view c D X f)) ->
  init parse cls fresh kw = Ok (restored c).
Proof.
  intros cls fresh kw c D X Hwf HD HX Hkw. unfold init.
  assert (HC : collect cls fresh kw =
               Ok (map (fun f => (f, if field_eqb f FExpectations then c_expectations c else kw_view c D X f)) all_fields)).
  { unfold collect. apply mapM_ok. intros f _. unfold field_value. rewrite Hkw.
    destruct f; cbn [field_eqb kw_view bind]; try reflexivity. rewrite HX. reflexivity. }
  rewrite HC. cbn [bind]. rewrite of_assoc_map.
  change (build (fun f => if field_eqb f FExpectations then c_expectations c else kw_view c D X f))
    with (build (kw_view c D (c_expectations c))).
  exact (chain_text c D Hwf HD).
Qed.

(* ---------- dictionary round trip of one column ---------- *)
Definition plain_free (c : column) : Prop := forall f, free f = true -> conv (get f c) = get f c.

Lemma conv_text_form : forall c, wf_col c ->
  conv (c_type c) = text_form (c_type c) /\ conv (c_elt c) = text_form (c_elt c) /\
  conv (c_disposition c) = text_form (c_disposition c).
Proof.
  intros c [[m [Ht _]] He _ Hd _]. rewrite Ht. split; [reflexivity|]. split.
  - destruct He as [-> | [e [-> _]]]; reflexivity.
  - destruct Hd as [-> | [d [-> _]]]; reflexivity.
Qed.

Lemma init_to_dict : forall cls fresh c,
  wf_col c -> plain_free c -> default_ok c (c_default c) ->
  exp_in (c_expectations c) = Ok (c_expectations c) ->
  init parse cls fresh (to_dict_col c) = Ok (restored c).
Proof.
  intros cls fresh c Hwf Hpl HD HX.
  apply (init_text cls fresh (to_dict_col c) c (c_default c) (c_expectations c) Hwf HD HX).
  intros f. rewrite lookup_to_dict. destruct (conv_text_form c Hwf) as [H1 [H2 H3]].
  destruct f; cbn [kw_view]; apply f_equal; first [ apply Hpl; reflexivity | exact H1 | exact H2 | exact H3 ].
Qed.

(* ---------- schemas ---------- *)
Lemma restore_cols_to_dict : forall fresh cs i,
  Forall (fun c => wf_col c /\ plain_free c /\ default_ok c (c_default c) /\
                   exp_in (c_expectations c) = Ok (c_expectations c)) cs ->
  restore_cols parse fresh i (map (fun c => DCol (to_dict_col c)) cs) = Ok (map restored cs).
Proof.
  intros fresh cs. induction cs as [|c cs IH]; intros i H; cbn [map restore_cols]; [reflexivity|].
  inversion H as [|? ? [H1 [H2 [H3 H4]]] Hr]; subst.
  rewrite (init_to_dict class_flat (fresh i) c H1 H2 H3 H4). cbn [bind].
  rewrite (IH (S i) Hr). reflexivity.
Qed.

Lemma from_dict_to_dict : forall fresh s,
  Forall (fun c => wf_col c /\ plain_free c /\ default_ok c (c_default c) /\
                   exp_in (c_expectations c) = Ok (c_expectations c)) (s_columns s) ->
  from_dict parse fresh (to_dict s) =
  Ok (mkschema (conv (s_name s)) (conv (s_aliases s)) (map restored (s_columns s)) (conv (s_pk s))
               (conv (s_rcm s)) (conv (s_rce s)) (conv (s_dsm s)) (conv (s_dse s))).
Proof.
  intros fresh s H. unfold from_dict, to_dict. cbn [d_name d_aliases d_columns d_pk].
  rewrite (restore_cols_to_dict fresh (s_columns s) 0 H). reflexivity.
Qed.

Lemma restored_typed : forall c, untyped c = false -> restored c = c.
Proof. intros c H. unfold restored. rewrite H. reflexivity. Qed.

Lemma map_restored_typed : forall cs, Forall (fun c => untyped c = false) cs -> map restored cs = cs.
Proof.
  induction cs as [|c cs IH]; intros H; cbn [map]; [reflexivity|].
  inversion H; subst. rewrite restored_typed by assumption. rewrite IH by assumption. reflexivity.
Qed.

Lemma restored_other : forall c f, f <> FType -> get f (restored c) = get f c.
Proof.
  intros c f Hf. unfold restored. destruct (untyped c); [|reflexivity].
  apply get_set_other. intros E. apply Hf. symmetry. exact E.
Qed.

(* ---------- behaviour of the restored column ---------- *)
Lemma proj_restored : forall key c, proj_col key (restored c) = proj_col key c.
Proof.
  intros key c. unfold restored, untyped. destruct c as [n d t e ds dp al nu ex id ln pr sc og hi lo nc].
  cbn [c_type]. destruct t as [[]|]; try reflexivity.
  destruct (str_eqb m missing_member) eqn:E; [|reflexivity].
  unfold proj_col, set, build. cbn [get field_eqb c_name c_type c_nullable proj_type]. rewrite E. reflexivity.
Qed.

Lemma proj_schema_restored : forall key cs, map (proj_col key) (map restored cs) = map (proj_col key) cs.
Proof. intros key cs. rewrite map_map. apply map_ext. intros c. apply proj_restored. Qed.

Lemma missing_truthy : truthy (PA (ATy missing_member)) = true.
Proof. vm_compute. reflexivity. Qed.

Lemma describe_restored : forall c, describe (restored c) = describe c.
Proof.
  intros c. unfold restored, untyped. destruct c as [n d t e ds dp al nu ex id ln pr sc og hi lo nc].
  cbn [c_type]. destruct t as [[]|]; try reflexivity.
  destruct (str_eqb m missing_member) eqn:E; [|reflexivity].
  apply str_eqb_eq in E. subst m.
  unfold describe, set, build. cbn [get field_eqb c_type c_name c_precision c_scale c_nullable c_elt].
  rewrite missing_truthy. reflexivity.
Qed.
End Chain.

(* ==================== JSON ==================== *)
Section Json.
Variable parse : str -> params -> pv -> result pv.
Variable ser_ext : atom -> result jval.

Lemma field_of_name_name : forall f, field_of_name (field_name f) = Some f.
Proof. destruct f; vm_compute; reflexivity. Qed.

Lemma kwargs_of_json_fields : forall (J : field -> jval) fs,
  flat_map (fun '(k, v) => match field_of_name k with Some f => [(f, pv_of_json v)] | None => [] end)
           (map (fun f => (field_name f, J f)) fs) = map (fun f => (f, pv_of_json (J f))) fs.
Proof.
  intros J fs. induction fs as [|f fs IH]; cbn [map flat_map]; [reflexivity|].
  rewrite field_of_name_name. cbn [app]. rewrite IH. reflexivity.
Qed.

(* the value survives JSON: it is written, and what is read back is the value itself *)
Definition json_stable (v : pv) : Prop := exists j, json_of_pv ser_ext v = Ok j /\ pv_of_json j = v.

Lemma field_choice : forall (P : field -> jval -> Prop),
  (forall f, exists j, P f j) -> exists J, forall f, P f (J f).
Proof.
  intros P H.
  destruct (H FName) as [j1 H1]. destruct (H FDefault) as [j2 H2]. destruct (H FType) as [j3 H3].
  destruct (H FElementType) as [j4 H4]. destruct (H FDescription) as [j5 H5]. destruct (H FDisposition) as [j6 H6].
  destruct (H FAliases) as [j7 H7]. destruct (H FNullable) as [j8 H8]. destruct (H FExpectations) as [j9 H9].
  destruct (H FIdentity) as [j10 H10]. destruct (H FLength) as [j11 H11]. destruct (H FPrecision) as [j12 H12].
  destruct (H FScale) as [j13 H13]. destruct (H FOrigin) as [j14 H14]. destruct (H FHighest) as [j15 H15].
  destruct (H FLowest) as [j16 H16]. destruct (H FNullCount) as [j17 H17].
  exists (fun f => match f with
                   | FName => j1 | FDefault => j2 | FType => j3 | FElementType => j4 | FDescription => j5
                   | FDisposition => j6 | FAliases => j7 | FNullable => j8 | FExpectations => j9 | FIdentity => j10
                   | FLength => j11 | FPrecision => j12 | FScale => j13 | FOrigin => j14 | FHighest => j15
                   | FLowest => j16 | FNullCount => j17 end).
  intros f. destruct f; assumption.
Qed.

Lemma to_json_ok : forall c (J : field -> jval),
  (forall f, json_of_pv ser_ext (get f c) = Ok (J f)) ->
  to_json ser_ext c = Ok (JObj (map (fun f => (field_name f, J f)) all_fields)).
Proof.
  intros c J H. unfold to_json.
  rewrite (mapM_ok _ _ _ (fun f => (field_name f, J f))); [reflexivity|].
  intros f _. rewrite H. reflexivity.
Qed.

Lemma from_json_to_json : forall fresh c,
  wf_col c ->
  (forall f, free f = true -> f <> FDefault -> f <> FExpectations -> json_stable (get f c)) ->
  (exists j, json_of_pv ser_ext (c_default c) = Ok j /\ default_ok parse c (pv_of_json j)) ->
  (exists j, json_of_pv ser_ext (c_expectations c) = Ok j /\ exp_in (pv_of_json j) = Ok (c_expectations c)) ->
  exists j, to_json ser_ext c = Ok j /\ from_json parse fresh j = Ok (restored c).
Proof.
  intros fresh c Hwf Hfree [jd [Hjd HD]] [jx [Hjx HX]].
  assert (HP : forall f, exists j, json_of_pv ser_ext (get f c) = Ok j /\
                                   pv_of_json j = kw_view c (pv_of_json jd) (pv_of_json jx) f).
  { destruct Hwf as [[m [Ht Hm]] He _ Hd _].
    intros f. destruct f.
    all: try (match goal with
              | |- exists j, json_of_pv _ (get ?F _) = Ok j /\ _ =>
                  destruct (Hfree F eq_refl ltac:(discriminate) ltac:(discriminate)) as [j [Hj1 Hj2]];
                  exists j; split; [exact Hj1 | exact Hj2]
              end).
    - exists jd. split; [exact Hjd | reflexivity].
    - cbn [get kw_view]. rewrite Ht. eexists. split; reflexivity.
    - cbn [get kw_view]. destruct He as [-> | [e [-> _]]]; eexists; split; reflexivity.
    - cbn [get kw_view]. destruct Hd as [-> | [d [-> _]]]; eexists; split; reflexivity.
    - exists jx. split; [exact Hjx | reflexivity]. }
  destruct (field_choice _ HP) as [J HJ].
  exists (JObj (map (fun f => (field_name f, J f)) all_fields)). split.
  - apply to_json_ok. intros f. exact (proj1 (HJ f)).
  - unfold from_json, kwargs_of_json. rewrite kwargs_of_json_fields.
    apply (init_text parse class_flat fresh _ c (pv_of_json jd) (pv_of_json jx) Hwf HD HX).
    intros f. rewrite (lookup_map (fun f' => pv_of_json (J f')) f). rewrite (proj2 (HJ f)). reflexivity.
Qed.

(* values with a native JSON form are stable *)
Definition native_atom (a : atom) : Prop :=
  match a with
  | ANone | ABool _ | AText _ => True
  | AInt z => int64_ok z = true
  | AFloat b => finite_bits b = true
  | AExp false _ _ => True
  | _ => False
  end.

Lemma native_atom_stable : forall a, native_atom a ->
  exists j, json_of_atom ser_ext a = Ok j /\ atom_of_json j = a /\ (forall l, j <> JArr l).
Proof.
  intros a H. destruct a; cbn [native_atom] in H; try contradiction.
  - exists JNull. repeat split; discriminate.
  - exists (JBool b). repeat split; discriminate.
  - exists (JInt z). cbn [json_of_atom]. rewrite H. repeat split; discriminate.
  - exists (JFloat bits). cbn [json_of_atom]. rewrite H. repeat split; discriminate.
  - exists (JText s). repeat split; discriminate.
  - destruct isobj; [contradiction|]. exists (JExpn hascol id). repeat split; discriminate.
Qed.

Lemma native_stable : forall a, native_atom a -> json_stable (PA a).
Proof.
  intros a H. destruct (native_atom_stable a H) as [j [H1 [H2 H3]]].
  exists j. split; [exact H1|]. destruct j; try (cbn [pv_of_json]; rewrite <- H2; reflexivity).
  exfalso. exact (H3 l eq_refl).
Qed.

Lemma native_list_stable : forall l, Forall native_atom l -> json_stable (PL l).
Proof.
  intros l H.
  assert (HL : exists js, mapM (json_of_atom ser_ext) l = Ok js /\ map atom_of_json js = l).
  { induction H as [|a l Ha Hl IH].
    - exists []. split; reflexivity.
    - destruct IH as [js [H1 H2]]. destruct (native_atom_stable a Ha) as [j [J1 [J2 _]]].
      exists (j :: js). cbn [mapM map]. rewrite J1. cbn [bind]. rewrite H1. cbn [bind].
      rewrite J2, H2. split; reflexivity. }
  destruct HL as [js [H1 H2]]. exists (JArr js). cbn [json_of_pv]. rewrite H1. cbn [bind pv_of_json].
  rewrite H2. split; reflexivity.
Qed.

(* ==================== to_flatcolumn ==================== *)
Definition normalised (c : column) : Prop :=
  ((exists m, c_type c = PA (ATy m)) \/ c_type c = PA (AInt 0)) /\
  (c_elt c = PNone \/ exists e, c_elt c = PA (ATy e)) /\
  (c_type c = PA (ATy ty_decimal) -> is_none (c_precision c) = false /\ is_none (c_scale c) = false) /\
  (is_none (c_default c) = false -> forall m, c_type c = PA (ATy m) -> m <> missing_member ->
   parse m (PNone, c_precision c, c_scale c, c_elt c) (c_default c) = Ok (c_default c)).

Lemma chain_normalised : forall c,
  ((exists m, c_type c = PA (ATy m)) \/ c_type c = PA (AInt 0)) ->
  (c_elt c = PNone \/ exists e, c_elt c = PA (ATy e)) ->
  (c_type c = PA (ATy ty_decimal) -> is_none (c_precision c) = false /\ is_none (c_scale c) = false) ->
  (is_none (c_default c) = false -> forall m, c_type c = PA (ATy m) -> m <> missing_member ->
   parse m (col_params c) (c_default c) = Ok (c_default c)) ->
  c_disposition c = PNone -> chain parse c = Ok c.
Proof.
  intros c Ht He Hdec Hdf Hdp.
  destruct c as [n d t e ds dp al nu ex id ln pr sc og hi lo nc].
  unfold col_params in *.
  cbn [c_type c_elt c_disposition c_default c_precision c_scale c_length] in *. subst dp.
  unfold chain.
  assert (S1 : norm_disposition (mkcolumn n d t e ds PNone al nu ex id ln pr sc og hi lo nc)
               = Ok (mkcolumn n d t e ds PNone al nu ex id ln pr sc og hi lo nc)) by reflexivity.
  rewrite S1. cbn [bind]. clear S1.
  assert (S2 : norm_element (mkcolumn n d t e ds PNone al nu ex id ln pr sc og hi lo nc)
               = Ok (mkcolumn n d t e ds PNone al nu ex id ln pr sc og hi lo nc)).
  { destruct He as [-> | [y ->]]; reflexivity. }
  rewrite S2. cbn [bind]. clear S2.
  assert (S3 : norm_type (mkcolumn n d t e ds PNone al nu ex id ln pr sc og hi lo nc)
               = Ok (mkcolumn n d t e ds PNone al nu ex id ln pr sc og hi lo nc)).
  { destruct Ht as [[m ->] | ->]; [reflexivity|].
    unfold norm_type. cbn [c_type]. rewrite (proj2 missing_name_resolves). reflexivity. }
  rewrite S3. cbn [bind]. clear S3.
  assert (S4 : norm_decimal (mkcolumn n d t e ds PNone al nu ex id ln pr sc og hi lo nc)
               = Ok (mkcolumn n d t e ds PNone al nu ex id ln pr sc og hi lo nc)).
  { unfold norm_decimal. cbn [c_type]. destruct t as [[]|]; try reflexivity.
    destruct (str_eqb m ty_decimal) eqn:Edc; [|reflexivity].
    apply str_eqb_eq in Edc. subst m. destruct (Hdec eq_refl) as [Hp Hs].
    rewrite fill_present by exact Hp. cbn [c_scale]. rewrite Hs. reflexivity. }
  rewrite S4. cbn [bind]. clear S4.
  unfold norm_default, col_params. cbn [c_default c_type c_length c_precision c_scale c_elt].
  destruct (is_none d) eqn:ET; [reflexivity|].
  destruct Ht as [[m ->] | ->]; [|reflexivity].
  destruct (str_eqb m missing_member) eqn:Em; [reflexivity|].
  rewrite (Hdf eq_refl m eq_refl); [reflexivity|].
  intros ->. rewrite str_eqb_refl in Em. discriminate.
Qed.

Definition flattened (c : column) : column :=
  mkcolumn (c_name c) (c_default c) (c_type c) (c_elt c) (c_description c) PNone (c_aliases c) (c_nullable c)
           (PL []) (c_identity c) PNone (c_precision c) (c_scale c) (PL []) (c_highest c) (c_lowest c) (c_null_count c).

Lemma flat_defaults : forall fresh,
  default_value class_flat fresh FDisposition = Some PNone /\
  default_value class_flat fresh FExpectations = Some (PL []) /\
  default_value class_flat fresh FLength = Some PNone /\
  default_value class_flat fresh FOrigin = Some (PL []).
Proof. intros fresh. repeat split; vm_compute; reflexivity. Qed.

Lemma to_flatcolumn_ok : forall fresh c s,
  c_name c = PA (AText s) -> normalised c -> to_flatcolumn parse fresh c = Ok (flattened c).
Proof.
  intros fresh c s Hn Hnorm. unfold to_flatcolumn. rewrite Hn. cbn [text_of].
  destruct (flat_defaults fresh) as [D1 [D2 [D3 D4]]].
  unfold init.
  assert (HC : collect class_flat fresh ((FName, PA (AText s)) :: map (fun f => (f, get f c)) (tl flat_kept)) =
               Ok (map (fun f => (f, get f (flattened c))) all_fields)).
  { unfold collect. apply mapM_ok. intros f _. unfold field_value.
    destruct f; cbn [lookup map tl flat_kept field_eqb bind get flattened c_name c_default c_type c_elt c_description
                     c_disposition c_aliases c_nullable c_expectations c_identity c_length c_precision c_scale c_origin
                     c_highest c_lowest c_null_count];
      try reflexivity.
    all: first [ rewrite Hn; reflexivity | rewrite D1; reflexivity | rewrite D2; reflexivity
               | rewrite D3; reflexivity | rewrite D4; reflexivity ]. }
  rewrite HC. cbn [bind]. rewrite of_assoc_map. rewrite build_get.
  destruct Hnorm as [Ht [He [Hdec Hdf]]].
  apply chain_normalised; try assumption; reflexivity.
Qed.

Lemma flattened_keeps : forall c f, In f flat_kept -> get f (flattened c) = get f c.
Proof.
  intros c f H. unfold flat_kept in H. cbn [In] in H.
  repeat (destruct H as [<- | H]; [reflexivity|]). contradiction.
Qed.
End Json.

(* ==================== the statements used by Props/C16.v ==================== *)
Section Statements.
Variable parse : str -> params -> pv -> result pv.

(* a column the dictionary form can carry: member type (possibly the placeholder), member element type and
   disposition, DECIMAL with its parameters, no enum member / Expectation object hidden in the other attributes,
   expectations (if any) in dictionary form with a column, and a default that its type's parse leaves alone *)
Definition persistable (c : column) : Prop :=
  wf_col c /\ plain_free c /\ default_ok parse c (c_default c) /\
  exp_in (c_expectations c) = Ok (c_expectations c).

(* equal in every attribute, except that the type attribute is only required for typed columns *)
Definition same_but_untyped_type (c' c : column) : Prop :=
  (forall f, f <> FType -> get f c' = get f c) /\ (untyped c = false -> c' = c).

Lemma restored_same : forall c, same_but_untyped_type (restored c) c.
Proof. intros c. split; [intros f Hf; apply restored_other; exact Hf | apply restored_typed]. Qed.

Lemma column_dict_round_trip : forall cls fresh c,
  persistable c ->
  exists c', init parse cls fresh (to_dict_col c) = Ok c' /\ same_but_untyped_type c' c.
Proof.
  intros cls fresh c [H1 [H2 [H3 H4]]]. exists (restored c). split.
  - apply init_to_dict; assumption.
  - apply restored_same.
Qed.

(* the schema's own attributes hold no enum member (names, aliases, key and statistics are text / numbers / None) *)
Definition plain_top (s : schema) : Prop :=
  conv (s_name s) = s_name s /\ conv (s_aliases s) = s_aliases s /\ conv (s_pk s) = s_pk s /\
  conv (s_rcm s) = s_rcm s /\ conv (s_rce s) = s_rce s /\ conv (s_dsm s) = s_dsm s /\ conv (s_dse s) = s_dse s.

Lemma Forall2_restored : forall cs, Forall2 same_but_untyped_type (map restored cs) cs.
Proof. induction cs as [|c cs IH]; cbn [map]; constructor; [apply restored_same | exact IH]. Qed.

Lemma schema_dict_round_trip : forall fresh s,
  Forall persistable (s_columns s) ->
  plain_top s ->
  exists s', from_dict parse fresh (to_dict s) = Ok s' /\
             s_name s' = s_name s /\ s_aliases s' = s_aliases s /\ s_pk s' = s_pk s /\
             s_rcm s' = s_rcm s /\ s_rce s' = s_rce s /\ s_dsm s' = s_dsm s /\ s_dse s' = s_dse s /\
             Forall2 same_but_untyped_type (s_columns s') (s_columns s) /\
             s_columns s' = map restored (s_columns s).
Proof.
  intros fresh s H [Hn [Ha [Hp [H1 [H2 [H3 H4]]]]]]. eexists. split; [apply from_dict_to_dict; exact H|].
  cbn [s_name s_aliases s_pk s_columns s_rcm s_rce s_dsm s_dse]. repeat split; try assumption. apply Forall2_restored.
Qed.

Lemma schema_round_trip_exact : forall fresh s,
  Forall persistable (s_columns s) -> Forall (fun c => untyped c = false) (s_columns s) ->
  plain_top s ->
  from_dict parse fresh (to_dict s) = Ok s.
Proof.
  intros fresh s H Ht [Hn [Ha [Hp [H1 [H2 [H3 H4]]]]]]. rewrite (from_dict_to_dict parse fresh s H).
  rewrite Hn, Ha, Hp, H1, H2, H3, H4, (map_restored_typed _ Ht). destruct s. reflexivity.
Qed.

Lemma restored_validates_alike : forall fresh s s' key r,
  Forall persistable (s_columns s) ->
  from_dict parse fresh (to_dict s) = Ok s' ->
  Model.C05.validate (proj_schema key s') r = Model.C05.validate (proj_schema key s) r.
Proof.
  intros fresh s s' key r H E. rewrite (from_dict_to_dict parse fresh s H) in E. inversion E; subst s'.
  unfold proj_schema. cbn [s_columns]. rewrite proj_schema_restored. reflexivity.
Qed.

Lemma restored_describes_alike : forall fresh s s',
  Forall persistable (s_columns s) ->
  from_dict parse fresh (to_dict s) = Ok s' ->
  map describe (s_columns s') = map describe (s_columns s).
Proof.
  intros fresh s s' H E. rewrite (from_dict_to_dict parse fresh s H) in E. inversion E; subst s'.
  cbn [s_columns]. rewrite map_map. apply map_ext. intros c. apply describe_restored.
Qed.

Lemma flatten_keeps : forall fresh c s,
  c_name c = PA (AText s) -> normalised parse c ->
  exists c', to_flatcolumn parse fresh c = Ok c' /\ forall f, In f flat_kept -> get f c' = get f c.
Proof.
  intros fresh c s Hn Hc. exists (flattened c). split.
  - apply (to_flatcolumn_ok parse fresh c s Hn Hc).
  - intros f Hf. apply flattened_keeps. exact Hf.
Qed.

Variable ser_ext : atom -> result jval.

(* a column the JSON form can carry *)
Definition json_persistable (c : column) : Prop :=
  wf_col c /\
  (forall f, free f = true -> f <> FDefault -> f <> FExpectations -> json_stable ser_ext (get f c)) /\
  (exists j, json_of_pv ser_ext (c_default c) = Ok j /\ default_ok parse c (pv_of_json j)) /\
  (exists j, json_of_pv ser_ext (c_expectations c) = Ok j /\ exp_in (pv_of_json j) = Ok (c_expectations c)).

Lemma column_json_round_trip : forall fresh c,
  json_persistable c ->
  exists j c', to_json ser_ext c = Ok j /\ from_json parse fresh j = Ok c' /\ same_but_untyped_type c' c.
Proof.
  intros fresh c [H1 [H2 [H3 H4]]].
  destruct (from_json_to_json parse ser_ext fresh c H1 H2 H3 H4) as [j [J1 J2]].
  exists j, (restored c). repeat split; try assumption; [intros f Hf; apply restored_other; exact Hf | apply restored_typed].
Qed.
End Statements.

(* ==================== Round 2: the length cut of BLOB / VARCHAR defaults, repeated column names ==================== *)
Lemma take_take : forall (A : Type) z (l : list A), (0 <= z)%Z -> take z (take z l) = take z l.
Proof.
  intros A z l Hz. unfold take. rewrite firstn_length.
  rewrite firstn_firstn. f_equal. lia.
Qed.

Lemma cut_cut : forall (A : Type) len (l l' : list A),
  len_ok len = true -> cut len l = Some l' -> cut len l' = Some l'.
Proof.
  intros A len l l' Hl H. destruct len as [a|]; [|discriminate]. destruct a; try discriminate.
  - cbn [cut] in *. inversion H; subst. reflexivity.
  - cbn [cut len_ok] in *. apply Z.leb_le in Hl.
    destruct (Z.eqb z 0) eqn:E0; [inversion H; subst; reflexivity|].
    destruct (Z.ltb z 0) eqn:E1; [apply Z.ltb_lt in E1; lia|].
    inversion H; subst. rewrite take_take by exact Hl. reflexivity.
Qed.

Lemma option_map_some : forall (A B : Type) (f : A -> B) o y, option_map f o = Some y -> exists x, o = Some x /\ y = f x.
Proof. intros A B f o y H. destruct o as [x|]; [|discriminate]. inversion H. exists x. split; reflexivity. Qed.

Lemma text_cast_idempotent : forall m len p s e v r,
  len_ok len = true -> text_cast m (len, p, s, e) v = Some (Ok r) -> text_cast m (len, p, s, e) r = Some (Ok r).
Proof.
  intros m len p s e v r Hl H. unfold text_cast in *.
  destruct (str_eqb m m_blob) eqn:Eb.
  - assert (HB : exists b b0, cut len b0 = Some b /\ r = PA (ABytes b)).
    { destruct v as [a|l].
      - destruct a; cbn [str_of] in H;
        repeat match type of H with
        | (if ?c then _ else _) = _ => destruct c; [|discriminate]
        | option_map _ _ = Some _ => apply option_map_some in H; destruct H as [x [H1 H2]]; inversion H2; subst; eexists; eexists; split; [exact H1|reflexivity]
        end; try discriminate.
      - cbn [str_of] in H. discriminate. }
    destruct HB as [b [b0 [Hc ->]]]. rewrite (cut_cut _ len b0 b Hl Hc). reflexivity.
  - destruct (str_eqb m m_varchar) eqn:Ev; [|discriminate].
    assert (HB : exists b b0, cut len b0 = Some b /\ r = PA (AText b)).
    { destruct v as [a|l].
      - destruct a; cbn [str_of] in H;
        repeat match type of H with
        | match ?c with Some _ => _ | None => _ end = _ => destruct c; [|discriminate]
        | option_map _ _ = Some _ => apply option_map_some in H; destruct H as [x [H1 H2]]; inversion H2; subst; eexists; eexists; split; [exact H1|reflexivity]
        end; try discriminate.
      - cbn [str_of] in H. discriminate. }
    destruct HB as [b [b0 [Hc ->]]]. cbn [str_of]. rewrite (cut_cut _ len b0 b Hl Hc). reflexivity.
Qed.

Lemma cast_members_typed : forall m, (str_eqb m m_blob || str_eqb m m_varchar) = true -> str_eqb m missing_member = false.
Proof.
  intros m H. apply orb_true_iff in H. destruct H as [H|H]; apply str_eqb_eq in H; subst m; vm_compute; reflexivity.
Qed.

Lemma text_cast_member : forall m q v r, text_cast m q v = Some r -> (str_eqb m m_blob || str_eqb m m_varchar) = true.
Proof.
  intros m [[[len p] s] e] v r H. unfold text_cast in H.
  destruct (str_eqb m m_blob); [reflexivity|]. destruct (str_eqb m m_varchar); [reflexivity|discriminate].
Qed.

Section Cut.
Variable parse : str -> params -> pv -> result pv.
(* parse behaves as parse_bytes / parse_varchar do wherever the sub-model speaks *)
Definition agrees_with_text_cast : Prop := forall m q v r, text_cast m q v = Some r -> parse m q v = r.

Lemma cast_default_ok : forall c m D,
  agrees_with_text_cast ->
  c_type c = PA (ATy m) -> len_ok (c_length c) = true ->
  text_cast m (col_params c) D = Some (Ok (c_default c)) ->
  default_ok parse c (c_default c).
Proof.
  intros c m D Hag Ht Hl Hc. unfold default_ok, untyped. rewrite Ht.
  rewrite (cast_members_typed m (text_cast_member _ _ _ _ Hc)).
  split; [intros _; reflexivity|]. intros _ m' Hm'. inversion Hm'; subst m'.
  apply Hag. unfold col_params in *. apply (text_cast_idempotent m _ _ _ _ D); assumption.
Qed.
End Cut.

Lemma negative_length_not_fixed :
  exists q v r r', text_cast m_blob q v = Some (Ok r) /\ text_cast m_blob q r = Some (Ok r') /\ r <> r'.
Proof.
  exists (PA (AInt (-1)), PNone, PNone, PNone), (PA (ABytes [97; 98; 99]%N)), (PA (ABytes [97; 98]%N)), (PA (ABytes [97]%N)).
  split; [vm_compute; reflexivity|]. split; [vm_compute; reflexivity|]. discriminate.
Qed.

Section Cols.
Variable parse : str -> params -> pv -> result pv.
Lemma schema_round_trip_keeps_columns : forall fresh s s',
  Forall (persistable parse) (s_columns s) ->
  from_dict parse fresh (to_dict s) = Ok s' ->
  List.length (s_columns s') = List.length (s_columns s) /\
  forall f, f <> FType -> map (get f) (s_columns s') = map (get f) (s_columns s).
Proof.
  intros fresh s s' H E. rewrite (from_dict_to_dict parse fresh s H) in E. inversion E; subst s'.
  cbn [s_columns]. split; [apply map_length|].
  intros f Hf. rewrite map_map. apply map_ext. intros c. apply restored_other. exact Hf.
Qed.
End Cols.

(* ==================== Round 3: sessions ==================== *)
Lemma observing_keeps_state : forall st,
  (forall od orest, step st (SRound od orest) = Some st) /\
  (forall o oj back, step st (SJson o oj back) = Some st) /\
  step st SScribble = Some st.
Proof. intros [[h refs] top]. repeat split. Qed.

(* keeping a dictionary, restoring it later and editing the copies the caller owns change nothing either *)
Lemma saving_keeps_state : forall st,
  step st SSave = Some st /\ (forall orest, step st (SRestoreSaved orest) = Some st).
Proof. intros [[h refs] top]. repeat split. Qed.

Lemma nth_upd : forall (A : Type) (g : A -> A) (d : A) (l : list A) o i,
  (o < List.length l)%nat -> nth i (upd o g l) d = if Nat.eqb i o then g (nth i l d) else nth i l d.
Proof.
  intros A g d l. induction l as [|x l IH]; intros o i Ho; cbn [List.length] in Ho; [lia|].
  destruct o as [|o]; destruct i as [|i]; cbn [upd nth Nat.eqb]; try reflexivity.
  apply IH. lia.
Qed.

(* assigning an attribute of object o changes every position of the columns list that refers to o, and no other *)
Lemma col_set_view : forall h refs top o f v,
  (o < List.length h)%nat ->
  s_columns (view (upd o (set f v) h, refs, top)) =
  map (fun i => if Nat.eqb i o then set f v (nth i h dummy_column) else nth i h dummy_column) refs.
Proof.
  intros h refs top o f v Ho. cbn [view s_columns]. apply map_ext. intros i. apply nth_upd. exact Ho.
Qed.

Section Sessions.
Variable parse : str -> params -> pv -> result pv.

Lemma session_round_trip : forall fresh st ops st',
  exec st ops = Some st' ->
  Forall (persistable parse) (s_columns (view st')) -> plain_top (view st') ->
  exists s', from_dict parse fresh (to_dict (view st')) = Ok s' /\
             s_name s' = s_name (view st') /\ s_aliases s' = s_aliases (view st') /\ s_pk s' = s_pk (view st') /\
             s_rcm s' = s_rcm (view st') /\ s_rce s' = s_rce (view st') /\ s_dsm s' = s_dsm (view st') /\ s_dse s' = s_dse (view st') /\
             Forall2 same_but_untyped_type (s_columns s') (s_columns (view st')) /\
             s_columns s' = map restored (s_columns (view st')).
Proof. intros fresh st ops st' _ H1 H2. exact (schema_dict_round_trip parse fresh (view st') H1 H2). Qed.

Lemma flatten_ignores_unlisted : forall fresh c f v,
  ~ In f flat_kept -> to_flatcolumn parse fresh (set f v c) = to_flatcolumn parse fresh c.
Proof.
  intros fresh c f v H. destruct c. destruct f; try (exfalso; apply H; cbn; tauto); reflexivity.
Qed.

Lemma session_flatten_keeps : forall fresh c ops c' s,
  fexec c ops = Some c' ->
  c_name c' = PA (AText s) -> normalised parse c' ->
  exists r, to_flatcolumn parse fresh c' = Ok r /\ forall f, In f flat_kept -> get f r = get f c'.
Proof. intros fresh c ops c' s _ Hn Hc. exact (flatten_keeps parse fresh c' s Hn Hc). Qed.
End Sessions.

(* ==================== Round 5: the default is cast with the column's FINAL parameters ==================== *)
Section FinalParams.
Variable parse : str -> params -> pv -> result pv.

Lemma norm_default_final : forall c4 c,
  norm_default parse c4 = Ok c ->
  is_none (c_default c) = false ->
  forall m, c_type c = PA (ATy m) -> m <> missing_member ->
  exists D, parse m (col_params c) D = Ok (c_default c).
Proof.
  intros c4 c H Hd m Hm Hn. unfold norm_default in H.
  destruct (is_none (c_default c4)) eqn:E0.
  { inversion H; subst c. rewrite E0 in Hd. discriminate. }
  destruct (c_type c4) as [a|l] eqn:Et; [|discriminate].
  destruct a; try discriminate.
  - destruct z; try discriminate. inversion H; subst c. rewrite Et in Hm. discriminate.
  - destruct (str_eqb m0 missing_member) eqn:Em.
    + inversion H; subst c. rewrite Et in Hm. inversion Hm; subst m0.
      apply str_eqb_eq in Em. contradiction.
    + destruct (parse m0 (col_params c4) (c_default c4)) as [v|e] eqn:Ep.
      * inversion H; subst c. exists (c_default c4).
        destruct c4. cbn in *. inversion Et; subst. inversion Hm; subst. exact Ep.
      * destruct e; discriminate.
Qed.

Lemma init_default_final : forall cls fresh kw c,
  init parse cls fresh kw = Ok c ->
  is_none (c_default c) = false ->
  forall m, c_type c = PA (ATy m) -> m <> missing_member ->
  exists D, parse m (col_params c) D = Ok (c_default c).
Proof.
  intros cls fresh kw c H. unfold init in H.
  destruct (collect cls fresh kw) as [l|e]; [|discriminate]. cbn [bind] in H.
  destruct (norm_disposition (of_assoc l)) as [c1|e]; [|discriminate]. cbn [bind] in H.
  destruct (norm_element c1) as [c2|e]; [|discriminate]. cbn [bind] in H.
  destruct (norm_type c2) as [c3|e]; [|discriminate]. cbn [bind] in H.
  destruct (norm_decimal c3) as [c4|e]; [|discriminate]. cbn [bind] in H.
  exact (norm_default_final c4 c H).
Qed.

(* parse leaves its own results alone (C07's idempotence of the casts) *)
Definition parse_idempotent : Prop := forall m q v r, parse m q v = Ok r -> parse m q r = Ok r.

Lemma init_default_ok : forall cls fresh kw c,
  parse_idempotent ->
  init parse cls fresh kw = Ok c ->
  default_ok parse c (c_default c).
Proof.
  intros cls fresh kw c Hid H. unfold default_ok. destruct (untyped c) eqn:Eu; [reflexivity|].
  split; [reflexivity|]. intros Hd m Hm.
  assert (Hn : m <> missing_member).
  { intros ->. unfold untyped in Eu. rewrite Hm in Eu. rewrite str_eqb_refl in Eu. discriminate. }
  destruct (init_default_final cls fresh kw c H Hd m Hm Hn) as [D HD].
  exact (Hid _ _ _ _ HD).
Qed.
End FinalParams.
