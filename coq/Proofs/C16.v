(* C16 - lemmas about the model of schema / column persistence (coq/Model/C16.v). *)
From Coq Require Import List NArith ZArith Bool Lia.
From Orso Require Import Base.C16_Defs Gen.C16_Fields Model.C16.
From Orso Require Base.C06_Defs Gen.C06_Types Model.C06 Model.C05.
Import ListNotations.

(* the regenerated field lists are the ones the model's record has *)
Lemma field_tables_modelled :
  map fst column_field_table = map field_name all_fields /\
  map fst schema_field_table = schema_field_names.
Proof. split; vm_compute; reflexivity. Qed.
