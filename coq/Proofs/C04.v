(* C04 - lemmas about the cursor model.  Everything is by induction over the history. *)
From Coq Require Import List ZArith Bool Lia Arith.
From Orso Require Import Model.C04.
Import ListNotations.

Section Proofs.
Variable A : Type.
Notation st := (st A).
Notation op := (op A).
Notation out := (out A).

(* ---------- list arithmetic ---------- *)
Lemma firstn_add_skipn (l : list A) a b :
  firstn a l ++ firstn b (skipn a l) = firstn (a + b) l.
Proof.
  revert l; induction a as [|a IH]; intros l; cbn [firstn skipn Nat.add app]; [reflexivity|].
  destruct l as [|x l]; cbn [firstn skipn app].
  - now rewrite firstn_nil.
  - now rewrite IH.
Qed.

Lemma firstn_length_firstn (l : list A) n :
  firstn (length (firstn n l)) l = firstn n l.
Proof.
  revert l; induction n as [|n IH]; intros [|x l]; cbn [firstn length]; try reflexivity.
  now rewrite IH.
Qed.

Lemma skipn_add (l : list A) a b : skipn b (skipn a l) = skipn (a + b) l.
Proof.
  revert l; induction a as [|a IH]; intros l; cbn [skipn Nat.add]; [reflexivity|].
  destruct l as [|x l]; [now destruct b|apply IH].
Qed.

Lemma nth_error_firstn_S (l : list A) p r :
  nth_error l p = Some r -> firstn 1 (skipn p l) = [r].
Proof.
  revert l; induction p as [|p IH]; intros [|x l] H; cbn in *; try discriminate.
  - now inversion H.
  - now apply IH.
Qed.

Lemma nth_error_None_skipn (l : list A) p :
  nth_error l p = None -> skipn p l = [].
Proof.
  intros H. apply nth_error_None in H. now apply skipn_all2.
Qed.

Lemma run_length (s : st) ops : length (snd (run s ops)) = length ops.
Proof.
  revert s; induction ops as [|o r IH]; intros s; cbn [run]; [reflexivity|].
  destruct (step s o) as [s1 x] eqn:E. specialize (IH s1).
  destruct (run s1 r) as [s2 xs]. cbn in *. now rewrite IH.
Qed.

Lemma run_app (s : st) a b :
  run s (a ++ b) =
  let '(s1, xs) := run s a in let '(s2, ys) := run s1 b in (s2, xs ++ ys).
Proof.
  revert s; induction a as [|o r IH]; intros s; cbn [run app].
  - destruct (run s b); reflexivity.
  - destruct (step s o) as [s1 x]. rewrite IH.
    destruct (run s1 r) as [s2 xs]. destruct (run s2 b) as [s3 ys]. reflexivity.
Qed.

(* ---------- eager frames, histories without append ---------- *)
(* One step from an eager state whose cursor stands at p delivers exactly the next
   [d] rows and moves the cursor by [d]; the row store is untouched. *)
Definition eager_at (s : st) (p : nat) : Prop :=
  lazy s = false /\ cur s = Some p /\ p <= length (rows s).

Ltac ea := unfold eager_at; cbn [rows lazy cur]; repeat split; auto;
           try (match goal with H : cur _ = Some _ |- _ => rewrite ?H end; f_equal; lia); try lia.

Lemma step_eager (s : st) (o : op) p :
  eager_at s p -> is_append o = false ->
  exists d, let '(s', x) := step s o in
    rows s' = rows s /\ eager_at s' (p + d) /\
    delivered x = firstn d (skipn p (rows s)) /\ length (delivered x) = d.
Proof.
  intros (Hl & Hc & Hp) Ha. destruct o as [|k| |n| | |v|r|r]; try discriminate;
    unfold step, materialized; rewrite ?Hc, ?Hl.
  - (* fetchone *)
    destruct (nth_error (rows s) p) as [r|] eqn:E.
    + exists 1. cbn [delivered rows lazy cur asz].
      assert (p < length (rows s)) by (apply nth_error_Some; congruence).
      split; [reflexivity|]. split; [unfold eager_at; cbn [rows lazy cur]; repeat split; [f_equal; lia|lia]|].
      split; [symmetry; now apply nth_error_firstn_S | reflexivity].
    + exists 0. cbn [delivered rows lazy cur asz firstn length].
      split; [reflexivity|]. split; [|split; reflexivity].
      ea.
  - (* fetchmany *)
    set (n := fetch_size s k). exists (length (firstn n (skipn p (rows s)))).
    cbn [delivered rows lazy cur asz].
    assert (length (firstn n (skipn p (rows s))) <= length (rows s) - p).
    { rewrite firstn_length, skipn_length. lia. }
    split; [reflexivity|]. split; [unfold eager_at; cbn [rows lazy cur]; repeat split; lia|].
    split; [|reflexivity].
    symmetry; apply firstn_length_firstn.
  - (* fetchall *)
    exists (length (rows s) - p). cbn [delivered rows lazy cur asz].
    split; [reflexivity|]. split; [unfold eager_at; cbn [rows lazy cur]; repeat split; [f_equal; lia|lia]|].
    split.
    + symmetry. apply firstn_all2. rewrite skipn_length. lia.
    + now rewrite skipn_length.
  - exists 0. cbn [delivered rows lazy cur asz firstn length].
    split; [reflexivity|]. split; [|split; reflexivity].
    ea.
  - exists 0. cbn [delivered rows lazy cur asz firstn length].
    split; [reflexivity|]. split; [|split; reflexivity].
    ea.
  - exists 0. cbn [delivered rows lazy cur asz firstn length].
    split; [reflexivity|]. split; [|split; reflexivity].
    ea.
  - (* observer with a report: nothing moves, the report is not a delivery *)
    exists 0. destruct v; cbn [view_out delivered rows lazy cur asz firstn length].
    + split; [reflexivity|]. split; [|split; reflexivity]. ea.
    + split; [reflexivity|]. split; [|split; reflexivity]. ea.
  - (* failed append: nothing moves *)
    exists 0. cbn [delivered rows lazy cur asz firstn length].
    split; [reflexivity|]. split; [|split; reflexivity].
    ea.
Qed.

Lemma run_eager (ops : list op) : forall (s : st) p,
  eager_at s p -> forallb (fun o => negb (is_append o)) ops = true ->
  exists d, let '(s', xs) := run s ops in
    rows s' = rows s /\ eager_at s' (p + d) /\
    fetched xs = firstn d (skipn p (rows s)) /\ length (fetched xs) = d.
Proof.
  induction ops as [|o r IH]; intros s p He Hn; cbn [run].
  - exists 0. cbn [fetched flat_map firstn length]. replace (p + 0) with p by lia. auto.
  - cbn [forallb] in Hn. apply andb_true_iff in Hn as [Ho Hr]. apply negb_true_iff in Ho.
    destruct (step_eager s o p He Ho) as [d1 H1].
    destruct (step s o) as [s1 x] eqn:E1. destruct H1 as (R1 & E1' & D1 & L1).
    destruct (IH s1 (p + d1) E1' Hr) as [d2 H2].
    destruct (run s1 r) as [s2 xs] eqn:E2. destruct H2 as (R2 & E2' & D2 & L2).
    exists (d1 + d2). split; [congruence|]. split; [|split].
    + replace (p + (d1 + d2)) with (p + d1 + d2) by lia; exact E2'.
    + unfold fetched in *; cbn [flat_map]. rewrite D1, D2, R1.
      rewrite <- (firstn_add_skipn (skipn p (rows s)) d1 d2). now rewrite skipn_add.
    + unfold fetched in *; cbn [flat_map]. rewrite app_length. lia.
Qed.

(* Full statement for a frame created eagerly. *)
Lemma eager_prefix (l : list A) (ops : list op) :
  forallb (fun o => negb (is_append o)) ops = true ->
  let '(s', xs) := run (init_eager l) ops in
  rows s' = l /\ lazy s' = false /\
  cur s' = Some (length (fetched xs)) /\ length (fetched xs) <= length l /\
  fetched xs = firstn (length (fetched xs)) l.
Proof.
  intros Hn.
  assert (He : eager_at (init_eager l) 0) by (unfold eager_at, init_eager; cbn; repeat split; lia).
  destruct (run_eager ops _ 0 He Hn) as [d H].
  destruct (run (init_eager l) ops) as [s' xs]. destruct H as (R & (Hl & Hc & Hp) & D & L).
  cbn in *. subst d. repeat split; auto. now rewrite R in Hp.
Qed.

(* fetchmany(k) returns min(k, remaining) rows - in every reachable state. *)
Lemma eager_fetchmany_size (l : list A) (ops : list op) (k : option Z) :
  forallb (fun o => negb (is_append o)) ops = true ->
  let '(s', xs) := run (init_eager l) ops in
  exists g, snd (step s' (FetchMany k)) = ORows g /\
            length g = Nat.min (fetch_size s' k) (length l - length (fetched xs)) /\
            g = firstn (fetch_size s' k) (skipn (length (fetched xs)) l).
Proof.
  intros Hn. pose proof (eager_prefix l ops Hn) as H.
  destruct (run (init_eager l) ops) as [s' xs]. destruct H as (R & Hl & Hc & Hle & _).
  unfold step. rewrite Hc, Hl. eexists; split; [reflexivity|]. rewrite R. split; [|reflexivity].
  rewrite firstn_length, skipn_length. reflexivity.
Qed.

(* after exhaustion: fetchone -> None, the others -> [] *)
Lemma eager_exhausted (l : list A) (ops : list op) :
  forallb (fun o => negb (is_append o)) ops = true ->
  let '(s', xs) := run (init_eager l) ops in
  length (fetched xs) = length l ->
  snd (step s' FetchOne) = ORow None /\
  (forall k, snd (step s' (FetchMany k)) = ORows []) /\
  snd (step s' FetchAll) = ORows [].
Proof.
  intros Hn. pose proof (eager_prefix l ops Hn) as H.
  destruct (run (init_eager l) ops) as [s' xs]. destruct H as (R & Hl & Hc & Hle & _).
  intros Hx. unfold step. rewrite Hc, Hl, R, Hx. repeat split.
  - destruct (nth_error l (length l)) eqn:E; [|reflexivity].
    assert (length l < length l) by (apply nth_error_Some; congruence). lia.
  - intros k. cbn. now rewrite skipn_all, firstn_nil.
  - cbn. now rewrite skipn_all.
Qed.

(* observers do not change an eager frame's state at all *)
Lemma eager_observers_inert (s : st) :
  lazy s = false -> step s ObservePure = (s, OUnit) /\ step s ObserveMat = (s, OUnit).
Proof. intros H; unfold step, materialized; rewrite H; split; reflexivity. Qed.

(* ---------- after append ---------- *)
Definition dead (s : st) : Prop := lazy s = false /\ cur s = None.

Lemma step_dead (s : st) (o : op) :
  dead s -> dead (fst (step s o)) /\ (is_fetch o = true -> snd (step s o) = ORaise).
Proof.
  intros (Hl & Hc). destruct o; unfold step, materialized; rewrite ?Hc, ?Hl; cbn; unfold dead; cbn; repeat split; auto; discriminate.
Qed.

Definition fetch_outs (ops : list op) (xs : list out) : list out :=
  map snd (filter (fun p => is_fetch (fst p)) (combine ops xs)).

Lemma run_dead (ops : list op) : forall s, dead s ->
  Forall (fun x => x = ORaise) (fetch_outs ops (snd (run s ops))).
Proof.
  induction ops as [|o r IH]; intros s Hd; cbn [run]; [constructor|].
  destruct (step_dead s o Hd) as [Hd1 Hf].
  destruct (step s o) as [s1 x] eqn:E. cbn in Hd1, Hf.
  specialize (IH s1 Hd1). destruct (run s1 r) as [s2 xs]. cbn in *.
  unfold fetch_outs in *. cbn [combine filter fst].
  destruct (is_fetch o); cbn [map snd]; auto.
Qed.

Lemma append_kills_cursor (s : st) (r : A) :
  lazy s = false -> dead (fst (step s (Append r))) /\
                    rows (fst (step s (Append r))) = rows s ++ [r].
Proof. intros H; unfold step; rewrite H; cbn; unfold dead; auto. Qed.


Lemma append_kills_cursor_aux (s : st) (r : A) p :
  eager_at s p -> let '(s1, x) := step s (Append r) in
  dead s1 /\ rows s1 = rows s ++ [r] /\ delivered x = [].
Proof. intros (Hl & _ & _). unfold step. rewrite Hl. cbn [delivered rows lazy cur]. unfold dead. cbn. auto. Qed.

(* ---------- any eager history: appends that store, appends that fail, everything else ---------- *)
Lemma appended_of_nil (o : op) : is_append o = false -> appended_of o = [].
Proof. destruct o; cbn; intros H; try reflexivity; discriminate. Qed.

Lemma appended_nil_iff (ops : list op) : existsb is_append ops = false <-> appended ops = [].
Proof.
  induction ops as [|o r IH]; cbn [existsb appended flat_map]; [tauto|].
  fold (appended r). destruct o; cbn [is_append appended_of orb app]; try exact IH.
  split; intros H; discriminate.
Qed.

Lemma step_dead_full (s : st) (o : op) :
  dead s -> let '(s1, x) := step s o in
  dead s1 /\ rows s1 = rows s ++ appended_of o /\ delivered x = [].
Proof.
  intros (Hl & Hc). destruct o as [|k| |n| | |v|r|r]; unfold step, materialized; rewrite ?Hc, ?Hl;
    try destruct v; cbn [view_out appended_of delivered rows lazy cur]; unfold dead; cbn [rows lazy cur];
    rewrite ?app_nil_r; auto.
Qed.

Lemma run_dead_full (ops : list op) : forall s, dead s ->
  let '(s', xs) := run s ops in
  dead s' /\ rows s' = rows s ++ appended ops /\ fetched xs = [].
Proof.
  induction ops as [|o r IH]; intros s Hd; cbn [run].
  - cbn [appended flat_map fetched]. rewrite app_nil_r. auto.
  - pose proof (step_dead_full s o Hd) as H1. destruct (step s o) as [s1 x].
    destruct H1 as (D1 & R1 & F1). specialize (IH s1 D1).
    destruct (run s1 r) as [s2 xs]. destruct IH as (D2 & R2 & F2).
    split; [exact D2|]. split.
    + rewrite R2, R1. cbn [appended flat_map]. now rewrite app_assoc.
    + unfold fetched in *. cbn [flat_map]. now rewrite F1, F2.
Qed.

Lemma run_any (ops : list op) : forall (s : st) p,
  eager_at s p ->
  let '(s', xs) := run s ops in
  lazy s' = false /\ rows s' = rows s ++ appended ops /\
  exists d, fetched xs = firstn d (skipn p (rows s)) /\ length (fetched xs) = d /\
            p + d <= length (rows s) /\
            cur s' = (if existsb is_append ops then None else Some (p + d)).
Proof.
  induction ops as [|o r IH]; intros s p He; cbn [run].
  - cbn [appended flat_map fetched existsb]. rewrite app_nil_r.
    destruct He as (Hl & Hc & Hp). split; [exact Hl|]. split; [reflexivity|].
    exists 0. cbn [firstn length]. replace (p + 0) with p by lia. auto.
  - destruct (is_append o) eqn:Ha.
    + (* an append that stores its row: the cursor is gone for the rest of the history *)
      destruct o as [|k| |n| | |v|r0|r0]; try discriminate.
      pose proof (append_kills_cursor_aux s r0 p He) as H1.
      destruct (step s (Append r0)) as [s1 x]. destruct H1 as (D1 & R1 & F1).
      pose proof (run_dead_full r s1 D1) as H2.
      destruct (run s1 r) as [s2 xs]. destruct H2 as ((Hl2 & Hc2) & R2 & F2).
      split; [exact Hl2|]. split.
      * rewrite R2, R1. cbn [appended flat_map appended_of]. now rewrite <- app_assoc.
      * exists 0. unfold fetched in *. cbn [flat_map existsb is_append orb firstn length].
        rewrite F1, F2. cbn [app length]. destruct He as (_ & _ & Hp).
        repeat split; auto; lia.
    + destruct (step_eager s o p He Ha) as [d1 H1].
      destruct (step s o) as [s1 x]. destruct H1 as (R1 & E1 & D1 & L1).
      specialize (IH s1 (p + d1) E1).
      destruct (run s1 r) as [s2 xs]. destruct IH as (Hl2 & R2 & d2 & D2 & L2 & Hp2 & Hc2).
      split; [exact Hl2|]. split.
      * rewrite R2, R1. cbn [appended flat_map]. now rewrite (appended_of_nil o Ha).
      * exists (d1 + d2). cbn [existsb]. rewrite Ha. cbn [orb].
        rewrite R1 in D2, Hp2. split; [|split; [|split]].
        -- unfold fetched in *; cbn [flat_map]. rewrite D1, D2.
           rewrite <- (firstn_add_skipn (skipn p (rows s)) d1 d2). now rewrite skipn_add.
        -- unfold fetched in *; cbn [flat_map]. rewrite app_length. lia.
        -- lia.
        -- rewrite Hc2. destruct (existsb is_append r); [reflexivity|f_equal; lia].
Qed.

(* Every history on an eagerly created frame - stored appends, failed appends and all:
   the row store is the original rows followed by exactly the rows the stored appends added
   (a failed append leaves nothing behind); what was fetched is a prefix of the original
   rows; and the cursor is gone exactly when some append stored a row. *)
Lemma any_history (l : list A) (ops : list op) :
  let '(s', xs) := run (init_eager l) ops in
  rows s' = l ++ appended ops /\ lazy s' = false /\
  fetched xs = firstn (length (fetched xs)) l /\ length (fetched xs) <= length l /\
  cur s' = (if existsb is_append ops then None else Some (length (fetched xs))).
Proof.
  assert (He : eager_at (init_eager l) 0) by (unfold eager_at, init_eager; cbn; repeat split; lia).
  pose proof (run_any ops _ 0 He) as H.
  destruct (run (init_eager l) ops) as [s' xs]. destruct H as (Hl & R & d & D & L & Hp & Hc).
  cbn [init_eager rows skipn Nat.add] in *. subst d.
  split; [exact R|]. split; [exact Hl|]. split; [exact D|]. split; [lia|exact Hc].
Qed.

(* the frame has grown  <->  the cursor is gone;  the frame is as created  <->  the cursor
   stands right after the rows delivered so far *)
Lemma grown_iff_dead (l : list A) (ops : list op) :
  let '(s', xs) := run (init_eager l) ops in
  (length l < length (rows s') <-> cur s' = None) /\
  (length (rows s') = length l <-> cur s' = Some (length (fetched xs))).
Proof.
  pose proof (any_history l ops) as H.
  destruct (run (init_eager l) ops) as [s' xs]. destruct H as (R & _ & _ & _ & Hc).
  rewrite R, app_length, Hc.
  destruct (existsb is_append ops) eqn:E.
  - assert (appended ops <> []) as Hne.
    { intros C. apply appended_nil_iff in C. congruence. }
    assert (0 < length (appended ops)) by (destruct (appended ops); [congruence|cbn; lia]).
    split; split; intros; try reflexivity; try lia; discriminate.
  - apply appended_nil_iff in E. rewrite E. cbn [length].
    split; split; intros; try reflexivity; try lia; discriminate.
Qed.

(* one append call on a materialised frame is all or nothing, and reports the store length *)
Lemma append_atomic (s : st) (r : A) :
  lazy s = false ->
  (let '(s1, x1) := step s (Append r) in
     rows s1 = rows s ++ [r] /\ cur s1 = None /\ x1 = OAppend true (Some (length (rows s1)))) /\
  (let '(s2, x2) := step s (AppendBad r) in
     s2 = s /\ x2 = OAppend false (Some (length (rows s)))).
Proof. intros H. unfold step. rewrite H. cbn [rows cur]. repeat split. Qed.

(* ---------- what an observer reports depends on the row store only ---------- *)
Lemma view_after_any_history (l : list A) (ops : list op) (v : view) :
  let '(s', xs) := run (init_eager l) ops in
  step s' (ObserveView v) = (s', view_out v (l ++ appended ops)).
Proof.
  pose proof (any_history l ops) as H.
  destruct (run (init_eager l) ops) as [s' xs]. destruct H as (R & Hl & _).
  unfold step, materialized. now rewrite Hl, R.
Qed.

(* ---------- sessions over several frames ---------- *)
Definition all_eager (h : list st) : Prop := Forall (fun s => lazy s = false) h.

Lemma step_keeps_eager (s : st) (o : op) : lazy s = false -> lazy (fst (step s o)) = false.
Proof.
  intros H. destruct o as [|k| |n| | |v|r|r]; unfold step, materialized; rewrite ?H; cbn [fst lazy]; auto.
  - destruct (cur s); cbn [fst lazy]; auto. destruct (nth_error (rows s) n); cbn [fst lazy]; auto.
  - destruct (cur s); cbn [fst lazy]; auto.
  - destruct (cur s); cbn [fst lazy]; auto.
Qed.

Lemma src_after_eager (d : dop A) (s : st) : lazy s = false -> src_after d s = s.
Proof. intros H. destruct d; unfold src_after, materialized; now rewrite H. Qed.

Lemma nth_error_update_eq (h : list st) : forall i s x,
  nth_error h i = Some x -> nth_error (update h i s) i = Some s.
Proof.
  induction h as [|y t IH]; intros [|i] s x H; cbn in *; try discriminate; auto.
  eapply IH; eauto.
Qed.

Lemma nth_error_update_neq (h : list st) : forall i j s,
  i <> j -> nth_error (update h i s) j = nth_error h j.
Proof.
  induction h as [|y t IH]; intros [|i] [|j] s H; cbn; auto; try congruence.
Qed.

Lemma update_same (h : list st) : forall i s, nth_error h i = Some s -> update h i s = h.
Proof.
  induction h as [|y t IH]; intros [|i] s H; cbn in *; try discriminate; auto.
  - now inversion H.
  - f_equal. now apply IH.
Qed.

Lemma all_eager_update (h : list st) : forall i s,
  all_eager h -> lazy s = false -> all_eager (update h i s).
Proof.
  unfold all_eager. induction h as [|y t IH]; intros [|i] s Hh Hs; cbn; auto;
    inversion Hh; subst; constructor; auto.
Qed.

Lemma all_eager_nth (h : list st) i s : all_eager h -> nth_error h i = Some s -> lazy s = false.
Proof.
  unfold all_eager. intros Hh Hn. rewrite Forall_forall in Hh. apply Hh. eapply nth_error_In; eauto.
Qed.

(* A frame-returning observer called on a materialised frame leaves the whole heap as it was and
   adds one brand-new frame that starts its own cursor at its own first row. *)
Lemma derive_fresh (h : list st) (i : nat) (d : dop A) (s : st) :
  nth_error h i = Some s -> lazy s = false ->
  sstep h (Derive i d) =
    (h ++ [init_eager (derive_rows d (rows s))], SDerived (derive_rows d (rows s))).
Proof.
  intros Hn Hl. unfold sstep. rewrite Hn. rewrite (src_after_eager d s Hl).
  now rewrite (update_same h i s Hn).
Qed.

(* Frames are independent objects: in any session over materialised frames, the state of frame j
   and everything the calls on frame j returned are those of frame j run ON ITS OWN over the calls
   addressed to it - whatever was done to other frames (fetches, appends, failed appends) and
   whatever was derived from any frame (j included) in between. *)
Lemma srun_frames (ops : list (sop A)) : forall (h : list st),
  all_eager h ->
  let '(h', xs) := srun h ops in
  all_eager h' /\ length h <= length h' /\
  forall j s, nth_error h j = Some s ->
    nth_error h' j = Some (fst (run s (sel j ops))) /\
    outs_for j ops xs = snd (run s (sel j ops)).
Proof.
  induction ops as [|o r IH]; intros h Hh; cbn [srun].
  - split; [exact Hh|]. split; [lia|]. intros j s Hj. cbn [sel flat_map run fst snd outs_for]. auto.
  - destruct o as [i o0|i d]; cbn [sstep].
    + destruct (nth_error h i) as [si|] eqn:Hi.
      * destruct (step si o0) as [si' x] eqn:Es.
        assert (Hsi : lazy si = false) by (eapply all_eager_nth; eauto).
        assert (Hsi' : lazy si' = false).
        { pose proof (step_keeps_eager si o0 Hsi) as K. now rewrite Es in K. }
        assert (Hh1 : all_eager (update h i si')) by (apply all_eager_update; auto).
        specialize (IH _ Hh1). destruct (srun (update h i si') r) as [h2 xs].
        destruct IH as (E2 & L2 & F2). split; [exact E2|]. split.
        { assert (length (update h i si') = length h) as Lu.
          { clear. revert i. induction h as [|y t IHh]; intros [|i]; cbn; auto. }
          lia. }
        intros j s Hj. destruct (Nat.eqb i j) eqn:Eij.
        -- apply Nat.eqb_eq in Eij. subst j. rewrite Hi in Hj. inversion Hj; subst s.
           destruct (F2 i si' (nth_error_update_eq h i si' si Hi)) as [A1 A2].
           unfold sel in *. cbn [flat_map sel_op outs_for]. rewrite Nat.eqb_refl. cbn [app run].
           rewrite Es. destruct (run si' (flat_map (sel_op i) r)) as [s2 ys]. cbn [fst snd] in *.
           split; [exact A1|now rewrite A2].
        -- assert (i <> j) as Nij by (now apply Nat.eqb_neq).
           assert (nth_error (update h i si') j = Some s) as Hj1 by (now rewrite nth_error_update_neq).
           destruct (F2 j s Hj1) as [A1 A2].
           unfold sel in *. cbn [flat_map sel_op outs_for]. rewrite Eij. cbn [app]. auto.
      * specialize (IH h Hh). destruct (srun h r) as [h2 xs]. destruct IH as (E2 & L2 & F2).
        split; [exact E2|]. split; [exact L2|]. intros j s Hj.
        assert (Nat.eqb i j = false) as Eij.
        { apply Nat.eqb_neq. intros ->. congruence. }
        destruct (F2 j s Hj) as [A1 A2].
        unfold sel in *. cbn [flat_map sel_op outs_for]. rewrite Eij. cbn [app]. auto.
    + destruct (nth_error h i) as [si|] eqn:Hi.
      * assert (Hsi : lazy si = false) by (eapply all_eager_nth; eauto).
        rewrite (src_after_eager d si Hsi), (update_same h i si Hi).
        assert (Hh1 : all_eager (h ++ [init_eager (derive_rows d (rows si))])).
        { unfold all_eager in *. apply Forall_app. split; auto. }
        specialize (IH _ Hh1). destruct (srun (h ++ [init_eager (derive_rows d (rows si))]) r) as [h2 xs].
        destruct IH as (E2 & L2 & F2). split; [exact E2|]. split.
        { rewrite app_length in L2. cbn in L2. lia. }
        intros j s Hj.
        assert (nth_error (h ++ [init_eager (derive_rows d (rows si))]) j = Some s) as Hj1.
        { rewrite nth_error_app1; auto. apply nth_error_Some. congruence. }
        destruct (F2 j s Hj1) as [A1 A2].
        unfold sel in *. cbn [flat_map sel_op outs_for app]. auto.
      * specialize (IH h Hh). destruct (srun h r) as [h2 xs]. destruct IH as (E2 & L2 & F2).
        split; [exact E2|]. split; [exact L2|]. intros j s Hj.
        destruct (F2 j s Hj) as [A1 A2].
        unfold sel in *. cbn [flat_map sel_op outs_for app]. auto.
Qed.

(* ---------- lazy frames read only through the cursor ---------- *)
Definition cursor_only (o : op) : bool := negb (is_append o) && negb (is_mat o).

Definition lazy_live (s : st) : Prop := lazy s = true /\ exists p, cur s = Some p.

Lemma step_lazy (s : st) (o : op) :
  lazy_live s -> cursor_only o = true ->
  let '(s', x) := step s o in
  lazy_live s' /\ delivered x ++ rows s' = rows s.
Proof.
  intros (Hl & p & Hc) Ho. destruct o as [|k| |n| | |v|r|r]; cbn in Ho; try discriminate;
    unfold step; rewrite ?Hc, ?Hl; unfold lazy_live.
  - destruct (rows s) as [|r rest] eqn:E; cbn [delivered rows lazy cur app]; rewrite ?Hl, ?Hc, ?E; split; eauto.
  - cbn [delivered rows lazy cur app]. split; eauto. apply firstn_skipn.
  - cbn [delivered rows lazy cur app]. split; eauto. apply app_nil_r.
  - cbn [delivered rows lazy cur app]. split; eauto.
  - cbn [delivered rows lazy cur app]. split; eauto.
  - cbn [delivered rows lazy cur app]. split; eauto.
Qed.

Lemma run_lazy (ops : list op) : forall s,
  lazy_live s -> forallb cursor_only ops = true ->
  let '(s', xs) := run s ops in lazy_live s' /\ fetched xs ++ rows s' = rows s.
Proof.
  induction ops as [|o r IH]; intros s Hs Hn; cbn [run]; [split; auto|].
  cbn [forallb] in Hn. apply andb_true_iff in Hn as [Ho Hr].
  pose proof (step_lazy s o Hs Ho) as H1. destruct (step s o) as [s1 x]. destruct H1 as [L1 D1].
  specialize (IH s1 L1 Hr). destruct (run s1 r) as [s2 xs]. destruct IH as [L2 D2].
  split; auto. unfold fetched in *. cbn [flat_map]. rewrite <- app_assoc, D2. exact D1.
Qed.

Lemma lazy_prefix (l : list A) (ops : list op) :
  forallb cursor_only ops = true ->
  let '(s', xs) := run (init_lazy l) ops in
  fetched xs ++ rows s' = l /\
  (* sizes and exhaustion in the state reached *)
  (forall k, snd (step s' (FetchMany k)) = ORows (firstn (fetch_size s' k) (rows s'))) /\
  (rows s' = [] -> snd (step s' FetchOne) = ORow None /\ snd (step s' FetchAll) = ORows []).
Proof.
  intros Hn.
  assert (Hs : lazy_live (init_lazy l)) by (unfold lazy_live, init_lazy; cbn; eauto).
  pose proof (run_lazy ops _ Hs Hn) as H.
  destruct (run (init_lazy l) ops) as [s' xs]. destruct H as ((Hl & p & Hc) & D).
  cbn in D. split; [exact D|]. split.
  - intros k. unfold step. now rewrite Hc, Hl.
  - intros E. unfold step. rewrite Hc, Hl, E. split; reflexivity.
Qed.

End Proofs.

Arguments cursor_only {A}. Arguments fetch_outs {A}. Arguments dead {A}. Arguments eager_at {A}.
Arguments lazy_live {A}. Arguments all_eager {A}.

(* ---------- the cursor never inspects a row ---------- *)
Section MapProofs.
Variables A B : Type.
Variable f : A -> B.

Lemma py_slice_map (l : list A) off len :
  py_slice (map f l) off len = map f (py_slice l off len).
Proof.
  unfold py_slice. rewrite map_length. destruct len as [k|].
  - destruct (k =? 0)%Z; [reflexivity|]. now rewrite skipn_map, firstn_map.
  - now rewrite skipn_map.
Qed.

Lemma step_map (s : st A) (o : op A) :
  step (map_st f s) (map_op f o) =
  (map_st f (fst (step s o)), map_out f (snd (step s o))).
Proof.
  destruct s as [rs lz c a].
  destruct o as [|k| |n| | |v|r|r]; unfold step, materialized, map_st, fetch_size, view_out;
    cbn [map_op rows lazy cur asz].
  - (* fetchone *)
    destruct c as [p|]; [|reflexivity]. destruct lz.
    + destruct rs as [|r rest]; reflexivity.
    + rewrite nth_error_map. destruct (nth_error rs p); reflexivity.
  - destruct c as [p|]; [|reflexivity]. destruct lz; cbn [fst snd map_out rows lazy cur asz].
    + now rewrite skipn_map, firstn_map.
    + rewrite skipn_map, firstn_map, !map_length. reflexivity.
  - destruct c as [p|]; [|reflexivity]. destruct lz; cbn [fst snd map_out rows lazy cur asz map].
    + reflexivity.
    + now rewrite skipn_map, map_length.
  - reflexivity.
  - reflexivity.
  - destruct lz; cbn [fst snd map_out rows lazy cur asz]; [|reflexivity].
    now rewrite map_length.
  - destruct v; destruct lz; cbn [fst snd map_out rows lazy cur asz];
      rewrite ?map_length, ?py_slice_map; reflexivity.
  - destruct lz; cbn [fst snd map_out rows lazy cur asz]; [reflexivity|].
    now rewrite map_app, !app_length, map_length.
  - destruct lz; cbn [fst snd map_out rows lazy cur asz]; now rewrite ?map_length.
Qed.

Lemma run_map (ops : list (op A)) : forall (s : st A),
  run (map_st f s) (map (map_op f) ops) =
  (map_st f (fst (run s ops)), map (map_out f) (snd (run s ops))).
Proof.
  induction ops as [|o r IH]; intros s; cbn [run map]; [reflexivity|].
  rewrite step_map. destruct (step s o) as [s1 x]. cbn [fst snd].
  rewrite IH. destruct (run s1 r) as [s2 xs]. reflexivity.
Qed.

Lemma init_map (l : list A) :
  init_eager (map f l) = map_st f (init_eager l) /\ init_lazy (map f l) = map_st f (init_lazy l).
Proof. split; reflexivity. Qed.

End MapProofs.

(* ---------- a row source fed by several tables is the flat generator over their concatenation ---------- *)
Section ChunkProofs.
Variable A : Type.

Lemma cnext_none (cs : list (list A)) : cnext cs = None <-> concat cs = [].
Proof.
  induction cs as [|c t IH]; cbn [cnext concat]; [tauto|].
  destruct c as [|r rest]; cbn [app]; [exact IH|]. split; intros H; discriminate.
Qed.

Lemma cnext_some (cs : list (list A)) r cs' :
  cnext cs = Some (r, cs') -> concat cs = r :: concat cs'.
Proof.
  induction cs as [|c t IH]; cbn [cnext concat]; [discriminate|].
  destruct c as [|x rest]; cbn [app].
  - exact IH.
  - intros H. inversion H; subst. reflexivity.
Qed.

Lemma cdrain_concat (fuel : nat) : forall cs : list (list A),
  length (concat cs) < fuel -> cdrain fuel cs = concat cs.
Proof.
  induction fuel as [|k IH]; intros cs Hf; [lia|]. cbn [cdrain].
  destruct (cnext cs) as [[r cs']|] eqn:E.
  - pose proof (cnext_some cs r cs' E) as H. rewrite H in *. cbn [length] in Hf.
    f_equal. apply IH. lia.
  - apply cnext_none in E. now rewrite E.
Qed.

Lemma chunk_rows_concat (cs : list (list A)) : chunk_rows cs = concat cs.
Proof. unfold chunk_rows. apply cdrain_concat. lia. Qed.

End ChunkProofs.
