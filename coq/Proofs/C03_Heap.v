(* C03 (round 2) - lemmas about the object-level model (Model/C03_Heap.v): what draining each kind
   of generator gives, that the fuel the model computes is enough for them, what listing an
   unforced lazy frame gives after its source has been observed, and that no step of any program
   alters a list-backed frame. *)
From Coq Require Import List ZArith Bool Lia Arith.
From Orso Require Import Base.PySlice Model.C03 Proofs.C03 Model.C03_Heap.
Import ListNotations.
Local Open Scope nat_scope.

(* ---------- lists ---------- *)
Lemma nth_error_upd_eq {A : Type} (l : list A) (i : nat) (x : A) :
  i < length l -> nth_error (upd i x l) i = Some x.
Proof.
  revert i; induction l as [|y l IH]; intros [|i] H; cbn [upd nth_error length] in *; try lia; [reflexivity|].
  apply IH; lia.
Qed.

Lemma nth_error_upd_neq {A : Type} (l : list A) (i j : nat) (x : A) :
  i <> j -> nth_error (upd i x l) j = nth_error l j.
Proof.
  revert i j; induction l as [|y l IH]; intros [|i] [|j] H; cbn [upd nth_error]; try reflexivity; try lia.
  apply IH; lia.
Qed.

Lemma upd_upd {A : Type} (l : list A) (i : nat) (x y : A) : upd i x (upd i y l) = upd i x l.
Proof.
  revert i; induction l as [|z l IH]; intros [|i]; cbn [upd]; try reflexivity. now rewrite IH.
Qed.

Lemma nth_error_lt {A : Type} (l : list A) (i : nat) (x : A) : nth_error l i = Some x -> i < length l.
Proof. intros H. apply nth_error_Some. now rewrite H. Qed.

Lemma fold_sum_ge {A : Type} (w : A -> nat) (l : list A) (i : nat) (x : A) :
  nth_error l i = Some x -> w x <= fold_right (fun s a => w s + a) 0 l.
Proof.
  revert i; induction l as [|y l IH]; intros [|i] H; cbn [nth_error fold_right] in *; try discriminate.
  - inversion H; subst; lia.
  - specialize (IH _ H); lia.
Qed.

Section Proofs.
Set Default Proof Using "Type".
Variable V : Type.
Variable dflt : V.
Variable Nm : Type.

Notation row := (list V).
Notation hframe := (hframe V Nm).
Notation gstate := (gstate V).
Notation hstate := (hstate V Nm).
Notation gnext := (gnext V dflt Nm).
Notation gdrain := (gdrain V dflt Nm).
Notation hfuel := (hfuel V Nm).
Notation hmat := (hmat V dflt Nm).
Notation hconsume := (hconsume V dflt Nm).
Notation proj idx := (fun r : row => map (pick V dflt r) idx).

(* ---------- one generator at a time ---------- *)
Lemma gnext_rows (env : list hframe) (h : list gstate) (g : nat) (p : list row) (f : nat) :
  nth_error h g = Some (GRows p) ->
  gnext (S f) env h g =
  match p with [] => (upd g GDone h, None) | r :: p' => (upd g (GRows p') h, Some r) end.
Proof. intros H. cbn [C03_Heap.gnext]. rewrite H. reflexivity. Qed.

Lemma gdrain_rows (env : list hframe) (g : nat) (p : list row) :
  forall (h : list gstate) (n f : nat),
  nth_error h g = Some (GRows p) -> length p < n ->
  gdrain n (S f) env h g = (upd g GDone h, p).
Proof.
  induction p as [|r p IH]; intros h n f H Hn; (destruct n as [|n]; [cbn [length] in Hn; lia|]);
    cbn [C03_Heap.gdrain]; rewrite (gnext_rows _ _ _ _ _ H).
  - reflexivity.
  - rewrite (IH (upd g (GRows p) h) n f).
    + now rewrite upd_upd.
    + apply nth_error_upd_eq. eapply nth_error_lt; eassumption.
    + cbn [length] in Hn; lia.
Qed.

Lemma gnext_select_lst (env : list hframe) (h : list gstate) (g : nat) (l : list row) (idx : list nat) (f : nat) :
  nth_error h g = Some (GSelect (ILst l) idx) ->
  gnext (S f) env h g =
  match l with
  | [] => (upd g GDone h, None)
  | r :: t => (upd g (GSelect (ILst t) idx) h, Some (map (pick V dflt r) idx))
  end.
Proof. intros H. cbn [C03_Heap.gnext]. rewrite H. destruct l; reflexivity. Qed.

Lemma gdrain_select_lst (env : list hframe) (g : nat) (idx : list nat) (l : list row) :
  forall (h : list gstate) (n f : nat),
  nth_error h g = Some (GSelect (ILst l) idx) -> length l < n ->
  gdrain n (S f) env h g = (upd g GDone h, map (proj idx) l).
Proof.
  induction l as [|r l IH]; intros h n f H Hn; (destruct n as [|n]; [cbn [length] in Hn; lia|]);
    cbn [C03_Heap.gdrain]; rewrite (gnext_select_lst _ _ _ _ _ _ H).
  - reflexivity.
  - rewrite (IH (upd g (GSelect (ILst l) idx) h) n f).
    + now rewrite upd_upd.
    + apply nth_error_upd_eq. eapply nth_error_lt; eassumption.
    + cbn [length] in Hn; lia.
Qed.

(* an unstarted select generator looks its source up when it is first advanced: if the source
   frame is list-backed THEN, that list is what it projects *)
Lemma gnext_selectnew (env : list hframe) (h : list gstate) (g src : nat) (idx : list nat) (fr : hframe) (f : nat) :
  nth_error h g = Some (GSelectNew src idx) -> nth_error env src = Some fr ->
  gnext (S f) env h g = gnext f env (upd g (GSelect (iter_of V (hrows fr)) idx) h) g.
Proof. intros H Hs. cbn [C03_Heap.gnext]. rewrite H, Hs. reflexivity. Qed.

Lemma gdrain_selectnew_lst (env : list hframe) (g src : nat) (idx : list nat) (fr : hframe) (l : list row)
      (h : list gstate) (n f : nat) :
  nth_error h g = Some (GSelectNew src idx) ->
  nth_error env src = Some fr -> hrows fr = RL l -> length l < n ->
  gdrain n (S (S f)) env h g = (upd g GDone h, map (proj idx) l).
Proof.
  intros H Hs Hl Hn. destruct n as [|n]; [lia|].
  assert (Hg : g < length h) by (eapply nth_error_lt; eassumption).
  cbn [C03_Heap.gdrain]. rewrite (gnext_selectnew env h g src idx fr (S f) H Hs), Hl. cbn [iter_of].
  rewrite (gnext_select_lst env _ g l idx f (nth_error_upd_eq h g _ Hg)).
  destruct l as [|r t].
  - now rewrite upd_upd.
  - rewrite upd_upd.
    rewrite (gdrain_select_lst env g idx t (upd g (GSelect (ILst t) idx) h) n (S f)).
    + now rewrite upd_upd.
    + now apply nth_error_upd_eq.
    + cbn [length] in Hn; lia.
Qed.

(* filter: the next row zip() pairs with a true mask entry *)
Fixpoint filt_next (l : list row) (mask : list bool) : option (row * list row * list bool) :=
  match l, mask with
  | r :: t, m :: mk => if m then Some (r, t, mk) else filt_next t mk
  | _, _ => None
  end.

Lemma filt_next_keep (l : list row) (mask : list bool) :
  zip_keep V l mask = match filt_next l mask with None => [] | Some (r, t, mk) => r :: zip_keep V t mk end.
Proof.
  revert mask; induction l as [|r l IH]; intros [|m mask]; cbn [zip_keep filt_next]; try reflexivity.
  destruct m; [reflexivity|apply IH].
Qed.

Lemma filt_next_shorter (l : list row) (mask : list bool) r t mk :
  filt_next l mask = Some (r, t, mk) -> length t < length l.
Proof.
  revert mask; induction l as [|x l IH]; intros [|m mask] H; cbn [filt_next] in H; try discriminate.
  destruct m.
  - inversion H; subst. cbn [length]; lia.
  - specialize (IH _ H). cbn [length]; lia.
Qed.

Lemma gnext_filter_lst (env : list hframe) (g : nat) (l : list row) :
  forall (mask : list bool) (h : list gstate) (f : nat),
  nth_error h g = Some (GFilter (ILst l) mask) -> length l <= f ->
  gnext (S f) env h g =
  match filt_next l mask with
  | None => (upd g GDone h, None)
  | Some (r, t, mk) => (upd g (GFilter (ILst t) mk) h, Some r)
  end.
Proof.
  induction l as [|r l IH]; intros mask h f H Hf; cbn [C03_Heap.gnext]; rewrite H.
  - reflexivity.
  - destruct mask as [|m mask]; cbn [filt_next]; [reflexivity|]. destruct m; [reflexivity|].
    destruct f as [|f]; [cbn [length] in Hf; lia|].
    rewrite (IH mask (upd g (GFilter (ILst l) mask) h) f).
    + destruct (filt_next l mask) as [[[r' t] mk]|]; now rewrite upd_upd.
    + apply nth_error_upd_eq. eapply nth_error_lt; eassumption.
    + cbn [length] in Hf; lia.
Qed.

Lemma gdrain_filter_lst (env : list hframe) (g : nat) :
  forall (n : nat) (l : list row) (mask : list bool) (h : list gstate) (f : nat),
  nth_error h g = Some (GFilter (ILst l) mask) -> length l < n -> length l <= f ->
  gdrain n (S f) env h g = (upd g GDone h, zip_keep V l mask).
Proof.
  induction n as [|n IH]; intros l mask h f H Hn Hf; [lia|].
  cbn [C03_Heap.gdrain]. rewrite (gnext_filter_lst env g l mask h f H Hf), (filt_next_keep l mask).
  destruct (filt_next l mask) as [[[r t] mk]|] eqn:E; [|reflexivity].
  pose proof (filt_next_shorter _ _ _ _ _ E) as Hs.
  rewrite (IH t mk (upd g (GFilter (ILst t) mk) h) f).
  - now rewrite upd_upd.
  - apply nth_error_upd_eq. eapply nth_error_lt; eassumption.
  - lia.
  - lia.
Qed.

(* take: the next row whose position is one of the indexes *)
Fixpoint take_next (idx : list Z) (i : Z) (l : list row) : option (row * list row * Z) :=
  match l with
  | [] => None
  | r :: t => if zmem i idx then Some (r, t, (i + 1)%Z) else take_next idx (i + 1)%Z t
  end.

Lemma take_next_keep (idx : list Z) (i : Z) (l : list row) :
  take_keep V idx i l = match take_next idx i l with None => [] | Some (r, t, j) => r :: take_keep V idx j t end.
Proof.
  revert i; induction l as [|r l IH]; intros i; cbn [take_keep take_next]; [reflexivity|].
  destruct (zmem i idx); [reflexivity|apply IH].
Qed.

Lemma take_next_shorter (idx : list Z) (l : list row) i r t j :
  take_next idx i l = Some (r, t, j) -> length t < length l.
Proof.
  revert i; induction l as [|x l IH]; intros i H; cbn [take_next] in H; [discriminate|].
  destruct (zmem i idx).
  - inversion H; subst. cbn [length]; lia.
  - specialize (IH _ H). cbn [length]; lia.
Qed.

Lemma gnext_take_lst (env : list hframe) (g : nat) (idx : list Z) (l : list row) :
  forall (i : Z) (h : list gstate) (f : nat),
  nth_error h g = Some (GTake (ILst l) idx i) -> length l <= f ->
  gnext (S f) env h g =
  match take_next idx i l with
  | None => (upd g GDone h, None)
  | Some (r, t, j) => (upd g (GTake (ILst t) idx j) h, Some r)
  end.
Proof.
  induction l as [|r l IH]; intros i h f H Hf; cbn [C03_Heap.gnext]; rewrite H.
  - reflexivity.
  - cbn [take_next]. destruct (zmem i idx); [reflexivity|].
    destruct f as [|f]; [cbn [length] in Hf; lia|].
    rewrite (IH (i + 1)%Z (upd g (GTake (ILst l) idx (i + 1)%Z) h) f).
    + destruct (take_next idx (i + 1)%Z l) as [[[r' t] j]|]; now rewrite upd_upd.
    + apply nth_error_upd_eq. eapply nth_error_lt; eassumption.
    + cbn [length] in Hf; lia.
Qed.

Lemma gdrain_take_lst (env : list hframe) (g : nat) (idx : list Z) :
  forall (n : nat) (l : list row) (i : Z) (h : list gstate) (f : nat),
  nth_error h g = Some (GTake (ILst l) idx i) -> length l < n -> length l <= f ->
  gdrain n (S f) env h g = (upd g GDone h, take_keep V idx i l).
Proof.
  induction n as [|n IH]; intros l i h f H Hn Hf; [lia|].
  cbn [C03_Heap.gdrain]. rewrite (gnext_take_lst env g idx l i h f H Hf), (take_next_keep idx i l).
  destruct (take_next idx i l) as [[[r t] j]|] eqn:E; [|reflexivity].
  pose proof (take_next_shorter _ _ _ _ _ _ E) as Hs.
  rewrite (IH t j (upd g (GTake (ILst t) idx j) h) f).
  - now rewrite upd_upd.
  - apply nth_error_upd_eq. eapply nth_error_lt; eassumption.
  - lia.
  - lia.
Qed.

(* unstarted filter / take generators (inner generator functions since 75a1e72) *)
Lemma gnext_filternew (env : list hframe) (h : list gstate) (g src : nat) (mask : list bool) (fr : hframe) (f : nat) :
  nth_error h g = Some (GFilterNew src mask) -> nth_error env src = Some fr ->
  gnext (S f) env h g = gnext f env (upd g (GFilter (iter_of V (hrows fr)) mask) h) g.
Proof. intros H Hs. cbn [C03_Heap.gnext]. rewrite H, Hs. reflexivity. Qed.

Lemma gdrain_filternew_lst (env : list hframe) (g src : nat) (mask : list bool) (fr : hframe) (l : list row)
      (h : list gstate) (n f : nat) :
  nth_error h g = Some (GFilterNew src mask) ->
  nth_error env src = Some fr -> hrows fr = RL l -> length l < n -> length l <= f ->
  gdrain n (S (S f)) env h g = (upd g GDone h, zip_keep V l mask).
Proof.
  intros H Hs Hl Hn Hf. destruct n as [|n]; [lia|].
  assert (Hg : g < length h) by (eapply nth_error_lt; eassumption).
  cbn [C03_Heap.gdrain]. rewrite (gnext_filternew env h g src mask fr (S f) H Hs), Hl. cbn [iter_of].
  rewrite (gnext_filter_lst env g l mask _ f (nth_error_upd_eq h g _ Hg) Hf), (filt_next_keep l mask).
  destruct (filt_next l mask) as [[[r t] mk]|] eqn:E.
  - pose proof (filt_next_shorter _ _ _ _ _ E) as Hs'. rewrite upd_upd.
    rewrite (gdrain_filter_lst env g n t mk (upd g (GFilter (ILst t) mk) h) (S f)).
    + now rewrite upd_upd.
    + now apply nth_error_upd_eq.
    + lia.
    + lia.
  - now rewrite upd_upd.
Qed.

Lemma gnext_takenew (env : list hframe) (h : list gstate) (g src : nat) (idx : list Z) (fr : hframe) (f : nat) :
  nth_error h g = Some (GTakeNew src idx) -> nth_error env src = Some fr ->
  gnext (S f) env h g = gnext f env (upd g (GTake (iter_of V (hrows fr)) idx 0%Z) h) g.
Proof. intros H Hs. cbn [C03_Heap.gnext]. rewrite H, Hs. reflexivity. Qed.

Lemma gdrain_takenew_lst (env : list hframe) (g src : nat) (idx : list Z) (fr : hframe) (l : list row)
      (h : list gstate) (n f : nat) :
  nth_error h g = Some (GTakeNew src idx) ->
  nth_error env src = Some fr -> hrows fr = RL l -> length l < n -> length l <= f ->
  gdrain n (S (S f)) env h g = (upd g GDone h, take_keep V idx 0%Z l).
Proof.
  intros H Hs Hl Hn Hf. destruct n as [|n]; [lia|].
  assert (Hg : g < length h) by (eapply nth_error_lt; eassumption).
  cbn [C03_Heap.gdrain]. rewrite (gnext_takenew env h g src idx fr (S f) H Hs), Hl. cbn [iter_of].
  rewrite (gnext_take_lst env g idx l 0%Z _ f (nth_error_upd_eq h g _ Hg) Hf), (take_next_keep idx 0%Z l).
  destruct (take_next idx 0%Z l) as [[[r t] j]|] eqn:E.
  - pose proof (take_next_shorter _ _ _ _ _ _ E) as Hs'. rewrite upd_upd.
    rewrite (gdrain_take_lst env g idx n t j (upd g (GTake (ILst t) idx j) h) (S f)).
    + now rewrite upd_upd.
    + now apply nth_error_upd_eq.
    + lia.
    + lia.
  - now rewrite upd_upd.
Qed.

(* ---------- the fuel the model computes is enough ---------- *)
Lemma hfuel_heap (st : hstate) (g : nat) (s : gstate) :
  nth_error (hheap st) g = Some s -> 4 + 2 * gweight V s <= hfuel st.
Proof.
  intros H. unfold C03_Heap.hfuel.
  pose proof (fold_sum_ge (gweight V) _ _ _ H). lia.
Qed.

Lemma hfuel_env (st : hstate) (i : nat) (f : hframe) :
  nth_error (henv st) i = Some f -> 4 + 2 * fweight V Nm f <= hfuel st.
Proof.
  intros H. unfold C03_Heap.hfuel.
  pose proof (fold_sum_ge (fweight V Nm) _ _ _ H). lia.
Qed.

(* ---------- materialize() / iterating, frame by frame ---------- *)
Lemma hmat_list (st : hstate) (i : nat) (f : hframe) (l : list row) :
  nth_error (henv st) i = Some f -> hrows f = RL l -> hmat st i = (st, l).
Proof. intros H Hl. unfold C03_Heap.hmat. now rewrite H, Hl. Qed.

Lemma hconsume_list (st : hstate) (i : nat) (f : hframe) (l : list row) :
  nth_error (henv st) i = Some f -> hrows f = RL l -> hconsume st i = (st, l).
Proof. intros H Hl. unfold C03_Heap.hconsume. now rewrite H, Hl. Qed.

Lemma set_rows_at (env : list hframe) (i : nat) (sc : schema Nm) (r r' : rowsref V) :
  nth_error env i = Some (mkH sc r) -> set_rows V Nm i r' env = upd i (mkH sc r') env.
Proof. intros H. unfold set_rows. now rewrite H. Qed.

Lemma hmat_rows (st : hstate) (i g : nat) (sc : schema Nm) (p : list row) :
  nth_error (henv st) i = Some (mkH sc (RG g)) -> nth_error (hheap st) g = Some (GRows p) ->
  hmat st i = (mkHS (upd i (mkH sc (RL p)) (henv st)) (upd g GDone (hheap st)), p).
Proof.
  intros H Hg. unfold C03_Heap.hmat. rewrite H. cbn [hrows].
  pose proof (hfuel_heap st g _ Hg) as Hf. cbn [gweight] in Hf.
  destruct (hfuel st) as [|f] eqn:E; [lia|].
  rewrite (gdrain_rows (henv st) g p (hheap st) (S f) f Hg) by lia.
  now rewrite (set_rows_at _ _ _ _ _ H).
Qed.

Lemma hmat_selectnew (st : hstate) (i g src : nat) (sc : schema Nm) (idx : list nat) (fr : hframe) (l : list row) :
  nth_error (henv st) i = Some (mkH sc (RG g)) -> nth_error (hheap st) g = Some (GSelectNew src idx) ->
  nth_error (henv st) src = Some fr -> hrows fr = RL l ->
  hmat st i = (mkHS (upd i (mkH sc (RL (map (proj idx) l))) (henv st)) (upd g GDone (hheap st)), map (proj idx) l).
Proof.
  intros H Hg Hs Hl. unfold C03_Heap.hmat. rewrite H. cbn [hrows].
  pose proof (hfuel_env st src _ Hs) as Hf. unfold fweight in Hf. rewrite Hl in Hf.
  destruct (hfuel st) as [|[|f]] eqn:E; try lia.
  rewrite (gdrain_selectnew_lst (henv st) g src idx fr l (hheap st) (S (S f)) f Hg Hs Hl) by lia.
  now rewrite (set_rows_at _ _ _ _ _ H).
Qed.

Lemma hmat_filter_lst (st : hstate) (i g : nat) (sc : schema Nm) (l : list row) (mask : list bool) :
  nth_error (henv st) i = Some (mkH sc (RG g)) -> nth_error (hheap st) g = Some (GFilter (ILst l) mask) ->
  hmat st i = (mkHS (upd i (mkH sc (RL (zip_keep V l mask))) (henv st)) (upd g GDone (hheap st)), zip_keep V l mask).
Proof.
  intros H Hg. unfold C03_Heap.hmat. rewrite H. cbn [hrows].
  pose proof (hfuel_heap st g _ Hg) as Hf. cbn [gweight] in Hf.
  destruct (hfuel st) as [|f] eqn:E; [lia|].
  rewrite (gdrain_filter_lst (henv st) g (S f) l mask (hheap st) f Hg) by lia.
  now rewrite (set_rows_at _ _ _ _ _ H).
Qed.

Lemma hmat_take_lst (st : hstate) (i g : nat) (sc : schema Nm) (l : list row) (idx : list Z) (k : Z) :
  nth_error (henv st) i = Some (mkH sc (RG g)) -> nth_error (hheap st) g = Some (GTake (ILst l) idx k) ->
  hmat st i = (mkHS (upd i (mkH sc (RL (take_keep V idx k l))) (henv st)) (upd g GDone (hheap st)), take_keep V idx k l).
Proof.
  intros H Hg. unfold C03_Heap.hmat. rewrite H. cbn [hrows].
  pose proof (hfuel_heap st g _ Hg) as Hf. cbn [gweight] in Hf.
  destruct (hfuel st) as [|f] eqn:E; [lia|].
  rewrite (gdrain_take_lst (henv st) g idx (S f) l k (hheap st) f Hg) by lia.
  now rewrite (set_rows_at _ _ _ _ _ H).
Qed.

Lemma hmat_filternew (st : hstate) (i g src : nat) (sc : schema Nm) (mask : list bool) (fr : hframe) (l : list row) :
  nth_error (henv st) i = Some (mkH sc (RG g)) -> nth_error (hheap st) g = Some (GFilterNew src mask) ->
  nth_error (henv st) src = Some fr -> hrows fr = RL l ->
  hmat st i = (mkHS (upd i (mkH sc (RL (zip_keep V l mask))) (henv st)) (upd g GDone (hheap st)), zip_keep V l mask).
Proof.
  intros H Hg Hs Hl. unfold C03_Heap.hmat. rewrite H. cbn [hrows].
  pose proof (hfuel_env st src _ Hs) as Hf. unfold fweight in Hf. rewrite Hl in Hf.
  destruct (hfuel st) as [|[|f]] eqn:E; try lia.
  rewrite (gdrain_filternew_lst (henv st) g src mask fr l (hheap st) (S (S f)) f Hg Hs Hl) by lia.
  now rewrite (set_rows_at _ _ _ _ _ H).
Qed.

Lemma hmat_takenew (st : hstate) (i g src : nat) (sc : schema Nm) (idx : list Z) (fr : hframe) (l : list row) :
  nth_error (henv st) i = Some (mkH sc (RG g)) -> nth_error (hheap st) g = Some (GTakeNew src idx) ->
  nth_error (henv st) src = Some fr -> hrows fr = RL l ->
  hmat st i = (mkHS (upd i (mkH sc (RL (take_keep V idx 0%Z l))) (henv st)) (upd g GDone (hheap st)), take_keep V idx 0%Z l).
Proof.
  intros H Hg Hs Hl. unfold C03_Heap.hmat. rewrite H. cbn [hrows].
  pose proof (hfuel_env st src _ Hs) as Hf. unfold fweight in Hf. rewrite Hl in Hf.
  destruct (hfuel st) as [|[|f]] eqn:E; try lia.
  rewrite (gdrain_takenew_lst (henv st) g src idx fr l (hheap st) (S (S f)) f Hg Hs Hl) by lia.
  now rewrite (set_rows_at _ _ _ _ _ H).
Qed.

End Proofs.

Lemma mod_small_cons2 {A : Type} (a b : A) (fs : list A) (k : nat) :
  k < 2 -> Nat.modulo k (length (a :: b :: fs)) = k.
Proof. intros H. apply Nat.mod_small. cbn [length]. lia. Qed.

Lemma mod_small_cons3 {A : Type} (a b c : A) (fs : list A) (k : nat) :
  k < 3 -> Nat.modulo k (length (a :: b :: c :: fs)) = k.
Proof. intros H. apply Nat.mod_small. cbn [length]. lia. Qed.

Lemma mod_small_cons4 {A : Type} (a b c d : A) (fs : list A) (k : nat) :
  k < 4 -> Nat.modulo k (length (a :: b :: c :: d :: fs)) = k.
Proof. intros H. apply Nat.mod_small. cbn [length]. lia. Qed.

(* ====================================================================== *)
(* steps and programs                                                      *)
(* ====================================================================== *)
Section Steps.
Set Default Proof Using "Type".
Variable V : Type.
Variable veqb : V -> V -> bool.
Variable dflt : V.
Variable Nm : Type.
Variable nmeqb : Nm -> Nm -> bool.

Notation row := (list V).
Notation hframe := (hframe V Nm).
Notation gstate := (gstate V).
Notation hstate := (hstate V Nm).
Notation hmat := (hmat V dflt Nm).
Notation hconsume := (hconsume V dflt Nm).
Notation hstep := (hstep V veqb dflt Nm nmeqb).
Notation hrun := (hrun V veqb dflt Nm nmeqb).
Notation interpret := (interpret V Nm).
Notation apply_op := (apply_op V veqb dflt Nm nmeqb).
Notation proj idx := (fun r : row => map (pick V dflt r) idx).

Lemma interpret_shape (st : hstate) (r : rout V Nm) :
  exists fs, henv (fst (interpret st r)) = henv st ++ fs /\ hheap (fst (interpret st r)) = hheap st.
Proof.
  destruct r as [x|fs|v]; cbn [C03_Heap.interpret].
  - destruct (rb x); cbn [add_frames fst henv hheap]; try (eexists; split; reflexivity);
      exists []; now rewrite app_nil_r.
  - cbn [add_frames fst henv hheap]. eexists; split; reflexivity.
  - exists []. cbn [fst]. now rewrite app_nil_r.
Qed.

Lemma hstep_generic (early : bool) (st : hstate) (s i : nat) (o : op V Nm) :
  observes V Nm o = true -> Nat.modulo s (length (henv st)) = i ->
  hstep early st (mkHStep s (HOp o)) =
  match nth_error (henv st) i with
  | None => (st, HVal (ORaise TypeError))
  | Some fr =>
      let '(st1, rows) := if consumes V Nm o then hconsume st i else hmat st i in
      interpret st1 (snd (apply_op o (mkF (hsch fr) (Eager rows))))
  end.
Proof. intros H Hi. subst i. destruct o; try discriminate H; reflexivity. Qed.

Lemma hstep_list (early : bool) (st : hstate) (s i : nat) (fr : hframe) :
  Nat.modulo s (length (henv st)) = i -> nth_error (henv st) i = Some fr ->
  hstep early st (mkHStep s HList) = (let '(st1, l) := hmat st i in (st1, HVal (ORows l))).
Proof. intros Hi H. subst i. unfold C03_Heap.hstep. cbn [h_src h_op]. now rewrite H. Qed.

(* the three calls that return a lazily backed frame (the code as it stands: [early] = false):
   the new frame joins the environment with an unstarted generator G, and G - in ANY later state
   in which the source frame is list-backed, whatever it was when the call was made - materialises
   to the plain-list result on that list *)
Lemma hstep_lazy (st : hstate) (s i : nat) (sc sc' : schema Nm) (r : rowsref V) (c : op V Nm) (R0 rows0 : list row) :
  lazy_result V dflt Nm nmeqb sc c R0 = Some (sc', rows0) ->
  Nat.modulo s (length (henv st)) = i -> nth_error (henv st) i = Some (mkH sc r) ->
  exists G,
    hstep false st (mkHStep s (HOp c)) =
    (mkHS (henv st ++ [mkH sc' (RG (length (hheap st)))]) (hheap st ++ [G]), HNew [names sc']) /\
    forall (st2 : hstate) (j g : nat) (R rows : list row),
      nth_error (henv st2) j = Some (mkH sc' (RG g)) -> nth_error (hheap st2) g = Some G ->
      nth_error (henv st2) i = Some (mkH sc (RL R)) ->
      lazy_result V dflt Nm nmeqb sc c R = Some (sc', rows) ->
      hmat st2 j = (mkHS (upd j (mkH sc' (RL rows)) (henv st2)) (upd g GDone (hheap st2)), rows).
Proof.
  intros Hc Hi H. subst i. unfold C03_Heap.hstep. cbn [h_src h_op]. rewrite H. cbn [hsch hrows].
  destruct c; try discriminate Hc; cbn [lazy_result] in Hc.
  - inversion Hc; subst sc' rows0; clear Hc. eexists; split; [reflexivity|].
    intros st2 j g R rows Hj Hg Hs Hr. cbn [lazy_result] in Hr. inversion Hr; subst rows. rewrite <- zip_keep_spec.
    exact (hmat_filternew V dflt Nm st2 j g _ sc mask (mkH sc (RL R)) R Hj Hg Hs eq_refl).
  - inversion Hc; subst sc' rows0; clear Hc. eexists; split; [reflexivity|].
    intros st2 j g R rows Hj Hg Hs Hr. cbn [lazy_result] in Hr. inversion Hr; subst rows.
    unfold spec_take. rewrite <- take_keep_spec.
    exact (hmat_takenew V dflt Nm st2 j g _ sc idx (mkH sc (RL R)) R Hj Hg Hs eq_refl).
  - unfold spec_select in Hc. rewrite (index_loop_spec Nm nmeqb (names sc) attrs []).
    destruct (all_some (map (fun a => index_of Nm nmeqb a (names sc)) attrs)) as [ix|] eqn:Eix; [|discriminate].
    inversion Hc; subst sc' rows0; clear Hc. cbn [app]. eexists; split; [reflexivity|].
    intros st2 j g R rows Hj Hg Hs Hr. cbn [lazy_result] in Hr. unfold spec_select in Hr. rewrite Eix in Hr.
    inversion Hr; subst rows.
    exact (hmat_selectnew V dflt Nm st2 j g _ (mkS Untyped attrs) ix (mkH sc (RL R)) R Hj Hg Hs eq_refl).
Qed.

(* what an operator that looks at its frame's rows does to a state in which that frame is
   list-backed: the frame, every other frame and every generator stay as they are; frames may be
   added at the end *)
Lemma hstep_observe_list (early : bool) (st : hstate) (s i : nat) (o : op V Nm) (fr : hframe) (l : list row) :
  observes V Nm o = true -> Nat.modulo s (length (henv st)) = i ->
  nth_error (henv st) i = Some fr -> hrows fr = RL l ->
  exists fs x, hstep early st (mkHStep s (HOp o)) = (mkHS (henv st ++ fs) (hheap st), x).
Proof.
  intros Ho Hi H Hl. rewrite (hstep_generic early st s i o Ho Hi), H.
  assert (E : (if consumes V Nm o then hconsume st i else hmat st i) = (st, l)).
  { destruct (consumes V Nm o); [eapply hconsume_list|eapply hmat_list]; eassumption. }
  rewrite E.
  destruct (interpret_shape st (snd (apply_op o (mkF (hsch fr) (Eager l))))) as (fs & He & Hh).
  destruct (interpret st (snd (apply_op o (mkF (hsch fr) (Eager l))))) as [[env2 h2] x].
  cbn [fst henv hheap] in He, Hh. subst. now exists fs, x.
Qed.

Lemma hrun_cons (early : bool) (st : hstate) (s : hstepd V Nm) (r : list (hstepd V Nm)) :
  hrun early st (s :: r) =
  (let '(st1, o) := hstep early st s in let '(st2, os) := hrun early st1 r in (st2, o :: os)).
Proof. reflexivity. Qed.

(* ---------- the scenario of the round-2 seeded change and of F-C03-6, for every frame ---------- *)
(* a generator-backed frame; select / filter / take of it is made and left alone; the source is
   observed by any operator that materialises it; then the derived frame is listed, then the source *)
Lemma unforced_lazy_generator_source (sc sc' : schema Nm) (R rows : list row) (c o : op V Nm) :
  lazy_result V dflt Nm nmeqb sc c R = Some (sc', rows) ->
  materialises V Nm o = true ->
  exists st x,
    hrun false (hstart V Nm [mkHI sc R KGen] (mkHS [] []))
         [mkHStep 0 (HOp c); mkHStep 0 (HOp o); mkHStep 1 HList; mkHStep 0 HList]
    = (st, [HNew [names sc']; x; HVal (ORows rows); HVal (ORows R)]).
Proof.
  intros Hc Hm.
  unfold materialises in Hm. apply andb_true_iff in Hm as [Hobs Hcons]. apply negb_true_iff in Hcons.
  cbn [hstart i_kind i_sch i_rows henv hheap app length C03_Heap.hrun].
  destruct (hstep_lazy (mkHS [mkH sc (RG 0)] [GRows R]) 0 0 sc sc' (RG 0) c R rows Hc eq_refl eq_refl) as (G & E & Hlate).
  rewrite E. cbn [henv hheap app length].
  (* the observation *)
  rewrite (hstep_generic false (mkHS [mkH sc (RG 0); mkH sc' (RG 1)] [GRows R; G]) 0 0 o Hobs eq_refl), Hcons.
  cbn [henv nth_error hsch].
  rewrite (hmat_rows V dflt Nm (mkHS [mkH sc (RG 0); mkH sc' (RG 1)] [GRows R; G]) 0 0 sc R eq_refl eq_refl).
  cbn [henv hheap upd].
  match goal with |- context [interpret ?s ?r] =>
    destruct (interpret_shape s r) as (fs & He & Hh); destruct (interpret s r) as [[env2 h2] x] end.
  cbn [fst henv hheap app] in He, Hh. subst env2 h2.
  (* list the derived frame: its generator starts now and finds the source list-backed *)
  rewrite (hstep_list false (mkHS (mkH sc (RL R) :: mkH sc' (RG 1) :: fs) [GDone; G]) 1 1
             (mkH sc' (RG 1)) (mod_small_cons2 _ _ fs 1 ltac:(lia)) eq_refl).
  rewrite (Hlate (mkHS (mkH sc (RL R) :: mkH sc' (RG 1) :: fs) [GDone; G]) 1 1 R rows eq_refl eq_refl eq_refl Hc).
  cbn [henv hheap upd].
  (* list the source *)
  match goal with |- context [hstep false ?s (mkHStep 0 HList)] =>
    rewrite (hstep_list false s 0 0 (mkH sc (RL R)) (mod_small_cons2 _ _ fs 0 ltac:(lia)) eq_refl);
    rewrite (hmat_list V dflt Nm s 0 (mkH sc (RL R)) R eq_refl eq_refl) end.
  eexists; eexists; reflexivity.
Qed.

(* the frames of the seeded change's demonstration: a lazily backed [mid] derived from a
   list-backed frame, two lazily backed frames derived from [mid] and left alone, [mid] observed by
   any operator that materialises it, then both derived frames listed, then [mid], then the base *)
Lemma unforced_lazy_of_lazy_intermediate (sc sc0 sc1 sc2 : schema Nm) (R M L1 L2 : list row) (c0 c1 c2 o : op V Nm) :
  lazy_result V dflt Nm nmeqb sc c0 R = Some (sc0, M) ->
  lazy_result V dflt Nm nmeqb sc0 c1 M = Some (sc1, L1) ->
  lazy_result V dflt Nm nmeqb sc0 c2 M = Some (sc2, L2) ->
  materialises V Nm o = true ->
  exists st x,
    hrun false (hstart V Nm [mkHI sc R KList] (mkHS [] []))
      [mkHStep 0 (HOp c0); mkHStep 1 (HOp c1); mkHStep 1 (HOp c2);
       mkHStep 1 (HOp o); mkHStep 2 HList; mkHStep 3 HList; mkHStep 1 HList; mkHStep 0 HList]
    = (st, [HNew [names sc0]; HNew [names sc1]; HNew [names sc2]; x;
            HVal (ORows L1); HVal (ORows L2); HVal (ORows M); HVal (ORows R)]).
Proof.
  intros H0 H1 H2 Hm.
  unfold materialises in Hm. apply andb_true_iff in Hm as [Hobs Hcons]. apply negb_true_iff in Hcons.
  set (base := mkH sc (RL R) : hframe). set (mid := mkH sc0 (RG 0) : hframe). set (midL := mkH sc0 (RL M) : hframe).
  set (left := mkH sc1 (RG 1) : hframe). set (right := mkH sc2 (RG 2) : hframe).
  cbn [hstart i_kind i_sch i_rows henv hheap app length C03_Heap.hrun]. fold base.
  destruct (hstep_lazy (mkHS [base] []) 0 0 sc sc0 (RL R) c0 R M H0 eq_refl eq_refl) as (G0 & E0 & Late0).
  rewrite E0. cbn [henv hheap app length]. fold mid.
  destruct (hstep_lazy (mkHS [base; mid] [G0]) 1 1 sc0 sc1 (RG 0) c1 M L1 H1 eq_refl eq_refl) as (G1 & E1 & Late1).
  rewrite E1. cbn [henv hheap app length]. fold left.
  destruct (hstep_lazy (mkHS [base; mid; left] [G0; G1]) 1 1 sc0 sc2 (RG 0) c2 M L2 H2 eq_refl eq_refl) as (G2 & E2 & Late2).
  rewrite E2. cbn [henv hheap app length]. fold right.
  (* the observation of mid: its generator starts, finds base list-backed *)
  rewrite (hstep_generic false (mkHS [base; mid; left; right] [G0; G1; G2]) 1 1 o Hobs eq_refl), Hcons.
  cbn [henv nth_error].
  rewrite (Late0 (mkHS [base; mid; left; right] [G0; G1; G2]) 1 0 R M eq_refl eq_refl eq_refl H0).
  cbn [henv hheap upd]. fold midL.
  match goal with |- context [interpret ?s ?r] =>
    destruct (interpret_shape s r) as (fs & He & Hh); destruct (interpret s r) as [[env2 h2] x] end.
  cbn [fst henv hheap app] in He, Hh. subst env2 h2.
  (* the two frames derived from mid: their generators start now and find mid list-backed *)
  rewrite (hstep_list false (mkHS (base :: midL :: left :: right :: fs) [GDone; G1; G2]) 2 2 left
             (mod_small_cons4 _ _ _ _ fs 2 ltac:(lia)) eq_refl).
  rewrite (Late1 (mkHS (base :: midL :: left :: right :: fs) [GDone; G1; G2]) 2 1 M L1 eq_refl eq_refl eq_refl H1).
  cbn [henv hheap upd].
  match goal with |- context [hstep false ?s (mkHStep 3 HList)] =>
    rewrite (hstep_list false s 3 3 right (mod_small_cons4 _ _ _ _ fs 3 ltac:(lia)) eq_refl);
    rewrite (Late2 s 3 2 M L2 eq_refl eq_refl eq_refl H2) end.
  cbn [henv hheap upd].
  match goal with |- context [hstep false ?s (mkHStep 1 HList)] =>
    rewrite (hstep_list false s 1 1 midL (mod_small_cons4 _ _ _ _ fs 1 ltac:(lia)) eq_refl);
    rewrite (hmat_list V dflt Nm s 1 midL M eq_refl eq_refl) end.
  match goal with |- context [hstep false ?s (mkHStep 0 HList)] =>
    rewrite (hstep_list false s 0 0 base (mod_small_cons4 _ _ _ _ fs 0 ltac:(lia)) eq_refl);
    rewrite (hmat_list V dflt Nm s 0 base R eq_refl eq_refl) end.
  eexists; eexists; reflexivity.
Qed.

(* a list-backed frame; select / filter / take of it is made and left alone; the source is
   observed by ANY operator (materialising or iterating); then the derived frame is listed, then
   the source *)
Lemma unforced_child_of_list (sc sc' : schema Nm) (R rows : list row) (c o : op V Nm) :
  lazy_result V dflt Nm nmeqb sc c R = Some (sc', rows) ->
  observes V Nm o = true ->
  exists st x,
    hrun false (hstart V Nm [mkHI sc R KList] (mkHS [] []))
         [mkHStep 0 (HOp c); mkHStep 0 (HOp o); mkHStep 1 HList; mkHStep 0 HList]
    = (st, [HNew [names sc']; x; HVal (ORows rows); HVal (ORows R)]).
Proof.
  intros Hc Hobs. cbn [hstart i_kind i_sch i_rows henv hheap app length].
  rewrite hrun_cons.
  destruct (hstep_lazy (mkHS [mkH sc (RL R)] []) 0 0 sc sc' (RL R) c R rows Hc eq_refl eq_refl) as (G & E & Hlate).
  rewrite E. cbn [henv hheap app length].
  destruct (hstep_observe_list false (mkHS [mkH sc (RL R); mkH sc' (RG 0)] [G]) 0 0 o (mkH sc (RL R)) R Hobs eq_refl eq_refl eq_refl)
    as (fs & x & Eo).
  rewrite hrun_cons, Eo. cbn [henv hheap app].
  rewrite hrun_cons.
  rewrite (hstep_list false (mkHS (mkH sc (RL R) :: mkH sc' (RG 0) :: fs) [G]) 1 1 (mkH sc' (RG 0))
             (mod_small_cons2 _ _ fs 1 ltac:(lia)) eq_refl).
  rewrite (Hlate (mkHS (mkH sc (RL R) :: mkH sc' (RG 0) :: fs) [G]) 1 0 R rows eq_refl eq_refl eq_refl Hc).
  cbn [henv hheap upd].
  rewrite hrun_cons.
  rewrite (hstep_list false (mkHS (mkH sc (RL R) :: mkH sc' (RL rows) :: fs) [GDone]) 0 0 (mkH sc (RL R))
             (mod_small_cons2 _ _ fs 0 ltac:(lia)) eq_refl).
  rewrite (hmat_list V dflt Nm (mkHS (mkH sc (RL R) :: mkH sc' (RL rows) :: fs) [GDone]) 0 (mkH sc (RL R)) R eq_refl eq_refl).
  cbn [C03_Heap.hrun]. eexists; eexists; reflexivity.
Qed.

(* ---------- no step of any program alters a list-backed frame ---------- *)
Lemma hmat_keeps (st : hstate) (j i : nat) (sc : schema Nm) (l : list row) :
  nth_error (henv st) i = Some (mkH sc (RL l)) ->
  nth_error (henv (fst (hmat st j))) i = Some (mkH sc (RL l)).
Proof.
  intros H. unfold C03_Heap.hmat. destruct (nth_error (henv st) j) as [f|] eqn:E; [|exact H].
  destruct (hrows f) as [l'|g|l'] eqn:Er; [exact H| |].
  - destruct (gdrain V dflt Nm (hfuel V Nm st) (hfuel V Nm st) (henv st) (hheap st) g) as [h1 rows].
    cbn [fst henv]. unfold set_rows. rewrite E.
    destruct (Nat.eq_dec j i) as [->|N].
    + rewrite H in E. inversion E; subst f. discriminate Er.
    + now rewrite nth_error_upd_neq.
  - cbn [fst henv]. unfold set_rows. rewrite E.
    destruct (Nat.eq_dec j i) as [->|N].
    + rewrite H in E. inversion E; subst f. discriminate Er.
    + now rewrite nth_error_upd_neq.
Qed.

Lemma hconsume_keeps (st : hstate) (j : nat) : henv (fst (hconsume st j)) = henv st.
Proof.
  unfold C03_Heap.hconsume. destruct (nth_error (henv st) j) as [f|]; [|reflexivity].
  destruct (hrows f) as [l'|g|l']; [reflexivity| |reflexivity].
  destruct (gdrain V dflt Nm (hfuel V Nm st) (hfuel V Nm st) (henv st) (hheap st) g) as [h1 rows]. reflexivity.
Qed.

Lemma interpret_keeps (st : hstate) (r : rout V Nm) (i : nat) (x : hframe) :
  nth_error (henv st) i = Some x -> nth_error (henv (fst (interpret st r))) i = Some x.
Proof.
  intros H. destruct (interpret_shape st r) as (fs & He & _). rewrite He.
  rewrite nth_error_app1; [exact H|]. eapply nth_error_lt; eassumption.
Qed.

Lemma app_keeps (env fs : list hframe) (i : nat) (x : hframe) :
  nth_error env i = Some x -> nth_error (env ++ fs) i = Some x.
Proof. intros H. rewrite nth_error_app1; [exact H|]. eapply nth_error_lt; eassumption. Qed.

Lemma hstep_keeps (early : bool) (st : hstate) (s : hstepd V Nm) (i : nat) (sc : schema Nm) (l : list row) :
  nth_error (henv st) i = Some (mkH sc (RL l)) ->
  nth_error (henv (fst (hstep early st s))) i = Some (mkH sc (RL l)).
Proof.
  intros H. destruct s as [src [o| |]].
  - destruct (observes V Nm o) eqn:Ho.
    + rewrite (hstep_generic early st src _ o Ho eq_refl).
      destruct (nth_error (henv st) (Nat.modulo src (length (henv st)))) as [fr|]; [|exact H].
      destruct (consumes V Nm o).
      * pose proof (hconsume_keeps st (Nat.modulo src (length (henv st)))) as K.
        destruct (hconsume st (Nat.modulo src (length (henv st)))) as [st1 rows]. cbn [fst] in K.
        apply interpret_keeps. now rewrite K.
      * pose proof (hmat_keeps st (Nat.modulo src (length (henv st))) i sc l H) as K.
        destruct (hmat st (Nat.modulo src (length (henv st)))) as [st1 rows]. cbn [fst] in K.
        now apply interpret_keeps.
    + unfold C03_Heap.hstep. cbn [h_src h_op].
      destruct (nth_error (henv st) (Nat.modulo src (length (henv st)))) as [fr|]; [|exact H].
      destruct o; try discriminate Ho.
      * cbn [new_lazy fst henv]. now apply app_keeps.
      * cbn [new_lazy fst henv]. now apply app_keeps.
      * destruct (index_loop Nm nmeqb (names (hsch fr)) attrs []); [|exact H].
        cbn [new_lazy fst henv]. now apply app_keeps.
      * destruct (nth_error (henv st) (Nat.modulo other (length (henv st)))) as [fr2|]; [|exact H].
        destruct (negb (schema_eqb Nm nmeqb (hsch fr) (hsch fr2))); [exact H|].
        pose proof (hmat_keeps st (Nat.modulo src (length (henv st))) i sc l H) as K1.
        destruct (hmat st (Nat.modulo src (length (henv st)))) as [st1 r1]. cbn [fst] in K1.
        pose proof (hmat_keeps st1 (Nat.modulo other (length (henv st))) i sc l K1) as K2.
        destruct (hmat st1 (Nat.modulo other (length (henv st)))) as [st2 r2]. cbn [fst] in K2.
        destruct (hmat st2 (Nat.modulo src (length (henv st)))) as [st3 r3].
        destruct (code_add V Nm nmeqb (mkF (hsch fr) (Eager r3)) (mkF (hsch fr2) (Eager r2))) as [[a b] [x|e]].
        -- now apply interpret_keeps.
        -- exact K2.
  - unfold C03_Heap.hstep. cbn [h_src h_op].
    destruct (nth_error (henv st) (Nat.modulo src (length (henv st)))) as [fr|]; [|exact H].
    pose proof (hmat_keeps st (Nat.modulo src (length (henv st))) i sc l H) as K.
    destruct (hmat st (Nat.modulo src (length (henv st)))) as [st1 rows]. exact K.
  - unfold C03_Heap.hstep. cbn [h_src h_op].
    destruct (nth_error (henv st) (Nat.modulo src (length (henv st)))) as [fr|]; [|exact H].
    pose proof (hmat_keeps st (Nat.modulo src (length (henv st))) i sc l H) as K.
    destruct (hmat st (Nat.modulo src (length (henv st)))) as [st1 rows]. exact K.
Qed.

Lemma hrun_keeps (early : bool) (prog : list (hstepd V Nm)) :
  forall (st : hstate) (i : nat) (sc : schema Nm) (l : list row),
  nth_error (henv st) i = Some (mkH sc (RL l)) ->
  nth_error (henv (fst (hrun early st prog))) i = Some (mkH sc (RL l)).
Proof.
  induction prog as [|s r IH]; intros st i sc l H; [exact H|].
  rewrite hrun_cons. pose proof (hstep_keeps early st s i sc l H) as K.
  destruct (hstep early st s) as [st1 o]. cbn [fst] in K.
  specialize (IH st1 i sc l K). destruct (hrun early st1 r) as [st2 os]. exact IH.
Qed.

(* ---------- round 7: a frame whose row container is a tuple (an eager sequence that is not a list) ---------- *)
Lemma hmat_tuple (st : hstate) (i : nat) (sc : schema Nm) (l : list row) :
  nth_error (henv st) i = Some (mkH sc (RT l)) -> hmat st i = (now_list V Nm st i sc l, l).
Proof. intros H. unfold C03_Heap.hmat, now_list. rewrite H. cbn [hrows]. now rewrite (set_rows_at V Nm _ _ _ _ _ H). Qed.

Lemma hconsume_tuple (st : hstate) (i : nat) (sc : schema Nm) (l : list row) :
  nth_error (henv st) i = Some (mkH sc (RT l)) -> hconsume st i = (st, l).
Proof. intros H. unfold C03_Heap.hconsume. now rewrite H. Qed.

(* every operator that looks at the rows: the operator of Model/C03.v on the plain list l; the frame is
   list-backed afterwards unless the operator only iterates (query / distinct / iter) *)
Lemma hstep_tuple_op (early : bool) (st : hstate) (s i : nat) (o : op V Nm) (sc : schema Nm) (l : list row) :
  observes V Nm o = true -> Nat.modulo s (length (henv st)) = i ->
  nth_error (henv st) i = Some (mkH sc (RT l)) ->
  hstep early st (mkHStep s (HOp o)) =
  interpret (if consumes V Nm o then st else now_list V Nm st i sc l) (snd (apply_op o (mkF sc (Eager l)))).
Proof.
  intros Ho Hi H. rewrite (hstep_generic early st s i o Ho Hi), H. cbn [hsch].
  destruct (consumes V Nm o); [rewrite (hconsume_tuple st i sc l H)|rewrite (hmat_tuple st i sc l H)]; reflexivity.
Qed.

(* ... which is what the same call gives on the list-backed frame of the same rows *)
Lemma hstep_list_op (early : bool) (st : hstate) (s i : nat) (o : op V Nm) (sc : schema Nm) (l : list row) :
  observes V Nm o = true -> Nat.modulo s (length (henv st)) = i ->
  nth_error (henv st) i = Some (mkH sc (RL l)) ->
  hstep early st (mkHStep s (HOp o)) = interpret st (snd (apply_op o (mkF sc (Eager l)))).
Proof.
  intros Ho Hi H. rewrite (hstep_generic early st s i o Ho Hi), H. cbn [hsch].
  destruct (consumes V Nm o); [rewrite (hconsume_list V dflt Nm st i _ l H eq_refl)|rewrite (hmat_list V dflt Nm st i _ l H eq_refl)]; reflexivity.
Qed.

Lemma hstep_tuple_list (early : bool) (st : hstate) (s i : nat) (sc : schema Nm) (l : list row) :
  Nat.modulo s (length (henv st)) = i -> nth_error (henv st) i = Some (mkH sc (RT l)) ->
  hstep early st (mkHStep s HList) = (now_list V Nm st i sc l, HVal (ORows l)).
Proof. intros Hi H. rewrite (hstep_list early st s i _ Hi H), (hmat_tuple st i sc l H). reflexivity. Qed.

(* ... and listing it at any later point gives those rows *)
Lemma hrun_then_list (early : bool) (prog : list (hstepd V Nm)) (st : hstate) (i : nat) (sc : schema Nm) (l : list row) :
  nth_error (henv st) i = Some (mkH sc (RL l)) ->
  hmat (fst (hrun early st prog)) i = (fst (hrun early st prog), l).
Proof. intros H. eapply hmat_list; [eapply hrun_keeps; eassumption|reflexivity]. Qed.

End Steps.

(* ====================================================================== *)
(* Round 7: a tuple of rows instead of a list of rows makes no difference  *)
(* to any object-level program (append, which is not in hrun, aside)       *)
(* ====================================================================== *)
Section TupleSim.
Set Default Proof Using "Type".
Variable V : Type.
Variable veqb : V -> V -> bool.
Variable dflt : V.
Variable Nm : Type.
Variable nmeqb : Nm -> Nm -> bool.
Notation row := (list V).
Notation hframe := (hframe V Nm).
Notation gstate := (gstate V).
Notation hstate := (hstate V Nm).

Lemma iter_of_listed (r : rowsref V) : iter_of V (listed r) = iter_of V r.
Proof. destruct r; reflexivity. Qed.

Lemma src_iter_listed (env : list hframe) (src : nat) :
  match nth_error (map listed_frame env) src with Some fr => iter_of V (hrows fr) | None => ILst [] end =
  match nth_error env src with Some fr => iter_of V (hrows fr) | None => ILst [] end.
Proof.
  rewrite nth_error_map. destruct (nth_error env src) as [fr|]; [|reflexivity].
  cbn [option_map listed_frame hrows]. apply iter_of_listed.
Qed.

Lemma gnext_listed (f : nat) : forall (env : list hframe) (h : list gstate) (g : nat),
  gnext V dflt Nm f (map listed_frame env) h g = gnext V dflt Nm f env h g.
Proof.
  induction f as [|f IH]; intros env h g; [reflexivity|].
  cbn [gnext].
  destruct (nth_error h g) as [[p|src idx|it idx|src m|it m|src idx|it idx i|]|]; rewrite ?src_iter_listed; try reflexivity.
  - now rewrite IH.
  - destruct it as [[|r t]|g']; try reflexivity. rewrite IH. reflexivity.
  - now rewrite IH.
  - destruct it as [[|r t]|g']; try reflexivity.
    + destruct m as [|[|] m']; try reflexivity. now rewrite IH.
    + rewrite IH. destruct (gnext V dflt Nm f env h g') as [h' [r|]]; try reflexivity.
      destruct m as [|[|] m']; try reflexivity. now rewrite IH.
  - now rewrite IH.
  - destruct it as [[|r t]|g']; try reflexivity.
    + destruct (zmem i idx); try reflexivity. now rewrite IH.
    + rewrite IH. destruct (gnext V dflt Nm f env h g') as [h' [r|]]; try reflexivity.
      destruct (zmem i idx); try reflexivity. now rewrite IH.
Qed.

Lemma gdrain_listed (n f : nat) : forall (env : list hframe) (h : list gstate) (g : nat),
  gdrain V dflt Nm n f (map listed_frame env) h g = gdrain V dflt Nm n f env h g.
Proof.
  induction n as [|n IH]; intros env h g; [reflexivity|].
  cbn [gdrain]. rewrite gnext_listed. destruct (gnext V dflt Nm f env h g) as [h1 [r|]]; [|reflexivity].
  now rewrite IH.
Qed.

Lemma fweight_listed (f : hframe) : fweight V Nm (listed_frame f) = fweight V Nm f.
Proof. destruct f as [sc [l|g|l]]; reflexivity. Qed.

Lemma hfuel_listed (st : hstate) : hfuel V Nm (listed_st st) = hfuel V Nm st.
Proof.
  unfold hfuel, listed_st. cbn [henv hheap]. f_equal. f_equal. f_equal.
  induction (henv st) as [|f env IH]; [reflexivity|]. cbn [map fold_right]. now rewrite fweight_listed, IH.
Qed.

Lemma map_upd {A B : Type} (F : A -> B) (i : nat) (x : A) (l : list A) : map F (upd i x l) = upd i (F x) (map F l).
Proof. revert i; induction l as [|y l IH]; intros [|i]; cbn [upd map]; try reflexivity. now rewrite IH. Qed.

Lemma upd_same {A : Type} (i : nat) (x : A) (l : list A) : nth_error l i = Some x -> upd i x l = l.
Proof.
  revert i; induction l as [|y l IH]; intros [|i] H; cbn [upd nth_error] in *; try discriminate.
  - now inversion H.
  - now rewrite IH.
Qed.

Lemma set_rows_listed (i : nat) (l : list row) (env : list hframe) :
  map listed_frame (set_rows V Nm i (RL l) env) = set_rows V Nm i (RL l) (map listed_frame env).
Proof.
  unfold set_rows. rewrite nth_error_map. destruct (nth_error env i) as [f|]; [|reflexivity].
  cbn [option_map]. now rewrite map_upd.
Qed.

Lemma hmat_listed (st : hstate) (i : nat) :
  hmat V dflt Nm (listed_st st) i = (listed_st (fst (hmat V dflt Nm st i)), snd (hmat V dflt Nm st i)).
Proof.
  unfold hmat. rewrite hfuel_listed. unfold listed_st. cbn [henv hheap]. rewrite nth_error_map.
  destruct (nth_error (henv st) i) as [f|] eqn:E; [|reflexivity]. cbn [option_map listed_frame hrows].
  destruct f as [sc [l|g|l]]; cbn [hrows listed hsch]; [reflexivity| |].
  - rewrite gdrain_listed.
    destruct (gdrain V dflt Nm (hfuel V Nm st) (hfuel V Nm st) (henv st) (hheap st) g) as [h1 rows].
    cbn [fst snd]. unfold listed_st. cbn [henv hheap]. now rewrite set_rows_listed.
  - cbn [fst snd]. unfold listed_st. cbn [henv hheap]. rewrite set_rows_listed.
    unfold set_rows. rewrite nth_error_map, E. cbn [option_map listed_frame hsch hrows listed].
    rewrite upd_same; [reflexivity|]. now rewrite nth_error_map, E.
Qed.

Lemma hconsume_listed (st : hstate) (i : nat) :
  hconsume V dflt Nm (listed_st st) i = (listed_st (fst (hconsume V dflt Nm st i)), snd (hconsume V dflt Nm st i)).
Proof.
  unfold hconsume. rewrite hfuel_listed. unfold listed_st. cbn [henv hheap]. rewrite nth_error_map.
  destruct (nth_error (henv st) i) as [f|] eqn:E; [|reflexivity]. cbn [option_map listed_frame hrows].
  destruct f as [sc [l|g|l]]; cbn [hrows listed hsch]; [reflexivity| |reflexivity].
  rewrite gdrain_listed.
  destruct (gdrain V dflt Nm (hfuel V Nm st) (hfuel V Nm st) (henv st) (hheap st) g) as [h1 rows]. reflexivity.
Qed.

Lemma add_frames_listed (st : hstate) (fs : list hframe) :
  (forall f, In f fs -> listed_frame f = f) ->
  add_frames V Nm (listed_st st) fs = (listed_st (fst (add_frames V Nm st fs)), snd (add_frames V Nm st fs)).
Proof.
  intros H. unfold add_frames, listed_st. cbn [henv hheap fst snd]. rewrite map_app.
  replace (map listed_frame fs) with fs; [reflexivity|].
  induction fs as [|f fs IH]; [reflexivity|]. cbn [map]. rewrite (H f (or_introl eq_refl)). f_equal.
  apply IH. intros g Hg. apply H. now right.
Qed.

Lemma interpret_listed (st : hstate) (r : rout V Nm) :
  interpret V Nm (listed_st st) r = (listed_st (fst (interpret V Nm st r)), snd (interpret V Nm st r)).
Proof.
  destruct r as [x|fs|v]; cbn [interpret].
  - destruct (rb x); try reflexivity. apply add_frames_listed. intros f [<-|[]]. reflexivity.
  - apply add_frames_listed. intros f Hf. apply in_map_iff in Hf. destruct Hf as (x & <- & _). reflexivity.
  - reflexivity.
Qed.

Lemma new_lazy_listed (st : hstate) (sc : schema Nm) (gs : gstate) :
  new_lazy V Nm (listed_st st) sc gs = (listed_st (fst (new_lazy V Nm st sc gs)), snd (new_lazy V Nm st sc gs)).
Proof. unfold new_lazy, listed_st. cbn [henv hheap fst snd]. now rewrite map_app. Qed.


(* every step of every program: replacing every tuple of rows by the list of the same rows changes
   no output, and the states stay related the same way *)
Lemma hstep_listed (early : bool) (st : hstate) (s : hstepd V Nm) :
  hstep V veqb dflt Nm nmeqb early (listed_st st) s =
  (listed_st (fst (hstep V veqb dflt Nm nmeqb early st s)), snd (hstep V veqb dflt Nm nmeqb early st s)).
Proof.
  destruct s as [src o]. unfold hstep. cbn [h_src h_op].
  replace (length (henv (listed_st st))) with (length (henv st)) by (unfold listed_st; cbn [henv]; now rewrite map_length).
  set (i := Nat.modulo src (length (henv st))).
  replace (nth_error (henv (listed_st st)) i) with (option_map listed_frame (nth_error (henv st) i))
    by (unfold listed_st; cbn [henv]; now rewrite nth_error_map).
  destruct (nth_error (henv st) i) as [fr|] eqn:E; cbn [option_map]; [|reflexivity].
  destruct o as [o| |].
  - destruct o; cbn [listed_frame hsch hrows];
      try (rewrite ?iter_of_listed; apply new_lazy_listed);
      try (destruct (consumes V Nm _) eqn:Ec;
           [rewrite hconsume_listed; destruct (hconsume V dflt Nm st i) as [st1 rows]
           |rewrite hmat_listed; destruct (hmat V dflt Nm st i) as [st1 rows]];
           cbn [fst snd]; apply interpret_listed).
    + destruct (index_loop Nm nmeqb (names (hsch fr)) attrs []) as [idx|e]; [|reflexivity].
      rewrite ?iter_of_listed; apply new_lazy_listed.
    + set (j := Nat.modulo other (length (henv st))).
      replace (nth_error (henv (listed_st st)) j) with (option_map listed_frame (nth_error (henv st) j))
        by (unfold listed_st; cbn [henv]; now rewrite nth_error_map).
      destruct (nth_error (henv st) j) as [fr2|]; cbn [option_map listed_frame hsch]; [|reflexivity].
      destruct (negb (schema_eqb Nm nmeqb (hsch fr) (hsch fr2))); [reflexivity|].
      rewrite hmat_listed. destruct (hmat V dflt Nm st i) as [st1 r1]. cbn [fst snd].
      rewrite hmat_listed. destruct (hmat V dflt Nm st1 j) as [st2 l2]. cbn [fst snd].
      rewrite hmat_listed. destruct (hmat V dflt Nm st2 i) as [st3 l1]. cbn [fst snd].
      destruct (code_add V Nm nmeqb (mkF (hsch fr) (Eager l1)) (mkF (hsch fr2) (Eager l2))) as [[a b] [x|e]]; [|reflexivity].
      apply interpret_listed.
  - rewrite hmat_listed. destruct (hmat V dflt Nm st i) as [st1 l]. reflexivity.
  - rewrite hmat_listed. destruct (hmat V dflt Nm st i) as [st1 l]. reflexivity.
Qed.

Lemma hrun_listed (early : bool) (prog : list (hstepd V Nm)) : forall st : hstate,
  hrun V veqb dflt Nm nmeqb early (listed_st st) prog =
  (listed_st (fst (hrun V veqb dflt Nm nmeqb early st prog)), snd (hrun V veqb dflt Nm nmeqb early st prog)).
Proof.
  induction prog as [|s r IH]; intros st; [reflexivity|].
  cbn [hrun]. rewrite hstep_listed. destruct (hstep V veqb dflt Nm nmeqb early st s) as [st1 o]. cbn [fst snd].
  rewrite IH. destruct (hrun V veqb dflt Nm nmeqb early st1 r) as [st2 os]. reflexivity.
Qed.


Lemma hstart_listed (fs : list (hinit V Nm)) : forall st : hstate,
  listed_st (hstart V Nm fs st) = hstart V Nm (map as_list_init fs) (listed_st st).
Proof.
  induction fs as [|f fs IH]; intros st; [reflexivity|].
  cbn [hstart map]. rewrite IH. f_equal.
  destruct f as [sc rows [| |]]; cbn [as_list_init i_kind i_sch i_rows]; unfold listed_st; cbn [henv hheap]; rewrite map_app; try reflexivity.
  destruct rows; reflexivity.
Qed.


Lemma tuple_programs (early : bool) (fs : list (hinit V Nm)) (prog : list (hstepd V Nm)) :
  snd (hrun V veqb dflt Nm nmeqb early (hstart V Nm fs (mkHS [] [])) prog) =
  snd (hrun V veqb dflt Nm nmeqb early (hstart V Nm (map as_list_init fs) (mkHS [] [])) prog).
Proof.
  change (mkHS [] []) with (listed_st (V:=V) (Nm:=Nm) (mkHS [] [])) at 2.
  rewrite <- hstart_listed, hrun_listed. reflexivity.
Qed.

End TupleSim.

(* ====================================================================== *)
(* Round 3: the caller's argument objects and append()                     *)
(* ====================================================================== *)
Section ArgsProofs.
Set Default Proof Using "Type".
Variable V : Type.
Variable veqb : V -> V -> bool.
Variable dflt : V.
Variable Nm : Type.
Variable nmeqb : Nm -> Nm -> bool.

Notation row := (list V).
Notation astate := (astate V Nm).
Notation astep := (astep V veqb dflt Nm nmeqb).
Notation arun := (arun V veqb dflt Nm nmeqb).
Notation via_hstep := (via_hstep V veqb dflt Nm nmeqb).
Notation hstep := (hstep V veqb dflt Nm nmeqb).

Lemma via_hstep_pool (early : bool) (st : astate) (src : nat) (o : hop V Nm) :
  a_pool (fst (via_hstep early st src o)) = a_pool st.
Proof. unfold C03_Heap.via_hstep. destruct (hstep early (a_h st) (mkHStep src o)). reflexivity. Qed.

Lemma via_hstep_h (early : bool) (st : astate) (src : nat) (o : hop V Nm) :
  a_h (fst (via_hstep early st src o)) = fst (hstep early (a_h st) (mkHStep src o)).
Proof. unfold C03_Heap.via_hstep. destruct (hstep early (a_h st) (mkHStep src o)). reflexivity. Qed.

(* the code as it stands (a list handed to collect is copied first): no call alters any of the
   caller's lists *)
Lemma astep_pool_kept (early : bool) (st : astate) (s : astepd V Nm) :
  a_pool (fst (astep early true st s)) = a_pool st.
Proof.
  destruct s as [src o]. unfold C03_Heap.astep. cbn [a_src a_op].
  destruct o as [o|a lim|a|a|a|a|r|a].
  - apply via_hstep_pool.
  - destruct (via_hstep early st src _) as [st1 x]. reflexivity.
  - destruct (via_hstep early st src _) as [st1 x]. reflexivity.
  - destruct (all_some _); [apply via_hstep_pool|reflexivity].
  - apply via_hstep_pool.
  - apply via_hstep_pool.
  - destruct (nth_error _ _) as [fr|]; [|reflexivity].
    destruct (kind (hsch fr)); [|reflexivity]. destruct (hrows fr); reflexivity.
  - reflexivity.
Qed.

Lemma arun_pool_kept (early : bool) (prog : list (astepd V Nm)) :
  forall st : astate, a_pool (fst (arun early true st prog)) = a_pool st.
Proof.
  induction prog as [|s r IH]; intros st; [reflexivity|].
  cbn [C03_Heap.arun]. pose proof (astep_pool_kept early st s) as K.
  destruct (astep early true st s) as [st1 o]. cbn [fst] in K.
  specialize (IH st1). destruct (arun early true st1 r) as [st2 os]. cbn [fst] in *. congruence.
Qed.

(* what the in-place rewrite loop of collect() leaves in the list it runs on: exactly the
   positions (in THIS frame) that resolve_cols - the functional reading used by code_collect -
   computes; so without the copy the caller's names would be replaced by positions of this frame *)
Lemma rewrite_cols_resolve (src : list Nm) (v : argobj Nm) :
  match resolve_cols Nm nmeqb src (map (as_colref Nm) v) with
  | Ok zs => exists v', rewrite_cols Nm nmeqb src v = (v', true) /\ map (as_colref Nm) v' = map CIdx zs
  | Raise _ => snd (rewrite_cols Nm nmeqb src v) = false
  end.
Proof.
  induction v as [|x v IH]; cbn [map resolve_cols rewrite_cols].
  - exists []. split; reflexivity.
  - destruct x as [n|z|b]; cbn [as_colref resolve_cols rewrite_cols].
    + destruct (index_of Nm nmeqb n src) as [p|]; [|reflexivity].
      destruct (resolve_cols Nm nmeqb src (map (as_colref Nm) v)) as [zs|e].
      * destruct IH as (v' & E & M). rewrite E. eexists; split; [reflexivity|]. cbn [map as_colref]. now rewrite M.
      * destruct (rewrite_cols Nm nmeqb src v) as [r' ok]. cbn [snd] in *. exact IH.
    + destruct (resolve_cols Nm nmeqb src (map (as_colref Nm) v)) as [zs|e].
      * destruct IH as (v' & E & M). rewrite E. eexists; split; [reflexivity|]. cbn [map as_colref]. now rewrite M.
      * destruct (rewrite_cols Nm nmeqb src v) as [r' ok]. cbn [snd] in *. exact IH.
    + destruct (resolve_cols Nm nmeqb src (map (as_colref Nm) v)) as [zs|e].
      * destruct IH as (v' & E & M). rewrite E. eexists; split; [reflexivity|]. cbn [map as_colref]. now rewrite M.
      * destruct (rewrite_cols Nm nmeqb src v) as [r' ok]. cbn [snd] in *. exact IH.
Qed.

(* a list-backed frame is altered by no call of a session - whatever objects the calls are
   handed, copied or not - except an append() to that very frame, which adds the row at its end *)
Lemma astep_keeps_lists (early copy : bool) (st : astate) (s : astepd V Nm) (j : nat) (sc : schema Nm) (l : list row) :
  nth_error (henv (a_h st)) j = Some (mkH sc (RL l)) ->
  (forall r, a_op s = AAppend r -> Nat.modulo (a_src s) (length (henv (a_h st))) <> j) ->
  nth_error (henv (a_h (fst (astep early copy st s)))) j = Some (mkH sc (RL l)).
Proof.
  intros H Hnot. destruct s as [src o]. unfold C03_Heap.astep. cbn [a_src a_op] in *.
  destruct o as [o|a lim|a|a|a|a|r|a].
  - rewrite via_hstep_h. now apply hstep_keeps.
  - pose proof (via_hstep_h early st src (HOp (Collect (map (as_colref Nm) (pool_get V Nm st a)) lim))) as K.
    destruct (via_hstep early st src _) as [st1 x]. cbn [fst a_h] in *. rewrite K. now apply hstep_keeps.
  - pose proof (via_hstep_h early st src (HOp (GetItem (map (as_colref Nm) (pool_get V Nm st a))))) as K.
    destruct (via_hstep early st src _) as [st1 x]. cbn [fst a_h] in *. rewrite K. now apply hstep_keeps.
  - destruct (all_some _); [|exact H]. rewrite via_hstep_h. now apply hstep_keeps.
  - rewrite via_hstep_h. now apply hstep_keeps.
  - rewrite via_hstep_h. now apply hstep_keeps.
  - specialize (Hnot r eq_refl).
    destruct (nth_error (henv (a_h st)) (Nat.modulo src (length (henv (a_h st))))) as [fr|] eqn:E; [|exact H].
    destruct (kind (hsch fr)); [|exact H]. destruct (hrows fr) as [l0|g|l0]; [|exact H|exact H].
    cbn [fst a_h henv]. unfold set_rows. rewrite E. now rewrite nth_error_upd_neq.
  - exact H.
Qed.

Lemma astep_append (early copy : bool) (st : astate) (src i : nat) (sc : schema Nm) (l : list row) (r : row) :
  Nat.modulo src (length (henv (a_h st))) = i ->
  nth_error (henv (a_h st)) i = Some (mkH sc (RL l)) -> kind sc = Untyped ->
  astep early copy st (mkAStep src (AAppend r)) =
  (mkAS (mkHS (upd i (mkH sc (RL (l ++ [r]))) (henv (a_h st))) (hheap (a_h st))) (a_pool st), AOut (HNew [])).
Proof.
  intros Hi H Hk. subst i. unfold C03_Heap.astep. cbn [a_src a_op]. rewrite H. cbn [hsch hrows]. rewrite Hk.
  now rewrite (set_rows_at V Nm _ _ _ _ _ H).
Qed.

Lemma arun_keeps_lists (early copy : bool) (prog : list (astepd V Nm)) :
  forall (st : astate) (j : nat) (sc : schema Nm) (l : list row),
  nth_error (henv (a_h st)) j = Some (mkH sc (RL l)) ->
  (forall s r, In s prog -> a_op s <> AAppend r) ->
  nth_error (henv (a_h (fst (arun early copy st prog)))) j = Some (mkH sc (RL l)).
Proof.
  induction prog as [|s r IH]; intros st j sc l H Hno; [exact H|].
  cbn [C03_Heap.arun].
  assert (K : nth_error (henv (a_h (fst (astep early copy st s)))) j = Some (mkH sc (RL l))).
  { apply astep_keeps_lists; [exact H|]. intros r0 E. exfalso. exact (Hno s r0 (or_introl eq_refl) E). }
  destruct (astep early copy st s) as [st1 o]. cbn [fst] in K.
  specialize (IH st1 j sc l K (fun s0 r0 Hin => Hno s0 r0 (or_intror Hin))).
  destruct (arun early copy st1 r) as [st2 os]. exact IH.
Qed.

End ArgsProofs.
