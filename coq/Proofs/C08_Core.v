(* C08 - the positional stage: index-free form, exceptions, shape. *)
From Coq Require Import List ZArith NArith Bool Lia ZifyBool.
From Orso Require Import Base.Civil Gen.C08_Tables Model.C08 Proofs.C08_Str Proofs.C08_Strip.
Import ListNotations.
Open Scope Z_scope.

Definition at_ (v : list N) (i : nat) (c : N) : bool := N.eqb (nth i v 0%N) c.

(* parse_core without the IndexError plumbing *)
Definition core_pure (v : list N) : result (option dt) :=
  if negb (at_ v 4 cDash) || negb (at_ v 7 cDash) then Ok None else
  if zlen v =? 10 then fields_date v
  else if 16 <=? zlen v then
    if negb (at_ v 10 cT || at_ v 10 cSp) && negb (at_ v 13 cColon) then Ok None else
    if (19 <=? zlen v) && at_ v 16 cColon then fields_seconds v
    else if zlen v =? 16 then fields_minutes v else Ok None
  else Ok None.

Lemma parse_core_pure v : 9 <= zlen v -> parse_core v = core_pure v.
Proof.
  intros Hl. unfold parse_core, core_pure, chr_isnt, chr_is, at_.
  rewrite (py_idx_ok v 4), (py_idx_ok v 7) by lia.
  change (Z.to_nat 4) with 4%nat. change (Z.to_nat 7) with 7%nat. cbn [bind ror].
  destruct (N.eqb (nth 4 v 0%N) cDash); cbn [negb ror orb]; [|reflexivity].
  destruct (N.eqb (nth 7 v 0%N) cDash); cbn [negb]; [|reflexivity].
  destruct (zlen v =? 10) eqn:E10; [reflexivity|].
  destruct (16 <=? zlen v) eqn:E16; [|reflexivity].
  rewrite (py_idx_ok v 10), (py_idx_ok v 13) by lia.
  change (Z.to_nat 10) with 10%nat. change (Z.to_nat 13) with 13%nat. cbn [bind rand].
  destruct (N.eqb (nth 10 v 0%N) cT || N.eqb (nth 10 v 0%N) cSp); cbn [negb rand andb].
  - destruct (19 <=? zlen v) eqn:E19; cbn [rand bind andb]; [|reflexivity].
    rewrite (py_idx_ok v 16) by lia. change (Z.to_nat 16) with 16%nat. cbn [bind]. reflexivity.
  - destruct (N.eqb (nth 13 v 0%N) cColon); cbn [negb]; [|reflexivity].
    destruct (19 <=? zlen v) eqn:E19; cbn [rand bind andb]; [|reflexivity].
    rewrite (py_idx_ok v 16) by lia. change (Z.to_nat 16) with 16%nat. cbn [bind]. reflexivity.
Qed.

(* strip_offset never raises: the guards keep every index inside the value *)
Definition strip_offset_pure (v : list N) : option (list N) :=
  if existsb (N.eqb cPlus) v then
    let p := take_until cPlus v in
    if (10 <=? zlen p) && (zlen p <=? 28) then Some p else None
  else if (16 <? zlen v) && at_ v (Z.to_nat (zlen v - 6)) cDash && at_ v (Z.to_nat (zlen v - 3)) cColon
       then Some (drop_last v 6)
  else if (16 <? zlen v) && at_ v (Z.to_nat (zlen v - 5)) cDash
          && str_isdigit (filter (fun x => negb (N.eqb x cDash)) (take_last v 5))
       then Some (drop_last v 5)
  else Some v.

Lemma strip_offset_eq v : strip_offset v = Ok (strip_offset_pure v).
Proof.
  unfold strip_offset, strip_offset_pure, chr_is, at_.
  destruct (existsb (N.eqb cPlus) v); [destruct ((10 <=? zlen (take_until cPlus v)) && (zlen (take_until cPlus v) <=? 28)); reflexivity|].
  destruct (16 <? zlen v) eqn:E; cbn [rand bind andb]; [|reflexivity].
  rewrite !py_idx_negp by lia. cbn [bind rand].
  destruct (N.eqb (nth (Z.to_nat (zlen v - 6)) v 0%N) cDash); cbn [rand bind andb].
  - destruct (N.eqb (nth (Z.to_nat (zlen v - 3)) v 0%N) cColon); cbn [bind]; [reflexivity|].
    destruct (N.eqb (nth (Z.to_nat (zlen v - 5)) v 0%N) cDash); cbn [rand bind andb]; [|reflexivity].
    destruct (str_isdigit _); reflexivity.
  - destruct (N.eqb (nth (Z.to_nat (zlen v - 5)) v 0%N) cDash); cbn [rand bind andb]; [|reflexivity].
    destruct (str_isdigit _); reflexivity.
Qed.

Lemma zlen_drop_last v k : 0 <= k <= zlen v -> zlen (drop_last v k) = zlen v - k.
Proof. intros H. unfold drop_last, zlen in *. rewrite firstn_length. lia. Qed.

Lemma strip_offset_pure_len v w : 9 <= zlen v -> strip_offset_pure v = Some w -> 9 <= zlen w <= zlen v.
Proof.
  intros Hl. unfold strip_offset_pure.
  destruct (existsb (N.eqb cPlus) v).
  { destruct ((10 <=? zlen (take_until cPlus v)) && (zlen (take_until cPlus v) <=? 28)) eqn:E; [|discriminate].
    intros [= <-]. split; [lia|].
    clear. induction v as [|x v IH]; cbn [take_until]; [lia|].
    destruct (N.eqb x cPlus); rewrite ?zlen_cons, ?zlen_nil; pose proof (zlen_nonneg v); lia. }
  destruct (16 <? zlen v) eqn:E; cbn [andb].
  - destruct (at_ v (Z.to_nat (zlen v - 6)) cDash && at_ v (Z.to_nat (zlen v - 3)) cColon).
    { intros [= <-]. rewrite zlen_drop_last; lia. }
    destruct (at_ v (Z.to_nat (zlen v - 5)) cDash && str_isdigit _).
    { intros [= <-]. rewrite zlen_drop_last; lia. }
    intros [= <-]. lia.
  - intros [= <-]. lia.
Qed.

Lemma strip_suffix_total v0 : 10 <= zlen v0 ->
  exists r, strip_suffix v0 = Ok r /\ (forall w, r = Some w -> 9 <= zlen w <= zlen v0).
Proof.
  intros Hl. unfold strip_suffix, chr_is. rewrite (py_idx_negp v0 1) by lia. cbn [bind].
  rewrite strip_offset_eq. eexists. split; [reflexivity|]. intros w Hw.
  destruct (N.eqb _ cZ).
  - apply strip_offset_pure_len in Hw; rewrite zlen_drop_last in * by lia; lia.
  - apply strip_offset_pure_len in Hw; lia.
Qed.

(* ---- exceptions ---- *)
Definition only_ve {A} (r : result A) : Prop := forall e, r = Raise e -> e = ValueError.

Lemma only_ve_ok {A} (a : A) : only_ve (Ok a). Proof. intros e; discriminate. Qed.
Lemma only_ve_bind {A B} (r : result A) (f : A -> result B) :
  only_ve r -> (forall a, only_ve (f a)) -> only_ve (bind r f).
Proof. intros Hr Hf e. destruct r as [a|e']; cbn [bind]; [apply Hf|intros [= <-]; now apply Hr]. Qed.
Lemma only_ve_py_int s : only_ve (py_int s). Proof. intros e. apply py_int_raises. Qed.
Lemma only_ve_mk y m d h mi s : only_ve (mk_datetime y m d h mi s).
Proof. intros e. unfold mk_datetime. destruct (_ && _); [discriminate|now intros [= <-]]. Qed.

Ltac ve := repeat first [apply only_ve_ok | apply only_ve_py_int | apply only_ve_mk | (apply only_ve_bind; [|intros ?])].

Lemma only_ve_fields_date v : only_ve (fields_date v). Proof. unfold fields_date. ve. Qed.
Lemma only_ve_fields_minutes v : only_ve (fields_minutes v). Proof. unfold fields_minutes. ve. Qed.
Lemma only_ve_fields_seconds v : only_ve (fields_seconds v). Proof. unfold fields_seconds. ve. Qed.

Lemma only_ve_core_pure v : only_ve (core_pure v).
Proof.
  unfold core_pure.
  repeat match goal with |- only_ve (if ?b then _ else _) => destruct b end;
  first [apply only_ve_ok | apply only_ve_fields_date | apply only_ve_fields_minutes | apply only_ve_fields_seconds].
Qed.

Lemma only_ve_parse_text v0 : only_ve (parse_text v0).
Proof.
  unfold parse_text. destruct ((10 <=? zlen v0) && (zlen v0 <=? 33)) eqn:E; [|apply only_ve_ok].
  destruct (strip_suffix_total v0 ltac:(lia)) as (r & Hr & Hlen). rewrite Hr. cbn [bind].
  destruct r as [w|]; [|apply only_ve_ok].
  rewrite parse_core_pure by (specialize (Hlen w eq_refl); lia). apply only_ve_core_pure.
Qed.

(* ---- a date or nothing: what a Some result implies ---- *)
Lemma mk_datetime_ok y m d h mi s t : mk_datetime y m d h mi s = Ok t ->
  t = (y, m, d, h, mi, s, 0) /\ valid_date y m d = true /\ valid_time h mi s = true.
Proof.
  unfold mk_datetime, valid_date, valid_time. destruct (_ && _) eqn:E; [|discriminate].
  intros [= <-]. split; [reflexivity|]. lia.
Qed.


Lemma bind_ok {A B} (r : result A) (f : A -> result B) b :
  bind r f = Ok b -> exists a, r = Ok a /\ f a = Ok b.
Proof. destruct r as [a|e]; cbn [bind]; [eauto|discriminate]. Qed.

Ltac inv_binds H :=
  repeat match type of H with
  | bind _ _ = Ok _ => let a := fresh "a" in let Ha := fresh "Ha" in
      apply bind_ok in H; destruct H as (a & Ha & H)
  end.

Lemma fields_date_some v t : fields_date v = Ok (Some t) -> valid_dt t = true.
Proof.
  unfold fields_date. intros H. inv_binds H. injection H as <-.
  apply mk_datetime_ok in Ha2. destruct Ha2 as (-> & Hd & Ht). unfold valid_dt. now rewrite Hd, Ht.
Qed.
Lemma fields_minutes_some v t : fields_minutes v = Ok (Some t) -> valid_dt t = true.
Proof.
  unfold fields_minutes. intros H. inv_binds H. injection H as <-.
  apply mk_datetime_ok in Ha4. destruct Ha4 as (-> & Hd & Ht). unfold valid_dt. now rewrite Hd, Ht.
Qed.
Lemma fields_seconds_some v t : fields_seconds v = Ok (Some t) -> valid_dt t = true.
Proof.
  unfold fields_seconds. intros H. inv_binds H. injection H as <-.
  apply mk_datetime_ok in Ha5. destruct Ha5 as (-> & Hd & Ht). unfold valid_dt. now rewrite Hd, Ht.
Qed.

Lemma core_pure_some v t : core_pure v = Ok (Some t) -> shape_ok v = true /\ valid_dt t = true.
Proof.
  unfold core_pure, shape_ok, at_.
  destruct (N.eqb (nth 4 v 0%N) cDash); cbn [negb orb andb]; [|discriminate].
  destruct (N.eqb (nth 7 v 0%N) cDash); cbn [negb orb andb]; [|discriminate].
  destruct (zlen v =? 10) eqn:E10; cbn [orb]; [intros H; split; [reflexivity|now apply fields_date_some in H]|].
  destruct (16 <=? zlen v) eqn:E16; [|discriminate].
  destruct (N.eqb (nth 10 v 0%N) cT || N.eqb (nth 10 v 0%N) cSp) eqn:E; cbn [negb andb orb].
  - destruct ((19 <=? zlen v) && N.eqb (nth 16 v 0%N) cColon) eqn:E19.
    + intros H. apply fields_seconds_some in H. split; [|assumption]. now rewrite orb_true_r.
    + destruct (zlen v =? 16); [|discriminate]. intros H. apply fields_minutes_some in H. now split.
  - destruct (N.eqb (nth 13 v 0%N) cColon); cbn [negb]; [|discriminate].
    destruct ((19 <=? zlen v) && N.eqb (nth 16 v 0%N) cColon) eqn:E19.
    + intros H. apply fields_seconds_some in H. split; [|assumption]. now rewrite orb_true_r.
    + destruct (zlen v =? 16); [|discriminate]. intros H. apply fields_minutes_some in H. now split.
Qed.

Lemma parse_text_some v0 t : parse_text v0 = Ok (Some t) ->
  10 <= zlen v0 <= 33 /\ exists v, strip_suffix v0 = Ok (Some v) /\ shape_ok v = true /\ valid_dt t = true.
Proof.
  unfold parse_text. destruct ((10 <=? zlen v0) && (zlen v0 <=? 33)) eqn:E; [|discriminate].
  destruct (strip_suffix_total v0 ltac:(lia)) as (r & Hr & Hlen). rewrite Hr. cbn [bind].
  destruct r as [w|]; [|discriminate].
  rewrite parse_core_pure by (specialize (Hlen w eq_refl); lia). intros H.
  apply core_pure_some in H. split; [lia|]. exists w. tauto.
Qed.
