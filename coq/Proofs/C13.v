(* C13 - the histogram invariant, proved for an ARBITRARY arithmetic.

   The model of Model/C13.v is instantiated here with exact comparisons on Q but with
   completely unconstrained functions in place of +, -, *, / and int->number (section
   variables without any hypothesis).  Everything proved in this section therefore holds
   whatever the arithmetic computes - binary64, longdouble or exact - as long as values
   are compared exactly, which is what the code does.  Order, capacity, positivity of the
   counts, conservation of mass, exact bounds, "every centre within the bounds" and "no
   Python exception is reachable" are all of this kind.  (The mean is not: see C13_mean.v.) *)
From Coq Require Import QArith Lqa ZArith List Bool Lia Sorted Arith.
From Orso Require Import Model.C13 Model.C13_Q Proofs.C13_lists.
Import ListNotations.
Open Scope Q_scope.

Lemma Qltb_spec a b : reflect (a < b) (Qltb a b).
Proof.
  unfold Qltb. destruct (Qle_bool b a) eqn:E; cbn [negb]; constructor.
  - apply Qle_bool_iff in E. lra.
  - destruct (Qlt_le_dec a b) as [H|H]; [exact H|]. apply Qle_bool_iff in H. congruence.
Qed.
Lemma Qleb_spec a b : reflect (a <= b) (Qle_bool a b).
Proof.
  destruct (Qle_bool a b) eqn:E; constructor.
  - now apply Qle_bool_iff.
  - intros H. apply Qle_bool_iff in H. congruence.
Qed.
Lemma Qeqb_spec a b : reflect (a == b) (Qeq_bool a b).
Proof.
  destruct (Qeq_bool a b) eqn:E; constructor.
  - now apply Qeq_bool_iff.
  - intros H. apply Qeq_bool_iff in H. congruence.
Qed.

Ltac ulia := lia.

Section AnyArith.
Variables (fadd fsub fmul fdiv : Q -> Q -> Q) (fofZ : Z -> Q) (ftrunc : Q -> Z).
Definition AA : arith Q := mkArith Q fadd fsub fmul fdiv fofZ Qltb Qle_bool Qeq_bool ftrunc.

Notation st := (@st Q).
Notation bin := (Q * Z)%type.

(* An additive measure of a bin list that the three ways of changing bins respect: adding to
   the count of an equal centre, merging two adjacent bins into their (clamped) centroid,
   and merging a new value into a bin in place.  Instances: the total count (any arithmetic)
   and the first moment sum(v * f) (exact arithmetic; see Proofs/C13_mean.v). *)
Variable mu : list bin -> Q.
Hypothesis mu_app : forall l1 l2, mu (l1 ++ l2) == mu l1 + mu l2.
Hypothesis mu_hit : forall vi fi v c, vi == v -> mu [(vi, (fi + c)%Z)] == mu [(vi, fi)] + mu [(v, c)].
Hypothesis mu_merge : forall v1 f1 v2 f2, v1 < v2 -> (1 <= f1)%Z -> (1 <= f2)%Z ->
  mu [(pmin AA (pmax AA (centroid AA v1 f1 v2 f2) v1) v2, (f1 + f2)%Z)] == mu [(v1, f1)] + mu [(v2, f2)].
Hypothesis mu_inplace : forall cv cf v c, ~ cv == v -> (1 <= cf)%Z -> (1 <= c)%Z ->
  mu [(pmin AA (pmax AA (centroid AA cv cf v c) (pmin AA cv v)) (pmax AA cv v), (cf + c)%Z)] == mu [(cv, cf)] + mu [(v, c)].

Lemma mu_mid l1 x l2 : mu (l1 ++ x :: l2) == mu l1 + mu [x] + mu l2.
Proof. rewrite mu_app. change (x :: l2) with ([x] ++ l2). rewrite mu_app. ring. Qed.
Lemma mu_mid2 l1 x y l2 : mu (l1 ++ x :: y :: l2) == mu l1 + mu [x] + mu [y] + mu l2.
Proof. rewrite mu_mid. change (y :: l2) with ([y] ++ l2). rewrite mu_app. ring. Qed.

(* ---------- Python min / max and the clamp ---------- *)
Lemma pmin_cases a b : (b < a /\ pmin AA a b = b) \/ (a <= b /\ pmin AA a b = a).
Proof. unfold pmin; cbn. destruct (Qltb_spec b a); [left|right]; split; auto; lra. Qed.
Lemma pmax_cases a b : (a < b /\ pmax AA a b = b) \/ (b <= a /\ pmax AA a b = a).
Proof. unfold pmax; cbn. destruct (Qltb_spec a b); [left|right]; split; auto; lra. Qed.

Lemma clamp_between x lo hi : lo <= hi -> lo <= pmin AA (pmax AA x lo) hi <= hi.
Proof.
  intros H. destruct (pmax_cases x lo) as [[H1 ->]|[H1 ->]];
    [destruct (pmin_cases lo hi) as [[H2 ->]|[H2 ->]]|destruct (pmin_cases x hi) as [[H2 ->]|[H2 ->]]]; lra.
Qed.

(* ---------- invariants ---------- *)
Definition sorted (l : list bin) : Prop := ssorted Qlt l.
Definition pos_counts (l : list bin) : Prop := Forall (fun b => (1 <= snd b)%Z) l.
Definition within (mn mx : Q) (l : list bin) : Prop := Forall (fun b => mn <= fst b <= mx) l.
Definition mass (l : list bin) : Z := fold_right (fun b a => (snd b + a)%Z) 0%Z l.

Definition InE (m : Q) (d : list Q) : Prop := exists p x, nth_error d p = Some x /\ x == m.

Definition md_ok (md : @ext Q) (d : list Q) : Prop :=
  match md with Inf => d = [] | Fin m => InE m d end.

Definition cache_ok (s : st) : Prop :=
  match diffs s with
  | None => True
  | Some d => bins s <> [] /\ length d = (length (bins s) - 1)%nat /\ md_ok (min_diff s) d
  end.

Definition bounds_ok (s : st) : Prop :=
  match bins s with
  | [] => hmin s = None /\ hmax s = None
  | _ => exists mn mx, hmin s = Some mn /\ hmax s = Some mx /\ within mn mx (bins s)
  end.

Definition Inv (s : st) : Prop :=
  sorted (bins s) /\ pos_counts (bins s) /\ (length (bins s) <= cap s)%nat /\ (2 <= cap s)%nat /\
  cache_ok s /\ bounds_ok s.

Lemma mass_app l1 l2 : mass (l1 ++ l2) = (mass l1 + mass l2)%Z.
Proof. induction l1 as [|b l1 IH]; cbn; [reflexivity|]. unfold mass in *. cbn. rewrite IH. ulia. Qed.

Lemma count_is_mass (s : st) : count s = mass (bins s).
Proof. reflexivity. Qed.

(* ---------- membership in the gap cache ---------- *)
Lemma InE_set_same d p g : (p < length d)%nat -> InE g (set_at p g d).
Proof. intros H. exists p, g. split; [now apply nth_error_set_at_same|reflexivity]. Qed.

Lemma InE_set_other d p g m :
  InE m d -> (forall x, nth_error d p = Some x -> Qeq_bool x m = false) -> InE m (set_at p g d).
Proof.
  intros (q & x & Hq & Hx) Hp. destruct (Nat.eq_dec p q) as [->|Hne].
  - specialize (Hp x Hq). apply Qeq_bool_iff in Hx. congruence.
  - exists q, x. split; [now rewrite nth_error_set_at_other|exact Hx].
Qed.

Lemma lmin_from_In m0 l : lmin_from AA m0 l = m0 \/ In (lmin_from AA m0 l) l.
Proof.
  revert m0; induction l as [|x t IH]; intros m0; cbn [lmin_from]; [now left|].
  destruct (IH (if ltb AA x m0 then x else m0)) as [H|H].
  - rewrite H. destruct (ltb AA x m0); [right; now left|now left].
  - right; now right.
Qed.

Lemma lmin_InE d m : lmin AA d = Some m -> InE m d.
Proof.
  destruct d as [|x t]; cbn [lmin]; [discriminate|]. intros H; inversion H; subst; clear H.
  destruct (lmin_from_In x t) as [->|Hin].
  - exists 0%nat, x. split; [reflexivity|reflexivity].
  - apply In_nth_error in Hin as [p Hp]. exists (S p), (lmin_from AA x t). split; [exact Hp|reflexivity].
Qed.

Lemma lmin_some d : d <> [] -> exists m, lmin AA d = Some m.
Proof. destruct d; [congruence|]. cbn. eauto. Qed.

Lemma index_of_InE m d : InE m d -> exists i, index_of AA m d = Some i /\ (i < length d)%nat.
Proof.
  intros (p & x & Hp & Hx). revert p Hp. induction d as [|y t IH]; intros p Hp; [destruct p; discriminate|].
  cbn [index_of]. cbn [eqb AA]. destruct (Qeq_bool y m) eqn:E.
  - exists 0%nat. split; [reflexivity|cbn; ulia].
  - destruct p as [|p].
    + cbn in Hp. inversion Hp; subst. apply Qeq_bool_iff in Hx. congruence.
    + destruct (IH p Hp) as (i & Hi & Hl). exists (S i). rewrite Hi. split; [reflexivity|cbn; ulia].
Qed.

(* ---------- _update_diffs ---------- *)
Lemma step_member d md p g x :
  nth_error d p = Some x -> (md_ok md d \/ md = Inf) -> eq_ext AA x md = false ->
  md_ok (if lt_ext AA g md then Fin g else md) (set_at p g d).
Proof.
  intros Hp Hm Hx. pose proof (nth_error_Some_lt _ _ _ Hp) as Hlt.
  destruct md as [|m]; cbn in *.
  - now apply InE_set_same.
  - destruct Hm as [Hm|Hm]; [|discriminate].
    destruct (Qltb g m); cbn.
    + now apply InE_set_same.
    + apply InE_set_other; [exact Hm|]. intros y Hy. rewrite Hp in Hy. now inversion Hy; subst.
Qed.

Definition md_pre (s : st) (d : list Q) : Prop :=
  md_ok (min_diff s) d \/ (min_diff s = Inf /\ (2 <= length (bins s))%nat).

Lemma finish_ud (s : st) dF mdF (upd : bool) (P : Prop) :
  (upd = true -> dF <> []) -> (upd = false -> P -> md_ok mdF dF) ->
  exists d' md',
    (if upd then bind (lmin AA dF) (fun m => Some (with_cache s (Some dF) (Fin m)))
     else Some (with_cache s (Some dF) mdF)) = Some (with_cache s (Some d') md') /\
    length d' = length dF /\ (P -> md_ok md' d').
Proof.
  intros Hne Hok. destruct upd.
  - destruct (lmin_some dF (Hne eq_refl)) as [m Hm]. rewrite Hm. cbn [bind].
    exists dF, (Fin m). repeat split. intros _. cbn. now apply lmin_InE.
  - exists dF, mdF. repeat split. now apply Hok.
Qed.

(* With a cache of the right length and an index inside the bins, _update_diffs completes,
   touches nothing but the cache, keeps the cache's length, and keeps "min_diff is one of
   the cached gaps" when that held before (or re-establishes it from scratch). *)
Lemma update_diffs_ok (s : st) (i : nat) (d : list Q) :
  diffs s = Some d -> length d = (length (bins s) - 1)%nat -> (i < length (bins s))%nat ->
  exists d' md', update_diffs AA s i = Some (with_cache s (Some d') md') /\
                 length d' = length d /\
                 (md_pre s d -> md_ok md' d').
Proof.
  intros Hd Hlen Hi. unfold update_diffs. rewrite Hd.
  assert (PRE : md_pre s d -> md_ok (min_diff s) d \/ min_diff s = Inf) by (intros [H|[H _]]; auto).
  destruct (Nat.ltb 0 i) eqn:E0.
  - apply Nat.ltb_lt in E0.
    destruct (nth_error_lt_Some d (i - 1) ltac:(ulia)) as [x1 Hx1].
    destruct (nth_error_lt_Some (bins s) i Hi) as [bi Hbi].
    destruct (nth_error_lt_Some (bins s) (i - 1) ltac:(ulia)) as [bj Hbj].
    rewrite Hx1, Hbi, Hbj. cbn [bind].
    set (g1 := sub AA (fst bi) (fst bj)).
    set (d1 := set_at (i - 1) g1 d).
    set (md1 := if lt_ext AA g1 (min_diff s) then Fin g1 else min_diff s).
    assert (L1 : length d1 = length d) by apply set_at_length.
    destruct (Nat.ltb (S i) (length (bins s))) eqn:E1.
    + apply Nat.ltb_lt in E1.
      destruct (nth_error_lt_Some d1 i ltac:(ulia)) as [x2 Hx2].
      destruct (nth_error_lt_Some (bins s) (S i) E1) as [bk Hbk].
      rewrite Hx2, Hbk. cbn [bind].
      set (g2 := sub AA (fst bk) (fst bi)).
      destruct (finish_ud s (set_at i g2 d1) (if lt_ext AA g2 md1 then Fin g2 else md1)
                  (eq_ext AA x1 (min_diff s) || eq_ext AA x2 md1) (md_pre s d)) as (d' & md' & H1 & H2 & H3).
      * intros _ Hn. apply (f_equal (@length Q)) in Hn. rewrite set_at_length in Hn. cbn in Hn. ulia.
      * intros Hu Hm. apply orb_false_iff in Hu as [Hu1 Hu2].
        apply (step_member d1 md1 i g2 x2 Hx2); [left|exact Hu2].
        apply (step_member d (min_diff s) (i - 1) g1 x1 Hx1); auto.
      * exists d', md'. rewrite set_at_length in H2. repeat split; auto. ulia.
    + destruct (finish_ud s d1 md1 (eq_ext AA x1 (min_diff s)) (md_pre s d)) as (d' & md' & H1 & H2 & H3).
      * intros _ Hn. apply (f_equal (@length Q)) in Hn. cbn in Hn. ulia.
      * intros Hu Hm. apply (step_member d (min_diff s) (i - 1) g1 x1 Hx1); auto.
      * exists d', md'. repeat split; auto. ulia.
  - cbn [bind]. destruct (Nat.ltb (S i) (length (bins s))) eqn:E1.
    + apply Nat.ltb_lt in E1.
      destruct (nth_error_lt_Some d i ltac:(ulia)) as [x2 Hx2].
      destruct (nth_error_lt_Some (bins s) i Hi) as [bi Hbi].
      destruct (nth_error_lt_Some (bins s) (S i) E1) as [bk Hbk].
      rewrite Hx2, Hbi, Hbk. cbn [bind].
      set (g2 := sub AA (fst bk) (fst bi)).
      destruct (finish_ud s (set_at i g2 d) (if lt_ext AA g2 (min_diff s) then Fin g2 else min_diff s)
                  (false || eq_ext AA x2 (min_diff s)) (md_pre s d)) as (d' & md' & H1 & H2 & H3).
      * intros _ Hn. apply (f_equal (@length Q)) in Hn. rewrite set_at_length in Hn. cbn in Hn. ulia.
      * cbn [orb]. intros Hu Hm. apply (step_member d (min_diff s) i g2 x2 Hx2); auto.
      * exists d', md'. rewrite set_at_length in H2. repeat split; auto.
    + apply Nat.ltb_ge in E0, E1.
      destruct (finish_ud s d (min_diff s) false (md_pre s d)) as (d' & md' & H1 & H2 & H3).
      * discriminate.
      * intros _ [Hm|[_ Hm]]; [exact Hm|ulia].
      * exists d', md'. repeat split; auto.
Qed.

(* ---------- _trim ---------- *)
Lemma gaps_length (b : list bin) : length (gaps AA b) = (length b - 1)%nat.
Proof.
  induction b as [|[v1 f1] t IH]; [reflexivity|]. destruct t as [|[v2 f2] t']; [reflexivity|].
  change (gaps AA ((v1, f1) :: (v2, f2) :: t')) with (sub AA v2 v1 :: gaps AA ((v2, f2) :: t')).
  cbn [length] in *. rewrite IH. ulia.
Qed.

Lemma argmin_from_lt l : forall bi bm i, (bi < i)%nat -> (argmin_from AA bi bm i l < i + length l)%nat.
Proof.
  induction l as [|x t IH]; intros bi bm i H; cbn [argmin_from length]; [ulia|].
  destruct (ltb AA x bm).
  - specialize (IH i x (S i) ltac:(ulia)). ulia.
  - specialize (IH bi bm (S i) ltac:(ulia)). ulia.
Qed.

Lemma argmin_ok l : l <> [] -> exists i, argmin AA l = Some i /\ (i < length l)%nat.
Proof.
  destruct l as [|x t]; [congruence|]. intros _. cbn [argmin]. eexists; split; [reflexivity|].
  pose proof (argmin_from_lt t 0%nat x 1%nat ltac:(ulia)). cbn [length]. ulia.
Qed.

Lemma split_two (l : list bin) i b1 b2 :
  nth_error l i = Some b1 -> nth_error l (S i) = Some b2 ->
  exists l1 l2, l = l1 ++ b1 :: b2 :: l2 /\ length l1 = i.
Proof.
  intros H1 H2. destruct (split_at l i b1 H1) as (l1 & r & -> & Hl). exists l1.
  destruct r as [|b r].
  - exfalso. assert (S i < length (l1 ++ [b1]))%nat by (apply nth_error_Some; congruence).
    rewrite app_length in H; cbn in H. ulia.
  - exists r. split; [|exact Hl]. rewrite <- Hl in H2. rewrite nth_error_mid_S in H2. now inversion H2.
Qed.

Lemma sorted_inv_mid (l1 l2 : list bin) b1 b2 :
  sorted (l1 ++ b1 :: b2 :: l2) ->
  fst b1 < fst b2 /\ sorted (l1 ++ l2) /\
  (forall a, In a l1 -> fst a < fst b1) /\ (forall b, In b l2 -> fst b2 < fst b).
Proof.
  intros H. pose proof H as H0. apply ssorted_app in H as (S1 & S2 & C).
  apply ssorted_cons in S2 as [S2 C1]. apply ssorted_cons in S2 as [S2 C2].
  repeat split.
  - apply (C1 b2). now left.
  - apply ssorted_app. repeat split; auto. intros a b Ia Ib. apply C; auto. right; now right.
  - intros a Ia. apply (C a b1 Ia). now left.
  - intros b Ib. now apply C2.
Qed.

Lemma Qlt_trans' a b c : a < b -> b < c -> a < c.
Proof. intros; lra. Qed.

Lemma sorted_put_mid (l1 l2 : list bin) (m : bin) :
  sorted (l1 ++ l2) -> (forall a, In a l1 -> fst a < fst m) -> (forall b, In b l2 -> fst m < fst b) ->
  sorted (l1 ++ m :: l2).
Proof. intros. apply ssorted_mid; auto. Qed.

Lemma within_app mn mx l1 l2 : within mn mx (l1 ++ l2) <-> within mn mx l1 /\ within mn mx l2.
Proof. unfold within. apply Forall_app. Qed.

Lemma pos_app l1 l2 : pos_counts (l1 ++ l2) <-> pos_counts l1 /\ pos_counts l2.
Proof. unfold pos_counts. apply Forall_app. Qed.

Definition same_frame (s s' : st) : Prop := hmin s' = hmin s /\ hmax s' = hmax s /\ cap s' = cap s.

Lemma trim_step_ok (s : st) :
  sorted (bins s) -> pos_counts (bins s) -> cache_ok s ->
  (cap s < length (bins s))%nat -> (2 <= cap s)%nat ->
  exists s', trim_step AA s = Some s' /\
    sorted (bins s') /\ pos_counts (bins s') /\ cache_ok s' /\
    length (bins s') = (length (bins s) - 1)%nat /\ mass (bins s') = mass (bins s) /\
    same_frame s s' /\ (forall mn mx, within mn mx (bins s) -> within mn mx (bins s')) /\
    mu (bins s') == mu (bins s).
Proof.
  intros Hs Hp Hc Hlen Hcap. unfold trim_step.
  (* the index of the pair to merge is inside the bins *)
  assert (Hi : exists i, match diffs s with
                          | Some d => match min_diff s with Fin m => index_of AA m d | Inf => None end
                          | None => argmin AA (gaps AA (bins s)) end = Some i /\ (S i < length (bins s))%nat).
  { destruct (diffs s) as [d|] eqn:Ed.
    - unfold cache_ok in Hc. rewrite Ed in Hc. destruct Hc as (_ & Hl & Hm).
      destruct (min_diff s) as [|m]; cbn in Hm.
      + subst d. cbn in Hl. ulia.
      + destruct (index_of_InE m d Hm) as (i & Hi & Hlt). exists i. split; [exact Hi|ulia].
    - destruct (argmin_ok (gaps AA (bins s))) as (i & Hi & Hlt).
      + intros Hn. apply (f_equal (@length Q)) in Hn. rewrite gaps_length in Hn. cbn [length] in Hn. ulia.
      + rewrite gaps_length in Hlt. exists i. split; [exact Hi|ulia]. }
  destruct Hi as (i & Hi & Hlt). rewrite Hi. cbn [bind].
  destruct (nth_error_lt_Some (bins s) i ltac:(ulia)) as [[v1 f1] H1].
  destruct (nth_error_lt_Some (bins s) (S i) Hlt) as [[v2 f2] H2].
  rewrite H1, H2. cbn [bind].
  destruct (split_two _ _ _ _ H1 H2) as (l1 & l2 & Eb & Hl1).
  set (c := pmin AA (pmax AA (centroid AA v1 f1 v2 f2) v1) v2).
  assert (Eb' : set_at i (c, (f1 + f2)%Z) (remove_at (S i) (bins s)) = l1 ++ (c, (f1 + f2)%Z) :: l2).
  { rewrite Eb, <- Hl1. rewrite remove_at_split_S. apply set_at_split. }
  rewrite Eb'. rewrite Eb in Hs, Hp.
  destruct (sorted_inv_mid _ _ _ _ Hs) as (H12 & Hs' & Ha & Hb). cbn [fst] in *.
  assert (Hc12 : v1 <= c <= v2) by (apply clamp_between; lra).
  assert (Sorted' : sorted (l1 ++ (c, (f1 + f2)%Z) :: l2)).
  { apply sorted_put_mid; auto; cbn [fst]; intros x Hx; [specialize (Ha x Hx)|specialize (Hb x Hx)]; lra. }
  assert (Pos' : pos_counts (l1 ++ (c, (f1 + f2)%Z) :: l2)).
  { apply pos_app in Hp as [P1 P2]. inversion P2 as [|? ? Q1 P3]; subst. inversion P3 as [|? ? Q2 P4]; subst.
    apply pos_app. split; auto. constructor; auto. cbn [snd] in *. ulia. }
  assert (Mass' : mass (l1 ++ (c, (f1 + f2)%Z) :: l2) = mass (bins s)).
  { rewrite Eb, !mass_app. unfold mass. cbn [fold_right snd]. ulia. }
  assert (Mu' : mu (l1 ++ (c, (f1 + f2)%Z) :: l2) == mu (bins s)).
  { rewrite Eb, mu_mid, mu_mid2. unfold c. rewrite mu_merge; [ring|lra| |].
    - apply pos_app in Hp as [_ P2]. inversion P2; subst. auto.
    - apply pos_app in Hp as [_ P2]. inversion P2 as [|? ? _ P3]; subst. inversion P3; subst. auto. }
  assert (Len' : length (l1 ++ (c, (f1 + f2)%Z) :: l2) = (length (bins s) - 1)%nat).
  { rewrite Eb, !app_length. cbn [length]. ulia. }
  assert (Within' : forall mn mx, within mn mx (bins s) -> within mn mx (l1 ++ (c, (f1 + f2)%Z) :: l2)).
  { intros mn mx Hw. rewrite Eb in Hw. apply within_app in Hw as [W1 W2].
    inversion W2 as [|? ? Q1 W3]; subst. inversion W3 as [|? ? Q2 W4]; subst. cbn [fst] in *.
    apply within_app. split; auto. constructor; auto. cbn [fst]. lra. }
  destruct (diffs s) as [d|] eqn:Ed.
  - unfold cache_ok in Hc. rewrite Ed in Hc. destruct Hc as (_ & Hl & Hm).
    destruct (nth_error_lt_Some d i ltac:(ulia)) as [xi Hxi]. rewrite Hxi. cbn [bind].
    set (s1 := mkst (l1 ++ (c, (f1 + f2)%Z) :: l2) (hmin s) (hmax s) (Some (remove_at i d)) (min_diff s) (cap s)).
    destruct (update_diffs_ok s1 i (remove_at i d)) as (d2 & md2 & U1 & U2 & _).
    + reflexivity.
    + unfold s1; cbn [bins]. rewrite Len', remove_at_length by ulia. ulia.
    + unfold s1; cbn [bins]. rewrite Len'. ulia.
    + rewrite U1. cbn [bind with_cache diffs].
      rewrite remove_at_length in U2 by ulia.
      destruct (lmin_some d2) as [m Hm2].
      { intros Hn. subst d2. cbn in U2. ulia. }
      rewrite Hm2. cbn [bind]. eexists. split; [reflexivity|].
      unfold with_cache, s1; cbn [bins hmin hmax cap diffs min_diff]. repeat split; auto.
      unfold cache_ok. cbn [diffs bins min_diff]. repeat split.
      * simpl bins. destruct l1; discriminate.
      * simpl bins. rewrite Len'. ulia.
      * simpl min_diff. cbn [md_ok]. now apply lmin_InE.
  - eexists. split; [reflexivity|]. unfold with_bins. cbn [bins hmin hmax cap diffs].
    repeat split; auto. unfold cache_ok. cbn [diffs]. rewrite Ed. exact I.
Qed.

Lemma trim_ok (fuel : nat) : forall (s : st),
  sorted (bins s) -> pos_counts (bins s) -> cache_ok s -> (2 <= cap s)%nat ->
  (length (bins s) - cap s <= fuel)%nat ->
  exists s', trim AA fuel s = Some s' /\
    sorted (bins s') /\ pos_counts (bins s') /\ cache_ok s' /\
    (length (bins s') <= cap s')%nat /\ mass (bins s') = mass (bins s) /\
    same_frame s s' /\ (forall mn mx, within mn mx (bins s) -> within mn mx (bins s')) /\
    (bins s <> [] -> bins s' <> []) /\ mu (bins s') == mu (bins s).
Proof.
  induction fuel as [|k IH]; intros s Hs Hp Hc Hcap Hf; cbn [trim].
  - destruct (Nat.leb (length (bins s)) (cap s)) eqn:E.
    + apply Nat.leb_le in E. exists s. unfold same_frame. repeat split; auto; reflexivity.
    + apply Nat.leb_gt in E. ulia.
  - destruct (Nat.leb (length (bins s)) (cap s)) eqn:E.
    + apply Nat.leb_le in E. exists s. unfold same_frame. repeat split; auto; reflexivity.
    + apply Nat.leb_gt in E.
      destruct (trim_step_ok s Hs Hp Hc E Hcap) as (s1 & T & S1 & P1 & C1 & L1 & M1 & (F1 & F2 & F3) & W1 & Mu1).
      rewrite T. cbn [bind].
      destruct (IH s1 S1 P1 C1 ltac:(ulia) ltac:(ulia)) as (s' & T' & S' & P' & C' & L' & M' & (G1 & G2 & G3) & W' & N' & Mu').
      exists s'. split; [exact T'|]. unfold same_frame.
      assert (NN : bins s <> [] -> bins s' <> []).
      { intros _. apply N'. intros Hn. rewrite Hn in L1. cbn in L1. ulia. }
      assert (MM : mu (bins s') == mu (bins s)) by (rewrite Mu'; exact Mu1).
      repeat split; auto; try congruence.
Qed.

(* ---------- update ---------- *)
Definition upd_spec (s s' : st) (v : Q) (c : Z) : Prop :=
  Inv s' /\ mass (bins s') = (mass (bins s) + c)%Z /\ cap s' = cap s /\
  hmin s' = Some (match hmin s with Some m => pmin AA m v | None => v end) /\
  hmax s' = Some (match hmax s with Some m => pmax AA m v | None => v end) /\
  mu (bins s') == mu (bins s) + mu [(v, c)].

Lemma sorted_set_same_fst l1 l2 (x y : bin) :
  fst x == fst y -> sorted (l1 ++ x :: l2) -> sorted (l1 ++ y :: l2).
Proof.
  intros E H. apply ssorted_app in H as (S1 & S2 & C). apply ssorted_cons in S2 as [S2 Cx].
  apply ssorted_app. repeat split; auto.
  - apply ssorted_cons. split; auto. intros b Ib. specialize (Cx b Ib). unfold blt in *. lra.
  - intros a b Ia [<-|Ib].
    + specialize (C a x Ia (or_introl eq_refl)). unfold blt in *. lra.
    + apply C; auto. now right.
Qed.

Lemma InE_In m d : InE m d <-> exists y, In y d /\ y == m.
Proof.
  split.
  - intros (p & x & Hp & Hx). exists x. split; [eapply nth_error_In; eauto|exact Hx].
  - intros (y & Hy & Hx). apply In_nth_error in Hy as [p Hp]. now exists p, y.
Qed.

Lemma In_insert_at {X} (l : list X) p x y : In y l -> In y (insert_at p x l).
Proof.
  revert p; induction l as [|h t IH]; intros p H; [destruct H|].
  destruct p as [|p]; cbn [insert_at]; [now right|]. destruct H as [->|H]; [now left|right; now apply IH].
Qed.

Lemma InE_insert m d p x : InE m d -> InE m (insert_at p x d).
Proof. rewrite !InE_In. intros (y & Hy & E). exists y. split; [now apply In_insert_at|exact E]. Qed.

Lemma InE_app_l m d e : InE m d -> InE m (d ++ e).
Proof. rewrite !InE_In. intros (y & Hy & E). exists y. split; [apply in_or_app; now left|exact E]. Qed.

Lemma InE_app_last g d : InE g (d ++ [g]).
Proof. rewrite InE_In. exists g. split; [apply in_or_app; right; now left|reflexivity]. Qed.

Lemma bounds_nonempty (s : st) :
  bins s <> [] -> bounds_ok s ->
  exists mn mx, hmin s = Some mn /\ hmax s = Some mx /\ within mn mx (bins s).
Proof. unfold bounds_ok. destruct (bins s); [congruence|auto]. Qed.

Lemma bounds_intro (s : st) mn mx :
  bins s <> [] -> hmin s = Some mn -> hmax s = Some mx -> within mn mx (bins s) -> bounds_ok s.
Proof. unfold bounds_ok. destruct (bins s) eqn:E; [congruence|]. intros _ H1 H2 H3. now exists mn, mx. Qed.

Lemma hit_ok (s : st) pos vi fi v c :
  Inv s -> nth_error (bins s) pos = Some (vi, fi) -> vi == v -> (1 <= c)%Z ->
  upd_spec s (with_bins s (set_at pos (vi, (fi + c)%Z) (bins s))) v c.
Proof.
  intros (Hs & Hp & Hl & Hcap & Hc & Hb) Hn Ev Hc1.
  destruct (split_at _ _ _ Hn) as (l1 & l2 & Eb & Hl1).
  assert (E' : set_at pos (vi, (fi + c)%Z) (bins s) = l1 ++ (vi, (fi + c)%Z) :: l2).
  { rewrite Eb, <- Hl1. apply set_at_split. }
  destruct (bounds_nonempty s) as (mn & mx & Hmn & Hmx & Hw); auto.
  { rewrite Eb. destruct l1; discriminate. }
  set (s' := with_bins s (set_at pos (vi, (fi + c)%Z) (bins s))).
  assert (B' : bins s' = l1 ++ (vi, (fi + c)%Z) :: l2) by exact E'.
  rewrite Eb in Hs, Hp, Hl, Hw.
  apply within_app in Hw as [W1 W2]. inversion W2 as [|? ? Wv W3]; subst. cbn [fst] in Wv.
  apply pos_app in Hp as [P1 P2]. inversion P2 as [|? ? Pv P3]; subst. cbn [snd] in Pv.
  assert (A1 : sorted (bins s')).
  { rewrite B'. eapply sorted_set_same_fst; [|exact Hs]. reflexivity. }
  assert (A2 : pos_counts (bins s')).
  { rewrite B'. apply pos_app. split; auto. constructor; auto. cbn [snd]. ulia. }
  assert (A3 : (length (bins s') <= cap s')%nat).
  { rewrite B'. unfold s', with_bins; cbn [cap]. rewrite app_length in *. cbn [length] in *. ulia. }
  assert (A4 : cache_ok s').
  { unfold cache_ok in *. unfold s' at 1, with_bins at 1. cbn [diffs]. destruct (diffs s) as [d|]; auto.
    destruct Hc as (_ & Hd & Hm). rewrite Eb in Hd. rewrite B'. unfold s', with_bins; cbn [min_diff]. repeat split; auto.
    - destruct l1; discriminate.
    - rewrite app_length in *. cbn [length] in *. exact Hd. }
  assert (A5 : bounds_ok s').
  { unfold bounds_ok. rewrite B'. destruct (l1 ++ (vi, (fi + c)%Z) :: l2) eqn:E0; [destruct l1; discriminate|].
    rewrite <- E0. exists mn, mx. unfold s', with_bins; cbn [hmin hmax]. repeat split; auto.
    apply within_app. split; auto. constructor; auto. }
  assert (A6 : mass (bins s') = (mass (bins s) + c)%Z).
  { rewrite B', Eb, !mass_app. unfold mass. cbn [fold_right snd]. ulia. }
  assert (A7 : hmin s' = Some (match hmin s with Some m => pmin AA m v | None => v end)).
  { unfold s', with_bins; cbn [hmin]. rewrite Hmn. f_equal. unfold pmin. cbn. destruct (Qltb_spec v mn); [lra|reflexivity]. }
  assert (A8 : hmax s' = Some (match hmax s with Some m => pmax AA m v | None => v end)).
  { unfold s', with_bins; cbn [hmax]. rewrite Hmx. f_equal. unfold pmax. cbn. destruct (Qltb_spec mx v); [lra|reflexivity]. }
  assert (A9 : mu (bins s') == mu (bins s) + mu [(v, c)]).
  { rewrite B', Eb, !mu_mid. rewrite (mu_hit vi fi v c Ev). ring. }
  unfold upd_spec, Inv. repeat split; auto.
Qed.

Lemma finish_insert (s2 : st) (l1 l2 : list bin) v c :
  bins s2 = l1 ++ (v, c) :: l2 -> sorted (bins s2) -> pos_counts (bins s2) -> cache_ok s2 ->
  (2 <= cap s2)%nat -> (length (l1 ++ l2) <= cap s2)%nat ->
  (match l1 ++ l2 with
   | [] => hmin s2 = None /\ hmax s2 = None
   | _ => exists mn mx, hmin s2 = Some mn /\ hmax s2 = Some mx /\ within mn mx (l1 ++ l2)
   end) ->
  let mn := match hmin s2 with None => Some v | Some m => if ltb AA v m then Some v else Some m end in
  let mx := match hmax s2 with None => Some v | Some m => if ltb AA m v then Some v else Some m end in
  let s3 := mkst (bins s2) mn mx (diffs s2) (min_diff s2) (cap s2) in
  exists s', trim AA (length (bins s3)) s3 = Some s' /\ Inv s' /\
    mass (bins s') = (mass (l1 ++ l2) + c)%Z /\ cap s' = cap s2 /\
    hmin s' = Some (match hmin s2 with Some m => pmin AA m v | None => v end) /\
    hmax s' = Some (match hmax s2 with Some m => pmax AA m v | None => v end) /\
    mu (bins s') == mu (l1 ++ l2) + mu [(v, c)].
Proof.
  intros Eb Hs Hp Hc Hcap Hlen Hb mn mx s3.
  assert (Hmn : mn = Some (match hmin s2 with Some m => pmin AA m v | None => v end)).
  { unfold mn, pmin. destruct (hmin s2); [|reflexivity]. cbn. now destruct (Qltb v q). }
  assert (Hmx : mx = Some (match hmax s2 with Some m => pmax AA m v | None => v end)).
  { unfold mx, pmax. destruct (hmax s2); [|reflexivity]. cbn. now destruct (Qltb q v). }
  set (mn' := match hmin s2 with Some m => pmin AA m v | None => v end) in *.
  set (mx' := match hmax s2 with Some m => pmax AA m v | None => v end) in *.
  assert (Hw3 : within mn' mx' (bins s2)).
  { rewrite Eb. apply within_app. destruct (l1 ++ l2) as [|b0 r0] eqn:E0.
    - apply app_eq_nil in E0 as [-> ->]. destruct Hb as [H1 H2]. unfold mn', mx'. rewrite H1, H2.
      split; [constructor|]. constructor; [cbn; lra|constructor].
    - destruct Hb as (m1 & m2 & H1 & H2 & Hw). unfold mn', mx'. rewrite H1, H2.
      assert (A1 : pmin AA m1 v <= m1 /\ pmin AA m1 v <= v) by (destruct (pmin_cases m1 v) as [[? ->]|[? ->]]; lra).
      assert (A2 : m2 <= pmax AA m2 v /\ v <= pmax AA m2 v) by (destruct (pmax_cases m2 v) as [[? ->]|[? ->]]; lra).
      rewrite <- E0 in Hw. apply within_app in Hw as [W1 W2].
      assert (Mono : forall l, within m1 m2 l -> within (pmin AA m1 v) (pmax AA m2 v) l).
      { intros l Hl. unfold within in *. rewrite Forall_forall in *. intros b Ib. specialize (Hl b Ib). lra. }
      split; [now apply Mono|]. constructor; [cbn; lra|now apply Mono]. }
  destruct (trim_ok (length (bins s3)) s3) as (s' & T & S' & P' & C' & L' & M' & (F1 & F2 & F3) & W' & N' & Mu'); auto.
  - unfold s3; cbn [bins cap]. ulia.
  - exists s'. unfold s3 in *. cbn [bins hmin hmax cap] in *.
    assert (B3 : (2 <= cap s')%nat) by ulia.
    assert (B5 : bounds_ok s').
    { apply (bounds_intro s' mn' mx'); try congruence; [|now apply W'].
      apply N'. rewrite Eb. destruct l1; discriminate. }
    assert (B6 : mass (bins s') = (mass (l1 ++ l2) + c)%Z).
    { rewrite M', Eb, !mass_app. unfold mass. cbn [fold_right snd]. ulia. }
    assert (B7 : hmin s' = Some mn') by congruence.
    assert (B8 : hmax s' = Some mx') by congruence.
    assert (B9 : mu (bins s') == mu (l1 ++ l2) + mu [(v, c)]).
    { rewrite Mu', Eb, mu_mid, mu_app. ring. }
    unfold Inv. repeat split; auto.
Qed.

Lemma old_bounds (s1 : st) :
  Inv s1 ->
  match bins s1 with
  | [] => hmin s1 = None /\ hmax s1 = None
  | _ => exists mn mx, hmin s1 = Some mn /\ hmax s1 = Some mx /\ within mn mx (bins s1)
  end.
Proof. intros (_ & _ & _ & _ & _ & Hb). exact Hb. Qed.

Lemma insert_mid_ok (s1 : st) (l1 l2 : list bin) v c :
  Inv s1 -> bins s1 = l1 ++ l2 ->
  (forall a, In a l1 -> fst a < v) -> (forall b, In b l2 -> v < fst b) -> (1 <= c)%Z ->
  exists s', insert_path AA s1 v c (length l1) false = Some s' /\ upd_spec s1 s' v c.
Proof.
  intros HI Eb Ha Hb Hc1. pose proof (old_bounds s1 HI) as OB.
  destruct HI as (Hs & Hp & Hl & Hcap & Hc & _).
  unfold insert_path.
  set (sI := mkst (insert_at (length l1) (v, c) (bins s1)) (hmin s1) (hmax s1)
                  (option_map (insert_at (length l1) (ofZ AA 0)) (diffs s1)) (min_diff s1) (cap s1)).
  assert (BI : bins sI = l1 ++ (v, c) :: l2).
  { unfold sI; cbn [bins]. rewrite Eb. apply insert_at_split. }
  assert (SI : sorted (bins sI)).
  { rewrite BI. apply sorted_put_mid; [now rewrite <- Eb|exact Ha|exact Hb]. }
  assert (PI : pos_counts (bins sI)).
  { rewrite BI. rewrite Eb in Hp. apply pos_app in Hp as [P1 P2]. apply pos_app. split; auto. constructor; auto. }
  (* the cache after _update_diffs *)
  assert (U : exists s2, update_diffs AA sI (length l1) = Some s2 /\ bins s2 = bins sI /\
                         hmin s2 = hmin s1 /\ hmax s2 = hmax s1 /\ cap s2 = cap s1 /\ cache_ok s2).
  { destruct (diffs s1) as [d|] eqn:Ed.
    - unfold cache_ok in Hc. rewrite Ed in Hc. destruct Hc as (Hne & Hd & Hm).
      assert (Hn1 : (1 <= length (bins s1))%nat) by (destruct (bins s1); [congruence|cbn; ulia]).
      rewrite Eb, app_length in Hn1, Hd.
      destruct (update_diffs_ok sI (length l1) (insert_at (length l1) (ofZ AA 0) d)) as (d2 & md2 & U1 & U2 & U3).
      + unfold sI; cbn [diffs option_map]. reflexivity.
      + rewrite insert_at_length, BI, app_length. cbn [length]. ulia.
      + rewrite BI, app_length. cbn [length]. ulia.
      + set (sU := with_cache sI (Some d2) md2).
        assert (KU : cache_ok sU).
        { unfold cache_ok, sU, with_cache; cbn [diffs bins min_diff]. split; [|split].
          - rewrite BI. destruct l1; discriminate.
          - rewrite U2, insert_at_length, BI, app_length. cbn [length]. ulia.
          - apply U3. unfold md_pre. change (min_diff sI) with (min_diff s1).
            destruct (min_diff s1) as [|m] eqn:Em; cbn [md_ok] in Hm |- *.
            + right. split; [reflexivity|]. rewrite BI, app_length. cbn [length]. ulia.
            + left. now apply InE_insert. }
        exists sU. split; [exact U1|]. split; [reflexivity|]. split; [reflexivity|]. split; [reflexivity|]. split; [reflexivity|exact KU].
    - exists sI. split.
      + unfold update_diffs. unfold sI at 1; cbn [diffs option_map]. reflexivity.
      + split; [reflexivity|]. split; [reflexivity|]. split; [reflexivity|]. split; [reflexivity|].
        unfold cache_ok, sI; cbn [diffs option_map]. exact I. }
  destruct U as (s2 & U1 & B2 & M2 & X2 & C2 & K2). rewrite U1. cbn [bind].
  assert (F1 : bins s2 = l1 ++ (v, c) :: l2) by congruence.
  assert (F2 : sorted (bins s2)) by (rewrite B2; exact SI).
  assert (F3 : pos_counts (bins s2)) by (rewrite B2; exact PI).
  assert (F5 : (2 <= cap s2)%nat) by (rewrite C2; exact Hcap).
  assert (F6 : (length (l1 ++ l2) <= cap s2)%nat) by (rewrite <- Eb, C2; exact Hl).
  assert (F7 : match l1 ++ l2 with
               | [] => hmin s2 = None /\ hmax s2 = None
               | _ => exists mn mx, hmin s2 = Some mn /\ hmax s2 = Some mx /\ within mn mx (l1 ++ l2)
               end) by (rewrite <- Eb, M2, X2; exact OB).
  destruct (finish_insert s2 l1 l2 v c F1 F2 F3 K2 F5 F6 F7) as (s' & T & I' & Ms & Cs & Mn & Mx & Mu').
  exists s'. split; [exact T|]. unfold upd_spec. rewrite Eb.
  split; [exact I'|]. split; [exact Ms|]. split; [congruence|]. rewrite <- M2, <- X2. split; [assumption|]. split; assumption.
Qed.

Lemma insert_last_ok (s1 : st) v c vl fl :
  Inv s1 -> nth_error (bins s1) (length (bins s1) - 1) = Some (vl, fl) ->
  (forall a, In a (bins s1) -> fst a < v) -> (1 <= c)%Z ->
  exists s', insert_path AA s1 v c (length (bins s1) - 1) true = Some s' /\ upd_spec s1 s' v c.
Proof.
  intros HI Hn Ha Hc1. pose proof (old_bounds s1 HI) as OB.
  destruct HI as (Hs & Hp & Hl & Hcap & Hc & _).
  unfold insert_path. rewrite Hn. cbn [bind].
  set (g := sub AA v vl).
  set (s2 := mkst (bins s1 ++ [(v, c)]) (hmin s1) (hmax s1) (option_map (fun d => d ++ [g]) (diffs s1))
                  (match diffs s1 with Some _ => if lt_ext AA g (min_diff s1) then Fin g else min_diff s1 | None => min_diff s1 end)
                  (cap s1)).
  assert (Hn1 : (1 <= length (bins s1))%nat) by (apply nth_error_Some_lt in Hn; ulia).
  assert (S2 : sorted (bins s2)).
  { unfold s2; cbn [bins]. apply sorted_put_mid; [now rewrite app_nil_r|exact Ha|intros ? []]. }
  assert (P2 : pos_counts (bins s2)).
  { unfold s2; cbn [bins]. apply pos_app. split; auto. constructor; auto. }
  assert (K2 : cache_ok s2).
  { unfold cache_ok, s2; cbn [diffs bins min_diff]. destruct (diffs s1) as [d|] eqn:Ed; cbn [option_map]; auto.
    unfold cache_ok in Hc. rewrite Ed in Hc. destruct Hc as (Hne & Hd & Hm). repeat split.
    - destruct (bins s1); discriminate.
    - rewrite !app_length. cbn [length]. ulia.
    - destruct (min_diff s1) as [|m]; cbn in *.
      + apply InE_app_last.
      + match goal with |- context [if ?b then _ else _] => destruct b end; cbn [md_ok]; [apply InE_app_last|now apply InE_app_l]. }
  assert (F1 : bins s2 = bins s1 ++ (v, c) :: []) by reflexivity.
  assert (F6 : (length (bins s1 ++ []) <= cap s2)%nat) by (rewrite app_nil_r; exact Hl).
  assert (F7 : match bins s1 ++ [] with
               | [] => hmin s2 = None /\ hmax s2 = None
               | _ => exists mn mx, hmin s2 = Some mn /\ hmax s2 = Some mx /\ within mn mx (bins s1 ++ [])
               end) by (rewrite app_nil_r; exact OB).
  destruct (finish_insert s2 (bins s1) [] v c F1 S2 P2 K2 Hcap F6 F7) as (s' & T & I' & Ms & Cs & Mn & Mx & Mu').
  exists s'. split; [exact T|]. rewrite app_nil_r in Ms, Mu'. unfold upd_spec.
  split; [exact I'|]. split; [exact Ms|]. split; [exact Cs|]. split; [exact Mn|]. split; [exact Mx|exact Mu'].
Qed.

Lemma in_place_ok (s1 : st) (l1 l2 : list bin) cv cf v c :
  Inv s1 -> bins s1 = l1 ++ (cv, cf) :: l2 ->
  (forall a, In a l1 -> fst a < cv /\ fst a < v) -> (forall b, In b l2 -> cv < fst b /\ v < fst b) ->
  (forall mn mx, within mn mx (bins s1) -> mn <= v <= mx) -> (1 <= c)%Z -> ~ cv == v ->
  exists s', in_place AA s1 v c (length l1) = Some s' /\ upd_spec s1 s' v c.
Proof.
  intros HI Eb Ha Hb Hv Hc1 Hcvv.
  destruct HI as (Hs & Hp & Hl & Hcap & Hc & Hbo).
  unfold in_place. rewrite Eb, nth_error_mid. cbn [bind].
  set (m := pmin AA (pmax AA (centroid AA cv cf v c) (pmin AA cv v)) (pmax AA cv v)).
  assert (Hm : pmin AA cv v <= m <= pmax AA cv v).
  { apply clamp_between. destruct (pmin_cases cv v) as [[? ->]|[? ->]]; destruct (pmax_cases cv v) as [[? ->]|[? ->]]; lra. }
  assert (Hlo : (cv <= m /\ cv <= v) \/ (v <= m /\ v <= cv)).
  { destruct (pmin_cases cv v) as [[? E1]|[? E1]]; rewrite E1 in Hm; [right|left]; lra. }
  assert (Hhi : (m <= cv /\ v <= cv) \/ (m <= v /\ cv <= v)).
  { destruct (pmax_cases cv v) as [[? E2]|[? E2]]; rewrite E2 in Hm; [right|left]; lra. }
  set (sB := with_bins s1 (set_at (length l1) (m, (cf + c)%Z) (l1 ++ (cv, cf) :: l2))).
  assert (BB : bins sB = l1 ++ (m, (cf + c)%Z) :: l2).
  { unfold sB, with_bins; cbn [bins]. apply set_at_split. }
  rewrite Eb in Hs, Hp, Hl.
  assert (SB : sorted (bins sB)).
  { rewrite BB. apply sorted_put_mid.
    - eapply ssorted_drop_mid. exact Hs.
    - intros a Ia. destruct (Ha a Ia). cbn [fst]. destruct Hlo as [[? ?]|[? ?]]; lra.
    - intros b Ib. destruct (Hb b Ib). cbn [fst]. destruct Hhi as [[? ?]|[? ?]]; lra. }
  assert (PB : pos_counts (bins sB)).
  { rewrite BB. apply pos_app in Hp as [P1 P2]. inversion P2 as [|? ? Pv P3]; subst. cbn [snd] in Pv.
    apply pos_app. split; auto. constructor; auto. cbn [snd]. ulia. }
  destruct (bounds_nonempty s1) as (mn & mx & Hmn & Hmx & Hw); auto.
  { rewrite Eb. destruct l1; discriminate. }
  specialize (Hv mn mx Hw). rewrite Eb in Hw. apply within_app in Hw as [W1 W2]. inversion W2 as [|? ? Wv W3]; subst. cbn [fst] in Wv.
  assert (WB : within mn mx (bins sB)).
  { rewrite BB. apply within_app. split; auto. constructor; auto. cbn [fst]. destruct Hlo as [[? ?]|[? ?]], Hhi as [[? ?]|[? ?]]; lra. }
  assert (U : exists s', update_diffs AA sB (length l1) = Some s' /\ bins s' = bins sB /\
                         hmin s' = hmin s1 /\ hmax s' = hmax s1 /\ cap s' = cap s1 /\ cache_ok s').
  { destruct (diffs s1) as [d|] eqn:Ed.
    - unfold cache_ok in Hc. rewrite Ed in Hc. destruct Hc as (Hne & Hd & Hmd).
      destruct (update_diffs_ok sB (length l1) d) as (d2 & md2 & U1 & U2 & U3).
      + unfold sB, with_bins; cbn [diffs]. exact Ed.
      + rewrite BB, Hd, Eb, !app_length. cbn [length]. reflexivity.
      + rewrite BB, app_length. cbn [length]. ulia.
      + set (sU := with_cache sB (Some d2) md2).
        assert (KU : cache_ok sU).
        { unfold cache_ok, sU, with_cache; cbn [diffs bins min_diff]. split; [|split].
          - rewrite BB. destruct l1; discriminate.
          - rewrite U2, Hd, BB, Eb, !app_length. cbn [length]. reflexivity.
          - apply U3. left. unfold sB, with_bins; cbn [min_diff]. exact Hmd. }
        exists sU. split; [exact U1|]. split; [reflexivity|]. split; [reflexivity|]. split; [reflexivity|]. split; [reflexivity|exact KU].
    - exists sB. split.
      + unfold update_diffs. unfold sB at 1, with_bins at 1; cbn [diffs]. rewrite Ed. reflexivity.
      + split; [reflexivity|]. split; [reflexivity|]. split; [reflexivity|]. split; [reflexivity|].
        unfold cache_ok, sB, with_bins; cbn [diffs]. now rewrite Ed. }
  destruct U as (s' & U1 & B' & M' & X' & C' & K').
  exists s'. split; [exact U1|].
  assert (A3 : (length (bins s') <= cap s')%nat).
  { rewrite B', BB, C'. rewrite app_length in *. cbn [length] in *. exact Hl. }
  assert (A5 : bounds_ok s').
  { apply (bounds_intro s' mn mx); [rewrite B', BB; destruct l1; discriminate|congruence|congruence|rewrite B'; exact WB]. }
  assert (A6 : mass (bins s') = (mass (bins s1) + c)%Z).
  { rewrite B', BB, Eb, !mass_app. unfold mass. cbn [fold_right snd]. ulia. }
  assert (A7 : hmin s' = Some (match hmin s1 with Some m0 => pmin AA m0 v | None => v end)).
  { rewrite M', Hmn. f_equal. unfold pmin. cbn. destruct (Qltb_spec v mn); [lra|reflexivity]. }
  assert (A8 : hmax s' = Some (match hmax s1 with Some m0 => pmax AA m0 v | None => v end)).
  { rewrite X', Hmx. f_equal. unfold pmax. cbn. destruct (Qltb_spec mx v); [lra|reflexivity]. }
  assert (A4 : (2 <= cap s')%nat) by ulia.
  assert (A9 : mu (bins s') == mu (bins s1) + mu [(v, c)]).
  { rewrite B', BB, Eb, !mu_mid. unfold m. rewrite (mu_inplace cv cf v c Hcvv); [ring| |exact Hc1].
    apply pos_app in Hp as [_ P2]. inversion P2; subst. auto. }
  unfold upd_spec, Inv. rewrite B'. repeat split; auto; congruence.
Qed.

Lemma upd_spec_transfer (s s1 s' : st) v c :
  bins s1 = bins s -> hmin s1 = hmin s -> hmax s1 = hmax s -> cap s1 = cap s ->
  upd_spec s1 s' v c -> upd_spec s s' v c.
Proof. unfold upd_spec. intros -> -> -> ->. auto. Qed.

Lemma ensure_cache_ok (s : st) :
  Inv s -> (2 <= length (bins s))%nat ->
  exists s1, ensure_cache AA s = Some s1 /\ Inv s1 /\
             bins s1 = bins s /\ hmin s1 = hmin s /\ hmax s1 = hmax s /\ cap s1 = cap s.
Proof.
  intros HI Hn. unfold ensure_cache. destruct (diffs s) as [d|] eqn:Ed.
  - exists s. split; [reflexivity|]. split; [exact HI|]. repeat split; reflexivity.
  - destruct (lmin_some (gaps AA (bins s))) as [m Hm].
    { intros E. apply (f_equal (@length Q)) in E. rewrite gaps_length in E. cbn [length] in E. ulia. }
    rewrite Hm. cbn [bind]. eexists. split; [reflexivity|].
    destruct HI as (Hs & Hp & Hl & Hcap & Hc & Hb).
    unfold with_cache. split; [|cbn [bins hmin hmax cap]; repeat split; auto].
    assert (K : cache_ok {| bins := bins s; hmin := hmin s; hmax := hmax s; diffs := Some (gaps AA (bins s)); min_diff := Fin m; cap := cap s |}).
    { unfold cache_ok. simpl diffs. simpl bins. simpl min_diff. split; [|split].
      - destruct (bins s); [cbn in Hn; ulia|discriminate].
      - apply gaps_length.
      - cbn [md_ok]. now apply lmin_InE. }
    unfold Inv. simpl bins. simpl cap. split; [exact Hs|]. split; [exact Hp|]. split; [exact Hl|]. split; [exact Hcap|]. split; [exact K|].
    unfold bounds_ok in *. simpl bins. simpl hmin. simpl hmax. exact Hb.
Qed.

Lemma bisect_spec (l : list bin) v :
  pos_counts l ->
  exists l1 l2, l = l1 ++ l2 /\ bisect_left AA l v = length l1 /\
                (forall a, In a l1 -> fst a < v) /\
                match l2 with [] => True | b :: _ => v <= fst b end.
Proof.
  induction l as [|[x f] t IH]; intros Hp.
  - exists [], []. repeat split; auto. intros ? [].
  - inversion Hp as [|? ? Hf Ht]; subst. cbn [snd] in Hf. cbn [bisect_left].
    assert (E : (Z.ltb f 1) = false) by (apply Z.ltb_ge; ulia). rewrite E, andb_false_r, orb_false_r.
    cbn [ltb AA]. destruct (Qltb_spec x v) as [Hx|Hx].
    + destruct (IH Ht) as (l1 & l2 & -> & Hb & Ha & Hh). exists ((x, f) :: l1), l2.
      repeat split; auto; [cbn; now rewrite Hb|]. intros a [<-|Ia]; auto.
    + exists [], ((x, f) :: t). repeat split; auto; [intros ? []|cbn; lra].
Qed.

Lemma sorted_all_le_last (l : list bin) bl :
  sorted l -> nth_error l (length l - 1) = Some bl -> forall a, In a l -> fst a <= fst bl.
Proof.
  intros Hs Hn a Ia. destruct (split_at _ _ _ Hn) as (l1 & l2 & -> & Hl).
  rewrite app_length in Hl. cbn [length] in Hl. assert (l2 = []) by (destruct l2; [reflexivity|cbn in Hl; ulia]). subst l2.
  apply ssorted_app in Hs as (_ & _ & C). apply in_app_or in Ia as [Ia|[<-|[]]]; [|lra].
  specialize (C a bl Ia (or_introl eq_refl)). unfold blt in C. lra.
Qed.

Lemma sorted_head_lt (b : bin) l : sorted (b :: l) -> forall x, In x l -> fst b < fst x.
Proof. intros H x Ix. apply ssorted_cons in H as [_ C]. now apply C. Qed.

Lemma update_miss_mid (s : st) (l1 l2 : list bin) v c :
  Inv s -> bins s = l1 ++ l2 -> l1 <> [] -> l2 <> [] ->
  (forall a, In a l1 -> fst a < v) -> (forall b, In b l2 -> v < fst b) -> (1 <= c)%Z ->
  exists s', update_miss AA s v c (length l1) false = Some s' /\ upd_spec s s' v c.
Proof.
  intros HI Eb N1 N2 Ha Hb Hc1. unfold update_miss. cbn [negb andb].
  assert (P0 : Nat.ltb 0 (length l1) = true) by (apply Nat.ltb_lt; destruct l1; [congruence|cbn; ulia]).
  rewrite P0. cbn [andb].
  destruct (Nat.leb (cap s) (length (bins s))) eqn:E.
  - destruct (ensure_cache_ok s HI) as (s1 & C1 & I1 & B1 & M1 & X1 & K1).
    { rewrite Eb, app_length. destruct l1; [congruence|]. destruct l2; [congruence|]. cbn [length]. ulia. }
    rewrite C1. cbn [bind].
    destruct (exists_last N1) as (l1' & bp & E1). destruct l2 as [|bq l2']; [congruence|].
    assert (Eb1 : bins s1 = l1' ++ bp :: bq :: l2') by (rewrite B1, Eb, E1, <- app_assoc; reflexivity).
    assert (Lp : (length l1 - 1 = length l1')%nat) by (rewrite E1, app_length; cbn [length]; ulia).
    assert (Lq : length l1 = S (length l1')) by (rewrite E1, app_length; cbn [length]; ulia).
    unfold choose_in_place. rewrite Lp, Lq, Eb1, nth_error_mid, nth_error_mid_S.
    destruct bp as [vp fp], bq as [vq fq]. cbn [bind].
    pose proof I1 as (S1 & _).
    rewrite Eb1 in S1. destruct (sorted_inv_mid _ _ _ _ S1) as (Hpq & _ & Hl1' & Hl2'). cbn [fst] in *.
    assert (Hvp : vp < v) by (apply (Ha (vp, fp)); rewrite E1; apply in_or_app; right; now left).
    assert (Hvq : v < vq) by (apply (Hb (vq, fq)); now left).
    assert (Hin : forall mn mx, within mn mx (bins s1) -> mn <= v <= mx).
    { intros mn mx Hw. rewrite Eb1 in Hw. apply within_app in Hw as [_ W]. inversion W as [|? ? Wp W2]; subst.
      inversion W2 as [|? ? Wq _]; subst. cbn [fst] in *. lra. }
    set (d1 := sub AA v vp). set (d2 := sub AA vq v).
    destruct (ltb AA d1 d2).
    + (* candidate: left neighbour *)
      destruct (lt_ext AA d1 (min_diff s1) && Nat.ltb 0 (length l1')) eqn:Ec; cbn [bind].
      * assert (G1 : forall a, In a l1' -> fst a < vp /\ fst a < v).
        { intros a Ia. split; [now apply Hl1'|]. apply Ha. rewrite E1. apply in_or_app; now left. }
        assert (G2 : forall b, In b ((vq, fq) :: l2') -> vp < fst b /\ v < fst b).
        { intros b [<-|Ib]; cbn [fst]; [lra|]. specialize (Hl2' b Ib). split; [lra|]. apply Hb. now right. }
        assert (G3 : ~ vp == v) by lra.
        destruct (in_place_ok s1 l1' ((vq, fq) :: l2') vp fp v c I1 Eb1 G1 G2 Hin Hc1 G3) as (s' & P1 & P2).
        exists s'. split; [exact P1|]. now apply (upd_spec_transfer s s1).
      * destruct (insert_mid_ok s1 l1 ((vq, fq) :: l2') v c I1) as (s' & P1 & P2); auto.
        -- now rewrite B1.
        -- rewrite Lq in P1. exists s'. split; [exact P1|]. now apply (upd_spec_transfer s s1).
    + (* candidate: right neighbour *)
      destruct (lt_ext AA d2 (min_diff s1) && Nat.ltb 0 (S (length l1'))) eqn:Ec; cbn [bind].
      * assert (Eb2 : bins s1 = l1 ++ (vq, fq) :: l2') by now rewrite B1.
        assert (G1 : forall a, In a l1 -> fst a < vq /\ fst a < v).
        { intros a Ia. specialize (Ha a Ia). split; [lra|exact Ha]. }
        assert (G2 : forall b, In b l2' -> vq < fst b /\ v < fst b).
        { intros b Ib. specialize (Hl2' b Ib). split; [exact Hl2'|lra]. }
        assert (G3 : ~ vq == v) by lra.
        destruct (in_place_ok s1 l1 l2' vq fq v c I1 Eb2 G1 G2 Hin Hc1 G3) as (s' & P1 & P2).
        rewrite Lq in P1. exists s'. split; [exact P1|]. now apply (upd_spec_transfer s s1).
      * destruct (insert_mid_ok s1 l1 ((vq, fq) :: l2') v c I1) as (s' & P1 & P2); auto.
        -- now rewrite B1.
        -- rewrite Lq in P1. exists s'. split; [exact P1|]. now apply (upd_spec_transfer s s1).
  - cbn [bind]. apply (insert_mid_ok s l1 l2 v c); auto.
Qed.

Theorem update_ok (s : st) v c :
  Inv s -> (1 <= c)%Z -> exists s', update AA s v c = Some s' /\ upd_spec s s' v c.
Proof.
  intros HI Hc1. unfold update.
  assert (Ec : Z.leb c 0 = false) by (apply Z.leb_gt; ulia). rewrite Ec.
  pose proof HI as (Hs & Hp & _).
  destruct (bins s) as [|[v0 f0] t] eqn:Eb.
  - (* empty histogram *)
    cbn [locate nth_error].
    destruct (insert_mid_ok s [] [] v c HI Eb (fun a (H : In a []) => match H with end)
                (fun a (H : In a []) => match H with end) Hc1) as (s' & P1 & P2).
    exists s'. split; [|exact P2]. unfold update_miss. simpl (0 <? 0)%nat. cbn [negb andb bind]. exact P1.
  - unfold locate. cbn [leb AA]. destruct (Qleb_spec v v0) as [H0|H0].
    + (* at or before the first centre *)
      cbn [nth_error]. cbn [eqb AA]. destruct (Qeqb_spec v0 v) as [He|He].
      * eexists. split; [reflexivity|]. rewrite <- Eb. apply hit_ok; auto. now rewrite Eb.
      * assert (Hall : forall x, In x ((v0, f0) :: t) -> v < fst x).
        { intros x [<-|Ix]; cbn [fst]; [lra|]. pose proof (sorted_head_lt _ _ Hs x Ix) as Hx. cbn [fst] in Hx. lra. }
        destruct (insert_mid_ok s [] ((v0, f0) :: t) v c HI Eb (fun a (H : In a []) => match H with end) Hall Hc1) as (s' & P1 & P2).
        exists s'. split; [|exact P2]. unfold update_miss. simpl (0 <? 0)%nat. cbn [negb andb bind]. exact P1.
    + destruct (nth_error_lt_Some ((v0, f0) :: t) (length ((v0, f0) :: t) - 1)) as [[vl fl] Hl]; [cbn [length]; ulia|].
      rewrite Hl. destruct (Qleb_spec vl v) as [H1|H1].
      * (* at or after the last centre *)
        rewrite Hl. cbn [eqb AA]. destruct (Qeqb_spec vl v) as [He|He].
        -- eexists. split; [reflexivity|]. rewrite <- Eb. apply hit_ok; auto. now rewrite Eb.
        -- rewrite <- Eb in *.
           assert (Hall : forall a, In a (bins s) -> fst a < v).
           { intros a Ia. pose proof (sorted_all_le_last _ _ Hs Hl a Ia) as Hx. cbn [fst] in Hx. lra. }
           destruct (insert_last_ok s v c vl fl HI Hl Hall Hc1) as (s' & P1 & P2).
           exists s'. split; [|exact P2]. unfold update_miss. cbn [negb andb bind]. exact P1.
      * (* strictly inside *)
        destruct (bisect_spec ((v0, f0) :: t) v Hp) as (l1 & l2 & El & Bl & Ha & Hh).
        rewrite Bl.
        assert (N1 : l1 <> []).
        { intros ->. cbn [app] in El. subst l2. cbn [fst] in Hh. lra. }
        assert (N2 : l2 <> []).
        { intros ->. rewrite app_nil_r in El. subst l1.
          assert (Hin : In (vl, fl) ((v0, f0) :: t)) by (eapply nth_error_In; eauto).
          specialize (Ha _ Hin). cbn [fst] in Ha. lra. }
        destruct l2 as [|[vq fq] l2']; [congruence|]. cbn [fst] in Hh.
        assert (Hq : nth_error ((v0, f0) :: t) (length l1) = Some (vq, fq)) by (rewrite El; apply nth_error_mid).
        rewrite Hq. cbn [eqb AA]. destruct (Qeqb_spec vq v) as [He|He].
        -- eexists. split; [reflexivity|]. rewrite <- Eb. apply hit_ok; auto. now rewrite Eb.
        -- rewrite <- Eb in *. apply (update_miss_mid s l1 ((vq, fq) :: l2')); auto.
           intros x [<-|Ix]; cbn [fst]; [lra|].
           rewrite El in Hs. apply ssorted_app in Hs as (_ & S2 & _).
           pose proof (sorted_head_lt _ _ S2 x Ix) as Hx. cbn [fst] in Hx. lra.
Qed.

(* ---------- sequences of updates (merge feeds the right operand's bins this way) ---------- *)
Definition ext_min (o : option Q) (l : list bin) : option Q :=
  fold_left (fun o b => Some (match o with Some m => pmin AA m (fst b) | None => fst b end)) l o.
Definition ext_max (o : option Q) (l : list bin) : option Q :=
  fold_left (fun o b => Some (match o with Some m => pmax AA m (fst b) | None => fst b end)) l o.
Definition mu_sum (l : list bin) : Q := fold_right (fun b a => mu [b] + a) 0 l.

Lemma feed_ok (l : list bin) : forall (s : st),
  Inv s -> pos_counts l ->
  exists s', feed AA s l = Some s' /\ Inv s' /\
    mass (bins s') = (mass (bins s) + mass l)%Z /\ cap s' = cap s /\
    hmin s' = ext_min (hmin s) l /\ hmax s' = ext_max (hmax s) l /\
    mu (bins s') == mu (bins s) + mu_sum l.
Proof.
  induction l as [|[v c] t IH]; intros s HI Hp.
  - exists s. cbn [feed]. split; [reflexivity|]. split; [exact HI|]. split; [unfold mass; cbn [fold_right]; ulia|].
    split; [reflexivity|]. split; [reflexivity|]. split; [reflexivity|]. cbn [mu_sum fold_right]. ring.
  - inversion Hp as [|? ? Hc Ht]; subst. cbn [snd] in Hc. cbn [feed].
    destruct (update_ok s v c HI Hc) as (s1 & U & I1 & M1 & C1 & N1 & X1 & Mu1).
    rewrite U. cbn [bind].
    destruct (IH s1 I1 Ht) as (s' & F & I' & M' & C' & N' & X' & Mu').
    exists s'. split; [exact F|]. split; [exact I'|].
    split; [rewrite M', M1; unfold mass; cbn [fold_right snd]; ulia|].
    split; [congruence|].
    split; [rewrite N', N1; reflexivity|].
    split; [rewrite X', X1; reflexivity|].
    rewrite Mu', Mu1. cbn [mu_sum fold_right]. fold (mu_sum t). ring.
Qed.

End AnyArith.
