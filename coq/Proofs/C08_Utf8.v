(* C08 - UTF-8: strict decoding inverts encoding on Unicode scalar values. *)
From Coq Require Import List ZArith NArith Bool Lia ZifyBool.
From Orso Require Import Gen.C08_Tables Model.C08.
Import ListNotations.
Open Scope N_scope.
Ltac Zify.zify_post_hook ::= Z.to_euclidean_division_equations.


Lemma utf8_dec_enc1 c rest : scalar c = true ->
  utf8_decode (utf8_enc1 c ++ rest) = option_map (cons c) (utf8_decode rest).
Proof.
  intros Hc. unfold scalar in Hc. unfold utf8_enc1.
  destruct (c <? 128) eqn:E1.
  { cbn [app utf8_decode]. rewrite E1. reflexivity. }
  destruct (c <? 2048) eqn:E2.
  { cbn [app utf8_decode]. set (b0 := 192 + c / 64). set (b1 := 128 + c mod 64).
    replace (b0 <? 128) with false by (unfold b0; lia).
    replace ((194 <=? b0) && (b0 <? 224)) with true by (unfold b0; lia).
    unfold cont. replace ((128 <=? b1) && (b1 <? 192)) with true by (unfold b1; lia).
    replace ((b0 - 192) * 64 + (b1 - 128)) with c by (unfold b0, b1; lia). reflexivity. }
  destruct (c <? 65536) eqn:E3.
  { cbn [app utf8_decode]. set (b0 := 224 + c / 4096). set (b1 := 128 + (c / 64) mod 64). set (b2 := 128 + c mod 64).
    replace (b0 <? 128) with false by (unfold b0; lia).
    replace ((194 <=? b0) && (b0 <? 224)) with false by (unfold b0; lia).
    replace ((224 <=? b0) && (b0 <? 240)) with true by (unfold b0; lia).
    unfold cont. replace ((128 <=? b1) && (b1 <? 192)) with true by (unfold b1; lia).
    replace ((128 <=? b2) && (b2 <? 192)) with true by (unfold b2; lia). cbn [andb].
    replace ((b0 - 224) * 4096 + (b1 - 128) * 64 + (b2 - 128)) with c by (unfold b0, b1, b2; lia).
    replace ((2048 <=? c) && negb ((55296 <=? c) && (c <? 57344))) with true by lia. reflexivity. }
  cbn [app utf8_decode].
  set (b0 := 240 + c / 262144). set (b1 := 128 + (c / 4096) mod 64). set (b2 := 128 + (c / 64) mod 64). set (b3 := 128 + c mod 64).
  replace (b0 <? 128) with false by (unfold b0; lia).
  replace ((194 <=? b0) && (b0 <? 224)) with false by (unfold b0; lia).
  replace ((224 <=? b0) && (b0 <? 240)) with false by (unfold b0; lia).
  replace ((240 <=? b0) && (b0 <? 245)) with true by (unfold b0; lia).
  unfold cont. replace ((128 <=? b1) && (b1 <? 192)) with true by (unfold b1; lia).
  replace ((128 <=? b2) && (b2 <? 192)) with true by (unfold b2; lia).
  replace ((128 <=? b3) && (b3 <? 192)) with true by (unfold b3; lia). cbn [andb].
  replace ((b0 - 240) * 262144 + (b1 - 128) * 4096 + (b2 - 128) * 64 + (b3 - 128)) with c by (unfold b0, b1, b2, b3; lia).
  replace ((65536 <=? c) && (c <? 1114112)) with true by lia. reflexivity.
Qed.

Lemma utf8_decode_encode s : forallb scalar s = true -> utf8_decode (utf8_encode s) = Some s.
Proof.
  induction s as [|c s IH]; intros H; [reflexivity|].
  cbn [forallb] in H. apply andb_true_iff in H. destruct H as [Hc Hs].
  unfold utf8_encode. cbn [flat_map]. rewrite utf8_dec_enc1 by assumption.
  fold (utf8_encode s). rewrite IH by assumption. reflexivity.
Qed.

(* ASCII text is its own encoding *)
Lemma utf8_encode_ascii s : forallb (fun c => c <? 128) s = true -> utf8_encode s = s.
Proof.
  induction s as [|c s IH]; intros H; [reflexivity|].
  cbn [forallb] in H. apply andb_true_iff in H. destruct H as [Hc Hs].
  unfold utf8_encode. cbn [flat_map]. unfold utf8_enc1 at 1. rewrite Hc. cbn [app]. f_equal. now apply IH.
Qed.
