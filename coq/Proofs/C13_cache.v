(* C13 - the cached gaps are EXACT.  For any arithmetic: after every operation, if the
   histogram carries a gap cache then that cache is literally the list of adjacent
   differences of the current bins and min_diff is a minimum of it.  Consequently the pair
   _trim merges is always a closest adjacent pair (the first one), and the in-place
   shortcut fires only when the new value is strictly closer to a neighbour than any two
   existing bins are to each other.  This is the bookkeeping the property worries about
   ("one stale cached difference silently merges the wrong bins"). *)
From Coq Require Import QArith Lqa ZArith List Bool Lia Sorted Arith.
From Orso Require Import Model.C13 Model.C13_Q Proofs.C13_lists Proofs.C13.
Import ListNotations.
Open Scope Q_scope.

Section Lists.
Context {X : Type}.

Lemma nth_error_ext (l1 l2 : list X) :
  length l1 = length l2 -> (forall j, nth_error l1 j = nth_error l2 j) -> l1 = l2.
Proof.
  revert l2; induction l1 as [|x l1 IH]; intros [|y l2] L H; cbn in L; try discriminate; [reflexivity|].
  pose proof (H 0%nat) as H0. cbn in H0. inversion H0; subst. f_equal. apply IH; [lia|].
  intros j. exact (H (S j)).
Qed.

Lemma nth_error_remove_at (l : list X) i j :
  nth_error (remove_at i l) j = if Nat.ltb j i then nth_error l j else nth_error l (S j).
Proof.
  revert i j; induction l as [|x l IH]; intros [|i] [|j]; cbn [remove_at nth_error]; auto.
  - now destruct (Nat.ltb (S j) (S i)).
  - change (Nat.ltb (S j) (S i)) with (Nat.ltb j i). apply IH.
Qed.

Lemma nth_error_insert_at (l : list X) i x j : (i <= length l)%nat ->
  nth_error (insert_at i x l) j =
  if Nat.ltb j i then nth_error l j else if Nat.eqb j i then Some x else nth_error l (j - 1).
Proof.
  revert i j; induction l as [|y l IH]; intros i j H.
  - cbn [length] in H. assert (i = 0)%nat by lia. subst i. cbn [insert_at].
    destruct j as [|j]; [reflexivity|]. cbn [nth_error Nat.ltb Nat.leb Nat.eqb]. destruct (S j - 1)%nat; now destruct j.
  - destruct i as [|i]; cbn [insert_at].
    + destruct j as [|j]; [reflexivity|]. cbn [nth_error Nat.ltb Nat.leb Nat.eqb].
      replace (S j - 1)%nat with j by lia. reflexivity.
    + destruct j as [|j]; cbn [nth_error]; [reflexivity|].
      change (Nat.ltb (S j) (S i)) with (Nat.ltb j i). change (Nat.eqb (S j) (S i)) with (Nat.eqb j i).
      cbn [length] in H. rewrite IH by lia. destruct (Nat.ltb j i) eqn:E1; [reflexivity|]. destruct (Nat.eqb j i) eqn:E2; [reflexivity|].
      apply Nat.ltb_ge in E1. apply Nat.eqb_neq in E2. destruct j as [|j]; [lia|].
      replace (S (S j) - 1)%nat with (S j) by lia. replace (S j - 1)%nat with j by lia. reflexivity.
Qed.

Lemma nth_error_set_at (l : list X) i x j :
  nth_error (set_at i x l) j = if Nat.eqb j i then (if Nat.ltb i (length l) then Some x else None) else nth_error l j.
Proof.
  revert i j; induction l as [|y l IH]; intros i j.
  - cbn [length]. destruct i, j; cbn [set_at nth_error Nat.eqb Nat.ltb Nat.leb]; try reflexivity; now destruct (Nat.eqb j i).
  - destruct i as [|i], j as [|j]; cbn [set_at nth_error length Nat.eqb]; try reflexivity.
    change (Nat.ltb (S i) (S (length l))) with (Nat.ltb i (length l)). apply IH.
Qed.
End Lists.

Section CacheExact.
Variables (fadd fsub fmul fdiv : Q -> Q -> Q) (fofZ : Z -> Q) (ftrunc : Q -> Z).
Notation A := (AA fadd fsub fmul fdiv fofZ ftrunc).
Notation st := (@st Q).
Notation bin := (Q * Z)%type.

Lemma gaps_nth (b : list bin) j :
  nth_error (gaps A b) j =
  match nth_error b j, nth_error b (S j) with
  | Some x, Some y => Some (fsub (fst y) (fst x))
  | _, _ => None
  end.
Proof.
  revert j; induction b as [|[v1 f1] t IH]; intros j; [now destruct j|].
  destruct t as [|[v2 f2] t'].
  - destruct j as [|[|j]]; reflexivity.
  - change (gaps A ((v1, f1) :: (v2, f2) :: t')) with (fsub v2 v1 :: gaps A ((v2, f2) :: t')).
    destruct j as [|j]; [reflexivity|]. cbn [nth_error]. rewrite IH. reflexivity.
Qed.

(* minimum of a list of gaps, up to == *)
Definition is_min (m : Q) (d : list Q) : Prop :=
  (forall x, In x d -> m <= x) /\ (exists x, In x d /\ x == m).

Definition md_exact (md : @ext Q) (d : list Q) : Prop :=
  match md with Inf => d = [] | Fin m => is_min m d end.

Definition cache_exact (s : st) : Prop :=
  match diffs s with
  | None => True
  | Some d => bins s <> [] /\ d = gaps A (bins s) /\ md_exact (min_diff s) d
  end.

Lemma cache_exact_meaning (s : st) (d : list Q) :
  cache_exact s -> diffs s = Some d ->
  bins s <> [] /\
  (forall j, nth_error d j = match nth_error (bins s) j, nth_error (bins s) (S j) with
                             | Some x, Some y => Some (fsub (fst y) (fst x)) | _, _ => None end) /\
  match min_diff s with
  | Fin m => (forall x, In x d -> m <= x) /\ (exists x, In x d /\ x == m)
  | Inf => d = []
  end.
Proof.
  unfold cache_exact. intros H E. rewrite E in H. destruct H as (NE & Hd & Hm).
  split; [exact NE|]. split; [intros j; rewrite Hd; apply gaps_nth|].
  destruct (min_diff s); exact Hm.
Qed.

Lemma lmin_from_le m0 l : lmin_from A m0 l <= m0 /\ forall x, In x l -> lmin_from A m0 l <= x.
Proof.
  revert m0; induction l as [|y t IH]; intros m0; cbn [lmin_from]; [split; [lra|intros ? []]|].
  cbn [ltb A]. destruct (Qltb_spec y m0) as [H|H].
  - destruct (IH y) as [I1 I2]. split; [lra|]. intros x [<-|Hx]; [exact I1|now apply I2].
  - destruct (IH m0) as [I1 I2]. split; [exact I1|]. intros x [<-|Hx]; [lra|now apply I2].
Qed.

Lemma lmin_is_min d m : lmin A d = Some m -> is_min m d.
Proof.
  destruct d as [|x t]; cbn [lmin]; [discriminate|]. intros H; inversion H; subst; clear H.
  destruct (lmin_from_le x t) as [H1 H2]. split.
  - intros y [<-|Hy]; [exact H1|now apply H2].
  - destruct (lmin_from_In fadd fsub fmul fdiv fofZ ftrunc x t) as [E|E].
    + exists x. split; [now left|]. rewrite E. reflexivity.
    + exists (lmin_from A x t). split; [now right|reflexivity].
Qed.

Lemma is_min_unique m1 m2 d : is_min m1 d -> is_min m2 d -> m1 == m2.
Proof.
  intros [L1 (x1 & I1 & E1)] [L2 (x2 & I2 & E2)].
  pose proof (L1 x2 I2). pose proof (L2 x1 I1). lra.
Qed.

(* position-wise reading of "minimum" *)
Definition is_min' (m : Q) (d : list Q) : Prop :=
  (forall j x, nth_error d j = Some x -> m <= x) /\ (exists j x, nth_error d j = Some x /\ x == m).

Lemma is_min'_iff m d : is_min' m d <-> is_min m d.
Proof.
  unfold is_min', is_min. split; intros [L (a & b)].
  - destruct b as (x & Hx & E). split.
    + intros y Hy. apply In_nth_error in Hy as [j Hj]. eapply L; eauto.
    + exists x. split; [eapply nth_error_In; eauto|exact E].
  - destruct b as [Hin E]. split.
    + intros j x Hj. apply L. eapply nth_error_In; eauto.
    + apply In_nth_error in Hin as [j Hj]. now exists j, a.
Qed.

(* what the caller must know about min_diff before _update_diffs(h, i): it bounds every gap
   that is not about to be recomputed, and it is the value of some cached entry *)
Definition pre_min (md : @ext Q) (d : list Q) (i : nat) : Prop :=
  match md with
  | Fin m => (forall j x, nth_error d j = Some x -> S j <> i -> j <> i -> m <= x) /\
             (exists p x, nth_error d p = Some x /\ x == m)
  | Inf => forall j x, nth_error d j = Some x -> S j = i \/ j = i
  end.

Lemma gaps_of_short (b : list bin) : (length b <= 1)%nat -> gaps A b = [].
Proof. destruct b as [|[v f] [|[v2 f2] t]]; cbn [length]; intros H; try reflexivity; lia. Qed.

Lemma update_diffs_exact (s : st) (i : nat) (d : list Q) :
  diffs s = Some d -> length d = (length (bins s) - 1)%nat -> (i < length (bins s))%nat ->
  (forall j, S j <> i -> j <> i -> nth_error d j = nth_error (gaps A (bins s)) j) ->
  exists md', update_diffs A s i = Some (with_cache s (Some (gaps A (bins s))) md') /\
              (pre_min (min_diff s) d i -> md_exact md' (gaps A (bins s))).
Proof.
  intros Hd Hlen Hi Hag. unfold update_diffs. rewrite Hd.
  set (G := gaps A (bins s)).
  assert (GL : length G = (length (bins s) - 1)%nat) by apply (gaps_length fadd fsub fmul fdiv fofZ ftrunc).
  destruct (Nat.ltb 0 i) eqn:E0.
  - apply Nat.ltb_lt in E0.
    destruct (nth_error_lt_Some d (i - 1) ltac:(lia)) as [o1 Ho1].
    destruct (nth_error_lt_Some (bins s) i Hi) as [bi Hbi].
    destruct (nth_error_lt_Some (bins s) (i - 1) ltac:(lia)) as [bj Hbj].
    rewrite Ho1, Hbi, Hbj. cbn [bind].
    set (g1 := sub A (fst bi) (fst bj)).
    assert (Gg1 : nth_error G (i - 1) = Some g1).
    { unfold G. rewrite gaps_nth. replace (S (i - 1)) with i by lia. now rewrite Hbj, Hbi. }
    set (d1 := set_at (i - 1) g1 d).
    set (md1 := if lt_ext A g1 (min_diff s) then Fin g1 else min_diff s).
    destruct (Nat.ltb (S i) (length (bins s))) eqn:E1.
    + apply Nat.ltb_lt in E1.
      assert (Ho2 : exists o2, nth_error d i = Some o2) by (apply nth_error_lt_Some; lia).
      destruct Ho2 as [o2 Ho2].
      assert (Ho2' : nth_error d1 i = Some o2).
      { unfold d1. rewrite nth_error_set_at. destruct (Nat.eqb_spec i (i - 1)); [lia|exact Ho2]. }
      destruct (nth_error_lt_Some (bins s) (S i) E1) as [bk Hbk].
      rewrite Ho2', Hbk. cbn [bind].
      set (g2 := sub A (fst bk) (fst bi)).
      assert (Gg2 : nth_error G i = Some g2).
      { unfold G. rewrite gaps_nth. now rewrite Hbi, Hbk. }
      set (d2 := set_at i g2 d1).
      assert (Ed2 : d2 = G).
      { apply nth_error_ext.
        - unfold d2, d1. rewrite !set_at_length. lia.
        - intros j. unfold d2, d1. rewrite !nth_error_set_at, !set_at_length.
          destruct (Nat.eqb_spec j i) as [->|Nji].
          + destruct (Nat.ltb_spec i (length d)); [now rewrite Gg2|lia].
          + destruct (Nat.eqb_spec j (i - 1)) as [->|Nji1].
            * destruct (Nat.ltb_spec (i - 1) (length d)); [now rewrite Gg1|lia].
            * apply Hag; lia. }
      set (md2 := if lt_ext A g2 md1 then Fin g2 else md1).
      set (flag := eq_ext A o1 (min_diff s) || eq_ext A o2 md1).
      destruct flag eqn:Ef.
      * destruct (lmin_some fadd fsub fmul fdiv fofZ ftrunc d2) as [m Hm].
        { intros Hn. apply (f_equal (@length Q)) in Hn. rewrite Ed2, GL in Hn. cbn in Hn. lia. }
        rewrite Hm. cbn [bind]. exists (Fin m). rewrite Ed2. split; [reflexivity|].
        intros _. cbn. rewrite <- Ed2. now apply lmin_is_min.
      * exists md2. rewrite Ed2. split; [reflexivity|]. intros Pre.
        apply orb_false_iff in Ef as [F1 F2].
        (* the value of every entry of G *)
        assert (GV : forall j x, nth_error G j = Some x -> (j = i /\ x = g2) \/ (j = (i - 1)%nat /\ x = g1) \/
                                                           (S j <> i /\ j <> i /\ nth_error d j = Some x)).
        { intros j x Hj. destruct (Nat.eq_dec j i) as [->|N1]; [left; split; [reflexivity|congruence]|].
          destruct (Nat.eq_dec j (i - 1)) as [->|N2]; [right; left; split; [reflexivity|congruence]|].
          right; right. repeat split; try lia. rewrite Hag by lia. exact Hj. }
        destruct (min_diff s) as [|m] eqn:Em; cbn [lt_ext eq_ext ltb eqb A] in *.
        -- (* min_diff was +inf: every cached entry is being recomputed *)
           unfold md2, md1. cbn [lt_ext ltb A].
           destruct (Qltb_spec g2 g1) as [H21|H21].
           ++ cbn beta iota; apply is_min'_iff; split.
              ** intros j x Hj. destruct (GV j x Hj) as [[_ ->]|[[_ ->]|(N1 & N2 & Hdj)]]; try lra.
                 destruct (Pre j x Hdj); lia.
              ** exists i, g2. split; [exact Gg2|reflexivity].
           ++ cbn beta iota; apply is_min'_iff; split.
              ** intros j x Hj. destruct (GV j x Hj) as [[_ ->]|[[_ ->]|(N1 & N2 & Hdj)]]; try lra.
                 destruct (Pre j x Hdj); lia.
              ** exists (i - 1)%nat, g1. split; [exact Gg1|reflexivity].
        -- destruct Pre as [LB (p & xp & Hp & Ep)].
           destruct (Qeqb_spec o1 m) as [|No1]; [discriminate|].
           unfold md2, md1 in *. cbn [lt_ext ltb A] in *.
           destruct (Qltb_spec g1 m) as [H1|H1]; cbn [lt_ext eq_ext ltb eqb A] in *.
           ++ destruct (Qltb_spec g2 g1) as [H2|H2].
              ** cbn beta iota; apply is_min'_iff; split.
                 --- intros j x Hj. destruct (GV j x Hj) as [[_ ->]|[[_ ->]|(N1 & N2 & Hdj)]]; try lra.
                     specialize (LB j x Hdj N1 N2). lra.
                 --- exists i, g2. split; [exact Gg2|reflexivity].
              ** cbn beta iota; apply is_min'_iff; split.
                 --- intros j x Hj. destruct (GV j x Hj) as [[_ ->]|[[_ ->]|(N1 & N2 & Hdj)]]; try lra.
                     specialize (LB j x Hdj N1 N2). lra.
                 --- exists (i - 1)%nat, g1. split; [exact Gg1|reflexivity].
           ++ destruct (Qeqb_spec o2 m) as [|No2]; [discriminate|].
              destruct (Qltb_spec g2 m) as [H2|H2].
              ** cbn beta iota; apply is_min'_iff; split.
                 --- intros j x Hj. destruct (GV j x Hj) as [[_ ->]|[[_ ->]|(N1 & N2 & Hdj)]]; try lra.
                     specialize (LB j x Hdj N1 N2). lra.
                 --- exists i, g2. split; [exact Gg2|reflexivity].
              ** cbn beta iota; apply is_min'_iff; split.
                 --- intros j x Hj. destruct (GV j x Hj) as [[_ ->]|[[_ ->]|(N1 & N2 & Hdj)]]; try lra.
                     exact (LB j x Hdj N1 N2).
                 --- (* the old minimum is attained at an entry that was not touched *)
                     assert (Np1 : p <> (i - 1)%nat) by (intros ->; rewrite Ho1 in Hp; inversion Hp; subst; contradiction).
                     assert (Np2 : p <> i) by (intros ->; rewrite Ho2 in Hp; inversion Hp; subst; contradiction).
                     exists p, xp. split; [|exact Ep]. fold G. rewrite <- Hag by lia. exact Hp.
    + (* only the left gap exists: i is the last index *)
      apply Nat.ltb_ge in E1. cbn [bind].
      assert (Ed1 : d1 = G).
      { apply nth_error_ext.
        - unfold d1. rewrite set_at_length. lia.
        - intros j. unfold d1. rewrite nth_error_set_at.
          destruct (Nat.eqb_spec j (i - 1)) as [->|Nji1].
          + destruct (Nat.ltb_spec (i - 1) (length d)); [now rewrite Gg1|lia].
          + destruct (Nat.lt_ge_cases j (length d)) as [Hj|Hj].
            * apply Hag; lia.
            * rewrite (proj2 (nth_error_None d j)) by lia. symmetry. apply nth_error_None. lia. }
      destruct (eq_ext A o1 (min_diff s)) eqn:Ef.
      * destruct (lmin_some fadd fsub fmul fdiv fofZ ftrunc d1) as [m Hm].
        { intros Hn. apply (f_equal (@length Q)) in Hn. rewrite Ed1, GL in Hn. cbn in Hn. lia. }
        rewrite Hm. cbn [bind]. exists (Fin m). rewrite Ed1. split; [reflexivity|].
        intros _. cbn. rewrite <- Ed1. now apply lmin_is_min.
      * exists md1. rewrite Ed1. split; [reflexivity|]. intros Pre.
        assert (GV : forall j x, nth_error G j = Some x -> (j = (i - 1)%nat /\ x = g1) \/ (S j <> i /\ j <> i /\ nth_error d j = Some x)).
        { intros j x Hj. destruct (Nat.eq_dec j (i - 1)) as [->|N2]; [left; split; [reflexivity|congruence]|].
          right. assert (j < length G)%nat by (eapply nth_error_Some_lt; eauto). repeat split; try lia. rewrite Hag by lia. exact Hj. }
        destruct (min_diff s) as [|m] eqn:Em; cbn [lt_ext eq_ext ltb eqb A] in *.
        -- unfold md1. cbn [lt_ext]. cbn beta iota; apply is_min'_iff; split.
           ++ intros j x Hj. destruct (GV j x Hj) as [[_ ->]|(N1 & N2 & Hdj)]; [lra|]. destruct (Pre j x Hdj); lia.
           ++ exists (i - 1)%nat, g1. split; [exact Gg1|reflexivity].
        -- destruct Pre as [LB (p & xp & Hp & Ep)]. destruct (Qeqb_spec o1 m) as [|No1]; [discriminate|].
           unfold md1. cbn [lt_ext ltb A]. destruct (Qltb_spec g1 m) as [H1|H1].
           ++ cbn beta iota; apply is_min'_iff; split.
              ** intros j x Hj. destruct (GV j x Hj) as [[_ ->]|(N1 & N2 & Hdj)]; [lra|]. specialize (LB j x Hdj N1 N2). lra.
              ** exists (i - 1)%nat, g1. split; [exact Gg1|reflexivity].
           ++ cbn beta iota; apply is_min'_iff; split.
              ** intros j x Hj. destruct (GV j x Hj) as [[_ ->]|(N1 & N2 & Hdj)]; [lra|]. exact (LB j x Hdj N1 N2).
              ** assert (Np1 : p <> (i - 1)%nat) by (intros ->; rewrite Ho1 in Hp; inversion Hp; subst; contradiction).
                 assert (Hpl : (p < length d)%nat) by (eapply nth_error_Some_lt; eauto).
                 exists p, xp. split; [|exact Ep]. fold G. rewrite <- Hag by lia. exact Hp.
  - (* i = 0 *)
    apply Nat.ltb_ge in E0. assert (i = 0)%nat by lia. subst i. cbn [bind].
    destruct (Nat.ltb 1 (length (bins s))) eqn:E1.
    + apply Nat.ltb_lt in E1.
      destruct (nth_error_lt_Some d 0 ltac:(lia)) as [o2 Ho2].
      destruct (nth_error_lt_Some (bins s) 0 Hi) as [bi Hbi].
      destruct (nth_error_lt_Some (bins s) 1 E1) as [bk Hbk].
      rewrite Ho2, Hbi, Hbk. cbn [bind].
      set (g2 := sub A (fst bk) (fst bi)).
      assert (Gg2 : nth_error G 0 = Some g2) by (unfold G; rewrite gaps_nth; now rewrite Hbi, Hbk).
      set (d2 := set_at 0 g2 d).
      assert (Ed2 : d2 = G).
      { apply nth_error_ext.
        - unfold d2. rewrite set_at_length. lia.
        - intros j. unfold d2. rewrite nth_error_set_at. destruct (Nat.eqb_spec j 0) as [->|N].
          + destruct (Nat.ltb_spec 0 (length d)); [now rewrite Gg2|lia].
          + apply Hag; lia. }
      cbn [orb].
      destruct (eq_ext A o2 (min_diff s)) eqn:Ef.
      * destruct (lmin_some fadd fsub fmul fdiv fofZ ftrunc d2) as [m Hm].
        { intros Hn. apply (f_equal (@length Q)) in Hn. rewrite Ed2, GL in Hn. cbn in Hn. lia. }
        rewrite Hm. cbn [bind]. exists (Fin m). rewrite Ed2. split; [reflexivity|].
        intros _. cbn. rewrite <- Ed2. now apply lmin_is_min.
      * eexists. rewrite Ed2. split; [reflexivity|]. intros Pre.
        assert (GV : forall j x, nth_error G j = Some x -> (j = 0%nat /\ x = g2) \/ (S j <> 0%nat /\ j <> 0%nat /\ nth_error d j = Some x)).
        { intros j x Hj. destruct (Nat.eq_dec j 0) as [->|N2]; [left; split; [reflexivity|congruence]|].
          right. repeat split; try lia. rewrite Hag by lia. exact Hj. }
        destruct (min_diff s) as [|m] eqn:Em; cbn [lt_ext eq_ext ltb eqb A] in *.
        -- cbn beta iota; apply is_min'_iff; split.
           ++ intros j x Hj. destruct (GV j x Hj) as [[_ ->]|(N1 & N2 & Hdj)]; [lra|]. destruct (Pre j x Hdj); lia.
           ++ exists 0%nat, g2. split; [exact Gg2|reflexivity].
        -- destruct Pre as [LB (p & xp & Hp & Ep)]. destruct (Qeqb_spec o2 m) as [|No2]; [discriminate|].
           destruct (Qltb_spec g2 m) as [H1|H1].
           ++ cbn beta iota; apply is_min'_iff; split.
              ** intros j x Hj. destruct (GV j x Hj) as [[_ ->]|(N1 & N2 & Hdj)]; [lra|]. specialize (LB j x Hdj N1 N2). lra.
              ** exists 0%nat, g2. split; [exact Gg2|reflexivity].
           ++ cbn beta iota; apply is_min'_iff; split.
              ** intros j x Hj. destruct (GV j x Hj) as [[_ ->]|(N1 & N2 & Hdj)]; [lra|]. exact (LB j x Hdj N1 N2).
              ** assert (Np : p <> 0%nat) by (intros ->; rewrite Ho2 in Hp; inversion Hp; subst; contradiction).
                 exists p, xp. split; [|exact Ep]. fold G. rewrite <- Hag by lia. exact Hp.
    + (* a single bin: nothing to recompute *)
      apply Nat.ltb_ge in E1.
      assert (Ed : d = G).
      { assert (length d = 0)%nat by lia. destruct d; [|discriminate]. symmetry. apply gaps_of_short. lia. }
      assert (GN : G = []) by (apply gaps_of_short; lia).
      eexists. rewrite <- Ed at 1. split; [reflexivity|]. intros Pre.
      destruct (min_diff s) as [|m]; cbn; [exact GN|].
      rewrite Ed, GN in Pre. destruct Pre as [_ (p & xp & Hp & _)]. destruct p; discriminate.
Qed.


Lemma gaps_set_fst (b : list bin) i x y :
  nth_error b i = Some x -> fst y = fst x -> gaps A (set_at i y b) = gaps A b.
Proof.
  intros Hx Hf. assert (Hi : (i < length b)%nat) by (eapply nth_error_Some_lt; eauto).
  apply nth_error_ext; [now rewrite !(gaps_length fadd fsub fmul fdiv fofZ ftrunc), set_at_length|].
  intros j. rewrite !gaps_nth, !nth_error_set_at.
  destruct (Nat.ltb_spec i (length b)); [|lia].
  destruct (Nat.eqb_spec j i) as [E1|N1]; destruct (Nat.eqb_spec (S j) i) as [E2|N2]; try lia.
  - subst j. rewrite Hx, Hf. reflexivity.
  - rewrite E2, Hx, Hf. reflexivity.
  - reflexivity.
Qed.

Lemma gaps_snoc (b : list bin) vl fl v c :
  nth_error b (length b - 1) = Some (vl, fl) -> gaps A (b ++ [(v, c)]) = gaps A b ++ [fsub v vl].
Proof.
  induction b as [|[x fx] t IH]; [discriminate|].
  destruct t as [|[y fy] t'].
  - cbn. intros H; inversion H; subst. reflexivity.
  - intros H. change (gaps A (((x, fx) :: (y, fy) :: t') ++ [(v, c)])) with (fsub y x :: gaps A (((y, fy) :: t') ++ [(v, c)])).
    rewrite IH; [reflexivity|].
    cbn [length] in *. replace (S (S (length t')) - 1)%nat with (S (length t')) in H by lia.
    replace (S (length t') - 1)%nat with (length t') by lia. exact H.
Qed.

Lemma is_min_In m d x : is_min m d -> In x d -> m <= x.
Proof. intros [L _] H. now apply L. Qed.

(* ---------- _trim: one iteration keeps the cache exact ---------- *)
Lemma trim_step_exact (s s' : st) : cache_exact s -> trim_step A s = Some s' -> cache_exact s'.
Proof.
  unfold cache_exact at 1, trim_step. destruct (diffs s) as [d|] eqn:Ed.
  - intros (NE & Hd & Hmd).
    destruct (min_diff s) as [|m] eqn:Em; [discriminate|].
    destruct (index_of A m d) as [i|] eqn:Ei; [|discriminate]. cbn [bind].
    destruct (nth_error (bins s) i) as [[v1 f1]|] eqn:H1; [|discriminate].
    destruct (nth_error (bins s) (S i)) as [[v2 f2]|] eqn:H2; [|discriminate]. cbn [bind].
    destruct (nth_error d i) as [gi|] eqn:Hgi; [|discriminate]. cbn [bind].
    set (cm := pmin A (pmax A (centroid A v1 f1 v2 f2) v1) v2).
    set (b' := set_at i (cm, (f1 + f2)%Z) (remove_at (S i) (bins s))).
    assert (L2 : (S i < length (bins s))%nat) by (eapply nth_error_Some_lt; eauto).
    assert (Ld : length d = (length (bins s) - 1)%nat) by (rewrite Hd; apply (gaps_length fadd fsub fmul fdiv fofZ ftrunc)).
    assert (Lb' : length b' = (length (bins s) - 1)%nat).
    { unfold b'. rewrite set_at_length, remove_at_length; lia. }
    assert (Nb' : forall k, nth_error b' k = if Nat.eqb k i then Some (cm, (f1 + f2)%Z)
                                             else if Nat.ltb k (S i) then nth_error (bins s) k else nth_error (bins s) (S k)).
    { intros k. unfold b'. rewrite nth_error_set_at, nth_error_remove_at, remove_at_length by lia.
      destruct (Nat.eqb_spec k i); [|reflexivity]. destruct (Nat.ltb_spec i (length (bins s) - 1)); [reflexivity|lia]. }
    set (sX := mkst b' (hmin s) (hmax s) (Some (remove_at i d)) (Fin m) (cap s)).
    destruct (update_diffs_exact sX i (remove_at i d)) as (md' & U & _).
    + reflexivity.
    + cbn [bins sX]. rewrite remove_at_length by lia. lia.
    + cbn [bins sX]. lia.
    + intros j N1 N2. cbn [bins sX]. rewrite nth_error_remove_at, gaps_nth, !Nb'.
      destruct (Nat.eqb_spec j i); [lia|]. destruct (Nat.eqb_spec (S j) i); [lia|].
      rewrite Hd, !gaps_nth.
      destruct (Nat.ltb_spec j i).
      * destruct (Nat.ltb_spec j (S i)); [|lia]. destruct (Nat.ltb_spec (S j) (S i)); [|lia]. reflexivity.
      * destruct (Nat.ltb_spec j (S i)); [lia|]. destruct (Nat.ltb_spec (S j) (S i)); [lia|]. reflexivity.
    + fold sX. rewrite U. cbn [bind diffs with_cache bins sX].
      destruct (lmin A (gaps A b')) as [m2|] eqn:Hm2; [|discriminate]. cbn [bind].
      intros H; inversion H; subst s'; clear H.
      unfold cache_exact. cbn [diffs with_cache bins sX]. split; [|split; [reflexivity|]].
      * intros Hn. rewrite Hn in Lb'. cbn in Lb'. lia.
      * cbn. now apply lmin_is_min.
  - intros _. destruct (argmin A (gaps A (bins s))) as [i|]; [|discriminate]. cbn [bind].
    destruct (nth_error (bins s) i) as [[v1 f1]|]; [|discriminate].
    destruct (nth_error (bins s) (S i)) as [[v2 f2]|]; [|discriminate]. cbn [bind].
    intros H; inversion H; subst. unfold cache_exact. cbn [diffs with_bins]. now rewrite Ed.
Qed.

Lemma trim_exact (fuel : nat) : forall (s s' : st), cache_exact s -> trim A fuel s = Some s' -> cache_exact s'.
Proof.
  induction fuel as [|k IH]; intros s s' Hc; cbn [trim].
  - destruct (Nat.leb _ _); [intros H; inversion H; now subst|discriminate].
  - destruct (Nat.leb _ _); [intros H; inversion H; now subst|].
    destruct (trim_step A s) as [s1|] eqn:T; [|discriminate]. cbn [bind].
    apply IH. eapply trim_step_exact; eauto.
Qed.


(* ---------- the pieces of update() ---------- *)
Lemma ensure_cache_exact (s s1 : st) :
  cache_exact s -> bins s <> [] -> ensure_cache A s = Some s1 -> cache_exact s1 /\ bins s1 = bins s.
Proof.
  unfold ensure_cache. intros Hc NE. destruct (diffs s) as [d|] eqn:Ed.
  - intros H; inversion H; subst. now split.
  - destruct (lmin A (gaps A (bins s))) as [m|] eqn:Hm; [|discriminate]. cbn [bind].
    intros H; inversion H; subst. split; [|reflexivity].
    unfold cache_exact. cbn [diffs with_cache bins min_diff]. split; [exact NE|split; [reflexivity|]].
    cbn. now apply lmin_is_min.
Qed.

Lemma hit_exact (s : st) pos vi fi c :
  cache_exact s -> nth_error (bins s) pos = Some (vi, fi) ->
  cache_exact (with_bins s (set_at pos (vi, (fi + c)%Z) (bins s))).
Proof.
  unfold cache_exact. cbn [diffs with_bins bins min_diff]. destruct (diffs s) as [d|]; [|trivial].
  intros (NE & Hd & Hm) Hn. split; [|split].
  - intros E. apply (f_equal (@length bin)) in E. rewrite set_at_length in E. destruct (bins s); [congruence|discriminate].
  - rewrite (gaps_set_fst _ _ _ _ Hn); [exact Hd|reflexivity].
  - exact Hm.
Qed.

Lemma pre_min_of_exact md d i : md_exact md d -> pre_min md d i.
Proof.
  destruct md as [|m]; cbn.
  - intros -> j x H. destruct j; discriminate.
  - intros Hm. split.
    + intros j x Hj _ _. apply (is_min_In m d x Hm). eapply nth_error_In; eauto.
    + apply is_min'_iff in Hm. exact (proj2 Hm).
Qed.

Lemma in_place_exact (s1 s' : st) v c ib : cache_exact s1 -> in_place A s1 v c ib = Some s' -> cache_exact s'.
Proof.
  unfold in_place. intros Hc. destruct (nth_error (bins s1) ib) as [[cv cf]|] eqn:Hib; [|discriminate]. cbn [bind].
  set (m := pmin A (pmax A (centroid A cv cf v c) (pmin A cv v)) (pmax A cv v)).
  set (b' := set_at ib (m, (cf + c)%Z) (bins s1)).
  assert (Lib : (ib < length (bins s1))%nat) by (eapply nth_error_Some_lt; eauto).
  unfold cache_exact in Hc. destruct (diffs s1) as [d|] eqn:Ed.
  - destruct Hc as (NE & Hd & Hm).
    destruct (update_diffs_exact (with_bins s1 b') ib d) as (md' & U & X).
    + cbn [diffs with_bins]. exact Ed.
    + cbn [bins with_bins]. unfold b'. rewrite set_at_length, Hd. apply (gaps_length fadd fsub fmul fdiv fofZ ftrunc).
    + cbn [bins with_bins]. unfold b'. now rewrite set_at_length.
    + intros j N1 N2. cbn [bins with_bins]. rewrite Hd, !gaps_nth. unfold b'. rewrite !nth_error_set_at.
      destruct (Nat.eqb_spec j ib); [lia|]. destruct (Nat.eqb_spec (S j) ib); [lia|]. reflexivity.
    + rewrite U. intros H; inversion H; subst s'; clear H.
      unfold cache_exact. cbn [diffs with_cache bins with_bins min_diff]. split; [|split; [reflexivity|]].
      * intros E. apply (f_equal (@length bin)) in E. unfold b' in E. rewrite set_at_length in E. cbn in E. lia.
      * apply X. cbn [min_diff with_bins]. now apply pre_min_of_exact.
  - unfold update_diffs. cbn [diffs with_bins]. rewrite Ed. intros H; inversion H; subst.
    unfold cache_exact. cbn [diffs with_bins]. now rewrite Ed.
Qed.

Lemma bisect_left_lt (b : list bin) v vl fl :
  nth_error b (length b - 1) = Some (vl, fl) -> ~ vl <= v -> (bisect_left A b v < length b)%nat.
Proof.
  induction b as [|[x f] t IH]; [discriminate|]. intros Hl Hv. cbn [bisect_left length].
  destruct (ltb A x v || (eqb A x v && Z.ltb f 1)) eqn:E; [|lia].
  destruct t as [|y t'].
  - cbn in Hl. inversion Hl; subst. cbn [ltb eqb A] in E.
    destruct (Qltb_spec vl v); [lra|]. destruct (Qeqb_spec vl v); [lra|]. discriminate.
  - assert (bisect_left A (y :: t') v < length (y :: t'))%nat; [|lia].
    apply IH; [|exact Hv]. cbn [length] in *.
    replace (S (S (length t')) - 1)%nat with (S (length t')) in Hl by lia.
    replace (S (length t') - 1)%nat with (length t') by lia. exact Hl.
Qed.

Lemma locate_pos (b : list bin) v pos il :
  locate A b v = (pos, il) -> b <> [] -> if il then pos = (length b - 1)%nat else (pos < length b)%nat.
Proof.
  destruct b as [|[v0 f0] t]; [congruence|]. intros H _. unfold locate in H.
  set (b := (v0, f0) :: t) in *. assert (L0 : (0 < length b)%nat) by (cbn; lia).
  destruct (leb A v v0).
  - inversion H; subst. exact L0.
  - destruct (nth_error b (length b - 1)) as [[vl fl]|] eqn:Hl.
    + cbn [leb A] in H. destruct (Qleb_spec vl v).
      * inversion H; subst. reflexivity.
      * assert (E : pos = bisect_left A b v /\ il = false) by (split; congruence). destruct E as [-> ->].
        eapply bisect_left_lt; eauto.
    + inversion H; subst. exact L0.
Qed.

Lemma exact_reframe (s2 : st) mn mx :
  cache_exact s2 -> cache_exact (mkst (bins s2) mn mx (diffs s2) (min_diff s2) (cap s2)).
Proof. unfold cache_exact. cbn [diffs bins min_diff]. trivial. Qed.

(* the first half of the insert path: the new bin is appended / inserted and the cache patched *)
Definition insert_step (s1 : st) (v : Q) (c : Z) (pos : nat) (is_last : bool) : option st :=
  if is_last then
    do '(vl, _) <- nth_error (bins s1) (length (bins s1) - 1);
    let g := sub A v vl in
    Some (mkst (bins s1 ++ [(v, c)]) (hmin s1) (hmax s1)
               (option_map (fun d => d ++ [g]) (diffs s1))
               (match diffs s1 with Some _ => (if lt_ext A g (min_diff s1) then Fin g else min_diff s1) | None => min_diff s1 end)
               (cap s1))
  else
    update_diffs A (mkst (insert_at pos (v, c) (bins s1)) (hmin s1) (hmax s1)
                         (option_map (insert_at pos (ofZ A 0)) (diffs s1)) (min_diff s1) (cap s1)) pos.

Lemma insert_path_unfold (s1 : st) v c pos il :
  insert_path A s1 v c pos il =
  (do s2 <- insert_step s1 v c pos il;
   let mn := match hmin s2 with None => Some v | Some m => if ltb A v m then Some v else Some m end in
   let mx := match hmax s2 with None => Some v | Some m => if ltb A m v then Some v else Some m end in
   let s3 := mkst (bins s2) mn mx (diffs s2) (min_diff s2) (cap s2) in
   trim A (length (bins s3)) s3).
Proof. reflexivity. Qed.

Lemma insert_step_exact (s1 s2 : st) v c pos il :
  cache_exact s1 -> (pos <= length (bins s1))%nat ->
  (il = false -> bins s1 <> [] -> (pos < length (bins s1))%nat) ->
  insert_step s1 v c pos il = Some s2 -> cache_exact s2.
Proof.
  intros Hc Hle Hlt E2. unfold insert_step in E2.
  unfold cache_exact in Hc. destruct il.
  - (* appended after the last bin *)
    destruct (nth_error (bins s1) (length (bins s1) - 1)) as [[vl fl]|] eqn:Hl; [|discriminate]. cbn [bind] in E2.
    inversion E2; subst s2; clear E2. unfold cache_exact. cbn [diffs bins min_diff].
    destruct (diffs s1) as [d|]; cbn [option_map]; [|trivial].
    destruct Hc as (NE & Hd & Hm). split; [|split].
    + intros E. apply (f_equal (@length bin)) in E. rewrite app_length in E. cbn in E. lia.
    + rewrite (gaps_snoc _ vl fl v c Hl), Hd. reflexivity.
    + cbn [sub A]. set (g := fsub v vl). destruct (min_diff s1) as [|m]; cbn [lt_ext ltb A] in *.
      * cbn in Hm. rewrite Hm. cbn. split; [intros x [<-|[]]; lra|exists g; split; [now left|reflexivity]].
      * destruct Hm as [L (x & Ix & Ex)]. destruct (Qltb_spec g m) as [Hg|Hg]; cbn; split.
        -- intros y Hy. apply in_app_or in Hy as [Hy|[<-|[]]]; [specialize (L y Hy); lra|lra].
        -- exists g. split; [apply in_or_app; right; now left|reflexivity].
        -- intros y Hy. apply in_app_or in Hy as [Hy|[<-|[]]]; [now apply L|lra].
        -- exists x. split; [apply in_or_app; now left|exact Ex].
  - (* inserted strictly inside, or before the first bin *)
    set (b' := insert_at pos (v, c) (bins s1)) in *.
    assert (Nb' : forall k, nth_error b' k = if Nat.ltb k pos then nth_error (bins s1) k
                                             else if Nat.eqb k pos then Some (v, c) else nth_error (bins s1) (k - 1)).
    { intros k. unfold b'. now apply nth_error_insert_at. }
    destruct (diffs s1) as [d|] eqn:Ed; cbn [option_map] in E2.
    + destruct Hc as (NE & Hd & Hm). specialize (Hlt eq_refl NE).
      assert (Ld : length d = (length (bins s1) - 1)%nat) by (rewrite Hd; apply (gaps_length fadd fsub fmul fdiv fofZ ftrunc)).
      set (d' := insert_at pos (fofZ 0%Z) d) in *.
      assert (Nd' : forall k, nth_error d' k = if Nat.ltb k pos then nth_error d k
                                               else if Nat.eqb k pos then Some (fofZ 0%Z) else nth_error d (k - 1)).
      { intros k. unfold d'. apply nth_error_insert_at. lia. }
      set (sX := mkst b' (hmin s1) (hmax s1) (Some d') (min_diff s1) (cap s1)) in *.
      destruct (update_diffs_exact sX pos d') as (md' & U & X).
      * reflexivity.
      * cbn [bins sX]. unfold d', b'. rewrite !insert_at_length. lia.
      * cbn [bins sX]. unfold b'. rewrite insert_at_length. lia.
      * intros j N1 N2. cbn [bins sX]. rewrite Nd', gaps_nth, !Nb', Hd, !gaps_nth.
        destruct (Nat.eqb_spec j pos); [lia|]. destruct (Nat.eqb_spec (S j) pos); [lia|].
        destruct (Nat.ltb_spec j pos).
        -- destruct (Nat.ltb_spec (S j) pos); [reflexivity|lia].
        -- destruct (Nat.ltb_spec (S j) pos); [lia|].
           replace (S j - 1)%nat with (S (j - 1)) by lia. reflexivity.
      * cbn [ofZ A] in E2. fold d' in E2. fold sX in E2. rewrite U in E2. inversion E2; subst s2; clear E2.
        unfold cache_exact. cbn [diffs with_cache bins sX min_diff]. split; [|split; [reflexivity|]].
        -- intros E. apply (f_equal (@length bin)) in E. unfold b' in E. rewrite insert_at_length in E. discriminate.
        -- apply X. cbn [min_diff sX]. destruct (min_diff s1) as [|m]; cbn in Hm |- *.
           ++ subst d. rewrite Hm in *. cbn [length] in *. intros j x Hj. rewrite Nd' in Hj.
              destruct (Nat.ltb_spec j pos); [destruct j; discriminate|].
              destruct (Nat.eqb_spec j pos); [now right|]. destruct (j - 1)%nat; discriminate.
           ++ split.
              ** intros j x Hj N1 N2. rewrite Nd' in Hj. destruct (Nat.ltb j pos).
                 --- apply (is_min_In m d x Hm). eapply nth_error_In; eauto.
                 --- destruct (Nat.eqb_spec j pos); [lia|]. apply (is_min_In m d x Hm). eapply nth_error_In; eauto.
              ** apply is_min'_iff in Hm. destruct Hm as [_ (q & x & Hq & Ex)].
                 destruct (Nat.ltb_spec q pos) as [Hqp|Hqp].
                 --- exists q, x. split; [|exact Ex]. rewrite Nd'. destruct (Nat.ltb_spec q pos); [exact Hq|lia].
                 --- exists (S q), x. split; [|exact Ex]. rewrite Nd'. destruct (Nat.ltb_spec (S q) pos); [lia|].
                     destruct (Nat.eqb_spec (S q) pos); [lia|]. replace (S q - 1)%nat with q by lia. exact Hq.
    + unfold update_diffs in E2. cbn [diffs] in E2. inversion E2; subst s2. unfold cache_exact. cbn [diffs]. trivial.
Qed.

Lemma insert_path_exact (s1 s' : st) v c pos il :
  cache_exact s1 -> (pos <= length (bins s1))%nat ->
  (il = false -> bins s1 <> [] -> (pos < length (bins s1))%nat) ->
  insert_path A s1 v c pos il = Some s' -> cache_exact s'.
Proof.
  intros Hc Hle Hlt. rewrite insert_path_unfold.
  destruct (insert_step s1 v c pos il) as [s2|] eqn:E2; [|discriminate].
  cbn [bind]. intros HT. eapply trim_exact; [|exact HT]. apply exact_reframe.
  eapply insert_step_exact; eauto.
Qed.

Lemma choose_in_place_keeps (s1 : st) v pos r : choose_in_place A s1 v pos = Some r -> True.
Proof. trivial. Qed.

Lemma update_miss_exact (s s' : st) v c pos il :
  cache_exact s -> (pos <= length (bins s))%nat ->
  (il = false -> bins s <> [] -> (pos < length (bins s))%nat) ->
  update_miss A s v c pos il = Some s' -> cache_exact s'.
Proof.
  intros Hc Hle Hlt. unfold update_miss.
  destruct (negb il && Nat.ltb 0 pos && Nat.leb (cap s) (length (bins s))) eqn:Et.
  - destruct (ensure_cache A s) as [s1|] eqn:E1; [|discriminate]. cbn [bind].
    assert (NE : bins s <> []).
    { apply andb_true_iff in Et as [Et _]. apply andb_true_iff in Et as [_ Et]. apply Nat.ltb_lt in Et.
      intros E. rewrite E in Hle. cbn in Hle. lia. }
    destruct (ensure_cache_exact s s1 Hc NE E1) as [Hc1 Hb1].
    destruct (choose_in_place A s1 v pos) as [[ib|]|]; [| |discriminate]; cbn [bind].
    + intros H. eapply in_place_exact; [exact Hc1|exact H].
    + intros H. eapply insert_path_exact; [exact Hc1| | |exact H]; rewrite Hb1; auto.
  - cbn [bind]. intros H. eapply insert_path_exact; [exact Hc| | |exact H]; auto.
Qed.

(* update keeps an exact cache exact *)
Theorem update_exact (s s' : st) v c : cache_exact s -> update A s v c = Some s' -> cache_exact s'.
Proof.
  intros Hc. unfold update. destruct (Z.leb c 0); [discriminate|].
  destruct (locate A (bins s) v) as [pos il] eqn:El.
  assert (P1 : bins s <> [] -> if il then pos = (length (bins s) - 1)%nat else (pos < length (bins s))%nat)
    by (apply (locate_pos _ v); exact El).
  assert (P2 : (pos <= length (bins s))%nat).
  { destruct (bins s) as [|b t] eqn:Eb.
    - cbn in El. inversion El; subst. cbn; lia.
    - specialize (P1 ltac:(discriminate)). destruct il; cbn [length] in *; lia. }
  assert (P3 : il = false -> bins s <> [] -> (pos < length (bins s))%nat).
  { intros -> NE. exact (P1 NE). }
  destruct (nth_error (bins s) pos) as [[vi fi]|] eqn:Hn.
  - destruct (eqb A vi v).
    + intros H; inversion H; subst. now apply hit_exact.
    + intros H. eapply update_miss_exact; [exact Hc| | |exact H]; auto.
  - intros H. eapply update_miss_exact; [exact Hc| | |exact H]; auto.
Qed.


(* ---------- lifted to every operation ---------- *)
Lemma feed_exact (l : list bin) : forall (s s' : st), cache_exact s -> feed A s l = Some s' -> cache_exact s'.
Proof.
  induction l as [|[v c] t IH]; intros s s' Hc; cbn [feed].
  - intros H; inversion H; now subst.
  - destruct (update A s v c) as [s1|] eqn:U; [|discriminate]. cbn [bind]. apply IH. eapply update_exact; eauto.
Qed.

Lemma merge_exact (s1 s2 s' : st) : cache_exact s1 -> merge A s1 s2 = Some s' -> cache_exact s'.
Proof. unfold merge. apply feed_exact. Qed.

Lemma hadd_exact (s1 s2 s' : st) : cache_exact s1 -> hadd A s1 s2 = Some s' -> cache_exact s'.
Proof.
  unfold hadd. intros Hc. destruct (merge A s1 s2) as [s|] eqn:M; [|discriminate]. cbn [bind].
  destruct (omin A (hmin s) (hmin s2)); [|discriminate]. destruct (omax A (hmax s) (hmax s2)); [|discriminate]. cbn [bind].
  intros H; inversion H; subst. apply exact_reframe. eapply merge_exact; eauto.
Qed.

Lemma bulkload_exact (s s' : st) pairs dmin dmax :
  cache_exact s -> bulkload A s pairs dmin dmax = Some s' -> cache_exact s'.
Proof.
  unfold bulkload. intros Hc. destruct pairs as [|p ps]; [intros H; inversion H; now subst|].
  destruct (feed A s _) as [s1|] eqn:F; [|discriminate]. cbn [bind].
  intros H; inversion H; subst. apply exact_reframe. eapply feed_exact; eauto.
Qed.

Lemma load_exact (dc : nat) (b : list bin) mn mx : b <> [] -> cache_exact (load A dc b mn mx).
Proof.
  intros NE. unfold load, cache_exact. cbn [diffs bins min_diff]. split; [exact NE|split; [reflexivity|]].
  destruct (lmin A (gaps A b)) as [m|] eqn:E; cbn.
  - now apply lmin_is_min.
  - destruct (gaps A b); [reflexivity|discriminate].
Qed.

Lemma empty_exact (c : nat) : cache_exact (empty c).
Proof. exact I. Qed.

(* ---------- whole programs ---------- *)
Notation env := (@env Q).
Definition env_exact (e : env) : Prop := forall k s, get e k = Some s -> cache_exact s.

Lemma get_put_same' (e : env) k (s : st) : get (put e k s) k = Some s.
Proof. unfold get. revert e; induction k as [|k IH]; intros [|h t]; cbn [put nth_error]; auto. Qed.

Lemma get_put_other' (e : env) k j (s : st) : k <> j -> get (put e k s) j = get e j.
Proof.
  unfold get. revert e j; induction k as [|k IH]; intros e j H.
  - destruct j as [|j]; [congruence|]. destruct e as [|h t]; cbn [put nth_error]; [now destruct j|reflexivity].
  - destruct j as [|j].
    + destruct e as [|h t]; cbn [put nth_error]; reflexivity.
    + destruct e as [|h t]; cbn [put nth_error].
      * rewrite (IH [] j ltac:(congruence)). now destruct j.
      * apply IH. congruence.
Qed.

Lemma env_exact_put (e : env) k s : env_exact e -> cache_exact s -> env_exact (put e k s).
Proof.
  intros He Hs j s' Hj. destruct (Nat.eq_dec k j) as [->|Hne].
  - rewrite get_put_same' in Hj. inversion Hj; subst. exact Hs.
  - rewrite get_put_other' in Hj by exact Hne. now apply (He j).
Qed.

(* the only requirement: load() is not handed an empty list of bins (dump() of an empty
   histogram raises, so dump/load never does that) *)
Definition op_exact_ok (o : @op Q) : Prop :=
  match o with OLoadB _ _ b _ _ => b <> [] | _ => True end.

Definition obs_exact (x : @obs Q) : Prop :=
  match x with BState s => cache_exact s | _ => True end.

Lemma exec_exact (e : env) (o : @op Q) :
  env_exact e -> op_exact_ok o -> env_exact (fst (exec A e o)) /\ obs_exact (snd (exec A e o)).
Proof.
  intros He Ho.
  assert (K : forall k (r : option st), (forall s, r = Some s -> cache_exact s) ->
              env_exact (fst (match r with Some s => (put e k s, BState s) | None => (e, BRaise) end)) /\
              obs_exact (snd (match r with Some s => (put e k s, BState s) | None => (e, BRaise) end))).
  { intros k [s|] H; cbn [fst snd obs_exact]; [|now split]. split; [apply env_exact_put; auto|auto]. }
  destruct o as [k c|k v c|k j|k j|k p mn mx|k dc|k dc b mn mx|k x|k q]; cbn [exec op_exact_ok] in *.
  - apply (K k (Some (empty c))). intros s H; inversion H; subst. apply empty_exact.
  - apply K. intros s'. destruct (get e k) as [s|] eqn:Ek; [|discriminate]. cbn [bind]. apply update_exact. eapply He; eauto.
  - apply K. intros s'. destruct (get e k) as [s1|] eqn:Ek; [|discriminate]. destruct (get e j) as [s2|]; [|discriminate].
    cbn [bind]. apply merge_exact. eapply He; eauto.
  - apply K. intros s'. destruct (get e k) as [s1|] eqn:Ek; [|discriminate]. destruct (get e j) as [s2|]; [|discriminate].
    cbn [bind]. apply hadd_exact. eapply He; eauto.
  - apply K. intros s'. destruct (get e k) as [s|] eqn:Ek; [|discriminate]. cbn [bind]. apply bulkload_exact. eapply He; eauto.
  - apply K. intros s'. destruct (get e k) as [s|] eqn:Ek; [|discriminate]. cbn [bind].
    destruct (bins s) as [|b0 t] eqn:Eb; [discriminate|]. intros H; inversion H; subst. apply load_exact. discriminate.
  - apply (K k (Some (load A dc b mn mx))). intros s' H; inversion H; subst. now apply load_exact.
  - cbn [fst snd]. split; [exact He|]. now destruct (get e k).
  - cbn [fst snd]. split; [exact He|]. now destruct (get e k).
Qed.

Theorem run_prog_exact (p : list (@op Q)) : forall (e : env),
  env_exact e -> Forall op_exact_ok p -> Forall obs_exact (run_prog A e p).
Proof.
  induction p as [|o r IH]; intros e He Hp; cbn [run_prog]; [constructor|].
  inversion Hp as [|? ? Ho Hr]; subst. destruct (exec_exact e o He Ho) as [He' Hx].
  destruct (exec A e o) as [e' x]. cbn [fst snd] in *. constructor; [exact Hx|]. now apply IH.
Qed.

End CacheExact.
