(* C12 - sessions: GroupBy and DataFrame as objects that are used again after the frame was
   appended to / scanned / materialised.  Whatever a GroupBy object holds from earlier calls
   (self._group_keys; emptied at the start of every pass since 5771d3f, F-C12-5), at every
   state of the heap aggregate and groups answer as a fresh computation over the rows the
   frame holds now, for list-backed and generator-backed frames alike. *)
From Coq Require Import List ZArith QArith Bool Lia PeanoNat.
From Orso Require Import Model.C12 Proofs.C12_Dict Proofs.C12.
Import ListNotations.
Close Scope Q_scope.
Close Scope Z_scope.

(* ---------- set_nth ---------- *)
Lemma nth_error_set_nth {A : Type} (x : A) l : forall i j,
  nth_error (set_nth i x l) j =
  if Nat.eqb i j then option_map (fun _ => x) (nth_error l i) else nth_error l j.
Proof.
  induction l as [|y r IH]; intros i j.
  - destruct i, j; cbn; try reflexivity. destruct (Nat.eqb i j); reflexivity.
  - destruct i as [|i], j as [|j]; cbn [set_nth nth_error Nat.eqb option_map]; try reflexivity.
    apply IH.
Qed.

Section Session.
Variable K : Type.
Variable K_eqb : K -> K -> bool.
Hypothesis K_eqb_spec : forall a b, K_eqb a b = true <-> a = b.

Notation frame := (frame K).
Notation heap := (heap K).

(* ---------- the methods of a GroupBy object vs the functions of the frame ---------- *)
Lemma gb_aggregate_eq memo (f : frame) keycols reqs :
  fst (gb_aggregate K K_eqb memo f keycols reqs) = aggregate K K_eqb f keycols reqs.
Proof.
  unfold gb_aggregate, aggregate, group_keys. destruct (group_indices (fnames f) keycols); [|reflexivity].
  unfold iterate. destruct (apply_all _ _ _); reflexivity.
Qed.

Lemma gb_groups_eq memo (f : frame) keycols :
  fst (gb_groups K K_eqb memo f keycols) = groups K K_eqb f keycols.
Proof. unfold gb_groups, groups, group_keys. destruct (group_indices (fnames f) keycols); reflexivity. Qed.

(* what the object holds afterwards: the bookkeeping of this pass (untouched by ValueError) *)
Lemma gb_aggregate_memo memo (f : frame) keycols reqs :
  snd (gb_aggregate K K_eqb memo f keycols reqs) =
  match group_indices (fnames f) keycols with
  | None => memo
  | Some gidx => group_keys K K_eqb (fnames f) gidx (frows f)
  end.
Proof.
  unfold gb_aggregate, group_keys. destruct (group_indices (fnames f) keycols); [|reflexivity].
  unfold iterate. destruct (apply_all _ _ _); reflexivity.
Qed.

Lemma gb_groups_memo memo (f : frame) keycols :
  snd (gb_groups K K_eqb memo f keycols) =
  match group_indices (fnames f) keycols with
  | None => memo
  | Some gidx => group_keys K K_eqb (fnames f) gidx (frows f)
  end.
Proof. unfold gb_groups, group_keys. destruct (group_indices (fnames f) keycols); reflexivity. Qed.

Lemma run_cons h o ops :
  run K K_eqb h (o :: ops) =
  (fst (run K K_eqb (fst (step K K_eqb h o)) ops), snd (step K K_eqb h o) :: snd (run K K_eqb (fst (step K K_eqb h o)) ops)).
Proof.
  cbn [run]. destruct (step K K_eqb h o) as [h1 x]. cbn [fst snd].
  destruct (run K K_eqb h1 ops) as [h2 xs]. reflexivity.
Qed.

Lemma run_snoc ops : forall h o,
  run K K_eqb h (ops ++ [o]) =
  (fst (step K K_eqb (fst (run K K_eqb h ops)) o),
   snd (run K K_eqb h ops) ++ [snd (step K K_eqb (fst (run K K_eqb h ops)) o)]).
Proof.
  induction ops as [|p ops IH]; intros h o.
  - cbn [app]. rewrite run_cons. cbn [run fst snd app]. reflexivity.
  - cbn [app]. rewrite !run_cons, IH. cbn [fst snd app]. reflexivity.
Qed.

(* ---------- aggregate / groups on a GroupBy object, at any state of the heap ---------- *)
Theorem session_aggregate (h : heap) g reqs gb (f : frame) :
  reqs <> [] ->
  nth_error (hgbs h) g = Some gb -> nth_error (hframes h) (gframe gb) = Some f ->
  snd (step K K_eqb h (OAggregate g reqs)) =
    OutRes (spec_aggregate K K_eqb (fnames f) (frows f) (gcols gb) reqs)
  /\ nth_error (hframes (fst (step K K_eqb h (OAggregate g reqs)))) (gframe gb) =
     Some (snd (aggregate K K_eqb f (gcols gb) reqs)).
Proof.
  intros Hne Hgb Hf. cbn [step]. rewrite Hgb, Hf.
  pose proof (gb_aggregate_eq (gmemo gb) f (gcols gb) reqs) as Hr.
  destruct (gb_aggregate K K_eqb (gmemo gb) f (gcols gb) reqs) as [[r f'] m'] eqn:E.
  cbn [fst snd hframes] in *. rewrite <- Hr. cbn [fst snd]. split.
  - f_equal. change r with (fst (r, f')). rewrite Hr. exact (code_eq_spec K K_eqb K_eqb_spec f (gcols gb) reqs Hne).
  - rewrite nth_error_set_nth, Nat.eqb_refl, Hf. reflexivity.
Qed.

Theorem session_groups (h : heap) g gb (f : frame) :
  nth_error (hgbs h) g = Some gb -> nth_error (hframes h) (gframe gb) = Some f ->
  snd (step K K_eqb h (OGroups g)) = OutRes (fst (groups K K_eqb f (gcols gb)))
  /\ nth_error (hframes (fst (step K K_eqb h (OGroups g)))) (gframe gb) =
     Some (snd (groups K K_eqb f (gcols gb))).
Proof.
  intros Hgb Hf. cbn [step]. rewrite Hgb, Hf.
  pose proof (gb_groups_eq (gmemo gb) f (gcols gb)) as Hr.
  destruct (gb_groups K K_eqb (gmemo gb) f (gcols gb)) as [[r f'] m'] eqn:E.
  cbn [fst snd hframes] in *. rewrite <- Hr. cbn [fst snd]. split; [reflexivity|].
  rewrite nth_error_set_nth, Nat.eqb_refl, Hf. reflexivity.
Qed.

(* what a GroupBy object holds after a call is the bookkeeping of that call's pass alone *)
Theorem session_memo_is_last_pass (h : heap) g gb (f : frame) o :
  nth_error (hgbs h) g = Some gb -> nth_error (hframes h) (gframe gb) = Some f ->
  (o = OGroups g \/ exists reqs, o = OAggregate g reqs) ->
  nth_error (hgbs (fst (step K K_eqb h o))) g =
  Some (mkgb (gframe gb) (gcols gb)
         match group_indices (fnames f) (gcols gb) with
         | None => gmemo gb
         | Some gidx => group_keys K K_eqb (fnames f) gidx (frows f)
         end).
Proof.
  intros Hgb Hf [->|[reqs ->]]; cbn [step]; rewrite Hgb, Hf.
  - pose proof (gb_groups_memo (gmemo gb) f (gcols gb)) as Hm.
    destruct (gb_groups K K_eqb (gmemo gb) f (gcols gb)) as [[r f'] m'] eqn:E.
    cbn [fst snd hgbs] in *. rewrite nth_error_set_nth, Nat.eqb_refl, Hgb. cbn [option_map]. now rewrite Hm.
  - pose proof (gb_aggregate_memo (gmemo gb) f (gcols gb) reqs) as Hm.
    destruct (gb_aggregate K K_eqb (gmemo gb) f (gcols gb) reqs) as [[r f'] m'] eqn:E.
    cbn [fst snd hgbs] in *. rewrite nth_error_set_nth, Nat.eqb_refl, Hgb. cbn [option_map]. now rewrite Hm.
Qed.

End Session.
