(* C02 - lemmas about the dictionary -> row model.  Everything is list induction over an
   abstract key type with decidable equality and an abstract value type. *)
From Coq Require Import List Bool Lia Arith Permutation.
From Orso Require Import Model.C02.
Import ListNotations.

Section Proofs.
Variables K V : Type.
Variable eqK : forall a b : K, {a = b} + {a <> b}.
Variable vnone : V.

Notation dict := (list (K * V)).
Notation lookup := (lookup eqK).
Notation get_or_none := (get_or_none eqK vnone).
Notation extract := (extract eqK vnone).
Notation frame_of_dicts := (frame_of_dicts eqK vnone).
Notation frame_append := (frame_append eqK vnone).
Notation frame_appends := (frame_appends eqK vnone).
Notation dict_set := (dict_set eqK).
Notation dict_of_list := (dict_of_list eqK).
Notation as_dict := (as_dict eqK).
Notation index_of := (index_of eqK).
Notation row_get := (row_get eqK).

(* ---------- lookup ---------- *)
Lemma lookup_some_in (k : K) (v : V) (d : dict) : lookup k d = Some v -> In (k, v) d.
Proof.
  induction d as [|[k' v'] r IH]; cbn [C02.lookup]; [discriminate|].
  destruct (eqK k k') as [E|N]; intros H.
  - inversion H; subst. now left.
  - right. now apply IH.
Qed.

Lemma lookup_none_notin (k : K) (d : dict) : lookup k d = None <-> ~ In k (map fst d).
Proof.
  induction d as [|[k' v'] r IH]; cbn [C02.lookup map fst In]; [tauto|].
  destruct (eqK k k') as [E|N].
  - split; [discriminate|]. intros H. exfalso. apply H. now left.
  - rewrite IH. split; intros H; [intros [E|I]; [now apply N|now apply H]|tauto].
Qed.

Lemma in_lookup_some (k : K) (v : V) (d : dict) :
  NoDup (map fst d) -> In (k, v) d -> lookup k d = Some v.
Proof.
  induction d as [|[k' v'] r IH]; cbn [C02.lookup map fst In]; [tauto|].
  intros ND [E|I].
  - inversion E; subst. now destruct (eqK k k).
  - inversion ND as [|x l Hnotin ND']; subst.
    destruct (eqK k k') as [E|N].
    + subst. exfalso. apply Hnotin. now apply (in_map fst) in I.
    + now apply IH.
Qed.

Lemma lookup_in_iff (k : K) (v : V) (d : dict) :
  NoDup (map fst d) -> (lookup k d = Some v <-> In (k, v) d).
Proof. intros ND; split; [apply lookup_some_in|now apply in_lookup_some]. Qed.

Lemma lookup_some_key (k : K) (d : dict) : In k (map fst d) -> exists v, lookup k d = Some v.
Proof.
  intros H. destruct (lookup k d) as [v|] eqn:E; [now exists v|].
  now apply lookup_none_notin in E.
Qed.

(* a dictionary is determined by its set of items, not by their insertion order *)
Lemma lookup_perm (k : K) (d d' : dict) :
  NoDup (map fst d) -> Permutation d d' -> lookup k d = lookup k d'.
Proof.
  intros ND P.
  assert (ND' : NoDup (map fst d')) by (eapply Permutation_NoDup; [apply Permutation_map, P|exact ND]).
  destruct (lookup k d) as [v|] eqn:E.
  - symmetry. apply in_lookup_some; [exact ND'|].
    eapply Permutation_in; [exact P|]. now apply lookup_some_in.
  - symmetry. apply lookup_none_notin. apply lookup_none_notin in E.
    intros I. apply E. eapply Permutation_in; [apply Permutation_sym, Permutation_map, P|exact I].
Qed.

Lemma lookup_filter (p : K -> bool) (k : K) (d : dict) :
  p k = true -> lookup k (filter (fun kv => p (fst kv)) d) = lookup k d.
Proof.
  intros Hp. induction d as [|[k' v'] r IH]; cbn [filter C02.lookup fst]; [reflexivity|].
  destruct (p k') eqn:Pk; cbn [C02.lookup].
  - now rewrite IH.
  - destruct (eqK k k') as [E|N]; [subst; congruence|exact IH].
Qed.

Lemma lookup_cons_other (k k' : K) (v : V) (d : dict) : k <> k' -> lookup k ((k', v) :: d) = lookup k d.
Proof. intros N. cbn [C02.lookup]. now destruct (eqK k k'). Qed.

(* ---------- extract ---------- *)
Lemma extract_length (fields : list K) (d : dict) : length (extract fields d) = length fields.
Proof. apply map_length. Qed.

Lemma extract_nth_error (fields : list K) (d : dict) (i : nat) :
  nth_error (extract fields d) i = option_map (get_or_none d) (nth_error fields i).
Proof. unfold C02.extract. apply nth_error_map. Qed.

Lemma extract_nth (fields : list K) (d : dict) (i : nat) (k0 : K) :
  i < length fields ->
  nth i (extract fields d) vnone =
  match lookup (nth i fields k0) d with Some v => v | None => vnone end.
Proof.
  intros Hi. unfold C02.extract.
  rewrite (nth_indep _ vnone (get_or_none d k0)) by now rewrite map_length.
  now rewrite map_nth.
Qed.

(* past the last field there is nothing *)
Lemma extract_nth_beyond (fields : list K) (d : dict) (i : nat) :
  length fields <= i -> nth_error (extract fields d) i = None.
Proof. intros H. apply nth_error_None. now rewrite extract_length. Qed.

Lemma extract_ext (fields : list K) (d d' : dict) :
  (forall f, In f fields -> lookup f d = lookup f d') -> extract fields d = extract fields d'.
Proof.
  intros H. unfold C02.extract. apply map_ext_in. intros f I.
  unfold C02.get_or_none. now rewrite (H f I).
Qed.

Lemma extract_perm (fields : list K) (d d' : dict) :
  NoDup (map fst d) -> Permutation d d' -> extract fields d = extract fields d'.
Proof. intros ND P. apply extract_ext. intros f _. now apply lookup_perm. Qed.

Definition memK (l : list K) (k : K) : bool := if in_dec eqK k l then true else false.

Lemma extract_only_fields (fields : list K) (d : dict) :
  extract fields d = extract fields (filter (fun kv => memK fields (fst kv)) d).
Proof.
  apply extract_ext. intros f I. symmetry. apply (lookup_filter (memK fields)).
  unfold memK. now destruct (in_dec eqK f fields).
Qed.

Lemma extract_extra_key (fields : list K) (d1 d2 : dict) (k : K) (v : V) :
  ~ In k fields -> extract fields (d1 ++ (k, v) :: d2) = extract fields (d1 ++ d2).
Proof.
  intros NI. apply extract_ext. intros f I.
  assert (f <> k) by (intros ->; now apply NI).
  induction d1 as [|[k1 v1] r IH]; cbn [app C02.lookup].
  - now destruct (eqK f k).
  - destruct (eqK f k1); [reflexivity|exact IH].
Qed.

(* the first row of a frame: a dictionary read through its own keys gives back its values *)
Lemma extract_own_keys (d : dict) : NoDup (map fst d) -> extract (dict_keys d) d = map snd d.
Proof.
  intros ND. unfold C02.extract, dict_keys. rewrite map_map. apply map_ext_in.
  intros [k v] I. cbn [fst snd]. unfold C02.get_or_none. now rewrite (in_lookup_some k v d ND I).
Qed.

(* ---------- frames ---------- *)
Definition first_keys (ds : list dict) : list K :=
  match ds with [] => [] | d :: _ => dict_keys d end.

Lemma frame_columns (ds : list dict) : fst (frame_of_dicts ds) = first_keys ds.
Proof. reflexivity. Qed.

Lemma frame_rowcount (ds : list dict) : length (snd (frame_of_dicts ds)) = length ds.
Proof. unfold C02.frame_of_dicts. cbn [snd]. apply map_length. Qed.

Lemma frame_rectangular (ds : list dict) :
  Forall (fun r => length r = length (fst (frame_of_dicts ds))) (snd (frame_of_dicts ds)).
Proof.
  unfold C02.frame_of_dicts. cbn [fst snd]. apply Forall_forall. intros r I.
  apply in_map_iff in I. destruct I as [d [<- _]]. apply extract_length.
Qed.

Lemma frame_row (ds : list dict) (j : nat) :
  nth_error (snd (frame_of_dicts ds)) j = option_map (extract (first_keys ds)) (nth_error ds j).
Proof. unfold C02.frame_of_dicts. cbn [snd]. apply nth_error_map. Qed.

Lemma frame_shape (ds : list dict) :
  let f := frame_of_dicts ds in
  fst f = first_keys ds /\
  length (snd f) = length ds /\
  Forall (fun r => length r = length (fst f)) (snd f) /\
  (forall j, nth_error (snd f) j = option_map (extract (fst f)) (nth_error ds j)).
Proof.
  cbv zeta. repeat split.
  - apply frame_rowcount.
  - apply frame_rectangular.
  - intros j. apply frame_row.
Qed.

Lemma frame_cell (ds : list dict) (j i : nat) (d : dict) (k : K) :
  nth_error ds j = Some d -> nth_error (first_keys ds) i = Some k ->
  exists r, nth_error (snd (frame_of_dicts ds)) j = Some r /\
            nth_error r i = Some (match lookup k d with Some v => v | None => vnone end).
Proof.
  intros Hd Hk. exists (extract (first_keys ds) d). split.
  - rewrite frame_row, Hd. reflexivity.
  - rewrite extract_nth_error, Hk. reflexivity.
Qed.

Lemma frame_first_row (d : dict) (ds : list dict) :
  NoDup (map fst d) ->
  nth_error (snd (frame_of_dicts (d :: ds))) 0 = Some (map snd d).
Proof.
  intros ND. unfold C02.frame_of_dicts. cbn [snd map nth_error].
  now rewrite (extract_own_keys d ND).
Qed.

Lemma frame_append_shape (f : list K * list (list V)) (d : dict) :
  fst (frame_append f d) = fst f /\
  snd (frame_append f d) = snd f ++ [extract (fst f) d] /\
  length (snd (frame_append f d)) = S (length (snd f)) /\
  (Forall (fun r => length r = length (fst f)) (snd f) ->
   Forall (fun r => length r = length (fst (frame_append f d))) (snd (frame_append f d))).
Proof.
  unfold C02.frame_append. cbn [fst snd]. repeat split.
  - rewrite app_length. cbn. lia.
  - intros H. apply Forall_app. split; [exact H|]. constructor; [apply extract_length|constructor].
Qed.

Lemma frame_appends_shape (ds : list dict) (f : list K * list (list V)) :
  fst (frame_appends f ds) = fst f /\
  snd (frame_appends f ds) = snd f ++ map (extract (fst f)) ds.
Proof.
  revert f. induction ds as [|d r IH]; intros f; cbn [C02.frame_appends fold_left map].
  - now rewrite app_nil_r.
  - destruct (IH (frame_append f d)) as [H1 H2]. fold (frame_appends (frame_append f d) r).
    unfold C02.frame_appends in *. rewrite H1, H2. unfold C02.frame_append. cbn [fst snd].
    now rewrite <- app_assoc.
Qed.

(* DataFrame(ds) followed by appends of as: as if all had been given to the constructor,
   provided there was a first dictionary to take the columns from *)
Lemma frame_appends_as_constructed (d : dict) (ds more : list dict) :
  frame_appends (frame_of_dicts (d :: ds)) more = frame_of_dicts (d :: ds ++ more).
Proof.
  apply injective_projections.
  - now rewrite (proj1 (frame_appends_shape more _)).
  - rewrite (proj2 (frame_appends_shape more _)). unfold C02.frame_of_dicts. cbn [fst snd].
    now rewrite <- map_app.
Qed.

(* ---------- as_map, keys, values ---------- *)
Lemma as_map_fst (fields : list K) (row : list V) :
  length row = length fields -> map fst (as_map fields row) = fields.
Proof.
  revert row. induction fields as [|f r IH]; intros [|v w] H; cbn in *; try reflexivity; try discriminate.
  f_equal. apply IH. lia.
Qed.

Lemma as_map_snd (fields : list K) (row : list V) :
  length row = length fields -> map snd (as_map fields row) = row.
Proof.
  revert row. induction fields as [|f r IH]; intros [|v w] H; cbn in *; try reflexivity; try discriminate.
  f_equal. apply IH. lia.
Qed.

Lemma as_map_nth_error (fields : list K) (row : list V) (i : nat) :
  nth_error (as_map fields row) i =
  match nth_error fields i, nth_error row i with
  | Some f, Some v => Some (f, v)
  | _, _ => None
  end.
Proof.
  unfold C02.as_map. revert row i. induction fields as [|f r IH]; intros [|v w] [|i]; cbn; try reflexivity.
  - now destruct (nth_error r i).
  - apply IH.
Qed.

Lemma as_map_extract (fields : list K) (d : dict) :
  as_map fields (extract fields d) = map (fun f => (f, get_or_none d f)) fields.
Proof.
  unfold C02.as_map, C02.extract. induction fields as [|f r IH]; cbn; [reflexivity|now rewrite IH].
Qed.

(* ---------- dict(pairs) ---------- *)
Lemma dict_set_fresh (k : K) (v : V) (d : dict) :
  ~ In k (map fst d) -> dict_set k v d = d ++ [(k, v)].
Proof.
  induction d as [|[k' v'] r IH]; cbn [C02.dict_set map fst In app]; intros H; [reflexivity|].
  destruct (eqK k k') as [E|N]; [exfalso; apply H; now left|].
  f_equal. apply IH. tauto.
Qed.

Lemma lookup_dict_set (k k' : K) (v : V) (d : dict) :
  lookup k (dict_set k' v d) = if eqK k k' then Some v else lookup k d.
Proof.
  induction d as [|[k1 v1] r IH]; cbn [C02.dict_set C02.lookup].
  - reflexivity.
  - destruct (eqK k' k1) as [E|N]; cbn [C02.lookup].
    + subst k1. destruct (eqK k k'); reflexivity.
    + destruct (eqK k k1) as [E1|N1].
      * subst k1. destruct (eqK k k') as [E2|_]; [subst; now elim N|reflexivity].
      * exact IH.
Qed.

Lemma dict_set_keys (k : K) (v : V) (d : dict) :
  map fst (dict_set k v d) = if in_dec eqK k (map fst d) then map fst d else map fst d ++ [k].
Proof.
  induction d as [|[k1 v1] r IH]; cbn [C02.dict_set map fst app].
  - now destruct (in_dec eqK k []).
  - destruct (eqK k k1) as [E|N]; cbn [map fst].
    + subst. destruct (in_dec eqK k1 (k1 :: map fst r)) as [_|NI]; [reflexivity|exfalso; apply NI; now left].
    + rewrite IH. destruct (in_dec eqK k (map fst r)) as [I|NI];
        destruct (in_dec eqK k (k1 :: map fst r)) as [I'|NI']; try reflexivity.
      * exfalso. apply NI'. now right.
      * destruct I' as [E|I']; [now elim N|contradiction].
Qed.

Lemma dict_set_nodup (k : K) (v : V) (d : dict) :
  NoDup (map fst d) -> NoDup (map fst (dict_set k v d)).
Proof.
  intros ND. rewrite dict_set_keys. destruct (in_dec eqK k (map fst d)) as [I|NI]; [exact ND|].
  apply (Permutation_NoDup (l := k :: map fst d)); [apply Permutation_cons_append|now constructor].
Qed.

Definition fold_set (acc : dict) (l : list (K * V)) : dict :=
  fold_left (fun d kv => dict_set (fst kv) (snd kv) d) l acc.

Lemma fold_set_nodup_keys (l : list (K * V)) (acc : dict) :
  NoDup (map fst acc) -> NoDup (map fst (fold_set acc l)).
Proof.
  revert acc. induction l as [|[k v] r IH]; intros acc ND; cbn; [exact ND|].
  apply IH. now apply dict_set_nodup.
Qed.

(* distinct names: dict(pairs) is the pair list itself, order included *)
Lemma fold_set_distinct (l : list (K * V)) (acc : dict) :
  NoDup (map fst (acc ++ l)) -> fold_set acc l = acc ++ l.
Proof.
  revert acc. induction l as [|[k v] r IH]; intros acc ND; cbn [fold_set fold_left fst snd].
  - now rewrite app_nil_r.
  - assert (NI : ~ In k (map fst acc)).
    { rewrite map_app in ND. cbn [map fst] in ND. apply NoDup_remove_2 in ND.
      intros I. apply ND. apply in_or_app. now left. }
    rewrite (dict_set_fresh k v acc NI). fold (fold_set (acc ++ [(k, v)]) r).
    rewrite IH; rewrite <- app_assoc; [reflexivity|exact ND].
Qed.

Lemma dict_of_list_distinct (l : list (K * V)) : NoDup (map fst l) -> dict_of_list l = l.
Proof. intros ND. apply (fold_set_distinct l []). exact ND. Qed.

(* any names: every name keeps a value, and when every pair (k, v) of the list has v = g k
   (which is what extraction from a dictionary produces) that value is g k *)
Lemma fold_set_lookup_fun (g : K -> V) (l : list (K * V)) (acc : dict) (k : K) :
  (forall k' v', In (k', v') l -> v' = g k') ->
  lookup k (fold_set acc l) =
  if in_dec eqK k (map fst l) then Some (g k) else lookup k acc.
Proof.
  revert acc. induction l as [|[k1 v1] r IH]; intros acc H; cbn [fold_set fold_left fst snd map].
  - now destruct (in_dec eqK k []).
  - fold (fold_set (dict_set k1 v1 acc) r). rewrite IH by (intros k' v' I; apply H; now right).
    destruct (in_dec eqK k (map fst r)) as [I|NI]; destruct (in_dec eqK k (k1 :: map fst r)) as [I'|NI'];
      try reflexivity.
    + exfalso. apply NI'. now right.
    + rewrite lookup_dict_set. destruct (eqK k k1) as [E|N].
      * subst. f_equal. apply H. now left.
      * destruct I' as [E|I']; [now elim N|contradiction].
    + rewrite lookup_dict_set. destruct (eqK k k1) as [E|N]; [|reflexivity].
      exfalso. apply NI'. now left.
Qed.

(* last value wins, in general *)
Lemma fold_set_lookup_last (l : list (K * V)) (acc : dict) (k : K) :
  lookup k (fold_set acc l) =
  match lookup k (rev l) with Some v => Some v | None => lookup k acc end.
Proof.
  revert acc. induction l as [|[k1 v1] r IH]; intros acc; cbn [fold_set fold_left fst snd rev].
  - reflexivity.
  - fold (fold_set (dict_set k1 v1 acc) r). rewrite IH, lookup_dict_set.
    assert (L : forall a b : dict, lookup k (a ++ b) = match lookup k a with Some v => Some v | None => lookup k b end).
    { intros a b. induction a as [|[ka va] a IHa]; cbn [app C02.lookup]; [reflexivity|].
      destruct (eqK k ka); [reflexivity|exact IHa]. }
    rewrite L. cbn [C02.lookup]. destruct (lookup k (rev r)); [reflexivity|].
    destruct (eqK k k1); reflexivity.
Qed.

(* ---------- as_dict ---------- *)
Lemma as_dict_distinct (fields : list K) (row : list V) :
  NoDup fields -> length row = length fields -> as_dict fields row = as_map fields row.
Proof.
  intros ND L. unfold C02.as_dict. apply dict_of_list_distinct. now rewrite as_map_fst.
Qed.

Lemma as_dict_nodup_keys (fields : list K) (row : list V) : NoDup (map fst (as_dict fields row)).
Proof. unfold C02.as_dict, C02.dict_of_list. apply (fold_set_nodup_keys _ []). constructor. Qed.

Lemma as_dict_extract_lookup (fields : list K) (d : dict) (k : K) :
  lookup k (as_dict fields (extract fields d)) =
  if in_dec eqK k fields then Some (get_or_none d k) else None.
Proof.
  unfold C02.as_dict, C02.dict_of_list. rewrite as_map_extract.
  change (fold_left _ ?l []) with (fold_set [] l).
  rewrite (fold_set_lookup_fun (get_or_none d)).
  - rewrite map_map. cbn [fst]. rewrite map_id. reflexivity.
  - intros k' v' I. apply in_map_iff in I. destruct I as [f [E _]]. now inversion E.
Qed.

Lemma as_dict_last_wins (fields : list K) (row : list V) (k : K) :
  lookup k (as_dict fields row) = lookup k (rev (as_map fields row)).
Proof.
  unfold C02.as_dict, C02.dict_of_list. change (fold_left _ ?l []) with (fold_set [] l).
  rewrite fold_set_lookup_last. now destruct (lookup k (rev (as_map fields row))).
Qed.

Lemma as_json_is_as_dict (J : Type) (jenc : V -> J) (fields : list K) (row : list V) :
  map fst (as_json eqK jenc fields row) = map fst (as_dict fields row) /\
  map snd (as_json eqK jenc fields row) = map jenc (map snd (as_dict fields row)).
Proof. unfold C02.as_json. rewrite !map_map. split; reflexivity. Qed.

Lemma as_json_distinct (J : Type) (jenc : V -> J) (fields : list K) (d : dict) :
  NoDup fields ->
  as_json eqK jenc fields (extract fields d) = map (fun f => (f, jenc (get_or_none d f))) fields.
Proof.
  intros ND. unfold C02.as_json. rewrite as_dict_distinct by (exact ND || apply extract_length).
  rewrite as_map_extract, map_map. reflexivity.
Qed.

(* ---------- get ---------- *)
Lemma index_of_none (k : K) (l : list K) : index_of k l = None <-> ~ In k l.
Proof.
  induction l as [|x r IH]; cbn [C02.index_of In]; [tauto|].
  destruct (eqK k x) as [E|N].
  - split; [discriminate|]. intros H. exfalso. apply H. now left.
  - destruct (index_of k r) as [i|] eqn:E.
    + split; [discriminate|]. intros H.
      assert (X : Some i = None) by (apply IH; intros I; apply H; now right). discriminate.
    + split; [|reflexivity]. intros _ [E1|I]; [now apply N|]. now apply (proj1 IH).
Qed.

Lemma index_of_some (k : K) (l : list K) (i : nat) :
  index_of k l = Some i -> nth_error l i = Some k /\ i < length l /\ (forall j, j < i -> nth_error l j <> Some k).
Proof.
  revert i. induction l as [|x r IH]; intros i; cbn [C02.index_of]; [discriminate|].
  destruct (eqK k x) as [E|N].
  - intros H. inversion H; subst. cbn. repeat split; [lia|]. intros j Hj. lia.
  - destruct (index_of k r) as [i'|] eqn:E; [|discriminate]. intros H. inversion H; subst.
    destruct (IH i' eq_refl) as [H1 [H2 H3]]. cbn [nth_error length]. repeat split; [exact H1|lia|].
    intros [|j] Hj; cbn [nth_error].
    + intros X. inversion X. now apply N.
    + apply H3. lia.
Qed.

Lemma row_get_absent (fields : list K) (row : list V) (name : K) (default : V) :
  ~ In name fields -> row_get fields row name default = Ok default.
Proof. intros H. unfold C02.row_get. now rewrite (proj2 (index_of_none name fields) H). Qed.

Lemma row_get_present (fields : list K) (row : list V) (name : K) (default : V) :
  length row = length fields -> In name fields ->
  exists i v, index_of name fields = Some i /\ nth_error fields i = Some name /\
              nth_error row i = Some v /\ row_get fields row name default = Ok v.
Proof.
  intros L I. unfold C02.row_get. destruct (index_of name fields) as [i|] eqn:E.
  - destruct (index_of_some _ _ _ E) as [H1 [H2 _]].
    destruct (nth_error row i) as [v|] eqn:Ev.
    + exists i, v. repeat split; assumption.
    + apply nth_error_None in Ev. lia.
  - now apply index_of_none in E.
Qed.

Lemma row_get_never_raises (fields : list K) (row : list V) (name : K) (default : V) :
  length row = length fields -> exists v, row_get fields row name default = Ok v.
Proof.
  intros L. destruct (in_dec eqK name fields) as [I|NI].
  - destruct (row_get_present fields row name default L I) as [i [v [_ [_ [_ H]]]]]. now exists v.
  - exists default. now apply row_get_absent.
Qed.

(* with distinct names, get answers exactly what as_map pairs the name with *)
Lemma row_get_as_map (fields : list K) (row : list V) (name : K) (default : V) :
  NoDup fields -> length row = length fields ->
  row_get fields row name default =
  Ok (match lookup name (as_map fields row) with Some v => v | None => default end).
Proof.
  intros ND L. destruct (in_dec eqK name fields) as [I|NI].
  - destruct (row_get_present fields row name default L I) as [i [v [_ [Hf [Hr ->]]]]].
    assert (In (name, v) (as_map fields row)).
    { apply (nth_error_In _ i). now rewrite as_map_nth_error, Hf, Hr. }
    rewrite (in_lookup_some name v (as_map fields row)); [reflexivity| |assumption].
    now rewrite as_map_fst.
  - rewrite row_get_absent by exact NI.
    assert (E : lookup name (as_map fields row) = None).
    { apply lookup_none_notin. now rewrite as_map_fst. }
    now rewrite E.
Qed.

(* rows built from a dictionary, duplicates allowed: get is the dictionary's value, None when the
   dictionary lacks the field, the default when the row has no such field *)
Lemma row_get_extract (fields : list K) (d : dict) (name : K) (default : V) :
  row_get fields (extract fields d) name default =
  Ok (if in_dec eqK name fields then get_or_none d name else default).
Proof.
  destruct (in_dec eqK name fields) as [I|NI].
  - destruct (row_get_present fields (extract fields d) name default (extract_length _ _) I)
      as [i [v [_ [Hf [Hr ->]]]]].
    rewrite extract_nth_error, Hf in Hr. cbn in Hr. now inversion Hr.
  - now apply row_get_absent.
Qed.

End Proofs.
