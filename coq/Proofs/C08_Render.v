(* C08 - ISO renderings parse back to their fields. *)
From Coq Require Import List ZArith NArith Bool Lia ZifyBool.
From Orso Require Import Base.Civil Gen.C08_Tables Model.C08 Proofs.C08_Epoch Proofs.C08_Str Proofs.C08_Strip Proofs.C08_Core.
Import ListNotations.
Open Scope Z_scope.
Ltac Zify.zify_post_hook ::= Z.to_euclidean_division_equations.

(* ---------- digits ---------- *)
Lemma dig_digit k : 0 <= k <= 9 -> ascii_digit (dig k) = true.
Proof. unfold ascii_digit, dig. lia. Qed.
Lemma dval_dig k : 0 <= k <= 9 -> dval (dig k) = k.
Proof. unfold dval, dig. lia. Qed.
Lemma headchar_digit x : ascii_digit x = true -> headchar x = true.
Proof. unfold headchar. now intros ->. Qed.
Lemma tailchar_digit x : ascii_digit x = true -> tailchar x = true.
Proof. unfold tailchar. now intros ->. Qed.

Definition val2 (a b : N) : Z := 10 * dval a + dval b.
Definition val4 (a b c d : N) : Z := 1000 * dval a + 100 * dval b + 10 * dval c + dval d.


Ltac digit_chars :=
  change (headchar cDash) with true; change (tailchar cColon) with true;
  repeat match goal with H : ascii_digit ?x = true |- _ =>
    first [rewrite (headchar_digit x H) | rewrite (tailchar_digit x H)] end.

(* ---------- the positional stage on the three shapes, for arbitrary digit characters ---------- *)
Section Shapes.
Variables y1 y2 y3 y4 m1 m2 d1 d2 : N.
Hypothesis Hy1 : ascii_digit y1 = true. Hypothesis Hy2 : ascii_digit y2 = true.
Hypothesis Hy3 : ascii_digit y3 = true. Hypothesis Hy4 : ascii_digit y4 = true.
Hypothesis Hm1 : ascii_digit m1 = true. Hypothesis Hm2 : ascii_digit m2 = true.
Hypothesis Hd1 : ascii_digit d1 = true. Hypothesis Hd2 : ascii_digit d2 = true.

Definition s_date : list N := [y1; y2; y3; y4; cDash; m1; m2; cDash; d1; d2].

Lemma core_pure_date :
  core_pure s_date = do r <- mk_datetime (val4 y1 y2 y3 y4) (val2 m1 m2) (val2 d1 d2) 0 0 0; Ok (Some r).
Proof.
  unfold core_pure. change (at_ s_date 4 cDash) with true. change (at_ s_date 7 cDash) with true.
  change (zlen s_date) with 10. cbn [negb orb Z.eqb Pos.eqb].
  unfold fields_date.
  change (py_slice s_date 0 4) with [y1; y2; y3; y4]. change (py_slice s_date 5 7) with [m1; m2].
  change (py_slice s_date 8 10) with [d1; d2].
  rewrite py_int_4, !py_int_2 by assumption. reflexivity.
Qed.

Lemma core_shape_date : core_shape s_date = true.
Proof.
  unfold core_shape, s_date. cbn [firstn skipn forallb].
  digit_chars. reflexivity.
Qed.

Variables sep h1 h2 mi1 mi2 : N.
Hypothesis Hsep : is_sep sep = true.
Hypothesis Hh1 : ascii_digit h1 = true. Hypothesis Hh2 : ascii_digit h2 = true.
Hypothesis Hmi1 : ascii_digit mi1 = true. Hypothesis Hmi2 : ascii_digit mi2 = true.

Definition s_minutes : list N := [y1; y2; y3; y4; cDash; m1; m2; cDash; d1; d2; sep; h1; h2; cColon; mi1; mi2].

Lemma core_pure_minutes :
  core_pure s_minutes =
  do r <- mk_datetime (val4 y1 y2 y3 y4) (val2 m1 m2) (val2 d1 d2) (val2 h1 h2) (val2 mi1 mi2) 0; Ok (Some r).
Proof.
  unfold core_pure. change (at_ s_minutes 4 cDash) with true. change (at_ s_minutes 7 cDash) with true.
  change (zlen s_minutes) with 16. cbn [negb orb andb Z.eqb Z.leb Z.compare Pos.eqb Pos.compare Pos.compare_cont].
  change (at_ s_minutes 10 cT || at_ s_minutes 10 cSp) with (is_sep sep). rewrite Hsep. cbn [negb andb].
  unfold fields_minutes.
  change (py_slice s_minutes 0 4) with [y1; y2; y3; y4]. change (py_slice s_minutes 5 7) with [m1; m2].
  change (py_slice s_minutes 8 10) with [d1; d2]. change (py_slice s_minutes 11 13) with [h1; h2].
  change (py_slice s_minutes 14 16) with [mi1; mi2].
  rewrite py_int_4, !py_int_2 by assumption. reflexivity.
Qed.

Lemma tailchar_sep : tailchar sep = true.
Proof. unfold is_sep, cT, cSp in Hsep. unfold tailchar. lia. Qed.

Lemma core_shape_minutes : core_shape s_minutes = true.
Proof.
  unfold core_shape, s_minutes. cbn [firstn skipn forallb].
  rewrite tailchar_sep. digit_chars. reflexivity.
Qed.

Variables s1 s2 : N.
Variable tail : list N.
Hypothesis Hs1 : ascii_digit s1 = true. Hypothesis Hs2 : ascii_digit s2 = true.
Hypothesis Htail : forallb tailchar tail = true.

Definition s_seconds : list N :=
  y1 :: y2 :: y3 :: y4 :: cDash :: m1 :: m2 :: cDash :: d1 :: d2 :: sep :: h1 :: h2 :: cColon :: mi1 :: mi2 :: cColon :: s1 :: s2 :: tail.

Lemma zlen_seconds : zlen s_seconds = 19 + zlen tail.
Proof. unfold s_seconds. rewrite !zlen_cons. lia. Qed.

Lemma core_pure_seconds :
  core_pure s_seconds =
  do r <- mk_datetime (val4 y1 y2 y3 y4) (val2 m1 m2) (val2 d1 d2) (val2 h1 h2) (val2 mi1 mi2) (val2 s1 s2); Ok (Some r).
Proof.
  unfold core_pure. change (at_ s_seconds 4 cDash) with true. change (at_ s_seconds 7 cDash) with true.
  cbn [negb orb]. pose proof zlen_seconds as Hl. pose proof (zlen_nonneg tail) as Ht.
  replace (zlen s_seconds =? 10) with false by lia. replace (16 <=? zlen s_seconds) with true by lia.
  change (at_ s_seconds 10 cT || at_ s_seconds 10 cSp) with (is_sep sep). rewrite Hsep. cbn [negb andb].
  replace (19 <=? zlen s_seconds) with true by lia. change (at_ s_seconds 16 cColon) with true. cbn [andb].
  unfold fields_seconds.
  change (py_slice s_seconds 0 4) with [y1; y2; y3; y4]. change (py_slice s_seconds 5 7) with [m1; m2].
  change (py_slice s_seconds 8 10) with [d1; d2]. change (py_slice s_seconds 11 13) with [h1; h2].
  change (py_slice s_seconds 14 16) with [mi1; mi2]. change (py_slice s_seconds 17 19) with [s1; s2].
  rewrite py_int_4, !py_int_2 by assumption. reflexivity.
Qed.

Lemma core_shape_seconds : core_shape s_seconds = true.
Proof.
  unfold core_shape, s_seconds. cbn [firstn skipn forallb].
  rewrite tailchar_sep, Htail. digit_chars. reflexivity.
Qed.
End Shapes.

(* ---------- the suffix stage on core ++ render_suffix ---------- *)
Definition suffix_len_ok (sf : suffix) (n : Z) : bool :=
  match sf with
  | SNone => 1 <=? n
  | SZ => true
  | SPlus _ _ _ => (10 <=? n) && (n <=? 28)
  | SMinus true _ _ => 11 <=? n
  | SMinus false _ _ => 12 <=? n
  end.

Lemma d2_digits n : 0 <= n < 100 -> ascii_digit (dig (n / 10)) = true /\ ascii_digit (dig (n mod 10)) = true.
Proof. intros H. split; apply dig_digit; lia. Qed.

Lemma strip_render_suffix c sf :
  core_shape c = true -> valid_suffix sf = true -> suffix_len_ok sf (zlen c) = true ->
  strip_suffix (c ++ render_suffix sf) = Ok (Some c).
Proof.
  intros Hc Hv Hl. destruct sf as [| |col oh om|col oh om]; cbn [render_suffix valid_suffix suffix_len_ok] in *.
  - rewrite app_nil_r. apply strip_none; [assumption|lia].
  - now apply strip_Z.
  - destruct (d2_digits om ltac:(lia)) as [Ho1 Ho2].
    apply strip_plus; [assumption|lia|destruct col; discriminate|].
    unfold d2. destruct col; cbn [app last]; apply digit_not; try assumption; unfold cZ; lia.
  - destruct (d2_digits oh ltac:(lia)) as [Hh1 Hh2]. destruct (d2_digits om ltac:(lia)) as [Ho1 Ho2].
    destruct col; unfold d2; cbn [app].
    + apply strip_minus_colon; try assumption. lia.
    + apply strip_minus_plain; try assumption. lia.
Qed.

Lemma zlen_render_suffix sf : zlen (render_suffix sf) =
  match sf with SNone => 0 | SZ => 1 | SPlus true _ _ | SMinus true _ _ => 6 | _ => 5 end.
Proof. destruct sf as [| |[] ? ?|[] ? ?]; reflexivity. Qed.

Lemma str_isdigit_dash4 a b c d r : str_isdigit (a :: b :: c :: d :: cDash :: r) = false.
Proof.
  unfold str_isdigit. cbn [forallb]. change (is_digit_char cDash) with false.
  now rewrite !andb_false_r.
Qed.

(* text whose core passes: the whole string branch *)
Lemma str_branch_core a b c d r sf t :
  let core := a :: b :: c :: d :: cDash :: r in
  core_shape core = true -> valid_suffix sf = true -> suffix_len_ok sf (zlen core) = true ->
  10 <= zlen core -> zlen core + zlen (render_suffix sf) <= 33 ->
  core_pure core = Ok (Some t) ->
  str_branch (core ++ render_suffix sf) = Ok (Some t).
Proof.
  intros core Hc Hv Hl H10 H33 Hp. unfold str_branch.
  change (core ++ render_suffix sf) with (a :: b :: c :: d :: cDash :: (r ++ render_suffix sf)) at 1.
  rewrite str_isdigit_dash4. unfold parse_text. rewrite zlen_app.
  pose proof (zlen_nonneg (render_suffix sf)).
  replace ((10 <=? zlen core + zlen (render_suffix sf)) && (zlen core + zlen (render_suffix sf) <=? 33)) with true by lia.
  rewrite strip_render_suffix by assumption. cbn [bind].
  rewrite parse_core_pure by lia. exact Hp.
Qed.

(* ---------- concrete renderings ---------- *)
Lemma mk_datetime_valid y m d h mi s :
  valid_date y m d = true -> valid_time h mi s = true -> mk_datetime y m d h mi s = Ok (y, m, d, h, mi, s, 0).
Proof. unfold valid_date, valid_time, mk_datetime. intros H1 H2. replace (_ && _) with true by lia. reflexivity. Qed.

Lemma val2_dig n : 0 <= n < 100 -> val2 (dig (n / 10)) (dig (n mod 10)) = n.
Proof. intros H. unfold val2. rewrite !dval_dig by lia. lia. Qed.
Lemma val4_dig n : 0 <= n < 10000 ->
  val4 (dig (n / 1000)) (dig ((n / 100) mod 10)) (dig ((n / 10) mod 10)) (dig (n mod 10)) = n.
Proof. intros H. unfold val4. rewrite !dval_dig by lia. lia. Qed.

Lemma valid_date_bounds y m d : valid_date y m d = true -> 1 <= y <= 9999 /\ 1 <= m <= 12 /\ 1 <= d <= 31.
Proof. unfold valid_date. pose proof (dim_le_31 y m). lia. Qed.

Ltac digs := repeat match goal with |- ascii_digit (dig _) = true => apply dig_digit; lia end.

Lemma frac_tail fr : forallb ascii_digit fr = true -> forallb tailchar (render_frac fr) = true.
Proof.
  intros H. destruct fr as [|x fr]; [reflexivity|]. unfold render_frac.
  change (forallb tailchar (cDot :: x :: fr)) with (tailchar cDot && forallb tailchar (x :: fr)).
  change (tailchar cDot) with true. cbn [andb]. apply forallb_forall. intros z Hz.
  rewrite forallb_forall in H. apply tailchar_digit. now apply H.
Qed.

Lemma zlen_render_frac fr : zlen (render_frac fr) = match fr with [] => 0 | _ => 1 + zlen fr end.
Proof. destruct fr; [reflexivity|]. unfold render_frac. now rewrite zlen_cons. Qed.

Theorem seconds_roundtrip_gen y m d h mi s sep fr sf :
  valid_date y m d = true -> valid_time h mi s = true -> is_sep sep = true ->
  forallb ascii_digit fr = true -> valid_suffix sf = true ->
  zlen (render_seconds y m d h mi s sep fr sf) <= 33 ->
  (match sf with SPlus _ _ _ => zlen (render_frac fr) <= 9 | _ => True end) ->
  str_branch (render_seconds y m d h mi s sep fr sf) = Ok (Some (y, m, d, h, mi, s, 0)).
Proof.
  intros Hd Ht Hsep Hfr Hsf H33 Hplus.
  pose proof (valid_date_bounds y m d Hd) as (By & Bm & Bd). unfold valid_time in Ht.
  set (core := s_seconds (dig (y / 1000)) (dig ((y / 100) mod 10)) (dig ((y / 10) mod 10)) (dig (y mod 10))
                 (dig (m / 10)) (dig (m mod 10)) (dig (d / 10)) (dig (d mod 10)) sep
                 (dig (h / 10)) (dig (h mod 10)) (dig (mi / 10)) (dig (mi mod 10))
                 (dig (s / 10)) (dig (s mod 10)) (render_frac fr)).
  assert (render_seconds y m d h mi s sep fr sf = core ++ render_suffix sf) as Heq by reflexivity.
  rewrite Heq in *.
  assert (zlen core = 19 + zlen (render_frac fr)) as Hlen by apply zlen_seconds.
  pose proof (zlen_nonneg (render_frac fr)) as Hf0. rewrite zlen_app in H33.
  unfold core, s_seconds. apply str_branch_core; fold (s_seconds (dig (y / 1000)) (dig ((y / 100) mod 10)) (dig ((y / 10) mod 10)) (dig (y mod 10))
                 (dig (m / 10)) (dig (m mod 10)) (dig (d / 10)) (dig (d mod 10)) sep
                 (dig (h / 10)) (dig (h mod 10)) (dig (mi / 10)) (dig (mi mod 10))
                 (dig (s / 10)) (dig (s mod 10)) (render_frac fr)); fold core.
  - apply core_shape_seconds; digs; try assumption. now apply frac_tail.
  - assumption.
  - rewrite Hlen. destruct sf as [| |[] ? ?|[] ? ?]; cbn [suffix_len_ok]; lia.
  - lia.
  - assumption.
  - unfold core. rewrite core_pure_seconds by (digs; assumption).
    rewrite val4_dig, !val2_dig by lia. rewrite mk_datetime_valid by (try assumption; unfold valid_time; lia). reflexivity.
Qed.

Theorem minutes_roundtrip y m d h mi sep sf :
  valid_date y m d = true -> valid_time h mi 0 = true -> is_sep sep = true -> valid_suffix sf = true ->
  str_branch (render_minutes y m d h mi sep sf) = Ok (Some (y, m, d, h, mi, 0, 0)).
Proof.
  intros Hd Ht Hsep Hsf.
  pose proof (valid_date_bounds y m d Hd) as (By & Bm & Bd). unfold valid_time in Ht.
  set (core := s_minutes (dig (y / 1000)) (dig ((y / 100) mod 10)) (dig ((y / 10) mod 10)) (dig (y mod 10))
                 (dig (m / 10)) (dig (m mod 10)) (dig (d / 10)) (dig (d mod 10)) sep
                 (dig (h / 10)) (dig (h mod 10)) (dig (mi / 10)) (dig (mi mod 10))).
  assert (render_minutes y m d h mi sep sf = core ++ render_suffix sf) as -> by reflexivity.
  assert (zlen core = 16) as Hlen by reflexivity.
  pose proof (zlen_render_suffix sf) as Hsl.
  unfold core, s_minutes. apply str_branch_core; fold (s_minutes (dig (y / 1000)) (dig ((y / 100) mod 10)) (dig ((y / 10) mod 10)) (dig (y mod 10))
                 (dig (m / 10)) (dig (m mod 10)) (dig (d / 10)) (dig (d mod 10)) sep
                 (dig (h / 10)) (dig (h mod 10)) (dig (mi / 10)) (dig (mi mod 10))); fold core.
  - apply core_shape_minutes; digs; assumption.
  - assumption.
  - rewrite Hlen. destruct sf as [| |[] ? ?|[] ? ?]; reflexivity.
  - lia.
  - rewrite Hlen, Hsl. destruct sf as [| |[] ? ?|[] ? ?]; lia.
  - unfold core. rewrite core_pure_minutes by (digs; assumption).
    rewrite val4_dig, !val2_dig by lia. rewrite mk_datetime_valid by (try assumption; unfold valid_time; lia). reflexivity.
Qed.


Theorem dateonly_roundtrip y m d sf :
  valid_date y m d = true -> valid_suffix sf = true -> not_minus sf = true ->
  str_branch (render_dateonly y m d sf) = Ok (Some (y, m, d, 0, 0, 0, 0)).
Proof.
  intros Hd Hsf Hnm.
  pose proof (valid_date_bounds y m d Hd) as (By & Bm & Bd).
  set (core := s_date (dig (y / 1000)) (dig ((y / 100) mod 10)) (dig ((y / 10) mod 10)) (dig (y mod 10))
                 (dig (m / 10)) (dig (m mod 10)) (dig (d / 10)) (dig (d mod 10))).
  assert (render_dateonly y m d sf = core ++ render_suffix sf) as -> by reflexivity.
  assert (zlen core = 10) as Hlen by reflexivity.
  pose proof (zlen_render_suffix sf) as Hsl.
  unfold core, s_date. apply str_branch_core; fold (s_date (dig (y / 1000)) (dig ((y / 100) mod 10)) (dig ((y / 10) mod 10)) (dig (y mod 10))
                 (dig (m / 10)) (dig (m mod 10)) (dig (d / 10)) (dig (d mod 10))); fold core.
  - apply core_shape_date; digs.
  - assumption.
  - rewrite Hlen. destruct sf as [| |[] ? ?|[] ? ?]; try reflexivity; discriminate.
  - lia.
  - rewrite Hlen, Hsl. destruct sf as [| |[] ? ?|[] ? ?]; lia.
  - unfold core. rewrite core_pure_date by digs.
    rewrite val4_dig, !val2_dig by lia. rewrite mk_datetime_valid by (try assumption; reflexivity). reflexivity.
Qed.
