(* C08 - string primitives, int() on ASCII digits, UTF-8. *)
From Coq Require Import List ZArith NArith Bool Lia ZifyBool.
From Orso Require Import Base.Civil Gen.C08_Tables Model.C08.
Import ListNotations.
Open Scope Z_scope.

(* ---------- indexing ---------- *)
Lemma zlen_app {A} (a b : list A) : zlen (a ++ b) = zlen a + zlen b.
Proof. unfold zlen. rewrite app_length. lia. Qed.
Lemma zlen_cons {A} (x : A) l : zlen (x :: l) = 1 + zlen l.
Proof. unfold zlen. cbn [length]. lia. Qed.
Lemma zlen_nil {A} : zlen (@nil A) = 0. Proof. reflexivity. Qed.
Lemma zlen_nonneg {A} (l : list A) : 0 <= zlen l. Proof. unfold zlen. lia. Qed.

Lemma py_idx_ok v i : 0 <= i < zlen v -> py_idx v i = Ok (nth (Z.to_nat i) v 0%N).
Proof.
  intros H. unfold py_idx. replace (i <? 0) with false by lia.
  replace ((i <? 0) || (zlen v <=? i)) with false by lia. reflexivity.
Qed.

Lemma py_idx_neg v k : 0 < k <= zlen v -> py_idx v (- k) = Ok (nth (Z.to_nat (zlen v - k)) v 0%N).
Proof.
  intros H. unfold py_idx. replace (- k <? 0) with true by lia.
  replace ((- k + zlen v <? 0) || (zlen v <=? - k + zlen v)) with false by lia.
  do 2 f_equal. lia.
Qed.

Lemma nth_app_r {A} (a b : list A) n d : nth (length a + n) (a ++ b) d = nth n b d.
Proof. rewrite app_nth2 by lia. f_equal. lia. Qed.

(* value[-k] of c ++ sfx with k <= len sfx looks only at sfx *)
Lemma py_idx_neg_app c sfx k : 0 < k <= zlen sfx -> py_idx (c ++ sfx) (- k) = py_idx sfx (- k).
Proof.
  intros H. pose proof (zlen_nonneg c) as Hc.
  rewrite (py_idx_neg (c ++ sfx)) by (rewrite zlen_app; lia).
  rewrite (py_idx_neg sfx) by lia.
  apply f_equal. rewrite zlen_app.
  replace (Z.to_nat (zlen c + zlen sfx - k)) with (length c + Z.to_nat (zlen sfx - k))%nat by (unfold zlen in *; lia).
  apply nth_app_r.
Qed.

Lemma drop_last_app c sfx : drop_last (c ++ sfx) (zlen sfx) = c.
Proof.
  unfold drop_last. rewrite zlen_app.
  replace (Z.to_nat (zlen c + zlen sfx - zlen sfx)) with (length c + 0)%nat by (unfold zlen in *; lia).
  rewrite firstn_app_2. cbn [firstn]. apply app_nil_r.
Qed.

Lemma take_last_app c sfx : take_last (c ++ sfx) (zlen sfx) = sfx.
Proof.
  unfold take_last. rewrite zlen_app.
  replace (Z.to_nat (zlen c + zlen sfx - zlen sfx)) with (length c + 0)%nat by (unfold zlen in *; lia).
  rewrite skipn_app. rewrite skipn_all2 by lia. replace (length c + 0 - length c)%nat with 0%nat by lia. reflexivity.
Qed.

(* ---------- int() on ASCII digits ---------- *)
Lemma ascii_digit_cases c : ascii_digit c = true ->
  (c = 48 \/ c = 49 \/ c = 50 \/ c = 51 \/ c = 52 \/ c = 53 \/ c = 54 \/ c = 55 \/ c = 56 \/ c = 57)%N.
Proof. unfold ascii_digit. lia. Qed.

Lemma classify_digit c : ascii_digit c = true -> classify c = CDigit (Z.of_N c - 48).
Proof.
  intros H. unfold classify. unfold ascii_digit in H.
  replace (c <? 127)%N with true by lia. rewrite H. reflexivity.
Qed.

Lemma is_digit_char_ascii c : ascii_digit c = true -> is_digit_char c = true.
Proof.
  intros H. apply ascii_digit_cases in H.
  repeat (destruct H as [->|H]; [vm_compute; reflexivity|]). subst. vm_compute. reflexivity.
Qed.

Lemma not_digit_char_ascii c : (c < 128)%N -> ascii_digit c = false -> is_digit_char c = false.
Proof.
  intros Hc H. unfold is_digit_char, decimal_value.
  assert (forall t, forallb (fun z => negb ((z <=? c)%N && (c <? z + 10)%N)) t = true ->
                    find (fun z => (z <=? c)%N && (c <? z + 10)%N) t = None) as Hfind.
  { induction t as [|z t IH]; cbn [forallb find]; [reflexivity|].
    intros Hf. apply andb_true_iff in Hf. destruct Hf as [Hz Ht].
    destruct ((z <=? c)%N && (c <? z + 10)%N); [discriminate|]. auto. }
  rewrite Hfind.
  - unfold in_ranges. apply not_true_iff_false. intros Hex. apply existsb_exists in Hex.
    destruct Hex as (r & Hin & Hr).
    assert (forallb (fun r => (128 <=? fst r)%N) digit_other = true) as Hall by (vm_compute; reflexivity).
    rewrite forallb_forall in Hall. specialize (Hall r Hin). lia.
  - assert (forallb (fun z => (z =? 48)%N || (128 <=? z)%N) nd_zeros = true) as Hall by (vm_compute; reflexivity).
    rewrite forallb_forall in Hall. apply forallb_forall. intros z Hz. specialize (Hall z Hz).
    unfold ascii_digit in H. lia.
Qed.


Lemma py_int_2 a b : ascii_digit a = true -> ascii_digit b = true ->
  py_int [a; b] = Ok (10 * dval a + dval b).
Proof.
  intros Ha Hb. unfold py_int. cbn [map]. rewrite !classify_digit by assumption.
  cbn [skip_space int_scan int_value]. 
  replace (0 + 1 + 1 >? int_max_str_digits) with false by (vm_compute; reflexivity).
  cbn [skip_space]. f_equal. unfold dval. lia.
Qed.

Lemma py_int_4 a b c d : ascii_digit a = true -> ascii_digit b = true -> ascii_digit c = true -> ascii_digit d = true ->
  py_int [a; b; c; d] = Ok (1000 * dval a + 100 * dval b + 10 * dval c + dval d).
Proof.
  intros Ha Hb Hc Hd. unfold py_int. cbn [map]. rewrite !classify_digit by assumption.
  cbn [skip_space int_scan int_value].
  replace (0 + 1 + 1 + 1 + 1 >? int_max_str_digits) with false by (vm_compute; reflexivity).
  cbn [skip_space]. f_equal. unfold dval. lia.
Qed.


Lemma int_scan_digits s cnt : forallb ascii_digit s = true ->
  int_scan (map classify s) cnt false = Some (cnt + zlen s, []).
Proof.
  revert cnt. induction s as [|c s IH]; intros cnt H; cbn [map int_scan forallb] in *.
  - rewrite zlen_nil. f_equal. f_equal. lia.
  - apply andb_true_iff in H. destruct H as [Hc Hs]. rewrite classify_digit by assumption.
    rewrite IH by assumption. rewrite zlen_cons. do 2 f_equal. lia.
Qed.

Lemma int_value_digits s acc : forallb ascii_digit s = true ->
  int_value (map classify s) acc = fold_left (fun a c => a * 10 + dval c) s acc.
Proof.
  revert acc. induction s as [|c s IH]; intros acc H; cbn [map int_value forallb fold_left] in *; [reflexivity|].
  apply andb_true_iff in H. destruct H as [Hc Hs]. rewrite classify_digit by assumption.
  now rewrite IH.
Qed.

Lemma py_int_digits s : s <> [] -> forallb ascii_digit s = true -> zlen s <= int_max_str_digits ->
  py_int s = Ok (digits_value s).
Proof.
  intros Hne H Hlen. unfold py_int. destruct s as [|c s]; [congruence|].
  pose proof (int_scan_digits (c :: s) 0 H) as Hscan. pose proof (int_value_digits (c :: s) 0 H) as Hval.
  cbn [forallb] in H. apply andb_true_iff in H. destruct H as [Hc Hs].
  cbn [map] in *. rewrite classify_digit in * by assumption. cbn [skip_space].
  rewrite Hscan. cbn [skip_space]. replace (0 + zlen (c :: s) >? int_max_str_digits) with false by lia.
  rewrite Hval. reflexivity.
Qed.

Lemma str_isdigit_ascii s : s <> [] -> forallb ascii_digit s = true -> str_isdigit s = true.
Proof.
  intros Hne H. unfold str_isdigit. destruct s as [|c s]; [congruence|].
  apply forallb_forall. intros x Hx. rewrite forallb_forall in H. apply is_digit_char_ascii. auto.
Qed.

(* py_int raises nothing but ValueError *)
Lemma py_int_raises s e : py_int s = Raise e -> e = ValueError.
Proof.
  unfold py_int. destruct (skip_space (map classify s)) as [|[] l]; try (intros [= <-]; reflexivity).
  all: repeat match goal with
       | |- context[match ?x with _ => _ end] => destruct x; try (intros [= <-]; reflexivity); try discriminate
       end.
Qed.
