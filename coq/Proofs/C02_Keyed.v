(* C02 - dictionaries whose keys are not all strings: DataFrame(dictionaries) extracts with the key objects of the
   first dictionary and only NAMES the columns with their str(); on string-keyed dictionaries this is frame_of_dicts. *)
From Coq Require Import List Bool Lia Arith.
From Orso Require Import Model.C02 Proofs.C02.
Import ListNotations.

Section KeyedProofs.
Variables PK K V : Type.
Variable eqPK : forall a b : PK, {a = b} + {a <> b}.
Variable eqK : forall a b : K, {a = b} + {a <> b}.
Variable vnone : V.
Variable inj : K -> PK.

Notation kdict := (list ((PK * K) * V)).
Notation keyed_frame := (keyed_frame eqPK vnone).
Notation keyed_append := (keyed_append eqPK vnone inj).

(* the rows are those of the plain constructor model over the key OBJECTS; the names are the str() of the first
   dictionary's key objects, position by position *)
Lemma keyed_rows_are_object_rows (ds : list kdict) :
  snd (keyed_frame ds) = snd (frame_of_dicts eqPK vnone (map kd_ident ds)) /\
  fst (keyed_frame ds) = match ds with [] => [] | d :: _ => kd_names d end /\
  length (fst (keyed_frame ds)) = length (fst (frame_of_dicts eqPK vnone (map kd_ident ds))).
Proof.
  destruct ds as [|d rest]; [now repeat split|].
  unfold C02.keyed_frame, frame_of_dicts. cbn [fst snd].
  assert (Hk : dict_keys (kd_ident d) = kd_objs d).
  { unfold dict_keys, kd_ident, kd_objs. rewrite map_map. reflexivity. }
  split; [|split].
  - cbn [map]. rewrite Hk. f_equal. rewrite map_map. reflexivity.
  - reflexivity.
  - cbn [map]. rewrite Hk. unfold kd_names, kd_objs. now rewrite !map_length.
Qed.

Lemma keyed_shape (ds : list kdict) :
  length (snd (keyed_frame ds)) = length ds /\
  Forall (fun r => length r = length (fst (keyed_frame ds))) (snd (keyed_frame ds)).
Proof.
  unfold C02.keyed_frame. cbn [fst snd]. split; [apply map_length|].
  apply Forall_forall. intros r Hr. apply in_map_iff in Hr. destruct Hr as [d [<- _]].
  rewrite extract_length. unfold kd_objs, kd_names. now rewrite !map_length.
Qed.

(* cell (j, i): dictionary j's value under the i-th KEY OBJECT of the first dictionary (None if it has no equal
   key), whatever that object's name and whatever other keys share the name *)
Lemma keyed_cell (ds : list kdict) (first d : kdict) (rest : list kdict) (j i : nat) (o : PK) (n : K) (v0 : V) :
  ds = first :: rest -> nth_error ds j = Some d -> nth_error first i = Some ((o, n), v0) ->
  nth_error (fst (keyed_frame ds)) i = Some n /\
  exists r, nth_error (snd (keyed_frame ds)) j = Some r /\
            nth_error r i = Some (match lookup eqPK o (kd_ident d) with Some v => v | None => vnone end).
Proof.
  intros -> Hj Hi. unfold C02.keyed_frame, C02.kdict in *. cbn [fst snd]. split.
  - unfold kd_names. rewrite nth_error_map, Hi. reflexivity.
  - exists (extract eqPK vnone (kd_objs first) (kd_ident d)). split.
    + rewrite nth_error_map, Hj. reflexivity.
    + unfold extract, get_or_none, kd_objs. rewrite !nth_error_map, Hi. reflexivity.
Qed.

(* append looks the column names up as strings *)
Lemma keyed_append_row (f : list K * list (list V)) (d : kdict) :
  fst (keyed_append f d) = fst f /\
  snd (keyed_append f d) = snd f ++ [map (fun c => match lookup eqPK (inj c) (kd_ident d) with Some v => v | None => vnone end) (fst f)].
Proof.
  unfold C02.keyed_append, extract, get_or_none. cbn [fst snd]. rewrite map_map. now split.
Qed.

(* ---- string-keyed dictionaries: nothing new ---- *)
Hypothesis inj_injective : forall a b, inj a = inj b -> a = b.

Lemma lookup_kd_of_dict (k : K) (d : list (K * V)) :
  lookup eqPK (inj k) (kd_ident (kd_of_dict inj d)) = lookup eqK k d.
Proof.
  induction d as [|[k' v] r IH]; [reflexivity|].
  cbn [kd_of_dict kd_ident map lookup fst snd]. cbn [kd_of_dict kd_ident] in IH.
  destruct (eqPK (inj k) (inj k')) as [e|ne]; destruct (eqK k k') as [e'|ne'].
  - reflexivity.
  - now apply inj_injective in e.
  - subst. now elim ne.
  - exact IH.
Qed.

Lemma extract_kd_of_dict (fields : list K) (d : list (K * V)) :
  extract eqPK vnone (map inj fields) (kd_ident (kd_of_dict inj d)) = extract eqK vnone fields d.
Proof.
  unfold extract, get_or_none. rewrite map_map. apply map_ext. intros k. now rewrite lookup_kd_of_dict.
Qed.

Lemma keyed_frame_of_string_keyed (ds : list (list (K * V))) :
  keyed_frame (map (kd_of_dict inj) ds) = frame_of_dicts eqK vnone ds.
Proof.
  unfold C02.keyed_frame, frame_of_dicts.
  assert (Hn : forall d : list (K * V), kd_names (kd_of_dict inj d) = dict_keys d).
  { intros d. unfold kd_names, kd_of_dict, dict_keys. rewrite map_map. reflexivity. }
  assert (Ho : forall d : list (K * V), kd_objs (kd_of_dict inj d) = map inj (dict_keys d)).
  { intros d. unfold kd_objs, kd_of_dict, dict_keys. rewrite !map_map. reflexivity. }
  destruct ds as [|d rest].
  - reflexivity.
  - cbn [map]. rewrite Hn, Ho. f_equal.
    rewrite extract_kd_of_dict. f_equal. rewrite map_map. apply map_ext. intros x. apply extract_kd_of_dict.
Qed.

Lemma keyed_append_of_string_keyed (f : list K * list (list V)) (d : list (K * V)) :
  keyed_append f (kd_of_dict inj d) = frame_append eqK vnone f d.
Proof.
  unfold C02.keyed_append, frame_append. now rewrite extract_kd_of_dict.
Qed.

End KeyedProofs.
