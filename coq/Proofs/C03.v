(* C03 - lemmas: every operator of the code model equals its plain-list specification;
   one step / a whole program agrees with the plain-list run; a materialised source is never
   altered; listing and iterating.  Everything by list induction and lia. *)
From Coq Require Import List ZArith Bool Lia ZifyBool ZifyNat Arith.
From Orso Require Import Base.PySlice Model.C03.
Import ListNotations.

Section Proofs.
Set Default Proof Using "Type".
Variable V : Type.
Variable veqb : V -> V -> bool.
Variable dflt : V.
Variable Nm : Type.
Variable nmeqb : Nm -> Nm -> bool.
Hypothesis veqb_spec : veq_equiv V veqb.

(* lia generalises over the whole context; keep unrelated section variables out of the proof terms *)
Ltac zlia := try clear veqb_spec; try clear dflt; try clear nmeqb; try clear veqb; lia.

Notation row := (list V).
Notation frame := (frame V Nm).
Notation schema := (schema Nm).
Notation res := (res V Nm).
Notation row_eqb := (row_eqb V veqb).
Notation code_slice := (code_slice V Nm).
Notation code_head := (code_head V Nm).
Notation code_tail := (code_tail V Nm).
Notation spec_slice := (spec_slice V).
Notation spec_head := (spec_head V).
Notation spec_tail := (spec_tail V).
Notation rows_of := (rows_of V).
Notation drain := (drain V).
Notation mat := (mat V Nm).

(* ---------- backing ---------- *)
Lemma mat_spec (sc : schema) (b : backing V) :
  mat (mkF sc b) = mkF sc (Eager (rows_of b)).
Proof. destruct b; reflexivity. Qed.

Lemma drain_spec (b : backing V) :
  drain b = ((if is_lazy V b then Lazy [] else b), rows_of b).
Proof. destruct b; reflexivity. Qed.

(* ---------- windows ---------- *)
Definition len_ok (len : option Z) : Prop := match len with Some k => (0 <= k)%Z | None => True end.

Lemma spec_start_code (off : Z) (l : list row) :
  Z.to_nat (if (off <? 0)%Z then Z.max 0 (Z.of_nat (length l) + off) else off) = spec_start V off l.
Proof. unfold spec_start. destruct (off <? 0)%Z eqn:E; zlia. Qed.

Lemma code_slice_spec (sc : schema) (b : backing V) (off : Z) (len : option Z) :
  len_ok len ->
  code_slice off len (mkF sc b) =
  (mkF sc (Eager (rows_of b)), mkR sc (RList (spec_slice off len (rows_of b)))).
Proof.
  intros Hl. unfold code_slice. rewrite mat_spec. cbn [back sch rows_of].
  set (l := rows_of b).
  set (o := if (off <? 0)%Z then Z.max 0 (Z.of_nat (length l) + off) else off).
  assert (Ho : (0 <= o)%Z) by (unfold o; destruct (off <? 0)%Z eqn:E; zlia).
  assert (Hs : Z.to_nat o = spec_start V off l) by apply spec_start_code.
  do 3 f_equal. unfold spec_slice. destruct len as [k|].
  - cbn in Hl. destruct (k =? 0)%Z eqn:Ek.
    + assert (k = 0%Z) by zlia. subst k. reflexivity.
    + rewrite py_slice_nonneg by zlia. now rewrite Hs.
  - rewrite py_slice_from_nonneg by zlia. now rewrite Hs.
Qed.

Lemma spec_slice_head (k : Z) (l : list row) : spec_slice 0 (Some k) l = spec_head k l.
Proof. reflexivity. Qed.

Lemma spec_slice_tail (k : Z) (l : list row) :
  (0 <= k)%Z -> spec_slice (0 - k) (Some k) l = spec_tail k l.
Proof.
  intros Hk. unfold spec_slice, spec_tail, spec_start.
  destruct (0 - k <? 0)%Z eqn:E.
  - replace (Z.to_nat (- (0 - k))) with (Z.to_nat k) by zlia.
    apply firstn_all2. rewrite skipn_length. zlia.
  - assert (k = 0%Z) by zlia. subst k. cbn. rewrite Nat.sub_0_r. now rewrite skipn_all.
Qed.

Lemma code_head_spec (sc : schema) (b : backing V) (k : Z) :
  (0 <= k)%Z ->
  code_head k (mkF sc b) = (mkF sc (Eager (rows_of b)), mkR sc (RList (spec_head k (rows_of b)))).
Proof. intros Hk. unfold code_head. now rewrite code_slice_spec. Qed.

Lemma code_tail_spec (sc : schema) (b : backing V) (k : Z) :
  (0 <= k)%Z ->
  code_tail k (mkF sc b) = (mkF sc (Eager (rows_of b)), mkR sc (RList (spec_tail k (rows_of b)))).
Proof. intros Hk. unfold code_tail. rewrite code_slice_spec by exact Hk. now rewrite spec_slice_tail. Qed.

(* tail(k) is the last min(k, n) rows *)
Lemma spec_tail_last (k : Z) (l : list row) :
  (0 <= k)%Z ->
  length (spec_tail k l) = Nat.min (Z.to_nat k) (length l) /\
  exists pre, l = pre ++ spec_tail k l.
Proof.
  intros Hk. unfold spec_tail. split.
  - rewrite skipn_length. zlia.
  - exists (firstn (length l - Nat.min (Z.to_nat k) (length l)) l). now rewrite firstn_skipn.
Qed.

(* ---------- select ---------- *)
Notation index_of := (index_of Nm nmeqb).
Notation index_loop := (index_loop Nm nmeqb).
Notation spec_select := (spec_select V dflt Nm nmeqb).
Notation code_select := (code_select V Nm nmeqb).
Notation pick := (pick V dflt).

Lemma index_loop_spec (src attrs : list Nm) (acc : list nat) :
  index_loop src attrs acc =
  match all_some (map (fun a => index_of a src) attrs) with
  | Some ps => Ok (acc ++ ps)
  | None => Raise ValueError
  end.
Proof.
  revert acc; induction attrs as [|a r IH]; intros acc; cbn [index_loop map all_some].
  - now rewrite app_nil_r.
  - destruct (index_of a src) as [i|]; [|reflexivity].
    rewrite IH. destruct (all_some (map (fun a0 => index_of a0 src) r)) as [ps|]; cbn [option_map]; [|reflexivity].
    now rewrite <- app_assoc.
Qed.

Lemma code_select_spec (sc : schema) (b : backing V) (attrs : list Nm) :
  code_select attrs (mkF sc b) =
  (mkF sc b,
   match all_some (map (fun a => index_of a (names sc)) attrs) with
   | Some ps => Ok (mkR (mkS Untyped attrs) (RSelect ps))
   | None => Raise ValueError
   end).
Proof.
  unfold code_select. cbn [sch]. rewrite index_loop_spec.
  destruct (all_some _) as [ps|]; reflexivity.
Qed.

(* ---------- filter / take ---------- *)
Notation zip_keep := (zip_keep V).
Notation zip_rest := (zip_rest V).
Notation take_keep := (take_keep V).
Notation spec_filter := (spec_filter V).
Notation spec_take := (spec_take V).
Notation positions := (positions V).

Lemma zip_keep_spec (l : list row) (mask : list bool) : zip_keep l mask = spec_filter mask l.
Proof.
  unfold spec_filter. revert mask; induction l as [|r l IH]; intros [|m mask]; cbn [zip_keep combine filter map]; try reflexivity.
  cbn [snd]. destruct m; cbn [map fst]; now rewrite IH.
Qed.

Lemma zip_rest_spec (l : list row) (mask : list bool) : zip_rest l mask = skipn (S (length mask)) l.
Proof.
  revert mask; induction l as [|r l IH]; intros mask; cbn [zip_rest skipn]; [reflexivity|].
  destruct mask as [|m mask]; cbn [length].
  - now destruct l.
  - apply IH.
Qed.

Lemma take_keep_spec (idx : list Z) (i : Z) (l : list row) :
  take_keep idx i l = map snd (filter (fun ir => zmem (fst ir) idx) (positions i l)).
Proof.
  revert i; induction l as [|r l IH]; intros i; cbn [take_keep positions filter map]; [reflexivity|].
  cbn [fst]. destruct (zmem i idx); cbn [map snd]; now rewrite IH.
Qed.

(* what filter / take keep, said without recursion: row j is kept iff the mask has a true
   entry at j / j is one of the indexes *)
Lemma positions_nth (i : Z) (l : list row) (j : nat) :
  nth_error (positions i l) j = option_map (fun r => ((i + Z.of_nat j)%Z, r)) (nth_error l j).
Proof.
  revert i j; induction l as [|r l IH]; intros i [|j]; cbn [positions nth_error option_map]; try reflexivity.
  - do 2 f_equal. zlia.
  - rewrite IH. destruct (nth_error l j); cbn [option_map]; [|reflexivity]. do 2 f_equal. zlia.
Qed.

(* ---------- distinct ---------- *)
Notation spec_distinct := (spec_distinct V veqb).

Lemma row_eqb_refl (a : row) : row_eqb a a = true.
Proof using veqb_spec.
  destruct veqb_spec as (R & _ & _). induction a as [|x a IH]; cbn [C03.row_eqb]; [reflexivity|]. now rewrite R, IH.
Qed.

Lemma row_eqb_sym (a b : row) : row_eqb a b = row_eqb b a.
Proof using veqb_spec.
  destruct veqb_spec as (_ & S & _). revert b; induction a as [|x a IH]; intros [|y b]; cbn [C03.row_eqb]; try reflexivity.
  now rewrite S, IH.
Qed.

Lemma row_eqb_trans (a b c : row) : row_eqb a b = true -> row_eqb b c = true -> row_eqb a c = true.
Proof using veqb_spec.
  destruct veqb_spec as (_ & _ & T). revert b c; induction a as [|x a IH]; intros [|y b] [|z c]; cbn [C03.row_eqb]; try discriminate; try reflexivity.
  intros H1 H2. apply andb_true_iff in H1 as [H1 H1']. apply andb_true_iff in H2 as [H2 H2'].
  apply andb_true_iff. split; [eapply T; eassumption|eapply IH; eassumption].
Qed.

(* when == is identity (the hypothesis of rounds 1-4), row equality is identity *)
Lemma row_eqb_spec (Hid : forall a b, veqb a b = true -> a = b) (a b : row) : row_eqb a b = true <-> a = b.
Proof using veqb_spec.
  split; [|intros ->; apply row_eqb_refl].
  revert b; induction a as [|x a IH]; intros [|y b]; cbn [C03.row_eqb]; intros H; try discriminate; try reflexivity.
  apply andb_true_iff in H. destruct H as [H1 H2]. apply Hid in H1. apply IH in H2. now subst.
Qed.

Lemma existsb_row_eqb_trans (x y : row) (seen : list row) :
  row_eqb x y = true -> existsb (row_eqb x) seen = true -> existsb (row_eqb y) seen = true.
Proof using veqb_spec.
  intros Exy H. apply existsb_exists in H as (s0 & Hin & Hs). apply existsb_exists. exists s0. split; [exact Hin|].
  eapply row_eqb_trans; [|exact Hs]. now rewrite row_eqb_sym.
Qed.

Lemma filter_filter {A : Type} (f g : A -> bool) (l : list A) :
  filter f (filter g l) = filter (fun x => g x && f x) l.
Proof.
  induction l as [|x l IH]; cbn [filter]; [reflexivity|].
  destruct (g x); cbn [andb filter]; [destruct (f x)|]; now rewrite IH.
Qed.

Section DistinctBy.
Variable K : Type.
Variable key : row -> K.
Variable keqb : K -> K -> bool.
(* the set's notion of "same element" coincides with row equality *)
Hypothesis key_faithful : forall a b, keqb (key a) (key b) = row_eqb a b.

Definition unseen (seen : list row) (y : row) : bool := negb (existsb (row_eqb y) seen).

Lemma existsb_key (x : row) (seen : list row) :
  existsb (keqb (key x)) (map key seen) = existsb (row_eqb x) seen.
Proof using veqb_spec key_faithful.
  induction seen as [|s seen IH]; cbn [map existsb]; [reflexivity|]. now rewrite key_faithful, IH.
Qed.

Lemma distinct_loop_spec (seen : list row) (l : list row) :
  distinct_loop V K key keqb (map key seen) l = filter (unseen seen) (spec_distinct l).
Proof using veqb_spec key_faithful.
  revert seen; induction l as [|x r IH]; intros seen; cbn [distinct_loop C03.spec_distinct filter]; [reflexivity|].
  rewrite existsb_key. unfold unseen at 1.
  destruct (existsb (row_eqb x) seen) eqn:E; cbn [negb].
  - rewrite IH, filter_filter. apply filter_ext_in. intros y _.
    unfold unseen. destruct (row_eqb x y) eqn:Exy; cbn [negb andb]; [|reflexivity].
    now rewrite (existsb_row_eqb_trans x y seen Exy E).
  - f_equal. change (key x :: map key seen) with (map key (x :: seen)).
    rewrite IH, filter_filter. apply filter_ext. intros y.
    unfold unseen. cbn [existsb]. rewrite (row_eqb_sym y x).
    now rewrite negb_orb.
Qed.

Lemma distinct_by_spec (l : list row) :
  distinct_loop V K key keqb [] l = spec_distinct l.
Proof using veqb_spec key_faithful.
  change (@nil K) with (map key []). rewrite distinct_loop_spec.
  clear. induction (spec_distinct l) as [|x t IH]; cbn [filter unseen existsb negb]; [reflexivity|]. now rewrite IH.
Qed.
End DistinctBy.

Notation code_distinct := (code_distinct V veqb Nm).
Notation code_query := (code_query V Nm).

Lemma code_distinct_spec (sc : schema) (b : backing V) :
  code_distinct (mkF sc b) =
  (mkF sc (fst (drain b)), mkR sc (RList (spec_distinct (rows_of b)))).
Proof using veqb_spec.
  unfold code_distinct. cbn [back sch]. rewrite drain_spec. cbn [fst].
  now rewrite (distinct_by_spec row (fun r => r) row_eqb (fun a b => eq_refl)).
Qed.

Lemma code_query_spec (sc : schema) (b : backing V) (p : row -> bool) :
  code_query p (mkF sc b) =
  (mkF sc (fst (drain b)), mkR sc (RList (filter p (rows_of b)))).
Proof. unfold code_query. cbn [back sch]. now rewrite drain_spec. Qed.

(* spec_distinct: what it means *)
(* every survivor is a row of the input ... *)
Lemma spec_distinct_sub (l : list row) (x : row) : In x (spec_distinct l) -> In x l.
Proof.
  induction l as [|y l IH]; cbn [C03.spec_distinct In]; [tauto|].
  rewrite filter_In. intros [H|[H _]]; auto.
Qed.

(* ... every row of the input is equal to a survivor ... *)
Lemma spec_distinct_represents (l : list row) (x : row) :
  In x l -> exists y, In y (spec_distinct l) /\ row_eqb y x = true.
Proof using veqb_spec.
  induction l as [|y l IH]; cbn [C03.spec_distinct In]; [tauto|]. intros [->|H].
  - exists x. split; [now left|apply row_eqb_refl].
  - destruct (IH H) as (z & Hz & Ezx). destruct (row_eqb y z) eqn:E.
    + exists y. split; [now left|eapply row_eqb_trans; eassumption].
    + exists z. split; [right; apply filter_In; split; [exact Hz|now rewrite E]|exact Ezx].
Qed.

(* ... no two survivors are equal ... *)
Lemma spec_distinct_pairwise (l : list row) : ForallOrdPairs (fun a b => row_eqb a b = false) (spec_distinct l).
Proof.
  induction l as [|y l IH]; cbn [C03.spec_distinct]; constructor.
  - apply Forall_forall. intros z Hz. apply filter_In in Hz as [_ Hz]. now apply negb_true_iff in Hz.
  - clear -IH. induction IH as [|a t Ha Ht IHt]; cbn [filter]; [constructor|].
    destruct (negb (row_eqb y a)); [|exact IHt]. constructor; [|exact IHt].
    apply Forall_forall. intros z Hz. apply filter_In in Hz as [Hz _]. rewrite Forall_forall in Ha. now apply Ha.
Qed.

(* ... and the survivor of each set of equal rows is its FIRST member itself: a row is kept iff no
   earlier row of the input is equal to it *)
Lemma spec_firsts_filter (earlier l : list row) :
  spec_firsts V veqb earlier l = filter (fun y => negb (existsb (row_eqb y) earlier)) (spec_distinct l).
Proof using veqb_spec.
  revert earlier; induction l as [|x r IH]; intros earlier; cbn [C03.spec_firsts C03.spec_distinct filter]; [reflexivity|].
  assert (E : forall y, negb (existsb (row_eqb y) (earlier ++ [x])) = negb (row_eqb x y) && negb (existsb (row_eqb y) earlier)).
  { intros y. rewrite existsb_app. cbn [existsb]. rewrite orb_false_r, negb_orb, (row_eqb_sym y x). apply andb_comm. }
  destruct (existsb (row_eqb x) earlier); cbn [negb]; rewrite IH, filter_filter.
  - apply filter_ext. intros y. now rewrite E.
  - f_equal. apply filter_ext. intros y. now rewrite E.
Qed.

Lemma spec_distinct_firsts (l : list row) : spec_distinct l = spec_firsts V veqb [] l.
Proof using veqb_spec.
  rewrite spec_firsts_filter. symmetry. induction (spec_distinct l) as [|x t IH]; cbn [filter existsb negb]; [reflexivity|]. now f_equal.
Qed.

(* under identity (rounds 1-4): same rows, none twice *)
Lemma spec_distinct_In (Hid : forall a b, veqb a b = true -> a = b) (l : list row) (x : row) : In x (spec_distinct l) <-> In x l.
Proof using veqb_spec.
  split; [apply spec_distinct_sub|]. intros H. destruct (spec_distinct_represents l x H) as (y & Hy & E).
  apply (row_eqb_spec Hid) in E. now subst.
Qed.

Lemma spec_distinct_NoDup (l : list row) : NoDup (spec_distinct l).
Proof using veqb_spec.
  induction l as [|y l IH]; cbn [C03.spec_distinct]; constructor.
  - rewrite filter_In. intros [_ H]. cbv beta in H. now rewrite row_eqb_refl in H.
  - now apply NoDup_filter.
Qed.

(* ---------- to_batches ---------- *)
Notation chunks := (chunks V).
Notation spec_batches := (spec_batches V).
Notation code_batches := (code_batches V Nm).

Lemma range_chunks (l : list row) (k : nat) (fuel i : nat) :
  (1 <= k)%nat -> (length l - i <= fuel)%nat ->
  map (fun j => py_slice j (j + Z.of_nat k) l) (range_loop fuel (Z.of_nat i) (Z.of_nat (length l)) (Z.of_nat k))
  = chunks fuel k (skipn i l).
Proof.
  intros Hk. revert i; induction fuel as [|f IH]; intros i Hf; cbn [range_loop C03.chunks map]; [reflexivity|].
  destruct (Z.of_nat i <? Z.of_nat (length l))%Z eqn:E.
  - assert (Hi : (i < length l)%nat) by zlia.
    destruct (skipn i l) as [|r0 t] eqn:Es.
    { exfalso. assert (length (skipn i l) = 0%nat) by now rewrite Es. rewrite skipn_length in H. zlia. }
    rewrite <- Es. cbn [map]. f_equal.
    + rewrite py_slice_nonneg by zlia. now rewrite !Nat2Z.id.
    + replace (Z.of_nat i + Z.of_nat k)%Z with (Z.of_nat (i + k)) by zlia.
      rewrite IH by zlia. now rewrite skipn_skipn'.
  - rewrite skipn_all2 by zlia. reflexivity.
Qed.

Lemma code_batches_spec (sc : schema) (b : backing V) (k : Z) :
  (1 <= k)%Z ->
  code_batches k (mkF sc b) =
  (mkF sc (Eager (rows_of b)), Ok (map (fun c => mkF sc (Eager c)) (spec_batches k (rows_of b)))).
Proof.
  intros Hk. unfold code_batches. rewrite mat_spec. cbn [back sch rows_of].
  destruct (k =? 0)%Z eqn:E; [zlia|]. do 2 f_equal.
  unfold py_range0, spec_batches. destruct (k <=? 0)%Z eqn:E2; [zlia|].
  rewrite Nat2Z.id.
  pose proof (range_chunks (rows_of b) (Z.to_nat k) (length (rows_of b)) 0) as H.
  rewrite Z2Nat.id in H by zlia. cbn [skipn Z.of_nat] in H.
  rewrite <- H by zlia. now rewrite map_map.
Qed.

(* batching partitions the rows in order into full batches plus one remainder *)
Fixpoint full_then_rest (k : nat) (cs : list (list row)) : Prop :=
  match cs with
  | [] => True
  | [c] => (1 <= length c <= k)%nat
  | c :: cs' => length c = k /\ full_then_rest k cs'
  end.

Lemma chunks_partition (fuel k : nat) (l : list row) :
  (1 <= k)%nat -> (length l <= fuel)%nat ->
  concat (chunks fuel k l) = l /\ full_then_rest k (chunks fuel k l).
Proof.
  intros Hk. revert l; induction fuel as [|f IH]; intros l Hf.
  - destruct l; [split; [reflexivity|exact I]|cbn in Hf; zlia].
  - cbn [C03.chunks]. destruct l as [|r0 t]; [split; [reflexivity|exact I]|].
    set (l := r0 :: t) in *.
    assert (Hlen : (1 <= length l)%nat) by (subst l; cbn; zlia).
    destruct (IH (skipn k l)) as [Hc Hp]; [rewrite skipn_length; zlia|].
    split.
    + cbn [concat]. rewrite Hc. apply firstn_skipn.
    + cbn [full_then_rest].
      destruct (chunks f k (skipn k l)) as [|c2 cs] eqn:Ec.
      * rewrite firstn_length. zlia.
      * split; [|exact Hp].
        rewrite firstn_length. apply Nat.min_l.
        destruct (Nat.le_gt_cases k (length l)) as [H|H]; [exact H|].
        exfalso. rewrite skipn_all2 in Ec by zlia. now destruct f.
Qed.

Lemma spec_batches_partition (k : Z) (l : list row) :
  (1 <= k)%Z ->
  concat (spec_batches k l) = l /\ full_then_rest (Z.to_nat k) (spec_batches k l).
Proof. intros Hk. apply chunks_partition; zlia. Qed.

(* ---------- collect ---------- *)
Notation resolve_cols := (resolve_cols Nm nmeqb).
Notation col_pos := (col_pos Nm nmeqb).
Notation cols_pos := (cols_pos Nm nmeqb).
Notation collect_cython := (collect_cython V dflt).
Notation code_collect := (code_collect V dflt Nm nmeqb).
Notation code_collect1 := (code_collect1 V dflt Nm nmeqb).
Notation spec_collect := (spec_collect V dflt).
Notation limit_rows := (limit_rows V).

Lemma resolve_cols_spec (src : list Nm) (cols : list (colref Nm)) (ps : list nat) :
  cols_pos src cols = Some ps ->
  exists zs, resolve_cols src cols = Ok zs /\ map Z.to_nat zs = ps /\ Forall (fun z => (0 <= z)%Z) zs.
Proof.
  unfold C03.cols_pos. revert ps; induction cols as [|c r IH]; intros ps H; cbn [map all_some C03.resolve_cols] in *.
  - inversion H. exists []. repeat split; constructor.
  - destruct (col_pos src c) as [p|] eqn:Ec; [|discriminate].
    destruct (all_some (map (col_pos src) r)) as [ps'|] eqn:Er; [|discriminate].
    cbn [option_map] in H. inversion H; subst ps. clear H.
    destruct (IH ps' eq_refl) as (zs & Hz & Hm & Hf).
    destruct c as [n|i]; cbn [C03.col_pos] in Ec.
    + rewrite Ec, Hz. exists (Z.of_nat p :: zs). repeat split.
      * cbn [map]. now rewrite Nat2Z.id, Hm.
      * constructor; [zlia|exact Hf].
    + destruct (i <? 0)%Z eqn:Ei; [discriminate|]. inversion Ec; subst p.
      rewrite Hz. exists (i :: zs). repeat split.
      * cbn [map]. now rewrite Hm.
      * constructor; [zlia|exact Hf].
Qed.

Lemma firstn_limit (limit : option Z) (l : list row) :
  let lim := match limit with None => (-1)%Z | Some k => if (k <? 0)%Z then (-1)%Z else k end in
  firstn (if (0 <=? lim)%Z && (lim <? Z.of_nat (length l))%Z then Z.to_nat lim else length l) l
  = limit_rows limit l.
Proof.
  unfold C03.limit_rows. destruct limit as [k|]; cbn zeta.
  - destruct (k <? 0)%Z eqn:Ek.
    + cbn [Z.leb Z.compare andb]. apply firstn_all.
    + destruct (0 <=? k)%Z eqn:E0; [|zlia]. cbn [andb].
      destruct (k <? Z.of_nat (length l))%Z eqn:E1; [reflexivity|].
      rewrite firstn_all. symmetry. apply firstn_all2. zlia.
  - cbn [Z.leb Z.compare andb]. apply firstn_all.
Qed.

Lemma map_const_nil {A B C : Type} (l1 : list A) (l2 : list B) (f : A -> list C) (g : B -> list C) :
  length l1 = length l2 -> (forall x, f x = []) -> (forall y, g y = []) -> map f l1 = map g l2.
Proof.
  revert l2; induction l1 as [|x l1 IH]; intros [|y l2] H Hf Hg; cbn in *; try discriminate; [reflexivity|].
  rewrite Hf, Hg. f_equal. apply IH; auto.
Qed.

Lemma limit_rows_nil (limit : option Z) : limit_rows limit [] = [].
Proof. destruct limit as [k|]; cbn; [destruct (k <? 0)%Z; [reflexivity|apply firstn_nil]|reflexivity]. Qed.

Definition cols_in_row (ps : list nat) (l : list row) : Prop :=
  match l with [] => True | r0 :: _ => Forall (fun p => (p < length r0)%nat) ps end.

Lemma collect_cython_spec (l : list row) (zs : list Z) (limit : option Z) :
  Forall (fun z => (0 <= z)%Z) zs -> cols_in_row (map Z.to_nat zs) l ->
  collect_cython l zs (match limit with None => (-1)%Z | Some k => if (k <? 0)%Z then (-1)%Z else k end)
  = Ok (spec_collect (map Z.to_nat zs) limit l).
Proof.
  intros Hz Hin. unfold C03.collect_cython, C03.spec_collect.
  destruct l as [|r0 t] eqn:El.
  - f_equal. rewrite limit_rows_nil. rewrite map_map. reflexivity.
  - rewrite <- El. destruct zs as [|z0 zs'] eqn:Ez; [reflexivity|]. rewrite <- Ez.
    replace (existsb _ zs) with false.
    + f_equal. rewrite map_map. rewrite firstn_limit. reflexivity.
    + symmetry. apply not_true_is_false. intros H. apply existsb_exists in H.
      destruct H as (c & Hc & Hb). cbn [cols_in_row] in Hin.
      rewrite <- Ez in Hz, Hin. rewrite Forall_forall in Hz, Hin. specialize (Hz c Hc).
      specialize (Hin (Z.to_nat c) (in_map Z.to_nat _ _ Hc)). zlia.
Qed.

Lemma code_collect_spec (sc : schema) (b : backing V) (cols : list (colref Nm)) (limit : option Z) (ps : list nat) :
  cols_pos (names sc) cols = Some ps -> cols_in_row ps (rows_of b) ->
  code_collect cols limit (mkF sc b) =
  (mkF sc (Eager (rows_of b)), Ok (spec_collect ps limit (rows_of b))).
Proof.
  intros Hp Hin. unfold C03.code_collect. rewrite mat_spec. cbn [sch back rows_of].
  destruct (resolve_cols_spec _ _ _ Hp) as (zs & Hz & Hm & Hf). rewrite Hz. subst ps.
  now rewrite collect_cython_spec.
Qed.

Lemma code_collect1_spec (sc : schema) (b : backing V) (c : colref Nm) (limit : option Z) (p : nat) :
  col_pos (names sc) c = Some p -> cols_in_row [p] (rows_of b) ->
  code_collect1 c limit (mkF sc b) =
  (mkF sc (Eager (rows_of b)), Ok (map (fun r => pick r p) (limit_rows limit (rows_of b)))).
Proof.
  intros Hp Hin. unfold C03.code_collect1.
  rewrite (code_collect_spec sc b [c] limit [p]); [reflexivity| |exact Hin].
  unfold C03.cols_pos. cbn [map all_some]. now rewrite Hp.
Qed.

(* ---------- row / len / iteration / list() ---------- *)
Notation code_row := (code_row V Nm).
Notation code_len := (code_len V Nm).
Notation py_list := (py_list V Nm).
Notation py_iterate := (py_iterate V Nm).

Lemma code_row_spec (sc : schema) (b : backing V) (i : Z) :
  code_row i (mkF sc b) =
  (mkF sc (Eager (rows_of b)),
   match py_index i (rows_of b) with Some r => Ok r | None => Raise IndexError end).
Proof. unfold C03.code_row. now rewrite mat_spec. Qed.

Lemma code_len_spec (sc : schema) (b : backing V) :
  code_len (mkF sc b) = (mkF sc (Eager (rows_of b)), length (rows_of b)).
Proof. unfold C03.code_len. now rewrite mat_spec. Qed.

(* list(df): every row once, in order; the frame is materialised afterwards *)
Lemma py_list_spec (sc : schema) (b : backing V) :
  py_list (mkF sc b) = (mkF sc (Eager (rows_of b)), rows_of b).
Proof. unfold C03.py_list. rewrite code_len_spec. reflexivity. Qed.

(* [r for r in df]: every row once, in order; a generator-backed frame is spent afterwards *)
Lemma py_iterate_spec (sc : schema) (b : backing V) :
  py_iterate (mkF sc b) = (mkF sc (if is_lazy V b then Lazy [] else b), rows_of b).
Proof. unfold C03.py_iterate, C03.it_drain. cbn [back sch]. now rewrite drain_spec. Qed.

(* ---------- listing the outcome of a step ---------- *)
Notation finish := (finish V dflt Nm).
Notation apply_op := (apply_op V veqb dflt Nm nmeqb).
Notation spec_apply := (spec_apply V veqb dflt Nm nmeqb).
Notation spec_left := (spec_left V dflt Nm nmeqb).
Notation op_ok := (op_ok V Nm nmeqb).
Notation sout_obs := (sout_obs V Nm).
Notation eager_of := (eager_of V Nm).
Notation sframe := (sframe V Nm).
Notation op := (op V Nm).
Notation stepd := (stepd V Nm).
Notation obs := (obs V Nm).

Definition left_rows (b : backing V) : list row := if is_lazy V b then [] else rows_of b.

Lemma finish_rlist (sc rs : schema) (b1 : backing V) (l : list row) :
  finish (mkF sc b1) (RFrame (mkR rs (RList l))) =
  (mkF sc (Eager (rows_of b1)), [mkF rs (Eager l)],
   mkObs (OFrame (names rs, l)) [(names sc, rows_of b1)]).
Proof.
  unfold C03.finish, C03.res_list, C03.res_materialize. cbn [rb rsch].
  rewrite py_list_spec. rewrite py_list_spec. reflexivity.
Qed.

Lemma finish_rselect (sc rs : schema) (b : backing V) (ps : list nat) :
  finish (mkF sc b) (RFrame (mkR rs (RSelect ps))) =
  (mkF sc (Eager (left_rows b)), [mkF rs (Eager (map (fun t => map (pick t) ps) (rows_of b)))],
   mkObs (OFrame (names rs, map (fun t => map (pick t) ps) (rows_of b))) [(names sc, left_rows b)]).
Proof.
  unfold C03.finish, C03.res_list, C03.res_materialize. cbn [rb rsch back sch].
  rewrite drain_spec. rewrite py_list_spec. rewrite py_list_spec.
  destruct b; reflexivity.
Qed.

Lemma finish_rtake (sc rs : schema) (b : backing V) (idx : list Z) :
  finish (mkF sc b) (RFrame (mkR rs (RTake idx))) =
  (mkF sc (Eager (left_rows b)), [mkF rs (Eager (spec_take idx (rows_of b)))],
   mkObs (OFrame (names rs, spec_take idx (rows_of b))) [(names sc, left_rows b)]).
Proof.
  unfold C03.finish, C03.res_list, C03.res_materialize. cbn [rb rsch back sch].
  rewrite drain_spec. rewrite py_list_spec. rewrite py_list_spec. rewrite take_keep_spec.
  destruct b; reflexivity.
Qed.

Lemma finish_rfilter (sc rs : schema) (b : backing V) (mask : list bool) :
  finish (mkF sc b) (RFrame (mkR rs (RFilter mask))) =
  (mkF sc (Eager (if is_lazy V b then skipn (S (length mask)) (rows_of b) else rows_of b)),
   [mkF rs (Eager (spec_filter mask (rows_of b)))],
   mkObs (OFrame (names rs, spec_filter mask (rows_of b)))
         [(names sc, if is_lazy V b then skipn (S (length mask)) (rows_of b) else rows_of b)]).
Proof.
  unfold C03.finish, C03.res_list, C03.res_materialize. cbn [rb rsch back sch].
  rewrite py_list_spec. rewrite py_list_spec. rewrite zip_keep_spec.
  destruct b; cbn [is_lazy C03.rows_of]; [reflexivity|]. now rewrite zip_rest_spec.
Qed.

Lemma list_all_eager (sc : schema) (cs : list (list row)) :
  list_all V Nm (map (fun c => mkF sc (Eager c)) cs) =
  (map (fun c => mkF sc (Eager c)) cs, map (fun c => (names sc, c)) cs).
Proof.
  induction cs as [|c cs IH]; cbn [map C03.list_all]; [reflexivity|].
  rewrite py_list_spec, IH. reflexivity.
Qed.

Lemma finish_rframes (sc : schema) (b1 : backing V) (cs : list (list row)) :
  finish (mkF sc b1) (RFrames (map (fun c => mkF sc (Eager c)) cs)) =
  (mkF sc (Eager (rows_of b1)), map (fun c => mkF sc (Eager c)) cs,
   mkObs (OFrames (map (fun c => (names sc, c)) cs)) [(names sc, rows_of b1)]).
Proof. unfold C03.finish. rewrite list_all_eager, py_list_spec. reflexivity. Qed.

Lemma finish_rval (sc : schema) (b1 : backing V) (v : outv V Nm) :
  finish (mkF sc b1) (RVal v) =
  (mkF sc (Eager (rows_of b1)), [], mkObs v [(names sc, rows_of b1)]).
Proof. unfold C03.finish. rewrite py_list_spec. reflexivity. Qed.

Definition not_add (o : op) : Prop := match o with AddF _ _ => False | _ => True end.

Lemma cols_ok_inv (sc : schema) (l : list row) (cols : list (colref Nm)) :
  cols_ok V Nm nmeqb (mkSF sc l) cols = true ->
  exists ps, cols_pos (names sc) cols = Some ps /\ cols_in_row ps l.
Proof.
  unfold C03.cols_ok. cbn [ssch srows]. destruct (cols_pos (names sc) cols) as [ps|]; [|discriminate].
  intros H. exists ps. split; [reflexivity|]. destruct l as [|r0 t]; cbn [cols_in_row]; [exact I|].
  rewrite forallb_forall in H. apply Forall_forall. intros p Hp. specialize (H p Hp).
  now apply Nat.ltb_lt.
Qed.

(* One operator, applied to a frame in either backing, its result(s) listed and then the
   source listed: exactly what the plain-list specification says. *)
Lemma apply_finish_spec (sc : schema) (b : backing V) (o : op) :
  not_add o -> op_ok o (mkSF sc (rows_of b)) = true ->
  let f := mkSF sc (rows_of b) in
  let left := if is_lazy V b then spec_left o f else rows_of b in
  finish (fst (apply_op o (mkF sc b))) (snd (apply_op o (mkF sc b))) =
  (mkF sc (Eager left), map eager_of (snd (sout_obs (spec_apply o f))),
   mkObs (fst (sout_obs (spec_apply o f))) [(names sc, left)]).
Proof using veqb_spec.
  intros Hna Hok. cbv zeta.
  destruct o; cbn [not_add] in Hna; try contradiction;
    cbn [C03.apply_op C03.spec_apply C03.sout_obs C03.spec_left C03.op_ok ssch srows fst snd C03.lift_res map C03.slisted] in *.
  - (* head *) rewrite code_head_spec by zlia. cbn [fst snd]. rewrite finish_rlist. destruct b; reflexivity.
  - (* tail *) rewrite code_tail_spec by zlia. cbn [fst snd]. rewrite finish_rlist. destruct b; reflexivity.
  - (* slice *) rewrite code_slice_spec by (destruct len; cbn; [zlia|exact I]).
    cbn [fst snd]. rewrite finish_rlist. destruct b; reflexivity.
  - (* query *) rewrite code_query_spec. cbn [fst snd]. rewrite finish_rlist. destruct b; reflexivity.
  - (* filter *) unfold C03.code_filter. cbn [fst snd sch]. rewrite finish_rfilter. destruct b; reflexivity.
  - (* take *) unfold C03.code_take. cbn [fst snd sch]. rewrite finish_rtake. destruct b; reflexivity.
  - (* select *) rewrite code_select_spec. unfold C03.spec_select.
    destruct (all_some (map (fun a => index_of a (names sc)) attrs)) as [ps|]; cbn [fst snd C03.sout_obs map C03.slisted ssch srows].
    + rewrite finish_rselect. destruct b; reflexivity.
    + rewrite finish_rval. destruct b; reflexivity.
  - (* distinct *) rewrite code_distinct_spec. cbn [fst snd]. rewrite finish_rlist. destruct b; reflexivity.
  - (* batches *) rewrite code_batches_spec by zlia. cbn [fst snd]. rewrite finish_rframes.
    rewrite !map_map. destruct b; reflexivity.
  - (* collect *) destruct (cols_ok_inv _ _ _ Hok) as (ps & Hp & Hin).
    rewrite (code_collect_spec sc b cols limit ps Hp Hin). cbn [fst snd]. rewrite finish_rval.
    unfold C03.spec_cols. cbn [ssch srows]. rewrite Hp. destruct b; reflexivity.
  - (* collect1 *) destruct (cols_ok_inv _ _ _ Hok) as (ps & Hp & Hin).
    unfold C03.cols_pos in Hp. cbn [map all_some] in Hp.
    destruct (col_pos (names sc) c) as [p|] eqn:Ec; [|discriminate]. cbn [option_map] in Hp. inversion Hp; subst ps.
    rewrite (code_collect1_spec sc b c limit p Ec Hin). cbn [fst snd]. rewrite finish_rval.
    unfold C03.spec_cols, C03.cols_pos. cbn [ssch srows map all_some]. rewrite Ec. cbn [option_map C03.spec_collect map hd].
    destruct b; reflexivity.
  - (* getitem *) destruct (cols_ok_inv _ _ _ Hok) as (ps & Hp & Hin).
    unfold C03.code_getitem. rewrite (code_collect_spec sc b cols None ps Hp Hin). cbn [fst snd]. rewrite finish_rval.
    unfold C03.spec_cols. cbn [ssch srows]. rewrite Hp. destruct b; reflexivity.
  - (* getitem1 *) destruct (cols_ok_inv _ _ _ Hok) as (ps & Hp & Hin).
    unfold C03.cols_pos in Hp. cbn [map all_some] in Hp.
    destruct (col_pos (names sc) c) as [p|] eqn:Ec; [|discriminate]. cbn [option_map] in Hp. inversion Hp; subst ps.
    unfold C03.code_getitem1. rewrite (code_collect1_spec sc b c None p Ec Hin). cbn [fst snd]. rewrite finish_rval.
    unfold C03.spec_cols, C03.cols_pos. cbn [ssch srows map all_some]. rewrite Ec. cbn [option_map C03.spec_collect map hd].
    destruct b; reflexivity.
  - (* row *) rewrite code_row_spec. cbn [fst snd]. rewrite finish_rval.
    destruct (py_index i (rows_of b)); destruct b; reflexivity.
  - (* len *) rewrite code_len_spec. cbn [fst snd]. rewrite finish_rval. destruct b; reflexivity.
  - (* iterate *) rewrite py_iterate_spec. cbn [fst snd]. rewrite finish_rval. destruct b; reflexivity.
Qed.

(* ---------- environments ---------- *)
Notation step_code := (step_code V veqb dflt Nm nmeqb).
Notation step_spec := (step_spec V veqb dflt Nm nmeqb).
Notation run_code := (run_code V veqb dflt Nm nmeqb).
Notation run_spec := (run_spec V veqb dflt Nm nmeqb).
Notation prog_ok := (prog_ok V veqb dflt Nm nmeqb).
Notation fetch := (fetch V Nm).
Notation store := (store V Nm).
Notation code_add := (code_add V Nm nmeqb).

Lemma upd_same {A : Type} (l : list A) (i : nat) (x : A) :
  nth_error l i = Some x -> upd i x l = l.
Proof.
  revert i; induction l as [|y l IH]; intros [|i] H; cbn [upd nth_error] in *; try discriminate.
  - now inversion H.
  - now rewrite IH.
Qed.

Lemma eager_of_eta (f : sframe) : mkF (ssch f) (Eager (srows f)) = eager_of f.
Proof. reflexivity. Qed.

Definition src_frame (f : sframe) (lz : bool) : frame :=
  mkF (ssch f) (if lz then Lazy (srows f) else Eager (srows f)).

Lemma fetch_eager (env : list sframe) (i : nat) (lz : bool) (f : sframe) :
  nth_error env i = Some f ->
  fetch (map eager_of env) i lz = Some (map eager_of env, src_frame f lz).
Proof.
  intros H. unfold C03.fetch. rewrite nth_error_map, H. cbn [option_map].
  destruct lz; [|reflexivity].
  unfold C03.eager_of at 1. rewrite py_list_spec. cbn [C03.rows_of sch].
  rewrite upd_same; [reflexivity|]. now rewrite nth_error_map, H.
Qed.

Lemma store_eager (env : list sframe) (i : nat) (lz : bool) (f : sframe) :
  nth_error env i = Some f ->
  store (map eager_of env) i lz (mkF (ssch f) (Eager (srows f))) = map eager_of env.
Proof.
  intros H. unfold C03.store. destruct lz; [reflexivity|].
  apply upd_same. now rewrite nth_error_map, H.
Qed.

Lemma src_frame_view (f : sframe) (lz : bool) :
  rows_of (if lz then Lazy (srows f) else Eager (srows f)) = srows f /\
  is_lazy V (if lz then Lazy (srows f) else Eager (srows f)) = lz.
Proof. destruct lz; split; reflexivity. Qed.

(* ---------- one step ---------- *)
Lemma step_code_spec_other (env : list sframe) (s : stepd) (f : sframe) :
  not_add (s_op s) ->
  nth_error env (Nat.modulo (s_src s) (length env)) = Some f ->
  op_ok (s_op s) f = true ->
  step_code (map eager_of env) s =
  (map eager_of (fst (step_spec env s)), snd (step_spec env s)).
Proof using veqb_spec.
  intros Hna Hn Hok.
  assert (Hc : step_code (map eager_of env) s =
          match fetch (map eager_of env) (Nat.modulo (s_src s) (length env)) (s_lazy s) with
          | None => (map eager_of env, mkObs (ORaise TypeError) [])
          | Some (env1, a) =>
              let '(a1, r) := apply_op (s_op s) a in
              let '(a3, news, ob) := finish a1 r in
              (store env1 (Nat.modulo (s_src s) (length env)) (s_lazy s) a3 ++ news, ob)
          end).
  { unfold C03.step_code. rewrite map_length. destruct (s_op s); try reflexivity. contradiction. }
  assert (Hs : step_spec env s =
          let '(v, news) := sout_obs (spec_apply (s_op s) f) in
          (env ++ news, mkObs v [(names (ssch f), if s_lazy s then spec_left (s_op s) f else srows f)])).
  { unfold C03.step_spec. rewrite Hn. destruct (s_op s); try reflexivity. contradiction. }
  rewrite Hc, Hs. clear Hc Hs.
  rewrite (fetch_eager env _ (s_lazy s) f Hn). unfold src_frame.
  set (b := if s_lazy s then Lazy (srows f) else Eager (srows f)).
  destruct (src_frame_view f (s_lazy s)) as [Hr Hl]. fold b in Hr, Hl.
  assert (Hf : mkSF (ssch f) (rows_of b) = f) by (rewrite Hr; now destruct f).
  pose proof (apply_finish_spec (ssch f) b (s_op s) Hna) as H.
  rewrite Hf in H. specialize (H Hok). cbv zeta in H. rewrite Hl, Hr in H.
  destruct (apply_op (s_op s) (mkF (ssch f) b)) as [a1 r]. cbn [fst snd] in H. rewrite H.
  destruct (sout_obs (spec_apply (s_op s) f)) as [v news]. cbn [fst snd].
  rewrite map_app. f_equal. f_equal.
  destruct (s_lazy s) eqn:El; [reflexivity|].
  apply store_eager with (lz := false). exact Hn.
Qed.

Notation schema_eqb := (schema_eqb Nm nmeqb).

Lemma code_add_spec (sa sb : schema) (ba bb : backing V) :
  code_add (mkF sa ba) (mkF sb bb) =
  if schema_eqb sa sb
  then (mkF sa (Eager (rows_of ba)), mkF sb (Eager (rows_of bb)),
        Ok (mkR sa (RList (rows_of ba ++ rows_of bb))))
  else (mkF sa ba, mkF sb bb, Raise ValueError).
Proof.
  unfold C03.code_add. cbn [sch]. destruct (schema_eqb sa sb); cbn [negb]; [|reflexivity].
  now rewrite !mat_spec.
Qed.

Lemma res_list_rlist (src : frame) (rs : schema) (l : list row) :
  res_list V dflt Nm src (mkR rs (RList l)) = (src, mkF rs (Eager l), l).
Proof. unfold C03.res_list, C03.res_materialize. cbn [rb rsch]. now rewrite py_list_spec. Qed.

Lemma step_code_spec_add (env : list sframe) (s : stepd) (f : sframe) (other : nat) (olz : bool) :
  s_op s = AddF other olz ->
  nth_error env (Nat.modulo (s_src s) (length env)) = Some f ->
  step_code (map eager_of env) s =
  (map eager_of (fst (step_spec env s)), snd (step_spec env s)).
Proof using veqb_spec.
  intros Ho Hn. unfold C03.step_code, C03.step_spec. rewrite map_length, Ho, Hn.
  set (i := Nat.modulo (s_src s) (length env)) in *.
  set (j := Nat.modulo other (length env)).
  rewrite (fetch_eager env i (s_lazy s) f Hn). unfold src_frame.
  destruct (Nat.eqb i j && Bool.eqb (s_lazy s) olz) eqn:Esame.
  - (* x + x *)
    apply andb_true_iff in Esame. destruct Esame as [Eij _]. apply Nat.eqb_eq in Eij.
    rewrite <- Eij, Hn. rewrite code_add_spec.
    destruct (src_frame_view f (s_lazy s)) as [Hr _]. rewrite Hr.
    destruct (schema_eqb (ssch f) (ssch f)).
    + rewrite res_list_rlist, !py_list_spec. cbn [C03.rows_of C03.listed sch].
      rewrite (store_eager env i (s_lazy s) f Hn). cbn [fst snd]. rewrite map_app. reflexivity.
    + rewrite !py_list_spec. rewrite Hr. cbn [C03.rows_of C03.listed sch].
      rewrite (store_eager env i (s_lazy s) f Hn). reflexivity.
  - destruct (nth_error env j) as [g|] eqn:Hj.
    + rewrite (fetch_eager env j olz g Hj). unfold src_frame. rewrite code_add_spec.
      destruct (src_frame_view f (s_lazy s)) as [Hr _]. destruct (src_frame_view g olz) as [Hg _].
      rewrite Hr, Hg.
      destruct (schema_eqb (ssch f) (ssch g)).
      * rewrite res_list_rlist, !py_list_spec. cbn [C03.rows_of C03.listed sch].
        rewrite (store_eager env i (s_lazy s) f Hn), (store_eager env j olz g Hj).
        cbn [fst snd]. rewrite map_app. reflexivity.
      * rewrite !py_list_spec. rewrite Hr, Hg. cbn [C03.listed sch].
        rewrite (store_eager env i (s_lazy s) f Hn), (store_eager env j olz g Hj). reflexivity.
    + unfold C03.fetch. rewrite nth_error_map, Hj. reflexivity.
Qed.

Lemma step_code_spec (env : list sframe) (s : stepd) (f : sframe) :
  nth_error env (Nat.modulo (s_src s) (length env)) = Some f ->
  op_ok (s_op s) f = true ->
  step_code (map eager_of env) s =
  (map eager_of (fst (step_spec env s)), snd (step_spec env s)).
Proof using veqb_spec.
  intros Hn Hok. destruct (s_op s) eqn:Eo;
    try (apply (step_code_spec_other env s f); [now rewrite Eo|exact Hn|now rewrite Eo]).
  eapply step_code_spec_add; eauto.
Qed.

(* ---------- programs ---------- *)
Theorem run_code_spec (prog : list stepd) (env : list sframe) :
  prog_ok env prog = true ->
  run_code (map eager_of env) prog =
  (map eager_of (fst (run_spec env prog)), snd (run_spec env prog)).
Proof using veqb_spec.
  revert env; induction prog as [|s r IH]; intros env Hok; cbn [C03.run_code C03.run_spec C03.prog_ok] in *; [reflexivity|].
  destruct (nth_error env (Nat.modulo (s_src s) (length env))) as [f|] eqn:Hn; [|discriminate].
  apply andb_true_iff in Hok. destruct Hok as [Hop Hrest].
  rewrite (step_code_spec env s f Hn Hop).
  destruct (step_spec env s) as [env1 o]. cbn [fst snd] in *.
  rewrite (IH env1 Hrest). destruct (run_spec env1 r) as [env2 os]. reflexivity.
Qed.

(* ---------- a materialised source is never altered (any argument, well-formed or not) ---------- *)
Lemma finish_eager_src (sc : schema) (l : list row) (r : rout V Nm) :
  fst (fst (finish (mkF sc (Eager l)) r)) = mkF sc (Eager l) /\
  o_srcs (snd (finish (mkF sc (Eager l)) r)) = [(names sc, l)].
Proof.
  destruct r as [x|fs|v]; unfold C03.finish.
  - unfold C03.res_list, C03.res_materialize. destruct x as [rs [l0|idx|mask|idx]]; cbn [rb rsch back sch C03.drain C03.rows_of];
      rewrite !py_list_spec; split; reflexivity.
  - destruct (list_all V Nm fs) as [fs1 ls]. rewrite py_list_spec. split; reflexivity.
  - rewrite py_list_spec. split; reflexivity.
Qed.

Lemma apply_op_eager_src (sc : schema) (l : list row) (o : op) :
  fst (apply_op o (mkF sc (Eager l))) = mkF sc (Eager l).
Proof.
  destruct o; cbn [C03.apply_op C03.lift_res fst]; try reflexivity.
  - unfold C03.code_select. cbn [sch]. destruct (index_loop (names sc) attrs []); reflexivity.
  - unfold C03.code_batches. cbn [C03.mat back]. destruct (k =? 0)%Z; reflexivity.
  - unfold C03.code_collect. cbn [C03.mat back sch]. destruct (resolve_cols (names sc) cols); reflexivity.
  - unfold C03.code_collect1, C03.code_collect. cbn [C03.mat back sch]. destruct (resolve_cols (names sc) [c]); reflexivity.
  - unfold C03.code_getitem, C03.code_collect. cbn [C03.mat back sch]. destruct (resolve_cols (names sc) cols); reflexivity.
  - unfold C03.code_getitem1, C03.code_collect1, C03.code_collect. cbn [C03.mat back sch]. destruct (resolve_cols (names sc) [c]); reflexivity.
Qed.

Lemma eager_source_unchanged (sc : schema) (l : list row) (o : op) :
  let '(a1, r) := apply_op o (mkF sc (Eager l)) in
  a1 = mkF sc (Eager l) /\
  fst (fst (finish a1 r)) = mkF sc (Eager l) /\
  o_srcs (snd (finish a1 r)) = [(names sc, l)].
Proof.
  pose proof (apply_op_eager_src sc l o) as H.
  destruct (apply_op o (mkF sc (Eager l))) as [a1 r]. cbn [fst] in H. subst a1.
  split; [reflexivity|]. apply finish_eager_src.
Qed.

Lemma code_add_eager_src (sa sb : schema) (la lb : list row) :
  fst (code_add (mkF sa (Eager la)) (mkF sb (Eager lb))) = (mkF sa (Eager la), mkF sb (Eager lb)).
Proof. rewrite code_add_spec. destruct (schema_eqb sa sb); reflexivity. Qed.

(* no step of a program changes a frame that is already in the environment *)
Lemma step_spec_extends (env : list sframe) (s : stepd) :
  exists news, fst (step_spec env s) = env ++ news.
Proof.
  unfold C03.step_spec.
  destruct (nth_error env (Nat.modulo (s_src s) (length env))) as [f|]; [|exists []; now rewrite app_nil_r].
  assert (Hg : forall o, exists news,
     fst (let '(v, news) := sout_obs (spec_apply o f) in
          (env ++ news, mkObs v [(names (ssch f), if s_lazy s then spec_left o f else srows f)])) = env ++ news).
  { intros o. destruct (sout_obs (spec_apply o f)) as [v news]. now exists news. }
  destruct (s_op s); try apply Hg.
  destruct (nth_error env (Nat.modulo other (length env))) as [g|]; [|exists []; now rewrite app_nil_r].
  destruct (schema_eqb (ssch f) (ssch g)); [eexists; reflexivity|exists []; now rewrite app_nil_r].
Qed.

Lemma run_spec_extends (prog : list stepd) (env : list sframe) :
  exists news, fst (run_spec env prog) = env ++ news.
Proof.
  revert env; induction prog as [|s r IH]; intros env; cbn [C03.run_spec]; [exists []; now rewrite app_nil_r|].
  destruct (step_spec_extends env s) as [n1 H1].
  destruct (step_spec env s) as [env1 o]. cbn [fst] in H1. subst env1.
  destruct (IH (env ++ n1)) as [n2 H2].
  destruct (run_spec (env ++ n1) r) as [env2 os]. cbn [fst] in *. subst env2.
  exists (n1 ++ n2). now rewrite app_assoc.
Qed.

Lemma run_code_sources_kept (prog : list stepd) (env : list sframe) :
  prog_ok env prog = true ->
  exists news, fst (run_code (map eager_of env) prog) = map eager_of env ++ news.
Proof using veqb_spec.
  intros Hok. rewrite run_code_spec by exact Hok. cbn [fst].
  destruct (run_spec_extends prog env) as [news H]. rewrite H, map_app. eexists; reflexivity.
Qed.

(* ---------- listing and iterating ---------- *)
Lemma py_list_twice (sc : schema) (b : backing V) :
  let '(f1, rows1) := py_list (mkF sc b) in
  let '(f2, rows2) := py_list f1 in
  rows1 = rows_of b /\ rows2 = rows_of b /\ f2 = f1 /\ f1 = mkF sc (Eager (rows_of b)).
Proof. rewrite py_list_spec, py_list_spec. cbn [C03.rows_of]. repeat split. Qed.

Lemma py_iterate_eager (sc : schema) (l : list row) :
  py_iterate (mkF sc (Eager l)) = (mkF sc (Eager l), l).
Proof. now rewrite py_iterate_spec. Qed.

(* ---------- the code as it was before the repairs (for the _refuted examples) ---------- *)
(* F-C03-1: offset = len(self._rows) + offset, no clamp *)
Definition pinned_slice (offset : Z) (len : option Z) (l : list row) : list row :=
  let offset := if (offset <? 0)%Z then (Z.of_nat (length l) + offset)%Z else offset in
  match len with
  | None => py_slice_from offset l
  | Some k => if (k =? 0)%Z then [] else py_slice offset (offset + k) l
  end.
Definition pinned_tail (k : Z) (l : list row) : list row := pinned_slice (0 - k) (Some k) l.

(* F-C03-4: __iter__ returned iter(self._rows): for a generator that is the generator itself,
   which the length hint's materialize() then empties *)
(* round-5 seeded change: {row: row for row in rows}.values() - a dict keeps the FIRST key at its
   position but the LAST value assigned to it *)
Fixpoint dict_put (d : list (row * row)) (k v : row) : list (row * row) :=
  match d with
  | [] => [(k, v)]
  | (k0, v0) :: t => if row_eqb k0 k then (k0, v) :: t else (k0, v0) :: dict_put t k v
  end.
Definition dict_distinct (l : list row) : list row := map snd (fold_left (fun d r => dict_put d r r) l []).

Definition pinned_py_list (f : frame) : frame * list row :=
  match back f with
  | Eager l => (f, l)
  | Lazy p => (mkF (sch f) (Eager p), [])
  end.
End Proofs.
