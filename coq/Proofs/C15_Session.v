(* C15 - a frame over time: profile / append / profile on one frame object.
   The profile read at any moment is the profile of the rows the frame holds at that moment:
   nothing read earlier, and no earlier state of the frame, can show through. *)
From Coq Require Import List ZArith NArith Bool Lia.
From Orso Require Import Gen.C15_Profiler Model.C15 Proofs.C15 Proofs.C15_Text Proofs.C15_Inst.
Import ListNotations.

Section Session.
Variables X P : Type.
Variable profile_of : list X -> P.

Lemma frun_app rows ops1 ops2 :
  frun profile_of rows (ops1 ++ ops2) =
  frun profile_of rows ops1 ++ frun profile_of (rows ++ appended ops1) ops2.
Proof.
  revert rows. induction ops1 as [|op r IH]; intro rows.
  - cbn [app frun appended flat_map]. now rewrite app_nil_r.
  - cbn [app frun]. rewrite IH. rewrite <- app_assoc. f_equal. f_equal.
    destruct op as [x|]; cbn [fstep fst appended flat_map app].
    + now rewrite <- app_assoc.
    + reflexivity.
Qed.

Lemma frun_length rows ops : length (frun profile_of rows ops) = reads_in ops.
Proof.
  revert rows. induction ops as [|op r IH]; intro rows; [reflexivity|].
  cbn [frun]. rewrite app_length, IH. unfold reads_in. destruct op; reflexivity.
Qed.

(* whatever happened before - appends and earlier reads - a read returns the profile of the
   initial rows followed by everything appended so far *)
Lemma frun_read rows ops1 ops2 :
  frun profile_of rows (ops1 ++ FProfile :: ops2) =
  frun profile_of rows ops1 ++ profile_of (rows ++ appended ops1) :: frun profile_of (rows ++ appended ops1) ops2.
Proof. rewrite frun_app. reflexivity. Qed.

Lemma appended_appends (l : list X) : appended (map (@FAppend X) l) = l.
Proof. induction l as [|x l IH]; [reflexivity|]. cbn [map appended flat_map app]. f_equal. exact IH. Qed.

Lemma frun_only_appends (l : list X) : forall r, frun profile_of r (map (@FAppend X) l) = [].
Proof. induction l as [|x l IH]; intro r; [reflexivity|]. cbn [map frun fstep snd fst app]. apply IH. Qed.

Lemma frun_appends rows l ops :
  frun profile_of rows (map FAppend l ++ ops) = frun profile_of (rows ++ l) ops.
Proof. rewrite frun_app, appended_appends, frun_only_appends. reflexivity. Qed.

Lemma firstn_plus (a b : nat) (l : list X) : firstn (a + b) l = firstn a l ++ firstn b (skipn a l).
Proof.
  revert l. induction a as [|a IH]; intro l; [reflexivity|].
  destruct l as [|x l]; cbn [Nat.add firstn skipn app].
  - now destruct b.
  - f_equal. apply IH.
Qed.

Lemma skipn_plus (a b : nat) (l : list X) : skipn b (skipn a l) = skipn (a + b) l.
Proof.
  revert l. induction a as [|a IH]; intro l; [reflexivity|].
  destruct l as [|x l]; cbn [Nat.add skipn].
  - now destruct b.
  - apply IH.
Qed.

(* the harness session: the reads are the profiles of the prefixes, the last one of the column *)
Lemma session_spec c reads pos :
  reads_ok pos reads (length c) ->
  frun profile_of (firstn pos c) (session_ops pos reads (skipn pos c)) =
  map (fun k => profile_of (firstn k c)) reads ++ [profile_of c].
Proof.
  revert pos. induction reads as [|k r IH]; intros pos Hok.
  - cbn [session_ops map app]. rewrite frun_appends, firstn_skipn. reflexivity.
  - destruct Hok as [Hle Hok]. cbn [session_ops map app].
    rewrite frun_appends. cbn [frun fstep snd fst app].
    replace (firstn pos c ++ firstn (k - pos) (skipn pos c)) with (firstn k c)
      by (rewrite <- firstn_plus; f_equal; lia).
    rewrite skipn_plus. replace (pos + (k - pos))%nat with k by lia.
    f_equal. apply IH. exact Hok.
Qed.
End Session.

(* ---------- with the numeric profilers: a read after any history has the exact additive fields
   of the rows the frame holds at that moment ---------- *)
Open Scope Z_scope.
Lemma num_session_read E scale hash (np_hist : list Z -> list (E * Z)) :
  0 < scale -> forall hist_merge wo rows ops1 ops2, 0 < BATCH_SIZE ->
  let frame := profile_frame Z.eqb E hist_merge (profile_num scale hash np_hist wo) in
  let now := rows ++ appended ops1 in
  exists before r after,
    frun frame rows (ops1 ++ FProfile :: ops2) = before ++ r :: after /\
    length before = reads_in ops1 /\
    match r with
    | None => now = []
    | Some p => now <> [] /\ quad p = quad (profile_num scale hash np_hist wo now) /\
                p_count p = zlen now /\ p_missing p = zlen (filter is_none now)
    end.
Proof.
  intros Hs hist_merge wo rows ops1 ops2 Hb frame now.
  exists (frun frame rows ops1), (frame now), (frun frame now ops2).
  split; [apply frun_read|]. split; [apply frun_length|].
  pose proof (num_batching E scale hash np_hist Hs hist_merge wo now Hb) as H.
  fold frame in H. destruct (frame now) as [p|]; [|exact H].
  destruct H as [Hne Hq]. split; [exact Hne|]. split; [exact Hq|].
  destruct count_missing_all as [Hc _]. specialize (Hc E scale hash np_hist wo now). cbn zeta in Hc.
  unfold quad in Hq. injection Hq as H1 H2 _ _. rewrite H1, H2. exact Hc.
Qed.
