(* C18 round 7 - columns are positional: a column's width is computed from its own name, its own type text and its
   own shown cells; names enter only through their lengths and the header line, so repeated / look-alike column
   names change nothing else. *)
From Coq Require Import String.
From Coq Require Import List NArith ZArith Bool Arith Lia.
From Orso Require Import Gen.C18_Tables Model.C18.
Import ListNotations.
Local Open Scope list_scope.

Lemma zip3_nth {A B C} (a : list A) (b : list B) (c : list C) j x y z :
  nth_error a j = Some x -> nth_error b j = Some y -> nth_error c j = Some z ->
  nth_error (zip3 a b c) j = Some (x, y, z).
Proof.
  revert b c j. induction a as [|a0 a IH]; intros [|b0 b] [|c0 c] [|j]; cbn; intros Ha Hb Hc; try discriminate.
  - congruence.
  - apply IH; assumption.
Qed.

Definition dw_step (i : nat) (m : nat) (r : list cell) : nat :=
  match nth_error r i with
  | Some c => if is_none c then m else Nat.max m (length (cell_str c))
  | None => m
  end.

Lemma data_width_fold t i : data_width t i = fold_left (dw_step i) t 4.
Proof. reflexivity. Qed.

Lemma dw_fold_mono i t : forall m, m <= fold_left (dw_step i) t m.
Proof.
  induction t as [|r t IH]; intros m; cbn [fold_left]; [lia|].
  etransitivity; [|apply IH]. unfold dw_step. destruct (nth_error r i) as [c|]; [destruct (is_none c)|]; lia.
Qed.

Lemma dw_fold_ge i t r c : In r t -> nth_error r i = Some c -> is_none c = false ->
  forall m, length (cell_str c) <= fold_left (dw_step i) t m.
Proof.
  induction t as [|r0 t IH]; intros Hin Hn Hc m; [destruct Hin|].
  cbn [fold_left]. destruct Hin as [->|Hin].
  - etransitivity; [|apply dw_fold_mono]. unfold dw_step. rewrite Hn, Hc. lia.
  - apply IH; assumption.
Qed.

(* calculate_data_width of column i covers every non-null cell of column i, and is at least 4 *)
Lemma data_width_covers t i r c : In r t -> nth_error r i = Some c -> is_none c = false ->
  length (cell_str c) <= data_width t i.
Proof. intros. rewrite data_width_fold. eapply dw_fold_ge; eassumption. Qed.

(* the width of column j, in closed form: its own name, its own type text (when the type row is shown), its own cells *)
Lemma col_widths_nth f cfg t j nm ty :
  nth_error (names f) j = Some nm -> nth_error (col_types f) j = Some ty ->
  nth_error (col_widths f cfg t) j =
  Some (Nat.min (Nat.max (Nat.max (length nm) (if show_types cfg then length ty else 0)) (data_width t j)) (mcw cfg)).
Proof.
  intros Hn Ht. unfold col_widths.
  assert (Hj : j < length (names f)) by (apply nth_error_Some; congruence).
  assert (Hz : nth_error (zip3 (map (@length N) (names f))
                   (if show_types cfg then map (@length N) (col_types f) else map (fun _ => 0) (col_types f))
                   (map (data_width t) (seq 0 (length (names f))))) j
               = Some (length nm, (if show_types cfg then length ty else 0), data_width t j)).
  { apply zip3_nth.
    - apply map_nth_error. exact Hn.
    - destruct (show_types cfg).
      + apply map_nth_error. exact Ht.
      + apply (map_nth_error (fun _ : text => 0)) with (1 := Ht).
    - apply map_nth_error.
      rewrite (nth_error_nth' _ 0) by (rewrite seq_length; exact Hj).
      rewrite seq_nth by exact Hj. reflexivity. }
  cbv zeta. erewrite map_nth_error by exact Hz. reflexivity.
Qed.

(* a column is as wide as each of its own shown non-null cells, up to max_column_width: nothing but max_column_width cuts a cell *)
Lemma column_wide_enough f cfg t j nm ty r c :
  nth_error (names f) j = Some nm -> nth_error (col_types f) j = Some ty ->
  In r t -> nth_error r j = Some c -> is_none c = false ->
  exists w, nth_error (col_widths f cfg t) j = Some w /\
            Nat.min (length (cell_str c)) (mcw cfg) <= w /\ Nat.min (length nm) (mcw cfg) <= w /\ w <= mcw cfg.
Proof.
  intros Hn Ht Hin Hr Hc. eexists. split; [apply col_widths_nth; eassumption|].
  pose proof (data_width_covers t j r c Hin Hr Hc). lia.
Qed.

(* a number that fits is printed in full: every digit, right-aligned *)
Lemma take_rjust_full w s : length s <= w -> take w (rjust w s) = spaces (w - length s) ++ s.
Proof.
  intros H. unfold take, rjust. apply firstn_all2. rewrite app_length. unfold spaces. rewrite repeat_length. lia.
Qed.

Definition numeric_cell (c : cell) (tk : String.string) (s : text) : Prop :=
  cs c = None /\
  ((cv c = VInt s /\ tk = "INTEGER"%string) \/ (cv c = VFloat false s /\ tk = "FLOAT"%string) \/ (cv c = VDecimal s /\ tk = "FLOAT"%string)).

(* a number in a shown row whose text is not longer than max_column_width is printed with every digit, in a column of
   its own width class: no other column (same-named or not) can narrow it *)
Lemma number_shown_in_full f cfg t j nm ty r c tk s :
  nth_error (names f) j = Some nm -> nth_error (col_types f) j = Some ty ->
  In r t -> nth_error r j = Some c -> numeric_cell c tk s -> length s <= mcw cfg ->
  exists w, nth_error (col_widths f cfg t) j = Some w /\ length s <= w /\
            type_formatter c w = Ok (tok tk ++ spaces (w - length s) ++ s ++ OFF).
Proof.
  intros Hn Ht Hin Hr [Hcs Hcv] Hlen.
  assert (Hnone : is_none c = false).
  { unfold is_none. destruct Hcv as [[-> _]|[[-> _]|[-> _]]]; reflexivity. }
  assert (Hstr : cell_str c = s).
  { unfold cell_str. rewrite Hcs. destruct Hcv as [[-> _]|[[-> _]|[-> _]]]; reflexivity. }
  destruct (column_wide_enough f cfg t j nm ty r c Hn Ht Hin Hr Hnone) as (w & Hw & Hge & _ & _).
  rewrite Hstr in Hge. exists w. split; [exact Hw|]. split; [lia|].
  assert (Hsw : length s <= w) by lia.
  unfold type_formatter.
  destruct Hcv as [[-> ->]|[[-> ->]|[-> ->]]]; cbn [unsub np_map bind fmt_value];
    rewrite (take_rjust_full w s Hsw), <- app_assoc; reflexivity.
Qed.

(* the same frame under other column names *)
Definition rename (f : frame) (ns : list text) : frame := mkframe ns (ctypes f) (rows f) (lazy f).

Lemma map_length_eq {A B} (g h : A -> B) (l l' : list A) : length l = length l' -> (forall x y, g x = h y) -> map g l = map h l'.
Proof.
  revert l'. induction l as [|x l IH]; intros [|y l'] Hl Hg; cbn in *; try discriminate; [reflexivity|].
  f_equal; [apply Hg|apply IH; [lia|exact Hg]].
Qed.

Lemma col_types_rename f ns : length ns = length (names f) -> col_types (rename f ns) = col_types f.
Proof.
  intros Hl. unfold col_types, rename; cbn [ctypes names]. destruct (ctypes f); [reflexivity|].
  apply map_length_eq; [exact Hl|reflexivity].
Qed.

Lemma col_widths_rename f ns cfg t :
  map (@length N) ns = map (@length N) (names f) -> col_widths (rename f ns) cfg t = col_widths f cfg t.
Proof.
  intros Hm. assert (Hl : length ns = length (names f)).
  { apply (f_equal (@length nat)) in Hm. rewrite !map_length in Hm. exact Hm. }
  unfold col_widths. rewrite (col_types_rename f ns Hl).
  change (names (rename f ns)) with ns. rewrite Hm. do 4 f_equal. exact Hl.
Qed.

(* Renaming the columns - to names of the same lengths, e.g. all to ONE name - changes the header line and nothing
   else: same top rule, same type row, same separator, same row lines (cells, widths, labels), same bottom rule,
   and the same error if there is one. *)
Lemma names_only_in_header f ns cfg :
  map (@length N) ns = map (@length N) (names f) ->
  match inner_tagged f cfg, inner_tagged (rename f ns) cfg with
  | Ok ls, Ok ls' => exists top hd hd' rest, ls = top :: hd :: rest /\ ls' = top :: hd' :: rest
  | Raise e, Raise e' => e = e'
  | _, _ => False
  end.
Proof.
  intros Hm. assert (Hl : length ns = length (names f)).
  { apply (f_equal (@length nat)) in Hm. rewrite !map_length in Hm. exact Hm. }
  unfold inner_tagged. rewrite (col_widths_rename f ns cfg _ Hm), (col_types_rename f ns Hl).
  cbn [rename rows lazy names].
  destruct (mapM _ _) as [body|e]; cbn [bind]; [|reflexivity].
  do 4 eexists. split; reflexivity.
Qed.

(* non-vacuity: schema id, id, km with the wider values in the SECOND id column; column 1 is 8 wide, not 4 *)
Definition dup_frame : frame :=
  mkframe [T "id"; T "id"; T "km"] None
    [[mkcell (VInt (T "1")) None; mkcell (VStr (T "Ganymede")) None; mkcell (VInt (T "5262")) None];
     [mkcell (VInt (T "2")) None; mkcell (VStr (T "Callisto")) None; mkcell (VInt (T "4821")) None]] false.
Definition dup_cfg : config := mkconfig 5 200 30 false true false.
Example dup_frame_widths : col_widths dup_frame dup_cfg (rows dup_frame) = [4; 8; 4].
Proof. vm_compute. reflexivity. Qed.
