(* C17 - lemmas about the schema model (Model/C17.v): union, lookup, removal, histories. *)
From Coq Require Import List ZArith NArith Bool Lia.
From Orso Require Import Model.C17.
Import ListNotations.

(* l1 is l2 with some elements left out, order kept *)
Inductive subseq {A : Type} : list A -> list A -> Prop :=
| ss_nil : subseq [] []
| ss_skip : forall x l1 l2, subseq l1 l2 -> subseq l1 (x :: l2)
| ss_keep : forall x l1 l2, subseq l1 l2 -> subseq (x :: l1) (x :: l2).

Lemma subseq_refl {A : Type} (l : list A) : subseq l l.
Proof. induction l; constructor; assumption. Qed.

Lemma filter_filter_and {A : Type} (f g : A -> bool) (l : list A) :
  filter f (filter g l) = filter (fun x => g x && f x) l.
Proof.
  induction l as [|a l IH]; simpl; [reflexivity|].
  destruct (g a) eqn:G; simpl; [destruct (f a); rewrite IH; reflexivity | exact IH].
Qed.

Lemma filter_ext_in' {A : Type} (f g : A -> bool) (l : list A) :
  (forall x, In x l -> f x = g x) -> filter f l = filter g l.
Proof.
  induction l as [|a l IH]; intros H; simpl; [reflexivity|].
  rewrite (H a (or_introl eq_refl)). rewrite IH; [reflexivity|].
  intros x Hx. apply H. right. exact Hx.
Qed.

Lemma find_app {A : Type} (p : A -> bool) (a b : list A) :
  find p (a ++ b) = match find p a with Some x => Some x | None => find p b end.
Proof. induction a as [|x a IH]; simpl; [reflexivity|]. destruct (p x); [reflexivity|exact IH]. Qed.

Lemma find_split {A : Type} (p : A -> bool) (l : list A) (c : A) :
  find p l = Some c <->
  exists pre post, l = pre ++ c :: post /\ p c = true /\ (forall d, In d pre -> p d = false).
Proof.
  split.
  - induction l as [|a l IH]; simpl; [discriminate|].
    destruct (p a) eqn:Pa.
    + intros H. injection H as ->. exists [], l. repeat split; [exact Pa | intros d []].
    + intros H. destruct (IH H) as (pre & post & -> & Pc & Hpre).
      exists (a :: pre), post. repeat split; [exact Pc|].
      intros d [<-|Hd]; [exact Pa | exact (Hpre d Hd)].
  - intros (pre & post & -> & Pc & Hpre). rewrite find_app.
    assert (Hn : find p pre = None).
    { clear -Hpre. induction pre as [|a pre IH]; simpl; [reflexivity|].
      rewrite (Hpre a (or_introl eq_refl)). apply IH. intros d Hd. apply Hpre. right. exact Hd. }
    rewrite Hn. simpl. rewrite Pc. reflexivity.
Qed.

Lemma find_none_iff {A : Type} (p : A -> bool) (l : list A) :
  find p l = None <-> (forall d, In d l -> p d = false).
Proof.
  split; [apply find_none|].
  induction l as [|a l IH]; intros H; simpl; [reflexivity|].
  rewrite (H a (or_introl eq_refl)). apply IH. intros d Hd. apply H. right. exact Hd.
Qed.

Lemma firstn_length_app {A : Type} (pre x : list A) : firstn (length pre) (pre ++ x) = pre.
Proof. induction pre as [|a pre IH]; simpl; [destruct x; reflexivity | rewrite IH; reflexivity]. Qed.

Lemma skipn_S_length_app {A : Type} (pre : list A) (c : A) (post : list A) :
  skipn (S (length pre)) (pre ++ c :: post) = post.
Proof. induction pre as [|a pre IH]; simpl; [reflexivity | exact IH]. Qed.

Lemma nth_error_length_app {A : Type} (pre : list A) (c : A) (post : list A) :
  nth_error (pre ++ c :: post) (length pre) = Some c.
Proof. induction pre as [|a pre IH]; simpl; [reflexivity | exact IH]. Qed.

Lemma NoDup_map_filter {A B : Type} (f : A -> B) (p : A -> bool) (l : list A) :
  NoDup (map f l) -> NoDup (map f (filter p l)).
Proof.
  induction l as [|a l IH]; simpl; intros H; [constructor|].
  inversion H as [|? ? Hn Hd]; subst.
  destruct (p a); simpl; [constructor|]; auto.
  intros Hin. apply Hn. apply in_map_iff in Hin. destruct Hin as (x & <- & Hx).
  apply filter_In in Hx. apply in_map. tauto.
Qed.

Section Laws.
Variables I T P : Type.
Variable ieqb : I -> I -> bool.
Variable teqb : T -> T -> bool.
Variable lower : T -> T.

Notation col := (col I T P).
Notation schema := (schema I T P).
Notation mem_i := (mem_i ieqb).
Notation mem_t := (mem_t teqb).
Notation add := (add ieqb).
Notation add_loop := (add_loop ieqb).
Notation bears := (bears teqb lower).
Notation find_column := (find_column teqb lower).
Notation pop_column := (pop_column teqb).
Notation first_named := (first_named teqb).
Notation step := (step ieqb teqb lower).
Notation run := (run ieqb teqb lower).

(* ---------- specification vocabulary ---------- *)

(* first occurrence of every identity, order kept *)
Fixpoint nub (l : list col) : list col :=
  match l with
  | [] => []
  | c :: r => c :: filter (fun d => negb (ieqb (cid d) (cid c))) (nub r)
  end.

(* the columns of l whose identity none of [old] has *)
Definition unseen (old l : list col) : list col :=
  filter (fun c => negb (mem_i (cid c) (map cid old))) l.

(* what the loop of __add__ appends, given the identities seen so far *)
Fixpoint fresh (seen : list I) (l : list col) : list col :=
  match l with
  | [] => []
  | c :: r => if mem_i (cid c) seen then fresh seen r else c :: fresh (seen ++ [cid c]) r
  end.

Lemma add_loop_fresh (l : list col) : forall seen acc, add_loop seen acc l = acc ++ fresh seen l.
Proof.
  induction l as [|c l IH]; intros seen acc; simpl; [rewrite app_nil_r; reflexivity|].
  destruct (mem_i (cid c) seen); rewrite IH; [reflexivity|].
  rewrite <- app_assoc. reflexivity.
Qed.

Lemma mem_i_app (x : I) (a b : list I) : mem_i x (a ++ b) = mem_i x a || mem_i x b.
Proof. apply existsb_app. Qed.

Lemma fresh_app (B C : list col) : forall seen,
  fresh seen (B ++ C) = fresh seen B ++ fresh (seen ++ map cid (fresh seen B)) C.
Proof.
  induction B as [|b B IH]; intros seen; simpl; [rewrite app_nil_r; reflexivity|].
  destruct (mem_i (cid b) seen); [apply IH|].
  simpl. rewrite IH. rewrite <- app_assoc. reflexivity.
Qed.

Lemma add_cols_fresh (s1 s2 : schema) :
  scols (add s1 s2) = scols s1 ++ fresh (map cid (scols s1)) (scols s2).
Proof. unfold C17.add. simpl. apply add_loop_fresh. Qed.

Lemma add_name (s1 s2 : schema) : sname (add s1 s2) = sname s1 /\ saliases (add s1 s2) = saliases s1.
Proof. split; reflexivity. Qed.

Lemma chain_fresh (ss : list schema) : forall s,
  scols (fold_left add ss s) = scols s ++ fresh (map cid (scols s)) (concat (map (@scols I T P) ss)) /\
  sname (fold_left add ss s) = sname s /\ saliases (fold_left add ss s) = saliases s.
Proof.
  induction ss as [|b ss IH]; intros s; simpl; [rewrite app_nil_r; auto|].
  destruct (IH (add s b)) as (Hc & Hn & Ha). rewrite Hc, Hn, Ha. repeat split.
  rewrite add_cols_fresh, fresh_app, map_app, <- app_assoc. reflexivity.
Qed.

Lemma nub_filter_subseq (l : list col) : forall p, subseq (filter p (nub l)) l.
Proof.
  induction l as [|c l IH]; intros p; simpl; [constructor|].
  destruct (p c); rewrite filter_filter_and; [apply ss_keep | apply ss_skip]; apply IH.
Qed.

Lemma nub_incl (l : list col) : forall c, In c (nub l) -> In c l.
Proof.
  induction l as [|a l IH]; simpl; intros c H; [exact H|].
  destruct H as [H|H]; [left; exact H|]. right. apply IH. apply filter_In in H. tauto.
Qed.

Section WithEq.
Hypothesis ieqb_spec : forall a b, ieqb a b = true <-> a = b.

Lemma ieqb_refl (a : I) : ieqb a a = true.
Proof. apply ieqb_spec. reflexivity. Qed.

Lemma mem_i_In (x : I) (l : list I) : mem_i x l = true <-> In x l.
Proof.
  unfold C17.mem_i. rewrite existsb_exists. split.
  - intros (y & Hy & E). apply ieqb_spec in E. subst. exact Hy.
  - intros H. exists x. split; [exact H | apply ieqb_refl].
Qed.

Lemma mem_i_false (x : I) (l : list I) : mem_i x l = false <-> ~ In x l.
Proof.
  rewrite <- mem_i_In. destruct (mem_i x l); split; intros H.
  - discriminate.
  - exfalso. apply H. reflexivity.
  - intros H'. discriminate.
  - reflexivity.
Qed.

Lemma fresh_spec (l : list col) : forall seen,
  fresh seen l = filter (fun c => negb (mem_i (cid c) seen)) (nub l).
Proof.
  induction l as [|a l IH]; intros seen; simpl; [reflexivity|].
  destruct (mem_i (cid a) seen) eqn:E; simpl.
  - rewrite IH, filter_filter_and. apply filter_ext_in'. intros x _.
    destruct (ieqb (cid x) (cid a)) eqn:Ex; simpl; [|reflexivity].
    apply ieqb_spec in Ex. rewrite Ex, E. reflexivity.
  - f_equal. rewrite IH, filter_filter_and. apply filter_ext_in'. intros x _.
    unfold C17.mem_i. rewrite existsb_app. simpl. rewrite orb_false_r, negb_orb, andb_comm. reflexivity.
Qed.

(* union = left columns ++ first occurrences of the right-hand columns with an unseen identity *)
Lemma add_columns (s1 s2 : schema) :
  scols (add s1 s2) = scols s1 ++ unseen (scols s1) (nub (scols s2)).
Proof. rewrite add_cols_fresh, fresh_spec. reflexivity. Qed.

Lemma chain_columns (ss : list schema) (s : schema) :
  scols (fold_left add ss s) = scols s ++ unseen (scols s) (nub (concat (map (@scols I T P) ss))) /\
  sname (fold_left add ss s) = sname s /\ saliases (fold_left add ss s) = saliases s.
Proof.
  destruct (chain_fresh ss s) as (Hc & Hn & Ha). rewrite Hc, fresh_spec. auto.
Qed.

Lemma nub_nodup (l : list col) : NoDup (map cid (nub l)).
Proof.
  induction l as [|a l IH]; simpl; constructor.
  - intros Hin. apply in_map_iff in Hin. destruct Hin as (x & Ex & Hx).
    apply filter_In in Hx. destruct Hx as (_ & Hx). rewrite Ex, ieqb_refl in Hx. discriminate.
  - apply NoDup_map_filter. exact IH.
Qed.

Lemma nub_first (l : list col) : forall c, In c l ->
  exists d, find (fun x => ieqb (cid x) (cid c)) l = Some d /\ In d (nub l).
Proof.
  induction l as [|a l IH]; simpl; intros c H; [contradiction|].
  destruct (ieqb (cid a) (cid c)) eqn:E.
  - exists a. split; [reflexivity | left; reflexivity].
  - destruct H as [H|H]; [subst; rewrite ieqb_refl in E; discriminate|].
    destruct (IH c H) as (d & Hf & Hd). exists d. split; [exact Hf|]. right.
    apply filter_In. split; [exact Hd|].
    apply find_some in Hf. destruct Hf as (_ & Hf). apply ieqb_spec in Hf.
    rewrite Hf. destruct (ieqb (cid c) (cid a)) eqn:E2; [|reflexivity].
    apply ieqb_spec in E2. rewrite E2, ieqb_refl in E. discriminate.
Qed.

(* declarative reading of the appended part *)
Lemma add_characterised (s1 s2 : schema) :
  exists ext, scols (add s1 s2) = scols s1 ++ ext /\
    subseq ext (scols s2) /\
    NoDup (map cid ext) /\
    (forall c, In c ext -> In c (scols s2) /\ ~ In (cid c) (map cid (scols s1))) /\
    (forall c, In c (scols s2) -> ~ In (cid c) (map cid (scols s1)) ->
       exists d, find (fun x => ieqb (cid x) (cid c)) (scols s2) = Some d /\ In d ext).
Proof.
  exists (unseen (scols s1) (nub (scols s2))). split; [apply add_columns|].
  split; [apply nub_filter_subseq|].
  split; [apply NoDup_map_filter, nub_nodup|].
  split.
  - intros c H. apply filter_In in H. destruct H as (H1 & H2). split; [apply nub_incl; exact H1|].
    apply mem_i_false. destruct (mem_i (cid c) (map cid (scols s1))); [discriminate|reflexivity].
  - intros c Hc Hn. destruct (nub_first _ c Hc) as (d & Hf & Hd). exists d. split; [exact Hf|].
    apply filter_In. split; [exact Hd|].
    apply find_some in Hf. destruct Hf as (_ & Hf). apply ieqb_spec in Hf. rewrite Hf.
    apply mem_i_false in Hn. rewrite Hn. reflexivity.
Qed.

(* when the right operand has no repeated identity the appended part is a plain filter *)
Lemma nub_id_of_nodup (l : list col) : NoDup (map cid l) -> nub l = l.
Proof.
  induction l as [|a l IH]; simpl; intros H; [reflexivity|].
  inversion H as [|? ? Hn Hd]; subst. rewrite (IH Hd). f_equal.
  transitivity (filter (fun _ : col => true) l).
  - apply filter_ext_in'. intros x Hx.
    destruct (ieqb (cid x) (cid a)) eqn:E; [|reflexivity].
    apply ieqb_spec in E. exfalso. apply Hn. rewrite <- E. apply in_map. exact Hx.
  - clear. induction l as [|x l IH]; simpl; [reflexivity | rewrite IH; reflexivity].
Qed.

Lemma add_columns_nodup (s1 s2 : schema) :
  NoDup (map cid (scols s2)) -> scols (add s1 s2) = scols s1 ++ unseen (scols s1) (scols s2).
Proof. intros H. rewrite add_columns, (nub_id_of_nodup _ H). reflexivity. Qed.

Lemma fresh_covers (B : list col) : forall seen x,
  mem_i x (map cid B) = true -> mem_i x (seen ++ map cid (fresh seen B)) = true.
Proof.
  induction B as [|b B IH]; intros seen x; simpl; [discriminate|].
  intros H. apply orb_true_iff in H.
  destruct (mem_i (cid b) seen) eqn:E.
  - destruct H as [H|H]; [|apply IH; exact H].
    apply ieqb_spec in H. subst x. unfold C17.mem_i. rewrite existsb_app.
    unfold C17.mem_i in E. rewrite E. reflexivity.
  - simpl. destruct H as [H|H].
    + unfold C17.mem_i. rewrite existsb_app. simpl. rewrite H, orb_true_r. reflexivity.
    + specialize (IH (seen ++ [cid b]) x H). rewrite <- app_assoc in IH. exact IH.
Qed.

Lemma fresh_absorb (C : list col) : forall S S',
  (forall x, mem_i x S' = true -> mem_i x S = true) ->
  fresh S (fresh S' C) = fresh S C.
Proof.
  induction C as [|c C IH]; intros S S' Hsub; simpl; [reflexivity|].
  assert (Hext : forall S0, (forall x, mem_i x S' = true -> mem_i x S0 = true) ->
                 mem_i (cid c) S0 = true ->
                 forall x, mem_i x (S' ++ [cid c]) = true -> mem_i x S0 = true).
  { intros S0 H0 Hc x Hx. unfold C17.mem_i in Hx. rewrite existsb_app in Hx. simpl in Hx.
    rewrite orb_false_r in Hx. apply orb_true_iff in Hx. destruct Hx as [Hx|Hx]; [apply H0; exact Hx|].
    apply ieqb_spec in Hx. subst x. exact Hc. }
  destruct (mem_i (cid c) S') eqn:E'.
  - rewrite (Hsub _ E'). apply IH. exact Hsub.
  - simpl. destruct (mem_i (cid c) S) eqn:E.
    + apply IH. apply Hext; assumption.
    + f_equal. apply IH. intros x Hx.
      unfold C17.mem_i in Hx |- *. rewrite existsb_app in Hx |- *. simpl in Hx |- *.
      apply orb_true_iff in Hx. apply orb_true_iff. destruct Hx as [Hx|Hx]; [left; apply Hsub; exact Hx | right; exact Hx].
Qed.

(* (a + b) + c = a + (b + c), as whole schemas *)
Lemma add_assoc (a b c : schema) : add (add a b) c = add a (add b c).
Proof.
  assert (Hcols : scols (add (add a b) c) = scols (add a (add b c))).
  { rewrite (add_cols_fresh (add a b) c), (add_cols_fresh a (add b c)), !(add_cols_fresh a b), (add_cols_fresh b c).
    rewrite fresh_app, map_app, <- app_assoc. do 2 f_equal.
    symmetry. apply fresh_absorb. intros x Hx. apply fresh_covers. exact Hx. }
  unfold C17.add in *. simpl in *. rewrite Hcols. reflexivity.
Qed.

End WithEq.

(* ---------- lookup ---------- *)

Lemma all_names_has_name (c : col) : In (cname c) (all_names c).
Proof. unfold C17.all_names. destruct (caliases c); [apply in_or_app; right|]; left; reflexivity. Qed.

Lemma all_names_spec (c : col) (x : T) :
  In x (all_names c) <-> x = cname c \/ exists a, caliases c = Some a /\ In x a.
Proof.
  unfold C17.all_names. destruct (caliases c) as [a|]; simpl.
  - rewrite in_app_iff. simpl. split.
    + intros [H|[H|[]]]; [right; exists a; auto | left; auto].
    + intros [H|(a' & E & H)]; [right; left; auto | left; injection E as ->; exact H].
  - split; [intros [H|[]]; left; auto | intros [H|(a' & E & _)]; [left; auto | discriminate]].
Qed.

Lemma find_column_first (ci : bool) (key : T) (s : schema) (c : col) :
  find_column ci key s = Some c <->
  exists pre post, scols s = pre ++ c :: post /\ bears ci key c = true /\
                   (forall d, In d pre -> bears ci key d = false).
Proof. apply find_split. Qed.

Lemma find_column_none (ci : bool) (key : T) (s : schema) :
  find_column ci key s = None <-> (forall d, In d (scols s) -> bears ci key d = false).
Proof. apply find_none_iff. Qed.

Lemma column_at_nonneg (i : nat) (s : schema) :
  column_at (Z.of_nat i) s = match nth_error (scols s) i with Some c => Ok c | None => Raise IndexError end.
Proof.
  unfold C17.column_at.
  destruct (Z.of_nat i <? 0)%Z eqn:E; [apply Z.ltb_lt in E; lia|].
  rewrite E, Nat2Z.id. reflexivity.
Qed.

Lemma column_at_negative (z : Z) (s : schema) :
  (- Z.of_nat (length (scols s)) <= z < 0)%Z ->
  column_at z s = column_at (z + Z.of_nat (length (scols s))) s.
Proof.
  intros H. unfold C17.column_at.
  destruct (z <? 0)%Z eqn:E; [|apply Z.ltb_ge in E; lia].
  destruct (z + Z.of_nat (length (scols s)) <? 0)%Z eqn:E2; [apply Z.ltb_lt in E2; lia|].
  rewrite E2. reflexivity.
Qed.

Lemma column_at_in_range (z : Z) (s : schema) :
  (- Z.of_nat (length (scols s)) <= z < Z.of_nat (length (scols s)))%Z ->
  exists c, column_at z s = Ok c /\
            nth_error (scols s) (Z.to_nat (if (z <? 0)%Z then z + Z.of_nat (length (scols s)) else z)%Z) = Some c.
Proof.
  intros H. unfold C17.column_at.
  set (j := (if (z <? 0)%Z then (z + Z.of_nat (length (scols s)))%Z else z)).
  assert (Hj : (0 <= j < Z.of_nat (length (scols s)))%Z).
  { unfold j. destruct (z <? 0)%Z eqn:E; [apply Z.ltb_lt in E | apply Z.ltb_ge in E]; lia. }
  destruct (j <? 0)%Z eqn:E; [apply Z.ltb_lt in E; lia|].
  destruct (nth_error (scols s) (Z.to_nat j)) as [c|] eqn:En.
  - exists c. split; reflexivity.
  - apply nth_error_None in En. lia.
Qed.

Lemma column_at_out_of_range (z : Z) (s : schema) :
  (z < - Z.of_nat (length (scols s)) \/ Z.of_nat (length (scols s)) <= z)%Z ->
  column_at z s = Raise IndexError.
Proof.
  intros H. unfold C17.column_at.
  set (j := (if (z <? 0)%Z then (z + Z.of_nat (length (scols s)))%Z else z)).
  destruct (j <? 0)%Z eqn:E; [reflexivity|]. apply Z.ltb_ge in E.
  destruct (nth_error (scols s) (Z.to_nat j)) as [c|] eqn:En; [|reflexivity].
  exfalso. assert (Hl : Z.to_nat j < length (scols s)) by (apply nth_error_Some; rewrite En; discriminate).
  unfold j in *. destruct (z <? 0)%Z eqn:E3; [apply Z.ltb_lt in E3 | apply Z.ltb_ge in E3]; lia.
Qed.

(* the column found sits at a definite position; counting from either end gives it back, iteration
   shows its name there, and no earlier position holds a bearer of the key *)
Lemma find_column_positional (ci : bool) (key : T) (s : schema) (c : col) :
  find_column ci key s = Some c ->
  exists i, i < length (scols s) /\
    column_at (Z.of_nat i) s = Ok c /\
    column_at (Z.of_nat i - Z.of_nat (length (scols s))) s = Ok c /\
    nth_error (iter_names s) i = Some (cname c) /\
    nth_error (column_names s) i = Some (cname c) /\
    bears ci key c = true /\
    (forall j d, j < i -> column_at (Z.of_nat j) s = Ok d -> bears ci key d = false).
Proof.
  intros H. apply find_column_first in H. destruct H as (pre & post & E & Hc & Hpre).
  exists (length pre).
  assert (Hlen : length pre < length (scols s)) by (rewrite E, app_length; simpl; lia).
  assert (Hat : column_at (Z.of_nat (length pre)) s = Ok c).
  { rewrite column_at_nonneg, E, nth_error_length_app. reflexivity. }
  split; [exact Hlen|]. split; [exact Hat|]. split.
  { rewrite column_at_negative by lia. rewrite <- Hat. f_equal. lia. }
  split; [|split; [|split; [exact Hc|]]].
  - unfold C17.iter_names. rewrite E, map_app. simpl.
    rewrite <- (map_length cname pre). apply nth_error_length_app.
  - unfold C17.column_names. rewrite E, map_app. simpl.
    rewrite <- (map_length cname pre). apply nth_error_length_app.
  - intros j d Hj Hd. rewrite column_at_nonneg, E, nth_error_app1 in Hd by exact Hj.
    destruct (nth_error pre j) as [d'|] eqn:En; [|discriminate].
    injection Hd as <-. apply Hpre. eapply nth_error_In. exact En.
Qed.

Lemma iter_is_column_names (s : schema) :
  iter_names s = column_names s /\ column_names s = map cname (scols s) /\
  length (iter_names s) = length (scols s).
Proof. repeat split. apply map_length. Qed.

Lemma column_by_name_is_find (key : T) (s : schema) : column_by_name teqb lower key s = find_column false key s.
Proof. reflexivity. Qed.

Lemma bears_ci_iff_gen (key : T) (c : col) :
  (forall a b, teqb a b = true <-> a = b) ->
  (bears true key c = true <-> In (lower key) (map lower (all_names c))).
Proof.
  intros teqb_spec. unfold C17.bears, C17.mem_t. rewrite existsb_exists. split.
  - intros (y & Hy & E). apply teqb_spec in E. rewrite E. exact Hy.
  - intros H. exists (lower key). split; [exact H | apply teqb_spec; reflexivity].
Qed.

Section WithTEq.
Hypothesis teqb_spec : forall a b, teqb a b = true <-> a = b.

Lemma teqb_refl (a : T) : teqb a a = true.
Proof. apply teqb_spec. reflexivity. Qed.

Lemma teqb_false (a b : T) : teqb a b = false <-> a <> b.
Proof.
  split.
  - intros H E. subst. rewrite teqb_refl in H. discriminate.
  - intros H. destruct (teqb a b) eqn:E; [|reflexivity]. apply teqb_spec in E. contradiction.
Qed.

Lemma mem_t_In (x : T) (l : list T) : mem_t x l = true <-> In x l.
Proof.
  unfold C17.mem_t. rewrite existsb_exists. split.
  - intros (y & Hy & E). apply teqb_spec in E. subst. exact Hy.
  - intros H. exists x. split; [exact H | apply teqb_refl].
Qed.

Lemma bears_cs_iff (key : T) (c : col) : bears false key c = true <-> In key (all_names c).
Proof. apply mem_t_In. Qed.

Lemma bears_ci_iff (key : T) (c : col) :
  bears true key c = true <-> In (lower key) (map lower (all_names c)).
Proof. apply bears_ci_iff_gen. exact teqb_spec. Qed.

(* a key is found exactly when all_column_names lists it (after case folding, if asked) *)
Lemma find_column_all_names (key : T) (s : schema) :
  ((exists c, find_column false key s = Some c) <-> In key (all_column_names s)) /\
  ((exists c, find_column true key s = Some c) <-> In (lower key) (map lower (all_column_names s))).
Proof.
  assert (G : forall ci, (exists c, find_column ci key s = Some c) <-> exists d, In d (scols s) /\ bears ci key d = true).
  { intros ci. split.
    - intros (c & H). apply find_some in H. exists c. exact H.
    - intros (d & Hd & Hb). destruct (find_column ci key s) as [c|] eqn:E; [exists c; reflexivity|].
      rewrite (proj1 (find_column_none ci key s) E d Hd) in Hb. discriminate. }
  split; rewrite G; unfold C17.all_column_names.
  - rewrite in_flat_map. split; intros (d & Hd & H); exists d; (split; [exact Hd|]); apply bears_cs_iff; exact H.
  - rewrite in_map_iff. split.
    + intros (d & Hd & H). apply bears_ci_iff in H. apply in_map_iff in H. destruct H as (y & Ey & Hy).
      exists y. split; [exact Ey|]. apply in_flat_map. exists d. auto.
    + intros (y & Ey & Hy). apply in_flat_map in Hy. destruct Hy as (d & Hd & Hy).
      exists d. split; [exact Hd|]. apply bears_ci_iff. rewrite <- Ey. apply in_map. exact Hy.
Qed.

(* every name that iteration yields is found by lookup, at a position not after it *)
Lemma iter_names_found (s : schema) (i : nat) (n : T) :
  nth_error (iter_names s) i = Some n ->
  exists c d j, column_at (Z.of_nat i) s = Ok c /\ cname c = n /\
                find_column false n s = Some d /\ j <= i /\ column_at (Z.of_nat j) s = Ok d.
Proof.
  intros H. unfold C17.iter_names in H.
  destruct (nth_error (scols s) i) as [c|] eqn:En.
  2:{ rewrite nth_error_map, En in H. discriminate. }
  rewrite nth_error_map, En in H. simpl in H. injection H as Hn.
  assert (Hb : bears false n c = true) by (apply bears_cs_iff; rewrite <- Hn; apply all_names_has_name).
  destruct (find_column false n s) as [d|] eqn:Ef.
  2:{ rewrite (proj1 (find_column_none false n s) Ef c (nth_error_In _ _ En)) in Hb. discriminate. }
  apply find_column_first in Ef. destruct Ef as (pre & post & E & Hd & Hpre).
  exists c, d, (length pre). rewrite !column_at_nonneg, En, E, nth_error_length_app.
  repeat split; try assumption.
  destruct (Nat.le_gt_cases (length pre) i) as [Hle|Hgt]; [exact Hle|].
  rewrite E, nth_error_app1 in En by exact Hgt.
  rewrite (Hpre c (nth_error_In _ _ En)) in Hb. discriminate.
Qed.

(* ---------- removal ---------- *)

Lemma first_named_hit (n : T) (pre : list col) (c : col) (post : list col) : forall k,
  cname c = n -> (forall d, In d pre -> cname d <> n) ->
  first_named n (pre ++ c :: post) k = Some (k + length pre).
Proof.
  induction pre as [|a pre IH]; intros k Hc Hpre; simpl.
  - rewrite Hc, teqb_refl. f_equal. lia.
  - rewrite (proj2 (teqb_false (cname a) n) (Hpre a (or_introl eq_refl))).
    rewrite IH; [f_equal; lia | exact Hc | intros d Hd; apply Hpre; right; exact Hd].
Qed.

Lemma first_named_inv (n : T) (l : list col) : forall k,
  match first_named n l k with
  | Some i => exists pre c post, l = pre ++ c :: post /\ i = k + length pre /\ cname c = n /\
                                 (forall d, In d pre -> cname d <> n)
  | None => forall d, In d l -> cname d <> n
  end.
Proof.
  induction l as [|a l IH]; intros k; simpl; [intros d []|].
  destruct (teqb (cname a) n) eqn:E.
  - apply teqb_spec in E. exists [], a, l. repeat split; [simpl; lia | exact E | intros d []].
  - apply teqb_false in E. specialize (IH (S k)). destruct (first_named n l (S k)) as [i|].
    + destruct IH as (pre & c & post & -> & -> & Hc & Hpre). exists (a :: pre), c, post.
      repeat split; [simpl; lia | exact Hc|]. intros d [<-|Hd]; [exact E | apply Hpre; exact Hd].
    + intros d [<-|Hd]; [exact E | apply IH; exact Hd].
Qed.

Lemma pop_hit (n : T) (s : schema) (pre : list col) (c : col) (post : list col) :
  scols s = pre ++ c :: post -> cname c = n -> (forall d, In d pre -> cname d <> n) ->
  pop_column n s = (Some c, mksch (sname s) (saliases s) (pre ++ post)).
Proof.
  intros E Hc Hpre. unfold C17.pop_column.
  rewrite E, (first_named_hit n pre c post 0 Hc Hpre), Nat.add_0_l.
  rewrite nth_error_length_app, firstn_length_app, skipn_S_length_app. reflexivity.
Qed.

(* complete description of pop_column: it removes the first column NAMED n, returns it, keeps the
   rest in order and the schema's name and aliases; with no such column nothing changes *)
Lemma pop_exact (n : T) (s : schema) :
  match pop_column n s with
  | (Some c, s') => exists pre post, scols s = pre ++ c :: post /\ cname c = n /\
                      (forall d, In d pre -> cname d <> n) /\
                      s' = mksch (sname s) (saliases s) (pre ++ post)
  | (None, s') => (forall d, In d (scols s) -> cname d <> n) /\ s' = s
  end.
Proof.
  pose proof (first_named_inv n (scols s) 0) as H.
  destruct (first_named n (scols s) 0) as [i|] eqn:Ef.
  - destruct H as (pre & c & post & E & _ & Hc & Hpre).
    rewrite (pop_hit n s pre c post E Hc Hpre). exists pre, post. auto.
  - unfold C17.pop_column. rewrite Ef. auto.
Qed.

Lemma pop_miss (n : T) (s : schema) :
  (forall d, In d (scols s) -> cname d <> n) -> pop_column n s = (None, s).
Proof.
  intros H. pose proof (first_named_inv n (scols s) 0) as G. unfold C17.pop_column.
  destruct (first_named n (scols s) 0) as [i|]; [|reflexivity].
  destruct G as (pre & c & post & E & _ & Hc & _). exfalso. apply (H c); [|exact Hc].
  rewrite E. apply in_or_app. right. left. reflexivity.
Qed.

(* when the key names the column that lookup returns, removal deletes exactly that column *)
Lemma pop_agrees_with_find (n : T) (s : schema) (c : col) :
  find_column false n s = Some c -> cname c = n ->
  exists pre post, scols s = pre ++ c :: post /\
    (forall d, In d pre -> bears false n d = false) /\
    pop_column n s = (Some c, mksch (sname s) (saliases s) (pre ++ post)).
Proof.
  intros Hf Hc. apply find_column_first in Hf. destruct Hf as (pre & post & E & _ & Hpre).
  exists pre, post. split; [exact E|]. split; [exact Hpre|].
  apply pop_hit; [exact E | exact Hc|].
  intros d Hd Hn. specialize (Hpre d Hd).
  assert (Hb : bears false n d = true) by (apply bears_cs_iff; rewrite <- Hn; apply all_names_has_name).
  rewrite Hb in Hpre. discriminate.
Qed.

End WithTEq.

(* a lookup whose key the removed column does not bear is unaffected by the removal;
   names lists lose exactly the removed column's entries *)
Lemma removal_keeps_other_lookups (s : schema) (pre : list col) (c : col) (post : list col) :
  scols s = pre ++ c :: post ->
  let s' := mksch (sname s) (saliases s) (pre ++ post) in
  (forall ci key, bears ci key c = false -> find_column ci key s' = find_column ci key s) /\
  (forall ci key, find_column ci key s' =
      match find (bears ci key) pre with Some d => Some d | None => find (bears ci key) post end) /\
  column_names s = map cname pre ++ cname c :: map cname post /\
  column_names s' = map cname pre ++ map cname post /\
  all_column_names s = flat_map all_names pre ++ all_names c ++ flat_map all_names post /\
  all_column_names s' = flat_map all_names pre ++ flat_map all_names post /\
  length (scols s) = S (length (scols s')).
Proof.
  intros E s'. unfold C17.find_column, C17.column_names, C17.all_column_names. subst s'. simpl. rewrite E.
  repeat split.
  - intros ci key Hb. rewrite !find_app. simpl. rewrite Hb. reflexivity.
  - intros ci key. apply find_app.
  - rewrite map_app. reflexivity.
  - apply map_app.
  - rewrite flat_map_app. reflexivity.
  - apply flat_map_app.
  - rewrite !app_length. simpl. lia.
Qed.

(* ---------- histories over the store ---------- *)

Definition pops (k : nat) (o : op T) : bool :=
  match o with OPop i _ => Nat.eqb i k | _ => false end.

Lemma set_nth_other (st : list schema) : forall i k s, k <> i -> nth_error (set_nth st i s) k = nth_error st k.
Proof.
  induction st as [|x st IH]; intros i k s H; simpl; [destruct i; reflexivity|].
  destruct i as [|i]; destruct k as [|k]; simpl; try reflexivity; [contradiction|].
  apply IH. intros ->. apply H. reflexivity.
Qed.

Lemma set_nth_same (st : list schema) : forall i s, i < length st -> nth_error (set_nth st i s) i = Some s.
Proof.
  induction st as [|x st IH]; intros i s H; simpl in *; [lia|].
  destruct i as [|i]; simpl; [reflexivity|]. apply IH. lia.
Qed.

Lemma set_nth_length (st : list schema) : forall i s, length (set_nth st i s) = length st.
Proof. induction st as [|x st IH]; intros [|i] s; simpl; try reflexivity. rewrite IH. reflexivity. Qed.

(* a call changes no schema other than the one pop_column is called on; sums only append *)
Lemma step_frame (st : list schema) (o : op T) (k : nat) (s : schema) :
  nth_error st k = Some s -> pops k o = false -> nth_error (fst (step st o)) k = Some s.
Proof.
  intros Hk Hp. destruct o as [i j|i key ci|i z|i key|i n|i|i|i]; simpl;
    unfold C17.with_schema; try (destruct (nth_error st i); simpl; exact Hk).
  - destruct (nth_error st i); [|exact Hk]. destruct (nth_error st j); [|exact Hk]. simpl.
    rewrite nth_error_app1; [exact Hk|]. apply nth_error_Some. rewrite Hk. discriminate.
  - destruct (nth_error st i) as [x|]; [|exact Hk].
    destruct (pop_column n x) as (c, s'). simpl. rewrite set_nth_other; [exact Hk|].
    simpl in Hp. apply Nat.eqb_neq in Hp. intros ->. apply Hp. reflexivity.
Qed.

Lemma step_length (st : list schema) (o : op T) : length st <= length (fst (step st o)).
Proof.
  destruct o as [i j|i key ci|i z|i key|i n|i|i|i]; simpl;
    unfold C17.with_schema; try (destruct (nth_error st i); simpl; lia).
  - destruct (nth_error st i); [|simpl; lia]. destruct (nth_error st j); simpl; [rewrite app_length; simpl|]; lia.
  - destruct (nth_error st i) as [x|]; [|simpl; lia].
    destruct (pop_column n x) as (c, s'). simpl. rewrite set_nth_length. lia.
Qed.

Lemma run_frame (ops : list (op T)) : forall (st : list schema) (k : nat) (s : schema),
  nth_error st k = Some s -> forallb (fun o => negb (pops k o)) ops = true ->
  nth_error (fst (run st ops)) k = Some s.
Proof.
  induction ops as [|o ops IH]; intros st k s Hk Hp; simpl; [exact Hk|].
  simpl in Hp. apply andb_true_iff in Hp. destruct Hp as (Ho & Hr).
  destruct (step st o) as (st1, x) eqn:Es.
  destruct (run st1 ops) as (st2, xs) eqn:Er. simpl.
  assert (H1 : nth_error st1 k = Some s).
  { pose proof (step_frame st o k s Hk) as F. rewrite Es in F. apply F.
    destruct (pops k o); [discriminate|reflexivity]. }
  specialize (IH st1 k s H1 Hr). rewrite Er in IH. exact IH.
Qed.

(* s_i + s_j inside a history: the result is the model sum, appended; both operands, and the sum
   itself, keep their value over every later history that does not call pop_column on THEM -
   in particular removing columns from the sum never reaches an operand and vice versa *)
Lemma add_in_history (st : list schema) (i j : nat) (a b : schema) (ops : list (op T)) :
  nth_error st i = Some a -> nth_error st j = Some b ->
  step st (OAdd i j) = (st ++ [add a b], XNew (sname a) (saliases a)) /\
  let st' := fst (run (st ++ [add a b]) ops) in
  (forallb (fun o => negb (pops i o)) ops = true -> nth_error st' i = Some a) /\
  (forallb (fun o => negb (pops j o)) ops = true -> nth_error st' j = Some b) /\
  (forallb (fun o => negb (pops (length st) o)) ops = true -> nth_error st' (length st) = Some (add a b)).
Proof.
  intros Ha Hb. split; [simpl; rewrite Ha, Hb; reflexivity|].
  assert (Hi : i < length st) by (apply nth_error_Some; rewrite Ha; discriminate).
  assert (Hj : j < length st) by (apply nth_error_Some; rewrite Hb; discriminate).
  simpl. repeat split; intros Hp; apply run_frame; try exact Hp.
  - rewrite nth_error_app1; assumption.
  - rewrite nth_error_app1; assumption.
  - rewrite nth_error_app2, Nat.sub_diag by lia. reflexivity.
Qed.

(* read-only calls leave the whole store as it was *)
Definition read_only (o : op T) : bool :=
  match o with OAdd _ _ | OPop _ _ => false | _ => true end.

Lemma read_only_inert (st : list schema) (o : op T) : read_only o = true -> fst (step st o) = st.
Proof.
  destruct o as [i j|i key ci|i z|i key|i n|i|i|i]; simpl; try discriminate; intros _;
    unfold C17.with_schema; destruct (nth_error st i); reflexivity.
Qed.

(* pop_column inside a history changes the store exactly at its target, by pop_column of the model *)
Lemma pop_in_history (st : list schema) (i : nat) (n : T) (s : schema) :
  nth_error st i = Some s ->
  step st (OPop i n) = (set_nth st i (snd (pop_column n s)), XCol (option_map (@ctag I T P) (fst (pop_column n s)))) /\
  nth_error (fst (step st (OPop i n))) i = Some (snd (pop_column n s)) /\
  length (fst (step st (OPop i n))) = length st.
Proof.
  intros H. assert (Hi : i < length st) by (apply nth_error_Some; rewrite H; discriminate).
  simpl. unfold C17.with_schema. rewrite H. destruct (pop_column n s) as (c, s'). simpl.
  repeat split; [apply set_nth_same; exact Hi | apply set_nth_length].
Qed.

End Laws.

Arguments nub {I T P}. Arguments unseen {I T P}. Arguments fresh {I T P}.
Arguments pops {T}. Arguments read_only {T}.

(* ---------- a reading of "removal agrees with lookup" that does NOT hold ---------- *)
(* find_column also matches aliases, pop_column only names: with columns x (alias y), y the lookup of
   "y" returns the first column while pop_column("y") deletes the second. *)
Definition shadow_schema : cschema :=
  mksch [115%N] [] [mkcol 1%N [1%N] [120%N] (Some [[121%N]]); mkcol 2%N [2%N] [121%N] (Some [])].

Lemma pop_vs_find_alias_refuted :
  exists (s : cschema) (n : text) (c d : ccol),
    find_column text_eqb ascii_lower false n s = Some c /\
    fst (pop_column text_eqb n s) = Some d /\ ctag c <> ctag d.
Proof.
  exists shadow_schema, [121%N].
  eexists. eexists. split; [vm_compute; reflexivity|]. split; [vm_compute; reflexivity|].
  vm_compute. discriminate.
Qed.

Lemma text_eqb_spec (a : text) : forall b, text_eqb a b = true <-> a = b.
Proof.
  induction a as [|x a IH]; intros [|y b]; simpl; split; intros H; try reflexivity; try discriminate.
  - apply andb_true_iff in H. destruct H as (H1 & H2). apply N.eqb_eq in H1. apply IH in H2. subst. reflexivity.
  - injection H as -> ->. rewrite N.eqb_refl. apply IH. reflexivity.
Qed.
