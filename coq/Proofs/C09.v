(* C09 - lemmas.
   Part 1: the codecs over an abstract value type (RLE, sparse, dictionary, constant, function).
   Part 2: the dtype layer (NumPy conversions, the dtype SparseColumn.materialize chooses) and the
           sparse column on Python lists. *)
From Coq Require Import List ZArith NArith Bool Arith Lia Sorted.
From Orso Require Import Model.C09.
Import ListNotations.

(* ---------- generic list facts ---------- *)
Lemma map_repeat' : forall (A B : Type) (f : A -> B) (x : A) (n : nat),
  map f (repeat x n) = repeat (f x) n.
Proof. intros A B f x n. induction n as [|n IH]; simpl; [reflexivity | now rewrite IH]. Qed.

Lemma repeat_snoc : forall (A : Type) (x : A) (n : nat), repeat x (S n) = repeat x n ++ [x].
Proof. intros A x n. induction n as [|n IH]; simpl; [reflexivity | now rewrite <- IH]. Qed.

Lemma split_fst : forall (A B : Type) (l : list (A * B)), fst (split l) = map fst l.
Proof.
  intros A B l. induction l as [|[a b] r IH]; simpl; [reflexivity|].
  destruct (split r) as [l1 l2]. simpl in *. now rewrite IH.
Qed.

Lemma split_snd : forall (A B : Type) (l : list (A * B)), snd (split l) = map snd l.
Proof.
  intros A B l. induction l as [|[a b] r IH]; simpl; [reflexivity|].
  destruct (split r) as [l1 l2]. simpl in *. now rewrite IH.
Qed.

Lemma combine_fst_snd : forall (A B : Type) (l : list (A * B)), combine (map fst l) (map snd l) = l.
Proof. intros A B l. induction l as [|[a b] r IH]; simpl; [reflexivity | now rewrite IH]. Qed.

Lemma Forall2_eq : forall (A : Type) (l m : list A), Forall2 eq l m -> l = m.
Proof. intros A l m H. induction H as [|x y l m Hxy _ IH]; [reflexivity | now subst]. Qed.

Lemma Forall2_impl' : forall (A B : Type) (P Q : A -> B -> Prop) (l : list A) (m : list B),
  (forall x y, P x y -> Q x y) -> Forall2 P l m -> Forall2 Q l m.
Proof. intros A B P Q l m HPQ H. induction H; constructor; auto. Qed.

(* ====================================================================== *)
Section RLE.
Variable A : Type.
Variable eqb : A -> A -> bool.

Definition expand (runs : list (A * nat)) : list A :=
  flat_map (fun p => repeat (fst p) (snd p)) runs.

Lemma rle_decode_split : forall runs : list (A * nat),
  rle_decode (fst (split runs)) (snd (split runs)) = expand runs.
Proof.
  intros runs. unfold rle_decode, expand.
  rewrite split_fst, split_snd, combine_fst_snd. reflexivity.
Qed.

(* an element is reproduced itself, or by the head of its run, to which it compared equal *)
Definition same_or_eq (x y : A) : Prop := x = y \/ eqb x y = true.

Lemma loop_expand : forall (rest : list A) (prev : A) (n : nat),
  exists t, expand (rle_loop eqb prev n rest) = repeat prev n ++ t /\ Forall2 same_or_eq rest t.
Proof.
  induction rest as [|v r IH]; intros prev n.
  - exists []. split; [|constructor]. unfold expand. simpl. now rewrite !app_nil_r.
  - simpl. destruct (eqb v prev) eqn:Hv.
    + destruct (IH prev (S n)) as [t [Ht Hf]].
      exists (prev :: t). split.
      * rewrite Ht, repeat_snoc, <- app_assoc. reflexivity.
      * constructor; [right; exact Hv | exact Hf].
    + destruct (IH v 1) as [t [Ht Hf]].
      exists (v :: t). split.
      * unfold expand in *. simpl. simpl in Ht. rewrite Ht. reflexivity.
      * constructor; [left; reflexivity | exact Hf].
Qed.

Lemma rle_roundtrip_upto : forall l : list A,
  Forall2 same_or_eq l (rle_decode (fst (rle_encode eqb l)) (snd (rle_encode eqb l))).
Proof.
  intros l. unfold rle_encode. rewrite rle_decode_split.
  destruct l as [|x r]; simpl; [constructor|].
  destruct (loop_expand r x 1) as [t [Ht Hf]]. rewrite Ht. simpl.
  constructor; [left; reflexivity | exact Hf].
Qed.

Lemma rle_roundtrip : forall l : list A,
  (forall x y, eqb x y = true -> x = y) ->
  rle_decode (fst (rle_encode eqb l)) (snd (rle_encode eqb l)) = l.
Proof.
  intros l Hsound. symmetry. apply Forall2_eq.
  eapply Forall2_impl'; [|apply rle_roundtrip_upto].
  intros x y [H|H]; [exact H | apply Hsound; exact H].
Qed.

Lemma loop_lengths : forall (rest : list A) (prev : A) (n : nat),
  1 <= n ->
  Forall (fun p => 1 <= snd p) (rle_loop eqb prev n rest) /\
  list_sum (map snd (rle_loop eqb prev n rest)) = n + length rest.
Proof.
  induction rest as [|v r IH]; intros prev n Hn; simpl.
  - split; [constructor; [exact Hn | constructor] | lia].
  - destruct (eqb v prev) eqn:Hv.
    + destruct (IH prev (S n)) as [H1 H2]; [lia|]. split; [exact H1 | lia].
    + destruct (IH v 1) as [H1 H2]; [lia|]. split.
      * constructor; [exact Hn | exact H1].
      * simpl. lia.
Qed.

Lemma loop_head : forall (rest : list A) (prev : A) (n : nat),
  exists m tl, rle_loop eqb prev n rest = (prev, m) :: tl.
Proof.
  induction rest as [|v r IH]; intros prev n; simpl.
  - now exists n, [].
  - destruct (eqb v prev); [apply IH | now exists n, (rle_loop eqb v 1 r)].
Qed.

Lemma loop_adjacent : forall (rest : list A) (prev : A) (n : nat),
  adjacent_differ eqb (map fst (rle_loop eqb prev n rest)).
Proof.
  induction rest as [|v r IH]; intros prev n; simpl.
  - exact I.
  - destruct (eqb v prev) eqn:Hv; [apply IH|].
    specialize (IH v 1). destruct (loop_head r v 1) as [m [tl Hh]].
    rewrite Hh in *. simpl in *. split; [exact Hv | exact IH].
Qed.

Lemma rle_compressed : forall l : list A,
  length (fst (rle_encode eqb l)) = length (snd (rle_encode eqb l)) /\
  Forall (fun n => 1 <= n) (snd (rle_encode eqb l)) /\
  list_sum (snd (rle_encode eqb l)) = length l /\
  adjacent_differ eqb (fst (rle_encode eqb l)).
Proof.
  intros l. unfold rle_encode. rewrite split_fst, split_snd, !map_length.
  split; [reflexivity|].
  destruct l as [|x r]; simpl.
  - repeat split; constructor.
  - destruct (loop_lengths r x 1) as [H1 H2]; [lia|].
    split; [|split].
    + rewrite Forall_map. exact H1.
    + rewrite H2. reflexivity.
    + apply loop_adjacent.
Qed.

Lemma rle_decode_map : forall (B : Type) (f : A -> B) (vs : list A) (ls : list nat),
  rle_decode (map f vs) ls = map f (rle_decode vs ls).
Proof.
  intros B f vs. unfold rle_decode.
  induction vs as [|v r IH]; intros [|n ls]; simpl; try reflexivity.
  rewrite map_app, map_repeat', IH. reflexivity.
Qed.

End RLE.

(* ====================================================================== *)
Section Sparse.
Variable A : Type.
Variable neqb : A -> A -> bool.

Lemma set_nth_app : forall (pre : list A) (x y : A) (t : list A),
  set_nth (length pre) x (pre ++ y :: t) = pre ++ x :: t.
Proof. induction pre as [|p r IH]; intros x y t; simpl; [reflexivity | now rewrite IH]. Qed.

Definition keep_or (d d' : A) (x : A) : A := if neqb x d then x else d'.

Lemma scatter_scan : forall (l pre : list A) (d d' : A),
  scatter (pre ++ repeat d' (length l))
          (map fst (sparse_scan neqb (length pre) l d)) (map snd (sparse_scan neqb (length pre) l d))
  = pre ++ map (keep_or d d') l.
Proof.
  unfold scatter. induction l as [|x r IH]; intros pre d d'; simpl.
  - reflexivity.
  - unfold keep_or at 1. destruct (neqb x d) eqn:Hx; simpl.
    + rewrite set_nth_app.
      specialize (IH (pre ++ [x]) d d'). rewrite app_length in IH. simpl in IH.
      rewrite Nat.add_1_r in IH. rewrite <- !app_assoc in IH. simpl in IH. exact IH.
    + specialize (IH (pre ++ [d']) d d'). rewrite app_length in IH. simpl in IH.
      rewrite Nat.add_1_r in IH. rewrite <- !app_assoc in IH. simpl in IH. exact IH.
Qed.

(* exact description of what a sparse column expands to, for ANY fill value *)
Lemma sparse_materialize_encode : forall (l : list A) (d d' : A),
  sparse_materialize (sparse_encode neqb l d) d' = map (keep_or d d') l.
Proof.
  intros l d d'. unfold sparse_materialize, sparse_encode.
  exact (scatter_scan l [] d d').
Qed.

Lemma sparse_roundtrip_upto : forall (l : list A) (d : A),
  Forall2 (fun x y => x = y \/ (neqb x d = false /\ y = d)) l
          (sparse_materialize (sparse_encode neqb l d) d).
Proof.
  intros l d. rewrite sparse_materialize_encode.
  induction l as [|x r IH]; simpl; constructor; [|exact IH].
  unfold keep_or. destruct (neqb x d) eqn:Hx; [left; reflexivity | right; split; reflexivity].
Qed.

Lemma sparse_roundtrip : forall (l : list A) (d : A),
  (forall x, neqb x d = false -> x = d) ->
  sparse_materialize (sparse_encode neqb l d) d = l.
Proof.
  intros l d Hs. symmetry. apply Forall2_eq.
  eapply Forall2_impl'; [|apply sparse_roundtrip_upto].
  intros x y [H|[H1 H2]]; [exact H | subst y; apply Hs; exact H1].
Qed.

Lemma scan_bounds : forall (l : list A) (i : nat) (d : A),
  Forall (fun p => i <= fst p < i + length l /\ neqb (snd p) d = true) (sparse_scan neqb i l d).
Proof.
  induction l as [|x r IH]; intros i d; simpl; [constructor|].
  assert (H : Forall (fun p => i <= fst p < i + S (length r) /\ neqb (snd p) d = true) (sparse_scan neqb (S i) r d)).
  { eapply Forall_impl; [|apply IH]. intros p [Hp Hq]. split; [lia | exact Hq]. }
  destruct (neqb x d) eqn:Hx; [constructor; [simpl; split; [lia | exact Hx] | exact H] | exact H].
Qed.

Lemma scan_sorted : forall (l : list A) (i : nat) (d : A),
  StronglySorted lt (map fst (sparse_scan neqb i l d)).
Proof.
  induction l as [|x r IH]; intros i d; simpl; [constructor|].
  destruct (neqb x d); [|apply IH].
  simpl. constructor; [apply IH|].
  rewrite Forall_map. eapply Forall_impl; [|apply (scan_bounds r (S i) d)].
  intros p [Hp _]. lia.
Qed.

Lemma sparse_compressed : forall (l : list A) (d : A),
  let '(idx, vals, n) := sparse_encode neqb l d in
  n = length l /\ length idx = length vals /\
  Forall (fun v => neqb v d = true) vals /\
  StronglySorted lt idx /\ Forall (fun i => i < length l) idx.
Proof.
  intros l d. unfold sparse_encode. rewrite !map_length.
  split; [reflexivity|]. split; [reflexivity|].
  pose proof (scan_bounds l 0 d) as Hb.
  split; [|split].
  - rewrite Forall_map. eapply Forall_impl; [|exact Hb]. intros p [_ Hq]. exact Hq.
  - apply scan_sorted.
  - rewrite Forall_map. eapply Forall_impl; [|exact Hb]. intros p [Hp _]. lia.
Qed.

Lemma sparse_no_default : forall (l : list A) (d : A),
  (forall x, x = d -> neqb x d = false) ->
  ~ In d (snd (fst (sparse_encode neqb l d))).
Proof.
  intros l d Hr Hin. pose proof (sparse_compressed l d) as H.
  unfold sparse_encode in *. simpl in *. destruct H as [_ [_ [H _]]].
  rewrite Forall_forall in H. specialize (H d Hin). rewrite (Hr d eq_refl) in H. discriminate.
Qed.

Lemma set_nth_map : forall (B : Type) (f : A -> B) (base : list A) (i : nat) (v : A),
  set_nth i (f v) (map f base) = map f (set_nth i v base).
Proof.
  intros B f. induction base as [|x r IH]; intros i v; [destruct i; reflexivity|].
  destruct i as [|j]; simpl; [reflexivity | now rewrite IH].
Qed.

Lemma scatter_map : forall (B : Type) (f : A -> B) (idx : list nat) (vals base : list A),
  scatter (map f base) idx (map f vals) = map f (scatter base idx vals).
Proof.
  intros B f. unfold scatter.
  induction idx as [|i r IH]; intros [|v vals] base; simpl; try reflexivity.
  rewrite set_nth_map. apply IH.
Qed.

Lemma sparse_materialize_map : forall (f : A -> A) (idx : list nat) (vals : list A) (n : nat) (d : A),
  f d = d ->
  sparse_materialize (idx, map f vals, n) d = map f (sparse_materialize (idx, vals, n) d).
Proof.
  intros f idx vals n d Hd. unfold sparse_materialize.
  rewrite <- scatter_map, map_repeat', Hd. reflexivity.
Qed.

End Sparse.

(* ====================================================================== *)
Section Dict.
Variable A : Type.
Variable deqb leb : A -> A -> bool.
Hypothesis deqb_spec : forall x y, deqb x y = true <-> x = y.

Lemma In_insert : forall (s : list A) (x y : A), In y (insert_uniq deqb leb x s) <-> y = x \/ In y s.
Proof.
  induction s as [|z r IH]; intros x y; simpl.
  - intuition.
  - destruct (deqb x z) eqn:Hxz.
    + apply deqb_spec in Hxz. subst z. simpl. intuition.
    + destruct (leb x z); simpl; [intuition|]. rewrite IH. intuition.
Qed.

Lemma In_uniq : forall (l : list A) (y : A), In y (uniq_sorted deqb leb l) <-> In y l.
Proof.
  induction l as [|x r IH]; intros y; simpl; [reflexivity|].
  rewrite In_insert, IH. intuition.
Qed.

Lemma index_of_nth : forall (s : list A) (x : A),
  In x s -> nth_error s (index_of deqb x s) = Some x /\ index_of deqb x s < length s.
Proof.
  induction s as [|z r IH]; intros x Hin; simpl in *; [contradiction|].
  destruct (deqb x z) eqn:Hxz.
  - apply deqb_spec in Hxz. subst z. simpl. split; [reflexivity | lia].
  - destruct Hin as [Hz|Hin].
    + subst z. assert (deqb x x = true) by (apply deqb_spec; reflexivity). congruence.
    + destruct (IH x Hin) as [H1 H2]. simpl. split; [exact H1 | lia].
Qed.

Lemma gather_index : forall (u l : list A),
  (forall x, In x l -> In x u) ->
  gather u (map (fun x => index_of deqb x u) l) = Some l.
Proof.
  intros u. induction l as [|x r IH]; intros Hsub; simpl; [reflexivity|].
  destruct (index_of_nth u x) as [H1 _]; [apply Hsub; now left|].
  rewrite H1, IH; [reflexivity|]. intros y Hy. apply Hsub. now right.
Qed.

Lemma dict_roundtrip : forall l : list A, dict_decode (dict_encode deqb leb l) = Some l.
Proof.
  intros l. unfold dict_decode, dict_encode. simpl.
  apply gather_index. intros x Hx. apply In_uniq. exact Hx.
Qed.

Lemma dict_codes_in_range : forall l : list A,
  length (snd (dict_encode deqb leb l)) = length l /\
  Forall (fun c => c < length (fst (dict_encode deqb leb l))) (snd (dict_encode deqb leb l)).
Proof.
  intros l. unfold dict_encode. simpl. rewrite map_length. split; [reflexivity|].
  rewrite Forall_map, Forall_forall. intros x Hx.
  apply index_of_nth. apply In_uniq. exact Hx.
Qed.

Lemma dict_entries_are_elements : forall (l : list A) (x : A),
  In x (fst (dict_encode deqb leb l)) <-> In x l.
Proof. intros l x. unfold dict_encode. simpl. apply In_uniq. Qed.

Notation ltA := (lt_of leb).

Hypothesis leb_total : forall x y, leb x y = true \/ leb y x = true.
Hypothesis leb_trans : forall x y z, leb x y = true -> leb y z = true -> leb x z = true.
Hypothesis leb_antisym : forall x y, leb x y = true -> leb y x = true -> x = y.

Lemma insert_sorted : forall (s : list A) (x : A),
  StronglySorted ltA s -> StronglySorted ltA (insert_uniq deqb leb x s).
Proof.
  induction s as [|z r IH]; intros x Hs; simpl.
  - constructor; constructor.
  - destruct (deqb x z) eqn:Hxz; [exact Hs|].
    assert (Hne : x <> z). { intros E. apply deqb_spec in E. congruence. }
    inversion Hs as [|z' r' Hr Hz]; subst.
    destruct (leb x z) eqn:Hl.
    + constructor; [exact Hs|]. constructor; [split; assumption|].
      rewrite Forall_forall in *. intros w Hw. destruct (Hz w Hw) as [Hzw Hnzw]. split.
      * eapply leb_trans; eassumption.
      * intros E. subst w. apply Hnzw. symmetry. apply leb_antisym; assumption.
    + assert (Hzx : leb z x = true). { destruct (leb_total x z) as [H|H]; [congruence | exact H]. }
      constructor; [apply IH; exact Hr|].
      rewrite Forall_forall in *. intros w Hw. apply In_insert in Hw. destruct Hw as [Hw|Hw].
      * subst w. split; [exact Hzx | intros E; apply Hne; symmetry; exact E].
      * apply Hz. exact Hw.
Qed.

Lemma uniq_sorted_sorted : forall l : list A, StronglySorted ltA (uniq_sorted deqb leb l).
Proof.
  induction l as [|x r IH]; simpl; [constructor | apply insert_sorted; exact IH].
Qed.

Lemma sorted_NoDup : forall s : list A, StronglySorted ltA s -> NoDup s.
Proof.
  induction s as [|z r IH]; intros Hs; [constructor|].
  inversion Hs as [|z' r' Hr Hz]; subst. constructor; [|apply IH; exact Hr].
  intros Hin. rewrite Forall_forall in Hz. destruct (Hz z Hin) as [_ Hne]. now apply Hne.
Qed.

Lemma dict_entries_unique : forall l : list A,
  StronglySorted ltA (fst (dict_encode deqb leb l)) /\ NoDup (fst (dict_encode deqb leb l)).
Proof.
  intros l. unfold dict_encode. simpl. split; [apply uniq_sorted_sorted|].
  apply sorted_NoDup. apply uniq_sorted_sorted.
Qed.

End Dict.

Section DictMap.
Variables A B : Type.

Lemma gather_map : forall (f : A -> B) (d : list A) (codes : list nat),
  gather (map f d) codes = option_map (map f) (gather d codes).
Proof.
  intros f d. induction codes as [|c r IH]; simpl; [reflexivity|].
  rewrite nth_error_map, IH.
  destruct (nth_error d c); simpl; [|reflexivity].
  destruct (gather d r); reflexivity.
Qed.

Lemma const_map : forall (f : A -> B) (vals : list A) (n : nat),
  const_materialize (map f vals) n = option_map (map f) (const_materialize vals n).
Proof.
  intros f [|v [|w r]] n; simpl; try reflexivity. now rewrite map_repeat'.
Qed.

End DictMap.

Lemma const_roundtrip : forall (A : Type) (v : A) (n : nat),
  const_materialize (const_encode v) n = Some (repeat v n).
Proof. reflexivity. Qed.

Lemma func_is_repeat : forall (A Cfg : Type) (b : Cfg -> A) (c : Cfg) (n : Z),
  func_materialize b c n = repeat (b c) (Z.to_nat n) /\
  length (func_materialize b c n) = Z.to_nat n /\
  Forall (fun x => x = b c) (func_materialize b c n).
Proof.
  intros A Cfg b c n. unfold func_materialize. split; [reflexivity|]. split.
  - apply repeat_length.
  - rewrite Forall_forall. intros x Hx. eapply repeat_spec. exact Hx.
Qed.

(* ====================================================================== *)
(* Part 2: the dtype layer *)


Lemma cast_id : forall dv v, has_dtype dv v -> np_cast dv v = Ok v.
Proof.
  intros dv v H. destruct dv, v; simpl in *; try contradiction; try reflexivity.
  - rewrite H. reflexivity.
  - rewrite firstn_all2; [reflexivity | exact H].
Qed.

Lemma cast_has_dtype : forall dv v v', np_cast dv v = Ok v' -> has_dtype dv v'.
Proof.
  intros dv v v' H. destruct dv, v; simpl in *; try discriminate; try exact I;
    try (injection H as <-; simpl; try exact I; try reflexivity).
  - destruct b; reflexivity.
  - destruct (in_int64 z) eqn:Hz; [|discriminate]. injection H as <-. exact Hz.
  - unfold bind in H. destruct (trunc_fl f) as [z|e]; [|discriminate].
    destruct (in_int64 z) eqn:Hz; [|discriminate]. injection H as <-. exact Hz.
  - unfold bind in H. destruct (float_of_Z z) as [g|e]; [|discriminate]. injection H as <-. exact I.
  - apply firstn_le_length.
Qed.

Lemma mapM_ok_id : forall (T : Type) (f : T -> result T) (l : list T),
  (forall v, In v l -> f v = Ok v) -> mapM f l = Ok l.
Proof.
  intros T f. induction l as [|x r IH]; intros H; simpl; [reflexivity|].
  rewrite (H x (or_introl eq_refl)). simpl. rewrite IH; [reflexivity|].
  intros v Hv. apply H. now right.
Qed.

Lemma mapM_Forall : forall (S T : Type) (f : S -> result T) (P : T -> Prop) (l : list S) (m : list T),
  (forall x y, f x = Ok y -> P y) -> mapM f l = Ok m -> Forall P m.
Proof.
  intros S T f P. induction l as [|x r IH]; intros m HP H; simpl in H.
  - injection H as <-. constructor.
  - unfold bind in H. destruct (f x) as [y|e] eqn:Hy; [|discriminate].
    destruct (mapM f r) as [ys|e] eqn:Hys; [|discriminate]. injection H as <-.
    constructor; [eapply HP; exact Hy | apply IH; [exact HP | reflexivity]].
Qed.

Lemma np_array_has_dtype : forall l dv arr,
  np_array l = Ok (dv, arr) -> Forall (has_dtype dv) arr /\ dv <> DUInt /\ length arr = length l.
Proof.
  intros l dv arr H. unfold np_array in H.
  destruct (np_dtype_of_list l) as [dv'|] eqn:Hd; [|discriminate].
  unfold bind in H. destruct (mapM (np_cast dv') l) as [a|e] eqn:Hm; [|discriminate].
  injection H as <- <-. split; [|split].
  - eapply mapM_Forall; [|exact Hm]. intros x y. apply cast_has_dtype.
  - intros E. subst dv'. destruct l as [|v r]; simpl in *; [discriminate|].
    destruct v; discriminate.
  - clear Hd. revert a Hm. induction l as [|x r IH]; intros a Hm; simpl in Hm.
    + injection Hm as <-. reflexivity.
    + unfold bind in Hm. destruct (np_cast dv' x); [|discriminate].
      destruct (mapM (np_cast dv') r) as [ys|]; [|discriminate]. injection Hm as <-.
      simpl. f_equal. apply IH. reflexivity.
Qed.

(* ---- numpy.array is the identity on lists of one kind ---- *)
Lemma np_array_from_dtype : forall l dv,
  np_dtype_of_list l = Some dv -> Forall (has_dtype dv) l -> np_array l = Ok (dv, l).
Proof.
  intros l dv Hd Hl. unfold np_array. rewrite Hd. unfold bind.
  rewrite mapM_ok_id; [reflexivity|]. intros v Hv. apply cast_id.
  rewrite Forall_forall in Hl. apply Hl. exact Hv.
Qed.

Lemma join_all_bool : forall l, Forall (fun v => exists b, v = VBool b) l -> join_all DBool l = Some DBool.
Proof.
  induction l as [|v r IH]; intros H; [reflexivity|].
  inversion H as [|v' r' [b ->] Hr]; subst. simpl. apply IH. exact Hr.
Qed.

Lemma join_all_int : forall l, Forall (fun v => exists z, v = VInt z /\ in_int64 z = true) l -> join_all DInt l = Some DInt.
Proof.
  induction l as [|v r IH]; intros H; [reflexivity|].
  inversion H as [|v' r' [z [-> Hz]] Hr]; subst. cbn [join_all elem_dtype]. rewrite Hz. simpl. apply IH. exact Hr.
Qed.

Lemma join_all_float : forall l, Forall (fun v => exists f, v = VFloat f) l -> join_all DFloat l = Some DFloat.
Proof.
  induction l as [|v r IH]; intros H; [reflexivity|].
  inversion H as [|v' r' [f ->] Hr]; subst. simpl. apply IH. exact Hr.
Qed.

Lemma join_all_str : forall l k, Forall (fun v => exists s, v = VStr s) l ->
  exists k', join_all (DStr k) l = Some (DStr k') /\ k <= k' /\ Forall (has_dtype (DStr k')) l.
Proof.
  induction l as [|v r IH]; intros k H.
  - exists k. split; [reflexivity|]. split; [lia | constructor].
  - inversion H as [|v' r' [s ->] Hr]; subst.
    destruct (IH (Nat.max k (Nat.max 1 (length s))) Hr) as [k' [Hj [Hk Hf]]].
    exists k'. split; [exact Hj|]. split; [lia|]. constructor; [|exact Hf].
    cbn [has_dtype]. lia.
Qed.

Lemma np_array_one_kind : forall l : list val, one_kind l -> exists dv, np_array l = Ok (dv, l).
Proof.
  intros l [H|[H|[H|H]]].
  - destruct l as [|v r]; [exists DFloat; reflexivity|].
    exists DBool. apply np_array_from_dtype.
    + inversion H as [|v' r' [b ->] Hr]; subst. simpl. apply join_all_bool. exact Hr.
    + eapply Forall_impl; [|exact H]. intros x [b ->]. exact I.
  - destruct l as [|v r]; [exists DFloat; reflexivity|].
    exists DInt. apply np_array_from_dtype.
    + inversion H as [|v' r' [z [-> Hz]] Hr]; subst. cbn [np_dtype_of_list elem_dtype]. rewrite Hz.
      apply join_all_int. exact Hr.
    + eapply Forall_impl; [|exact H]. intros x [z [-> Hz]]. exact Hz.
  - destruct l as [|v r]; [exists DFloat; reflexivity|].
    exists DFloat. apply np_array_from_dtype.
    + inversion H as [|v' r' [f ->] Hr]; subst. simpl. apply join_all_float. exact Hr.
    + eapply Forall_impl; [|exact H]. intros x [f ->]. exact I.
  - destruct l as [|v r]; [exists DFloat; reflexivity|].
    inversion H as [|v' r' [s ->] Hr]; subst.
    destruct (join_all_str r (Nat.max 1 (length s)) Hr) as [k' [Hj [Hk Hf]]].
    exists (DStr k'). apply np_array_from_dtype.
    + cbn [np_dtype_of_list elem_dtype dtype_of_scalar]. exact Hj.
    + constructor; [cbn [has_dtype]; lia | exact Hf].
Qed.

(* ---- SparseColumn.materialize: the dtype it chooses holds the stored values unchanged and
        the default up to NumPy's == ---- *)
Lemma same_kind_holds : forall dv d,
  dv <> DUInt -> kind_eqb (dtype_of_scalar d) dv = true ->
  (forall v, has_dtype dv v -> np_cast (result_type_same_kind (dtype_of_scalar d) dv) v = Ok v) /\
  np_cast (result_type_same_kind (dtype_of_scalar d) dv) d = Ok d.
Proof.
  intros dv d Hu Hk. destruct d as [|b|z|f|s]; cbn [dtype_of_scalar] in Hk |- *.
  - destruct dv; try discriminate. simpl. split; [intros; reflexivity | reflexivity].
  - destruct dv; try discriminate. simpl. split; [intros v Hv; exact (cast_id DBool v Hv) | reflexivity].
  - destruct (in_int64 z) eqn:Hz.
    + destruct dv; try discriminate. simpl. split; [intros v Hv; exact (cast_id DInt v Hv)|].
      rewrite Hz. reflexivity.
    + match goal with |- context [if ?c then DUInt else DObj] => destruct c end.
      * destruct dv; try discriminate. now elim Hu.
      * destruct dv; try discriminate. simpl. split; [intros; reflexivity | reflexivity].
  - destruct dv; try discriminate. simpl. split; [intros v Hv; exact (cast_id DFloat v Hv) | reflexivity].
  - destruct dv as [| | | |k|]; try discriminate. cbn [result_type_same_kind]. split.
    + intros v Hv. destruct v; cbn [has_dtype] in Hv; try contradiction. cbn [np_cast].
      rewrite firstn_all2; [reflexivity | lia].
    + cbn [np_cast]. rewrite firstn_all2; [reflexivity | lia].
Qed.

Lemma mat_dtype_cases : forall dv d dt, mat_dtype dv d = Ok dt ->
  (kind_eqb (dtype_of_scalar d) dv = true /\ dt = result_type_same_kind (dtype_of_scalar d) dv)
  \/ (exists c, np_cast dv d = Ok c /\ np_eqb dv c d = true /\ dt = dv)
  \/ dt = DObj.
Proof.
  intros dv d dt H. unfold mat_dtype in H.
  destruct (kind_eqb (dtype_of_scalar d) dv) eqn:Hk.
  - left. injection H as <-. split; reflexivity.
  - right. destruct (numeric dv && numeric (dtype_of_scalar d)).
    + destruct (np_cast dv d) as [c|e] eqn:Hc.
      * destruct (np_eqb dv c d) eqn:He; injection H as <-.
        -- left. exists c. repeat split; assumption.
        -- right. reflexivity.
      * right. destruct e; try discriminate; injection H as <-; reflexivity.
    + right. injection H as <-. reflexivity.
Qed.

(* converting a numeric default to a numeric values type fails only the way the code catches *)
Lemma np_cast_numeric_raises : forall dv d e,
  numeric dv = true -> numeric (dtype_of_scalar d) = true -> dv <> DUInt ->
  np_cast dv d = Raise e -> e = ValueError \/ e = OverflowError.
Proof.
  intros dv d e Hn Hd Hu H.
  destruct dv; try discriminate; try (now elim Hu);
    destruct d as [|b|z|f|s]; try discriminate; clear Hd; cbn [np_cast] in H; try discriminate.
  - destruct (in_int64 z); [discriminate|]. injection H as <-. now right.
  - unfold bind in H. destruct f as [|sg|sg|m ex]; cbn [trunc_fl] in H.
    + injection H as <-. now left.
    + injection H as <-. now right.
    + destruct (in_int64 0); [discriminate|]. injection H as <-. now right.
    + destruct (0 <=? ex)%Z.
      * destruct (in_int64 (m * 2 ^ ex)); [discriminate|]. injection H as <-. now right.
      * destruct (in_int64 (Z.quot m (2 ^ (- ex)))); [discriminate|]. injection H as <-. now right.
  - unfold bind, float_of_Z in H. destruct (z =? 0)%Z; [discriminate|].
    destruct (round53 (Z.abs z)) as [q sh].
    destruct (1024 <? Z.log2 q + 1 + sh)%Z; [|discriminate]. injection H as <-. now right.
Qed.

(* the dtype choice itself never raises (F-C09-2, fixed by cf4ef68) *)
Lemma mat_dtype_total : forall dv d, dv <> DUInt -> exists dt, mat_dtype dv d = Ok dt.
Proof.
  intros dv d Hu. unfold mat_dtype.
  destruct (kind_eqb (dtype_of_scalar d) dv); [eexists; reflexivity|].
  destruct (numeric dv && numeric (dtype_of_scalar d)) eqn:Hn; [|eexists; reflexivity].
  apply andb_true_iff in Hn. destruct Hn as [Hn1 Hn2].
  destruct (np_cast dv d) as [c|e] eqn:Hc; [eexists; reflexivity|].
  destruct (np_cast_numeric_raises dv d e Hn1 Hn2 Hu Hc) as [-> | ->]; eexists; reflexivity.
Qed.

Lemma sparse_dtype_holds : forall dv d dt,
  dv <> DUInt -> mat_dtype dv d = Ok dt ->
  (forall v, has_dtype dv v -> np_cast dt v = Ok v) /\
  (exists c, np_cast dt d = Ok c /\ (c = d \/ np_eqb dt c d = true)).
Proof.
  intros dv d dt Hu H. destruct (mat_dtype_cases dv d dt H) as [[Hk ->]|[[c [Hc [He ->]]]| ->]].
  - destruct (same_kind_holds dv d Hu Hk) as [H1 H2]. split; [exact H1|].
    exists d. split; [exact H2 | left; reflexivity].
  - split; [intros v Hv; apply cast_id; exact Hv|].
    exists c. split; [exact Hc | right; exact He].
  - split; [intros; reflexivity|]. exists d. split; [reflexivity | left; reflexivity].
Qed.

(* the lossy conversions are really lossy in the model: what the old code did *)
Lemma cast_is_lossy :
  np_cast (DStr 1) (VStr [97; 98; 99]%N) = Ok (VStr [97]%N) /\
  np_cast DInt (VFloat (FFin 3 (-1))) = Ok (VInt 1) /\
  np_cast DFloat (VInt (2 ^ 53 + 1)) = Ok (VFloat (FFin 1 53)).
Proof. repeat split; vm_compute; reflexivity. Qed.

(* ---- the sparse column on Python lists ---- *)
Lemma scan_subset : forall (A : Type) (neqb : A -> A -> bool) (l : list A) (i : nat) (d : A) (p : nat * A),
  In p (sparse_scan neqb i l d) -> In (snd p) l.
Proof.
  intros A neqb. induction l as [|x r IH]; intros i d p Hp; simpl in *; [contradiction|].
  destruct (neqb x d).
  - destruct Hp as [<-|Hp]; [left; reflexivity | right; eapply IH; exact Hp].
  - right. eapply IH. exact Hp.
Qed.

Lemma sparse_np_unfold : forall l d dv arr,
  np_array l = Ok (dv, arr) ->
  sparse_np l d None =
    (_ <- np_cmp_guard dv d ;;
     dt <- mat_dtype dv d ;;
     fill <- np_cast dt d ;;
     vals'' <- mapM (np_cast dt) (snd (fst (sparse_encode (np_neqb dv) arr d))) ;;
     Ok (mkobs [snd (fst (sparse_encode (np_neqb dv) arr d));
                sparse_materialize (fst (fst (sparse_encode (np_neqb dv) arr d)), vals'', length arr) fill]
               [fst (fst (sparse_encode (np_neqb dv) arr d))] [dv; dt])).
Proof.
  intros l d dv arr H. unfold sparse_np. rewrite H. unfold bind at 1.
  reflexivity.
Qed.

Lemma stored_cast_id : forall dv d dt arr,
  dv <> DUInt -> mat_dtype dv d = Ok dt -> Forall (has_dtype dv) arr ->
  mapM (np_cast dt) (snd (fst (sparse_encode (np_neqb dv) arr d))) = Ok (snd (fst (sparse_encode (np_neqb dv) arr d))).
Proof.
  intros dv d dt arr Hu Hm Harr. apply mapM_ok_id. intros v Hv.
  apply (proj1 (sparse_dtype_holds dv d dt Hu Hm)).
  unfold sparse_encode in Hv. simpl in Hv. apply in_map_iff in Hv. destruct Hv as [p [<- Hp]].
  rewrite Forall_forall in Harr. apply Harr. eapply scan_subset. exact Hp.
Qed.

Lemma sparse_np_total_partial : forall l d dv arr,
  np_array l = Ok (dv, arr) -> np_cmp_guard dv d = Ok tt ->
  exists o, sparse_np l d None = Ok o.
Proof.
  intros l d dv arr Hnp Hg.
  destruct (np_array_has_dtype l dv arr Hnp) as [Harr [Hu _]].
  destruct (mat_dtype_total dv d Hu) as [dt Hm].
  rewrite (sparse_np_unfold l d dv arr Hnp), Hg. unfold bind at 1. rewrite Hm. unfold bind at 1.
  destruct (sparse_dtype_holds dv d dt Hu Hm) as [_ [c [Hc _]]]. rewrite Hc. unfold bind at 1.
  rewrite (stored_cast_id dv d dt arr Hu Hm Harr). unfold bind. eexists. reflexivity.
Qed.

Lemma sparse_np_lossless : forall l d dv arr o,
  np_array l = Ok (dv, arr) -> sparse_np l d None = Ok o ->
  exists idx vals dt fill out,
    o = mkobs [vals; out] [idx] [dv; dt] /\
    (idx, vals, length arr) = sparse_encode (np_neqb dv) arr d /\
    mat_dtype dv d = Ok dt /\ np_cast dt d = Ok fill /\ (fill = d \/ np_eqb dt fill d = true) /\
    Forall (has_dtype dv) arr /\
    Forall2 (fun x y => y = x \/ (np_eqb dv x d = true /\ y = fill)) arr out.
Proof.
  intros l d dv arr o Hnp H.
  destruct (np_array_has_dtype l dv arr Hnp) as [Harr [Hu _]].
  rewrite (sparse_np_unfold l d dv arr Hnp) in H.
  destruct (np_cmp_guard dv d) as [[]|e]; [|discriminate]. unfold bind at 1 in H.
  destruct (mat_dtype dv d) as [dt|e] eqn:Hm; [|discriminate]. unfold bind at 1 in H.
  destruct (sparse_dtype_holds dv d dt Hu Hm) as [_ [c [Hc Hcd]]]. rewrite Hc in H. unfold bind at 1 in H.
  rewrite (stored_cast_id dv d dt arr Hu Hm Harr) in H. unfold bind in H. injection H as <-.
  exists (fst (fst (sparse_encode (np_neqb dv) arr d))), (snd (fst (sparse_encode (np_neqb dv) arr d))), dt, c.
  eexists. split; [reflexivity|]. split; [reflexivity|].
  split; [reflexivity|]. split; [exact Hc|]. split; [exact Hcd|]. split; [exact Harr|].
  change (Forall2 (fun x y : val => y = x \/ np_eqb dv x d = true /\ y = c) arr
            (sparse_materialize (sparse_encode (np_neqb dv) arr d) c)).
  rewrite sparse_materialize_encode.
  clear. induction arr as [|x r IH]; simpl; constructor; [|exact IH].
  unfold keep_or, np_neqb. destruct (np_eqb dv x d); simpl; [right; split; reflexivity | left; reflexivity].
Qed.

(* the guards of the partial theorems are needed: witnesses evaluated on the model *)
(* the F-C09-2 witnesses: the default has no counterpart in int64, the result is an object array *)
Lemma sparse_np_unconvertible_default :
  sparse_np [VInt 1; VInt 2; VInt 3] (VFloat FNaN) None
  = Ok (mkobs [[VInt 1; VInt 2; VInt 3]; [VInt 1; VInt 2; VInt 3]] [[0; 1; 2]] [DInt; DObj]) /\
  sparse_np [VInt 1; VInt 2] (VInt (2 ^ 63)) None = Ok (mkobs [[VInt 1; VInt 2]; [VInt 1; VInt 2]] [[0; 1]] [DInt; DObj]) /\
  sparse_np [VInt 1; VInt 2] (VFloat (FFin 1 100)) None = Ok (mkobs [[VInt 1; VInt 2]; [VInt 1; VInt 2]] [[0; 1]] [DInt; DObj]) /\
  sparse_np [VInt 1; VInt 2] (VFloat (FInf false)) None = Ok (mkobs [[VInt 1; VInt 2]; [VInt 1; VInt 2]] [[0; 1]] [DInt; DObj]).
Proof. repeat (split; [vm_compute; reflexivity|]). vm_compute; reflexivity. Qed.

Lemma sparse_np_raises_init :
  sparse_np [VBool true; VBool false] (VInt (2 ^ 70)) None = Raise OverflowError /\
  sparse_np [VFloat (FFin 3 (-1))] (VInt (2 ^ 1024)) None = Raise OverflowError.
Proof. repeat split; vm_compute; reflexivity. Qed.

Lemma sparse_np_inexact_compare :
  sparse_np [VInt (2 ^ 53 + 1); VInt 7] (VFloat (FFin 1 53)) None
  = Ok (mkobs [[VInt 7]; [VInt (2 ^ 53); VInt 7]] [[1]] [DInt; DInt]).
Proof. vm_compute. reflexivity. Qed.

Lemma sparse_np_object_default_kind :
  sparse_np [VNull; VInt 0; VNull] (VBool false) None
  = Ok (mkobs [[VNull; VNull]; [VNull; VBool false; VNull]] [[0; 2]] [DObj; DObj]).
Proof. vm_compute. reflexivity. Qed.

(* ---------- Part 4: sessions over several constant / function column objects ---------- *)
Lemma scol_mat_erase : forall c t, scol_mat (erase_col c) t = scol_mat c t.
Proof. intros [k n d] t. reflexivity. Qed.

Lemma set_col_map_erase : forall i f g cols,
  (forall c, erase_col (f c) = g (erase_col c)) ->
  map erase_col (set_col i f cols) = set_col i g (map erase_col cols).
Proof.
  intros i f g cols H. revert i. induction cols as [|c r IH]; intros [|j]; simpl; try reflexivity.
  - now rewrite H.
  - now rewrite IH.
Qed.

Lemma with_cfg_erase : forall cfg c, erase_col (with_cfg cfg c) = with_cfg cfg (erase_col c).
Proof. intros cfg [[b cfg0|v] n d]; reflexivity. Qed.
Lemma with_len_erase : forall n c, erase_col (with_len n c) = with_len n (erase_col c).
Proof. intros n [k m d]; reflexivity. Qed.

Lemma sess_run_erase : forall steps cols t,
  sess_run (map erase_col cols) t (map erase_step steps) = sess_run cols t steps.
Proof.
  induction steps as [|s r IH]; intros cols t; [reflexivity|].
  destruct s as [c|i|i cfg|i n]; cbn [map erase_step sess_run].
  - rewrite <- IH. now rewrite map_app.
  - rewrite nth_error_map. destruct (nth_error cols i) as [c|]; cbn [option_map]; [|reflexivity].
    rewrite scol_mat_erase. now rewrite IH.
  - rewrite <- (set_col_map_erase i (with_cfg cfg) (with_cfg cfg)) by apply with_cfg_erase. apply IH.
  - rewrite <- (set_col_map_erase i (with_len n) (with_len n)) by apply with_len_erase. apply IH.
Qed.

Lemma scol_mat_pure_ticks : forall c t, pure_col c -> snd (scol_mat c t) = t.
Proof. intros [[[b|] cfg|v] n d] t H; try reflexivity. destruct H. Qed.

Lemma scol_mat_pure_indep : forall c t u, pure_col c -> fst (scol_mat c t) = fst (scol_mat c u).
Proof. intros [[[b|] cfg|v] n d] t u H; try reflexivity. destruct H. Qed.

Lemma sess_mat_no_effect : forall cols t i c r,
  nth_error cols i = Some c -> pure_col c ->
  sess_run cols t (SMat i :: r) = fst (scol_mat c t) :: sess_run cols t r.
Proof. intros cols t i c r H P. cbn [sess_run]. rewrite H. now rewrite scol_mat_pure_ticks. Qed.

Lemma set_col_other : forall i j f cols, i <> j -> nth_error (set_col i f cols) j = nth_error cols j.
Proof.
  intros i j f cols. revert i j. induction cols as [|c r IH]; intros [|i] [|j] H; simpl; try reflexivity.
  - now destruct H.
  - apply IH. intro E. apply H. now f_equal.
Qed.

Lemma set_col_same : forall i f cols c, nth_error cols i = Some c -> nth_error (set_col i f cols) i = Some (f c).
Proof.
  intros i f cols. revert i. induction cols as [|c0 r IH]; intros [|i] c H; simpl in *; try discriminate.
  - now inversion H.
  - now apply IH.
Qed.

(* ---------- Part 6: scripts on one column object ---------- *)
Lemma script_copy_erasable : forall steps s h,
  script_run s h (filter not_copy steps) = script_run s h steps.
Proof.
  induction steps as [|k r IH]; intros s h; [reflexivity|].
  destruct k as [|f| |n|j]; cbn [filter not_copy script_run].
  - destruct (st_expand s) as [o|e]; [|reflexivity]. now rewrite IH.
  - destruct (st_fn f s) as [s'|e]; [|reflexivity]. apply IH.
  - apply IH.
  - apply IH.
  - now rewrite IH.
Qed.

Lemma script_reread_stable : forall (A : Type) k (h x : list A) d,
  k < length h -> nth k (h ++ x) d = nth k h d.
Proof. intros. now apply app_nth1. Qed.

(* the scripts generalise the single-step models *)

Lemma script_rle_single : forall l f, script_np (CRle l) (one_fn f) = [mat_only (rle_np l f)].
Proof.
  intros l f. unfold script_np, rle_np, st_build, one_fn.
  destruct (rle_encode py_eqb l) as [rv ls].
  destruct (np_array rv) as [[dv sv]|e]; cbn [bind]; [|reflexivity].
  destruct f as [g|]; [cbn [script_run st_fn bind] | cbn [script_run st_expand apply_fn bind]].
  - destruct (apply_fn (Some g) dv sv) as [[dv' sv']|e]; cbn [bind]; [|reflexivity].
    cbn [script_run st_expand].
    destruct (np_array (rle_decode sv' ls)) as [[odt out]|e]; reflexivity.
  - destruct (np_array (rle_decode sv ls)) as [[odt out]|e]; reflexivity.
Qed.

Lemma script_dict_single : forall l f, script_np (CDict l) (one_fn f) = [mat_only (dict_np l f)].
Proof.
  intros l f. unfold script_np, dict_np, st_build, one_fn.
  destruct (np_array l) as [[dv arr]|e]; cbn [bind]; [|reflexivity].
  destruct (dtype_eqb dv DObj && (2 <=? length arr)); [reflexivity|].
  destruct (dict_encode dict_eqb dict_leb arr) as [u codes].
  destruct f as [g|]; [cbn [script_run st_fn bind] | cbn [script_run st_expand apply_fn bind]].
  - destruct (apply_fn (Some g) dv u) as [[dv' u']|e]; cbn [bind]; [|reflexivity].
    cbn [script_run st_expand]. destruct (gather u' codes); reflexivity.
  - destruct (gather u codes); reflexivity.
Qed.

Lemma script_sparse_single : forall l d f, script_np (CSparse l d) (one_fn f) = [mat_only (sparse_np l d f)].
Proof.
  intros l d f. unfold script_np, sparse_np, st_build, one_fn.
  destruct (np_array l) as [[dv arr]|e]; cbn [bind]; [|reflexivity].
  destruct (np_cmp_guard dv d) as [u|e]; cbn [bind]; [|reflexivity].
  destruct (sparse_encode (np_neqb dv) arr d) as [[idx vals] n].
  destruct f as [g|]; [cbn [script_run st_fn bind] | cbn [script_run st_expand apply_fn bind]].
  - destruct (apply_fn (Some g) dv vals) as [[dv' vals']|e]; cbn [bind]; [|reflexivity].
    cbn [script_run st_expand].
    destruct (mat_dtype dv' d) as [dt|e]; cbn [bind]; [|reflexivity].
    destruct (np_cast dt d) as [fill|e]; cbn [bind]; [|reflexivity].
    destruct (mapM (np_cast dt) vals') as [v2|e]; reflexivity.
  - destruct (mat_dtype dv d) as [dt|e]; cbn [bind]; [|reflexivity].
    destruct (np_cast dt d) as [fill|e]; cbn [bind]; [|reflexivity].
    destruct (mapM (np_cast dt) vals) as [v2|e]; reflexivity.
Qed.

Lemma script_const_single : forall v n f, script_np (CConst v n) (one_fn f) = [mat_only (const_np v n f)].
Proof.
  intros v n f. unfold script_np, const_np, st_build, one_fn.
  destruct (np_array (const_encode v)) as [[dv sv]|e]; cbn [bind]; [|reflexivity].
  destruct f as [g|]; [cbn [script_run st_fn bind] | cbn [script_run st_expand apply_fn bind]].
  - destruct (apply_fn (Some g) dv sv) as [[dv' sv']|e]; cbn [bind]; [|reflexivity].
    cbn [script_run st_expand]. destruct (n <? 0)%Z; [reflexivity|].
    destruct (const_materialize sv' (Z.to_nat n)); reflexivity.
  - destruct (n <? 0)%Z; [reflexivity|]. destruct (const_materialize sv (Z.to_nat n)); reflexivity.
Qed.

Lemma script_func_single : forall b cfg n, script_np (CFunc b cfg n) [KMat] = [mat_only (func_np b cfg n)].
Proof.
  intros b cfg n. unfold script_np, st_build. cbn [script_run st_expand].
  destruct (mat_only (func_np b cfg n)); reflexivity.
Qed.

(* ---- round 7: object arrays keep every element as the Python object it is (a null anywhere in the list) ---- *)
Lemma elem_ok_dtype : forall v, elem_ok v = true -> exists d, elem_dtype v = Some d /\ d <> DUInt /\ (v = VNull -> d = DObj).
Proof.
  intros v H. unfold elem_ok in H. destruct (elem_dtype v) as [d|] eqn:E; [|discriminate].
  exists d. split; [reflexivity|]. split.
  - intros ->. destruct v; simpl in E; try discriminate.
    destruct (in_int64 z); discriminate.
  - intros ->. simpl in E. injection E as <-. reflexivity.
Qed.

Lemma join_not_uint : forall a d x, a <> DUInt -> d <> DUInt -> join a d = Some x -> x <> DUInt.
Proof.
  intros a d x Ha Hd H E. subst x. destruct a, d; simpl in H; try discriminate; try congruence.
Qed.

Lemma join_all_object : forall l acc,
  acc <> DUInt -> forallb elem_ok l = true -> (acc = DObj \/ existsb is_null l = true) ->
  join_all acc l = Some DObj.
Proof.
  induction l as [|v r IH]; intros acc Hacc Hok Hn.
  - simpl in *. destruct Hn as [->|Hn]; [reflexivity|discriminate].
  - cbn [forallb] in Hok. apply andb_true_iff in Hok. destruct Hok as [Hv Hr].
    destruct (elem_ok_dtype v Hv) as [d [Ed [Hd Hnull]]].
    cbn [join_all]. rewrite Ed.
    destruct (join acc d) as [a|] eqn:Ej.
    + apply IH; [exact (join_not_uint acc d a Hacc Hd Ej) | exact Hr |].
      destruct Hn as [->|Hn].
      * left. simpl in Ej. injection Ej as <-. reflexivity.
      * cbn [existsb] in Hn. apply orb_true_iff in Hn. destruct Hn as [Hn|Hn]; [|right; exact Hn].
        left. destruct v; try discriminate. rewrite (Hnull eq_refl) in Ej.
        destruct acc; simpl in Ej; congruence.
    + assert (Hex : existsb is_null r = true).
      { destruct Hn as [->|Hn]; [simpl in Ej; discriminate|].
        cbn [existsb] in Hn. apply orb_true_iff in Hn. destruct Hn as [Hn|Hn]; [|exact Hn].
        destruct v; try discriminate. rewrite (Hnull eq_refl) in Ej. destruct acc; simpl in Ej; discriminate. }
      rewrite Hex, Hr. reflexivity.
Qed.

Lemma np_dtype_object : forall l,
  existsb is_null l = true -> forallb elem_ok l = true -> np_dtype_of_list l = Some DObj.
Proof.
  intros [|v r] Hn Hok; [discriminate|].
  cbn [forallb] in Hok. apply andb_true_iff in Hok. destruct Hok as [Hv Hr].
  destruct (elem_ok_dtype v Hv) as [d [Ed [Hd Hnull]]].
  cbn [np_dtype_of_list]. rewrite Ed. apply join_all_object; [exact Hd | exact Hr |].
  cbn [existsb] in Hn. apply orb_true_iff in Hn. destruct Hn as [Hn|Hn]; [|right; exact Hn].
  left. destruct v; try discriminate. apply Hnull. reflexivity.
Qed.

Lemma np_array_keeps_objects : forall l,
  In VNull l -> (forall z, In (VInt z) l -> in_int64 z = true) -> np_array l = Ok (DObj, l).
Proof.
  intros l Hn Hz. apply np_array_from_dtype.
  - apply np_dtype_object.
    + apply existsb_exists. exists VNull. split; [exact Hn|reflexivity].
    + apply forallb_forall. intros v Hv. unfold elem_ok. destruct v; try reflexivity.
      simpl. rewrite (Hz z Hv). reflexivity.
  - apply Forall_forall. intros v _. destruct v; exact I.
Qed.


Lemma Forall2_eq_list : forall (l out : list val) (P : val -> val -> Prop),
  (forall x y, P x y -> y = x) -> Forall2 P l out -> out = l.
Proof.
  intros l out P HP H. induction H as [|x y l' out' Hxy _ IH]; [reflexivity|].
  rewrite (HP x y Hxy), IH. reflexivity.
Qed.

Lemma sparse_object_null_exact : forall l o,
  In VNull l -> (forall z, In (VInt z) l -> in_int64 z = true) ->
  sparse_np l VNull None = Ok o ->
  exists idx vals dt, o = mkobs [vals; l] [idx] [DObj; dt] /\
                      (idx, vals, length l) = sparse_encode (np_neqb DObj) l VNull.
Proof.
  intros l o Hn Hz Ho.
  pose proof (np_array_keeps_objects l Hn Hz) as Ha.
  destruct (sparse_np_lossless l VNull DObj l o Ha Ho) as [idx [vals [dt [fill [out [Eo [Eenc [Hdt [Hfill [_ [_ HF]]]]]]]]]]].
  exists idx, vals, dt. split; [|exact Eenc].
  assert (Efill : fill = VNull).
  { destruct dt; simpl in Hfill; try discriminate. injection Hfill as <-. reflexivity. }
  assert (out = l) as ->; [|exact Eo].
  eapply Forall2_eq_list; [|exact HF].
  intros x y [->|[He ->]]; [reflexivity|].
  rewrite Efill. destruct x as [|b|z|f|s]; simpl in He; try discriminate; try reflexivity. destruct f; discriminate.
Qed.
