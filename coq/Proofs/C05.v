(* C05 - specification vocabulary and lemmas about Model/C05.v. *)
From Coq Require Import String.
From Coq Require Import List NArith ZArith Bool Lia.
From Orso Require Import Gen.C05_Types Model.C05.
Import ListNotations.

(* ===================================================================================== *)
(* Specification vocabulary (the property's own words)                                   *)

(* a value may sit in a column: nulls only where nullable; a non-null value in a typed column is an
   instance of the column type's Python class; untyped columns accept anything *)
Definition value_fits (c : column) (v : value) : Prop :=
  match v with
  | VNone => cnullable c = true
  | VObj cls _ _ =>
      match ctype c with
      | None => True
      | Some t => exists k, type_class t = HasClass k /\ isinst cls k = true
      end
  end.

(* the record conforms: its keys all name schema columns, every schema column is present and fits *)
Definition conforms (s : schema) (r : record) : Prop :=
  (forall k, In k (keys r) -> In k (names s)) /\
  (forall c, In c s -> exists v, lookup (cname c) r = Some v /\ value_fits c v).

(* a stored row conforms: one fitting value per column, in column order *)
Definition row_conforms (s : schema) (rw : row) : Prop := Forall2 value_fits s rw.

(* the offending columns, each class as a filter over the schema *)
Definition is_missing (r : record) (c : column) : bool := negb (mem (cname c) (keys r)).

Definition null_violation (r : record) (c : column) : bool :=
  match lookup (cname c) r with
  | Some VNone => negb (cnullable c)
  | _ => false
  end.

Definition wrong_type (r : record) (c : column) : bool :=
  match lookup (cname c) r, ctype c with
  | Some (VObj cls _ _), Some t =>
      match type_class t with
      | HasClass k => negb (isinst cls k)
      | _ => false
      end
  | _, _ => false
  end.

(* what the error records for a wrongly typed column: (name, value, type) *)
Definition wrong_entry (r : record) (c : column) : key * value * N :=
  (cname c,
   match lookup (cname c) r with Some v => v | None => VNone end,
   match ctype c with Some t => t | None => 0%N end).

Definition missing_cols (s : schema) (r : record) : list key := map cname (filter (is_missing r) s).
Definition notnull_cols (s : schema) (r : record) : list key := map cname (filter (null_violation r) s).
Definition wrong_cols (s : schema) (r : record) : list (key * value * N) := map (wrong_entry r) (filter (wrong_type r) s).

(* a non-null value meets a column whose type has no Python class: the isinstance call itself raises *)
Definition col_raises (r : record) (c : column) : option exn :=
  match lookup (cname c) r, ctype c with
  | Some (VObj _ _ _), Some t =>
      match type_class t with
      | HasClass _ => None
      | NoClass => Some TypeError
      | NotMapped => Some KeyError
      end
  | _, _ => None
  end.

Fixpoint first_raise (r : record) (cols : list column) : option exn :=
  match cols with
  | [] => None
  | c :: rest => match col_raises r c with Some e => Some e | None => first_raise r rest end
  end.

(* every typed column's type has a Python class (the property's quantifier) *)
Definition schema_classed (s : schema) : Prop :=
  forall c t, In c s -> ctype c = Some t -> exists k, type_class t = HasClass k.

(* the row built from a dict record can be sized *)
Definition sizable (ns : list key) (r : record) : Prop := forallb packable (extract ns r) = true.

(* the entry is a record: a dict, an instance of a dict subclass, or any other mapping *)
Definition is_mapping (e : entry) : bool :=
  match ekind_of e with KDict | KDictSub | KMapping => true | KTuple | KScalar => false end.

(* a frame whose schema is a list of names behaves like all-untyped, all-nullable columns *)
Definition frame_schema (k : fkind) : schema :=
  match k with
  | FSchema s => s
  | FNames ns => map (fun n => mkcol n None true) ns
  end.

(* the entries of a history whose append returned normally, in order *)
Fixpoint accepted (es : list entry) (os : list aout) : list entry :=
  match es, os with
  | e :: es', AOk :: os' => e :: accepted es' os'
  | _ :: es', _ :: os' => accepted es' os'
  | _, _ => []
  end.

(* the row a successful append stores *)
Definition built (k : fkind) (e : entry) : row :=
  match ekind_of e with
  | KDict | KDictSub | KMapping => extract (fields k) (eitems e)
  | KTuple => map snd (eitems e)
  | KScalar => []
  end.

(* ===================================================================================== *)
(* Basic list facts                                                                      *)

Lemma mem_In : forall k l, mem k l = true <-> In k l.
Proof.
  intros k l. unfold mem. rewrite existsb_exists. split.
  - intros [x [Hin Heq]]. apply N.eqb_eq in Heq. subst. exact Hin.
  - intros Hin. exists k. split; [exact Hin | apply N.eqb_refl].
Qed.

Lemma mem_false_notIn : forall k l, mem k l = false <-> ~ In k l.
Proof.
  intros k l. split.
  - intros H Hin. apply mem_In in Hin. congruence.
  - intros H. destruct (mem k l) eqn:E; [|reflexivity]. exfalso. apply H. apply mem_In. exact E.
Qed.

Lemma lookup_none_iff : forall k (r : record), lookup k r = None <-> mem k (keys r) = false.
Proof.
  intros k r. unfold lookup, keys, mem. induction r as [|[k' v] r IH]; cbn [assoc map existsb fst].
  - split; reflexivity.
  - destruct (N.eqb k k') eqn:E; cbn [orb].
    + split; discriminate.
    + exact IH.
Qed.

Lemma is_missing_lookup : forall r c,
  is_missing r c = match lookup (cname c) r with None => true | Some _ => false end.
Proof.
  intros r c. unfold is_missing. destruct (lookup (cname c) r) eqn:E.
  - destruct (mem (cname c) (keys r)) eqn:M; [reflexivity|].
    apply lookup_none_iff in M. congruence.
  - apply lookup_none_iff in E. rewrite E. reflexivity.
Qed.

Lemma filter_nil_iff : forall (A : Type) (p : A -> bool) (l : list A),
  filter p l = [] <-> forall x, In x l -> p x = false.
Proof.
  intros A p l. induction l as [|a l IH]; cbn [filter].
  - split; [intros _ x []| reflexivity].
  - destruct (p a) eqn:E.
    + split; [discriminate|]. intros H. specialize (H a (or_introl eq_refl)). congruence.
    + rewrite IH. split.
      * intros H x [Hx|Hx]; [subst; exact E | apply H; exact Hx].
      * intros H x Hx. apply H. right. exact Hx.
Qed.

Lemma map_nil_iff : forall (A B : Type) (f : A -> B) (l : list A), map f l = [] <-> l = [].
Proof. intros A B f l. destruct l; cbn; split; congruence. Qed.

(* ===================================================================================== *)
(* validate                                                                              *)

Lemma finish_cases : forall m n w,
  (m = [] /\ n = [] /\ w = [] /\ finish m n w = VOk) \/
  (~ (m = [] /\ n = [] /\ w = []) /\ finish m n w = VErrors m n w).
Proof.
  intros m n w. destruct m as [|a m]; destruct n as [|b n]; destruct w as [|c w]; cbn [finish];
    try (left; repeat split; reflexivity);
    right; (split; [intros [H1 [H2 H3]]; discriminate | reflexivity]).
Qed.

(* one pass with three growing lists = the three filters, unless an isinstance call raises first *)
Lemma vloop_spec : forall r cols m n w,
  vloop r cols m n w =
  match first_raise r cols with
  | Some e => VRaise e
  | None => finish (m ++ map cname (filter (is_missing r) cols))
                   (n ++ map cname (filter (null_violation r) cols))
                   (w ++ map (wrong_entry r) (filter (wrong_type r) cols))
  end.
Proof.
  intros r cols. induction cols as [|c rest IH]; intros m n w.
  - cbn [vloop first_raise filter map]. rewrite !app_nil_r. reflexivity.
  - cbn [vloop first_raise filter]. rewrite is_missing_lookup.
    unfold check_col, col_raises, null_violation, wrong_type, wrong_entry.
    destruct (lookup (cname c) r) as [[|cls i p]|] eqn:EL.
    + (* null *)
      destruct (cnullable c) eqn:EN; cbn [negb]; rewrite IH.
      * reflexivity.
      * cbn [map]. rewrite <- app_assoc. reflexivity.
    + destruct (ctype c) as [t|] eqn:ET.
      * destruct (type_class t) as [k| |] eqn:EC.
        -- destruct (isinst cls k) eqn:EI; cbn [negb]; rewrite IH.
           ++ reflexivity.
           ++ cbn [map]. rewrite <- app_assoc. rewrite EL, ET. reflexivity.
        -- reflexivity.
        -- reflexivity.
      * rewrite IH. reflexivity.
    + (* missing *)
      rewrite IH. cbn [map]. rewrite <- app_assoc. reflexivity.
Qed.

Lemma validate_spec : forall s r,
  validate s r =
  match extra_keys s r with
  | [] => match first_raise r s with
          | Some e => VRaise e
          | None => finish (missing_cols s r) (notnull_cols s r) (wrong_cols s r)
          end
  | x => VExcess x
  end.
Proof.
  intros s r. unfold validate. destruct (extra_keys s r); [|reflexivity].
  rewrite vloop_spec. reflexivity.
Qed.

Lemma extra_keys_In : forall s r k,
  In k (extra_keys s r) <-> In k (keys r) /\ ~ In k (names s).
Proof.
  intros s r k. unfold extra_keys. rewrite filter_In. rewrite negb_true_iff, mem_false_notIn. reflexivity.
Qed.

Lemma extra_keys_nil : forall s r,
  extra_keys s r = [] <-> (forall k, In k (keys r) -> In k (names s)).
Proof.
  intros s r. unfold extra_keys. rewrite filter_nil_iff. split; intros H k Hk.
  - specialize (H k Hk). apply negb_false_iff in H. apply mem_In. exact H.
  - apply negb_false_iff. apply mem_In. apply H. exact Hk.
Qed.

Lemma excess_first : forall s r,
  extra_keys s r <> [] -> validate s r = VExcess (extra_keys s r).
Proof.
  intros s r H. unfold validate. destruct (extra_keys s r); [congruence | reflexivity].
Qed.

Lemma excess_exact : forall s r x,
  validate s r = VExcess x -> x = extra_keys s r /\ x <> [].
Proof.
  intros s r x H. rewrite validate_spec in H. destruct (extra_keys s r) as [|a l] eqn:E.
  - destruct (first_raise r s); [discriminate|].
    destruct (finish_cases (missing_cols s r) (notnull_cols s r) (wrong_cols s r)) as [[_ [_ [_ F]]]|[_ F]];
      rewrite F in H; discriminate.
  - inversion H. subst. split; [reflexivity | discriminate].
Qed.

Lemma errors_exact : forall s r m n w,
  validate s r = VErrors m n w ->
  extra_keys s r = [] /\ first_raise r s = None /\
  m = missing_cols s r /\ n = notnull_cols s r /\ w = wrong_cols s r /\
  ~ (m = [] /\ n = [] /\ w = []).
Proof.
  intros s r m n w H. rewrite validate_spec in H. destruct (extra_keys s r) as [|a l] eqn:E; [|discriminate].
  destruct (first_raise r s); [discriminate|].
  destruct (finish_cases (missing_cols s r) (notnull_cols s r) (wrong_cols s r)) as [[_ [_ [_ F]]]|[NE F]];
    rewrite F in H; [discriminate|].
  inversion H. subst. repeat split; try reflexivity. exact NE.
Qed.

Lemma first_raise_none_iff : forall r cols,
  first_raise r cols = None <-> forall c, In c cols -> col_raises r c = None.
Proof.
  intros r cols. induction cols as [|c rest IH]; cbn [first_raise].
  - split; [intros _ c [] | reflexivity].
  - destruct (col_raises r c) eqn:E.
    + split; [discriminate|]. intros H. specialize (H c (or_introl eq_refl)). congruence.
    + rewrite IH. split.
      * intros H x [Hx|Hx]; [subst; exact E | apply H; exact Hx].
      * intros H x Hx. apply H. right. exact Hx.
Qed.

Lemma classed_no_raise : forall s r, schema_classed s -> first_raise r s = None.
Proof.
  intros s r H. apply first_raise_none_iff. intros c Hc. unfold col_raises.
  destruct (lookup (cname c) r) as [[|cls i p]|]; try reflexivity.
  destruct (ctype c) as [t|] eqn:ET; try reflexivity.
  destruct (H c t Hc ET) as [k Hk]. rewrite Hk. reflexivity.
Qed.

(* a column passes all four tests exactly when it is present with a fitting value *)
Lemma col_fine_iff : forall r c,
  (is_missing r c = false /\ null_violation r c = false /\ wrong_type r c = false /\ col_raises r c = None)
  <-> exists v, lookup (cname c) r = Some v /\ value_fits c v.
Proof.
  intros r c. rewrite is_missing_lookup. unfold null_violation, wrong_type, col_raises, value_fits.
  destruct (lookup (cname c) r) as [[|cls i p]|] eqn:EL.
  - split.
    + intros [_ [H _]]. exists VNone. split; [reflexivity|]. apply negb_false_iff in H. exact H.
    + intros [v [Hv Hf]]. inversion Hv. subst v. repeat split; try reflexivity. apply negb_false_iff. exact Hf.
  - destruct (ctype c) as [t|] eqn:ET.
    + destruct (type_class t) as [k| |] eqn:EC.
      * split.
        -- intros [_ [_ [H _]]]. exists (VObj cls i p). split; [reflexivity|]. exists k. split; [reflexivity|].
           apply negb_false_iff in H. exact H.
        -- intros [v [Hv Hf]]. inversion Hv. subst v. destruct Hf as [k' [Hk Hi]]. inversion Hk. subst k'.
           repeat split; try reflexivity. apply negb_false_iff. exact Hi.
      * split.
        -- intros [_ [_ [_ H]]]. discriminate.
        -- intros [v [Hv Hf]]. inversion Hv. subst v. destruct Hf as [k' [Hk _]]. discriminate.
      * split.
        -- intros [_ [_ [_ H]]]. discriminate.
        -- intros [v [Hv Hf]]. inversion Hv. subst v. destruct Hf as [k' [Hk _]]. discriminate.
    + split.
      * intros _. exists (VObj cls i p). split; [reflexivity | exact I].
      * intros _. repeat split; reflexivity.
  - split.
    + intros [H _]. discriminate.
    + intros [v [Hv _]]. discriminate.
Qed.

Lemma validate_ok_iff_conforms : forall s r, validate s r = VOk <-> conforms s r.
Proof.
  intros s r. rewrite validate_spec. unfold conforms. split.
  - intros H. destruct (extra_keys s r) as [|a l] eqn:E; [|discriminate].
    split; [apply extra_keys_nil; exact E|].
    destruct (first_raise r s) eqn:FR; [discriminate|].
    destruct (finish_cases (missing_cols s r) (notnull_cols s r) (wrong_cols s r)) as [[M [Nn [W _]]]|[_ F]];
      [|rewrite F in H; discriminate].
    unfold missing_cols in M. unfold notnull_cols in Nn. unfold wrong_cols in W.
    apply map_nil_iff in M. apply map_nil_iff in Nn. apply map_nil_iff in W.
    intros c Hc. apply col_fine_iff. repeat split.
    + exact (proj1 (filter_nil_iff _ _ _) M c Hc).
    + exact (proj1 (filter_nil_iff _ _ _) Nn c Hc).
    + exact (proj1 (filter_nil_iff _ _ _) W c Hc).
    + exact (proj1 (first_raise_none_iff _ _) FR c Hc).
  - intros [Hk Hc]. apply extra_keys_nil in Hk. rewrite Hk.
    assert (A : forall c, In c s -> is_missing r c = false /\ null_violation r c = false /\
                                  wrong_type r c = false /\ col_raises r c = None).
    { intros c Hin. apply col_fine_iff. apply Hc. exact Hin. }
    assert (FR : first_raise r s = None).
    { apply first_raise_none_iff. intros c Hin. apply (A c Hin). }
    rewrite FR. unfold missing_cols, notnull_cols, wrong_cols.
    assert (M : filter (is_missing r) s = []) by (apply filter_nil_iff; intros c Hin; apply (A c Hin)).
    assert (Nn : filter (null_violation r) s = []) by (apply filter_nil_iff; intros c Hin; apply (A c Hin)).
    assert (W : filter (wrong_type r) s = []) by (apply filter_nil_iff; intros c Hin; apply (A c Hin)).
    rewrite M, Nn, W. reflexivity.
Qed.

(* with every typed column classed, validate never raises anything but its two error classes, and a
   non-conforming record gets one of them *)
Lemma validate_total : forall s r,
  schema_classed s ->
  validate s r =
  match extra_keys s r with
  | [] => finish (missing_cols s r) (notnull_cols s r) (wrong_cols s r)
  | x => VExcess x
  end.
Proof.
  intros s r H. rewrite validate_spec. rewrite (classed_no_raise s r H). reflexivity.
Qed.

Lemma nonconforming_rejected : forall s r,
  schema_classed s -> ~ conforms s r ->
  (extra_keys s r <> [] /\ validate s r = VExcess (extra_keys s r)) \/
  (extra_keys s r = [] /\
   validate s r = VErrors (missing_cols s r) (notnull_cols s r) (wrong_cols s r) /\
   ~ (missing_cols s r = [] /\ notnull_cols s r = [] /\ wrong_cols s r = [])).
Proof.
  intros s r HC HN. destruct (extra_keys s r) as [|a l] eqn:E.
  - right. split; [reflexivity|].
    assert (V := validate_total s r HC). rewrite E in V.
    destruct (finish_cases (missing_cols s r) (notnull_cols s r) (wrong_cols s r)) as [[_ [_ [_ F]]]|[NE F]].
    + exfalso. apply HN. apply validate_ok_iff_conforms. rewrite V. exact F.
    + split; [rewrite V; exact F | exact NE].
  - left. split; [discriminate|]. rewrite <- E. apply excess_first. rewrite E. discriminate.
Qed.

(* the meaning of the three filters, column by column *)
Lemma is_missing_iff : forall r c, is_missing r c = true <-> ~ In (cname c) (keys r).
Proof. intros r c. unfold is_missing. rewrite negb_true_iff. apply mem_false_notIn. Qed.

Lemma null_violation_iff : forall r c,
  null_violation r c = true <-> lookup (cname c) r = Some VNone /\ cnullable c = false.
Proof.
  intros r c. unfold null_violation. destruct (lookup (cname c) r) as [[|cls i p]|].
  - rewrite negb_true_iff. split; [intros H; split; [reflexivity | exact H] | intros [_ H]; exact H].
  - split; [discriminate | intros [H _]; discriminate].
  - split; [discriminate | intros [H _]; discriminate].
Qed.

Lemma wrong_type_iff : forall r c,
  wrong_type r c = true <->
  exists cls i p t k, lookup (cname c) r = Some (VObj cls i p) /\ ctype c = Some t /\
                      type_class t = HasClass k /\ isinst cls k = false.
Proof.
  intros r c. unfold wrong_type. split.
  - intros H. destruct (lookup (cname c) r) as [[|cls i p]|]; try discriminate.
    destruct (ctype c) as [t|]; try discriminate.
    destruct (type_class t) as [k| |] eqn:EC; try discriminate.
    apply negb_true_iff in H. exists cls, i, p, t, k. repeat split; try reflexivity; assumption.
  - intros [cls [i [p [t [k [H1 [H2 [H3 H4]]]]]]]]. rewrite H1, H2, H3, H4. reflexivity.
Qed.

(* ===================================================================================== *)
(* rows built from conforming records                                                    *)

Lemma conforms_extract : forall (s : schema) (r : record),
  (forall c, In c s -> exists v, lookup (cname c) r = Some v /\ value_fits c v) ->
  row_conforms s (extract (names s) r).
Proof.
  intros s r. unfold row_conforms, extract, names. induction s as [|c s IH]; intros H; cbn [map].
  - constructor.
  - constructor.
    + destruct (H c (or_introl eq_refl)) as [v [Hv Hf]]. rewrite Hv. exact Hf.
    + apply IH. intros c' Hc'. apply H. right. exact Hc'.
Qed.

Lemma names_frame_schema : forall k, names (frame_schema k) = fields k.
Proof.
  intros [s|ns]; cbn [frame_schema fields]; [reflexivity|].
  unfold names. rewrite map_map. cbn [cname]. apply map_id.
Qed.

(* with a name-list schema every extracted row conforms (all columns untyped and nullable) *)
Lemma names_extract_conforms : forall ns r,
  row_conforms (frame_schema (FNames ns)) (extract ns r).
Proof.
  intros ns r. unfold row_conforms, extract. cbn [frame_schema]. induction ns as [|n ns IH]; cbn [map].
  - constructor.
  - constructor; [|exact IH]. unfold value_fits. cbn [ctype cnullable].
    destruct (lookup n r) as [[|? ? ?]|]; auto.
Qed.

Lemma idicts_rows_conform : forall ds,
  Forall (row_conforms (frame_schema (fk (init_frame (IDicts ds))))) (frows (init_frame (IDicts ds))).
Proof.
  intros ds. cbn [init_frame fk frows]. apply Forall_forall. intros rw Hin.
  apply in_map_iff in Hin. destruct Hin as [d [Hd _]]. subst rw. apply names_extract_conforms.
Qed.

(* ===================================================================================== *)
(* append                                                                                *)

Lemma append_cases : forall f e,
  (exists x, append f e = (f, ARaise x)) \/
  (append f e = (step_store f (built (fk f) e), AOk) /\
   step_validate f e = Ok tt /\ step_build f e = Ok (built (fk f) e) /\ step_size (built (fk f) e) = Ok tt).
Proof.
  intros f e. unfold append. destruct (step_validate f e) as [[]|x] eqn:EV.
  - destruct (step_build f e) as [rw|x] eqn:EB.
    + assert (R : rw = built (fk f) e).
      { unfold step_build in EB. unfold built. destruct (ekind_of e); inversion EB; reflexivity. }
      subst rw. destruct (step_size (built (fk f) e)) as [[]|x] eqn:ES.
      * right. repeat split; reflexivity.
      * left. exists x. reflexivity.
    + left. exists x. reflexivity.
  - left. exists x. reflexivity.
Qed.

(* a raising append leaves the whole frame (rows, size, cursor) as it was *)
Lemma append_atomic : forall f e x, snd (append f e) = ARaise x -> fst (append f e) = f.
Proof.
  intros f e x H. destruct (append_cases f e) as [[y E]|[E _]]; rewrite E in *; cbn [fst snd] in *.
  - reflexivity.
  - discriminate.
Qed.

(* a successful append adds exactly one row at the end, sets the size and drops the cursor *)
Lemma append_ok : forall f e,
  snd (append f e) = AOk ->
  fst (append f e) = mkfr (fk f) (frows f ++ [built (fk f) e]) true false /\
  step_validate f e = Ok tt /\ step_size (built (fk f) e) = Ok tt.
Proof.
  intros f e H. destruct (append_cases f e) as [[y E]|[E [V [_ S]]]]; rewrite E in *; cbn [fst snd] in *.
  - discriminate.
  - repeat split; assumption.
Qed.

Lemma step_size_ok_iff : forall rw, step_size rw = Ok tt <-> forallb packable rw = true.
Proof.
  intros rw. unfold step_size. destruct (forallb packable rw); split; intros H; try reflexivity; discriminate.
Qed.

Lemma mapping_validate_entry : forall s e,
  is_mapping e = true -> validate_entry s e = validate s (eitems e).
Proof.
  intros s e H. unfold is_mapping in H. unfold validate_entry. destruct (ekind_of e); try discriminate; reflexivity.
Qed.

Lemma mapping_step_build : forall f e,
  is_mapping e = true -> step_build f e = Ok (extract (fields (fk f)) (eitems e)).
Proof.
  intros f e H. unfold is_mapping in H. unfold step_build. destruct (ekind_of e); try discriminate; reflexivity.
Qed.

Lemma mapping_built : forall k e,
  is_mapping e = true -> built k e = extract (fields k) (eitems e).
Proof.
  intros k e H. unfold is_mapping in H. unfold built. destruct (ekind_of e); try discriminate; reflexivity.
Qed.

Lemma step_validate_schema_ok_iff : forall f s e,
  fk f = FSchema s -> is_mapping e = true ->
  (step_validate f e = Ok tt <-> conforms s (eitems e)).
Proof.
  intros f s e Hk He. unfold step_validate. rewrite Hk, (mapping_validate_entry s e He).
  rewrite <- validate_ok_iff_conforms. destruct (validate s (eitems e)); split; intros H; try reflexivity; discriminate.
Qed.

(* schema-bound frame, any mapping: accepted exactly when it conforms and the row can be sized *)
Lemma append_accepts_iff : forall f s e,
  fk f = FSchema s -> is_mapping e = true ->
  (snd (append f e) = AOk <-> conforms s (eitems e) /\ sizable (names s) (eitems e)).
Proof.
  intros f s e Hk He.
  assert (B : built (fk f) e = extract (names s) (eitems e)).
  { rewrite (mapping_built _ e He), Hk. reflexivity. }
  split.
  - intros H. destruct (append_ok f e H) as [_ [V S]]. split.
    + apply (step_validate_schema_ok_iff f s e Hk He). exact V.
    + unfold sizable. rewrite <- B. apply step_size_ok_iff. exact S.
  - intros [C S]. unfold append.
    rewrite (proj2 (step_validate_schema_ok_iff f s e Hk He) C).
    rewrite (mapping_step_build f e He), Hk. cbn [fields].
    unfold sizable in S. unfold step_size. rewrite S. reflexivity.
Qed.

(* schema-bound frame, any entry whatsoever: accepted exactly when it is a record (a mapping) that conforms
   and whose row can be sized; anything that is not a mapping raises TypeError *)
Lemma append_accepts_iff_all : forall f s e,
  fk f = FSchema s ->
  (snd (append f e) = AOk <-> is_mapping e = true /\ conforms s (eitems e) /\ sizable (names s) (eitems e)) /\
  (is_mapping e = false -> snd (append f e) = ARaise (AExn TypeError)).
Proof.
  intros f s e Hk.
  assert (NM : is_mapping e = false -> snd (append f e) = ARaise (AExn TypeError)).
  { intros H. unfold is_mapping in H. unfold append, step_validate, validate_entry. rewrite Hk.
    destruct (ekind_of e); try discriminate; reflexivity. }
  split; [|exact NM]. destruct (is_mapping e) eqn:He.
  - rewrite (append_accepts_iff f s e Hk He). split; [intros H; split; [reflexivity | exact H] | intros [_ H]; exact H].
  - rewrite (NM eq_refl). split; [discriminate | intros [H _]; discriminate].
Qed.

(* name-list frame, any mapping: accepted exactly when the row can be sized *)
Lemma append_names_accepts_iff : forall f ns e,
  fk f = FNames ns -> is_mapping e = true ->
  (snd (append f e) = AOk <-> sizable ns (eitems e)).
Proof.
  intros f ns e Hk He. unfold append. rewrite (mapping_step_build f e He). unfold step_validate. rewrite Hk.
  cbn [fields]. unfold sizable, step_size.
  destruct (forallb packable (extract ns (eitems e))); cbn [snd]; split; intros H; try reflexivity; discriminate.
Qed.

(* the row stored for an accepted record: its values in column order, conforming *)
Lemma append_mapping_row : forall f e,
  is_mapping e = true -> snd (append f e) = AOk ->
  built (fk f) e = extract (fields (fk f)) (eitems e) /\
  row_conforms (frame_schema (fk f)) (built (fk f) e) /\
  (forall s, fk f = FSchema s -> conforms s (eitems e)).
Proof.
  intros f e He H.
  assert (B : built (fk f) e = extract (fields (fk f)) (eitems e)) by (apply mapping_built; exact He).
  split; [exact B|]. destruct (fk f) as [s|ns] eqn:Hk.
  - assert (C : conforms s (eitems e)).
    { apply (append_accepts_iff f s e Hk He). exact H. }
    split.
    + rewrite B. cbn [frame_schema fields]. apply conforms_extract. exact (proj2 C).
    + intros s' Hs. inversion Hs. subst s'. exact C.
  - split.
    + rewrite B. cbn [fields]. apply names_extract_conforms.
    + intros s' Hs. discriminate.
Qed.

(* ===================================================================================== *)
(* histories                                                                             *)

Lemma run_cons : forall f e es,
  run f (e :: es) = (fst (run (fst (append f e)) es), snd (append f e) :: snd (run (fst (append f e)) es)).
Proof.
  intros f e es. cbn [run]. destruct (append f e) as [f1 o]. cbn [fst snd].
  destruct (run f1 es) as [f2 os]. reflexivity.
Qed.

(* any history, any entries: the rows are the initial rows followed by the rows built from the accepted
   entries, in order; raising appends contribute nothing; the schema never changes *)
Lemma history_rows : forall es f,
  fk (fst (run f es)) = fk f /\
  length (snd (run f es)) = length es /\
  frows (fst (run f es)) = frows f ++ map (built (fk f)) (accepted es (snd (run f es))).
Proof.
  induction es as [|e es IH]; intros f.
  - cbn [run fst snd accepted map length]. rewrite app_nil_r. repeat split; reflexivity.
  - rewrite run_cons. cbn [fst snd length].
    destruct (IH (fst (append f e))) as [K [Ln R]].
    destruct (append_cases f e) as [[x E]|[E _]]; rewrite E in *; cbn [fst snd] in *.
    + cbn [accepted]. repeat split; [exact K | rewrite Ln; reflexivity | exact R].
    + cbn [accepted map]. cbn [step_store fk frows] in K, R.
      repeat split; [exact K | rewrite Ln; reflexivity |].
      rewrite R. rewrite <- app_assoc. reflexivity.
Qed.

(* whether an append is accepted depends on the frame's schema only, not on what it already holds *)
Lemma append_out_schema_only : forall f g e, fk f = fk g -> snd (append f e) = snd (append g e).
Proof.
  intros f g e H. unfold append, step_validate, step_build. rewrite H.
  destruct (match fk g with FNames _ => Ok tt | FSchema s => _ end); [|reflexivity].
  destruct (ekind_of e); try reflexivity;
  match goal with |- context [step_size ?rw] => destruct (step_size rw) end; reflexivity.
Qed.

Lemma accepted_In : forall es f e,
  In e (accepted es (snd (run f es))) <-> In e es /\ snd (append f e) = AOk.
Proof.
  induction es as [|a es IH]; intros f e.
  - cbn [run snd accepted]. split; [intros [] | intros [[] _]].
  - rewrite run_cons. cbn [snd].
    assert (K : fk (fst (append f a)) = fk f).
    { destruct (append_cases f a) as [[x E]|[E _]]; rewrite E; reflexivity. }
    assert (S : snd (append (fst (append f a)) e) = snd (append f e)) by (apply append_out_schema_only; exact K).
    destruct (snd (append f a)) eqn:EA; cbn [accepted].
    + cbn [In]. rewrite IH, S. split.
      * intros [H|[H1 H2]]; [subst a; split; [left; reflexivity | exact EA] | split; [right; exact H1 | exact H2]].
      * intros [[H|H] H2]; [left; exact H | right; split; assumption].
    + rewrite IH, S. split.
      * intros [H1 H2]. split; [right; exact H1 | exact H2].
      * intros [[H|H] H2]; [subst a; congruence | split; assumption].
Qed.

Lemma accepted_sub : forall es os e, In e (accepted es os) -> In e es.
Proof.
  induction es as [|a es IH]; intros os e H.
  - destruct os; cbn [accepted] in H; contradiction.
  - destruct os as [|o os]; cbn [accepted] in H; [contradiction|].
    destruct o.
    + destruct H as [H|H]; [left; exact H | right; apply (IH os); exact H].
    + right. apply (IH os). exact H.
Qed.

(* records (dicts and other mappings): what is stored for each accepted record is its values in column order, every such
   row conforms, and so does the whole frame if it did initially *)
Lemma history_mapping : forall es f,
  forallb is_mapping es = true ->
  map (built (fk f)) (accepted es (snd (run f es))) =
    map (fun e => extract (fields (fk f)) (eitems e)) (accepted es (snd (run f es))) /\
  (Forall (row_conforms (frame_schema (fk f))) (frows f) ->
   Forall (row_conforms (frame_schema (fk f))) (frows (fst (run f es)))) /\
  (forall s, fk f = FSchema s ->
     forall e, In e es -> (In e (accepted es (snd (run f es))) <-> conforms s (eitems e) /\ sizable (names s) (eitems e))) /\
  (forall ns, fk f = FNames ns ->
     forall e, In e es -> (In e (accepted es (snd (run f es))) <-> sizable ns (eitems e))).
Proof.
  intros es f HD.
  assert (D : forall e, In e es -> is_mapping e = true).
  { intros e He. rewrite forallb_forall in HD. exact (HD e He). }
  assert (A : forall e, In e (accepted es (snd (run f es))) -> is_mapping e = true /\ snd (append f e) = AOk).
  { intros e He. apply accepted_In in He. destruct He as [H1 H2]. split; [apply D; exact H1 | exact H2]. }
  split; [|split; [|split]].
  - apply map_ext_in. intros e He. destruct (A e He) as [K O].
    exact (proj1 (append_mapping_row f e K O)).
  - intros H0. destruct (history_rows es f) as [_ [_ R]]. rewrite R. apply Forall_app. split; [exact H0|].
    apply Forall_forall. intros rw Hrw. apply in_map_iff in Hrw. destruct Hrw as [e [Hb He]]. subst rw.
    destruct (A e He) as [K O]. exact (proj1 (proj2 (append_mapping_row f e K O))).
  - intros s Hs e He. rewrite accepted_In. rewrite (append_accepts_iff f s e Hs (D e He)).
    split; [intros [_ H]; exact H | intros H; split; [exact He | exact H]].
  - intros ns Hs e He. rewrite accepted_In. rewrite (append_names_accepts_iff f ns e Hs (D e He)).
    split; [intros [_ H]; exact H | intros H; split; [exact He | exact H]].
Qed.

Definition aok (o : aout) : bool := match o with AOk => true | ARaise _ => false end.

(* the accepted entries are the entries whose append succeeds, in their original order *)
Lemma accepted_filter : forall es f,
  accepted es (snd (run f es)) = filter (fun e => aok (snd (append f e))) es.
Proof.
  induction es as [|a es IH]; intros f.
  - reflexivity.
  - rewrite run_cons. cbn [snd filter].
    assert (K : fk (fst (append f a)) = fk f).
    { destruct (append_cases f a) as [[x E]|[E _]]; rewrite E; reflexivity. }
    assert (X : filter (fun e => aok (snd (append (fst (append f a)) e))) es =
                filter (fun e => aok (snd (append f e))) es).
    { apply filter_ext. intros e. rewrite (append_out_schema_only _ f e K). reflexivity. }
    destruct (snd (append f a)) eqn:EA; cbn [accepted aok]; rewrite IH, X; reflexivity.
Qed.

(* the history statement for the three ways a frame is created *)
Lemma history_init : forall (i : init) (es : list entry),
  forallb is_mapping es = true ->
  let f0 := init_frame i in
  let f' := fst (run f0 es) in
  let acc := accepted es (snd (run f0 es)) in
  fk f' = fk f0 /\
  length (snd (run f0 es)) = length es /\
  acc = filter (fun e => aok (snd (append f0 e))) es /\
  frows f' = frows f0 ++ map (fun e => extract (fields (fk f0)) (eitems e)) acc /\
  (forall s, fk f0 = FSchema s -> forall e, In e es ->
     (In e acc <-> conforms s (eitems e) /\ sizable (names s) (eitems e))) /\
  (forall ns, fk f0 = FNames ns -> forall e, In e es -> (In e acc <-> sizable ns (eitems e))) /\
  (match i with
   | IRows _ rows | INames _ rows => Forall (row_conforms (frame_schema (fk f0))) rows
   | IDicts _ => True
   end -> Forall (row_conforms (frame_schema (fk f0))) (frows f')).
Proof.
  intros i es HD f0 f' acc. subst f' acc.
  destruct (history_rows es f0) as [K [Ln R]].
  destruct (history_mapping es f0 HD) as [B [C [S Nm]]].
  split; [exact K|]. split; [exact Ln|]. split; [apply accepted_filter|].
  split; [rewrite R, B; reflexivity|]. split; [exact S|]. split; [exact Nm|].
  intros H0. apply C. subst f0. destruct i as [s rows|ns rows|ds].
  - exact H0.
  - exact H0.
  - apply idicts_rows_conform.
Qed.

(* ===================================================================================== *)
(* the regenerated tables, by name                                                       *)

Definition name_of (l : list (N * string)) (i : N) : string :=
  match assoc i l with Some s => s | None => EmptyString end.

(* ORSO_TO_PYTHON_MAP as (type name, class name or None) *)
Definition named_type_class_table : list (string * option string) :=
  map (fun tc => (name_of type_names (fst tc), option_map (name_of class_names) (snd tc))) type_class_table.

Definition class_ids : list N := map fst class_names.
Definition type_ids : list N := map fst type_names.

Definition accepts (t c : N) : bool :=
  match type_class t with HasClass k => isinst c k | _ => false end.

(* the type x value-class decision table: every (type, class of the value) pair validate accepts *)
Definition accepted_pairs : list (string * string) :=
  flat_map (fun t => map (fun c => (name_of type_names t, name_of class_names c))
                         (filter (accepts t) class_ids)) type_ids.

Lemma subclass_matrix_preorder :
  (forall c, In c class_ids -> isinst c c = true) /\
  (forall a b c, In a class_ids -> In b class_ids -> In c class_ids ->
     isinst a b = true -> isinst b c = true -> isinst a c = true).
Proof.
  split.
  - assert (H : forallb (fun c => isinst c c) class_ids = true) by (vm_compute; reflexivity).
    rewrite forallb_forall in H. exact H.
  - assert (H : forallb (fun a => forallb (fun b => forallb (fun c =>
               implb (isinst a b && isinst b c) (isinst a c)) class_ids) class_ids) class_ids = true)
      by (vm_compute; reflexivity).
    intros a b c Ha Hb Hc H1 H2.
    rewrite forallb_forall in H. specialize (H a Ha).
    rewrite forallb_forall in H. specialize (H b Hb).
    rewrite forallb_forall in H. specialize (H c Hc).
    rewrite H1, H2 in H. cbn [andb implb] in H. exact H.
Qed.

Lemma type_class_table_pinned :
  named_type_class_table =
  [("ARRAY", Some "builtins.list"); ("BLOB", Some "builtins.bytes"); ("BOOLEAN", Some "builtins.bool");
   ("DATE", Some "datetime.date"); ("DECIMAL", Some "decimal.Decimal"); ("DOUBLE", Some "builtins.float");
   ("INTEGER", Some "builtins.int"); ("INTERVAL", Some "datetime.timedelta"); ("STRUCT", Some "builtins.dict");
   ("TIMESTAMP", Some "datetime.datetime"); ("TIME", Some "datetime.time"); ("VARCHAR", Some "builtins.str");
   ("NULL", None); ("JSONB", Some "builtins.bytes")]%string.
Proof. vm_compute. reflexivity. Qed.

Lemma decision_table_pinned :
  accepted_pairs =
  [("ARRAY", "builtins.list"); ("ARRAY", "props.C05._MyList");
   ("BLOB", "builtins.bytes"); ("BLOB", "numpy.bytes_"); ("BLOB", "props.C05._MyBytes");
   ("BOOLEAN", "builtins.bool");
   ("DATE", "datetime.date"); ("DATE", "datetime.datetime"); ("DATE", "props.C05._MyDate");
   ("DECIMAL", "decimal.Decimal");
   ("DOUBLE", "builtins.float"); ("DOUBLE", "numpy.float64"); ("DOUBLE", "props.C05._MyFloat");
   ("INTEGER", "builtins.bool"); ("INTEGER", "builtins.int"); ("INTEGER", "props.C05._MyInt"); ("INTEGER", "props.C05._Colour");
   ("INTERVAL", "datetime.timedelta");
   ("STRUCT", "builtins.dict"); ("STRUCT", "collections.OrderedDict");
   ("TIMESTAMP", "datetime.datetime");
   ("TIME", "datetime.time");
   ("VARCHAR", "builtins.str"); ("VARCHAR", "numpy.str_"); ("VARCHAR", "props.C05._MyStr");
   ("JSONB", "builtins.bytes"); ("JSONB", "numpy.bytes_"); ("JSONB", "props.C05._MyBytes")]%string.
Proof. vm_compute. reflexivity. Qed.

(* the decision table is what validate does on a one-column schema *)
Lemma decision_table_is_validate : forall n t nl cls i p,
  validate [mkcol n (Some t) nl] [(n, VObj cls i p)] = VOk <-> accepts t cls = true.
Proof.
  intros n t nl cls i p. unfold validate, extra_keys, names, keys, mem. cbn [map fst cname filter existsb].
  rewrite N.eqb_refl. cbn [orb negb]. unfold vloop, check_col, lookup. cbn [assoc cname ctype].
  rewrite N.eqb_refl. unfold accepts.
  destruct (type_class t) as [k| |].
  - destruct (isinst cls k); cbn [finish app]; split; intros H; try reflexivity; discriminate.
  - split; discriminate.
  - split; discriminate.
Qed.

(* ===================================================================================== *)
(* witnesses                                                                             *)

(* what fix 421aa6e bought: with the store step before the size step a raising append leaves a row behind *)
Lemma store_before_size_not_atomic :
  exists f e x,
    snd (append_store_first f e) = ARaise x /\ frows (fst (append_store_first f e)) <> frows f /\
    snd (append f e) = ARaise x /\ fst (append f e) = f.
Proof.
  exists (init_frame (IRows [mkcol 0%N None true] [])), (mkent KDict [(0%N, VObj 0%N 7%Z false)]), (AExn TypeError).
  split; [vm_compute; reflexivity|]. split; [vm_compute; discriminate|].
  split; vm_compute; reflexivity.
Qed.

(* ===================================================================================== *)
(* sessions: schema objects used, changed in place, used again (round 3)                 *)

(* the columns of every schema object after the in-place changes among ops - uses (validate, frame
   creation, append) do not enter *)
Fixpoint objs_after (objs : list schema) (ops : list sop) : list schema :=
  match ops with
  | [] => objs
  | SMutate o m :: rest => objs_after (update_nth o (apply_mut m) objs) rest
  | _ :: rest => objs_after objs rest
  end.

Definition is_mutation (op : sop) : bool := match op with SMutate _ _ => true | _ => false end.

(* the frame was made from its schema object's present columns (no change of that object since) *)
Definition fresh (st : sstate) : Prop :=
  match sframe st with
  | Some (o, f) => fk f = FSchema (obj st o)
  | None => True
  end.

Lemma srun_cons : forall st op ops,
  srun st (op :: ops) =
  (fst (srun (fst (sstep st op)) ops), snd (sstep st op) :: snd (srun (fst (sstep st op)) ops)).
Proof.
  intros st op ops. cbn [srun]. destruct (sstep st op) as [st1 x]. cbn [fst snd].
  destruct (srun st1 ops) as [st2 xs]. reflexivity.
Qed.

Lemma sstep_objs : forall st op,
  sobjs (fst (sstep st op)) = objs_after (sobjs st) [op].
Proof.
  intros st op. destruct op as [o e|o m|o|e]; cbn [sstep objs_after fst sobjs]; try reflexivity.
  destruct (sframe st) as [[o f]|]; [|reflexivity].
  destruct (append_with (obj st o) f e) as [f1 a]. reflexivity.
Qed.

Lemma objs_after_cons : forall objs op ops,
  objs_after objs (op :: ops) = objs_after (objs_after objs [op]) ops.
Proof. intros objs op ops. destruct op; reflexivity. Qed.

Lemma srun_objs : forall ops st,
  sobjs (fst (srun st ops)) = objs_after (sobjs st) ops.
Proof.
  induction ops as [|op ops IH]; intros st.
  - reflexivity.
  - rewrite srun_cons. cbn [fst]. rewrite IH, sstep_objs. symmetry. apply objs_after_cons.
Qed.

Lemma objs_after_mutations_only : forall ops objs,
  objs_after objs (filter is_mutation ops) = objs_after objs ops.
Proof.
  induction ops as [|op ops IH]; intros objs; [reflexivity|].
  destruct op; cbn [filter is_mutation objs_after]; apply IH.
Qed.

(* a validation at any point of any session is decided by the object's columns as they are then *)
Lemma session_validate_current : forall st pre o e,
  snd (sstep (fst (srun st pre)) (SValidate o e)) =
  SOVerdict (validate_entry (nth o (objs_after (sobjs st) pre) []) e).
Proof.
  intros st pre o e. cbn [sstep snd]. unfold obj. rewrite srun_objs. reflexivity.
Qed.

(* ... so earlier uses (of this or any other object) do not matter: only the in-place changes do *)
Lemma session_uses_do_not_matter : forall st pre o e,
  snd (sstep (fst (srun st pre)) (SValidate o e)) =
  snd (sstep (fst (srun (mkss (sobjs st) None) (filter is_mutation pre))) (SValidate o e)).
Proof.
  intros st pre o e. rewrite !session_validate_current. cbn [sobjs].
  rewrite objs_after_mutations_only. reflexivity.
Qed.

Lemma append_with_same : forall vs f e, fk f = FSchema vs -> append_with vs f e = append f e.
Proof.
  intros vs f e H. unfold append_with, append, step_validate. rewrite H.
  destruct (validate_entry vs e); reflexivity.
Qed.

Lemma append_with_atomic : forall vs f e x,
  snd (append_with vs f e) = ARaise x -> fst (append_with vs f e) = f.
Proof.
  intros vs f e x. unfold append_with. destruct (validate_entry vs e); cbn [fst snd]; try reflexivity.
  destruct (step_build f e) as [rw|y]; cbn [fst snd]; try reflexivity.
  destruct (step_size rw) as [[]|y]; cbn [fst snd]; [discriminate | reflexivity].
Qed.

Lemma append_with_fk : forall vs f e, fk (fst (append_with vs f e)) = fk f.
Proof.
  intros vs f e. unfold append_with. destruct (validate_entry vs e); cbn [fst]; try reflexivity.
  destruct (step_build f e) as [rw|y]; cbn [fst]; try reflexivity.
  destruct (step_size rw) as [[]|y]; reflexivity.
Qed.

(* an append at any point of any session validates against its schema object's columns as they are then *)
Lemma session_append_current : forall st pre o f e,
  sframe (fst (srun st pre)) = Some (o, f) ->
  snd (sstep (fst (srun st pre)) (SAppend e)) =
  SOAppend (snd (append_with (nth o (objs_after (sobjs st) pre) []) f e))
           (fst (append_with (nth o (objs_after (sobjs st) pre) []) f e)).
Proof.
  intros st pre o f e H. cbn [sstep]. rewrite H. unfold obj. rewrite srun_objs.
  destruct (append_with (nth o (objs_after (sobjs st) pre) []) f e) as [f1 a]. reflexivity.
Qed.

(* a frame made from the object's present columns appends exactly as the frames of the history theorems *)
Lemma session_fresh_append : forall st o f e,
  fresh st -> sframe st = Some (o, f) ->
  sstep st (SAppend e) =
  (mkss (sobjs st) (Some (o, fst (append f e))), SOAppend (snd (append f e)) (fst (append f e))).
Proof.
  intros st o f e HF HS. unfold fresh in HF. rewrite HS in HF. cbn [sstep]. rewrite HS.
  rewrite (append_with_same _ f e HF). destruct (append f e) as [f1 a]. reflexivity.
Qed.

(* making a frame establishes freshness; uses keep it; only an in-place change can end it *)
Lemma fresh_step : forall st op,
  match op with
  | SMutate _ _ => True
  | SNewFrame _ => fresh (fst (sstep st op))
  | _ => fresh st -> fresh (fst (sstep st op))
  end.
Proof.
  intros st op. destruct op as [o e|o m|o|e].
  - intros H. exact H.
  - exact I.
  - unfold fresh. cbn [sstep fst sframe]. unfold obj. reflexivity.
  - intros H. unfold fresh in *. cbn [sstep]. destruct (sframe st) as [[o f]|] eqn:HS.
    + destruct (append_with (obj st o) f e) as [f1 a] eqn:EA. cbn [fst sframe]. unfold obj in *. cbn [sobjs].
      assert (K := append_with_fk (nth o (sobjs st) []) f e). rewrite EA in K. cbn [fst] in K. rewrite K. exact H.
    + cbn [fst]. rewrite HS. exact I.
Qed.

(* a raising append leaves the session's frame as it was - stale or not *)
Lemma session_append_atomic : forall st o f e a f1,
  sframe st = Some (o, f) ->
  snd (sstep st (SAppend e)) = SOAppend a f1 -> (exists x, a = ARaise x) -> f1 = f /\ fst (sstep st (SAppend e)) = st.
Proof.
  intros st o f e a f1 HS HO [x Hx]. cbn [sstep] in *. rewrite HS in *.
  destruct (append_with (obj st o) f e) as [f2 a2] eqn:EA. cbn [fst snd] in *.
  inversion HO. subst a2 f2. subst a.
  assert (A := append_with_atomic (obj st o) f e x). rewrite EA in A. cbn [fst snd] in A.
  specialize (A eq_refl). subst f1. split; [reflexivity|].
  destruct st as [objs fr]. cbn [sobjs sframe] in *. rewrite HS. reflexivity.
Qed.

(* ===================================================================================== *)
(* round 4: attributes of a column other than name / type / nullable                     *)

(* a null in a non-nullable column is always named - the conditions are on the column's core only *)
Lemma null_in_non_nullable_named : forall (s : schema) (r : record) (c : column),
  In c s -> lookup (cname c) r = Some VNone -> cnullable c = false ->
  extra_keys s r = [] -> first_raise r s = None ->
  validate s r = VErrors (missing_cols s r) (notnull_cols s r) (wrong_cols s r) /\
  In (cname c) (notnull_cols s r).
Proof.
  intros s r c Hin Hl Hn He Hf.
  assert (I : In (cname c) (notnull_cols s r)).
  { unfold notnull_cols. apply in_map. apply filter_In. split; [exact Hin|].
    apply null_violation_iff. split; assumption. }
  split; [|exact I]. rewrite validate_spec, He, Hf.
  destruct (finish_cases (missing_cols s r) (notnull_cols s r) (wrong_cols s r)) as [[_ [Nn _]]|[_ F]].
  - rewrite Nn in I. contradiction.
  - exact F.
Qed.

Lemma null_in_non_nullable_never_ok : forall (s : schema) (r : record) (c : column),
  In c s -> lookup (cname c) r = Some VNone -> cnullable c = false -> validate s r <> VOk.
Proof.
  intros s r c Hin Hl Hn H. apply validate_ok_iff_conforms in H. destruct H as [_ H].
  destruct (H c Hin) as [v [Hv Hf]]. rewrite Hl in Hv. inversion Hv. subst v.
  unfold value_fits in Hf. congruence.
Qed.

(* ===================================================================================== *)
(* round 6: what an operation reported is not changed by later operations                 *)

Lemma run_app : forall es f more,
  snd (run f (es ++ more)) = snd (run f es) ++ snd (run (fst (run f es)) more).
Proof.
  induction es as [|e es IH]; intros f more.
  - reflexivity.
  - cbn [app]. rewrite !run_cons. cbn [fst snd app]. rewrite IH. reflexivity.
Qed.

Lemma srun_app : forall ops st more,
  snd (srun st (ops ++ more)) = snd (srun st ops) ++ snd (srun (fst (srun st ops)) more).
Proof.
  induction ops as [|op ops IH]; intros st more.
  - reflexivity.
  - cbn [app]. rewrite !srun_cons. cbn [fst snd app]. rewrite IH. reflexivity.
Qed.

Lemma outcomes_are_final :
  (forall f es more, firstn (length es) (snd (run f (es ++ more))) = snd (run f es)) /\
  (forall st ops more, firstn (length ops) (snd (srun st (ops ++ more))) = snd (srun st ops)).
Proof.
  split.
  - intros f es more. rewrite run_app.
    assert (L : length (snd (run f es)) = length es) by (apply (history_rows es f)).
    rewrite <- L. rewrite firstn_app, Nat.sub_diag, firstn_O, app_nil_r. apply firstn_all.
  - intros st ops more. rewrite srun_app.
    assert (L : forall ops st, length (snd (srun st ops)) = length ops).
    { induction ops0 as [|op ops0 IH]; intros st0; [reflexivity|]. rewrite srun_cons. cbn [snd length]. rewrite IH. reflexivity. }
    rewrite <- (L ops st). rewrite firstn_app, Nat.sub_diag, firstn_O, app_nil_r. apply firstn_all.
Qed.

(* ===================================================================================== *)
(* Round 7: two frames made from one (empty) rows argument are separate values            *)

Lemma twin_run_cons : forall fs x xs,
  twin_run fs (x :: xs) =
  (fst (twin_run (fst (twin_step fs x)) xs), snd (twin_step fs x) :: snd (twin_run (fst (twin_step fs x)) xs)).
Proof.
  intros fs x xs. cbn [twin_run]. destruct (twin_step fs x) as [fs1 o]. cbn [fst snd].
  destruct (twin_run fs1 xs) as [fs2 os]. reflexivity.
Qed.

Lemma twin_step_true : forall f0 f1 e,
  twin_step (f0, f1) (true, e) = ((f0, fst (append f1 e)), snd (append f1 e)).
Proof. intros. cbn [twin_step]. destruct (append f1 e). reflexivity. Qed.

Lemma twin_step_false : forall f0 f1 e,
  twin_step (f0, f1) (false, e) = ((fst (append f0 e), f1), snd (append f0 e)).
Proof. intros. cbn [twin_step]. destruct (append f0 e). reflexivity. Qed.

(* each frame ends as if only its own entries had been appended to it, alone *)
Lemma twin_frames_independent : forall xs f0 f1,
  fst (twin_run (f0, f1) xs) = (fst (run f0 (twin_sel false xs)), fst (run f1 (twin_sel true xs))).
Proof.
  induction xs as [|[b e] xs IH]; intros f0 f1.
  - reflexivity.
  - rewrite twin_run_cons. cbn [fst].
    destruct b.
    + rewrite twin_step_true. cbn [fst]. rewrite IH.
      unfold twin_sel. cbn [filter fst snd Bool.eqb map]. rewrite run_cons. reflexivity.
    + rewrite twin_step_false. cbn [fst]. rewrite IH.
      unfold twin_sel. cbn [filter fst snd Bool.eqb map]. rewrite run_cons. reflexivity.
Qed.

(* the outcomes addressed to a frame are the outcomes of its own history *)
Fixpoint twin_outs (b : bool) (xs : list (bool * entry)) (os : list aout) : list aout :=
  match xs, os with
  | x :: xs', o :: os' => if Bool.eqb (fst x) b then o :: twin_outs b xs' os' else twin_outs b xs' os'
  | _, _ => []
  end.

Lemma twin_outcomes_own : forall xs f0 f1,
  twin_outs false xs (snd (twin_run (f0, f1) xs)) = snd (run f0 (twin_sel false xs)) /\
  twin_outs true xs (snd (twin_run (f0, f1) xs)) = snd (run f1 (twin_sel true xs)).
Proof.
  induction xs as [|[b e] xs IH]; intros f0 f1.
  - split; reflexivity.
  - rewrite twin_run_cons. cbn [snd].
    destruct b.
    + rewrite twin_step_true. cbn [fst snd]. destruct (IH f0 (fst (append f1 e))) as [A B].
      unfold twin_sel. cbn [twin_outs filter fst snd Bool.eqb map]. rewrite run_cons. cbn [snd].
      split; [exact A | f_equal; exact B].
    + rewrite twin_step_false. cbn [fst snd]. destruct (IH (fst (append f0 e)) f1) as [A B].
      unfold twin_sel. cbn [twin_outs filter fst snd Bool.eqb map]. rewrite run_cons. cbn [snd].
      split; [f_equal; exact A | exact B].
Qed.

(* one step: the frame that is not addressed is untouched; a raising append leaves both as they were *)
Lemma twin_step_local : forall (f0 f1 : frame) (b : bool) (e : entry),
  (if b then fst (fst (twin_step (f0, f1) (b, e))) = f0 else snd (fst (twin_step (f0, f1) (b, e))) = f1) /\
  (forall x, snd (twin_step (f0, f1) (b, e)) = ARaise x -> fst (twin_step (f0, f1) (b, e)) = (f0, f1)).
Proof.
  intros f0 f1 b e. destruct b.
  - rewrite twin_step_true. cbn [fst snd]. split; [reflexivity|]. intros x H. rewrite (append_atomic _ _ _ H). reflexivity.
  - rewrite twin_step_false. cbn [fst snd]. split; [reflexivity|]. intros x H. rewrite (append_atomic _ _ _ H). reflexivity.
Qed.
