(* C18 - the line builders: every box line is well-formed markup of the table's width. *)
From Coq Require Import String.
From Coq Require Import List NArith ZArith Bool Arith Lia.
From Orso Require Import Gen.C18_Tables Model.C18 Proofs.C18_Select Proofs.C18_Width.
Import ListNotations.
Local Open Scope list_scope.

(* ---------- generic ---------- *)
Lemma mapM_Forall2 {A B} (f : A -> result B) l ys :
  mapM f l = Ok ys -> Forall2 (fun x y => f x = Ok y) l ys.
Proof.
  revert ys; induction l as [|x l IH]; intros ys H; cbn [mapM] in H.
  - injection H as <-. constructor.
  - destruct (f x) as [y|e] eqn:E; cbn [bind] in H; [|discriminate].
    destruct (mapM f l) as [ys'|e] eqn:E'; cbn [bind] in H; [|discriminate].
    injection H as <-. constructor; [exact E|apply IH; reflexivity].
Qed.

Lemma mapM_total {A B} (f : A -> result B) l :
  (forall x, In x l -> exists y, f x = Ok y) -> exists ys, mapM f l = Ok ys.
Proof.
  induction l as [|x l IH]; intros H; cbn [mapM]; [eexists; reflexivity|].
  destruct (H x (or_introl eq_refl)) as [y ->]. cbn [bind].
  destruct IH as [ys ->]; [intros; apply H; now right|]. cbn [bind]. eexists; reflexivity.
Qed.

Lemma mapM_raise {A B} (f : A -> result B) l e :
  mapM f l = Raise e -> exists x, In x l /\ f x = Raise e.
Proof.
  induction l as [|x l IH]; intros H; cbn [mapM] in H; [discriminate|].
  destruct (f x) as [y|e'] eqn:E; cbn [bind] in H.
  - destruct (mapM f l) as [ys|e''] eqn:E'; cbn [bind] in H; [discriminate|].
    injection H as ->. destruct (IH eq_refl) as (x' & Hx & Hf). exists x'. split; [now right|exact Hf].
  - injection H as ->. exists x. split; [now left|exact E].
Qed.

(* ---------- joins ---------- *)
Lemma wf_join3 sep cells ws :
  wf sep 3 -> Forall2 wf cells ws -> wf (join sep cells) (joinw ws).
Proof.
  intros Hs H. induction H as [|x w cells ws Hx Hr IH]; cbn [join joinw]; [exact wf_nil|].
  destruct Hr as [|y w' cells' ws' Hy Hr'].
  - exact Hx.
  - eapply wf_cast; [apply wf_app; [exact Hx|apply wf_app; [exact Hs|exact IH]]|lia].
Qed.

Lemma wf_single c : wfb [c] 1 = true -> wf [c] 1.
Proof. apply wfb_wf. Qed.

Lemma wf_two a b : wf [a] 1 -> wf [b] 1 -> wf [a; b] 2.
Proof. intros Ha Hb. exact (wf_app [a] [b] 1 1 Ha Hb). Qed.
Lemma wf_three a b c : wf [a] 1 -> wf [b] 1 -> wf [c] 1 -> wf [a; b; c] 3.
Proof. intros Ha Hb Hc. exact (wf_app [a] [b; c] 1 2 Ha (wf_two b c Hb Hc)). Qed.

Lemma wf_BAR : wf [BAR] 1. Proof. apply wfb_wf. vm_compute. reflexivity. Qed.
Lemma wf_SP : wf [32%N] 1. Proof. apply wfb_wf. vm_compute. reflexivity. Qed.
Lemma wf_SEP : wf [32%N; BAR; 32%N] 3.
Proof. apply wf_three; [exact wf_SP|exact wf_BAR|exact wf_SP]. Qed.

Lemma wf_rule l m r fill iw ws :
  wfb [l] 1 = true -> wfb [m] 1 = true -> wfb [r] 1 = true -> wfb [fill] 1 = true ->
  wf (rule l m r fill iw ws) (iw + 5 + joinw ws).
Proof.
  intros Hl Hm Hr Hf. pose proof (wf_single _ Hl) as Wl. pose proof (wf_single _ Hm) as Wm.
  pose proof (wf_single _ Hr) as Wr. pose proof (wf_single _ Hf) as Wf.
  unfold rule.
  assert (J : wf (join [fill; m; fill] (map (repeat fill) ws)) (joinw ws)).
  { apply wf_join3; [exact (wf_three _ _ _ Wf Wm Wf)|].
    induction ws as [|w ws IH]; cbn [map]; constructor; [apply (wf_repeat fill w Hf)|exact IH]. }
  eapply wf_cast.
  - apply wf_app; [exact Wl|]. apply wf_app; [apply (wf_repeat fill iw Hf)|].
    apply wf_app; [exact (wf_two _ _ Wm Wf)|].
    apply wf_app; [exact J|exact (wf_two _ _ Wf Wr)].
  - lia.
Qed.

Lemma wf_head_line tk iw cells ws :
  wf (tok tk) 0 -> Forall pascii cells -> length cells = length ws ->
  wf (head_line tk iw cells ws) (iw + 5 + joinw ws).
Proof.
  intros Ht Hc Hl. unfold head_line.
  assert (J : wf (join [32%N; BAR; 32%N]
                   (map (fun vw => tok tk ++ take (snd vw) (center (snd vw) (fst vw)) ++ OFF) (combine cells ws)))
                 (joinw ws)).
  { apply wf_join3; [exact wf_SEP|].
    revert ws Hl. induction Hc as [|c cells Hc1 Hc2 IH]; intros [|w ws] Hl; cbn [length] in Hl; try discriminate;
      cbn [combine map]; constructor.
    + cbn [fst snd]. apply wf3; [exact Ht|now apply wf_take_center|exact wf_OFF].
    + apply IH. lia. }
  eapply wf_cast.
  - apply wf_app; [exact wf_BAR|]. apply wf_app; [apply wf_spaces|].
    apply wf_app; [exact (wf_two _ _ wf_BAR wf_SP)|].
    apply wf_app; [exact J|exact (wf_two _ _ wf_SP wf_BAR)].
  - lia.
Qed.

Lemma format_row_wf r ws cells :
  Forall pcell r -> Forall (fun w => 1 <= w) ws -> length r = length ws ->
  format_row r ws = Ok cells -> Forall2 wf cells ws.
Proof.
  unfold format_row. intros Hr Hw Hl H. apply mapM_Forall2 in H.
  revert ws cells Hw Hl H. induction Hr as [|c r Hc Hr IH]; intros [|w ws] cells Hw Hl H; cbn [length] in Hl; try discriminate;
    cbn [combine] in H; inversion H; subst; constructor.
  - cbn [fst snd] in *. inversion Hw; subst. eapply type_formatter_wf; eauto.
  - inversion Hw; subst. apply IH; auto.
Qed.

Lemma wf_row_line iw label cells ws :
  Forall2 wf cells ws -> 1 <= iw -> length (dec_nat label) <= iw - 1 ->
  wf (row_line iw label cells) (iw + 5 + joinw ws).
Proof.
  intros Hc Hi Hlab. unfold row_line.
  eapply wf_cast.
  - apply wf_app; [exact wf_BAR|]. apply wf_app; [exact wf_TYPE|].
    apply wf_app; [apply wf_pascii, pascii_rjust, pascii_dec_nat|].
    apply wf_app; [exact wf_OFF|]. apply wf_app; [exact wf_SEP|].
    apply wf_app; [apply wf_join3; [exact wf_SEP|exact Hc]|exact (wf_two _ _ wf_SP wf_BAR)].
  - rewrite rjust_length. lia.
Qed.

(* ---------- column widths ---------- *)
Lemma zip3_length {A B C} (a : list A) (b : list B) (c : list C) n :
  length a = n -> length b = n -> length c = n -> length (zip3 a b c) = n.
Proof.
  revert a b c; induction n as [|n IH]; intros [|x a] [|y b] [|z c] Ha Hb Hc; cbn in *; try discriminate; auto.
Qed.

Lemma zip3_In {A B C} (a : list A) (b : list B) (c : list C) x y z :
  In (x, y, z) (zip3 a b c) -> In x a /\ In y b /\ In z c.
Proof.
  revert b c; induction a as [|x' a IH]; intros [|y' b] [|z' c] H; cbn [zip3 In] in H; try contradiction; destruct H as [H|H].
  - injection H as -> -> ->. repeat split; now left.
  - destruct (IH _ _ H) as (H1 & H2 & H3). repeat split; now right.
Qed.

Lemma fold_dw_ge t i m :
  m <= fold_left (fun m r => match nth_error r i with
                             | Some c => if is_none c then m else Nat.max m (length (cell_str c))
                             | None => m end) t m.
Proof.
  revert m; induction t as [|r t IH]; intros m; cbn [fold_left]; [lia|].
  etransitivity; [|apply IH]. destruct (nth_error r i) as [c|]; [|lia]. destruct (is_none c); lia.
Qed.

Lemma data_width_ge t i : 4 <= data_width t i.
Proof. unfold data_width. apply fold_dw_ge. Qed.

Definition names_ok (f : frame) : Prop :=
  match ctypes f with Some cts => length cts = length (names f) | None => True end.

Lemma col_types_length f : names_ok f -> length (col_types f) = length (names f).
Proof. unfold names_ok, col_types. destruct (ctypes f); intros H; rewrite map_length; auto. Qed.

Lemma col_widths_length f cfg t : names_ok f -> length (col_widths f cfg t) = length (names f).
Proof.
  intros H. unfold col_widths. rewrite map_length. apply zip3_length.
  - apply map_length.
  - destruct (show_types cfg); rewrite map_length; now apply col_types_length.
  - rewrite map_length, seq_length. reflexivity.
Qed.

Lemma col_widths_pos f cfg t : 1 <= mcw cfg -> Forall (fun w => 1 <= w) (col_widths f cfg t).
Proof.
  intros Hm. unfold col_widths. apply Forall_forall. intros w Hw.
  apply in_map_iff in Hw. destruct Hw as ([[a b] c] & <- & Hin).
  apply zip3_In in Hin. destruct Hin as (_ & _ & Hc).
  apply in_map_iff in Hc. destruct Hc as (i & <- & _).
  pose proof (data_width_ge t i). lia.
Qed.

(* ---------- labels fit the index column ---------- *)
Section Labels.
Context {A : Type}.

Lemma In_LRow_labels (ls : list (line A)) lab r : In (LRow lab r) ls -> In lab (labels_of ls).
Proof.
  unfold labels_of. intros H. apply in_flat_map. exists (LRow lab r). split; [exact H|now left].
Qed.

Lemma label_fits (l : list A) (limit : nat) (tt lz : bool) lab r :
  1 <= limit ->
  In (LRow lab r) (shown_lines l limit tt lz) ->
  length (dec_nat lab) <= index_width l limit tt lz - 1.
Proof.
  intros Hl H. destruct (label_le_length _ _ _ _ _ _ Hl H) as [Hn _].
  unfold index_width. destruct lz.
  - destruct tt.
    + (* lazy top and tail: lazy_length >= n *)
      unfold select_rows. destruct (limit =? 0) eqn:E0; [apply Nat.eqb_eq in E0; lia|].
      cbn [negb andb snd]. rewrite skipn_length, firstn_length.
      assert (lab <= length l - limit - 1 + (Nat.min limit (length l) + 1) + 1) by lia.
      pose proof (dec_nat_length_mono _ _ H0). lia.
    + (* lazy head-only: lazy_length + 1 = rows shown *)
      unfold select_rows. destruct (limit =? 0) eqn:E0; [apply Nat.eqb_eq in E0; lia|].
      cbn [negb snd]. rewrite firstn_length.
      destruct (shown_rows_labels_ellipsis l limit false true Hl) as [H1 _].
      destruct (H1 eq_refl) as (_ & Hlab & _).
      apply In_LRow_labels in H. rewrite Hlab in H. apply in_seq in H.
      assert (lab <= Nat.min limit (length l) - 1 + 1) by lia.
      pose proof (dec_nat_length_mono _ _ H0). lia.
  - pose proof (dec_nat_length_mono _ _ Hn). lia.
Qed.
End Labels.

(* ---------- frames ---------- *)
Definition pcoltype (ct : coltype) : Prop :=
  match ct with
  | CtPlain n => pascii n
  | CtArray n e => pascii n /\ match e with Some x => pascii x | None => True end
  | CtDecimal n p s => pascii n /\ match p with Some x => pascii x | None => True end /\ pascii s
  end.

Definition frame_ok (f : frame) : Prop :=
  names_ok f /\ Forall (fun r => length r = length (names f)) (rows f).

Definition pframe (f : frame) : Prop :=
  Forall pascii (names f) /\
  match ctypes f with Some cts => Forall pcoltype cts | None => True end /\
  Forall (Forall pcell) (rows f).

Lemma pascii_coltype_text ct : pcoltype ct -> pascii (coltype_text ct).
Proof.
  destruct ct as [n|n [e|]|n [p|] s]; cbn [pcoltype coltype_text]; intros H; try tauto.
  - destruct H as [_ He]. repeat apply pascii_app; auto; apply pasciib_pascii; reflexivity.
  - destruct H as (_ & Hp & Hs). repeat apply pascii_app; auto; apply pasciib_pascii; reflexivity.
Qed.

Lemma pascii_col_types f : pframe f -> Forall pascii (col_types f).
Proof.
  intros (_ & H & _). unfold col_types. destruct (ctypes f) as [cts|].
  - apply Forall_map. eapply Forall_impl; [|exact H]. exact pascii_coltype_text.
  - apply Forall_map. apply Forall_forall. intros _ _. apply pasciib_pascii. vm_compute. reflexivity.
Qed.

(* every box line _inner yields is well-formed markup exactly table_width wide *)
Theorem inner_box_wf f cfg ls :
  frame_ok f -> pframe f -> 1 <= limit cfg -> 1 <= mcw cfg ->
  inner_tagged f cfg = Ok ls ->
  forall ln, In (KBox, ln) ls -> wf ln (table_width f cfg).
Proof.
  intros [Hn Hrect] Hp Hl Hm H ln Hin.
  unfold inner_tagged in H. unfold table_width.
  set (lz := lazy f) in *.
  set (t := fst (select_rows (rows f) (limit cfg) (top_tail cfg) lz)) in *.
  set (iw := index_width (rows f) (limit cfg) (top_tail cfg) lz) in *.
  set (ws := col_widths f cfg t) in *.
  assert (Hws : length ws = length (names f)) by (apply col_widths_length; exact Hn).
  assert (Hpos : Forall (fun w => 1 <= w) ws) by (apply col_widths_pos; exact Hm).
  assert (Hiw : 1 <= iw) by (unfold iw, index_width; destruct lz; lia).
  destruct (mapM (data_line lz iw ws) (shown_lines (rows f) (limit cfg) (top_tail cfg) lz)) as [body|e] eqn:Eb;
    cbn [bind] in H; [|discriminate].
  injection H as <-.
  pose proof Hp as (Hpn & _ & Hpc).
  assert (R1 : wf (rule 9484 9516 9488 9472 iw ws) (iw + 5 + joinw ws)) by (apply wf_rule; vm_compute; reflexivity).
  assert (R2 : wf (rule 9566 9578 9569 9552 iw ws) (iw + 5 + joinw ws)) by (apply wf_rule; vm_compute; reflexivity).
  assert (R3 : wf (rule 9492 9524 9496 9472 iw ws) (iw + 5 + joinw ws)) by (apply wf_rule; vm_compute; reflexivity).
  assert (H1 : wf (head_line "HEAD" iw (names f) ws) (iw + 5 + joinw ws)).
  { apply wf_head_line; [exact wf_HEAD|exact Hpn|lia]. }
  assert (H2 : wf (head_line "TYPE" iw (col_types f) ws) (iw + 5 + joinw ws)).
  { apply wf_head_line; [exact wf_TYPE|exact (pascii_col_types f Hp)|].
    rewrite col_types_length by exact Hn. lia. }
  cbn [app In] in Hin.
  destruct Hin as [Hin|[Hin|Hin]]; try (injection Hin as <-; assumption).
  apply in_app_or in Hin. destruct Hin as [Hin|Hin].
  { destruct (show_types cfg); [|destruct Hin]. destruct Hin as [Hin|[]]. injection Hin as <-. exact H2. }
  cbn [app In] in Hin. destruct Hin as [Hin|Hin]; [injection Hin as <-; exact R2|].
  apply in_app_or in Hin. destruct Hin as [Hin|Hin].
  2:{ destruct Hin as [Hin|[]]. injection Hin as <-. exact R3. }
  (* a data line *)
  apply mapM_Forall2 in Eb.
  assert (Hb : forall x y, Forall2 (fun x y => data_line lz iw ws x = Ok y) x y ->
               (forall z, In z x -> In z (shown_lines (rows f) (limit cfg) (top_tail cfg) lz)) ->
               In (KBox, ln) y -> wf ln (iw + 5 + joinw ws)).
  { clear Eb Hin. intros x y HF. induction HF as [|a b x y Hab HF IH]; intros Hsub Hy; [destruct Hy|].
    destruct Hy as [Hy|Hy]; [|apply IH; [intros; apply Hsub; now right|exact Hy]].
    subst b. destruct a as [|lab r]; cbn [data_line] in Hab; [discriminate|].
    destruct (format_row r ws) as [cells|e] eqn:Ef; cbn [bind] in Hab; [|discriminate].
    injection Hab as <-.
    pose proof (Hsub _ (or_introl eq_refl)) as Hshown.
    destruct (label_le_length _ _ _ _ _ _ Hl Hshown) as [_ Hr].
    apply wf_row_line; [|exact Hiw|].
    - eapply format_row_wf; [| exact Hpos | | exact Ef].
      + rewrite Forall_forall in Hpc. apply Hpc, Hr.
      + rewrite Forall_forall in Hrect. rewrite (Hrect _ Hr). lia.
    - eapply label_fits; eauto. }
  eapply Hb; [exact Eb|auto|exact Hin].
Qed.

(* the final cut: printed width min(table width, display width) for every box line *)
Theorem box_lines_cut_width f cfg cuts :
  frame_ok f -> pframe f -> 1 <= limit cfg -> 1 <= mcw cfg -> 1 <= dwidth cfg ->
  cut_lines f cfg = Ok cuts ->
  forall ln, In (KBox, ln) cuts -> pw ln = Nat.min (table_width f cfg) (dwidth cfg).
Proof.
  intros Hok Hp Hl Hm Hd H ln Hin. unfold cut_lines in H.
  destruct (inner_tagged f cfg) as [ls|e] eqn:E; cbn [bind] in H; [|discriminate].
  injection H as <-. apply in_map_iff in Hin. destruct Hin as ([k l0] & Heq & Hin0).
  cbn [fst snd] in Heq. injection Heq as -> <-.
  pose proof (inner_box_wf f cfg ls Hok Hp Hl Hm E l0 Hin0) as W.
  apply wf_pw. apply trunc_cut_wf; assumption.
Qed.

(* ---------- totality of the renderings ---------- *)
Lemma inner_tagged_total f cfg : exists ls, inner_tagged f cfg = Ok ls.
Proof.
  unfold inner_tagged.
  destruct (mapM_total (data_line (lazy f)
              (index_width (rows f) (limit cfg) (top_tail cfg) (lazy f))
              (col_widths f cfg (fst (select_rows (rows f) (limit cfg) (top_tail cfg) (lazy f)))))
              (shown_lines (rows f) (limit cfg) (top_tail cfg) (lazy f))) as [body Hb].
  - intros [|lab r] Hin; cbn [data_line]; [eexists; reflexivity|].
    unfold format_row.
    destruct (mapM_total (fun cw => type_formatter (fst cw) (snd cw))
               (combine r (col_widths f cfg (fst (select_rows (rows f) (limit cfg) (top_tail cfg) (lazy f)))))) as [cells Hcells].
    + intros [c w] _. apply type_formatter_total.
    + rewrite Hcells. cbn [bind]. eexists; reflexivity.
  - rewrite Hb. cbn [bind]. eexists; reflexivity.
Qed.

Theorem ascii_table_total f cfg : exists t, ascii_table f cfg = Ok t.
Proof.
  unfold ascii_table, cut_lines.
  destruct (inner_tagged_total f cfg) as [ls ->]. cbn [bind]. eexists; reflexivity.
Qed.

Theorem df_str_total f cols : exists t, df_str f cols = Ok t.
Proof.
  unfold df_str. destruct (ascii_table_total f (str_config cols)) as [t ->].
  cbn [bind]. eexists; reflexivity.
Qed.
