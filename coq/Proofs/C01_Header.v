(* C01 - lemmas, part 1: big-endian fields, the C expression for the length field, and the three header checks of
   from_bytes_cython on records laid out by Row.as_bytes (torn / extended / version / length-field theorems). *)
From Coq Require Import List NArith ZArith Bool Lia ZifyBool ZifyNat ZifyN.
From Orso Require Import Gen.C01_RowFmt Model.C01.
Import ListNotations.
Ltac Zify.zify_post_hook ::= Z.to_euclidean_division_equations.
Open Scope N_scope.

(* ---------- lengths ---------- *)
Lemma len_nil {A} : len (@nil A) = 0. Proof. reflexivity. Qed.
Lemma len_cons {A} (a : A) l : len (a :: l) = N.succ (len l).
Proof. unfold len. cbn [length]. apply Nat2N.inj_succ. Qed.
Lemma len_app {A} (a b : list A) : len (a ++ b) = len a + len b.
Proof. unfold len. rewrite app_length. apply Nat2N.inj_add. Qed.

(* ---------- big-endian ---------- *)
Lemma be_length n x : length (be n x) = n.
Proof. induction n as [|k IH]; cbn [be length]; [reflexivity | now rewrite IH]. Qed.

Lemma rd_be n : forall x acc rest,
  rd n (be n x ++ rest) acc = Some (acc * 256 ^ N.of_nat n + x mod 256 ^ N.of_nat n, rest).
Proof.
  induction n as [|k IH]; intros x acc rest.
  - cbn [be app rd]. change (256 ^ N.of_nat 0) with 1. rewrite N.mod_1_r. f_equal. f_equal. lia.
  - cbn [be app rd]. rewrite IH. f_equal. f_equal.
    rewrite Nat2N.inj_succ, N.pow_succ_r'.
    set (p := 256 ^ N.of_nat k).
    assert (Hp : p <> 0) by (apply N.pow_nonzero; discriminate).
    rewrite (N.mul_comm 256 p).
    rewrite (N.mod_mul_r x p 256) by (assumption || discriminate).
    ring.
Qed.

Lemma rd_be0 n x rest : x < 256 ^ N.of_nat n -> rd n (be n x ++ rest) 0 = Some (x, rest).
Proof. intros H. rewrite rd_be. rewrite N.mod_small by assumption. reflexivity. Qed.

Lemma be4_eq x : be 4 x = [(x / 16777216) mod 256; (x / 65536) mod 256; (x / 256) mod 256; x mod 256].
Proof. cbn [be]. change (256 ^ N.of_nat 3) with 16777216. change (256 ^ N.of_nat 2) with 65536.
  change (256 ^ N.of_nat 1) with 256. change (256 ^ N.of_nat 0) with 1. rewrite N.div_1_r. reflexivity. Qed.

(* ---------- C expression for the length field ---------- *)
Lemma lor_add a b k : a mod 2 ^ k = 0 -> b < 2 ^ k -> N.lor a b = a + b.
Proof.
  intros Ha Hb.
  assert (Hland : N.land a b = 0).
  { apply N.bits_inj. intros i. rewrite N.land_spec, N.bits_0.
    destruct (N.ltb_spec i k) as [Hik|Hik].
    - replace (N.testbit a i) with false; [reflexivity|].
      symmetry. rewrite <- (N.mod_pow2_bits_low a k i Hik). rewrite Ha. apply N.bits_0.
    - replace (N.testbit b i) with false; [apply andb_false_r|].
      symmetry. destruct (N.eq_dec b 0) as [->|Hb0]; [apply N.bits_0|].
      apply N.bits_above_log2. apply N.log2_lt_pow2; [lia|].
      eapply N.lt_le_trans; [exact Hb|]. apply N.pow_le_mono_r; [discriminate|exact Hik]. }
  rewrite <- N.lxor_lor by exact Hland. symmetry. apply N.add_nocarry_lxor. exact Hland.
Qed.

Definition field_value (c2 c3 c4 c5 : N) : N := c2 * 16777216 + c3 * 65536 + c4 * 256 + c5.

Lemma record_size_bytes a0 a1 c2 c3 c4 c5 tl :
  c2 < 256 -> c3 < 256 -> c4 < 256 -> c5 < 256 ->
  record_size (a0 :: a1 :: c2 :: c3 :: c4 :: c5 :: tl) = wrap32 (Z.of_N (field_value c2 c3 c4 c5)).
Proof.
  intros H2 H3 H4 H5. unfold record_size, field_value. f_equal. f_equal.
  unfold pyx_length_fields. cbn [fold_left fst snd byte_at nth].
  rewrite N.lor_0_l. rewrite !N.shiftl_mul_pow2.
  change (2 ^ 24) with 16777216. change (2 ^ 16) with 65536. change (2 ^ 8) with 256. change (2 ^ 0) with 1.
  rewrite N.mul_1_r.
  rewrite (lor_add (c2 * 16777216) (c3 * 65536) 24); [| change (2^24) with 16777216; lia | change (2^24) with 16777216; lia].
  rewrite (lor_add _ (c4 * 256) 16); [| change (2^16) with 65536; lia | change (2^16) with 65536; lia].
  rewrite (lor_add _ c5 8); [| change (2^8) with 256; lia | change (2^8) with 256; lia].
  reflexivity.
Qed.

Lemma rd4_field c2 c3 c4 c5 rest : rd 4 (c2 :: c3 :: c4 :: c5 :: rest) 0 = Some (field_value c2 c3 c4 c5, rest).
Proof. cbn [rd]. unfold field_value. f_equal. f_equal. ring. Qed.

Lemma field_value_be4 x : x < 4294967296 ->
  field_value ((x / 16777216) mod 256) ((x / 65536) mod 256) ((x / 256) mod 256) (x mod 256) = x.
Proof.
  intros H. pose proof (rd_be0 4 x [] H) as E. rewrite be4_eq in E. cbn [app] in E.
  rewrite rd4_field in E. now injection E.
Qed.

Lemma field_value_inj c2 c3 c4 c5 :
  c2 < 256 -> c3 < 256 -> c4 < 256 -> c5 < 256 ->
  be 4 (field_value c2 c3 c4 c5) = [c2; c3; c4; c5].
Proof.
  intros H2 H3 H4 H5. rewrite be4_eq. unfold field_value.
  assert (E5 : (c2 * 16777216 + c3 * 65536 + c4 * 256 + c5) mod 256 = c5) by lia.
  assert (E4 : ((c2 * 16777216 + c3 * 65536 + c4 * 256 + c5) / 256) mod 256 = c4) by lia.
  assert (E3 : ((c2 * 16777216 + c3 * 65536 + c4 * 256 + c5) / 65536) mod 256 = c3) by lia.
  assert (E2 : ((c2 * 16777216 + c3 * 65536 + c4 * 256 + c5) / 16777216) mod 256 = c2) by lia.
  rewrite E2, E3, E4, E5. reflexivity.
Qed.

Lemma field_value_bound c2 c3 c4 c5 :
  c2 < 256 -> c3 < 256 -> c4 < 256 -> c5 < 256 -> field_value c2 c3 c4 c5 < 4294967296.
Proof. unfold field_value. lia. Qed.

Lemma wrap32_small v : (0 <= v < 2147483648)%Z -> wrap32 v = v.
Proof. intros H. unfold wrap32. cbv zeta. rewrite Z.mod_small by lia. destruct (v <? 2147483648)%Z eqn:E; lia. Qed.

Lemma wrap32_big v : (2147483648 <= v < 4294967296)%Z -> (wrap32 v < 0)%Z.
Proof. intros H. unfold wrap32. cbv zeta. rewrite Z.mod_small by lia. destruct (v <? 2147483648)%Z eqn:E; lia. Qed.

(* wrap32 of a 32-bit value is the value itself or negative *)
Lemma wrap32_cases v : (0 <= v < 4294967296)%Z -> wrap32 v = v \/ (wrap32 v < 0)%Z.
Proof. intros H. destruct (Z.ltb_spec v 2147483648); [left; apply wrap32_small | right; apply wrap32_big]; lia. Qed.

(* ---------- the record layout and the three header checks ---------- *)
Definition record (ts : N) (payload : bytes) : bytes :=
  row_HEADER_PREFIX ++ be 4 (len payload) ++ be 8 ts ++ payload.

Definition hdr_ok (data : bytes) : bool :=
  let n := Z.of_nat (length data) in
  negb ((n <? pyx_HEADER_SIZE)%Z || negb (version_ok data)) && (record_size data =? n - pyx_HEADER_SIZE)%Z.

Lemma decode_row_hdr data : hdr_ok data = false -> decode_row data = Raise DataError.
Proof.
  unfold hdr_ok, decode_row. cbv zeta.
  destruct ((Z.of_nat (length data) <? pyx_HEADER_SIZE)%Z || negb (version_ok data)); [reflexivity|].
  cbn [negb andb]. intros ->. reflexivity.
Qed.

Lemma decode_row_hdr_ok data : hdr_ok data = true ->
  decode_row data = match unpack dec_fuel (skipn (Z.to_nat pyx_HEADER_SIZE) data) with
                    | None => Raise ValueError
                    | Some (MArr items, _) => post items
                    | Some (_, _) => Raise TypeError
                    end.
Proof.
  unfold hdr_ok, decode_row. cbv zeta.
  destruct ((Z.of_nat (length data) <? pyx_HEADER_SIZE)%Z || negb (version_ok data)); [discriminate|].
  cbn [negb andb]. intros ->. reflexivity.
Qed.

Lemma encode_row_inv ts row r : encode_row ts row = Ok r ->
  r = record ts (pack (MArr row)) /\ (Z.of_N (len (pack (MArr row))) <= row_MAXIMUM_RECORD_SIZE)%Z /\
  wfb (MArr row) = true /\ cdepth (MArr row) <= enc_container_limit.
Proof.
  unfold encode_row.
  destruct (wfb (MArr row)) eqn:Hwf; [|discriminate].
  destruct (cdepth (MArr row) <=? enc_container_limit) eqn:Hd; [|discriminate].
  cbn [andb negb]. unfold size_ok.
  destruct (row_MAXIMUM_RECORD_SIZE <? Z.of_N (len (pack (MArr row))))%Z eqn:Hs; [discriminate|].
  cbn [negb]. intros E. injection E as <-. repeat split; [lia | lia].
Qed.

(* the emitted record, byte by byte: p0 p1 | four length bytes | the rest *)
Lemma record_shape ts payload : len payload < 4294967296 ->
  exists c2 c3 c4 c5 tl,
    record ts payload = 16 :: 0 :: c2 :: c3 :: c4 :: c5 :: tl /\
    c2 < 256 /\ c3 < 256 /\ c4 < 256 /\ c5 < 256 /\
    field_value c2 c3 c4 c5 = len payload /\
    tl = be 8 ts ++ payload.
Proof.
  intros H. unfold record. rewrite be4_eq. unfold row_HEADER_PREFIX. cbn [app].
  do 5 eexists. split; [reflexivity|].
  repeat split; try (apply N.mod_lt; discriminate).
  apply field_value_be4. exact H.
Qed.

Lemma record_length ts payload : length (record ts payload) = (14 + length payload)%nat.
Proof. unfold record. rewrite !app_length, !be_length. reflexivity. Qed.

Lemma cap_lt_2_31 : (row_MAXIMUM_RECORD_SIZE < 2147483648)%Z.
Proof. reflexivity. Qed.

Lemma hdr_ok_shape a0 a1 c2 c3 c4 c5 tl :
  c2 < 256 -> c3 < 256 -> c4 < 256 -> c5 < 256 ->
  hdr_ok (a0 :: a1 :: c2 :: c3 :: c4 :: c5 :: tl) = true ->
  (Z.of_N (field_value c2 c3 c4 c5) = Z.of_nat (length tl) - 8)%Z /\ N.land a0 240 = 16.
Proof.
  intros H2 H3 H4 H5. unfold hdr_ok. cbv zeta. rewrite record_size_bytes by assumption.
  unfold version_ok, pyx_version_offset, pyx_VERSION_MASK, pyx_VERSION_VALUE, pyx_HEADER_SIZE, byte_at. cbn [nth length].
  pose proof (field_value_bound c2 c3 c4 c5 H2 H3 H4 H5) as Hb.
  intros H. apply andb_prop in H. destruct H as [Ha Hr].
  apply negb_true_iff in Ha. apply orb_false_elim in Ha. destruct Ha as [Hn Hv].
  apply negb_false_iff in Hv. apply N.eqb_eq in Hv. split; [|exact Hv].
  apply Z.eqb_eq in Hr.
  destruct (wrap32_cases (Z.of_N (field_value c2 c3 c4 c5))) as [E|E]; lia.
Qed.

(* --- torn --- *)
Lemma torn_rejected ts row r k : encode_row ts row = Ok r -> (k < length r)%nat ->
  decode_row (firstn k r) = Raise DataError.
Proof.
  intros He Hk. apply encode_row_inv in He. destruct He as (-> & Hcap & _ & _).
  pose proof cap_lt_2_31 as Hc.
  destruct (record_shape ts (pack (MArr row))) as (c2 & c3 & c4 & c5 & tl & Hr & H2 & H3 & H4 & H5 & Hf & Htl); [lia|].
  rewrite record_length in Hk.
  apply decode_row_hdr. destruct (hdr_ok (firstn k (record ts (pack (MArr row))))) eqn:Hh; [exfalso|reflexivity].
  rewrite Hr in Hh.
  destruct k as [|[|[|[|[|[|k]]]]]]; try (cbn in Hh; discriminate).
  cbn [firstn] in Hh. apply hdr_ok_shape in Hh; try assumption. destruct Hh as [Hh _].
  rewrite Hf in Hh. rewrite firstn_length in Hh. subst tl. rewrite app_length, be_length in Hh.
  unfold len in Hh. lia.
Qed.

(* --- extended --- *)
Lemma extended_rejected ts row r s : encode_row ts row = Ok r -> s <> [] ->
  decode_row (r ++ s) = Raise DataError.
Proof.
  intros He Hs. apply encode_row_inv in He. destruct He as (-> & Hcap & _ & _).
  pose proof cap_lt_2_31 as Hc.
  destruct (record_shape ts (pack (MArr row))) as (c2 & c3 & c4 & c5 & tl & Hr & H2 & H3 & H4 & H5 & Hf & Htl); [lia|].
  apply decode_row_hdr. destruct (hdr_ok (record ts (pack (MArr row)) ++ s)) eqn:Hh; [exfalso|reflexivity].
  rewrite Hr in Hh. cbn [app] in Hh. apply hdr_ok_shape in Hh; try assumption. destruct Hh as [Hh _].
  rewrite Hf in Hh. subst tl. rewrite !app_length, be_length in Hh.
  destruct s as [|x s]; [congruence|]. cbn [length] in Hh. unfold len in Hh. lia.
Qed.

(* --- version nibble --- *)
Lemma nibble_enum : forallb (fun b => Bool.eqb (N.land b 240 =? 16) (b / 16 =? 1)) (map N.of_nat (seq 0 256)) = true.
Proof. vm_compute. reflexivity. Qed.

Lemma nibble_spec b : b < 256 -> (N.land b 240 = 16 <-> b / 16 = 1).
Proof.
  intros H. pose proof nibble_enum as E. rewrite forallb_forall in E.
  specialize (E b). rewrite in_map_iff in E.
  assert (Hin : exists x, N.of_nat x = b /\ In x (seq 0 256)).
  { exists (N.to_nat b). split; [apply N2Nat.id|]. apply in_seq. lia. }
  specialize (E Hin). apply eqb_prop in E.
  rewrite <- N.eqb_eq, E, N.eqb_eq. reflexivity.
Qed.

Lemma version_altered_rejected ts row b0 tl b0' : encode_row ts row = Ok (b0 :: tl) ->
  b0' < 256 -> b0' / 16 <> 1 -> decode_row (b0' :: tl) = Raise DataError.
Proof.
  intros He Hb Hn. apply encode_row_inv in He. destruct He as (Er & Hcap & _ & _).
  pose proof cap_lt_2_31 as Hc.
  destruct (record_shape ts (pack (MArr row))) as (c2 & c3 & c4 & c5 & tl' & Hr & H2 & H3 & H4 & H5 & Hf & Htl); [lia|].
  rewrite Hr in Er. injection Er as -> ->.
  apply decode_row_hdr. destruct (hdr_ok _) eqn:Hh; [exfalso|reflexivity].
  apply hdr_ok_shape in Hh; try assumption. destruct Hh as [_ Hv].
  apply Hn. apply nibble_spec; assumption.
Qed.

(* the version nibble the encoder writes is the one the decoder wants *)
Lemma version_written ts row r : encode_row ts row = Ok r -> exists tl, r = 16 :: tl /\ 16 / 16 = 1.
Proof.
  intros He. apply encode_row_inv in He. destruct He as (-> & _). unfold record, row_HEADER_PREFIX. cbn [app].
  eexists. split; reflexivity.
Qed.

(* --- length field --- *)
Lemma length_altered_rejected ts row p0 p1 l2 l3 l4 l5 tl c2 c3 c4 c5 :
  encode_row ts row = Ok (p0 :: p1 :: l2 :: l3 :: l4 :: l5 :: tl) ->
  c2 < 256 -> c3 < 256 -> c4 < 256 -> c5 < 256 ->
  [c2; c3; c4; c5] <> [l2; l3; l4; l5] ->
  decode_row (p0 :: p1 :: c2 :: c3 :: c4 :: c5 :: tl) = Raise DataError.
Proof.
  intros He G2 G3 G4 G5 Hne. apply encode_row_inv in He. destruct He as (Er & Hcap & _ & _).
  pose proof cap_lt_2_31 as Hc.
  destruct (record_shape ts (pack (MArr row))) as (d2 & d3 & d4 & d5 & tl' & Hr & H2 & H3 & H4 & H5 & Hf & Htl); [lia|].
  rewrite Hr in Er. injection Er as -> -> -> -> -> -> ->.
  apply decode_row_hdr. destruct (hdr_ok _) eqn:Hh; [exfalso|reflexivity].
  apply hdr_ok_shape in Hh; try assumption. destruct Hh as [Hh _].
  subst tl'. rewrite app_length, be_length in Hh.
  apply Hne. rewrite <- (field_value_inj c2 c3 c4 c5) by assumption.
  rewrite <- (field_value_inj d2 d3 d4 d5) by assumption.
  f_equal. rewrite Hf. unfold len. lia.
Qed.
