(* C17, round 3 - sessions on the same objects: lookups interleaved with every way the objects can
   change under them (pop_column, sums, and the caller's in-place mutations of a column object or of a
   schema's column list).  The point: whatever was called before - and whatever was looked up before -
   a lookup answers from the CURRENT value of the schema alone ([session_lookup]); there is no other
   state a lookup could read.  Plus the exact effect of the in-place mutations on the store. *)
From Coq Require Import List Arith Bool Lia ZArith.
From Orso Require Import Model.C17 Proofs.C17 Proofs.C17_Iter.
Import ListNotations.

Section Session.
Variables I T P : Type.
Variable ieqb : I -> I -> bool.
Variable teqb : T -> T -> bool.
Variable lower : T -> T.
Variable peqb : P -> P -> bool.

Notation col := (col I T P).
Notation schema := (schema I T P).
Notation hstep := (hstep ieqb teqb lower peqb).
Notation hrun := (hrun ieqb teqb lower peqb).
Notation find_column := (find_column teqb lower).
Notation upd_col := (upd_col peqb).

(* the schema a read-only call asks ... *)
Definition target (h : hop T) : option nat :=
  match h with
  | HOp (OFind i _ _) | HOp (OColAt i _) | HOp (OColName i _) | HOp (OAllNames i) | HOp (ONames i)
  | HOp (OIter i) | HTable i _ _ => Some i
  | _ => None
  end.

(* ... and its answer, as a function of that schema's current value and of nothing else *)
Definition answer (h : hop T) (s : schema) : out T P :=
  match h with
  | HOp (OFind _ key ci) => XCol (option_map ctag (find_column ci key s))
  | HOp (OColAt _ z) => match column_at z s with Ok c => XCol (Some (ctag c)) | Raise _ => XRaise end
  | HOp (OColName _ key) => XCol (option_map ctag (column_by_name teqb lower key s))
  | HOp (OAllNames _) => XNames (all_column_names s)
  | HOp (ONames _) => XNames (column_names s)
  | HOp (OIter _) => XNames (iter_names s)
  | HTable _ ci keys => XCols (lookup_table teqb lower ci keys s)
  | _ => XBad
  end.

(* one lookup: the answer is [answer h s] for the current value s of its schema, and neither the
   schemas nor the open iterators change *)
Lemma lookup_answer (st : list schema) (its : iters T) (h : hop T) (i : nat) (s : schema) :
  target h = Some i -> nth_error st i = Some s -> hstep (st, its) h = ((st, its), answer h s).
Proof.
  intros Ht Hs.
  destruct h as [o|j|k|j ci keys|j q n|j q al|j p j2 q|j p|j j2]; try discriminate.
  - destruct o as [a b|j key ci|j z|j key|j n|j|j|j]; try discriminate; injection Ht as ->;
      simpl; unfold C17.with_schema; rewrite Hs; reflexivity.
  - injection Ht as ->. simpl. rewrite Hs. reflexivity.
Qed.

(* two states in which the schema has the same value give the same answer - however they were reached *)
Lemma lookup_depends_on_value (st st' : list schema) (its its' : iters T) (h : hop T) (i : nat) :
  target h = Some i -> nth_error st i = nth_error st' i ->
  snd (hstep (st, its) h) = snd (hstep (st', its') h).
Proof.
  intros Ht E. destruct (nth_error st i) as [s|] eqn:Hs.
  - rewrite (lookup_answer st its h i s Ht Hs), (lookup_answer st' its' h i s Ht (eq_sym E)). reflexivity.
  - symmetry in E.
    destruct h as [o|j|k|j ci keys|j q n|j q al|j p j2 q|j p|j j2]; try discriminate.
    + destruct o as [a b|j key ci|j z|j key|j n|j|j|j]; try discriminate; injection Ht as ->;
        simpl; unfold C17.with_schema; rewrite Hs, E; reflexivity.
    + injection Ht as ->. simpl. rewrite Hs, E. reflexivity.
Qed.

(* histories compose *)
Lemma hrun_app (a : list (hop T)) : forall (sti : list schema * iters T) (b : list (hop T)),
  hrun sti (a ++ b) =
    (fst (hrun (fst (hrun sti a)) b), snd (hrun sti a) ++ snd (hrun (fst (hrun sti a)) b)) /\
  length (snd (hrun sti a)) = length a.
Proof.
  induction a as [|h a IH]; intros sti b.
  - cbn [app C17.hrun fst snd length]. destruct (hrun sti b); split; reflexivity.
  - cbn [app C17.hrun]. destruct (hstep sti h) as (sti1, x).
    destruct (IH sti1 b) as (E & L). unfold store in *. rewrite E.
    destruct (hrun sti1 a) as (sti2, xs). cbn [fst snd length] in *.
    destruct (hrun sti2 b) as (sti3, ys). cbn [fst snd]. split; [reflexivity | rewrite L; reflexivity].
Qed.

(* SESSIONS: after ANY history [before] - lookups (which would have filled any memo), removals, sums,
   in-place mutations, iterators - a lookup on schema i returns [answer h s] for the value s schema i
   has at that moment, whatever follows *)
Lemma session_lookup (before after : list (hop T)) (h : hop T) (st : list schema) (its : iters T)
      (i : nat) (s : schema) :
  target h = Some i ->
  nth_error (fst (fst (hrun (st, its) before))) i = Some s ->
  nth_error (map fst (snd (hrun (st, its) (before ++ h :: after)))) (length before) = Some (answer h s).
Proof.
  intros Ht Hs. destruct (hrun_app before (st, its) (h :: after)) as (E & L).
  unfold store in *. rewrite E. cbn [snd]. rewrite map_app, nth_error_app2; rewrite map_length, L; [|lia].
  rewrite Nat.sub_diag. destruct (hrun (st, its) before) as ((st1, its1), xs). cbn [fst snd] in *.
  cbn [C17.hrun]. pose proof (lookup_answer st1 its1 h i s Ht Hs) as A. unfold store in *. rewrite A.
  destruct (hrun (st1, its1) after). reflexivity.
Qed.

(* ---------- in-place mutations ---------- *)

Lemma rename_spec (st : list schema) (its : iters T) (i q : nat) (n : T) (s : schema) (c : col) :
  nth_error st i = Some s -> nth_error (scols s) q = Some c ->
  hstep (st, its) (HRename i q n) = ((map (upd_col (ctag c) (set_name n)) st, its), XDone).
Proof. intros Hs Hc. simpl. unfold C17.with_col. rewrite Hs, Hc. reflexivity. Qed.

Lemma set_aliases_spec (st : list schema) (its : iters T) (i q : nat) (al : option (list T)) (s : schema) (c : col) :
  nth_error st i = Some s -> nth_error (scols s) q = Some c ->
  hstep (st, its) (HSetAliases i q al) = ((map (upd_col (ctag c) (set_aliases al)) st, its), XDone).
Proof. intros Hs Hc. simpl. unfold C17.with_col. rewrite Hs, Hc. reflexivity. Qed.

Lemma insert_spec (st : list schema) (its : iters T) (i p j q : nat) (s s2 : schema) (c : col) :
  nth_error st i = Some s -> nth_error st j = Some s2 -> nth_error (scols s2) q = Some c ->
  hstep (st, its) (HInsertFrom i p j q) = ((set_nth st i (insert_at p c s), its), XDone).
Proof. intros Hs H2 Hc. simpl. unfold C17.with_col. rewrite Hs, H2, Hc. reflexivity. Qed.

Lemma del_spec (st : list schema) (its : iters T) (i p : nat) (s : schema) :
  nth_error st i = Some s ->
  hstep (st, its) (HDelAt i p) =
    if Nat.ltb p (length (scols s)) then ((set_nth st i (del_at p s), its), XDone) else ((st, its), XRaise).
Proof. intros Hs. simpl. rewrite Hs. reflexivity. Qed.

(* a mutated column object: every schema of the store is mapped through [upd_col]; which objects each
   schema lists, and their identities, do not change; a schema that does not list the object is untouched *)
Lemma upd_col_store (tag : P) (f : col -> col) (st : list schema) (k : nat) :
  nth_error (map (upd_col tag f) st) k = option_map (upd_col tag f) (nth_error st k).
Proof. apply nth_error_map. Qed.

Lemma upd_col_at (tag : P) (f : col -> col) (s : schema) (q : nat) (c : col) :
  nth_error (scols s) q = Some c ->
  nth_error (scols (upd_col tag f s)) q = Some (if peqb (ctag c) tag then f c else c).
Proof. intros H. unfold C17.upd_col. cbn [scols]. rewrite nth_error_map, H. reflexivity. Qed.

Lemma upd_col_keeps (tag : P) (f : col -> col) (s : schema) :
  (forall c, ctag (f c) = ctag c) -> (forall c, cid (f c) = cid c) ->
  sname (upd_col tag f s) = sname s /\ saliases (upd_col tag f s) = saliases s /\
  map ctag (scols (upd_col tag f s)) = map ctag (scols s) /\
  map cid (scols (upd_col tag f s)) = map cid (scols s).
Proof.
  intros Ht Hi. unfold C17.upd_col. cbn [sname saliases scols]. rewrite !map_map.
  repeat split; apply map_ext; intros c; destruct (peqb (ctag c) tag); auto.
Qed.

Lemma tags_of_upd (tag : P) (f : col -> col) (st : list schema) :
  (forall c, ctag (f c) = ctag c) -> tags_of (map (upd_col tag f) st) = tags_of st.
Proof.
  intros Ht. unfold tags_of. rewrite map_map. apply map_ext. intros s.
  unfold C17.upd_col. cbn [scols]. rewrite map_map. apply map_ext. intros c. destruct (peqb (ctag c) tag); auto.
Qed.

Section WithPEq.
Hypothesis peqb_spec : forall a b, peqb a b = true <-> a = b.

Lemma upd_col_frame (tag : P) (f : col -> col) (s : schema) :
  (forall c, In c (scols s) -> ctag c <> tag) -> upd_col tag f s = s.
Proof.
  intros H. destruct s as [nm al cols]. unfold C17.upd_col. cbn [sname saliases scols] in *. f_equal.
  induction cols as [|c l IH]; [reflexivity|]. cbn [map].
  destruct (peqb (ctag c) tag) eqn:E.
  - apply peqb_spec in E. exfalso. apply (H c); [left; reflexivity | exact E].
  - f_equal. apply IH. intros d Hd. apply H. right. exact Hd.
Qed.

Lemma upd_col_cols (tag : P) (f : col -> col) (s : schema) (q : nat) (c : col) :
  nth_error (scols s) q = Some c ->
  (ctag c = tag -> nth_error (scols (upd_col tag f s)) q = Some (f c)) /\
  (ctag c <> tag -> nth_error (scols (upd_col tag f s)) q = Some c).
Proof.
  intros H. rewrite (upd_col_at tag f s q c H). split; intros E.
  - rewrite (proj2 (peqb_spec _ _) E). reflexivity.
  - destruct (peqb (ctag c) tag) eqn:Eb; [apply peqb_spec in Eb; contradiction | reflexivity].
Qed.

End WithPEq.

Section WithTEq.
Hypothesis teqb_spec : forall a b, teqb a b = true <-> a = b.
Hypothesis peqb_refl : forall a, peqb a a = true.

(* after `s.columns[q].name = n` a lookup of n on s succeeds (it finds the first bearer, C17_find_first_bearer),
   and the column at q is named n *)
Lemma renamed_is_found (s : schema) (q : nat) (n : T) (c : col) :
  nth_error (scols s) q = Some c ->
  let s' := upd_col (ctag c) (set_name n) s in
  nth_error (column_names s') q = Some n /\ exists d, find_column false n s' = Some d.
Proof.
  intros Hc s'. assert (Hq : nth_error (scols s') q = Some (set_name n c)).
  { subst s'. rewrite (upd_col_at (ctag c) (set_name n) s q c Hc), peqb_refl. reflexivity. }
  split.
  - unfold C17.column_names. rewrite nth_error_map, Hq. reflexivity.
  - destruct (find_column false n s') as [d|] eqn:Ef; [exists d; reflexivity|].
    exfalso. pose proof (proj1 (find_column_none I T P teqb lower false n s') Ef _ (nth_error_In _ _ Hq)) as Hb.
    assert (Ht : bears teqb lower false n (set_name n c) = true).
    { apply (bears_cs_iff I T P teqb lower teqb_spec).
      exact (all_names_has_name I T P (set_name n c)). }
    rewrite Ht in Hb. discriminate.
Qed.

End WithTEq.

(* list mutations, read as list equations (p within range) *)
Lemma insert_at_split (p : nat) (c : col) (s : schema) :
  p <= length (scols s) ->
  exists pre post, scols s = pre ++ post /\ length pre = p /\ scols (insert_at p c s) = pre ++ c :: post /\
                   sname (insert_at p c s) = sname s /\ saliases (insert_at p c s) = saliases s.
Proof.
  intros H. exists (firstn p (scols s)), (skipn p (scols s)).
  repeat split; [symmetry; apply firstn_skipn | apply firstn_length_le; exact H].
Qed.

Lemma insert_at_end (p : nat) (c : col) (s : schema) :
  length (scols s) <= p -> scols (insert_at p c s) = scols s ++ [c].
Proof.
  intros H. unfold C17.insert_at. cbn [scols]. rewrite firstn_all2, skipn_all2 by exact H. reflexivity.
Qed.

Lemma del_at_split (p : nat) (s : schema) :
  p < length (scols s) ->
  exists pre d post, scols s = pre ++ d :: post /\ length pre = p /\
                     del_at p s = mksch (sname s) (saliases s) (pre ++ post).
Proof.
  intros H. destruct (nth_error (scols s) p) as [d|] eqn:E; [|apply nth_error_None in E; lia].
  apply nth_error_split in E. destruct E as (pre & post & E & L).
  exists pre, d, post. repeat split; [exact E | exact L|].
  unfold C17.del_at. rewrite E, <- L, firstn_length_app, skipn_S_length_app. reflexivity.
Qed.

End Session.

Arguments target {T}. Arguments answer {I T P}.
