(* C07 - type names (OrsoTypes.from_name), columns declared by a type name, and sessions
   (sequences of calls in one process): lemmas for Props/C07.v. *)
From Coq Require Import List ZArith NArith Bool Lia.
From Orso Require Import Base.Civil Gen.C08_Tables Model.C08 Gen.C07_Tables Model.C07.
From Orso Require Import Proofs.C07.
Import ListNotations.
Open Scope Z_scope.

(* ---------- what a type name denotes ---------- *)
Lemma from_name_table :
  (forall t, t <> T_ARRAY -> from_name (TNPlain t) = ROk (t, nokw)) /\
  from_name (TNPlain T_ARRAY) = ROk (T_ARRAY, mkkw None None None (Some T_VARCHAR)) /\
  (forall n, from_name (TNVarchar n) = ROk (T_VARCHAR, mkkw (Some n) None None None)) /\
  (forall n, from_name (TNBlob n) = ROk (T_BLOB, mkkw (Some n) None None None)) /\
  (forall p s, 0 <= s <= p -> p <= name_max_precision -> s <= name_max_scale ->
               from_name (TNDecimal p s) = ROk (T_DECIMAL, mkkw None (Some p) (Some s) None)) /\
  (forall p s, ~ (0 <= s <= p /\ p <= name_max_precision /\ s <= name_max_scale) -> from_name (TNDecimal p s) = RErr XValue) /\
  (forall et, array_element_forbidden et = false -> from_name (TNArray et) = ROk (T_ARRAY, mkkw None None None (Some et))) /\
  (forall et, array_element_forbidden et = true -> from_name (TNArray et) = RErr XValue).
Proof.
  repeat split.
  - intros t Ht. destruct t; try reflexivity. congruence.
  - intros p s H1 H2 H3. unfold from_name.
    destruct ((p <? 0) || (name_max_precision <? p) || (s <? 0) || (name_max_scale <? s) || (p <? s)) eqn:E; [|reflexivity].
    lia.
  - intros p s H. unfold from_name.
    destruct ((p <? 0) || (name_max_precision <? p) || (s <? 0) || (name_max_scale <? s) || (p <? s)) eqn:E; [reflexivity|].
    exfalso. apply H. lia.
  - intros et H. unfold from_name. rewrite H. reflexivity.
  - intros et H. unfold from_name. rewrite H. reflexivity.
Qed.

(* a name never denotes a type with parameters of another type's kind mixed in: whatever it
   resolves to, the parameters are those written in the name *)
Lemma merge_nokw_l kn : merge_kw nokw kn = kn.
Proof. destruct kn; reflexivity. Qed.
Lemma merge_nokw_r k : merge_kw k nokw = k.
Proof. destruct k as [l p s e]; destruct l, p, s, e; reflexivity. Qed.

Section Oracles.
Variable float_of_text : list N -> res N.
Variable float_of_bytes : list N -> res N.
Variable repr_float : N -> list N.
Variable json_loads : bool -> list N -> res pyval.
Variable json_dumps : pyval -> res (list N).
Variable str_container : pyval -> list N.

Notation parse' := (parse float_of_text float_of_bytes repr_float json_loads json_dumps str_container).
Notation column' := (column_default float_of_text float_of_bytes repr_float json_loads json_dumps str_container).
Notation named' := (column_named float_of_text float_of_bytes repr_float json_loads json_dumps str_container).
Notation run_op' := (run_op float_of_text float_of_bytes repr_float json_loads json_dumps str_container).
Notation run_session' := (run_session float_of_text float_of_bytes repr_float json_loads json_dumps str_container).

(* ---------- FlatColumn(type=<name>, ...) ---------- *)
Lemma column_named_spec n k x :
  (forall t kn, from_name n = ROk (t, kn) -> named' n k x = column' t (merge_kw k kn) x) /\
  (forall e, from_name n = RErr e -> named' n k x = RErr XValue).
Proof.
  split.
  - intros t kn H. unfold column_named. rewrite H. reflexivity.
  - intros e H. unfold column_named. rewrite H. reflexivity.
Qed.

(* VARCHAR[n] / BLOB[n] columns, n >= 1: the default is cut to the longest prefix within n *)
Lemma named_varchar n t : 1 <= n ->
  named' (TNVarchar n) nokw (PStr t) = ROk (PStr (firstn (Z.to_nat n) t)).
Proof.
  intros Hn. unfold column_named. cbn [from_name]. rewrite merge_nokw_l.
  rewrite (proj1 (column_default_spec _ _ _ _ _ _ T_VARCHAR _ _) eq_refl).
  cbn [column_kwargs].
  rewrite (proj1 (varchar_longest float_of_text float_of_bytes repr_float json_loads json_dumps str_container n t Hn)).
  reflexivity.
Qed.

Lemma named_blob n b : 1 <= n ->
  named' (TNBlob n) nokw (PBytes b) = ROk (PBytes (firstn (Z.to_nat n) b)).
Proof.
  intros Hn. unfold column_named. cbn [from_name]. rewrite merge_nokw_l.
  rewrite (proj1 (column_default_spec _ _ _ _ _ _ T_BLOB _ _) eq_refl).
  cbn [column_kwargs].
  rewrite (proj1 (blob_longest float_of_text float_of_bytes repr_float json_loads json_dumps str_container n b Hn)).
  reflexivity.
Qed.

Lemma named_prefix n t b : 1 <= n ->
  named' (TNVarchar n) nokw (PStr t) = ROk (PStr (firstn (Z.to_nat n) t)) /\
  named' (TNBlob n) nokw (PBytes b) = ROk (PBytes (firstn (Z.to_nat n) b)).
Proof. intros. split; [apply named_varchar | apply named_blob]; assumption. Qed.

(* ---------- sessions ---------- *)
Lemma session_length l : length (run_session' l) = length l.
Proof. unfold run_session. apply map_length. Qed.

(* the outcome of an operation does not depend on what ran before or after it *)
Lemma session_pure pre o post :
  nth_error (run_session' (pre ++ o :: post)) (length pre) = Some (run_op' o).
Proof.
  unfold run_session. rewrite map_app. cbn [map].
  rewrite nth_error_app2; rewrite map_length; [|apply Nat.le_refl].
  rewrite Nat.sub_diag. reflexivity.
Qed.

Lemma session_pure_len pre post o :
  length (run_session' (pre ++ o :: post)) = length (pre ++ o :: post) /\
  nth_error (run_session' (pre ++ o :: post)) (length pre) = Some (run_op' o).
Proof. split; [apply session_length | apply session_pure]. Qed.

Lemma session_cast pre post col t k x :
  nth_error (run_session' (pre ++ OCast col t k x :: post)) (length pre)
  = Some (OutVal (if col then column' t k x else parse' t k x)).
Proof. rewrite session_pure. reflexivity. Qed.

Lemma session_two_prefixes pre1 pre2 post1 post2 o :
  nth_error (run_session' (pre1 ++ o :: post1)) (length pre1) = nth_error (run_session' (pre2 ++ o :: post2)) (length pre2).
Proof. rewrite !session_pure. reflexivity. Qed.

End Oracles.

(* the witness of the seeded change C07-r2s2: VARCHAR[3] resolved, a VARCHAR[3] column declared,
   then the bare VARCHAR cast keeps the whole text *)
Lemma session_witness ft fb rp jl jd sc :
  run_session ft fb rp jl jd sc
    [OResolve (TNVarchar 3); ODeclare (TNVarchar 3) nokw (PStr [97; 98; 99; 100]%N); OCast false T_VARCHAR nokw (PStr [97; 98; 99; 100]%N);
     OResolve (TNDecimal 39 2); OResolve (TNArray T_DECIMAL); OResolve (TNPlain T_ARRAY)]
  = [OutName (ROk (T_VARCHAR, mkkw (Some 3) None None None)); OutVal (ROk (PStr [97; 98; 99]%N)); OutVal (ROk (PStr [97; 98; 99; 100]%N));
     OutName (RErr XValue); OutName (RErr XValue); OutName (ROk (T_ARRAY, mkkw None None None (Some T_VARCHAR)))].
Proof. vm_compute. reflexivity. Qed.

(* ---------- the caller's decimal context ---------- *)
Lemma env_independent (e1 e2 : denv) (c : cast_case) :
  (reads_env_prec c = false \/ env_prec e1 = env_prec e2) -> c07_run_env e1 c = c07_run_env e2 c.
Proof.
  destruct c as [[[[[col t] k] x] o] obs]. intros [H|H]; unfold c07_run_env.
  - rewrite H. reflexivity.
  - rewrite H. reflexivity.
Qed.

Lemma env_default (c : cast_case) : c07_run_env default_env c = c07_run c.
Proof.
  destruct c as [[[[[col t] k] x] o] obs]. unfold c07_run_env.
  destruct (reads_env_prec (col, t, k, x, o, obs)) eqn:E; [|reflexivity].
  unfold reads_env_prec in E. destruct col; [|discriminate]. destruct t; try discriminate.
  destruct k as [l [p|] s el]; [discriminate|]. reflexivity.
Qed.

Lemma env_spec (e1 e2 : denv) (c : cast_case) :
  ((reads_env_prec c = false \/ env_prec e1 = env_prec e2) -> c07_run_env e1 c = c07_run_env e2 c) /\
  (reads_env_prec c = false -> c07_run_env e1 c = c07_run c) /\
  c07_run_env default_env c = c07_run c.
Proof.
  split; [apply env_independent|split; [|apply env_default]].
  destruct c as [[[[[col t] k] x] o] obs]. intros H. unfold c07_run_env. rewrite H. reflexivity.
Qed.

(* the witness of F-C07-6 (fixed 056ea2a) under the context Emin = -5, prec = 9: exact at scale 21;
   a DECIMAL column without precision under ExtendedContext (prec 9) is DECIMAL(9, 6) *)
Lemma env_witness :
  let w := [48; 46; 49; 50; 51; 52; 53; 54; 55; 56; 57; 48; 49; 50; 51; 52; 53]%N in
  c07_run_env (mkenv 9 999999 (-5) 0 1 false) (false, T_DECIMAL, nokw, PStr w, notab, RErr XOther)
    = ROk (PDecimal (DFin false 123456789012345000000 (-21))) /\
  reads_env_prec (true, T_DECIMAL, nokw, PStr [49; 46; 53]%N, notab, RErr XOther) = true /\
  c07_run_env (mkenv 9 999999 (-999999) 0 0 false) (true, T_DECIMAL, nokw, PStr [49; 46; 53]%N, notab, RErr XOther)
    = ROk (PDecimal (DFin false 1500000 (-6))) /\
  c07_run_env default_env (true, T_DECIMAL, nokw, PStr [49; 46; 53]%N, notab, RErr XOther)
    = ROk (PDecimal (DFin false 1500000000000000000000 (-21))).
Proof. vm_compute. repeat split; reflexivity. Qed.
