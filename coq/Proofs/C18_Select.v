(* C18 - row selection and labelling: what ascii_table shows is what the property says. *)
From Coq Require Import List NArith ZArith Bool Arith Lia.
From Orso Require Import Model.C18.
Import ListNotations.

Section Sel.
Context {A : Type}.
Implicit Types l a b t : list A.

Definition lastn (k : nat) l : list A := skipn (length l - k) l.

(* ---------- list facts ---------- *)
Lemma tl_skipn l j : tl (skipn j l) = skipn (S j) l.
Proof.
  revert l; induction j as [|j IH]; intros [|x l]; cbn [skipn tl]; try reflexivity.
  apply IH.
Qed.

Lemma skipn_add l j k : skipn k (skipn j l) = skipn (j + k) l.
Proof.
  revert l; induction j as [|j IH]; intros l; cbn [skipn Nat.add]; [reflexivity|].
  destruct l as [|x l]; [now destruct k|apply IH].
Qed.

Lemma tl_app_ne l x : l <> [] -> tl (l ++ [x]) = tl l ++ [x].
Proof. destruct l; [congruence|reflexivity]. Qed.

Lemma skipn_app_le l b j : j <= length l -> skipn j (l ++ b) = skipn j l ++ b.
Proof.
  intros H. rewrite skipn_app. replace (j - length l) with 0 by lia. reflexivity.
Qed.

Lemma deque_push_lastn (limit : nat) p x :
  deque_push limit (lastn limit p) x = lastn limit (p ++ [x]).
Proof.
  unfold deque_push, lastn. rewrite !app_length, skipn_length. cbn [length].
  destruct (Nat.le_gt_cases limit (length p)) as [H|H].
  - replace (length p - (length p - limit) + 1) with (S limit) by lia.
    destruct (limit <? S limit) eqn:E; [|apply Nat.ltb_ge in E; lia].
    replace (length p + 1 - limit) with (S (length p - limit)) by lia.
    destruct (Nat.eq_dec limit 0) as [->|Hl].
    + rewrite Nat.sub_0_r. rewrite skipn_all. cbn [app tl].
      rewrite skipn_all2; [reflexivity|rewrite app_length; cbn; lia].
    + rewrite tl_app_ne.
      * rewrite tl_skipn. rewrite skipn_app_le by lia. reflexivity.
      * intros E0. apply (f_equal (@length A)) in E0. rewrite skipn_length in E0. cbn in E0. lia.
  - replace (length p - limit) with 0 by lia. cbn [skipn]. rewrite Nat.sub_0_r.
    destruct (limit <? length p + 1) eqn:E; [apply Nat.ltb_lt in E; lia|].
    replace (length p + 1 - limit) with 0 by lia. reflexivity.
Qed.

Lemma deque_fold (limit : nat) rest p :
  fold_left (deque_push limit) rest (lastn limit p) = lastn limit (p ++ rest).
Proof.
  revert p; induction rest as [|x rest IH]; intros p; cbn [fold_left].
  - now rewrite app_nil_r.
  - rewrite deque_push_lastn, IH, <- app_assoc. reflexivity.
Qed.

Lemma deque_collect (limit : nat) rest :
  fold_left (deque_push limit) rest [] = lastn limit rest.
Proof. apply (deque_fold limit rest []). Qed.

(* ---------- numbering ---------- *)
Lemma number_app k a b : number k (a ++ b) = number k a ++ number (k + length a) b.
Proof.
  revert k; induction a as [|x a IH]; intros k; cbn [number app length].
  - now rewrite Nat.add_0_r.
  - rewrite IH. replace (k + S (length a)) with (S k + length a) by lia. reflexivity.
Qed.

Lemma number_In k l lab r :
  In (LRow lab r) (number k l) -> exists j, lab = k + j /\ nth_error l j = Some r.
Proof.
  revert k; induction l as [|x l IH]; intros k H; cbn [number] in H; [destruct H|].
  destruct H as [H|H].
  - inversion H; subst. exists 0. split; [lia|reflexivity].
  - destruct (IH _ H) as (j & -> & Hj). exists (S j). split; [lia|exact Hj].
Qed.

Lemma number_no_ellipsis k l : ~ In (@LEllipsis A) (number k l).
Proof.
  revert k; induction l as [|x l IH]; intros k H; cbn [number] in H; [exact H|].
  destruct H as [H|H]; [discriminate|exact (IH _ H)].
Qed.

(* ---------- the two loops ---------- *)
Lemma lazy_lines_plain (limit ll : nat) t i off :
  (i <= limit -> (2 * limit <? ll) = false) -> (i <= limit \/ limit < i) ->
  (limit < i \/ (2 * limit <? ll) = false) ->
  lazy_lines limit ll t i off = number (i + off) t.
Proof.
  revert i; induction t as [|x t IH]; intros i H0 H1 H2; cbn [lazy_lines number]; [reflexivity|].
  assert (E : (i =? limit) && (2 * limit <? ll) = false).
  { destruct H2 as [H2|H2]; [|now rewrite H2, andb_false_r].
    destruct (i =? limit) eqn:E; [apply Nat.eqb_eq in E; lia|reflexivity]. }
  rewrite E. cbn [app]. f_equal. rewrite IH.
  - f_equal.
  - intros Hi. apply H0. lia.
  - lia.
  - destruct H2 as [H2|H2]; [left; lia|now right].
Qed.

Lemma lazy_lines_head (limit ll : nat) a b i off :
  i + length a = limit ->
  lazy_lines limit ll (a ++ b) i off = number (i + off) a ++ lazy_lines limit ll b limit off.
Proof.
  revert i; induction a as [|x a IH]; intros i H; cbn [length app lazy_lines number] in *.
  - rewrite Nat.add_0_r in H. now subst.
  - destruct (i =? limit) eqn:E; [apply Nat.eqb_eq in E; lia|]. cbn [andb app].
    f_equal. rewrite IH by lia. reflexivity.
Qed.

Lemma eager_lines_plain (limit n : nat) (tt : bool) t i :
  tt && (2 * limit <? n) = false -> eager_lines limit n tt t i = number (i + 1) t.
Proof.
  intros H. revert i; induction t as [|x t IH]; intros i; cbn [eager_lines number]; [reflexivity|].
  rewrite H. cbn [andb app]. f_equal. rewrite IH. reflexivity.
Qed.

Lemma eager_lines_after (limit n : nat) t i :
  2 * limit < n -> limit < i ->
  eager_lines limit n true t i = number (i + (n - 2 * limit) + 1) t.
Proof.
  intros Hn. revert i; induction t as [|x t IH]; intros i Hi; cbn [eager_lines number]; [reflexivity|].
  destruct (2 * limit <? n) eqn:E; [|apply Nat.ltb_ge in E; lia]. cbn [andb].
  destruct (i =? limit) eqn:E1; [apply Nat.eqb_eq in E1; lia|].
  destruct (limit <=? i) eqn:E2; [|apply Nat.leb_gt in E2; lia].
  cbn [app]. f_equal. rewrite IH by lia. f_equal.
Qed.

Lemma eager_lines_head (limit n : nat) a b i :
  2 * limit < n -> i + length a = limit ->
  eager_lines limit n true (a ++ b) i = number (i + 1) a ++ eager_lines limit n true b limit.
Proof.
  intros Hn. revert i; induction a as [|x a IH]; intros i H; cbn [length app eager_lines number] in *.
  - rewrite Nat.add_0_r in H. now subst.
  - destruct (2 * limit <? n) eqn:E; [|apply Nat.ltb_ge in E; lia]. cbn [andb].
    destruct (i =? limit) eqn:E1; [apply Nat.eqb_eq in E1; lia|].
    destruct (limit <=? i) eqn:E2; [apply Nat.leb_le in E2; lia|].
    cbn [app]. f_equal. rewrite IH by lia. reflexivity.
Qed.

(* ---------- main theorem ---------- *)
Theorem shown_lines_spec l (limit : nat) (tt lz : bool) :
  1 <= limit -> shown_lines l limit tt lz = spec_lines l limit tt.
Proof.
  intros Hl. unfold shown_lines, select_rows, spec_lines.
  destruct (limit =? 0) eqn:E0; [apply Nat.eqb_eq in E0; lia|].
  destruct tt; cbn [negb].
  2:{ (* head-only *)
    destruct lz.
    - cbv zeta. rewrite firstn_length.
      rewrite lazy_lines_plain; [reflexivity| | |].
      + intros _. apply Nat.ltb_ge. lia.
      + lia.
      + right. apply Nat.ltb_ge. lia.
    - rewrite eager_lines_plain by reflexivity. reflexivity. }
  destruct lz; cbn [negb andb].
  - (* lazy, top and tail *)
    rewrite deque_collect. unfold lastn. rewrite !skipn_length, firstn_length.
    set (n := length l).
    destruct (n <=? 2 * limit) eqn:E.
    + apply Nat.leb_le in E.
      assert (Hrest : skipn (n - limit - limit) (skipn limit l) = skipn limit l).
      { replace (n - limit - limit) with 0 by lia. reflexivity. }
      rewrite Hrest, firstn_skipn.
      rewrite lazy_lines_plain; [reflexivity| | |].
      * intros _. apply Nat.ltb_ge. lia.
      * lia.
      * right. apply Nat.ltb_ge. lia.
    + apply Nat.leb_gt in E.
      rewrite lazy_lines_head by (rewrite firstn_length; fold n; lia).
      replace (n - limit - 1 + (Nat.min limit n + 1)) with n by lia.
      rewrite skipn_add.
      replace (limit + (n - limit - limit)) with (n - limit) by lia.
      cbn [Nat.add]. f_equal.
      destruct (skipn (n - limit) l) as [|x r] eqn:Es.
      { apply (f_equal (@length A)) in Es. rewrite skipn_length in Es. fold n in Es. cbn in Es. lia. }
      cbn [lazy_lines number]. rewrite Nat.eqb_refl.
      destruct (2 * limit <? n) eqn:E2; [|apply Nat.ltb_ge in E2; lia].
      cbn [andb app]. f_equal. f_equal; [f_equal; lia|].
      rewrite lazy_lines_plain; [f_equal; lia| | |].
      * intros Hi. lia.
      * lia.
      * left. lia.
  - (* eager, top and tail *)
    set (n := length l).
    destruct (2 * limit + 1 <=? n) eqn:E.
    + apply Nat.leb_le in E.
      destruct (n <=? 2 * limit) eqn:E'; [apply Nat.leb_le in E'; lia|].
      rewrite eager_lines_head by (rewrite ?firstn_length; fold n; lia).
      cbn [Nat.add]. f_equal.
      unfold py_tail. fold n.
      rewrite (firstn_all2 (skipn (n - limit) l)) by (rewrite skipn_length; fold n; lia).
      destruct (skipn (n - limit) l) as [|x r] eqn:Es.
      { apply (f_equal (@length A)) in Es. rewrite skipn_length in Es. fold n in Es. cbn in Es. lia. }
      cbn [eager_lines number]. rewrite Nat.eqb_refl, Nat.leb_refl.
      destruct (2 * limit <? n) eqn:E2; [|apply Nat.ltb_ge in E2; lia].
      cbn [andb app]. f_equal. f_equal; [f_equal; lia|].
      rewrite eager_lines_after by lia. f_equal. lia.
    + apply Nat.leb_gt in E.
      destruct (n <=? 2 * limit) eqn:E'; [|apply Nat.leb_gt in E'; lia].
      rewrite eager_lines_plain; [reflexivity|].
      destruct (2 * limit <? n) eqn:E2; [apply Nat.ltb_lt in E2; lia|reflexivity].
Qed.

(* ---------- consequences read off the specification ---------- *)
Lemma nth_error_firstn_Some l k j r : nth_error (firstn k l) j = Some r -> nth_error l j = Some r.
Proof.
  revert l j; induction k as [|k IH]; intros [|x l] [|j] H; cbn in *; try discriminate; auto.
Qed.

Lemma nth_error_skipn l k j : nth_error (skipn k l) j = nth_error l (k + j).
Proof.
  revert l; induction k as [|k IH]; intros [|x l]; cbn [skipn Nat.add nth_error]; auto.
  now destruct j.
Qed.

(* every label is the row's true 1-based position *)
Theorem labels_true_position l (limit : nat) (tt lz : bool) lab r :
  1 <= limit -> In (LRow lab r) (shown_lines l limit tt lz) ->
  1 <= lab /\ nth_error l (lab - 1) = Some r.
Proof.
  intros Hl. rewrite shown_lines_spec by exact Hl. unfold spec_lines.
  destruct tt.
  - destruct (length l <=? 2 * limit) eqn:E.
    + intros H. destruct (number_In _ _ _ _ H) as (j & -> & Hj). split; [lia|].
      now replace (1 + j - 1) with j by lia.
    + apply Nat.leb_gt in E. intros H. apply in_app_or in H. destruct H as [H|H].
      * destruct (number_In _ _ _ _ H) as (j & -> & Hj). split; [lia|].
        replace (1 + j - 1) with j by lia. eapply nth_error_firstn_Some; eauto.
      * apply in_app_or in H. destruct H as [[H|[]]|H]; [discriminate|].
        destruct (number_In _ _ _ _ H) as (j & -> & Hj). split; [lia|].
        rewrite nth_error_skipn in Hj. rewrite <- Hj. f_equal. lia.
  - intros H. destruct (number_In _ _ _ _ H) as (j & -> & Hj). split; [lia|].
    replace (1 + j - 1) with j by lia. eapply nth_error_firstn_Some; eauto.
Qed.

Lemma label_le_length l (limit : nat) (tt lz : bool) lab r :
  1 <= limit -> In (LRow lab r) (shown_lines l limit tt lz) -> lab <= length l /\ In r l.
Proof.
  intros Hl H. destruct (labels_true_position _ _ _ _ _ _ Hl H) as [H1 H2].
  split.
  - assert (lab - 1 < length l) by (apply nth_error_Some; congruence). lia.
  - eapply nth_error_In; eauto.
Qed.

Definition rows_of (ls : list (line A)) : list A :=
  flat_map (fun x => match x with LRow _ r => [r] | LEllipsis => [] end) ls.
Definition ellipses (ls : list (line A)) : nat :=
  length (filter (fun x => match x with LEllipsis => true | _ => false end) ls).

Lemma rows_of_number k l : rows_of (number k l) = l.
Proof.
  unfold rows_of. revert k; induction l as [|x l IH]; intros k; cbn [number flat_map app]; [reflexivity|now rewrite IH].
Qed.
Lemma ellipses_number k l : ellipses (number k l) = 0.
Proof. unfold ellipses. revert k; induction l as [|x l IH]; intros k; cbn; [reflexivity|apply IH]. Qed.
Lemma labels_number k l : labels_of (number k l) = seq k (length l).
Proof.
  unfold labels_of. revert k; induction l as [|x l IH]; intros k; cbn [number flat_map app length seq]; [reflexivity|now rewrite IH].
Qed.

Lemma rows_of_app x y : rows_of (x ++ y) = rows_of x ++ rows_of y.
Proof. apply flat_map_app. Qed.
Lemma ellipses_app x y : ellipses (x ++ y) = ellipses x + ellipses y.
Proof. unfold ellipses. now rewrite filter_app, app_length. Qed.
Lemma labels_app (x y : list (line A)) : labels_of (x ++ y) = labels_of x ++ labels_of y.
Proof. apply flat_map_app. Qed.

(* the rows shown, the labels, and the number of ellipsis lines, in closed form *)
Theorem shown_rows_labels_ellipsis l (limit : nat) (tt lz : bool) :
  1 <= limit ->
  let n := length l in
  let ls := shown_lines l limit tt lz in
  (tt = false ->
     rows_of ls = firstn limit l /\ labels_of ls = seq 1 (Nat.min limit n) /\ ellipses ls = 0) /\
  (tt = true -> n <= 2 * limit ->
     rows_of ls = l /\ labels_of ls = seq 1 n /\ ellipses ls = 0) /\
  (tt = true -> 2 * limit < n ->
     rows_of ls = firstn limit l ++ skipn (n - limit) l /\
     labels_of ls = seq 1 limit ++ seq (n - limit + 1) limit /\
     ellipses ls = 1 /\
     nth_error ls limit = Some LEllipsis).
Proof.
  intros Hl n ls. subst ls. rewrite shown_lines_spec by exact Hl. unfold spec_lines. fold n.
  assert (NL : forall k (x : list A), length (number k x) = length x).
  { intros k x. revert k. induction x; intros; cbn; auto. }
  split; [|split].
  - intros ->. cbv iota. rewrite rows_of_number, labels_number, ellipses_number, firstn_length. fold n. auto.
  - intros -> Hn. cbv iota. apply Nat.leb_le in Hn. rewrite Hn.
    rewrite rows_of_number, labels_number, ellipses_number. auto.
  - intros -> Hn. cbv iota. destruct (n <=? 2 * limit) eqn:E; [apply Nat.leb_le in E; lia|].
    rewrite !rows_of_app, !labels_app, !ellipses_app, !rows_of_number, !labels_number, !ellipses_number.
    rewrite firstn_length, skipn_length. fold n.
    replace (Nat.min limit n) with limit by lia. replace (n - (n - limit)) with limit by lia.
    repeat split.
    rewrite nth_error_app2 by (rewrite NL, firstn_length; fold n; lia).
    rewrite NL, firstn_length. fold n. replace (limit - Nat.min limit n) with 0 by lia. reflexivity.
Qed.

End Sel.
