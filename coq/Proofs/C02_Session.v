(* C02 - sessions: handles (row classes, frames, rows) keep their meaning whatever else is created
   or used in the same process.  Induction over histories of the state machine in Model/C02.v. *)
From Coq Require Import List Bool Lia Arith.
From Orso Require Import Model.C02 Proofs.C02.
Import ListNotations.

Section SessionProofs.
Variables K V : Type.
Variable eqK : forall a b : K, {a = b} + {a <> b}.
Variable vnone : V.

Notation sstate := (sstate K V).
Notation sop := (sop K V).
Notation sstep := (sstep eqK vnone).
Notation srun := (srun eqK vnone).
Notation extract := (extract eqK vnone).
Notation row_out := (row_out eqK).

(* ---------- lists ---------- *)
Lemma nth_error_app_keep {A : Type} (l m : list A) (i : nat) (x : A) :
  nth_error l i = Some x -> nth_error (l ++ m) i = Some x.
Proof.
  intros H. rewrite nth_error_app1; [exact H|]. apply nth_error_Some. congruence.
Qed.

Lemma nth_error_app_new {A : Type} (l : list A) (x : A) : nth_error (l ++ [x]) (length l) = Some x.
Proof. rewrite nth_error_app2 by lia. now rewrite Nat.sub_diag. Qed.

Lemma set_nth_other {A : Type} (l : list A) (i j : nat) (x : A) :
  i <> j -> nth_error (set_nth l i x) j = nth_error l j.
Proof.
  revert i j. induction l as [|y r IH]; intros [|i] [|j] H; cbn; try reflexivity; try congruence.
  apply IH. congruence.
Qed.

Lemma set_nth_same {A : Type} (l : list A) (i : nat) (x y : A) :
  nth_error l i = Some y -> nth_error (set_nth l i x) i = Some x.
Proof.
  revert i. induction l as [|z r IH]; intros [|i] H; cbn in *; try discriminate; [reflexivity|now apply IH].
Qed.

(* ---------- one step ---------- *)
Lemma sstep_classes (s : sstate) (o : sop) (c : nat) (x : list K * bool) :
  nth_error (s_classes s) c = Some x -> nth_error (s_classes (fst (sstep s o))) c = Some x.
Proof.
  intros H. destruct o as [fs t|cols rows|ds|cols|c' d|c' cells|f d|f|r|f0 cols0|f0 n0]; cbn [C02.sstep fst s_classes]; try exact H.
  - now apply nth_error_app_keep.
  - destruct (nth_error (s_classes s) c') as [[fs [|]]|]; exact H.
  - destruct (nth_error (s_classes s) c') as [[fs t]|]; exact H.
  - destruct (nth_error (s_frames s) f) as [[[|] fr]|]; exact H.
  - destruct (nth_error (s_frames s) f) as [[b fr]|]; exact H.
  - destruct (nth_error (s_rows s) r); exact H.
  - destruct (nth_error (s_frames s) f0) as [[b fr]|]; exact H.
  - destruct (nth_error (s_frames s) f0) as [[b fr]|]; exact H.
Qed.

Lemma sstep_rows (s : sstate) (o : sop) (r : nat) (x : list K * list V) :
  nth_error (s_rows s) r = Some x -> nth_error (s_rows (fst (sstep s o))) r = Some x.
Proof.
  intros H. destruct o as [fs t|cols rows|ds|cols|c' d|c' cells|f d|f|r'|f0 cols0|f0 n0]; cbn [C02.sstep fst s_rows]; try exact H.
  - destruct (nth_error (s_classes s) c') as [[fs [|]]|]; cbn [fst s_rows]; [exact H| |exact H].
    now apply nth_error_app_keep.
  - destruct (nth_error (s_classes s) c') as [[fs t]|]; cbn [fst s_rows]; [|exact H].
    now apply nth_error_app_keep.
  - destruct (nth_error (s_frames s) f) as [[[|] fr]|]; exact H.
  - destruct (nth_error (s_frames s) f) as [[b fr]|]; exact H.
  - destruct (nth_error (s_rows s) r'); exact H.
  - destruct (nth_error (s_frames s) f0) as [[b fr]|]; exact H.
  - destruct (nth_error (s_frames s) f0) as [[b fr]|]; exact H.
Qed.

(* a frame that does not take dictionaries (built from Arrow) never changes *)
Lemma sstep_frames_fixed (s : sstate) (o : sop) (f : nat) (fr : list K * list (list V)) :
  nth_error (s_frames s) f = Some (false, fr) -> nth_error (s_frames (fst (sstep s o))) f = Some (false, fr).
Proof.
  intros H. destruct o as [fs t|cols rows|ds|cols|c' d|c' cells|f' d|f'|r'|f0 cols0|f0 n0]; cbn [C02.sstep fst s_frames]; try exact H;
    try (now apply nth_error_app_keep).
  - destruct (nth_error (s_classes s) c') as [[fs [|]]|]; exact H.
  - destruct (nth_error (s_classes s) c') as [[fs t]|]; exact H.
  - destruct (nth_error (s_frames s) f') as [[[|] fr']|] eqn:E; cbn [fst s_frames]; try exact H.
    destruct (Nat.eq_dec f' f) as [->|N]; [congruence|]. now rewrite set_nth_other.
  - destruct (nth_error (s_frames s) f') as [[b fr']|]; exact H.
  - destruct (nth_error (s_rows s) r'); exact H.
  - destruct (nth_error (s_frames s) f0) as [[b fr']|]; cbn [fst s_frames]; [now apply nth_error_app_keep|exact H].
  - destruct (nth_error (s_frames s) f0) as [[b fr']|]; cbn [fst s_frames]; [now apply nth_error_app_keep|exact H].
Qed.

(* a frame that takes dictionaries keeps its columns and only grows, by rows as wide as the columns *)
Definition grown (cols : list K) (rows : list (list V)) (s : sstate) (f : nat) : Prop :=
  exists extra, nth_error (s_frames s) f = Some (true, (cols, rows ++ extra)) /\
                Forall (fun r => length r = length cols) extra.

Lemma sstep_frames_grow (s : sstate) (o : sop) (f : nat) (cols : list K) (rows : list (list V)) :
  grown cols rows s f -> grown cols rows (fst (sstep s o)) f.
Proof.
  intros [extra [H W]].
  destruct o as [fs t|cols' rows'|ds|cols'|c' d|c' cells|f' d|f'|r'|f0 cols0|f0 n0]; cbn [C02.sstep fst s_frames];
    try (exists extra; split; [exact H|exact W]);
    try (exists extra; split; [now apply nth_error_app_keep|exact W]).
  - destruct (nth_error (s_classes s) c') as [[fs [|]]|]; exists extra; split; assumption.
  - destruct (nth_error (s_classes s) c') as [[fs t]|]; exists extra; split; assumption.
  - destruct (nth_error (s_frames s) f') as [[[|] fr']|] eqn:E; cbn [fst s_frames];
      try (exists extra; split; assumption).
    destruct (Nat.eq_dec f' f) as [->|N].
    + rewrite H in E. inversion E; subst fr'. exists (extra ++ [extract cols d]). cbn [fst s_frames]. split.
      * rewrite (set_nth_same _ _ _ _ H). unfold C02.frame_append. cbn [fst snd]. now rewrite <- app_assoc.
      * apply Forall_app. split; [exact W|]. constructor; [apply extract_length|constructor].
    + exists extra. cbn [fst s_frames]. split; [now rewrite set_nth_other|exact W].
  - destruct (nth_error (s_frames s) f') as [[b fr']|]; exists extra; split; assumption.
  - destruct (nth_error (s_rows s) r'); exists extra; split; assumption.
  - destruct (nth_error (s_frames s) f0) as [[b fr']|]; exists extra; cbn [fst s_frames];
      (split; [try (now apply nth_error_app_keep); exact H|exact W]).
  - destruct (nth_error (s_frames s) f0) as [[b fr']|]; exists extra; cbn [fst s_frames];
      (split; [try (now apply nth_error_app_keep); exact H|exact W]).
Qed.

(* ---------- whole histories ---------- *)
Lemma srun_cons (s : sstate) (o : sop) (ops : list sop) :
  fst (srun s (o :: ops)) = fst (srun (fst (sstep s o)) ops).
Proof.
  cbn [C02.srun]. destruct (sstep s o) as [s1 x]. cbn [fst]. now destruct (srun s1 ops).
Qed.

Lemma srun_classes (ops : list sop) (s : sstate) (c : nat) (x : list K * bool) :
  nth_error (s_classes s) c = Some x -> nth_error (s_classes (fst (srun s ops))) c = Some x.
Proof.
  revert s. induction ops as [|o r IH]; intros s H; [exact H|].
  rewrite srun_cons. apply IH. now apply sstep_classes.
Qed.

Lemma srun_rows (ops : list sop) (s : sstate) (r : nat) (x : list K * list V) :
  nth_error (s_rows s) r = Some x -> nth_error (s_rows (fst (srun s ops))) r = Some x.
Proof.
  revert s. induction ops as [|o q IH]; intros s H; [exact H|].
  rewrite srun_cons. apply IH. now apply sstep_rows.
Qed.

Lemma srun_frames_fixed (ops : list sop) (s : sstate) (f : nat) (fr : list K * list (list V)) :
  nth_error (s_frames s) f = Some (false, fr) -> nth_error (s_frames (fst (srun s ops))) f = Some (false, fr).
Proof.
  revert s. induction ops as [|o q IH]; intros s H; [exact H|].
  rewrite srun_cons. apply IH. now apply sstep_frames_fixed.
Qed.

Lemma srun_frames_grow (ops : list sop) (s : sstate) (f : nat) (cols : list K) (rows : list (list V)) :
  grown cols rows s f -> grown cols rows (fst (srun s ops)) f.
Proof.
  revert s. induction ops as [|o q IH]; intros s H; [exact H|].
  rewrite srun_cons. apply IH. now apply sstep_frames_grow.
Qed.

(* ---------- the statements used by Props ---------- *)
(* a dictionary-aware class, created after any history, builds rows by field name after any further history *)
Lemma session_row_by_name (s : sstate) (fs : list K) (ops : list sop) (d : list (K * V)) :
  snd (sstep (fst (srun (fst (sstep s (SClass fs false))) ops)) (SRowDict (length (s_classes s)) d)) =
  SORow fs (extract fs d) (as_dict eqK fs (extract fs d)).
Proof.
  assert (H : nth_error (s_classes (fst (sstep s (SClass fs false)))) (length (s_classes s)) = Some (fs, false))
    by (cbn [C02.sstep fst s_classes]; apply nth_error_app_new).
  apply (srun_classes ops) in H. revert H. generalize (fst (srun (fst (sstep s (SClass fs false))) ops)).
  intros s' H. cbn [C02.sstep]. rewrite H. reflexivity.
Qed.

(* any class handle keeps its field list: a tuple given to it is stored as is under those names *)
Lemma session_row_of_tuple (s : sstate) (fs : list K) (t : bool) (ops : list sop) (cells : list V) :
  snd (sstep (fst (srun (fst (sstep s (SClass fs t))) ops)) (SRowTuple (length (s_classes s)) cells)) =
  SORow fs cells (as_dict eqK fs cells).
Proof.
  assert (H : nth_error (s_classes (fst (sstep s (SClass fs t)))) (length (s_classes s)) = Some (fs, t))
    by (cbn [C02.sstep fst s_classes]; apply nth_error_app_new).
  apply (srun_classes ops) in H. revert H. generalize (fst (srun (fst (sstep s (SClass fs t))) ops)).
  intros s' H. cbn [C02.sstep]. rewrite H. reflexivity.
Qed.

Lemma session_frame_grown (s : sstate) (f : nat) (cols : list K) (rows : list (list V)) (ops : list sop)
      (d : list (K * V)) :
  nth_error (s_frames s) f = Some (true, (cols, rows)) ->
  exists extra,
    Forall (fun r => length r = length cols) extra /\
    snd (sstep (fst (srun s ops)) (SRows f)) = SOFrame cols (rows ++ extra) /\
    snd (sstep (fst (srun s ops)) (SAppend f d)) = SOFrame cols (rows ++ extra ++ [extract cols d]).
Proof.
  intros H.
  assert (G : grown cols rows s f) by (exists []; rewrite app_nil_r; split; [exact H|constructor]).
  apply (srun_frames_grow ops) in G. destruct G as [extra [E W]].
  exists extra. split; [exact W|]. cbn [C02.sstep]. rewrite E. cbn [fst snd]. split; [reflexivity|].
  unfold C02.frame_append. cbn [fst snd]. now rewrite <- app_assoc.
Qed.

(* DataFrame(dicts) / DataFrame(rows=[], schema=cols) after any history, then any further history *)
Lemma session_frame_of_dicts (s : sstate) (ds : list (list (K * V))) (ops : list sop) (d : list (K * V)) :
  let cols := fst (frame_of_dicts eqK vnone ds) in
  exists extra,
    Forall (fun r => length r = length cols) extra /\
    snd (sstep (fst (srun (fst (sstep s (SFrame ds))) ops)) (SAppend (length (s_frames s)) d)) =
    SOFrame cols (map (extract cols) ds ++ extra ++ [extract cols d]).
Proof.
  cbv zeta.
  destruct (session_frame_grown (fst (sstep s (SFrame ds))) (length (s_frames s))
              (fst (frame_of_dicts eqK vnone ds)) (snd (frame_of_dicts eqK vnone ds)) ops d) as [extra [W [_ A]]].
  - cbn [C02.sstep fst s_frames]. rewrite nth_error_app_new. now destruct (frame_of_dicts eqK vnone ds).
  - exists extra. split; [exact W|exact A].
Qed.

Lemma session_frame_named (s : sstate) (cols : list K) (ops : list sop) (d : list (K * V)) :
  exists extra,
    Forall (fun r => length r = length cols) extra /\
    snd (sstep (fst (srun (fst (sstep s (SNamed cols))) ops)) (SAppend (length (s_frames s)) d)) =
    SOFrame cols (extra ++ [extract cols d]).
Proof.
  destruct (session_frame_grown (fst (sstep s (SNamed cols))) (length (s_frames s)) cols [] ops d)
    as [extra [W [_ A]]].
  - cbn [C02.sstep fst s_frames]. apply nth_error_app_new.
  - exists extra. split; [exact W|exact A].
Qed.

(* frames made from the Row objects of another frame (under a column list of their own, or cut down by
   head / slice / query) map appended dictionaries onto their OWN columns, after any history *)
Lemma session_reframe (s : sstate) (f : nat) (b : bool) (fr : list K * list (list V)) (cols : list K)
      (ops : list sop) (d : list (K * V)) :
  nth_error (s_frames s) f = Some (b, fr) ->
  snd (sstep s (SReframe f cols)) = SOFrame cols (snd fr) /\
  exists extra,
    Forall (fun r => length r = length cols) extra /\
    snd (sstep (fst (srun (fst (sstep s (SReframe f cols))) ops)) (SAppend (length (s_frames s)) d)) =
    SOFrame cols (snd fr ++ extra ++ [extract cols d]).
Proof.
  intros H. split; [cbn [C02.sstep]; now rewrite H|].
  destruct (session_frame_grown (fst (sstep s (SReframe f cols))) (length (s_frames s)) cols (snd fr) ops d)
    as [extra [W [_ A]]].
  - cbn [C02.sstep]. rewrite H. cbn [fst s_frames]. apply nth_error_app_new.
  - exists extra. split; [exact W|exact A].
Qed.

Lemma session_derive (s : sstate) (f : nat) (b : bool) (fr : list K * list (list V)) (n : nat)
      (ops : list sop) (d : list (K * V)) :
  nth_error (s_frames s) f = Some (b, fr) ->
  snd (sstep s (SDerive f n)) = SOFrame (fst fr) (firstn n (snd fr)) /\
  exists extra,
    Forall (fun r => length r = length (fst fr)) extra /\
    snd (sstep (fst (srun (fst (sstep s (SDerive f n))) ops)) (SAppend (length (s_frames s)) d)) =
    SOFrame (fst fr) (firstn n (snd fr) ++ extra ++ [extract (fst fr) d]).
Proof.
  intros H. split; [cbn [C02.sstep]; now rewrite H|].
  destruct (session_frame_grown (fst (sstep s (SDerive f n))) (length (s_frames s)) (fst fr) (firstn n (snd fr)) ops d)
    as [extra [W [_ A]]].
  - cbn [C02.sstep]. rewrite H. cbn [fst s_frames]. apply nth_error_app_new.
  - exists extra. split; [exact W|exact A].
Qed.

(* a frame read from Arrow is not touched by anything that happens later *)
Lemma session_arrow_fixed (s : sstate) (cols : list K) (rows : list (list V)) (ops : list sop) :
  snd (sstep (fst (srun (fst (sstep s (SArrow cols rows))) ops)) (SRows (length (s_frames s)))) =
  SOFrame cols rows.
Proof.
  assert (H : nth_error (s_frames (fst (sstep s (SArrow cols rows)))) (length (s_frames s)) = Some (false, (cols, rows)))
    by (cbn [C02.sstep fst s_frames]; apply nth_error_app_new).
  apply (srun_frames_fixed ops) in H. revert H. generalize (fst (srun (fst (sstep s (SArrow cols rows))) ops)).
  intros s' H. cbn [C02.sstep]. now rewrite H.
Qed.

(* a row, once built, reads the same whatever happens later *)
Lemma session_view_stable (s : sstate) (r : nat) (fr : list K * list V) (ops : list sop) :
  nth_error (s_rows s) r = Some fr ->
  snd (sstep (fst (srun s ops)) (SView r)) = row_out fr.
Proof.
  intros H. apply (srun_rows ops) in H. cbn [C02.sstep]. now rewrite H.
Qed.

End SessionProofs.
