(* C17, round 2 - open iterators: lemmas about [hstep] / [hrun] / [drop_loop] of Model/C17.v.
   An iterator opened on a schema yields exactly the names of the columns the schema had when it was
   opened, in positional order, whatever calls (removals on that very schema included) are made
   between its steps; the iterator operations never touch a schema, so every theorem about plain
   histories ([run]) transfers to histories with iterators ([hrun]). *)
From Coq Require Import List Arith Bool Lia.
From Orso Require Import Model.C17 Proofs.C17.
Import ListNotations.

Section Iter.
Variables I T P : Type.
Variable ieqb : I -> I -> bool.
Variable teqb : T -> T -> bool.
Variable lower : T -> T.
Variable peqb : P -> P -> bool.

Notation col := (col I T P).
Notation schema := (schema I T P).
Notation hstep := (hstep ieqb teqb lower peqb).
Notation hrun := (hrun ieqb teqb lower peqb).
Notation step := (step ieqb teqb lower).
Notation run := (run ieqb teqb lower).

(* the plain calls of a history with iterators *)
Definition plain (hops : list (hop T)) : list (op T) :=
  flat_map (fun h => match h with HOp o => [o] | HIAdd i j => [OAdd i j] | _ => [] end) hops.

(* round 7: `acc = store[i]; acc += store[j]` counts as the plain call store[i] + store[j] *)
Definition is_plain (h : hop T) : bool := match h with HOp _ | HIAdd _ _ => true | _ => false end.
(* the in-place mutations by the caller (round 3) *)
Definition mutates (h : hop T) : bool :=
  match h with HRename _ _ _ | HSetAliases _ _ _ | HInsertFrom _ _ _ _ | HDelAt _ _ => true | _ => false end.
Definition is_next (k : nat) (h : hop T) : bool := match h with HNext j => Nat.eqb j k | _ => false end.

(* the entries of a per-call list [xs] that belong to the calls satisfying [f] *)
Fixpoint select {A : Type} (f : hop T -> bool) (hops : list (hop T)) (xs : list A) : list A :=
  match hops, xs with
  | h :: r, x :: s => if f h then x :: select f r s else select f r s
  | _, _ => []
  end.

(* what m successive next() calls on an iterator with remaining names l return *)
Fixpoint expected_nexts (l : list T) (m : nat) : list (out T P) :=
  match m with
  | O => []
  | S m' => match l with
            | [] => XStop :: expected_nexts [] m'
            | n :: r => XItem n :: expected_nexts r m'
            end
  end.

Lemma set_it_same (its : iters T) : forall k l, k < length its -> nth_error (set_it its k l) k = Some l.
Proof.
  induction its as [|x its IH]; intros k l H; simpl in *; [lia|].
  destruct k as [|k]; simpl; [reflexivity|]. apply IH. lia.
Qed.

Lemma set_it_other (its : iters T) : forall k j l, j <> k -> nth_error (set_it its k l) j = nth_error its j.
Proof.
  induction its as [|x its IH]; intros k j l H; simpl; [destruct k; reflexivity|].
  destruct k as [|k]; destruct j as [|j]; simpl; try reflexivity; [contradiction|].
  apply IH. intros ->. apply H. reflexivity.
Qed.

(* iterator operations never touch a schema; plain calls never touch an iterator *)
Lemma hstep_plain (st : list schema) (its : iters T) (o : op T) :
  hstep (st, its) (HOp o) = ((fst (step st o), its), snd (step st o)).
Proof. simpl. destruct (step st o) as (st', x). reflexivity. Qed.

(* round 7: the augmented assignment is the plain sum, as a step *)
Lemma hstep_iadd (sti : list schema * iters T) (i j : nat) :
  hstep sti (HIAdd i j) = hstep sti (HOp (OAdd i j)).
Proof. destruct sti as (st, its). reflexivity. Qed.

Lemma hstep_iter_store (st : list schema) (its : iters T) (h : hop T) :
  is_plain h = false -> mutates h = false -> fst (fst (hstep (st, its) h)) = st.
Proof.
  destruct h as [o|i|k|i ci keys|i q n|i q al|i p j q|i p|i j]; simpl; try discriminate; intros _ _.
  - destruct (nth_error st i); reflexivity.
  - destruct (nth_error its k) as [[|n r]|]; reflexivity.
  - destruct (nth_error st i); reflexivity.
Qed.

(* the store of a history with iterators is the store of its plain calls, and the plain calls return
   (and leave behind, in every schema) what they do without the iterators *)
Lemma hrun_store (hops : list (hop T)) : forall (st : list schema) (its : iters T),
  forallb (fun h => negb (mutates h)) hops = true ->
  fst (fst (hrun (st, its) hops)) = fst (run st (plain hops)) /\
  select is_plain hops (snd (hrun (st, its) hops)) = snd (run st (plain hops)).
Proof.
  induction hops as [|h hops IH]; intros st its Hm; [split; reflexivity|].
  cbn [forallb] in Hm. apply andb_true_iff in Hm. destruct Hm as (Hh & Hm). apply negb_true_iff in Hh.
  destruct (is_plain h) eqn:Ep.
  - assert (Ho : exists o, hstep (st, its) h = hstep (st, its) (HOp o) /\ plain (h :: hops) = o :: plain hops).
    { destruct h as [o| | | | | | | |i j]; try discriminate.
      - exists o. split; reflexivity.
      - exists (OAdd i j). split; reflexivity. }
    destruct Ho as (o & Eo & Epl). rewrite Epl. cbn [C17.hrun C17.run]. rewrite Eo, hstep_plain.
    destruct (step st o) as (st1, x) eqn:Es. cbn [fst snd].
    pose proof (IH st1 its Hm) as (IH1 & IH2).
    unfold store in *. destruct (hrun (st1, its) hops) as (sti2, xs) eqn:Eh.
    destruct (run st1 (plain hops)) as (st2, ys) eqn:Er.
    cbn [fst snd select] in *. rewrite Ep. split; [exact IH1|]. rewrite IH2. reflexivity.
  - assert (Epl : plain (h :: hops) = plain hops) by (destruct h; try discriminate; reflexivity).
    rewrite Epl. cbn [C17.hrun].
    destruct (hstep (st, its) h) as (sti1, x) eqn:Es.
    assert (E1 : fst sti1 = st) by (pose proof (hstep_iter_store st its h Ep Hh) as F; rewrite Es in F; exact F).
    destruct sti1 as (st1, its1). cbn [fst] in E1. subst st1.
    pose proof (IH st its1 Hm) as IH'. unfold store in *. destruct (hrun (st, its1) hops) as (sti2, xs) eqn:Eh.
    cbn [fst snd select] in *. rewrite Ep. exact IH'.
Qed.

(* one call seen from an open iterator k with remaining names l: a next() on k yields the head and
   leaves the tail (StopIteration on the empty list, which stays empty); every other call - a removal
   on the schema the iterator was opened on included - leaves it as it is *)
Lemma hstep_iterator (st : list schema) (its : iters T) (h : hop T) (k : nat) (l : list T) :
  nth_error its k = Some l ->
  if is_next k h
  then match l with
       | n :: r => snd (hstep (st, its) h) = XItem n /\ nth_error (snd (fst (hstep (st, its) h))) k = Some r
       | [] => snd (hstep (st, its) h) = XStop /\ nth_error (snd (fst (hstep (st, its) h))) k = Some []
       end
  else nth_error (snd (fst (hstep (st, its) h))) k = Some l.
Proof.
  intros Hk. assert (Hlt : k < length its) by (apply nth_error_Some; rewrite Hk; discriminate).
  destruct h as [o|i|j|i ci keys|i q n|i q al|i p j q|i p|i j]; cbn [is_next];
    [ | | | simpl; unfold C17.with_col;
            repeat match goal with |- context [match ?x with _ => _ end] => destruct x end; exact Hk .. | ];
    [ | | | rewrite hstep_iadd, hstep_plain; exact Hk ].
  - rewrite hstep_plain. exact Hk.
  - simpl. destruct (nth_error st i); simpl; [|exact Hk]. rewrite nth_error_app1; assumption.
  - destruct (Nat.eqb j k) eqn:E.
    + apply Nat.eqb_eq in E. subst j. simpl. rewrite Hk. destruct l as [|n r]; simpl.
      * split; [reflexivity | exact Hk].
      * split; [reflexivity | apply set_it_same; exact Hlt].
    + apply Nat.eqb_neq in E. simpl. destruct (nth_error its j) as [[|n r]|]; simpl; try exact Hk.
      rewrite set_it_other; [exact Hk | intros ->; apply E; reflexivity].
Qed.

(* ITERATION IS A SNAPSHOT: over every later history, the successive next() calls on an open iterator
   return its remaining names in order and then StopIteration for ever *)
Lemma iterator_yields (hops : list (hop T)) : forall (st : list schema) (its : iters T) (k : nat) (l : list T),
  nth_error its k = Some l ->
  map fst (select (is_next k) hops (snd (hrun (st, its) hops))) =
    expected_nexts l (length (filter (is_next k) hops)).
Proof.
  induction hops as [|h hops IH]; intros st its k l Hk; [reflexivity|].
  cbn [C17.hrun filter].
  pose proof (hstep_iterator st its h k l Hk) as Hs.
  destruct (hstep (st, its) h) as ((st1, its1), x) eqn:Es. cbn [fst snd] in Hs.
  unfold store in *. destruct (hrun (st1, its1) hops) as (sti2, xs) eqn:Eh. cbn [snd select].
  destruct (is_next k h).
  - destruct l as [|n r]; destruct Hs as (Hx & Hk1); subst x;
      specialize (IH st1 its1 k _ Hk1); rewrite Eh in IH; cbn [snd] in IH;
      cbn [map fst length expected_nexts]; rewrite IH; reflexivity.
  - specialize (IH st1 its1 k l Hs). rewrite Eh in IH. exact IH.
Qed.

(* opening: iter(store[i]) consumes nothing, changes no schema, and the new iterator - number
   [length its] - then yields the column names store[i] had AT THAT MOMENT, in positional order,
   whatever is called between its steps *)
Lemma open_iterator_snapshot (st : list schema) (its : iters T) (i : nat) (s : schema) (hops : list (hop T)) :
  nth_error st i = Some s ->
  hstep (st, its) (HOpen i) = ((st, its ++ [column_names s]), XOpened) /\
  map fst (select (is_next (length its)) hops (snd (hrun (st, its ++ [column_names s]) hops))) =
    expected_nexts (column_names s) (length (filter (is_next (length its)) hops)).
Proof.
  intros Hs. split; [simpl; rewrite Hs; reflexivity|].
  apply iterator_yields. rewrite nth_error_app2, Nat.sub_diag by lia. reflexivity.
Qed.

Lemma expected_nexts_all (l : list T) (m : nat) :
  expected_nexts l (length l + m) = map (fun n => XItem n) l ++ repeat XStop m.
Proof.
  induction l as [|n r IH]; simpl.
  - induction m as [|m IHm]; simpl; [reflexivity|]. rewrite IHm. reflexivity.
  - rewrite IH. reflexivity.
Qed.

(* ---------- remove-while-iterating ---------- *)
Section WithTEq.
Hypothesis teqb_spec : forall a b, teqb a b = true <-> a = b.

Definition drop_body (pred : T -> bool) (s' : schema) (n : T) : schema :=
  if pred n then snd (pop_column teqb n s') else s'.

(* walking the names of [l] over a schema whose columns are kept ++ l, where no kept column has a name
   that [pred] selects: every selected column of l is removed, nothing else *)
Lemma drop_fold (pred : T -> bool) (nm : T) (al : list T) (l : list col) : forall kept : list col,
  (forall d, In d kept -> pred (cname d) = false) ->
  fold_left (drop_body pred) (map cname l) (mksch nm al (kept ++ l)) =
    mksch nm al (kept ++ filter (fun c => negb (pred (cname c))) l).
Proof.
  induction l as [|c l IH]; intros kept Hkept; [reflexivity|].
  cbn [map fold_left filter]. unfold drop_body at 2.
  destruct (pred (cname c)) eqn:Ep; cbn [negb].
  - rewrite (pop_hit I T P teqb teqb_spec (cname c) (mksch nm al (kept ++ c :: l)) kept c l eq_refl eq_refl).
    + cbn [snd sname saliases]. apply IH. exact Hkept.
    + intros d Hd Hn. rewrite <- Hn, (Hkept d Hd) in Ep. discriminate.
  - replace (kept ++ c :: l) with ((kept ++ [c]) ++ l) by (rewrite <- app_assoc; reflexivity).
    rewrite IH.
    + rewrite <- app_assoc. reflexivity.
    + intros d Hd. apply in_app_or in Hd. destruct Hd as [Hd|[<-|[]]]; [apply Hkept; exact Hd | exact Ep].
Qed.

(* `for n in schema: if pred(n): schema.pop_column(n)` removes exactly the columns whose name pred
   selects and keeps the others in order, with the schema's name and aliases *)
Lemma drop_loop_filter (pred : T -> bool) (s : schema) :
  drop_loop teqb pred s =
    mksch (sname s) (saliases s) (filter (fun c => negb (pred (cname c))) (scols s)).
Proof.
  destruct s as [nm al cols]. unfold C17.drop_loop, C17.iter_names. cbn [scols sname saliases].
  exact (drop_fold pred nm al cols [] (fun d F => match F with end)).
Qed.

(* in particular walking a schema and removing every name it yields empties it *)
Lemma drain_empties (s : schema) : scols (drop_loop teqb (fun _ => true) s) = [].
Proof.
  rewrite drop_loop_filter. cbn [scols]. induction (scols s) as [|c l IH]; [reflexivity | exact IH].
Qed.

(* ---------- the same loop as a HISTORY (what the correspondence runs) ---------- *)

(* it = iter(store[i]) has number k; for every name n of [names]: next(it), then pop_column(n) when pred n *)
Definition loop_hops (pred : T -> bool) (i k : nat) (names : list T) : list (hop T) :=
  flat_map (fun n => HNext k :: if pred n then [HOp (OPop i n)] else []) names.

Lemma plain_loop (pred : T -> bool) (i k : nat) (names : list T) :
  plain (loop_hops pred i k names) = map (OPop i) (filter pred names).
Proof.
  induction names as [|n r IH]; [reflexivity|].
  unfold loop_hops, plain in *. cbn [flat_map filter]. destruct (pred n); cbn [app flat_map map]; rewrite IH; reflexivity.
Qed.

Lemma nexts_loop (pred : T -> bool) (i k : nat) (names : list T) :
  length (filter (is_next k) (loop_hops pred i k names)) = length names.
Proof.
  induction names as [|n r IH]; [reflexivity|].
  unfold loop_hops in *. cbn [flat_map]. destruct (pred n); cbn [app filter is_next]; rewrite Nat.eqb_refl; cbn [length]; rewrite IH; reflexivity.
Qed.

Lemma loop_no_mutation (pred : T -> bool) (i k : nat) (names : list T) :
  forallb (fun h => negb (mutates h)) (loop_hops pred i k names) = true.
Proof.
  induction names as [|n r IH]; [reflexivity|].
  unfold loop_hops in *. cbn [flat_map]. destruct (pred n); cbn [app forallb mutates negb andb]; exact IH.
Qed.

Lemma set_nth_id (st : list schema) : forall i s, nth_error st i = Some s -> set_nth st i s = st.
Proof.
  induction st as [|x st IH]; intros [|i] s H; simpl in *; try discriminate.
  - injection H as ->. reflexivity.
  - rewrite IH; [reflexivity | exact H].
Qed.

Lemma set_nth_twice (st : list schema) : forall i a b, set_nth (set_nth st i a) i b = set_nth st i b.
Proof.
  induction st as [|x st IH]; intros [|i] a b; simpl; try reflexivity. rewrite IH. reflexivity.
Qed.

Lemma run_pops (ns : list T) : forall (st : list schema) (i : nat) (s : schema),
  nth_error st i = Some s ->
  fst (run st (map (OPop i) ns)) = set_nth st i (fold_left (fun s' n => snd (pop_column teqb n s')) ns s).
Proof.
  induction ns as [|n r IH]; intros st i s Hs; cbn [map fold_left C17.run fst].
  - symmetry. apply set_nth_id. exact Hs.
  - destruct (pop_in_history I T P ieqb teqb lower st i n s Hs) as (E & Hn & _).
    rewrite E in *. cbn [fst] in Hn.
    pose proof (IH _ i _ Hn) as IH'. unfold store in *.
    destruct (run (set_nth st i (snd (pop_column teqb n s))) (map (OPop i) r)) as (st2, xs) eqn:Er.
    cbn [fst] in *. rewrite IH'. apply set_nth_twice.
Qed.

Lemma fold_filter_pops (pred : T -> bool) (ns : list T) : forall s : schema,
  fold_left (fun s' n => snd (pop_column teqb n s')) (filter pred ns) s = fold_left (drop_body pred) ns s.
Proof.
  induction ns as [|n r IH]; intros s; [reflexivity|].
  cbn [filter fold_left]. unfold drop_body at 2. destruct (pred n); cbn [fold_left]; apply IH.
Qed.

(* `it = iter(store[i]); for n in it: if pred(n): store[i].pop_column(n)`, then one more next(it):
   the iterator yields every column name store[i] had when the loop started, in positional order, then
   StopIteration - although columns were removed under it - and afterwards store[i] holds exactly the
   columns whose name pred does not select (every other schema untouched) *)
Lemma remove_while_iterating (pred : T -> bool) (st : list schema) (its : iters T) (i : nat) (s : schema) :
  nth_error st i = Some s ->
  let k := length its in
  let hops := HOpen i :: loop_hops pred i k (column_names s) ++ [HNext k] in
  fst (fst (hrun (st, its) hops)) =
    set_nth st i (mksch (sname s) (saliases s) (filter (fun c => negb (pred (cname c))) (scols s))) /\
  map fst (select (is_next k) hops (snd (hrun (st, its) hops))) =
    map (fun n => XItem n) (column_names s) ++ [XStop].
Proof.
  intros Hs k hops. split.
  - assert (Hm : forallb (fun h => negb (mutates h)) hops = true).
    { subst hops. cbn [forallb mutates negb andb]. rewrite forallb_app, loop_no_mutation. reflexivity. }
    rewrite (proj1 (hrun_store hops st its Hm)). subst hops.
    change (plain (HOpen i :: loop_hops pred i k (column_names s) ++ [HNext k]))
      with (plain (loop_hops pred i k (column_names s) ++ [HNext k])).
    unfold plain at 1. rewrite flat_map_app. fold (plain (loop_hops pred i k (column_names s))).
    cbn [flat_map]. rewrite app_nil_r, plain_loop, (run_pops _ st i s Hs), fold_filter_pops.
    f_equal. exact (drop_loop_filter pred s).
  - destruct (open_iterator_snapshot st its i s (loop_hops pred i k (column_names s) ++ [HNext k]) Hs) as (Eo & Ey).
    subst hops. cbn [C17.hrun]. rewrite Eo. unfold store in *.
    destruct (hrun (st, its ++ [column_names s]) (loop_hops pred i k (column_names s) ++ [HNext k])) as (sti2, xs) eqn:Eh.
    cbn [snd select is_next] in *. fold k in Ey. rewrite Ey.
    rewrite filter_app, app_length, nexts_loop. cbn [filter is_next]. rewrite Nat.eqb_refl. cbn [length].
    rewrite (expected_nexts_all (column_names s) 1). reflexivity.
Qed.

End WithTEq.

End Iter.

Arguments plain {T}. Arguments is_plain {T}. Arguments is_next {T}. Arguments select {T A}. Arguments mutates {T}.
Arguments expected_nexts {T P}. Arguments loop_hops {T}.
