(* C12 - the code model of GroupBy.aggregate equals the partition-and-fold specification. *)
From Coq Require Import List ZArith QArith Bool Lia Permutation.
From Orso Require Import Model.C12 Proofs.C12_Dict.
Import ListNotations.
Close Scope Q_scope.
Close Scope Z_scope.

(* ---------- small generic facts ---------- *)
Lemma mapM_map {A B C : Type} (f : B -> option C) (g : A -> B) l :
  mapM f (map g l) = mapM (fun x => f (g x)) l.
Proof. induction l as [|x r IH]; cbn [map mapM]; [reflexivity|]. now rewrite IH. Qed.

Lemma mapM_ext_in {A B : Type} (f g : A -> option B) l :
  (forall x, In x l -> f x = g x) -> mapM f l = mapM g l.
Proof.
  induction l as [|x r IH]; intros H; cbn [mapM]; [reflexivity|].
  rewrite (H x (or_introl eq_refl)), IH; [reflexivity|]. intros y Hy. apply H. now right.
Qed.

Lemma mapM_length {A B : Type} (f : A -> option B) l ys : mapM f l = Some ys -> length ys = length l.
Proof.
  revert ys; induction l as [|x r IH]; cbn [mapM]; intros ys H.
  - now inversion H.
  - destruct (f x); [|discriminate]. destruct (mapM f r) as [zs|]; [|discriminate].
    inversion H; subst. cbn [length]. now rewrite (IH zs eq_refl).
Qed.

Lemma mapM_Forall2 {A B : Type} (f : A -> option B) l ys :
  mapM f l = Some ys -> Forall2 (fun x y => f x = Some y) l ys.
Proof.
  revert ys; induction l as [|x r IH]; cbn [mapM]; intros ys H.
  - inversion H. constructor.
  - destruct (f x) eqn:E; [|discriminate]. destruct (mapM f r) as [zs|]; [|discriminate].
    inversion H; subst. constructor; auto.
Qed.

Lemma Forall2_mapM {A B : Type} (f : A -> option B) l ys :
  Forall2 (fun x y => f x = Some y) l ys -> mapM f l = Some ys.
Proof. induction 1 as [|x y l ys H _ IH]; cbn [mapM]; [reflexivity|]. now rewrite H, IH. Qed.

Lemma fold_left_map {A B C : Type} (f : A -> B -> A) (g : C -> B) l a :
  fold_left f (map g l) a = fold_left (fun a x => f a (g x)) l a.
Proof. revert a; induction l as [|x r IH]; intros a; cbn [map fold_left]; [reflexivity|]. apply IH. Qed.

Lemma combine_map {A B C : Type} (f : A -> B) (g : A -> C) l :
  combine (map f l) (map g l) = map (fun x => (f x, g x)) l.
Proof. induction l as [|x r IH]; cbn [map combine]; [reflexivity|]. now rewrite IH. Qed.

Lemma filter_idem {A : Type} (p : A -> bool) l : filter p (filter p l) = filter p l.
Proof.
  induction l as [|x r IH]; cbn [filter]; [reflexivity|].
  destruct (p x) eqn:E; cbn [filter]; rewrite ?E, IH; reflexivity.
Qed.

Lemma Permutation_filter' {A : Type} (p : A -> bool) l l' :
  Permutation l l' -> Permutation (filter p l) (filter p l').
Proof.
  induction 1 as [|x l l' _ IH|x y l|l l' l'' _ IH1 _ IH2]; cbn [filter].
  - constructor.
  - destruct (p x); [now constructor|exact IH].
  - destruct (p x), (p y); try apply Permutation_refl. apply perm_swap.
  - eapply Permutation_trans; eauto.
Qed.

(* ---------- equalities of the concrete types ---------- *)
Lemma name_eqb_spec (a b : name) : name_eqb a b = true <-> a = b.
Proof. apply list_eqb_spec. intros x y. apply N.eqb_eq. Qed.

Lemma func_eqb_spec (a b : func) : func_eqb a b = true <-> a = b.
Proof. destruct a, b; cbn; split; intros H; try reflexivity; discriminate. Qed.

Lemma lab_eqb_spec (a b : lab) : lab_eqb a b = true <-> a = b.
Proof.
  destruct a as [f c|n], b as [g d|m]; cbn [lab_eqb]; split; intros H; try discriminate.
  - apply andb_true_iff in H as [H1 H2]. apply func_eqb_spec in H1. apply name_eqb_spec in H2. now subst.
  - inversion H; subst. apply andb_true_iff. split; [now apply func_eqb_spec|now apply name_eqb_spec].
  - apply name_eqb_spec in H. now subst.
  - inversion H; subst. now apply name_eqb_spec.
Qed.

(* the text FUNC(column) determines the function and the column *)
Lemma render_agg_inj f c g d : render (LAgg f c) = render (LAgg g d) -> f = g /\ c = d.
Proof.
  cbn [render]. intros H.
  destruct f, g; cbn [fname app] in H; inversion H as [H']; try discriminate;
    (split; [reflexivity|]); apply app_inv_tail in H'; exact H'.
Qed.

Lemma index_of_nth t names i : index_of t names = Some i -> nth i names [] = t.
Proof.
  revert i; induction names as [|n r IH]; cbn [index_of]; intros i H; [discriminate|].
  destruct (name_eqb t n) eqn:E.
  - inversion H; subst. apply name_eqb_spec in E. now subst.
  - destruct (index_of t r) as [j|]; [|discriminate]. inversion H; subst. cbn [nth]. now apply IH.
Qed.

Lemma fromkeys_dedup l : fromkeys l = dedup name_eqb l.
Proof.
  unfold fromkeys, dict_of. induction l as [|x l IH] using rev_ind; [reflexivity|].
  rewrite map_app, fold_left_app. cbn [map fold_left fst snd].
  rewrite (map_fst_dset _ name_eqb), IH, (dedup_snoc _ name_eqb name_eqb_spec).
  destruct (memb name_eqb x l) eqn:M.
  - replace (memb name_eqb x (dedup name_eqb l)) with true; [reflexivity|]. symmetry.
    apply (memb_In _ name_eqb name_eqb_spec), (dedup_In _ name_eqb name_eqb_spec), (memb_In _ name_eqb name_eqb_spec), M.
  - replace (memb name_eqb x (dedup name_eqb l)) with false; [reflexivity|]. symmetry.
    apply (memb_notIn _ name_eqb name_eqb_spec). intros H.
    apply (proj1 (dedup_In _ name_eqb name_eqb_spec _ _)) in H.
    apply (proj2 (memb_In _ name_eqb name_eqb_spec _ _)) in H. congruence.
Qed.

(* ---------- integer folds ---------- *)
Lemma fold_min_le l : forall a, (fold_left Z.min l a <= a)%Z /\ (forall x, In x l -> (fold_left Z.min l a <= x)%Z)
                                 /\ (fold_left Z.min l a = a \/ In (fold_left Z.min l a) l).
Proof.
  induction l as [|y r IH]; intros a; cbn [fold_left In].
  - repeat split; try lia; tauto.
  - destruct (IH (Z.min a y)) as (H1 & H2 & H3). repeat split.
    + lia.
    + intros x [->|Hx]; [lia|auto].
    + destruct H3 as [H3|H3]; [|auto]. rewrite H3. destruct (Z.min_spec a y) as [[_ ->]|[_ ->]]; auto.
Qed.
Lemma fold_max_ge l : forall a, (a <= fold_left Z.max l a)%Z /\ (forall x, In x l -> (x <= fold_left Z.max l a)%Z)
                                 /\ (fold_left Z.max l a = a \/ In (fold_left Z.max l a) l).
Proof.
  induction l as [|y r IH]; intros a; cbn [fold_left In].
  - repeat split; try lia; tauto.
  - destruct (IH (Z.max a y)) as (H1 & H2 & H3). repeat split.
    + lia.
    + intros x [->|Hx]; [lia|auto].
    + destruct H3 as [H3|H3]; [|auto]. rewrite H3. destruct (Z.max_spec a y) as [[_ ->]|[_ ->]]; auto.
Qed.

Lemma zmin_spec l : l <> [] -> In (zmin l) l /\ forall x, In x l -> (zmin l <= x)%Z.
Proof.
  destruct l as [|a r]; [congruence|]. intros _. unfold zmin.
  destruct (fold_min_le r a) as (H1 & H2 & H3). split.
  - destruct H3 as [->|H3]; [now left|now right].
  - intros x [<-|Hx]; auto.
Qed.
Lemma zmax_spec l : l <> [] -> In (zmax l) l /\ forall x, In x l -> (x <= zmax l)%Z.
Proof.
  destruct l as [|a r]; [congruence|]. intros _. unfold zmax.
  destruct (fold_max_ge r a) as (H1 & H2 & H3). split.
  - destruct H3 as [->|H3]; [now left|now right].
  - intros x [<-|Hx]; auto.
Qed.

Lemma fold_add_acc l : forall a, fold_left Z.add l a = (a + fold_right Z.add 0 l)%Z.
Proof. induction l as [|y r IH]; intros a; cbn [fold_left fold_right]; [lia|]. rewrite IH. lia. Qed.
Lemma zsum_spec l : zsum l = fold_right Z.add 0%Z l.
Proof. unfold zsum. rewrite fold_add_acc. lia. Qed.

Lemma zsum_perm l l' : Permutation l l' -> zsum l = zsum l'.
Proof.
  intros H. rewrite !zsum_spec.
  induction H as [|x l l' _ IH|x y l|l l' l'' _ IH1 _ IH2]; cbn [fold_right]; lia.
Qed.
Lemma zmin_perm l l' : Permutation l l' -> zmin l = zmin l'.
Proof.
  intros H. destruct l as [|a r].
  - apply Permutation_nil in H. now subst.
  - assert (Hl : a :: r <> []) by congruence.
    assert (Hl' : l' <> []) by (intros ->; apply Permutation_sym, Permutation_nil in H; congruence).
    destruct (zmin_spec _ Hl) as [I1 L1]. destruct (zmin_spec _ Hl') as [I2 L2].
    pose proof (L1 _ (Permutation_in _ (Permutation_sym H) I2)).
    pose proof (L2 _ (Permutation_in _ H I1)). lia.
Qed.
Lemma zmax_perm l l' : Permutation l l' -> zmax l = zmax l'.
Proof.
  intros H. destruct l as [|a r].
  - apply Permutation_nil in H. now subst.
  - assert (Hl : a :: r <> []) by congruence.
    assert (Hl' : l' <> []) by (intros ->; apply Permutation_sym, Permutation_nil in H; congruence).
    destruct (zmax_spec _ Hl) as [I1 L1]. destruct (zmax_spec _ Hl') as [I2 L2].
    pose proof (L1 _ (Permutation_in _ (Permutation_sym H) I2)).
    pose proof (L2 _ (Permutation_in _ H I1)). lia.
Qed.

(* mapM over a permutation *)
Lemma mapM_perm {A B : Type} (f : A -> option B) l l' :
  Permutation l l' ->
  match mapM f l, mapM f l' with
  | Some a, Some b => Permutation a b
  | None, None => True
  | _, _ => False
  end.
Proof.
  induction 1 as [|x l l' _ IH|x y l|l l' l'' _ IH1 _ IH2]; cbn [mapM].
  - constructor.
  - destruct (f x); [|exact I]. destruct (mapM f l), (mapM f l'); try tauto. now constructor.
  - destruct (f x), (f y), (mapM f l); try exact I. apply perm_swap.
  - destruct (mapM f l), (mapM f l'), (mapM f l''); try tauto. eapply Permutation_trans; eauto.
Qed.

Section Main.
Variable K : Type.
Variable K_eqb : K -> K -> bool.
Hypothesis K_eqb_spec : forall a b, K_eqb a b = true <-> a = b.

Notation val := (val K).
Notation cell := (cell K).
Notation key := (key K).
Notation val_eqb := (val_eqb K K_eqb).
Notation key_eqb := (key_eqb K K_eqb).
Notation frame := (frame K).
Notation emission := (emission K).

Lemma val_eqb_spec (a b : val) : val_eqb a b = true <-> a = b.
Proof.
  destruct a, b; cbn [C12.val_eqb]; split; intros H; try reflexivity; try discriminate.
  - apply Z.eqb_eq in H. now subst.
  - inversion H. apply Z.eqb_refl.
  - apply K_eqb_spec in H. now subst.
  - inversion H. now apply K_eqb_spec.
Qed.
Lemma key_eqb_spec (a b : key) : key_eqb a b = true <-> a = b.
Proof. apply list_eqb_spec. exact val_eqb_spec. Qed.

(* ---------- fold_agg: what each aggregate is ---------- *)
Lemma mapM_as_int_perm (l l' : list val) :
  Permutation l l' ->
  match mapM (as_int K) l, mapM (as_int K) l' with
  | Some a, Some b => Permutation a b
  | None, None => True
  | _, _ => False
  end.
Proof. apply mapM_perm. Qed.

Lemma forallb_perm {A : Type} (p : A -> bool) l l' : Permutation l l' -> forallb p l = forallb p l'.
Proof.
  induction 1 as [|x l l' _ IH|x y l|l l' l'' _ IH1 _ IH2]; cbn [forallb]; try congruence.
  destruct (p x), (p y); reflexivity.
Qed.

Lemma fold_agg_perm f (l l' : list val) : Permutation l l' -> fold_agg K f l = fold_agg K f l'.
Proof.
  intros H. unfold fold_agg.
  assert (Hlen := Permutation_length H).
  assert (Hm := mapM_as_int_perm l l' H).
  assert (Hs := forallb_perm (is_star K) l l' H).
  destruct f; try (now rewrite Hlen);
    (destruct l as [|v r]; [apply Permutation_nil in H; subst; reflexivity|];
     destruct l' as [|v' r']; [apply Permutation_sym, Permutation_nil in H; discriminate|];
     destruct (mapM (as_int K) (v :: r)) as [zs|], (mapM (as_int K) (v' :: r')) as [zs'|]; try tauto;
     [|now rewrite Hs]).
  - now rewrite (zmin_perm _ _ Hm).
  - now rewrite (zmax_perm _ _ Hm).
  - now rewrite (zsum_perm _ _ Hm), (Permutation_length Hm).
  - now rewrite (zsum_perm _ _ Hm).
Qed.

(* ---------- _map: emissions and key bookkeeping ---------- *)
Section Fixed.
Variables (names : list name) (gidx : list nat) (collect : list name).
Hypothesis collect_nodup : NoDup collect.
Hypothesis collect_nonempty : collect <> [].

Let ccols := collect_indices names collect.
Definition E (row : list val) (c : name) : emission := (key_of K gidx row, c, value_at K row (index_of c names)).

Lemma emit_E row : emit K gidx ccols row = map (E row) collect.
Proof. unfold emit, ccols, collect_indices, E. rewrite map_map. reflexivity. Qed.

Definition ekey (e : emission) : key := fst (fst e).
Definition ecol (e : emission) : name := snd (fst e).

Lemma filter_key_emissions rows k :
  filter (fun e => key_eqb (ekey e) k) (emissions K gidx ccols rows) =
  emissions K gidx ccols (group_of K K_eqb gidx rows k).
Proof.
  unfold emissions, group_of. induction rows as [|r rows IH]; cbn [flat_map filter]; [reflexivity|].
  rewrite filter_app, IH, emit_E. destruct (key_eqb (key_of K gidx r) k) eqn:Ek; cbn [flat_map].
  - rewrite emit_E. f_equal. apply filter_id. intros e He. apply in_map_iff in He as (c & <- & _). exact Ek.
  - rewrite filter_nil; [reflexivity|]. intros e He. apply in_map_iff in He as (c & <- & _). exact Ek.
Qed.

Lemma dedup_cons_unfold (a : key) l :
  dedup key_eqb (a :: l) = a :: filter (fun y => negb (key_eqb a y)) (dedup key_eqb l).
Proof. reflexivity. Qed.

Lemma dedup_const_app (a : key) m rest :
  m <> [] -> (forall y, In y m -> y = a) -> dedup key_eqb (m ++ rest) = dedup key_eqb (a :: rest).
Proof.
  induction m as [|y m IH]; intros Hne Hall; [congruence|].
  assert (y = a) by (apply Hall; now left). subst y.
  destruct m as [|z m]; [reflexivity|].
  remember (z :: m) as m' eqn:Hm'. cbn [app]. rewrite (dedup_cons_unfold a (m' ++ rest)).
  rewrite IH; [|subst m'; discriminate|intros y Hy; apply Hall; now right].
  cbn [dedup filter]. rewrite (eqb_refl _ key_eqb key_eqb_spec). cbn [negb]. now rewrite filter_idem.
Qed.

Lemma dedup_keys_emissions rows :
  dedup key_eqb (map ekey (emissions K gidx ccols rows)) = dedup key_eqb (map (key_of K gidx) rows).
Proof.
  unfold emissions. induction rows as [|r rows IH]; cbn [flat_map map]; [reflexivity|].
  rewrite map_app, (dedup_const_app (key_of K gidx r)).
  - cbn [dedup]. now rewrite IH.
  - rewrite emit_E. destruct collect; [congruence|discriminate].
  - intros y Hy. rewrite emit_E, map_map in Hy. apply in_map_iff in Hy as (c & <- & _). reflexivity.
Qed.

Lemma dedup_cols_emissions g :
  g <> [] -> dedup name_eqb (map ecol (emissions K gidx ccols g)) = collect.
Proof.
  destruct g as [|r g]; [congruence|]. intros _. unfold emissions. cbn [flat_map].
  rewrite map_app, emit_E, map_map. cbn [E ecol fst snd]. rewrite map_id.
  apply (dedup_app_incl _ name_eqb name_eqb_spec); [exact collect_nodup|].
  intros c Hc. apply in_map_iff in Hc as (e & <- & He). apply in_flat_map in He as (r' & _ & He).
  rewrite emit_E in He. apply in_map_iff in He as (c' & <- & Hc'). exact Hc'.
Qed.

Lemma filter_col_E row c l :
  NoDup l -> In c l -> filter (fun e => name_eqb (ecol e) c) (map (E row) l) = [E row c].
Proof.
  induction 1 as [|a l Ha Hl IH]; intros Hin; [destruct Hin|].
  cbn [map filter]. cbn [E ecol fst snd]. destruct (name_eqb a c) eqn:Eq.
  - apply name_eqb_spec in Eq. subst a. f_equal.
    apply filter_nil. intros e He. apply in_map_iff in He as (c' & <- & Hc'). cbn [E ecol fst snd].
    apply (eqb_neq _ name_eqb name_eqb_spec). intros ->. contradiction.
  - apply IH. destruct Hin as [->|Hin]; [|exact Hin].
    rewrite (eqb_refl _ name_eqb name_eqb_spec) in Eq. discriminate.
Qed.

Lemma filter_col_emissions g c :
  In c collect ->
  filter (fun e => name_eqb (ecol e) c) (emissions K gidx ccols g) = map (fun r => E r c) g.
Proof.
  intros Hc. unfold emissions. induction g as [|r g IH]; cbn [flat_map map]; [reflexivity|].
  rewrite filter_app, IH, emit_E, (filter_col_E r c collect collect_nodup Hc). reflexivity.
Qed.

Definition app_nonnull (vals : list val) (e : emission) : list val :=
  if nonnull K (snd e) then vals ++ [snd e] else vals.

Lemma fold_app_nonnull (l : list emission) acc :
  fold_left app_nonnull l acc = acc ++ filter (nonnull K) (map snd l).
Proof.
  revert acc; induction l as [|e l IH]; intros acc; cbn [fold_left map filter]; [now rewrite app_nil_r|].
  rewrite IH. unfold app_nonnull. destruct (nonnull K (snd e)); [|reflexivity].
  now rewrite <- app_assoc.
Qed.

Lemma collect_step_gstep cvm e :
  collect_step K K_eqb cvm e =
  gstep _ _ _ key_eqb ekey [] (gstep _ _ _ name_eqb ecol [] app_nonnull) cvm e.
Proof. destruct e as [[k c] v]. reflexivity. Qed.

Lemma fold_collect_step_gstep (l : list emission) d :
  fold_left (collect_step K K_eqb) l d =
  fold_left (gstep _ _ _ key_eqb ekey [] (gstep _ _ _ name_eqb ecol [] app_nonnull)) l d.
Proof.
  revert d; induction l as [|e l IH]; intros d; cbn [fold_left]; [reflexivity|].
  rewrite collect_step_gstep. apply IH.
Qed.

(* the collected column_value_map, in closed form *)
Lemma collect_all_spec rows :
  collect_all K K_eqb (emissions K gidx ccols rows) =
  map (fun k => (k, map (fun c => (c, column_values K names c (group_of K K_eqb gidx rows k))) collect))
      (dedup key_eqb (map (key_of K gidx) rows)).
Proof.
  unfold collect_all. rewrite fold_collect_step_gstep.
  rewrite (grouping emission key _ key_eqb key_eqb_spec ekey []
             (gstep _ _ _ name_eqb ecol [] app_nonnull)).
  rewrite dedup_keys_emissions. apply map_ext_in. intros k Hk. f_equal.
  unfold gval. rewrite filter_key_emissions.
  rewrite (grouping emission name _ name_eqb name_eqb_spec ecol [] app_nonnull).
  assert (Hg : group_of K K_eqb gidx rows k <> []).
  { apply (proj1 (dedup_In _ key_eqb key_eqb_spec _ _)) in Hk. apply in_map_iff in Hk as (r & Hr & Hin).
    intros Hnil. assert (Hin' : In r (group_of K K_eqb gidx rows k)).
    { apply filter_In. split; [exact Hin|]. apply key_eqb_spec. exact Hr. }
    rewrite Hnil in Hin'. destruct Hin'. }
  rewrite (dedup_cols_emissions _ Hg). apply map_ext_in. intros c Hc. f_equal.
  unfold gval. rewrite (filter_col_emissions _ c Hc), fold_app_nonnull. cbn [app].
  unfold column_values. rewrite map_map. reflexivity.
Qed.

(* self._group_keys: every key seen maps to its (column name, value) pairs *)
Definition keyinfo (k : key) : list (name * val) := combine (map (fun i => nth i names []) gidx) k.

Lemma group_keys_get rows : forall acc k,
  (forall k' i, dget key_eqb k' acc = Some i -> i = keyinfo k') ->
  (In k (map (key_of K gidx) rows) \/ dget key_eqb k acc <> None) ->
  dget key_eqb k (fold_left (gk_step K K_eqb names gidx) rows acc) = Some (keyinfo k).
Proof.
  induction rows as [|r rows IH]; intros acc k Hacc Hin; cbn [fold_left].
  - destruct Hin as [[]|Hin]. destruct (dget key_eqb k acc) as [i|] eqn:Eg; [|congruence].
    now rewrite (Hacc k i Eg).
  - assert (Hinfo : map (fun i => (nth i names [], cellat K r i)) gidx = keyinfo (key_of K gidx r)).
    { unfold keyinfo, key_of. now rewrite combine_map. }
    apply IH.
    + intros k' i. unfold gk_step, dmem.
      destruct (dget key_eqb (key_of K gidx r) acc) eqn:Eg; [apply Hacc|].
      rewrite (dget_dset _ key_eqb key_eqb_spec). destruct (key_eqb k' (key_of K gidx r)) eqn:Ek; [|apply Hacc].
      apply key_eqb_spec in Ek. subst k'. intros [= <-]. exact Hinfo.
    + unfold gk_step, dmem. destruct (dget key_eqb (key_of K gidx r) acc) eqn:Eg.
      * destruct Hin as [[<-|Hin]|Hin]; auto. right. congruence.
      * rewrite (dget_dset _ key_eqb key_eqb_spec).
        destruct (key_eqb k (key_of K gidx r)) eqn:Ek; [right; discriminate|].
        destruct Hin as [[<-|Hin]|Hin]; auto.
        rewrite (eqb_refl _ key_eqb key_eqb_spec) in Ek. discriminate.
Qed.

End Fixed.

(* ---------- aggregate = specification ---------- *)
Lemma mapM_fuse {A B C D : Type} (f : A -> option B) (h1 : A -> B -> C) (h2 : A -> B -> D) (g : C -> D) l :
  (forall x y, In x l -> f x = Some y -> g (h1 x y) = h2 x y) ->
  option_map (map g) (mapM (fun x => option_map (h1 x) (f x)) l) = mapM (fun x => option_map (h2 x) (f x)) l.
Proof.
  induction l as [|x l IH]; intros H; cbn [mapM option_map map]; [reflexivity|].
  destruct (f x) as [y|] eqn:Ef; cbn [option_map]; [|reflexivity].
  rewrite <- IH by (intros x' y' Hx'; apply H; now right).
  destruct (mapM (fun x0 => option_map (h1 x0) (f x0)) l); cbn [option_map map]; [|reflexivity].
  now rewrite (H x y (or_introl eq_refl) Ef).
Qed.

Lemma cells_shape {A : Type} (Lf : A -> lab) (F : A -> option cell) (d : cell) rq cells :
  mapM (fun r => option_map (pair (Lf r)) (F r)) rq = Some cells ->
  cells = map (fun r => (Lf r, match F r with Some y => y | None => d end)) rq.
Proof.
  revert cells; induction rq as [|r rq IH]; cbn [mapM map]; intros cells H.
  - now inversion H.
  - destruct (F r) as [y|]; cbn [option_map] in H; [|discriminate].
    destruct (mapM (fun r0 => option_map (pair (Lf r0)) (F r0)) rq) as [cs|]; [|discriminate].
    inversion H; subst. f_equal. now apply IH.
Qed.

Section Agg.
Variables (names : list name) (gidx : list nat) (reqs : list (func * name)).
Hypothesis reqs_nonempty : reqs <> [].

Definition rcols : list name := fromkeys (map snd reqs).

Lemma collect_nodup : NoDup rcols.
Proof. unfold rcols. rewrite fromkeys_dedup. apply (NoDup_dedup _ name_eqb name_eqb_spec). Qed.

Lemma collect_in c : In c (map snd reqs) -> In c rcols.
Proof. intros H. unfold rcols. rewrite fromkeys_dedup. now apply (dedup_In _ name_eqb name_eqb_spec). Qed.

Lemma collect_nonempty : rcols <> [].
Proof.
  destruct reqs as [|r rq] eqn:E; [congruence|]. intros H.
  assert (Hin : In (snd r) rcols) by (apply collect_in; rewrite E; now left).
  rewrite H in Hin. destruct Hin.
Qed.

Definition L (r : func * name) : lab := LAgg (fst r) (snd r).

Definition cellsM (rows : list (list val)) (k : key) : option (list (lab * cell)) :=
  mapM (fun r => option_map (pair (L r))
                  (fold_agg K (fst r) (column_values K names (snd r) (group_of K K_eqb gidx rows k)))) reqs.

Lemma apply_all_spec rows :
  apply_all K reqs (collect_all K K_eqb (emissions K gidx (collect_indices names rcols) rows)) =
  mapM (fun k => option_map (fun cells => (k, dict_of lab_eqb cells)) (cellsM rows k))
       (dedup key_eqb (map (key_of K gidx) rows)).
Proof.
  rewrite (collect_all_spec names gidx rcols collect_nodup collect_nonempty).
  unfold apply_all. rewrite mapM_map. apply mapM_ext_in. intros k Hk. cbn [fst snd]. f_equal.
  unfold agg_cells, cellsM. apply mapM_ext_in. intros r Hr. unfold L. do 2 f_equal.
  unfold dgetd. rewrite (dget_keyed _ name_eqb name_eqb_spec).
  replace (memb name_eqb (snd r) rcols) with true; [reflexivity|]. symmetry.
  apply (memb_In _ name_eqb name_eqb_spec), collect_in, in_map, Hr.
Qed.

Definition keypairs (k : key) : list (lab * cell) :=
  map (fun nv => (LKey (fst nv), CVal (snd nv))) (keyinfo names gidx k).

Lemma result_row_spec rows k cells :
  In k (map (key_of K gidx) rows) -> cellsM rows k = Some cells ->
  result_row K K_eqb reqs (group_keys K K_eqb names gidx rows) (k, dict_of lab_eqb cells) =
  dict_of lab_eqb (cells ++ keypairs k).
Proof.
  intros Hk Hc. unfold result_row. cbn [fst snd].
  replace (dgetd key_eqb [] k (group_keys K K_eqb names gidx rows)) with (keyinfo names gidx k).
  2:{ unfold dgetd, group_keys. rewrite (group_keys_get names gidx rows [] k); [reflexivity| |now left].
      intros k' i. cbn. discriminate. }
  unfold cellsM in Hc. apply (cells_shape L _ (CVal VNull)) in Hc.
  set (G := fun r : func * name =>
              match fold_agg K (fst r) (column_values K names (snd r) (group_of K K_eqb gidx rows k)) with
              | Some y => y | None => CVal VNull end) in Hc.
  set (FF := fun l : lab => match l with LAgg f c => G (f, c) | LKey _ => CVal VNull end).
  assert (Hfun : forall p, In p cells -> snd p = FF (fst p)).
  { intros p Hp. rewrite Hc in Hp. apply in_map_iff in Hp as ([f c] & <- & _). reflexivity. }
  assert (Hres : map (fun r => (LAgg (fst r) (snd r),
                                dgetd lab_eqb (CVal VNull) (LAgg (fst r) (snd r)) (dict_of lab_eqb cells))) reqs = cells).
  { etransitivity; [|symmetry; exact Hc]. apply map_ext_in. intros [f c] Hr. cbn [fst snd]. unfold L. cbn [fst snd]. f_equal.
    unfold dgetd. rewrite (dget_dict_of_functional _ lab_eqb lab_eqb_spec _ FF cells); auto.
    rewrite Hc, map_map. apply in_map_iff. exists (f, c). split; [reflexivity|exact Hr]. }
  rewrite Hres. unfold dict_of at 2. rewrite fold_left_app. unfold keypairs. rewrite fold_left_map.
  reflexivity.
Qed.

Lemma spec_row_cellsM rows k :
  spec_row K K_eqb names gidx reqs rows k = option_map (fun cells => dict_of lab_eqb (cells ++ keypairs k)) (cellsM rows k).
Proof. reflexivity. Qed.

Lemma aggregate_core rows :
  match apply_all K reqs (collect_all K K_eqb (emissions K gidx (collect_indices names rcols) rows)) with
  | None => Raise TypeError
  | Some ad => Ok (map (result_row K K_eqb reqs (group_keys K K_eqb names gidx rows)) ad)
  end =
  match mapM (spec_row K K_eqb names gidx reqs rows) (dedup key_eqb (map (key_of K gidx) rows)) with
  | None => Raise TypeError
  | Some rs => Ok rs
  end.
Proof.
  rewrite apply_all_spec.
  rewrite (mapM_ext_in (spec_row K K_eqb names gidx reqs rows) _ _ (fun k _ => spec_row_cellsM rows k)).
  rewrite <- (mapM_fuse (cellsM rows) (fun k cells => (k, dict_of lab_eqb cells))
               (fun k cells => dict_of lab_eqb (cells ++ keypairs k))
               (result_row K K_eqb reqs (group_keys K K_eqb names gidx rows))).
  - destruct (mapM _ _); reflexivity.
  - intros k cells Hk Hc. apply result_row_spec; [|exact Hc].
    now apply (dedup_In _ key_eqb key_eqb_spec).
Qed.
End Agg.

Theorem code_eq_spec (f : frame) keycols reqs :
  reqs <> [] ->
  fst (aggregate K K_eqb f keycols reqs) = spec_aggregate K K_eqb (fnames f) (frows f) keycols reqs.
Proof.
  intros Hne. unfold aggregate, spec_aggregate.
  destruct (group_indices (fnames f) keycols) as [gidx|]; [|reflexivity].
  unfold iterate.
  rewrite <- (aggregate_core (fnames f) gidx reqs Hne (frows f)).
  destruct (apply_all _ _ _); reflexivity.
Qed.


(* ---------- lookups in a specification row ---------- *)
Lemma dget_fold_other {A B : Type} (eqb : A -> A -> bool) (eqb_spec : forall a b, eqb a b = true <-> a = b)
      (k : A) (ps : list (A * B)) d :
  (forall p, In p ps -> eqb k (fst p) = false) ->
  dget eqb k (fold_left (fun d p => dset eqb (fst p) (snd p) d) ps d) = dget eqb k d.
Proof.
  revert d; induction ps as [|p ps IH]; intros d H; cbn [fold_left]; [reflexivity|].
  rewrite IH by (intros q Hq; apply H; now right).
  rewrite (dget_dset _ eqb eqb_spec), (H p (or_introl eq_refl)). reflexivity.
Qed.

Lemma dget_fold_indep {A B : Type} (eqb : A -> A -> bool) (eqb_spec : forall a b, eqb a b = true <-> a = b)
      (k : A) (ps : list (A * B)) d d' :
  dget eqb k d = dget eqb k d' ->
  dget eqb k (fold_left (fun d p => dset eqb (fst p) (snd p) d) ps d) =
  dget eqb k (fold_left (fun d p => dset eqb (fst p) (snd p) d) ps d').
Proof.
  revert d d'; induction ps as [|p ps IH]; intros d d' H; cbn [fold_left]; [exact H|].
  apply IH. rewrite !(dget_dset _ eqb eqb_spec), H. reflexivity.
Qed.

Section Rows.
Variables (names : list name) (gidx : list nat).

Lemma spec_row_inv reqs rows k row :
  spec_row K K_eqb names gidx reqs rows k = Some row ->
  exists cells, cellsM names gidx reqs rows k = Some cells /\
                row = dict_of lab_eqb (cells ++ keypairs names gidx k).
Proof.
  rewrite spec_row_cellsM. destruct (cellsM names gidx reqs rows k) as [cells|]; cbn [option_map]; [|discriminate].
  intros [= <-]. now exists cells.
Qed.

(* the cell under FUNC(column) is the fold of that function over the group's values of that column *)
Lemma spec_row_get_agg reqs rows k row f c :
  spec_row K K_eqb names gidx reqs rows k = Some row -> In (f, c) reqs ->
  exists y, fold_agg K f (column_values K names c (group_of K K_eqb gidx rows k)) = Some y /\
            dget lab_eqb (LAgg f c) row = Some y.
Proof.
  intros Hrow Hin. apply spec_row_inv in Hrow as (cells & Hc & ->).
  unfold cellsM in Hc.
  pose proof (mapM_Forall2 _ _ _ Hc) as HF.
  assert (Hy : exists y, fold_agg K f (column_values K names c (group_of K K_eqb gidx rows k)) = Some y).
  { clear Hc. induction HF as [|r p rq ps Hr _ IH]; [destruct Hin|].
    destruct Hin as [->|Hin]; [|auto]. cbn [fst snd] in Hr.
    destruct (fold_agg K f _) as [y|]; [now exists y|discriminate]. }
  destruct Hy as [y Hy]. exists y. split; [exact Hy|].
  apply (cells_shape (L) _ (CVal VNull)) in Hc.
  unfold dict_of. rewrite fold_left_app.
  rewrite (dget_fold_other lab_eqb lab_eqb_spec).
  2:{ intros p Hp. unfold keypairs in Hp. apply in_map_iff in Hp as (nv & <- & _). reflexivity. }
  set (G := fun r : func * name =>
              match fold_agg K (fst r) (column_values K names (snd r) (group_of K K_eqb gidx rows k)) with
              | Some y => y | None => CVal VNull end) in Hc.
  set (FF := fun l : lab => match l with LAgg f c => G (f, c) | LKey _ => CVal VNull end).
  change (dget lab_eqb (LAgg f c) (dict_of lab_eqb cells) = Some y).
  rewrite (dget_dict_of_functional _ lab_eqb lab_eqb_spec _ FF cells).
  - cbn [FF]. unfold G. cbn [fst snd]. now rewrite Hy.
  - intros p Hp. rewrite Hc in Hp. apply in_map_iff in Hp as ([f' c'] & <- & _). reflexivity.
  - rewrite Hc, map_map. apply in_map_iff. exists (f, c). split; [reflexivity|exact Hin].
Qed.

Lemma cells_no_key reqs rows k cells n :
  cellsM names gidx reqs rows k = Some cells -> dget lab_eqb (LKey n) (dict_of lab_eqb cells) = None.
Proof.
  intros Hc. apply (cells_shape L _ (CVal VNull)) in Hc. unfold dict_of.
  rewrite (dget_fold_other lab_eqb lab_eqb_spec); [reflexivity|].
  intros p Hp. rewrite Hc in Hp. apply in_map_iff in Hp as (r & <- & _). reflexivity.
Qed.

(* key columns: independent of the requests *)
Lemma spec_row_get_key reqs rows k row n :
  spec_row K K_eqb names gidx reqs rows k = Some row ->
  dget lab_eqb (LKey n) row = dget lab_eqb (LKey n) (dict_of lab_eqb (keypairs names gidx k)).
Proof.
  intros Hrow. apply spec_row_inv in Hrow as (cells & Hc & ->).
  unfold dict_of. rewrite fold_left_app. apply (dget_fold_indep lab_eqb lab_eqb_spec).
  change (dget lab_eqb (LKey n) (dict_of lab_eqb cells) = None). eapply cells_no_key; eauto.
Qed.

(* ... and they hold the key values *)
Lemma group_indices_names keycols :
  group_indices names keycols = Some gidx ->
  map (fun i => nth i names []) gidx = keycols /\ Forall2 (fun n i => index_of n names = Some i) keycols gidx.
Proof.
  intros H. apply mapM_Forall2 in H. split; [|exact H].
  induction H as [|t i ts is Hi _ IH]; cbn [map]; [reflexivity|].
  now rewrite IH, (index_of_nth _ _ _ Hi).
Qed.

Lemma key_columns_hold_key keycols (r : list val) n :
  group_indices names keycols = Some gidx ->
  In n keycols ->
  dget lab_eqb (LKey n) (dict_of lab_eqb (keypairs names gidx (key_of K gidx r))) =
  Some (CVal (value_at K r (index_of n names))).
Proof.
  intros Hg Hin. destruct (group_indices_names _ Hg) as [Hn HF].
  set (FF := fun l : lab => match l with LKey m => CVal (value_at K r (index_of m names)) | LAgg _ _ => CVal VNull end).
  assert (Hkp : keypairs names gidx (key_of K gidx r) =
                map (fun i => (LKey (nth i names []), CVal (cellat K r i))) gidx).
  { unfold keypairs, keyinfo, key_of. rewrite combine_map, map_map. reflexivity. }
  rewrite Hkp.
  assert (Hidx : forall i, In i gidx -> index_of (nth i names []) names = Some i).
  { clear Hin Hkp Hn Hg. intros i Hi. induction HF as [|t j ts js Hj _ IH]; [destruct Hi|].
    destruct Hi as [->|Hi]; [|auto]. now rewrite (index_of_nth _ _ _ Hj). }
  rewrite (dget_dict_of_functional _ lab_eqb lab_eqb_spec _ FF).
  - reflexivity.
  - intros p Hp. apply in_map_iff in Hp as (i & <- & Hi). cbn [fst snd FF]. now rewrite (Hidx i Hi).
  - rewrite map_map. cbn [fst]. rewrite <- Hn in Hin. apply in_map_iff in Hin as (i & <- & Hi).
    apply in_map_iff. exists i. split; [reflexivity|exact Hi].
Qed.

(* every row of the result has the same column labels *)
Definition header reqs : list lab :=
  map fst (dict_of lab_eqb (map (fun r : func * name => (L r, @CVal K VNull)) reqs
                            ++ map (fun i => (LKey (nth i names []), @CVal K VNull)) gidx)).

Lemma spec_row_header reqs rows k row :
  spec_row K K_eqb names gidx reqs rows k = Some row -> length k = length gidx ->
  map fst row = header reqs.
Proof.
  intros Hrow Hlen. apply spec_row_inv in Hrow as (cells & Hc & ->).
  apply (cells_shape L _ (CVal VNull)) in Hc. unfold header, dict_of.
  apply (map_fst_fold_dset _ lab_eqb); [|reflexivity].
  rewrite !map_app. f_equal.
  - rewrite Hc, !map_map. reflexivity.
  - unfold keypairs, keyinfo. rewrite !map_map. cbn [fst].
    clear Hc. revert k Hlen. induction gidx as [|i is IH]; intros [|v k] Hlen; try discriminate; [reflexivity|].
    cbn [map combine fst]. f_equal. apply IH. now inversion Hlen.
Qed.
End Rows.

(* ---------- permutation of the input rows ---------- *)
Lemma group_of_perm gidx rows rows' k :
  Permutation rows rows' -> Permutation (group_of K K_eqb gidx rows k) (group_of K K_eqb gidx rows' k).
Proof. apply Permutation_filter'. Qed.

Lemma spec_row_perm names gidx reqs rows rows' k :
  Permutation rows rows' ->
  spec_row K K_eqb names gidx reqs rows k = spec_row K K_eqb names gidx reqs rows' k.
Proof.
  intros H. unfold spec_row. f_equal. apply mapM_ext_in. intros r _. f_equal.
  apply fold_agg_perm. unfold column_values. apply Permutation_filter', Permutation_map, group_of_perm, H.
Qed.

Lemma dedup_perm gidx rows rows' :
  Permutation rows rows' ->
  Permutation (dedup key_eqb (map (key_of K gidx) rows)) (dedup key_eqb (map (key_of K gidx) rows')).
Proof.
  intros H. apply NoDup_Permutation; try apply (NoDup_dedup _ key_eqb key_eqb_spec).
  intros k. rewrite !(dedup_In _ key_eqb key_eqb_spec).
  split; apply Permutation_in; [|apply Permutation_sym]; now apply Permutation_map.
Qed.

Theorem spec_aggregate_perm names rows rows' keycols reqs :
  Permutation rows rows' ->
  match spec_aggregate K K_eqb names rows keycols reqs, spec_aggregate K K_eqb names rows' keycols reqs with
  | Ok a, Ok b => Permutation a b
  | Raise e, Raise e' => e = e'
  | _, _ => False
  end.
Proof.
  intros H. unfold spec_aggregate. destruct (group_indices names keycols) as [gidx|]; [|reflexivity].
  rewrite (mapM_ext_in (spec_row K K_eqb names gidx reqs rows') (spec_row K K_eqb names gidx reqs rows))
    by (intros k _; symmetry; now apply spec_row_perm).
  pose proof (mapM_perm (spec_row K K_eqb names gidx reqs rows) _ _ (dedup_perm gidx rows rows' H)) as HP.
  destruct (mapM _ (dedup key_eqb (map (key_of K gidx) rows))), (mapM _ (dedup key_eqb (map (key_of K gidx) rows'))); tauto.
Qed.


(* ---------- the statements used by Props/C12.v ---------- *)
Lemma Forall2_impl_In {A B : Type} (P Q : A -> B -> Prop) l l' :
  Forall2 P l l' -> (forall x y, In x l -> P x y -> Q x y) -> Forall2 Q l l'.
Proof.
  induction 1 as [|x y l l' Hxy _ IH]; intros H; constructor.
  - apply H; [now left|exact Hxy].
  - apply IH. intros a b Ha. apply H. now right.
Qed.

Theorem one_row_per_key (f : frame) keycols reqs rs :
  reqs <> [] -> fst (aggregate K K_eqb f keycols reqs) = Ok rs ->
  exists gidx, group_indices (fnames f) keycols = Some gidx /\
    let D := dedup key_eqb (map (key_of K gidx) (frows f)) in
    NoDup D /\
    (forall k, In k D <-> exists r, In r (frows f) /\ key_of K gidx r = k) /\
    Forall2 (fun k row => Forall2 (fun n v => dget lab_eqb (LKey n) row = Some (CVal v)) keycols k) D rs.
Proof.
  intros Hne. rewrite (code_eq_spec f keycols reqs Hne). unfold spec_aggregate.
  destruct (group_indices (fnames f) keycols) as [gidx|] eqn:Hg; [|discriminate].
  destruct (mapM _ _) as [rs'|] eqn:HM; [|discriminate]. intros [= <-].
  exists gidx. split; [reflexivity|]. cbv zeta. split; [apply (NoDup_dedup _ key_eqb key_eqb_spec)|]. split.
  - intros k. rewrite (dedup_In _ key_eqb key_eqb_spec), in_map_iff. split; intros (r & H1 & H2); exists r; auto.
  - apply mapM_Forall2 in HM. eapply Forall2_impl_In; [exact HM|]. cbv beta.
    intros k row Hk Hrow. apply (proj1 (dedup_In _ key_eqb key_eqb_spec _ _)) in Hk.
    apply in_map_iff in Hk as (r & <- & _).
    destruct (group_indices_names _ _ _ Hg) as [_ HF].
    assert (Hall : forall n, In n keycols ->
              dget lab_eqb (LKey n) row = Some (CVal (value_at K r (index_of n (fnames f))))).
    { intros n Hn. rewrite (spec_row_get_key _ _ _ _ _ _ n Hrow). now apply (key_columns_hold_key _ _ keycols). }
    unfold key_of. clear Hg HM Hrow. induction HF as [|n i ns is Hi _ IH]; cbn [map]; constructor.
    + rewrite (Hall n (or_introl eq_refl)), Hi. reflexivity.
    + apply IH. intros m Hm. apply Hall. now right.
Qed.

Lemma spec_row_single names gidx reqs rows k row fn c :
  spec_row K K_eqb names gidx reqs rows k = Some row -> In (fn, c) reqs ->
  exists row1, spec_row K K_eqb names gidx [(fn, c)] rows k = Some row1 /\
    dget lab_eqb (LAgg fn c) row = dget lab_eqb (LAgg fn c) row1 /\
    forall n, dget lab_eqb (LKey n) row = dget lab_eqb (LKey n) row1.
Proof.
  intros Hrow Hin. destruct (spec_row_get_agg _ _ _ _ _ _ _ _ Hrow Hin) as (y & Hy & Hget).
  assert (H1 : exists row1, spec_row K K_eqb names gidx [(fn, c)] rows k = Some row1).
  { unfold spec_row. cbn [mapM fst snd]. rewrite Hy. cbn [option_map]. eauto. }
  destruct H1 as [row1 H1]. exists row1. split; [exact H1|]. split.
  - destruct (spec_row_get_agg _ _ _ _ _ _ _ _ H1 (or_introl eq_refl)) as (y' & Hy' & Hget').
    rewrite Hget, Hget'. congruence.
  - intros n. rewrite (spec_row_get_key _ _ _ _ _ _ n Hrow), (spec_row_get_key _ _ _ _ _ _ n H1). reflexivity.
Qed.

Theorem single_vs_joint (f : frame) keycols reqs rs fn c :
  fst (aggregate K K_eqb f keycols reqs) = Ok rs -> In (fn, c) reqs ->
  exists rs1, fst (aggregate K K_eqb f keycols [(fn, c)]) = Ok rs1 /\
    Forall2 (fun row row1 => dget lab_eqb (LAgg fn c) row = dget lab_eqb (LAgg fn c) row1 /\
                             forall n, dget lab_eqb (LKey n) row = dget lab_eqb (LKey n) row1) rs rs1.
Proof.
  intros Hrs Hin.
  assert (Hne : reqs <> []) by (intros ->; destruct Hin).
  rewrite (code_eq_spec f keycols reqs Hne) in Hrs.
  rewrite (code_eq_spec f keycols [(fn, c)]) by discriminate.
  unfold spec_aggregate in *. destruct (group_indices (fnames f) keycols) as [gidx|]; [|discriminate].
  destruct (mapM _ _) as [rs'|] eqn:HM in Hrs; [|discriminate]. injection Hrs as <-.
  apply mapM_Forall2 in HM.
  assert (H : exists rs1, Forall2 (fun k row1 => spec_row K K_eqb (fnames f) gidx [(fn, c)] (frows f) k = Some row1)
                            (dedup key_eqb (map (key_of K gidx) (frows f))) rs1 /\
              Forall2 (fun row row1 => dget lab_eqb (LAgg fn c) row = dget lab_eqb (LAgg fn c) row1 /\
                             forall n, dget lab_eqb (LKey n) row = dget lab_eqb (LKey n) row1) rs' rs1).
  { induction HM as [|k row D rs0 Hrow _ IH].
    - exists []. split; constructor.
    - destruct IH as (rs1 & F1 & F2).
      destruct (spec_row_single _ _ _ _ _ _ _ _ Hrow Hin) as (row1 & R1 & R2).
      exists (row1 :: rs1). split; constructor; auto. }
  destruct H as (rs1 & F1 & F2). exists rs1. split; [|exact F2].
  now rewrite (Forall2_mapM _ _ _ F1).
Qed.

Theorem aggregate_perm names rows rows' lz lz' keycols reqs :
  reqs <> [] -> Permutation rows rows' ->
  match fst (aggregate K K_eqb (mkframe names rows lz) keycols reqs),
        fst (aggregate K K_eqb (mkframe names rows' lz') keycols reqs) with
  | Ok a, Ok b => Permutation a b
  | Raise e, Raise e' => e = e'
  | _, _ => False
  end.
Proof.
  intros Hne HP. rewrite !code_eq_spec by exact Hne. cbn [fnames frows].
  now apply spec_aggregate_perm.
Qed.

(* the output frame: DataFrame(result_set) *)
Lemma to_frame_uniform (H : list lab) (rs : list (list (lab * cell))) :
  rs <> [] -> Forall (fun row => map fst row = H) rs ->
  to_frame K rs = (H, map (fun d => map (fun k => dgetd lab_eqb (CVal VNull) k d) H) rs).
Proof.
  destruct rs as [|r rs]; [congruence|]. intros _ HF. unfold to_frame.
  inversion HF as [|? ? Hr _]; subst. reflexivity.
Qed.

Lemma spec_rows_uniform names keycols reqs rows rs :
  spec_aggregate K K_eqb names rows keycols reqs = Ok rs ->
  exists gidx, group_indices names keycols = Some gidx /\
               Forall (fun row => map fst row = header names gidx reqs) rs.
Proof.
  unfold spec_aggregate. destruct (group_indices names keycols) as [gidx|]; [|discriminate].
  destruct (mapM _ _) as [rs'|] eqn:HM; [|discriminate]. intros [= <-]. exists gidx. split; [reflexivity|].
  apply mapM_Forall2 in HM.
  assert (HM' : Forall2 (fun (k : key) row => map fst row = header names gidx reqs)
                        (dedup key_eqb (map (key_of K gidx) rows)) rs').
  { eapply Forall2_impl_In; [exact HM|]. cbv beta. intros k row Hk Hrow.
    eapply spec_row_header; [exact Hrow|].
    apply (proj1 (dedup_In _ key_eqb key_eqb_spec _ _)) in Hk. apply in_map_iff in Hk as (r & <- & _).
    unfold key_of. apply map_length. }
  clear HM. induction HM'; constructor; auto.
Qed.

Theorem aggregate_frame_perm names rows rows' lz lz' keycols reqs :
  reqs <> [] -> Permutation rows rows' ->
  match fst (aggregate K K_eqb (mkframe names rows lz) keycols reqs),
        fst (aggregate K K_eqb (mkframe names rows' lz') keycols reqs) with
  | Ok a, Ok b => fst (to_frame K a) = fst (to_frame K b) /\
                  Permutation (snd (to_frame K a)) (snd (to_frame K b))
  | Raise e, Raise e' => e = e'
  | _, _ => False
  end.
Proof.
  intros Hne HP. pose proof (aggregate_perm names rows rows' lz lz' keycols reqs Hne HP) as H.
  rewrite !code_eq_spec in * by exact Hne. cbn [fnames frows] in *.
  destruct (spec_aggregate K K_eqb names rows keycols reqs) as [a|e] eqn:Ea,
           (spec_aggregate K K_eqb names rows' keycols reqs) as [b|e'] eqn:Eb; try tauto.
  destruct (spec_rows_uniform _ _ _ _ _ Ea) as (gidx & Hg & Ha).
  destruct (spec_rows_uniform _ _ _ _ _ Eb) as (gidx' & Hg' & Hb).
  rewrite Hg in Hg'. injection Hg' as <-.
  destruct a as [|r a].
  - apply Permutation_nil in H. subst b. split; [reflexivity|constructor].
  - assert (Hb' : b <> []) by (intros ->; apply Permutation_sym, Permutation_nil in H; discriminate).
    rewrite (to_frame_uniform _ (r :: a)) by (congruence || exact Ha).
    rewrite (to_frame_uniform _ b Hb' Hb). cbn [fst snd]. split; [reflexivity|].
    now apply Permutation_map.
Qed.

Theorem lazy_eq_eager names rows keycols reqs :
  fst (aggregate K K_eqb (mkframe names rows true) keycols reqs) =
  fst (aggregate K K_eqb (mkframe names rows false) keycols reqs).
Proof.
  unfold aggregate. cbn [fnames frows flazy iterate].
  destruct (group_indices names keycols); [|reflexivity].
  unfold iterate. cbn [frows flazy]. destruct (apply_all _ _ _); reflexivity.
Qed.

(* what is left of the frame afterwards: a list-backed frame is untouched, a generator is spent *)
Theorem frame_after (f : frame) keycols reqs :
  snd (aggregate K K_eqb f keycols reqs) =
  match group_indices (fnames f) keycols with
  | None => f
  | Some _ => if flazy f then mkframe (fnames f) [] true else f
  end.
Proof.
  unfold aggregate. destruct (group_indices (fnames f) keycols); [|reflexivity].
  unfold iterate. destruct (apply_all _ _ _); reflexivity.
Qed.

Lemma flat_map_nil {A B : Type} (l : list A) : flat_map (fun _ : A => @nil B) l = [].
Proof. induction l; cbn; auto. Qed.

Theorem empty_requests (f : frame) keycols :
  fst (aggregate K K_eqb f keycols []) =
  match group_indices (fnames f) keycols with None => Raise ValueError | Some _ => Ok [] end.
Proof.
  unfold aggregate. destruct (group_indices (fnames f) keycols); [|reflexivity].
  unfold iterate, emissions, emit. cbn [map fromkeys collect_indices dict_of fold_left fst].
  rewrite flat_map_nil. reflexivity.
Qed.

(* ---------- the aggregates, as usually defined ---------- *)
Theorem fold_agg_defined (vals : list val) (zs : list Z) :
  mapM (as_int K) vals = Some zs ->
  fold_agg K COUNT vals = Some (CVal (VInt (Z.of_nat (length zs)))) /\
  (zs = [] -> forall fn, fn <> COUNT -> fold_agg K fn vals = Some (CVal VNull)) /\
  (zs <> [] ->
     (exists m, fold_agg K MIN vals = Some (CVal (VInt m)) /\ In m zs /\ forall x, In x zs -> (m <= x)%Z) /\
     (exists m, fold_agg K MAX vals = Some (CVal (VInt m)) /\ In m zs /\ forall x, In x zs -> (x <= m)%Z) /\
     fold_agg K SUM vals = Some (CVal (VInt (fold_right Z.add 0%Z zs))) /\
     (exists q, fold_agg K AVG vals = Some (CRat q) /\
                (q == inject_Z (fold_right Z.add 0%Z zs) / inject_Z (Z.of_nat (length zs)))%Q)).
Proof.
  intros Hm. pose proof (mapM_length _ _ _ Hm) as Hlen. split; [|split].
  - cbn [fold_agg]. now rewrite Hlen.
  - intros -> fn Hfn. destruct vals; [|discriminate]. destruct fn; try reflexivity. congruence.
  - intros Hne. assert (Hv : vals <> []) by (intros ->; cbn in Hm; congruence).
    destruct vals as [|v vals]; [congruence|]. unfold fold_agg. rewrite Hm.
    repeat split.
    + exists (zmin zs). split; [reflexivity|]. apply zmin_spec, Hne.
    + exists (zmax zs). split; [reflexivity|]. apply zmax_spec, Hne.
    + now rewrite zsum_spec.
    + eexists. split; [reflexivity|]. rewrite zsum_spec.
      unfold Qeq, Qdiv, Qmult, Qinv, inject_Z. cbn [Qnum Qden].
      destruct zs as [|z zs]; [congruence|]. cbn [length].
      rewrite Nat2Z.inj_succ. destruct (Z.succ (Z.of_nat (length zs))) eqn:Es; try lia.
      cbn [Qnum Qden]. rewrite Pos.mul_1_l, Z.mul_1_r.
      replace (Pos.of_nat (S (length zs))) with p; [reflexivity|].
      apply Pos2Z.inj. rewrite <- Es. rewrite <- Nat2Z.inj_succ.
      rewrite <- (Nat2Pos.id (S (length zs))) at 1 by discriminate.
      now rewrite positive_nat_Z.
Qed.

(* COUNT of a column the frame does not have (COUNT( * )) is the size of the group;
   the values of a column it has are the group's non-null cells of that column *)
Theorem column_values_star names c (g : list (list val)) :
  index_of c names = None -> column_values K names c g = map (fun _ => VStar) g.
Proof.
  intros H. unfold column_values. rewrite H. cbn [value_at].
  induction g as [|r g IH]; cbn [map filter nonnull]; [reflexivity|]. now rewrite IH.
Qed.

Theorem column_values_known names c i (g : list (list val)) :
  index_of c names = Some i -> column_values K names c g = filter (nonnull K) (map (fun r => cellat K r i) g).
Proof. intros H. unfold column_values. now rewrite H. Qed.

Theorem count_star names c (g : list (list val)) :
  index_of c names = None ->
  fold_agg K COUNT (column_values K names c g) = Some (CVal (VInt (Z.of_nat (length g)))).
Proof. intros H. rewrite (column_values_star _ _ _ H). cbn [fold_agg]. now rewrite map_length. Qed.


(* every cell under FUNC(column) is the reference fold over the group's values of that column *)
Theorem cells_are_reference (f : frame) keycols reqs rs :
  reqs <> [] -> fst (aggregate K K_eqb f keycols reqs) = Ok rs ->
  exists gidx, group_indices (fnames f) keycols = Some gidx /\
    Forall2 (fun k row => forall fn c, In (fn, c) reqs ->
               exists y, fold_agg K fn (column_values K (fnames f) c (group_of K K_eqb gidx (frows f) k)) = Some y /\
                         dget lab_eqb (LAgg fn c) row = Some y)
            (dedup key_eqb (map (key_of K gidx) (frows f))) rs.
Proof.
  intros Hne. rewrite (code_eq_spec f keycols reqs Hne). unfold spec_aggregate.
  destruct (group_indices (fnames f) keycols) as [gidx|]; [|discriminate].
  destruct (mapM _ _) as [rs'|] eqn:HM; [|discriminate]. intros [= <-].
  exists gidx. split; [reflexivity|]. apply mapM_Forall2 in HM.
  eapply Forall2_impl_In; [exact HM|]. cbv beta. intros k row _ Hrow fn c Hin.
  eapply spec_row_get_agg; eauto.
Qed.

(* ---------- groups() ---------- *)
Lemma group_keys_closed names gidx rows :
  group_keys K K_eqb names gidx rows =
  map (fun k => (k, keyinfo names gidx k)) (dedup key_eqb (map (key_of K gidx) rows)).
Proof.
  unfold group_keys. induction rows as [|r rows IH] using rev_ind; [reflexivity|].
  rewrite fold_left_app, map_app. cbn [fold_left map]. rewrite IH.
  rewrite (dedup_snoc _ key_eqb key_eqb_spec). unfold gk_step, dmem.
  rewrite (dget_keyed _ key_eqb key_eqb_spec).
  destruct (memb key_eqb (key_of K gidx r) (map (key_of K gidx) rows)) eqn:M.
  - replace (memb key_eqb (key_of K gidx r) (dedup key_eqb (map (key_of K gidx) rows))) with true; [reflexivity|].
    symmetry. apply (memb_In _ key_eqb key_eqb_spec), (dedup_In _ key_eqb key_eqb_spec), (memb_In _ key_eqb key_eqb_spec), M.
  - assert (Hn : ~ In (key_of K gidx r) (dedup key_eqb (map (key_of K gidx) rows))).
    { intros H. apply (proj1 (dedup_In _ key_eqb key_eqb_spec _ _)) in H.
      apply (proj2 (memb_In _ key_eqb key_eqb_spec _ _)) in H. congruence. }
    replace (memb key_eqb (key_of K gidx r) (dedup key_eqb (map (key_of K gidx) rows))) with false
      by (symmetry; now apply (memb_notIn _ key_eqb key_eqb_spec)).
    rewrite (dset_keyed_notin _ key_eqb key_eqb_spec) by exact Hn.
    rewrite map_app. cbn [map]. do 3 f_equal. unfold keyinfo, key_of. now rewrite combine_map.
Qed.

Theorem groups_spec (f : frame) keycols :
  fst (groups K K_eqb f keycols) =
  match group_indices (fnames f) keycols with
  | None => Raise ValueError
  | Some gidx => Ok (map (fun k => dict_of lab_eqb (keypairs (fnames f) gidx k))
                         (dedup key_eqb (map (key_of K gidx) (frows f))))
  end.
Proof.
  unfold groups. destruct (group_indices (fnames f) keycols) as [gidx|]; [|reflexivity].
  unfold iterate. cbn [fst]. rewrite group_keys_closed, map_map. reflexivity.
Qed.

End Main.

(* the correspondence instance satisfies the premise of the theorems *)
Lemma kc_eqb_spec : forall a b : kc, kc_eqb a b = true <-> a = b.
Proof.
  intros [x|x] [y|y]; cbn [kc_eqb]; split; intros H; try discriminate.
  - apply N.eqb_eq in H. now subst.
  - inversion H. apply N.eqb_refl.
  - apply (list_eqb_spec N N.eqb N.eqb_eq) in H. now subst.
  - inversion H. now apply (list_eqb_spec N N.eqb N.eqb_eq).
Qed.
