(* C18 - subclass instances (round 4): erasing every subclass mark of a frame changes nothing in any rendering.
   The renderers look at a cell only through is_none, cell_str and type_formatter, and each of those strips
   the mark (isinstance semantics); row selection and labelling never look at cells at all. *)
From Coq Require Import String.
From Coq Require Import List NArith ZArith Bool Arith Lia.
From Orso Require Import Gen.C18_Tables Model.C18 Proofs.C18_Width.
Import ListNotations.
Local Open Scope list_scope.

Lemma is_none_erase c : is_none (erase_cell c) = is_none c.
Proof. unfold is_none, erase_cell. cbn [cv]. now rewrite unsub_idem. Qed.

Lemma cell_str_erase c : cell_str (erase_cell c) = cell_str c.
Proof. unfold cell_str, erase_cell. cbn [cv cs]. now rewrite unsub_idem. Qed.

Lemma type_formatter_erase c w : type_formatter (erase_cell c) w = type_formatter c w.
Proof. apply type_formatter_unsub. Qed.

(* ---------- selection and labelling are parametric in the row type ---------- *)
Section Param.
Context {A B : Type} (g : A -> B).

Definition line_map (ln : line A) : line B :=
  match ln with LEllipsis => LEllipsis | LRow k r => LRow k (g r) end.

Lemma tl_map (l : list A) : tl (map g l) = map g (tl l).
Proof. destruct l; reflexivity. Qed.

Lemma deque_push_map k d x : deque_push k (map g d) (g x) = map g (deque_push k d x).
Proof.
  unfold deque_push.
  replace (map g d ++ [g x]) with (map g (d ++ [x])) by (rewrite map_app; reflexivity).
  rewrite map_length. destruct (k <? length (d ++ [x])); [apply tl_map|reflexivity].
Qed.

Lemma deque_fold_map k rest acc :
  fold_left (deque_push k) (map g rest) (map g acc) = map g (fold_left (deque_push k) rest acc).
Proof.
  revert acc; induction rest as [|x rest IH]; intros acc; cbn [map fold_left]; [reflexivity|].
  rewrite deque_push_map. apply IH.
Qed.

Lemma py_tail_map k l : py_tail k (map g l) = map g (py_tail k l).
Proof. unfold py_tail. now rewrite map_length, skipn_map, firstn_map. Qed.

Lemma select_rows_map l limit tt lz :
  select_rows (map g l) limit tt lz
  = (map g (fst (select_rows l limit tt lz)), snd (select_rows l limit tt lz)).
Proof.
  unfold select_rows. rewrite map_length.
  destruct (limit =? 0); [reflexivity|].
  destruct (negb tt).
  - destruct lz; cbn [fst snd]; rewrite firstn_map, ?map_length; reflexivity.
  - destruct (negb lz && (2 * limit + 1 <=? length l)).
    + cbn [fst snd]. now rewrite firstn_map, py_tail_map, map_app.
    + destruct lz; [|reflexivity]. cbn [fst snd].
      rewrite firstn_map, skipn_map, !map_length.
      change (@nil B) with (map g []). rewrite deque_fold_map, map_app. reflexivity.
Qed.

Lemma lazy_lines_map limit ll t i off :
  lazy_lines limit ll (map g t) i off = map line_map (lazy_lines limit ll t i off).
Proof.
  revert i off; induction t as [|r t IH]; intros i off; cbn [map lazy_lines]; [reflexivity|].
  rewrite map_app. cbn [map line_map]. rewrite IH.
  destruct ((i =? limit) && (2 * limit <? ll)); reflexivity.
Qed.

Lemma eager_lines_map limit n tt t i :
  eager_lines limit n tt (map g t) i = map line_map (eager_lines limit n tt t i).
Proof.
  revert i; induction t as [|r t IH]; intros i; cbn [map eager_lines]; [reflexivity|].
  rewrite map_app. cbn [map line_map]. rewrite IH.
  destruct (tt && (2 * limit <? n) && (i =? limit)); reflexivity.
Qed.

Lemma shown_lines_map l limit tt lz :
  shown_lines (map g l) limit tt lz = map line_map (shown_lines l limit tt lz).
Proof.
  unfold shown_lines. rewrite select_rows_map, map_length.
  destruct (select_rows l limit tt lz) as [t ll]. cbn [fst snd].
  destruct lz; [apply lazy_lines_map|apply eager_lines_map].
Qed.

Lemma index_width_map l limit tt lz : index_width (map g l) limit tt lz = index_width l limit tt lz.
Proof. unfold index_width. now rewrite select_rows_map, map_length. Qed.
End Param.

(* ---------- the table ---------- *)
Lemma mapM_ext_map {A B C} (h : A -> B) (f1 : B -> result C) (f2 : A -> result C) l :
  (forall x, f1 (h x) = f2 x) -> mapM f1 (map h l) = mapM f2 l.
Proof.
  intros E. induction l as [|x l IH]; cbn [map mapM]; [reflexivity|]. now rewrite E, IH.
Qed.

Lemma format_row_erase r ws : format_row (map erase_cell r) ws = format_row r ws.
Proof.
  unfold format_row. revert ws; induction r as [|c r IH]; intros ws; [reflexivity|].
  destruct ws as [|w ws]; [reflexivity|]. cbn [map combine mapM fst snd].
  now rewrite type_formatter_erase, IH.
Qed.

Lemma data_line_erase lz iw ws ln :
  data_line lz iw ws (line_map (map erase_cell) ln) = data_line lz iw ws ln.
Proof. destruct ln; cbn [line_map data_line]; [reflexivity|now rewrite format_row_erase]. Qed.

Lemma nth_error_map_erase r i :
  nth_error (map erase_cell r) i = option_map erase_cell (nth_error r i).
Proof. apply nth_error_map. Qed.

Lemma width_fold_erase t i m :
  fold_left (fun m r =>
    match nth_error r i with
    | Some c => if is_none c then m else Nat.max m (length (cell_str c))
    | None => m
    end) (map (map erase_cell) t) m
  = fold_left (fun m r =>
    match nth_error r i with
    | Some c => if is_none c then m else Nat.max m (length (cell_str c))
    | None => m
    end) t m.
Proof.
  revert m; induction t as [|r t IH]; intros m; cbn [map fold_left]; [reflexivity|].
  rewrite nth_error_map_erase. destruct (nth_error r i) as [c|]; cbn [option_map].
  - rewrite is_none_erase, cell_str_erase. apply IH.
  - apply IH.
Qed.

Lemma data_width_erase t i : data_width (map (map erase_cell) t) i = data_width t i.
Proof. apply width_fold_erase. Qed.

Lemma col_widths_erase f cfg t :
  col_widths (erase_frame f) cfg (map (map erase_cell) t) = col_widths f cfg t.
Proof.
  unfold col_widths, col_types, erase_frame. cbn [names ctypes].
  rewrite (map_ext (data_width (map (map erase_cell) t)) (data_width t) (data_width_erase t)).
  reflexivity.
Qed.

Lemma inner_tagged_erase f cfg : inner_tagged (erase_frame f) cfg = inner_tagged f cfg.
Proof.
  unfold inner_tagged.
  replace (rows (erase_frame f)) with (map (map erase_cell) (rows f)) by reflexivity.
  replace (lazy (erase_frame f)) with (lazy f) by reflexivity.
  replace (names (erase_frame f)) with (names f) by reflexivity.
  replace (col_types (erase_frame f)) with (col_types f) by reflexivity.
  rewrite select_rows_map, index_width_map, shown_lines_map. cbn [fst].
  rewrite col_widths_erase.
  rewrite (mapM_ext_map (line_map (map erase_cell)) _ _ _ (data_line_erase _ _ _)).
  reflexivity.
Qed.

Theorem ascii_table_erase f cfg : ascii_table (erase_frame f) cfg = ascii_table f cfg.
Proof. unfold ascii_table, cut_lines. now rewrite inner_tagged_erase. Qed.

Theorem df_str_erase f cols : df_str (erase_frame f) cols = df_str f cols.
Proof.
  unfold df_str. rewrite ascii_table_erase.
  replace (lazy (erase_frame f)) with (lazy f) by reflexivity.
  replace (names (erase_frame f)) with (names f) by reflexivity.
  replace (length (rows (erase_frame f))) with (length (rows f)); [reflexivity|].
  unfold erase_frame; cbn [rows]. now rewrite map_length.
Qed.

Lemma md_row_erase ws r :
  map (fun cw : cell * nat => take (snd cw) (rjust (snd cw) (cell_str (fst cw)))) (combine (map erase_cell r) ws)
  = map (fun cw : cell * nat => take (snd cw) (rjust (snd cw) (cell_str (fst cw)))) (combine r ws).
Proof.
  revert ws; induction r as [|c r IH]; intros ws; [reflexivity|].
  destruct ws as [|w ws]; [reflexivity|]. cbn [map combine fst snd]. now rewrite cell_str_erase, IH.
Qed.

Theorem markdown_erase f lim m : markdown (erase_frame f) lim m = markdown f lim m.
Proof.
  unfold markdown, md_lines.
  replace (names (erase_frame f)) with (names f) by reflexivity.
  replace (rows (erase_frame f)) with (map (map erase_cell) (rows f)) by reflexivity.
  rewrite map_length.
  assert (Et : (if lim =? 0 then map (map erase_cell) (rows f) else firstn lim (map (map erase_cell) (rows f)))
               = map (map erase_cell) (if lim =? 0 then rows f else firstn lim (rows f))).
  { destruct (lim =? 0); [reflexivity|apply firstn_map]. }
  rewrite Et. set (t := if lim =? 0 then rows f else firstn lim (rows f)).
  rewrite map_length.
  assert (Ew : map (fun i => fold_left (fun m r =>
                  match nth_error r i with
                  | Some c => if is_none c then m else Nat.max m (length (cell_str c))
                  | None => m end) (map (map erase_cell) t) 4) (seq 0 (length (names f)))
             = map (fun i => fold_left (fun m r =>
                  match nth_error r i with
                  | Some c => if is_none c then m else Nat.max m (length (cell_str c))
                  | None => m end) t 4) (seq 0 (length (names f)))).
  { apply map_ext. intros i. apply width_fold_erase. }
  rewrite Ew. f_equal. f_equal.
  set (ws := map (fun x : nat * nat => Nat.min (Nat.max (fst x) (snd x)) m) _). clearbody ws.
  generalize (seq 0 (length t)) as ix. clear Et Ew. clearbody t.
  induction t as [|r t IH]; intros ix; cbn [map]; [destruct ix; reflexivity|].
  destruct ix as [|i ix]; [reflexivity|]. cbn [combine map fst snd]. rewrite md_row_erase, IH. reflexivity.
Qed.

(* printable-ASCII-ness is about content only *)
Lemma pcell_erase c : pcell c -> pcell (erase_cell c).
Proof. unfold pcell, erase_cell. cbn [cv]. apply pval_unsub. Qed.
