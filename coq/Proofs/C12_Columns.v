(* C12 - a column is the column that was NAMED: names are compared code point by code point
   (no case folding, no normalisation, no trimming), and the result of aggregate depends on the
   rows only through the cells of the key columns and of the requested columns. *)
From Coq Require Import List ZArith QArith Bool Lia.
From Orso Require Import Model.C12 Proofs.C12_Dict Proofs.C12.
Import ListNotations.
Close Scope Q_scope.
Close Scope Z_scope.

Section Columns.
Variable K : Type.
Variable K_eqb : K -> K -> bool.
Hypothesis K_eqb_spec : forall a b, K_eqb a b = true <-> a = b.

Notation val := (val K).
Notation key_eqb := (key_eqb K K_eqb).

(* two rows look the same through the key columns and the columns named in the requests *)
Definition same_named_cells (names : list name) (gidx : list nat) (cols : list name) (r r' : list val) : Prop :=
  (forall i, In i gidx -> cellat K r i = cellat K r' i) /\
  (forall c i, In c cols -> index_of c names = Some i -> cellat K r i = cellat K r' i).

Lemma same_key names gidx cols r r' :
  same_named_cells names gidx cols r r' -> key_of K gidx r = key_of K gidx r'.
Proof. intros [H _]. unfold key_of. apply map_ext_in. exact H. Qed.

Lemma same_value names gidx cols r r' c :
  same_named_cells names gidx cols r r' -> In c cols ->
  value_at K r (index_of c names) = value_at K r' (index_of c names).
Proof.
  intros [_ H] Hc. destruct (index_of c names) as [i|] eqn:E; cbn [value_at]; [|reflexivity].
  exact (H c i Hc E).
Qed.

Lemma keys_same names gidx cols rows rows' :
  Forall2 (same_named_cells names gidx cols) rows rows' ->
  map (key_of K gidx) rows = map (key_of K gidx) rows'.
Proof.
  induction 1 as [|r r' l l' H _ IH]; cbn [map]; [reflexivity|].
  now rewrite (same_key _ _ _ _ _ H), IH.
Qed.

Lemma column_values_same names gidx cols rows rows' k c :
  Forall2 (same_named_cells names gidx cols) rows rows' -> In c cols ->
  column_values K names c (group_of K K_eqb gidx rows k) =
  column_values K names c (group_of K K_eqb gidx rows' k).
Proof.
  intros HF Hc. unfold column_values, group_of.
  induction HF as [|r r' l l' H _ IH]; cbn [filter]; [reflexivity|].
  rewrite (same_key _ _ _ _ _ H).
  destruct (key_eqb (key_of K gidx r') k); [|exact IH].
  cbn [map filter]. rewrite (same_value _ _ _ _ _ c H Hc).
  destruct (nonnull K (value_at K r' (index_of c names))); [f_equal|]; exact IH.
Qed.

Theorem spec_only_named_columns names rows rows' keycols reqs gidx :
  group_indices names keycols = Some gidx ->
  Forall2 (same_named_cells names gidx (map snd reqs)) rows rows' ->
  spec_aggregate K K_eqb names rows keycols reqs = spec_aggregate K K_eqb names rows' keycols reqs.
Proof.
  intros Hg HF. unfold spec_aggregate. rewrite Hg.
  rewrite <- (keys_same _ _ _ _ _ HF).
  rewrite (mapM_ext_in (spec_row K K_eqb names gidx reqs rows) (spec_row K K_eqb names gidx reqs rows')); [reflexivity|].
  intros k _. unfold spec_row. f_equal. apply mapM_ext_in. intros r Hr. f_equal. f_equal.
  apply (column_values_same names gidx (map snd reqs)); [exact HF|]. now apply in_map.
Qed.

Theorem only_named_columns names rows rows' lz lz' keycols reqs gidx :
  reqs <> [] ->
  group_indices names keycols = Some gidx ->
  Forall2 (same_named_cells names gidx (map snd reqs)) rows rows' ->
  fst (aggregate K K_eqb (mkframe names rows lz) keycols reqs) =
  fst (aggregate K K_eqb (mkframe names rows' lz') keycols reqs).
Proof.
  intros Hne Hg HF. rewrite !(code_eq_spec K K_eqb K_eqb_spec) by exact Hne. cbn [fnames frows].
  now apply (spec_only_named_columns names rows rows' keycols reqs gidx).
Qed.

End Columns.

(* which column a name denotes: the first one whose name is the same sequence of code points *)
Lemma index_of_exact t names i :
  index_of t names = Some i <->
  (nth_error names i = Some t /\ forall j, j < i -> nth_error names j <> Some t).
Proof.
  revert i. induction names as [|n r IH]; intros i; cbn [index_of].
  - split; [discriminate|]. intros [H _]. destruct i; discriminate.
  - destruct (name_eqb t n) eqn:E.
    + apply name_eqb_spec in E. subst n. split.
      * intros [= <-]. split; [reflexivity|]. intros j Hj. lia.
      * intros [H1 H2]. destruct i as [|i]; [reflexivity|]. exfalso. apply (H2 0); [lia|reflexivity].
    + assert (Hne : n <> t) by (intros ->; rewrite (proj2 (name_eqb_spec t t) eq_refl) in E; discriminate).
      destruct (index_of t r) as [j|] eqn:Ej; cbn [option_map].
      * split.
        -- intros [= <-]. destruct (proj1 (IH j) eq_refl) as [H1 H2]. split; [exact H1|].
           intros [|j'] Hj'; cbn [nth_error]; [congruence|]. apply H2. lia.
        -- intros [H1 H2]. destruct i as [|i]; cbn [nth_error] in H1; [congruence|].
           f_equal. f_equal. assert (Hi : Some j = Some i); [|congruence].
           apply IH. split; [exact H1|]. intros j' Hj'. apply (H2 (S j')). lia.
      * split; [discriminate|]. intros [H1 H2]. destruct i as [|i]; cbn [nth_error] in H1; [congruence|].
        assert (Hi : None = Some i); [|discriminate]. apply IH. split; [exact H1|].
        intros j' Hj'. apply (H2 (S j')). lia.
Qed.
