(* C19 - the statements used by Props/C19.v, in the form "for every history / every schedule". *)
From Coq Require Import List ZArith NArith Bool Lia Sorted.
From Orso Require Import Model.C19.
From Orso Require Export Proofs.C19_Seq Proofs.C19_Conc Proofs.C19_Reent Proofs.C19_Multi Proofs.C19_Df.
Import ListNotations.

Section Reach.
Variables A K R : Type.
Variable key : A -> K.
Variable keqb : K -> K -> bool.
Variable f : A -> N -> R.
Variable valid : option Z.
Variable mx : nat.
Hypothesis keqb_spec : forall x y, keqb x y = true <-> x = y.
Variable t0 : Z.
Variable h : list (@event A).

Let s := fst (lru_run key keqb f mx valid (lru_init t0) h).
Let tr := map fst (snd (lru_run key keqb f mx valid (lru_init t0) h)).

Lemma reach_inv : lru_inv A K R key keqb f valid mx s tr.
Proof. apply lru_reachable_inv. exact keqb_spec. Qed.

Theorem lru_size_bound : length (l_items s) <= mx /\ NoDup (map fst (l_items s)).
Proof.
  split; [exact (inv_size _ _ _ _ _ _ _ _ _ _ reach_inv)|].
  eapply SSorted_nodup. exact (inv_order _ _ _ _ _ _ _ _ _ _ reach_inv).
Qed.

Theorem lru_invocations : l_calls s = count_miss tr.
Proof. exact (inv_calls _ _ _ _ _ _ _ _ _ _ reach_inv). Qed.

Theorem lru_sorted_by_last_use :
  StronglySorted (fun e1 e2 => last_use key keqb (fst e1) tr < last_use key keqb (fst e2) tr) (l_items s).
Proof. exact (inv_order _ _ _ _ _ _ _ _ _ _ reach_inv). Qed.

Theorem lru_sound past o rest :
  tr = past ++ o :: rest ->
  exists past' p rest', past ++ [o] = past' ++ p :: rest' /\ o_hit p = false /\
     key (o_arg p) = key (o_arg o) /\ o_res o = f (o_arg p) (count_miss past') /\
     (o_hit o = true -> fresh valid (o_now o) (o_now p) = true).
Proof. intros E. exact (inv_sound _ _ _ _ _ _ _ _ _ _ reach_inv past o rest E). Qed.

Theorem lru_contract a :
  let s' := fst (lru_call key keqb f mx valid s a) in
  let o := snd (lru_call key keqb f mx valid s a) in
  (o_hit o = true <-> exists ts r, In (key a, (ts, r)) (l_items s) /\ fresh valid (l_now s) ts = true) /\
  (o_hit o = true -> forall ts r, In (key a, (ts, r)) (l_items s) -> o_res o = r) /\
  (o_hit o = true -> l_calls s' = l_calls s) /\
  (o_hit o = false -> o_res o = f a (l_calls s) /\ l_calls s' = N.succ (l_calls s)) /\
  o_arg o = a /\ o_now o = l_now s.
Proof. eapply lru_call_contract; [exact keqb_spec|exact reach_inv]. Qed.

Theorem lru_evicts_lru a :
  let live := lru_live valid (l_now s) (l_items s) in
  o_hit (snd (lru_call key keqb f mx valid s a)) = false ->
  length live = mx -> 0 < mx ->
  exists victim rest,
    live = victim :: rest /\
    l_items (fst (lru_call key keqb f mx valid s a)) = rest ++ [(key a, (l_now s, f a (l_calls s)))] /\
    Forall (fun e => last_use key keqb (fst victim) tr < last_use key keqb (fst e) tr) rest.
Proof. eapply lru_eviction; [exact keqb_spec|exact reach_inv]. Qed.

Theorem lru_recently_used_hits a p :
  last_miss_for key keqb (key a) (rev tr) = Some p -> fresh valid (l_now s) (o_now p) = true ->
  (forall ks, NoDup ks -> (forall k', In k' ks -> last_use key keqb (key a) tr < last_use key keqb k' tr) -> length ks < mx) ->
  o_hit (snd (lru_call key keqb f mx valid s a)) = true /\
  o_res (snd (lru_call key keqb f mx valid s a)) = o_res p.
Proof. eapply lru_recent_hit; [exact keqb_spec|exact reach_inv]. Qed.

End Reach.

(* the key comparison of the concrete instance used by the correspondence decides equality of keys,
   so the hypothesis [keqb_spec] of the theorems holds for it *)
Lemma list_eqb_spec {X} (eqb : X -> X -> bool) :
  (forall x y, eqb x y = true <-> x = y) -> forall a b, list_eqb eqb a b = true <-> a = b.
Proof.
  intros H. induction a as [|x a IH]; intros [|y b]; cbn; try (split; [discriminate|discriminate]); [tauto|].
  rewrite andb_true_iff, H, IH. split; [intros [-> ->]; reflexivity|intros E; injection E; auto].
Qed.

Lemma kwp_eqb_spec x y : kwp_eqb x y = true <-> x = y.
Proof.
  destruct x as [a b], y as [c d]. unfold kwp_eqb. cbn. rewrite andb_true_iff, N.eqb_eq, Z.eqb_eq.
  split; [intros [-> ->]; reflexivity|intros E; injection E; auto].
Qed.

Theorem ckeqb_spec x y : ckeqb x y = true <-> x = y.
Proof.
  destruct x as [a b], y as [c d]. unfold ckeqb. cbn. rewrite andb_true_iff.
  rewrite (list_eqb_spec Z.eqb Z.eqb_eq), (list_eqb_spec kwp_eqb kwp_eqb_spec).
  split; [intros [-> ->]; reflexivity|intros E; injection E; auto].
Qed.
