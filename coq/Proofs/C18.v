(* C18 - lemmas assembled for Props/C18.v, and the witnesses of the refuted statements. *)
From Coq Require Import String.
From Coq Require Import List NArith ZArith Bool Arith Lia.
From Orso Require Import Gen.C18_Tables Model.C18.
From Orso Require Export Proofs.C18_Select Proofs.C18_Width Proofs.C18_Lines Proofs.C18_Sub Proofs.C18_Columns.
Import ListNotations.
Local Open Scope list_scope.

Lemma blob_decode_total (bs : list N) : exists t, utf8_decode true bs = Ok t.
Proof. unfold utf8_decode. eexists. reflexivity. Qed.

Lemma blob_cell_total (bs : list N) (cs : option text) (w : nat) :
  exists t, type_formatter (mkcell (VBytes bs) cs) w = Ok t.
Proof. apply type_formatter_total. Qed.

(* the decoder without errors="replace" (the code before fix 969ee82) raises on the F-C18-2 witness *)
Lemma strict_decode_raises : utf8_decode false [255%N; 254%N] = Raise UnicodeDecodeError.
Proof. reflexivity. Qed.

Corollary box_lines_within_display f cfg cuts :
  frame_ok f -> pframe f -> 1 <= limit cfg -> 1 <= mcw cfg -> 1 <= dwidth cfg ->
  cut_lines f cfg = Ok cuts ->
  forall l1 l2, In (KBox, l1) cuts -> In (KBox, l2) cuts -> pw l1 = pw l2 /\ pw l1 <= dwidth cfg.
Proof.
  intros Hok Hp Hl Hm Hd H l1 l2 H1 H2.
  rewrite (box_lines_cut_width f cfg cuts Hok Hp Hl Hm Hd H l1 H1).
  rewrite (box_lines_cut_width f cfg cuts Hok Hp Hl Hm Hd H l2 H2). split; [reflexivity|lia].
Qed.

(* ---------- F-C18-3 (fixed by c25f207): timedelta64 NaT renders as null, 14 months as 1y 2mo ---------- *)
Lemma nat_timedelta_null :
  type_formatter (mkcell (VNpTimedelta true true 0%Z) (Some (T "NaT"))) 4
  = Ok (tok "NULL" ++ T "null" ++ OFF).
Proof. reflexivity. Qed.
Lemma month_timedelta_interval :
  type_formatter (mkcell (VNpTimedelta false false 14%Z) (Some (T "14 months"))) 9
  = Ok (tok "INTERVAL" ++ T "1y 2mo" ++ OFF ++ OFF ++ T "   ").
Proof. reflexivity. Qed.

(* ---------- F-C18-4: the six characters \u0001 in printable content ---------- *)
Definition f4 : frame :=
  mkframe [T "t"] None [[mkcell (VStr (T "plain text")) None]; [mkcell (VStr (T "\u0001OFFm")) None]] false.
Definition cfg4 : config := mkconfig 5 80 32 false true false.

Lemma literal_u0001_breaks_width :
  frame_ok f4 /\ pframe f4 /\
  exists cuts l1 l2, cut_lines f4 cfg4 = Ok cuts /\ In (KBox, l1) cuts /\ In (KBox, l2) cuts /\
    pw l1 = pw l2 /\
    length (colorizer l1 false) <> length (colorizer l2 false).
Proof.
  split; [|split].
  - split; [exact I|]. repeat constructor.
  - split; [|split].
    + constructor; [apply pasciib_pascii; reflexivity|constructor].
    + exact I.
    + constructor; [constructor; [unfold pcell; cbn [cv pval]; apply pasciib_pascii; reflexivity|constructor]|].
      constructor; [constructor; [unfold pcell; cbn [cv pval]; apply pasciib_pascii; reflexivity|constructor]|constructor].
  - destruct (cut_lines f4 cfg4) as [cuts|e] eqn:E; [|vm_compute in E; discriminate].
    exists cuts, (snd (nth 3 cuts (KBox, []))), (snd (nth 4 cuts (KBox, []))).
    vm_compute in E. injection E as <-.
    split; [reflexivity|]. split; [|split; [|split]].
    + vm_compute. do 3 right. now left.
    + vm_compute. do 4 right. now left.
    + vm_compute. reflexivity.
    + vm_compute. discriminate.
Qed.

(* ---------- non-vacuity ---------- *)
Definition fx : frame :=
  mkframe [T "id"; T "name"] (Some [CtPlain (T "INTEGER"); CtArray (T "ARRAY") (Some (T "VARCHAR"))])
    (map (fun i => [mkcell (VInt (dec_nat (1000 + i))) None; mkcell (VList [T "a"; T "b c"]) (Some (T "['a', 'b c']"))]) (seq 0 7))
    true.
Definition cfgx : config := mkconfig 2 25 12 true true true.

Lemma fx_hypotheses : frame_ok fx /\ pframe fx.
Proof.
  split.
  - split; [reflexivity|]. vm_compute. repeat constructor.
  - split; [|split].
    + constructor; [apply pasciib_pascii; reflexivity|constructor; [apply pasciib_pascii; reflexivity|constructor]].
    + cbn [fx ctypes]. constructor; [apply pasciib_pascii; reflexivity|].
      constructor; [split; apply pasciib_pascii; reflexivity|constructor].
    + unfold fx; cbn [rows]. apply Forall_map. apply Forall_forall. intros i _.
      constructor; [unfold pcell; cbn [cv pval]; apply pascii_dec_nat|].
      constructor; [|constructor]. unfold pcell; cbn [cv pval].
      constructor; [apply pasciib_pascii; reflexivity|constructor; [apply pasciib_pascii; reflexivity|constructor]].
Qed.

Lemma trunc_printable_width (s : text) (k w : nat) :
  wf s k -> 1 <= w ->
  pw (trunc_printable s w true) = w /\ pw (trunc_printable s w false) = Nat.min k w.
Proof.
  intros H Hw. split.
  - exact (wf_pw _ _ (trunc_full_wf s k w H Hw)).
  - exact (wf_pw _ _ (trunc_cut_wf s k w H Hw)).
Qed.

(* ---------- round 4: subclass instances ---------- *)
Lemma subclass_cell_as_base (v : value) (s : option text) (w : nat) :
  is_none (mkcell (VSub v) s) = is_none (mkcell v s) /\
  cell_str (mkcell (VSub v) s) = cell_str (mkcell v s) /\
  type_formatter (mkcell (VSub v) s) w = type_formatter (mkcell v s) w.
Proof. repeat split. Qed.

Lemma subclass_frame_as_base (f : frame) (cfg : config) (cols lim m : nat) :
  ascii_table (erase_frame f) cfg = ascii_table f cfg /\
  df_str (erase_frame f) cols = df_str f cols /\
  markdown (erase_frame f) lim m = markdown f lim m.
Proof. split; [apply ascii_table_erase|split; [apply df_str_erase|apply markdown_erase]]. Qed.

(* a masked array [1 -- 3]: tolist() is [1, None, 3]; rendered as that list is, never through int(value) *)
Definition masked_cell : cell := mkcell (VSub (VNpArray (VList [T "1"; T "None"; T "3"]))) (Some (T "[1 -- 3]")).
Lemma masked_array_renders :
  type_formatter masked_cell 18
  = Ok (tok "PUNC" ++ T "['" ++ tok "VALUE" ++ T "1" ++ tok "PUNC" ++ T "', '" ++ tok "VALUE" ++ T "None" ++ tok "PUNC" ++ T "', '"
        ++ tok "VALUE" ++ T "3" ++ tok "PUNC" ++ T "']" ++ OFF)
  /\ erase_cell masked_cell <> masked_cell.
Proof. split; [reflexivity|discriminate]. Qed.

