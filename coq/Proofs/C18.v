(* C18 - lemmas about the rendering model. *)
From Coq Require Import List NArith ZArith Bool Arith Lia.
From Orso Require Import Model.C18.
Import ListNotations.

Lemma blob_decode_total (bs : list N) : exists t, utf8_decode true bs = Ok t.
Proof. unfold utf8_decode. eexists. reflexivity. Qed.
