(* C10 - lemmas about sessions over several row classes and frames (Model/C10.v, Section Session):
   what an object returns depends only on that object's own definition and on the actions addressed
   to it - not on the other objects built or used in the same process. *)
From Coq Require Import List ZArith Bool NArith Lia ZifyBool Arith.
From Orso Require Import Model.C10 Proofs.C10 Proofs.C10_Frame.
Import ListNotations.

Section SetNth.
Variable T : Type.

Lemma set_nth_length : forall (l : list T) (i : nat) (x : T), length (set_nth l i x) = length l.
Proof.
  induction l as [|y r IH]; intros i x; [reflexivity|]. destruct i as [|j]; cbn [set_nth length].
  - reflexivity.
  - rewrite IH. reflexivity.
Qed.

Lemma set_nth_same : forall (l : list T) (i : nat) (x y : T),
  nth_error l i = Some y -> nth_error (set_nth l i x) i = Some x.
Proof.
  induction l as [|z r IH]; intros i x y H.
  - destruct i; discriminate H.
  - destruct i as [|j]; cbn [set_nth nth_error] in *; [reflexivity|]. exact (IH j x y H).
Qed.

Lemma set_nth_other : forall (l : list T) (i j : nat) (x : T),
  i <> j -> nth_error (set_nth l i x) j = nth_error l j.
Proof.
  induction l as [|z r IH]; intros i j x H.
  - destruct i; reflexivity.
  - destruct i as [|i']; destruct j as [|j']; cbn [set_nth nth_error]; try reflexivity.
    + exfalso. apply H. reflexivity.
    + apply IH. intros E. apply H. rewrite E. reflexivity.
Qed.
End SetNth.

Section SessionLemmas.
Variable A : Type.
Variable keq : A -> A -> bool.
Variable none : A.

Local Notation sess_step := (sess_step keq none).
Local Notation sess_run := (sess_run keq none).
Local Notation sess_state := (sess_state keq none).
Local Notation obj_step := (obj_step keq none).
Local Notation obj_after := (obj_after keq none).

(* one step of the session, seen from object i: only an action addressed to i changes it *)
Lemma sess_step_local : forall (st : list (obj A)) (op : sop A) (i : nat) (o : obj A),
  nth_error st i = Some o ->
  nth_error (fst (sess_step st op)) i =
  Some (match op with
        | On j a => if Nat.eqb j i then fst (obj_step o a) else o
        | NewHead j n => if Nat.eqb j i then fst (obj_step o (AFrame OpMaterialize)) else o
        | _ => o
        end).
Proof.
  assert (Hlt : forall (st : list (obj A)) (i : nat) (o : obj A), nth_error st i = Some o -> i < length st).
  { intros st0 i0 o0 H0. apply nth_error_Some. rewrite H0. discriminate. }
  intros st op i o H. destruct op as [f t|k names rows|j a|j|j n]; cbn [sess_step fst].
  - rewrite nth_error_app1; [exact H|]. apply nth_error_Some. rewrite H. discriminate.
  - rewrite nth_error_app1; [exact H|]. apply nth_error_Some. rewrite H. discriminate.
  - destruct (Nat.eqb j i) eqn:E.
    + apply Nat.eqb_eq in E. subst j. rewrite H. cbn [fst]. apply (set_nth_same _ st i _ o H).
    + apply Nat.eqb_neq in E. destruct (nth_error st j) as [oj|] eqn:Hj; cbn [fst]; [|exact H].
      rewrite (set_nth_other _ st j i _ E). exact H.
  - destruct (nth_error st j) as [oj|]; cbn [fst]; [|exact H].
    rewrite nth_error_app1; [exact H|exact (Hlt st i o H)].
  - destruct (Nat.eqb j i) eqn:E.
    + apply Nat.eqb_eq in E. subst j. rewrite H. destruct o as [f t|names s]; cbn [fst obj_step]; [exact H|].
      rewrite nth_error_app1; [|rewrite set_nth_length; exact (Hlt st i _ H)].
      cbn [step fst]. apply (set_nth_same _ st i _ _ H).
    + apply Nat.eqb_neq in E. destruct (nth_error st j) as [[f t|names s]|] eqn:Hj; cbn [fst]; try exact H.
      rewrite nth_error_app1; [|rewrite set_nth_length; exact (Hlt st i o H)].
      rewrite (set_nth_other _ st j i _ E). exact H.
Qed.

(* the whole session, seen from object i: the object after the actions addressed to it *)
Lemma sess_state_local : forall (ops : list (sop A)) (st : list (obj A)) (i : nat) (o : obj A),
  nth_error st i = Some o ->
  nth_error (sess_state st ops) i = Some (obj_after o (actions_on i ops)).
Proof.
  induction ops as [|op r IH]; intros st i o H; cbn [sess_state actions_on].
  - exact H.
  - pose proof (sess_step_local st op i o H) as Hs.
    rewrite (IH _ i _ Hs). destruct op as [f t|k names rows|j a|j|j n]; try reflexivity.
    + destruct (Nat.eqb j i); reflexivity.
    + destruct (Nat.eqb j i); reflexivity.
Qed.

Lemma sess_run_app : forall (pre ops : list (sop A)) (st : list (obj A)),
  sess_run st (pre ++ ops) = sess_run st pre ++ sess_run (sess_state st pre) ops.
Proof.
  induction pre as [|op r IH]; intros ops st; cbn [app sess_run sess_state].
  - reflexivity.
  - rewrite IH. reflexivity.
Qed.

Lemma sess_run_length : forall (ops : list (sop A)) (st : list (obj A)), length (sess_run st ops) = length ops.
Proof.
  induction ops as [|op r IH]; intros st; cbn [sess_run length]; [reflexivity|]. rewrite IH. reflexivity.
Qed.

(* what an action on object i returns after any session: what it returns on object i alone, after the
   actions that were addressed to i *)
Lemma sess_output : forall (st : list (obj A)) (pre : list (sop A)) (i : nat) (o : obj A) (a : action A),
  nth_error st i = Some o ->
  nth_error (sess_run st (pre ++ [On i a])) (length pre) =
  Some (snd (obj_step (obj_after o (actions_on i pre)) a)).
Proof.
  intros st pre i o a H. rewrite sess_run_app.
  rewrite nth_error_app2; [|rewrite sess_run_length; apply Nat.le_refl].
  rewrite sess_run_length. rewrite Nat.sub_diag. cbn [sess_run nth_error sess_step].
  rewrite (sess_state_local pre st i o H). reflexivity.
Qed.

(* a new object gets the next index and the value its constructor arguments say *)
Lemma sess_new : forall (st : list (obj A)) (f : list A) (t : bool) (k : backing) (names : list A)
                        (rows : list (rowobj A)),
  nth_error (fst (sess_step st (NewClass f t))) (length st) = Some (OClass f t) /\
  nth_error (fst (sess_step st (NewFrame k names rows))) (length st) = Some (OFrame names (frame_init k rows)).
Proof.
  intros st f t k names rows. cbn [sess_step fst]. split.
  - rewrite nth_error_app2; [|apply Nat.le_refl]. rewrite Nat.sub_diag. reflexivity.
  - rewrite nth_error_app2; [|apply Nat.le_refl]. rewrite Nat.sub_diag. reflexivity.
Qed.

(* a deep copy starts as the value its source has at that moment; head(n) starts as a list-backed frame
   of the first n rows of its source *)
Lemma sess_new_derived : forall (st : list (obj A)) (i n : nat),
  (forall o, nth_error st i = Some o ->
     nth_error (fst (sess_step st (NewCopy i))) (length st) = Some o) /\
  (forall names s, nth_error st i = Some (OFrame names s) ->
     nth_error (fst (sess_step st (NewHead i n))) (length st) = Some (OFrame names (SEager (firstn n (contents s))))).
Proof.
  intros st i n. split.
  - intros o H. cbn [sess_step]. rewrite H. cbn [fst].
    rewrite nth_error_app2; [|apply Nat.le_refl]. rewrite Nat.sub_diag. reflexivity.
  - intros names s H. cbn [sess_step]. rewrite H. cbn [fst].
    rewrite nth_error_app2; [|rewrite set_nth_length; apply Nat.le_refl].
    rewrite set_nth_length. rewrite Nat.sub_diag. reflexivity.
Qed.

(* an object created in the middle of a session *)
Lemma sess_output_created : forall (st : list (obj A)) (p1 p2 : list (sop A)) (mk : sop A) (o : obj A) (a : action A),
  nth_error (fst (sess_step (sess_state st p1) mk)) (length (sess_state st p1)) = Some o ->
  nth_error (sess_run st (p1 ++ mk :: p2 ++ [On (length (sess_state st p1)) a])) (length p1 + S (length p2)) =
  Some (snd (obj_step (obj_after o (actions_on (length (sess_state st p1)) p2)) a)).
Proof.
  intros st p1 p2 mk o a H. rewrite sess_run_app.
  rewrite nth_error_app2; [|rewrite sess_run_length; lia].
  rewrite sess_run_length. replace (length p1 + S (length p2) - length p1) with (S (length p2)) by lia.
  cbn [sess_run nth_error].
  exact (sess_output _ p2 _ o a H).
Qed.

(* the row an ordinary class makes from a dictionary: one cell per field, in order, the value stored
   under the field or None *)
Lemma make_row_dict : forall (fields : list A) (d : list (A * A)),
  length (make_row keq none fields false (DDict d)) = length fields /\
  forall i f, nth_error fields i = Some f ->
    nth_error (make_row keq none fields false (DDict d)) i =
    Some (match lookup keq d f with Some v => v | None => none end).
Proof.
  intros fields d. cbn [make_row]. split.
  - rewrite (extract_length A A keq none (Some d)). apply map_length.
  - intros i f H.
    rewrite (extract_nth A A keq none (Some d) (map (fun f => FKey f) fields) i (FKey f)).
    + reflexivity.
    + rewrite nth_error_map. rewrite H. reflexivity.
Qed.

End SessionLemmas.
