(* C08 - the suffix-stripping stage on "core ++ suffix". *)
From Coq Require Import List ZArith NArith Bool Lia ZifyBool.
From Orso Require Import Base.Civil Gen.C08_Tables Model.C08 Proofs.C08_Str.
Import ListNotations.
Open Scope Z_scope.

Lemma py_idx_negp v p : Z.pos p <= zlen v -> py_idx v (Z.neg p) = Ok (nth (Z.to_nat (zlen v - Z.pos p)) v 0%N).
Proof. intros H. change (Z.neg p) with (- Z.pos p). apply py_idx_neg. lia. Qed.
Lemma py_idx_negp_app c sfx p : Z.pos p <= zlen sfx -> py_idx (c ++ sfx) (Z.neg p) = py_idx sfx (Z.neg p).
Proof. intros H. change (Z.neg p) with (- Z.pos p). apply py_idx_neg_app. lia. Qed.

(* characters of the date part (first 8) and of everything after it in a rendering *)
Definition headchar (x : N) : bool := ascii_digit x || (x =? 45)%N.
Definition tailchar (x : N) : bool :=
  ascii_digit x || (x =? 58)%N || (x =? 46)%N || (x =? 84)%N || (x =? 32)%N.
Definition core_shape (c : list N) : bool := forallb headchar (firstn 8 c) && forallb tailchar (skipn 8 c).

Lemma forallb_nth {A} (P : A -> bool) l i d : forallb P l = true -> (i < length l)%nat -> P (nth i l d) = true.
Proof. intros H Hi. rewrite forallb_forall in H. apply H. now apply nth_In. Qed.

Lemma core_all c x : core_shape c = true -> In x c -> headchar x || tailchar x = true.
Proof.
  unfold core_shape. intros H Hin. apply andb_true_iff in H. destruct H as [H1 H2].
  rewrite <- (firstn_skipn 8 c) in Hin. apply in_app_or in Hin. rewrite forallb_forall in H1, H2.
  destruct Hin as [Hin|Hin]; [rewrite (H1 _ Hin)|rewrite (H2 _ Hin)]; [reflexivity|apply orb_true_r].
Qed.

Lemma core_no_plus c : core_shape c = true -> existsb (N.eqb cPlus) c = false.
Proof.
  intros H. apply not_true_iff_false. intros Hex. apply existsb_exists in Hex. destruct Hex as (x & Hin & Hx).
  pose proof (core_all c x H Hin) as Hc. unfold headchar, tailchar, ascii_digit, cPlus in *. lia.
Qed.

Lemma core_nth_not_Z c i : core_shape c = true -> (i < length c)%nat -> N.eqb (nth i c 0%N) cZ = false.
Proof.
  intros H Hi. pose proof (core_all c _ H (nth_In c 0%N Hi)) as Hc.
  unfold headchar, tailchar, ascii_digit, cZ in *. lia.
Qed.

Lemma core_tail_not_dash c i : core_shape c = true -> (8 <= i < length c)%nat -> N.eqb (nth i c 0%N) cDash = false.
Proof.
  unfold core_shape. intros H Hi. apply andb_true_iff in H. destruct H as [_ H2].
  assert (nth i c 0%N = nth (i - 8) (skipn 8 c) 0%N) as ->.
  { rewrite <- (firstn_skipn 8 c) at 1. rewrite app_nth2; rewrite firstn_length; [f_equal|]; lia. }
  pose proof (forallb_nth tailchar (skipn 8 c) (i - 8) 0%N H2) as Ht.
  rewrite skipn_length in Ht. specialize (Ht ltac:(lia)). unfold tailchar, ascii_digit, cDash in *. lia.
Qed.

Lemma take_until_app c x rest : existsb (N.eqb x) c = false -> take_until x (c ++ x :: rest) = c.
Proof.
  induction c as [|a c IH]; cbn [existsb app take_until]; intros H.
  - now rewrite N.eqb_refl.
  - apply orb_false_iff in H. destruct H as [Ha Hc]. rewrite N.eqb_sym, Ha. now rewrite IH.
Qed.

(* no offset to strip: the value passes through *)
Lemma strip_offset_clean c : core_shape c = true -> strip_offset c = Ok (Some c).
Proof.
  intros H. unfold strip_offset. rewrite core_no_plus by assumption.
  destruct (16 <? zlen c) eqn:E; cbn [rand bind]; [|reflexivity].
  unfold chr_is. rewrite !py_idx_negp by lia. cbn [bind].
  rewrite !core_tail_not_dash by (try assumption; unfold zlen in *; lia). reflexivity.
Qed.

Lemma chr_is_last_app c sfx x : sfx <> [] ->
  chr_is (c ++ sfx) (-1) x = Ok (N.eqb (last sfx 0%N) x).
Proof.
  intros Hne. unfold chr_is. rewrite (py_idx_negp_app c sfx 1).
  - rewrite py_idx_negp. 2:{ destruct sfx; [congruence|rewrite zlen_cons; pose proof (zlen_nonneg sfx); lia]. }
    cbn [bind]. do 2 f_equal.
    rewrite <- (rev_involutive sfx) at 2 3. 
    assert (forall l : list N, l <> [] -> nth (Z.to_nat (zlen l - 1)) l 0%N = last l 0%N) as Hl.
    { intros l Hl. rewrite (app_removelast_last 0%N Hl) at 1 2. rewrite zlen_app, app_nth2; unfold zlen; cbn [length]; [|lia].
      replace (Z.to_nat (Z.of_nat (length (removelast l)) + Z.of_nat 1 - 1) - length (removelast l))%nat with 0%nat by lia. reflexivity. }
    rewrite rev_involutive. now apply Hl.
  - destruct sfx; [congruence|rewrite zlen_cons; pose proof (zlen_nonneg sfx); lia].
Qed.

(* ---- the six suffixes ---- *)
Lemma strip_none c : core_shape c = true -> 1 <= zlen c -> strip_suffix c = Ok (Some c).
Proof.
  intros H Hl. unfold strip_suffix, chr_is. rewrite (py_idx_negp c 1) by lia. cbn [bind].
  rewrite core_nth_not_Z by (try assumption; unfold zlen in *; lia). now apply strip_offset_clean.
Qed.

Lemma strip_Z c : core_shape c = true -> strip_suffix (c ++ [cZ]) = Ok (Some c).
Proof.
  intros H. unfold strip_suffix. rewrite chr_is_last_app by discriminate. cbn [last bind].
  rewrite N.eqb_refl. change 1 with (zlen [cZ]). rewrite drop_last_app. now apply strip_offset_clean.
Qed.

Lemma strip_plus c rest : core_shape c = true -> 10 <= zlen c <= 28 -> rest <> [] ->
  N.eqb (last rest 0%N) cZ = false ->
  strip_suffix (c ++ cPlus :: rest) = Ok (Some c).
Proof.
  intros H Hl Hne Hz. unfold strip_suffix. rewrite chr_is_last_app by discriminate.
  replace (last (cPlus :: rest) 0%N) with (last rest 0%N) by (destruct rest; [congruence|reflexivity]).
  rewrite Hz. cbn [bind]. unfold strip_offset.
  rewrite existsb_app. cbn [existsb]. rewrite N.eqb_refl, orb_true_r.
  rewrite take_until_app by now apply core_no_plus.
  replace ((10 <=? zlen c) && (zlen c <=? 28)) with true by lia. reflexivity.
Qed.

Lemma digit_not c x : ascii_digit c = true -> (x < 48 \/ 57 < x)%N -> N.eqb c x = false.
Proof. unfold ascii_digit. lia. Qed.

Lemma digit_not_sym c x : ascii_digit c = true -> (x < 48 \/ 57 < x)%N -> N.eqb x c = false.
Proof. unfold ascii_digit. lia. Qed.

Lemma strip_minus_colon c a b e f : core_shape c = true -> 11 <= zlen c ->
  ascii_digit a = true -> ascii_digit b = true -> ascii_digit e = true -> ascii_digit f = true ->
  strip_suffix (c ++ [cDash; a; b; cColon; e; f]) = Ok (Some c).
Proof.
  intros H Hl Ha Hb He Hf. set (sfx := [cDash; a; b; cColon; e; f]).
  assert (zlen sfx = 6) as Hs by reflexivity.
  unfold strip_suffix. rewrite chr_is_last_app by discriminate. cbn [last sfx bind].
  rewrite (digit_not f cZ) by (try assumption; unfold cZ; lia). fold sfx.
  unfold strip_offset. rewrite existsb_app, core_no_plus by assumption. cbn [existsb sfx orb].
  rewrite (digit_not_sym a cPlus), (digit_not_sym b cPlus), (digit_not_sym e cPlus), (digit_not_sym f cPlus) by (try assumption; unfold cPlus; lia).
  change (N.eqb cPlus cDash) with false. change (N.eqb cPlus cColon) with false. cbn [orb]. fold sfx.
  replace (16 <? zlen (c ++ sfx)) with true by (rewrite zlen_app; lia).
  unfold chr_is. rewrite !py_idx_negp_app by lia.
  change (py_idx sfx (-6)) with (Ok cDash). change (py_idx sfx (-3)) with (Ok cColon).
  cbn [bind rand]. rewrite !N.eqb_refl. cbn [bind rand].
  rewrite <- Hs. now rewrite drop_last_app.
Qed.

Lemma strip_minus_plain c a b e f : core_shape c = true -> 12 <= zlen c ->
  ascii_digit a = true -> ascii_digit b = true -> ascii_digit e = true -> ascii_digit f = true ->
  strip_suffix (c ++ [cDash; a; b; e; f]) = Ok (Some c).
Proof.
  intros H Hl Ha Hb He Hf. set (sfx := [cDash; a; b; e; f]).
  assert (zlen sfx = 5) as Hs by reflexivity.
  unfold strip_suffix. rewrite chr_is_last_app by discriminate. cbn [last sfx bind].
  rewrite (digit_not f cZ) by (try assumption; unfold cZ; lia). fold sfx.
  unfold strip_offset. rewrite existsb_app, core_no_plus by assumption. cbn [existsb sfx orb].
  rewrite (digit_not_sym a cPlus), (digit_not_sym b cPlus), (digit_not_sym e cPlus), (digit_not_sym f cPlus) by (try assumption; unfold cPlus; lia).
  change (N.eqb cPlus cDash) with false. cbn [orb]. fold sfx.
  replace (16 <? zlen (c ++ sfx)) with true by (rewrite zlen_app; lia).
  (* value[-6] is the last character of the core: not a dash *)
  unfold chr_is at 1. rewrite (py_idx_negp (c ++ sfx) 6) by (rewrite zlen_app; lia).
  rewrite zlen_app, Hs. rewrite app_nth1 by (unfold zlen in *; lia).
  cbn [bind]. rewrite core_tail_not_dash by (try assumption; unfold zlen in *; lia). cbn [rand bind].
  unfold chr_is. rewrite !py_idx_negp_app by lia. change (py_idx sfx (-5)) with (Ok cDash).
  cbn [bind rand]. rewrite N.eqb_refl.
  rewrite <- Hs at 1. rewrite take_last_app. cbn [sfx filter].
  rewrite (digit_not a cDash), (digit_not b cDash), (digit_not e cDash), (digit_not f cDash) by (try assumption; unfold cDash; lia). rewrite N.eqb_refl. cbn [negb].
  rewrite str_isdigit_ascii; [|discriminate|cbn [forallb]; now rewrite Ha, Hb, He, Hf].
  cbn [bind]. rewrite <- Hs. now rewrite drop_last_app.
Qed.
