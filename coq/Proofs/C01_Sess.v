(* C01 - lemmas, part 5: sessions on row objects (sizing, reading, in-place changes of held containers). *)
From Coq Require Import List NArith ZArith Bool Arith Lia.
From Orso Require Import Gen.C01_RowFmt Model.C01 Model.C01_Sess Proofs.C01.
Import ListNotations.
Open Scope N_scope.

Lemma map_map_nth {A B} (g : A -> B) (f : A -> A) (f' : B -> B) :
  (forall x, g (f x) = f' (g x)) ->
  forall i l, map g (map_nth i f l) = map_nth i f' (map g l).
Proof.
  intros H i l. revert i. induction l as [|x r IH]; intros i.
  - destruct i; reflexivity.
  - destruct i as [|k]; cbn [map_nth map].
    + rewrite H. reflexivity.
    + rewrite IH. reflexivity.
Qed.

Lemma map_nth_const_ext {A} (i : nat) (a : A) (f : A -> A) (l : list A) :
  nth_error l i = Some a -> map_nth i f l = map_nth i (fun _ => f a) l.
Proof.
  revert i. induction l as [|x r IH]; intros i H.
  - destruct i; discriminate H.
  - destruct i as [|k]; cbn [map_nth].
    + cbn in H. inversion H. reflexivity.
    + cbn in H. rewrite (IH k H). reflexivity.
Qed.

Lemma map_nth_id_at {A} (i : nat) (a : A) (l : list A) :
  nth_error l i = Some a -> map_nth i (fun _ => a) l = l.
Proof.
  revert i. induction l as [|x r IH]; intros i H.
  - destruct i; reflexivity.
  - destruct i as [|k]; cbn [map_nth].
    + cbn in H. inversion H. reflexivity.
    + cbn in H. rewrite (IH k H). reflexivity.
Qed.

Lemma size_step_vals o : r_vals (fst (size_step o)) = r_vals o.
Proof.
  unfold size_step. destruct (r_size o); [reflexivity|].
  destruct (encode_row_cls (r_cls o) 0 (r_vals o)); [|reflexivity].
  destruct (r_cls o); reflexivity.
Qed.

Lemma size_step_cls o : r_cls (fst (size_step o)) = r_cls o.
Proof.
  unfold size_step. destruct (r_size o); [reflexivity|].
  destruct (encode_row_cls (r_cls o) 0 (r_vals o)); [|reflexivity].
  destruct (r_cls o) eqn:C; cbn [fst r_cls]; congruence.
Qed.

Lemma set_obj_same_vals h r o o' :
  nth_error h r = Some o -> r_vals o' = r_vals o -> map r_vals (set_obj h r o') = map r_vals h.
Proof.
  intros Hn Hv. unfold set_obj.
  rewrite (map_map_nth r_vals (fun _ => o') (fun _ => r_vals o)); [|intros; exact Hv].
  apply map_nth_id_at. rewrite nth_error_map, Hn. reflexivity.
Qed.

(* one step changes the values the objects hold exactly as the values-only reading says: sizing, reading and
   serialising change none of them; an update changes the one cell it names *)
Lemma sess_step_vals h op : map r_vals (fst (sess_step h op)) = vals_step (map r_vals h) op.
Proof.
  destruct op as [c vals via|r|r w|r cell path u|r ts]; cbn [sess_step vals_step].
  - destruct via.
    + destruct (size_step (mk_robj c vals None)) as [o' [n|e]] eqn:S; cbn [fst]; rewrite map_app; cbn [map].
      * replace o' with (fst (size_step (mk_robj c vals None))) by (rewrite S; reflexivity).
        rewrite size_step_vals. reflexivity.
      * reflexivity.
    + cbn [fst]. rewrite map_app. reflexivity.
  - destruct (nth_error h r) as [o|] eqn:Hn; [|reflexivity].
    destruct (size_step o) as [o' n] eqn:S. cbn [fst].
    apply (set_obj_same_vals h r o o' Hn).
    replace o' with (fst (size_step o)) by (rewrite S; reflexivity). apply size_step_vals.
  - reflexivity.
  - rewrite nth_error_map. destruct (nth_error h r) as [o|] eqn:Hn; cbn [option_map fst]; [|reflexivity].
    unfold set_obj.
    rewrite (map_map_nth r_vals _ (fun _ => map_nth cell (upd_at path u) (r_vals o))); [reflexivity|].
    intros x. reflexivity.
  - destruct (nth_error h r); reflexivity.
Qed.

Lemma sess_run_fst_app h ops : forall op,
  fst (sess_run h (ops ++ [op])) = fst (sess_step (fst (sess_run h ops)) op).
Proof.
  revert h. induction ops as [|o t IH]; intros h op.
  - cbn [app sess_run fst]. destruct (sess_step h op) as [h1 r]. reflexivity.
  - cbn [app sess_run]. destruct (sess_step h o) as [h1 r].
    specialize (IH h1 op).
    destruct (sess_run h1 (t ++ [op])) as [h2 rs]. destruct (sess_run h1 t) as [h3 rs3].
    cbn [fst] in *. exact IH.
Qed.

Lemma sess_run_vals ops : forall h,
  map r_vals (fst (sess_run h ops)) = fold_left vals_step ops (map r_vals h).
Proof.
  induction ops as [|o t IH]; intros h.
  - reflexivity.
  - cbn [sess_run fold_left]. destruct (sess_step h o) as [h1 r] eqn:S.
    specialize (IH h1). destruct (sess_run h1 t) as [h2 rs]. cbn [fst] in *.
    rewrite IH. f_equal.
    replace h1 with (fst (sess_step h o)) by (rewrite S; reflexivity). apply sess_step_vals.
Qed.

(* serialising an object: the encoder applied to the values it holds now, nothing else *)
Lemma emit_current o ts :
  emit o ts = REmit (r_vals o) (encode_row ts (r_vals o))
                    (match encode_row ts (r_vals o) with Ok rec => Some (decode_row rec) | Raise _ => None end).
Proof.
  unfold emit. rewrite encode_row_cls_agrees.
  destruct (encode_row ts (r_vals o)); [rewrite from_bytes_cls_agrees|]; reflexivity.
Qed.

(* history independence: whatever was done before (objects made directly or through DataFrame.append, sized any
   number of times, read, their containers changed in place), as_bytes of object r is the encoder applied to the
   values object r holds NOW - so every earlier theorem applies to the record - and it decodes to exactly these *)
Theorem session_emit (ops : list sop) (r : nat) (ts : N) (row : list mval) :
  nth_error (fold_left vals_step ops []) r = Some row ->
  let h := fst (sess_run [] ops) in
  fst (sess_step h (SEmit r ts)) = h /\
  exists dec,
    snd (sess_step h (SEmit r ts)) = REmit row (encode_row ts row) dec /\
    (forall rec, encode_row ts row = Ok rec -> no_datetime row = true -> dec = Some (Ok (map CVal row))) /\
    (forall rec, encode_row ts row = Ok rec -> dec = Some (decode_row rec)).
Proof.
  intros Hrow h.
  assert (Hv : map r_vals h = fold_left vals_step ops []) by (apply (sess_run_vals ops [])).
  rewrite <- Hv in Hrow. rewrite nth_error_map in Hrow.
  cbn [sess_step]. destruct (nth_error h r) as [o|]; [|discriminate Hrow].
  cbn [option_map] in Hrow. inversion Hrow as [Ho]. cbn [fst snd]. split; [reflexivity|].
  rewrite emit_current. eexists. split; [reflexivity|]. split.
  - intros rec He Hd. rewrite He. rewrite (roundtrip ts (r_vals o) rec He Hd). reflexivity.
  - intros rec He. rewrite He. reflexivity.
Qed.

(* sizing / reading / serialising leave every object's values alone; with the previous theorem: they cannot
   influence any later record *)
Theorem session_observers_change_nothing (h : heap) (op : sop) :
  (match op with SSize _ | SRead _ _ | SEmit _ _ => True | _ => False end) ->
  map r_vals (fst (sess_step h op)) = map r_vals h.
Proof.
  intros H. rewrite sess_step_vals. destruct op; try contradiction; reflexivity.
Qed.

(* nbytes() of an object that has not been sized yet is the length of the record as_bytes emits now *)
Theorem session_first_size (o : robj) (n : N) :
  r_size o = None -> snd (size_step o) = Ok n ->
  exists rec, encode_row 0 (r_vals o) = Ok rec /\ n = len rec /\ forall ts rec', encode_row ts (r_vals o) = Ok rec' -> len rec' = n.
Proof.
  intros Hs Hn. unfold size_step in Hn. rewrite Hs in Hn. rewrite encode_row_cls_agrees in Hn.
  destruct (encode_row 0 (r_vals o)) as [rec|e] eqn:E; [|discriminate Hn].
  destruct (r_cls o); cbn [snd] in Hn; try discriminate Hn.
  inversion Hn as [Hn']. exists rec. split; [reflexivity|]. split; [reflexivity|].
  intros ts rec' E'. unfold encode_row in E, E'.
  destruct (negb (wfb (MArr (r_vals o)) && (cdepth (MArr (r_vals o)) <=? enc_container_limit))); [discriminate E|].
  destruct (size_ok (Z.of_N (len (pack (MArr (r_vals o)))))); [|discriminate E].
  inversion E. inversion E'. unfold len. rewrite !app_length. reflexivity.
Qed.
