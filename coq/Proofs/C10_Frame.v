(* C10 - lemmas about the DataFrame-as-object model (Model/C10.v, Section Frame):
   what a collect returns depends only on the frame's rows - not on the kind of object the rows
   arrived in, not on the calls made before. *)
From Coq Require Import List ZArith Bool NArith Lia ZifyBool Arith.
From Orso Require Import Model.C10 Proofs.C10.
Import ListNotations.

Section FrameLemmas.
Variable A : Type.

Lemma frame_init_contents : forall (k : backing) (rows : list (rowobj A)),
  contents (frame_init k rows) = rows.
Proof. intros [ | | | ] [|r rows]; reflexivity. Qed.

Lemma push_contents : forall (s : store A) (r : rowobj A),
  contents (push s r) = contents s ++ [r].
Proof. intros [rows|k rows] r; reflexivity. Qed.

(* the rows after one call: unchanged, except that a successful append adds its row at the end *)
Lemma step_contents : forall (s : store A) (o : fop A),
  contents (fst (step s o)) =
  contents s ++ (match o with
                 | OpAppend e => if appendable s then [RTuple e] else []
                 | _ => []
                 end).
Proof.
  intros s o. destruct o as [cols limit|cols| | | |e]; cbn [step fst materialize contents];
    try (rewrite app_nil_r; reflexivity).
  destruct (appendable s); cbn [fst].
  - apply push_contents.
  - rewrite app_nil_r. reflexivity.
Qed.

(* a reading call returns what the stateless definition returns on the current rows *)
Lemma step_read : forall (s : store A) (o : fop A),
  is_read o = true -> snd (step s o) = read_out (contents s) o.
Proof.
  intros s o H. destruct o as [cols limit|cols| | | |e]; try reflexivity. discriminate H.
Qed.

Lemma step_read_contents : forall (s : store A) (o : fop A),
  is_read o = true -> contents (fst (step s o)) = contents s.
Proof.
  intros s o H. rewrite step_contents. destruct o; try (apply app_nil_r). discriminate H.
Qed.

(* any sequence of reading calls from any state *)
Lemma run_reads : forall (ops : list (fop A)) (s : store A),
  forallb is_read ops = true -> run s ops = map (read_out (contents s)) ops.
Proof.
  induction ops as [|o r IH]; intros s H; cbn [run map].
  - reflexivity.
  - cbn [forallb] in H. apply andb_prop in H. destruct H as [Ho Hr].
    rewrite (step_read s o Ho). rewrite (IH _ Hr). rewrite (step_read_contents s o Ho). reflexivity.
Qed.

Lemma run_app : forall (pre ops : list (fop A)) (s : store A),
  run s (pre ++ ops) = run s pre ++ run (state_after s pre) ops.
Proof.
  induction pre as [|o r IH]; intros ops s; cbn [app run state_after].
  - reflexivity.
  - rewrite IH. reflexivity.
Qed.

Lemma run_length : forall (ops : list (fop A)) (s : store A), length (run s ops) = length ops.
Proof.
  induction ops as [|o r IH]; intros s; cbn [run length]; [reflexivity|]. rewrite IH. reflexivity.
Qed.

(* the rows after any history: the rows before, then the successfully appended rows, in order *)
Lemma state_after_contents : forall (ops : list (fop A)) (s : store A),
  contents (state_after s ops) = contents s ++ appended s ops.
Proof.
  induction ops as [|o r IH]; intros s; cbn [state_after appended].
  - rewrite app_nil_r. reflexivity.
  - rewrite IH. rewrite step_contents. rewrite <- app_assoc. reflexivity.
Qed.

Lemma appended_reads : forall (ops : list (fop A)) (s : store A),
  forallb is_read ops = true -> appended s ops = [].
Proof.
  induction ops as [|o r IH]; intros s H; cbn [appended]; [reflexivity|].
  cbn [forallb] in H. apply andb_prop in H. destruct H as [Ho Hr].
  rewrite (IH _ Hr). destruct o; try reflexivity. discriminate Ho.
Qed.

(* after the first reading call the frame holds a list, so append works from then on *)
Lemma step_read_appendable : forall (s : store A) (o : fop A),
  is_read o = true -> appendable (fst (step s o)) = true.
Proof. intros s o H. destruct o; try reflexivity. discriminate H. Qed.

(* history independence, from construction *)
Lemma frame_history_independent : forall (k : backing) (rows : list (rowobj A)) (ops : list (fop A)),
  forallb is_read ops = true ->
  run (frame_init k rows) ops = map (read_out rows) ops.
Proof.
  intros k rows ops H. rewrite (run_reads ops _ H). rewrite frame_init_contents. reflexivity.
Qed.

(* any history (appends included), then reading calls *)
Lemma frame_any_history : forall (k : backing) (rows : list (rowobj A)) (pre ops : list (fop A)),
  forallb is_read ops = true ->
  run (frame_init k rows) (pre ++ ops) =
  run (frame_init k rows) pre ++
  map (read_out (rows ++ appended (frame_init k rows) pre)) ops.
Proof.
  intros k rows pre ops H. rewrite run_app. rewrite (run_reads ops _ H).
  rewrite state_after_contents. rewrite frame_init_contents. reflexivity.
Qed.

(* ---------- argument conversion of DataFrame.collect ---------- *)
Lemma fits_int32_spec : forall z, fits_int32 z = true <-> (-2147483648 <= z <= 2147483647)%Z.
Proof. intros z. unfold fits_int32. lia. Qed.

Lemma in_range_fits : forall (w : nat) (cols : list Z),
  (Z.of_nat w <= 2147483648)%Z -> (forall c, In c cols -> (0 <= c < Z.of_nat w)%Z) ->
  forallb fits_int32 cols = true.
Proof.
  intros w cols Hw Hc. apply forallb_forall. intros c Hin. apply fits_int32_spec.
  specialize (Hc c Hin). lia.
Qed.

Lemma df_conv_fits : forall (rows : list (rowobj A)) (cols : list Z) (limit : option Z),
  forallb fits_int32 cols = true -> limit_fits limit = true ->
  df_collect_conv rows cols limit = df_collect rows cols limit.
Proof. intros rows cols limit H1 H2. unfold df_collect_conv. rewrite H1, H2. reflexivity. Qed.

(* an index outside the int32 range, or a limit above INT_MAX: OverflowError, whatever the rows *)
Lemma df_conv_overflow : forall (rows : list (rowobj A)) (cols : list Z) (limit : option Z),
  (exists c, In c cols /\ ((c < -2147483648)%Z \/ (2147483647 < c)%Z)) \/
  (exists l, limit = Some l /\ (2147483647 < l)%Z) ->
  df_collect_conv rows cols limit = Raise OverflowError.
Proof.
  intros rows cols limit H. unfold df_collect_conv.
  destruct (forallb fits_int32 cols) eqn:Hf; [|reflexivity].
  destruct (limit_fits limit) eqn:Hl; [|reflexivity]. exfalso.
  destruct H as [[c [Hin Hc]]|[l [-> Hc]]].
  - rewrite forallb_forall in Hf. specialize (Hf c Hin). apply fits_int32_spec in Hf. lia.
  - cbn [limit_fits] in Hl. lia.
Qed.

(* rectangular tuple rows: an index outside 0..width-1 - however far outside - never yields a result *)
Lemma df_conv_outside_never_ok : forall (w : nat) (rows : list (list A)) (cols : list Z) (limit : option Z),
  rectangular A w rows -> rows <> [] ->
  (exists c, In c cols /\ ((c < 0)%Z \/ (Z.of_nat w <= c)%Z)) ->
  forall res, df_collect_conv (map RTuple rows) cols limit <> Ok res.
Proof.
  intros w rows cols limit Hr Hne Hex res. unfold df_collect_conv.
  destruct (forallb fits_int32 cols && limit_fits limit); [|discriminate].
  unfold df_collect.
  destruct (collect_correct A w rows cols
              (match limit with None => (-1)%Z | Some l => if (l <? 0)%Z then (-1)%Z else l end) Hr)
    as [_ H2].
  destruct (H2 Hne) as [_ H3]. destruct H3 as [H3 _]. rewrite (H3 Hex). discriminate.
Qed.

(* a collect after any append-free history of a frame of rectangular tuple rows is the definition *)
Lemma frame_collect_correct : forall (w : nat) (k : backing) (rows : list (list A))
                                     (pre : list (fop A)) (cols : list Z) (limit : option Z),
  rectangular A w rows -> rows <> [] -> forallb is_read pre = true ->
  (Z.of_nat w <= 2147483648)%Z -> limit_fits limit = true ->
  (forall c, In c cols -> (0 <= c < Z.of_nat w)%Z) ->
  exists res,
    nth_error (run (frame_init k (map RTuple rows)) (pre ++ [OpCollect cols limit])) (length pre)
      = Some (FCols (Ok res)) /\
    collect_def rows cols (match limit with None => length rows | Some l => eff_limit l (length rows) end)
      = Some res.
Proof.
  intros w k rows pre cols limit Hr Hne Hpre Hw Hl Hc.
  assert (Hops : forallb (is_read (A := A)) [OpCollect cols limit] = true) by reflexivity.
  rewrite (frame_any_history k (map RTuple rows) pre [OpCollect cols limit] Hops).
  rewrite (appended_reads pre _ Hpre). rewrite app_nil_r.
  rewrite nth_error_app2; [|rewrite run_length; apply Nat.le_refl].
  rewrite run_length. rewrite Nat.sub_diag. cbn [map nth_error read_out].
  rewrite (df_conv_fits _ cols limit (in_range_fits w cols Hw Hc) Hl).
  unfold df_collect.
  destruct (collect_correct A w rows cols
              (match limit with None => (-1)%Z | Some l => if (l <? 0)%Z then (-1)%Z else l end) Hr)
    as [_ H2].
  destruct (H2 Hne) as [H3 _]. destruct (H3 Hc) as [res [Hres Hdef]].
  exists res. split.
  - rewrite Hres. reflexivity.
  - rewrite df_limit_eff in Hdef. exact Hdef.
Qed.

(* ---------- the subscript entry point ---------- *)
Lemma getitem_is_collect : forall (s : store A) (cols : list Z),
  step s (OpGetitem cols) = step s (OpCollect cols None).
Proof. intros s cols. reflexivity. Qed.

(* df[...] with a position outside 0..width-1 (negative ones included) never yields a column *)
Lemma getitem_outside_never_ok : forall (w : nat) (k : backing) (rows : list (list A)) (cols : list Z),
  rectangular A w rows -> rows <> [] ->
  (exists c, In c cols /\ ((c < 0)%Z \/ (Z.of_nat w <= c)%Z)) ->
  forall res, snd (step (frame_init k (map RTuple rows)) (OpGetitem cols)) <> FCols (Ok res).
Proof.
  intros w k rows cols Hr Hne Hex res. cbn [step snd]. rewrite frame_init_contents.
  intros H. injection H as H. exact (df_conv_outside_never_ok w rows cols None Hr Hne Hex res H).
Qed.

End FrameLemmas.
