(* C02 - lazily produced records: reading the records as the producer hands them over gives the same
   frame as the finished list of what was handed over (each record as it was when it was yielded). *)
From Coq Require Import List Bool Lia Arith.
From Orso Require Import Model.C02 Proofs.C02.
Import ListNotations.

Section ProducerProofs.
Variables K V : Type.
Variable eqK : forall a b : K, {a = b} + {a <> b}.
Variable vnone : V.

Notation pact := (pact K V).
Notation delivered := (delivered eqK).
Notation lazy_rows := (lazy_rows eqK vnone).
Notation frame_from_producer := (frame_from_producer eqK vnone).
Notation frame_of_dicts := (frame_of_dicts eqK vnone).
Notation extract := (extract eqK vnone).

Lemma lazy_rows_delivered (keys : list K) (acts : list pact) (st : list (list (K * V))) :
  lazy_rows keys st acts = map (extract keys) (delivered st acts).
Proof.
  revert st. induction acts as [|a rest IH]; intros st; [reflexivity|].
  destruct a as [d|r k v|r k|r]; cbn [C02.lazy_rows C02.delivered]; try apply IH.
  destruct (nth_error st r) as [d|]; [|apply IH]. cbn [map]. now rewrite IH.
Qed.

(* the lazy path and the finished-list path agree *)
Lemma producer_agrees (acts : list pact) (st : list (list (K * V))) :
  frame_from_producer st acts = frame_of_dicts (delivered st acts).
Proof.
  revert st. induction acts as [|a rest IH]; intros st; [reflexivity|].
  destruct a as [d|r k v|r k|r]; cbn [C02.frame_from_producer C02.delivered]; try apply IH.
  destruct (nth_error st r) as [d|]; [|apply IH].
  unfold C02.frame_of_dicts. cbn [map]. now rewrite lazy_rows_delivered.
Qed.

Lemma producer_shape (acts : list pact) (st : list (list (K * V))) :
  let f := frame_from_producer st acts in
  fst f = match delivered st acts with [] => [] | d :: _ => map fst d end /\
  length (snd f) = length (delivered st acts) /\
  Forall (fun r => length r = length (fst f)) (snd f).
Proof.
  cbv zeta. rewrite producer_agrees.
  destruct (frame_shape K V eqK vnone (delivered st acts)) as [A [B [C _]]]. repeat split; assumption.
Qed.

(* what the producer does to a record after handing it over does not reach the frame: the actions that
   follow the last yield are irrelevant *)
Lemma delivered_app_no_yield (acts tail : list pact) (st : list (list (K * V))) :
  (forall a, In a tail -> forall r, a <> PYield r) ->
  delivered st (acts ++ tail) = delivered st acts.
Proof.
  intros H. revert st. induction acts as [|a rest IH]; intros st; cbn [app].
  - revert st. induction tail as [|t r IHt]; intros st; [reflexivity|].
    assert (Ht : forall x, t <> PYield x) by (intros x; apply H; now left).
    destruct t as [d|i k v|i k|i]; cbn [C02.delivered]; try (apply IHt; intros a Ia; apply H; now right).
    now elim (Ht i).
  - destruct a as [d|r k v|r k|r]; cbn [C02.delivered]; try apply IH.
    destruct (nth_error st r); [f_equal|]; apply IH.
Qed.

End ProducerProofs.
