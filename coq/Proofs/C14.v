(* C14 - the estimators count_at and quantile of Model/C13.v over exact rationals. *)
From Coq Require Import QArith Lqa Psatz ZArith List Bool Lia Sorted Arith.
From Orso Require Import Model.C13 Model.C13_Q Proofs.C13_lists Proofs.C13 Proofs.C13_hist.
Import ListNotations.
Open Scope Q_scope.

Local Notation st := (@st Q).
Local Notation bin := (Q * Z)%type.

(* the clamp of QA (exact comparisons) *)
Lemma QA_clamp_between x lo hi : lo <= hi -> lo <= pmin QA (pmax QA x lo) hi <= hi.
Proof. apply (clamp_between Qplus Qminus Qmult Qdiv inject_Z Qtrunc). Qed.

(* ---------------- count_at: outside, and at the two ends ---------------- *)
Lemma count_at_outside (s : st) mn mx v :
  bins s <> [] -> hmin s = Some mn -> hmax s = Some mx -> (v < mn \/ mx < v) ->
  count_at QA s v = ANone.
Proof.
  intros Hb Hmn Hmx Hv. unfold count_at. destruct (bins s) as [|[v0 f0] t] eqn:Eb; [congruence|].
  rewrite Hmn, Hmx. cbn [ltb QA]. destruct Hv as [H|H].
  - destruct (Qltb_spec v mn); [reflexivity|lra].
  - destruct (Qltb_spec v mn); [reflexivity|]. destruct (Qltb_spec mx v); [reflexivity|lra].
Qed.

Lemma count_at_empty (s : st) v : bins s = [] -> count_at QA s v = ANone.
Proof. intros E. unfold count_at. now rewrite E. Qed.

Lemma count_at_min (s : st) mn mx v :
  bins s <> [] -> hmin s = Some mn -> hmax s = Some mx -> mn <= mx -> v == mn ->
  count_at QA s v = AInt 0.
Proof.
  intros Hb Hmn Hmx Hle Hv. unfold count_at. destruct (bins s) as [|[v0 f0] t] eqn:Eb; [congruence|].
  rewrite Hmn, Hmx. cbn [ltb eqb QA].
  destruct (Qltb_spec v mn); [lra|]. destruct (Qltb_spec mx v); [lra|]. cbn [orb].
  destruct (Qeqb_spec v mn); [reflexivity|contradiction].
Qed.

Lemma count_at_max (s : st) mn mx v :
  bins s <> [] -> hmin s = Some mn -> hmax s = Some mx -> mn < mx -> v == mx ->
  count_at QA s v = AInt (count s).
Proof.
  intros Hb Hmn Hmx Hle Hv. unfold count_at. destruct (bins s) as [|[v0 f0] t] eqn:Eb; [congruence|].
  rewrite Hmn, Hmx. cbn [ltb eqb QA].
  destruct (Qltb_spec v mn); [lra|]. destruct (Qltb_spec mx v); [lra|]. cbn [orb].
  destruct (Qeqb_spec v mn); [lra|]. destruct (Qeqb_spec v mx); [reflexivity|contradiction].
Qed.

(* ---------------- quantile: outside [0,1], bounds ---------------- *)
Lemma quantile_outside (s : st) q : (q < 0 \/ 1 < q) -> quantile QA s q = ANone \/ quantile QA s q = AErr.
Proof.
  intros Hq. unfold quantile. destruct (bins s) as [|[v0 f0] t]; [now left|].
  destruct (hmin s) as [mn|]; [|now right]. destruct (hmax s) as [mx|]; [|now right].
  cbn [leb ofZ QA]. left.
  destruct Hq as [H|H].
  - destruct (Qleb_spec (inject_Z 0) q) as [H0|H0]; [unfold inject_Z in H0; cbn in H0; lra|reflexivity].
  - destruct (Qleb_spec (inject_Z 0) q); cbn [andb negb]; [|reflexivity].
    destruct (Qleb_spec q (inject_Z 1)) as [H1|H1]; [unfold inject_Z in H1; lra|reflexivity].
Qed.

Lemma quantile_outside_valid (s : st) mn mx q :
  hmin s = Some mn -> hmax s = Some mx -> (q < 0 \/ 1 < q) -> quantile QA s q = ANone.
Proof.
  intros Hmn Hmx Hq. unfold quantile. destruct (bins s) as [|[v0 f0] t]; [reflexivity|].
  rewrite Hmn, Hmx. cbn [leb ofZ QA].
  destruct Hq as [H|H].
  - destruct (Qleb_spec (inject_Z 0) q) as [H0|H0]; [unfold inject_Z in H0; cbn in H0; lra|reflexivity].
  - destruct (Qleb_spec (inject_Z 0) q); cbn [andb negb]; [|reflexivity].
    destruct (Qleb_spec q (inject_Z 1)) as [H1|H1]; [unfold inject_Z in H1; lra|reflexivity].
Qed.

Lemma quantile_bounded (s : st) mn mx q x :
  hmin s = Some mn -> hmax s = Some mx -> mn <= mx ->
  quantile QA s q = ANum x -> mn <= x <= mx.
Proof.
  intros Hmn Hmx Hle. unfold quantile. destruct (bins s) as [|[v0 f0] t]; [discriminate|].
  rewrite Hmn, Hmx.
  destruct (negb _); [discriminate|].
  destruct (nth_error _ _) as [[vl fl]|]; [|discriminate].
  match goal with |- match ?r with _ => _ end = _ -> _ => destruct r as [y|] end; [|discriminate].
  intros E. inversion E; subst. now apply QA_clamp_between.
Qed.

(* ======================================================================================= *)
(* count_at strictly inside the range: the two branches in closed form                     *)

Definition aval (a : @answer Q) : option Q :=
  match a with AInt z => Some (inject_Z z) | ANum x => Some x | _ => None end.

Definition sumq (l : list bin) : Q := inject_Z (sum_counts l).

Lemma sum_counts_mass l : sum_counts l = mass l.
Proof. induction l as [|[v f] t IH]; [reflexivity|]. cbn [sum_counts]. rewrite IH. reflexivity. Qed.

Lemma sumq_app l1 l2 : sumq (l1 ++ l2) == sumq l1 + sumq l2.
Proof. unfold sumq. rewrite !sum_counts_mass, mass_app, inject_Z_plus. reflexivity. Qed.

Lemma sumq_cons v f l : sumq ((v, f) :: l) == inject_Z f + sumq l.
Proof. unfold sumq. cbn [sum_counts]. rewrite inject_Z_plus. reflexivity. Qed.

Lemma sumq_nonneg l : pos_counts l -> 0 <= sumq l.
Proof.
  induction l as [|[v f] t IH]; intros H; [unfold sumq; cbn [sum_counts]; change (inject_Z 0) with 0; lra|].
  inversion H as [|? ? Hf Ht]; subst. cbn [snd] in Hf. rewrite sumq_cons. specialize (IH Ht).
  assert (0 < inject_Z f) by now apply pos_inject. lra.
Qed.

(* position of a query among sorted centres: everything before is below it, the rest is not *)
Lemma count_gt_split (l : list bin) v :
  sorted l -> exists l1 l2, l = l1 ++ l2 /\ count_gt QA v l = length l1 /\
                            (forall a, In a l1 -> fst a < v) /\ (forall b, In b l2 -> v <= fst b).
Proof.
  induction l as [|[x f] t IH]; intros Hs.
  - exists [], []. repeat split; auto; intros ? [].
  - apply ssorted_cons in Hs as [Ht Hx]. cbn [count_gt ltb QA].
    destruct (Qltb_spec x v) as [Hlt|Hge].
    + destruct (IH Ht) as (l1 & l2 & -> & Hc & Ha & Hb). exists ((x, f) :: l1), l2.
      split; [reflexivity|]. split; [cbn [length]; rewrite Hc; reflexivity|].
      split; [intros a [<-|Ia]; auto|exact Hb].
    + exists [], ((x, f) :: t). split; [reflexivity|].
      assert (Hall : forall b, In b ((x, f) :: t) -> v <= fst b).
      { intros b [<-|Ib]; cbn [fst]; [lra|]. specialize (Hx b Ib). unfold blt in Hx. cbn [fst] in Hx. lra. }
      split.
      * cbn [length]. clear - Hall Ht. cut (count_gt QA v t = 0%nat); [intros ->; reflexivity|].
        assert (Hall' : forall b, In b t -> v <= fst b) by (intros b Ib; apply Hall; now right).
        clear Hall. induction t as [|[y g] t' IH']; [reflexivity|]. cbn [count_gt ltb QA].
        destruct (Qltb_spec y v) as [H|H].
        -- specialize (Hall' (y, g) (or_introl eq_refl)). cbn [fst] in Hall'. lra.
        -- apply ssorted_cons in Ht as [Ht' _]. rewrite IH'; auto. intros b Ib. apply Hall'. now right.
      * split; [intros ? []|exact Hall].
Qed.

Section Inside.
Variable s : st.
Variables mn mx : Q.
Hypothesis HI : Inv s.
Hypothesis Hmn : hmin s = Some mn.
Hypothesis Hmx : hmax s = Some mx.


Lemma within_bins : bins s <> [] -> within mn mx (bins s).
Proof.
  intros Hne. pose proof HI as (_ & _ & _ & _ & _ & Hb).
  destruct (bounds_nonempty s Hne Hb) as (a & b & E1 & E2 & Hw). congruence.
Qed.

(* the interior / right formulas *)
Definition right_val (l0 : list bin) (vl : Q) (fl : Z) (v : Q) : Q :=
  (1 + (v - vl) / (mx - vl)) * inject_Z fl / 2 + sumq l0.
Definition inner_val (l1' : list bin) (vi : Q) (fi : Z) (vj : Q) (fj : Z) (v : Q) : Q :=
  (inject_Z fi + (inject_Z fi + inject_Z (fj - fi) / (vj - vi) * (v - vi))) / 2 * (v - vi) / (vj - vi)
  + sumq l1' + inject_Z fi / 2.

Lemma last_split (l : list bin) bl :
  nth_error l (length l - 1) = Some bl -> exists l0, l = l0 ++ [bl].
Proof.
  intros Hn. destruct (split_at _ _ _ Hn) as (l1 & l2 & E & Hl). subst l.
  rewrite app_length in Hl. cbn [length] in Hl. assert (l2 = []) by (destruct l2; [reflexivity|cbn in Hl; lia]).
  subst. now exists l1.
Qed.

Lemma firstn_app_exact {X} (l1 l2 : list X) : firstn (length l1) (l1 ++ l2) = l1.
Proof. induction l1; cbn; [now destruct l2|now f_equal]. Qed.

(* right branch *)
Lemma count_at_right (l0 : list bin) vl fl v :
  bins s = l0 ++ [(vl, fl)] -> mn < v -> v < mx -> vl <= v ->
  (forall v0 f0 t, bins s = (v0, f0) :: t -> v0 < v) ->
  count_at QA s v = ANum (right_val l0 vl fl v).
Proof.
  intros Eb H1 H2 H3 Hfirst. pose proof HI as (Hsorted & Hpos & _).
  assert (Hn : nth_error (bins s) (length (bins s) - 1) = Some (vl, fl)).
  { rewrite Eb, app_length. cbn [length]. replace (length l0 + 1 - 1)%nat with (length l0) by lia. apply nth_error_mid. }
  assert (Hf : firstn (length (bins s) - 1) (bins s) = l0).
  { rewrite Eb, app_length. cbn [length]. replace (length l0 + 1 - 1)%nat with (length l0) by lia. apply firstn_app_exact. }
  destruct (bins s) as [|[v0 f0] t] eqn:E0; [destruct l0; discriminate|].
  specialize (Hfirst v0 f0 t eq_refl).
  unfold count_at. rewrite E0. rewrite Hn, Hf, Hmn, Hmx.
  cbn [ltb eqb leb QA].
  destruct (Qltb_spec v mn); [lra|]. destruct (Qltb_spec mx v); [lra|]. cbn [orb].
  destruct (Qeqb_spec v mn); [lra|]. destruct (Qeqb_spec v mx); [lra|].
  destruct (Qleb_spec v v0); [lra|]. destruct (Qleb_spec vl v); [|lra].
  unfold right_val, two, sumq. cbn [add sub mul div ofZ QA]. reflexivity.
Qed.

(* interior branch *)
Lemma count_at_inner (l1' l2' : list bin) vi fi vj fj v :
  bins s = l1' ++ (vi, fi) :: (vj, fj) :: l2' -> mn < v -> v < mx ->
  vi < v -> v <= vj -> (l2' <> [] \/ v < vj) ->
  (* not the left branch: either there are bins before vi, or v0 = vi < v *)
  count_at QA s v = ANum (inner_val l1' vi fi vj fj v).
Proof.
  intros Eb H1 H2 H3 H4 Hlast. pose proof HI as (Hsorted & Hpos & _).
  (* the first and the last centre *)
  assert (Hfirst : exists v0 f0 t, bins s = (v0, f0) :: t /\ v0 <= vi).
  { destruct l1' as [|[a fa] r].
    - exists vi, fi, ((vj, fj) :: l2'). split; [exact Eb|lra].
    - exists a, fa, (r ++ (vi, fi) :: (vj, fj) :: l2'). split; [exact Eb|].
      rewrite Eb in Hsorted. apply ssorted_app in Hsorted as (_ & _ & C).
      specialize (C (a, fa) (vi, fi) (or_introl eq_refl) (or_introl eq_refl)). unfold blt in C; cbn [fst] in C. lra. }
  destruct Hfirst as (v0 & f0 & t & E0 & Hv0).
  assert (Hlastb : exists vl fl, nth_error (bins s) (length (bins s) - 1) = Some (vl, fl) /\ (v < vl)).
  { destruct (nth_error_lt_Some (bins s) (length (bins s) - 1)) as [[vl fl] Hn].
    { rewrite E0. cbn [length]. lia. }
    exists vl, fl. split; [exact Hn|].
    destruct (last_split _ _ Hn) as (l0 & El).
    (* the last bin is (vj,fj) when l2' = [], otherwise it lies beyond vj *)
    rewrite Eb in El.
    destruct l2' as [|b2 r2] using rev_ind.
    - assert (E' : (l1' ++ [(vi, fi)]) ++ [(vj, fj)] = l0 ++ [(vl, fl)]) by (rewrite <- app_assoc; exact El).
      apply app_inj_tail in E' as [_ E']. inversion E'; subst. destruct Hlast as [Hl|Hl]; [congruence|exact Hl].
    - clear IHr2.
      assert (E' : (l1' ++ (vi, fi) :: (vj, fj) :: r2) ++ [b2] = l0 ++ [(vl, fl)]).
      { rewrite <- app_assoc. exact El. }
      apply app_inj_tail in E' as [_ E']. subst b2.
      rewrite Eb in Hsorted. apply ssorted_app in Hsorted as (_ & S2 & _).
      apply ssorted_cons in S2 as [S2 _]. apply ssorted_cons in S2 as [_ C].
      specialize (C (vl, fl) ltac:(apply in_or_app; right; now left)). unfold blt in C; cbn [fst] in C. lra. }
  destruct Hlastb as (vl & fl & Hn & Hvl).
  (* the index the code computes *)
  assert (Hcg : count_gt QA v (bins s) = S (length l1')).
  { destruct (count_gt_split (bins s) v Hsorted) as (a1 & a2 & Ea & Hc & Ha1 & Ha2).
    rewrite Hc. rewrite Eb in Ea.
    (* a1 must be l1' ++ [(vi,fi)] *)
    assert (Ea' : (l1' ++ [(vi, fi)]) ++ (vj, fj) :: l2' = a1 ++ a2) by (rewrite <- app_assoc; exact Ea).
    assert (Hlen : length a1 = length (l1' ++ [(vi, fi)])).
    { destruct (Nat.lt_trichotomy (length a1) (length (l1' ++ [(vi, fi)]))) as [Hl|[Hl|Hl]]; [|exact Hl|].
      - (* a1 shorter: (vi,fi) or an earlier one would be in a2, i.e. >= v *)
        exfalso.
        assert (Hin : nth_error (a1 ++ a2) (length l1') = Some (vi, fi)).
        { rewrite <- Ea'. rewrite <- app_assoc. cbn [app]. apply nth_error_mid. }
        rewrite app_length in Hl. cbn [length] in Hl.
        assert (Hx : exists b, In b a2 /\ fst b <= vi).
        { destruct (Nat.lt_ge_cases (length l1') (length a1)) as [Hlt|Hge].
          - lia.
          - rewrite nth_error_app2 in Hin by lia. exists (vi, fi). split; [eapply nth_error_In; eauto|cbn; lra]. }
        destruct Hx as (b & Ib & Hb). specialize (Ha2 b Ib). lra.
      - (* a1 longer: (vj,fj) would be in a1, i.e. < v *)
        exfalso.
        assert (Hin : nth_error (a1 ++ a2) (length (l1' ++ [(vi, fi)])) = Some (vj, fj)).
        { rewrite <- Ea'. apply nth_error_mid. }
        rewrite nth_error_app1 in Hin by lia.
        specialize (Ha1 (vj, fj) (nth_error_In _ _ Hin)). cbn [fst] in Ha1. lra. }
    rewrite Hlen, app_length. cbn [length]. lia. }
  unfold count_at. rewrite E0. rewrite <- E0. rewrite Hmn, Hmx, Hn, Hcg.
  replace (S (length l1') - 1)%nat with (length l1') by lia.
  assert (N1 : nth_error (bins s) (length l1') = Some (vi, fi)) by (rewrite Eb; apply nth_error_mid).
  assert (N2 : nth_error (bins s) (S (length l1')) = Some (vj, fj)) by (rewrite Eb; apply nth_error_mid_S).
  assert (Fn : firstn (length l1') (bins s) = l1') by (rewrite Eb; apply firstn_app_exact).
  rewrite N1, N2, Fn.
  cbn [ltb eqb leb QA].
  destruct (Qltb_spec v mn); [lra|]. destruct (Qltb_spec mx v); [lra|]. cbn [orb].
  destruct (Qeqb_spec v mn); [lra|]. destruct (Qeqb_spec v mx); [lra|].
  destruct (Qleb_spec v v0); [lra|]. destruct (Qleb_spec vl v); [lra|].
  unfold inner_val, two, sumq. cbn [add sub mul div ofZ QA]. reflexivity.
Qed.
End Inside.

(* ======================================================================================= *)
(* bounds and monotonicity of count_at on (first centre, max)                              *)

(* the trapezoid term of the interior branch *)
Definition trap (vi fi vj fj t : Q) : Q :=
  (fi + (fi + (fj - fi) / (vj - vi) * (t - vi))) / 2 * (t - vi) / (vj - vi).

Lemma trap_closed vi fi vj fj t : vi < vj ->
  trap vi fi vj fj t == (2 * fi * (t - vi) * (vj - vi) + (fj - fi) * (t - vi) * (t - vi)) / (2 * (vj - vi) * (vj - vi)).
Proof. intros H. unfold trap. field. lra. Qed.

Lemma trap_mono vi fi vj fj x y :
  vi < vj -> 0 < fi -> 0 < fj -> vi <= x -> x <= y -> y <= vj -> trap vi fi vj fj x <= trap vi fi vj fj y.
Proof.
  intros Hv Hfi Hfj Hx Hxy Hy. rewrite !trap_closed by exact Hv.
  set (d := vj - vi). assert (Hd : 0 < d) by (unfold d; lra).
  set (a := x - vi). set (b := y - vi).
  assert (0 <= a) by (unfold a; lra). assert (a <= b) by (unfold a, b; lra). assert (b <= d) by (unfold b, d; lra).
  apply Qle_shift_div_l; [nra|].
  assert (E2 : (2 * fi * a * d + (fj - fi) * a * a) / (2 * d * d) * (2 * d * d) == 2 * fi * a * d + (fj - fi) * a * a) by (field; lra).
  rewrite E2.
  assert (0 <= (b - a) * (2 * fi * d + (fj - fi) * (b + a))).
  { apply Qmult_le_0_compat; [lra|].
    destruct (Qlt_le_dec fj fi).
    - assert ((fi - fj) * (b + a) <= (fi - fj) * (2 * d)) by (apply Qmult_le_l; lra). nra.
    - assert (0 <= (fj - fi) * (b + a)) by (apply Qmult_le_0_compat; lra). nra. }
  nra.
Qed.

Lemma trap_at_vi vi fi vj fj : vi < vj -> trap vi fi vj fj vi == 0.
Proof. intros H. rewrite trap_closed by exact H. field. lra. Qed.

Lemma trap_at_vj vi fi vj fj : vi < vj -> trap vi fi vj fj vj == (fi + fj) / 2.
Proof. intros H. rewrite trap_closed by exact H. field. lra. Qed.

Lemma trap_bounds vi fi vj fj t :
  vi < vj -> 0 < fi -> 0 < fj -> vi <= t -> t <= vj -> 0 <= trap vi fi vj fj t <= (fi + fj) / 2.
Proof.
  intros Hv Hfi Hfj H1 H2. split.
  - rewrite <- (trap_at_vi vi fi vj fj Hv). apply trap_mono; lra.
  - rewrite <- (trap_at_vj vi fi vj fj Hv). apply trap_mono; lra.
Qed.

Lemma Qdiv2 x : x / 2 == x * (1 # 2).
Proof. field. Qed.
Ltac qlra := rewrite ?Qdiv2; lra.

(* ---------------- boundary values and location of a query ---------------- *)
Lemma firstn_S_snoc {X} (l : list X) i b : nth_error l i = Some b -> firstn (S i) l = firstn i l ++ [b].
Proof.
  revert i; induction l as [|x l IH]; intros [|i] H; cbn in *; try discriminate.
  - now inversion H.
  - f_equal. now apply IH.
Qed.

Lemma app_eq_len {X} (a1 a2 b1 b2 : list X) :
  a1 ++ a2 = b1 ++ b2 -> length a1 = length b1 -> a1 = b1 /\ a2 = b2.
Proof.
  revert b1; induction a1 as [|x a1 IH]; intros [|y b1] E L; cbn in *; try discriminate; [auto|].
  inversion E; subst. destruct (IH b1 H1 ltac:(lia)) as [-> ->]. auto.
Qed.

Lemma sorted_nth_lt (l : list bin) p q bp bq :
  sorted l -> (p < q)%nat -> nth_error l p = Some bp -> nth_error l q = Some bq -> fst bp < fst bq.
Proof.
  intros Hs Hpq Hp Hq. destruct (split_at _ _ _ Hp) as (l1 & l2 & -> & Hl).
  apply ssorted_app in Hs as (_ & S2 & _). apply ssorted_cons in S2 as [_ C].
  rewrite nth_error_app2 in Hq by lia. replace (q - length l1)%nat with (S (q - length l1 - 1)) in Hq by lia.
  cbn [nth_error] in Hq. exact (C bq (nth_error_In _ _ Hq)).
Qed.

Section Mono.
Variable s : @C13.st Q.
Variables mn mx : Q.
Hypothesis HI : Inv s.
Hypothesis Hmn : hmin s = Some mn.
Hypothesis Hmx : hmax s = Some mx.

Definition total : Q := sumq (bins s).

Definition Bq (i : nat) : Q :=
  match nth_error (bins s) i with
  | Some (_, f) => sumq (firstn i (bins s)) + inject_Z f / 2
  | None => total
  end.

Lemma Bq_step i : (i < length (bins s))%nat -> Bq i <= Bq (S i).
Proof.
  intros Hi. pose proof HI as (_ & Hpos & _). unfold Bq.
  destruct (nth_error_lt_Some (bins s) i Hi) as [[vi fi] Ni]. rewrite Ni.
  assert (Pfi : 0 < inject_Z fi).
  { apply pos_inject. unfold pos_counts in Hpos. rewrite Forall_forall in Hpos. exact (Hpos _ (nth_error_In _ _ Ni)). }
  destruct (nth_error (bins s) (S i)) as [[vj fj]|] eqn:Nj.
  - assert (Pfj : 0 < inject_Z fj).
    { apply pos_inject. unfold pos_counts in Hpos. rewrite Forall_forall in Hpos. exact (Hpos _ (nth_error_In _ _ Nj)). }
    rewrite (firstn_S_snoc _ _ _ Ni), sumq_app, sumq_cons. unfold sumq at 3. cbn [sum_counts]. change (inject_Z 0%Z) with 0. qlra.
  - (* i is the last index *)
    apply nth_error_None in Nj. unfold total.
    assert (E : bins s = firstn i (bins s) ++ [(vi, fi)]).
    { rewrite <- (firstn_S_snoc _ _ _ Ni). symmetry. apply firstn_all2. lia. }
    rewrite E at 2. rewrite sumq_app, sumq_cons. unfold sumq at 3. cbn [sum_counts]. change (inject_Z 0%Z) with 0. qlra.
Qed.

Lemma Bq_mono i k : (i <= k)%nat -> (k <= length (bins s))%nat -> Bq i <= Bq k.
Proof.
  intros Hik Hk. induction Hik as [|k Hik IH]; [lra|].
  specialize (IH ltac:(lia)). pose proof (Bq_step k ltac:(lia)). lra.
Qed.

Lemma Bq_nonneg i : 0 <= Bq i.
Proof.
  pose proof HI as (_ & Hpos & _). unfold Bq. destruct (nth_error (bins s) i) as [[v f]|] eqn:N.
  - assert (0 < inject_Z f).
    { apply pos_inject. unfold pos_counts in Hpos. rewrite Forall_forall in Hpos. exact (Hpos _ (nth_error_In _ _ N)). }
    assert (0 <= sumq (firstn i (bins s))).
    { apply sumq_nonneg. unfold pos_counts in *. rewrite Forall_forall in *. intros b Hb. apply Hpos.
      rewrite <- (firstn_skipn i (bins s)). apply in_or_app. now left. }
    qlra.
  - unfold total. now apply sumq_nonneg.
Qed.

Lemma Bq_le_total i : Bq i <= total.
Proof.
  destruct (Nat.le_gt_cases i (length (bins s))) as [H|H].
  - assert (E : Bq (length (bins s)) = total).
    { unfold Bq. destruct (nth_error (bins s) (length (bins s))) eqn:N; [|reflexivity].
      apply nth_error_Some_lt in N. lia. }
    rewrite <- E. now apply Bq_mono.
  - unfold Bq. destruct (nth_error (bins s) i) eqn:N; [|lra]. apply nth_error_Some_lt in N. lia.
Qed.

(* where a query strictly between the first centre and the maximum falls, and its answer *)
Inductive loc (v : Q) : nat -> Q -> Prop :=
| loc_inner l1' l2' vi fi vj fj :
    bins s = l1' ++ (vi, fi) :: (vj, fj) :: l2' -> vi < v -> v <= vj -> (l2' <> [] \/ v < vj) ->
    loc v (length l1') (inner_val l1' vi fi vj fj v)
| loc_right l0 vl fl :
    bins s = l0 ++ [(vl, fl)] -> vl <= v -> v < mx ->
    loc v (length l0) (right_val mx l0 vl fl v).

Lemma loc_exists v v0 f0 t :
  bins s = (v0, f0) :: t -> v0 < v -> v < mx -> exists i a, loc v i a.
Proof.
  intros E0 Hv0 Hvx. pose proof HI as (Hsorted & _).
  destruct (count_gt_split (bins s) v Hsorted) as (a1 & a2 & Ea & _ & Ha1 & Ha2).
  assert (N1 : a1 <> []).
  { intros ->. cbn [app] in Ea. rewrite E0 in Ea. subst a2. specialize (Ha2 (v0, f0) (or_introl eq_refl)). cbn [fst] in Ha2. lra. }
  destruct (exists_last N1) as (l1' & [vi fi] & E1). subst a1.
  assert (Hvi : vi < v) by (apply (Ha1 (vi, fi)); apply in_or_app; right; now left).
  destruct a2 as [|[vj fj] l2'].
  - rewrite app_nil_r in Ea. exists (length l1'), (right_val mx l1' vi fi v). apply loc_right; auto. lra.
  - assert (Hvj : v <= vj) by (apply (Ha2 (vj, fj)); now left).
    rewrite <- app_assoc in Ea. cbn [app] in Ea.
    destruct l2' as [|b2 r2].
    + destruct (Qlt_le_dec v vj) as [Hlt|Hge].
      * exists (length l1'), (inner_val l1' vi fi vj fj v). eapply loc_inner; eauto.
      * (* v = last centre: the right branch *)
        exists (length (l1' ++ [(vi, fi)])), (right_val mx (l1' ++ [(vi, fi)]) vj fj v).
        apply loc_right; auto. rewrite <- app_assoc. exact Ea.
    + exists (length l1'), (inner_val l1' vi fi vj fj v). eapply loc_inner; eauto. left; discriminate.
Qed.

Lemma loc_count_at v i a :
  loc v i a -> mn < v -> (forall v0 f0 t, bins s = (v0, f0) :: t -> v0 < v) -> v < mx ->
  count_at QA s v = ANum a.
Proof.
  intros L H1 Hf H2. destruct L as [l1' l2' vi fi vj fj Eb Hvi Hvj Hl|l0 vl fl Eb Hvl Hvx].
  - now apply (count_at_inner s mn mx HI Hmn Hmx l1' l2').
  - now apply (count_at_right s mn mx HI Hmn Hmx).
Qed.

Lemma inner_val_trap l1' vi fi vj fj v :
  inner_val l1' vi fi vj fj v == trap vi (inject_Z fi) vj (inject_Z fj) v + sumq l1' + inject_Z fi / 2.
Proof.
  unfold inner_val, trap. unfold Zminus. rewrite inject_Z_plus, inject_Z_opp. reflexivity.
Qed.

Lemma pos_of (b : bin) : In b (bins s) -> 0 < inject_Z (snd b).
Proof.
  intros Hb. pose proof HI as (_ & Hpos & _). apply pos_inject.
  unfold pos_counts in Hpos. rewrite Forall_forall in Hpos. now apply Hpos.
Qed.

Lemma loc_bounds v i a : loc v i a -> Bq i <= a /\ a <= Bq (S i) /\ (i < length (bins s))%nat.
Proof.
  intros L. pose proof HI as (Hsorted & _).
  destruct L as [l1' l2' vi fi vj fj Eb Hvi Hvj Hl|l0 vl fl Eb Hvl Hvx].
  - assert (N1 : nth_error (bins s) (length l1') = Some (vi, fi)) by (rewrite Eb; apply nth_error_mid).
    assert (N2 : nth_error (bins s) (S (length l1')) = Some (vj, fj)) by (rewrite Eb; apply nth_error_mid_S).
    assert (F1 : firstn (length l1') (bins s) = l1') by (rewrite Eb; apply firstn_app_exact).
    assert (Pi : 0 < inject_Z fi) by (apply (pos_of (vi, fi)); eapply nth_error_In; eauto).
    assert (Pj : 0 < inject_Z fj) by (apply (pos_of (vj, fj)); eapply nth_error_In; eauto).
    assert (Hij : vi < vj) by (apply (sorted_nth_lt (bins s) (length l1') (S (length l1')) (vi, fi) (vj, fj)); auto).
    pose proof (trap_bounds vi (inject_Z fi) vj (inject_Z fj) v Hij Pi Pj ltac:(lra) Hvj) as [T1 T2].
    unfold Bq. rewrite N1, N2, F1, (firstn_S_snoc _ _ _ N1), F1, sumq_app, sumq_cons.
    unfold sumq at 3. cbn [sum_counts]. change (inject_Z 0%Z) with 0.
    rewrite inner_val_trap. rewrite !Qdiv2 in *. repeat split; try lra.
    apply nth_error_Some_lt in N1. exact N1.
  - assert (N1 : nth_error (bins s) (length l0) = Some (vl, fl)) by (rewrite Eb; apply nth_error_mid).
    assert (N2 : nth_error (bins s) (S (length l0)) = None).
    { apply nth_error_None. rewrite Eb, app_length. cbn [length]. lia. }
    assert (F1 : firstn (length l0) (bins s) = l0) by (rewrite Eb; apply firstn_app_exact).
    assert (Pl : 0 < inject_Z fl) by (apply (pos_of (vl, fl)); eapply nth_error_In; eauto).
    assert (T : total == sumq l0 + inject_Z fl).
    { unfold total. rewrite Eb, sumq_app, sumq_cons. unfold sumq at 2. cbn [sum_counts]. change (inject_Z 0%Z) with 0. ring. }
    unfold Bq. rewrite N1, N2, F1, T.
    unfold right_val.
    assert (Hd : 0 < mx - vl) by lra.
    assert (R0 : 0 <= (v - vl) / (mx - vl)) by (apply Qle_shift_div_l; lra).
    assert (R1 : (v - vl) / (mx - vl) <= 1) by (apply Qle_shift_div_r; lra).
    set (r := (v - vl) / (mx - vl)) in *. rewrite !Qdiv2.
    repeat split; try nra. apply nth_error_Some_lt in N1. exact N1.
Qed.

Lemma loc_mono x i a y k b : loc x i a -> loc y k b -> x <= y -> a <= b.
Proof.
  intros Lx Ly Hxy. pose proof HI as (Hsorted & _).
  destruct (loc_bounds x i a Lx) as (Ax1 & Ax2 & Ix). destruct (loc_bounds y k b Ly) as (Ay1 & Ay2 & Iy).
  destruct (Nat.lt_trichotomy i k) as [Hlt|[Heq|Hgt]].
  - (* different segments, in order *)
    pose proof (Bq_mono (S i) k ltac:(lia) ltac:(lia)). lra.
  - (* same segment *)
    destruct Lx as [l1 l2 vi fi vj fj Eb Hvi Hvj Hl|l0 vl fl Eb Hvl Hvx];
      destruct Ly as [l1b l2b vib fib vjb fjb Ebb Hvib Hvjb Hlb|l0b vlb flb Ebb Hvlb Hvxb].
    + rewrite Eb in Ebb. destruct (app_eq_len _ _ _ _ Ebb ltac:(assumption)) as [E1 E2]. inversion E2; subst.
      assert (Pi : 0 < inject_Z fib) by (apply (pos_of (vib, fib)); rewrite Eb; apply in_or_app; right; now left).
      assert (Pj : 0 < inject_Z fjb) by (apply (pos_of (vjb, fjb)); rewrite Eb; apply in_or_app; right; right; now left).
      assert (Hij : vib < vjb) by lra.
      rewrite !inner_val_trap.
      pose proof (trap_mono vib (inject_Z fib) vjb (inject_Z fjb) x y Hij Pi Pj ltac:(lra) Hxy Hvjb). lra.
    + exfalso. rewrite Eb in Ebb. apply (f_equal (@length bin)) in Ebb. rewrite !app_length in Ebb. cbn [length] in Ebb. lia.
    + exfalso. rewrite Eb in Ebb. apply (f_equal (@length bin)) in Ebb. rewrite !app_length in Ebb. cbn [length] in Ebb. lia.
    + rewrite Eb in Ebb. destruct (app_eq_len _ _ _ _ Ebb ltac:(assumption)) as [E1 E2]. inversion E2; subst.
      assert (Pl : 0 < inject_Z flb) by (apply (pos_of (vlb, flb)); rewrite Eb; apply in_or_app; right; now left).
      unfold right_val. assert (Hd : 0 < mx - vlb) by lra.
      assert (R : (x - vlb) / (mx - vlb) <= (y - vlb) / (mx - vlb)).
      { apply Qle_shift_div_l; [lra|]. assert (E : (x - vlb) / (mx - vlb) * (mx - vlb) == x - vlb) by (field; lra). rewrite E. lra. }
      set (rx := (x - vlb) / (mx - vlb)) in *. set (ry := (y - vlb) / (mx - vlb)) in *. rewrite !Qdiv2. nra.
  - (* out of order: impossible *)
    exfalso.
    destruct Ly as [l1b l2b vib fib vjb fjb Ebb Hvib Hvjb Hlb|l0b vlb flb Ebb Hvlb Hvxb].
    + assert (Nk : nth_error (bins s) (S (length l1b)) = Some (vjb, fjb)) by (rewrite Ebb; apply nth_error_mid_S).
      destruct Lx as [l1 l2 vi fi vj fj Eb Hvi Hvj Hl|l0 vl fl Eb Hvl Hvx].
      * assert (Nx : nth_error (bins s) (length l1) = Some (vi, fi)) by (rewrite Eb; apply nth_error_mid).
        destruct (Nat.eq_dec (S (length l1b)) (length l1)) as [E|Ne].
        -- rewrite E in Nk. rewrite Nx in Nk. injection Nk as E1 E2. subst. lra.
        -- pose proof (sorted_nth_lt (bins s) (S (length l1b)) (length l1) (vjb, fjb) (vi, fi) Hsorted ltac:(lia) Nk Nx) as Hs.
           cbn [fst] in Hs. lra.
      * assert (Nx : nth_error (bins s) (length l0) = Some (vl, fl)) by (rewrite Eb; apply nth_error_mid).
        destruct (Nat.eq_dec (S (length l1b)) (length l0)) as [E|Ne].
        -- rewrite E in Nk. rewrite Nx in Nk. injection Nk as E1 E2. subst vl fl.
           assert (l2b = []).
           { rewrite Ebb in Eb. apply (f_equal (@length bin)) in Eb. rewrite !app_length in Eb. cbn [length] in Eb.
             destruct l2b; [reflexivity|cbn [length] in Eb; lia]. }
           subst l2b. destruct Hlb as [Hlb|Hlb]; [congruence|]. lra.
        -- pose proof (sorted_nth_lt (bins s) (S (length l1b)) (length l0) (vjb, fjb) (vl, fl) Hsorted ltac:(lia) Nk Nx) as Hs.
           cbn [fst] in Hs. lra.
    + rewrite Ebb, app_length in Ix. cbn [length] in Ix. lia.
Qed.

(* ---------------- the statements about count_at ---------------- *)
Theorem count_at_inside v v0 f0 t :
  bins s = (v0, f0) :: t -> v0 < v -> v < mx -> mn <= v0 ->
  exists a, count_at QA s v = ANum a /\ 0 <= a <= total.
Proof.
  intros E0 Hv0 Hvx Hmn0.
  destruct (loc_exists v v0 f0 t E0 Hv0 Hvx) as (i & a & L).
  exists a. split.
  - apply (loc_count_at v i a L); [lra| |exact Hvx]. intros v0' f0' t' E'. rewrite E0 in E'. inversion E'; subst. exact Hv0.
  - destruct (loc_bounds v i a L) as (B1 & B2 & _). pose proof (Bq_nonneg i). pose proof (Bq_le_total (S i)). lra.
Qed.

Theorem count_at_monotone x y v0 f0 t a b :
  bins s = (v0, f0) :: t -> mn <= v0 -> v0 < x -> x <= y -> y < mx ->
  count_at QA s x = ANum a -> count_at QA s y = ANum b -> a <= b.
Proof.
  intros E0 Hmn0 Hx Hxy Hy Ca Cb.
  assert (Hf : forall w, v0 < w -> forall v0' f0' t', bins s = (v0', f0') :: t' -> v0' < w).
  { intros w Hw v0' f0' t' E'. rewrite E0 in E'. inversion E'; subst. exact Hw. }
  destruct (loc_exists x v0 f0 t E0 Hx ltac:(lra)) as (i & a' & Lx).
  destruct (loc_exists y v0 f0 t E0 ltac:(lra) Hy) as (k & b' & Ly).
  rewrite (loc_count_at x i a' Lx ltac:(lra) (Hf x Hx) ltac:(lra)) in Ca.
  rewrite (loc_count_at y k b' Ly ltac:(lra) (Hf y ltac:(lra)) Hy) in Cb.
  inversion Ca; inversion Cb; subst. exact (loc_mono x i a y k b Lx Ly Hxy).
Qed.
End Mono.

(* ---------------- summary statement: monotone and bounded on {min} U (first centre, max] ---------------- *)
Theorem count_at_monotone_partial (s : @C13.st Q) mn mx v0 f0 t x y :
  Inv s -> hmin s = Some mn -> hmax s = Some mx -> bins s = (v0, f0) :: t -> mn < mx ->
  (x == mn \/ (v0 < x /\ x <= mx)) -> (y == mn \/ (v0 < y /\ y <= mx)) -> x <= y ->
  exists a b, aval (count_at QA s x) = Some a /\ aval (count_at QA s y) = Some b /\
              0 <= a /\ a <= b /\ b <= sumq (bins s).
Proof.
  intros HI Hmn Hmx E0 Hlt Dx Dy Hxy.
  assert (Hne : bins s <> []) by (rewrite E0; discriminate).
  assert (Hw : mn <= v0 /\ v0 <= mx).
  { pose proof (within_bins s mn mx HI Hmn Hmx Hne) as W. rewrite E0 in W. inversion W; subst. cbn [fst] in *. lra. }
  assert (Tot : 0 <= sumq (bins s)).
  { apply sumq_nonneg. destruct HI as (_ & Hp & _). exact Hp. }
  assert (Val : forall v, (v == mn \/ (v0 < v /\ v <= mx)) ->
            exists a, aval (count_at QA s v) = Some a /\ 0 <= a <= sumq (bins s) /\
                      (v == mn -> a == 0) /\ (v == mx -> a == sumq (bins s))).
  { intros v [Hv|[Hv1 Hv2]].
    - exists (inject_Z 0). rewrite (count_at_min s mn mx v Hne Hmn Hmx ltac:(lra) Hv). cbn [aval].
      change (inject_Z 0%Z) with 0. split; [reflexivity|]. split; [lra|]. split; [intros; reflexivity|intros; lra].
    - destruct (Qlt_le_dec v mx) as [Hvx|Hvx].
      + destruct (count_at_inside s mn mx HI Hmn Hmx v v0 f0 t E0 Hv1 Hvx ltac:(lra)) as (a & Ca & Ba).
        exists a. rewrite Ca. cbn [aval]. unfold total in Ba. split; [reflexivity|]. split; [lra|]. split; intros; lra.
      + exists (inject_Z (count s)). rewrite (count_at_max s mn mx v Hne Hmn Hmx Hlt ltac:(lra)). cbn [aval].
        assert (E : inject_Z (count s) == sumq (bins s)) by (unfold sumq; rewrite sum_counts_mass; reflexivity).
        split; [reflexivity|]. rewrite E. split; [lra|]. split; [intros; lra|intros; reflexivity]. }
  destruct (Val x Dx) as (a & Ca & Ba & Amn & Amx). destruct (Val y Dy) as (b & Cb & Bb & Bmn & Bmx).
  exists a, b. split; [exact Ca|]. split; [exact Cb|]. split; [lra|]. split; [|lra].
  destruct Dx as [Hx|[Hx1 Hx2]].
  - rewrite (Amn Hx). lra.
  - destruct Dy as [Hy|[Hy1 Hy2]]; [lra|].
    destruct (Qlt_le_dec y mx) as [Hyx|Hyx].
    + (* both strictly inside *)
      destruct (count_at_inside s mn mx HI Hmn Hmx x v0 f0 t E0 Hx1 ltac:(lra) ltac:(lra)) as (a' & Ca' & _).
      destruct (count_at_inside s mn mx HI Hmn Hmx y v0 f0 t E0 Hy1 Hyx ltac:(lra)) as (b' & Cb' & _).
      rewrite Ca' in Ca. rewrite Cb' in Cb. cbn [aval] in Ca, Cb. inversion Ca; inversion Cb; subst.
      apply (count_at_monotone s mn mx HI Hmn Hmx x y v0 f0 t a b E0 ltac:(lra) Hx1 Hxy Hyx Ca' Cb').
    + rewrite (Bmx ltac:(lra)). lra.
Qed.

(* ======================================================================================= *)
(* quantile at the two ends                                                                 *)
Lemma mass_ge_first (l : list bin) v0 f0 t : l = (v0, f0) :: t -> pos_counts l -> (f0 <= mass l)%Z /\ (1 <= f0)%Z.
Proof.
  intros -> Hp. inversion Hp as [|? ? Hf Ht]; subst. cbn [snd] in Hf. split; [|exact Hf].
  unfold mass. cbn [fold_right snd].
  assert (0 <= fold_right (fun (b : bin) a => snd b + a) 0 t)%Z.
  { clear - Ht. induction t as [|x t IH]; cbn; [lia|]. inversion Ht; subst. specialize (IH H2). lia. }
  lia.
Qed.

Lemma mass_ge_last (l l0 : list bin) vl fl : l = l0 ++ [(vl, fl)] -> pos_counts l -> (fl <= mass l)%Z /\ (1 <= fl)%Z.
Proof.
  intros -> Hp. apply pos_app in Hp as [P0 Pl]. inversion Pl as [|? ? Hf _]; subst. cbn [snd] in Hf. split; [|exact Hf].
  rewrite mass_app. unfold mass at 2. cbn [fold_right snd].
  assert (0 <= mass l0)%Z.
  { clear - P0. induction l0 as [|x t IH]; unfold mass; cbn; [lia|]. inversion P0; subst. specialize (IH H2). unfold mass in IH. lia. }
  lia.
Qed.

Theorem quantile_at_zero (s : @C13.st Q) mn mx :
  Inv s -> bins s <> [] -> hmin s = Some mn -> hmax s = Some mx -> mn <= mx ->
  exists x, quantile QA s 0 = ANum x /\ x == mn.
Proof.
  intros HI Hne Hmn Hmx Hle. pose proof HI as (_ & Hp & _).
  destruct (bins s) as [|[v0 f0] t] eqn:E0; [congruence|].
  destruct (mass_ge_first _ v0 f0 t eq_refl Hp) as [Hm Hf0].
  destruct (nth_error_lt_Some ((v0, f0) :: t) (length ((v0, f0) :: t) - 1)) as [[vl fl] Hn]; [cbn [length]; lia|].
  unfold quantile. rewrite E0, Hmn, Hmx, Hn.
  cbn [leb ofZ mul sub add div trunc QA].
  assert (L0 : Qle_bool (inject_Z 0) 0 = true) by reflexivity.
  assert (L1 : Qle_bool 0 (inject_Z 1) = true) by reflexivity.
  rewrite L0, L1. cbn [andb negb].
  assert (Eq : Qtrunc (inject_Z (count (mkst ((v0, f0) :: t) (hmin s) (hmax s) (diffs s) (min_diff s) (cap s))) * 0) = 0%Z).
  { unfold Qtrunc, Qmult, inject_Z. cbn [Qnum Qden]. rewrite Z.mul_0_r. reflexivity. }
  assert (Ec : count s = count (mkst ((v0, f0) :: t) (hmin s) (hmax s) (diffs s) (min_diff s) (cap s))).
  { unfold count. cbn [bins]. now rewrite E0. }
  rewrite Ec, Eq.
  assert (P0 : 0 < inject_Z f0) by now apply pos_inject.
  unfold two. cbn [ofZ QA].
  destruct (Qleb_spec (inject_Z 0) (inject_Z f0 / inject_Z 2)) as [H|H].
  - eexists. split; [reflexivity|].
    set (r := mn + inject_Z 0 / (inject_Z f0 / inject_Z 2) * (v0 - mn)).
    assert (Er : r == mn).
    { unfold r. change (inject_Z 0) with 0. change (inject_Z 2) with 2. field. lra. }
    unfold pmin, pmax. cbn [ltb QA].
    destruct (Qltb_spec r mn); [lra|]. destruct (Qltb_spec mx r); [lra|exact Er].
  - exfalso. apply H. change (inject_Z 0) with 0. change (inject_Z 2) with 2. apply Qle_shift_div_l; lra.
Qed.

Theorem quantile_at_one (s : @C13.st Q) mn mx :
  Inv s -> bins s <> [] -> hmin s = Some mn -> hmax s = Some mx -> mn <= mx ->
  quantile QA s 1 = ANum mx.
Proof.
  intros HI Hne Hmn Hmx Hle. pose proof HI as (_ & Hp & _).
  destruct (bins s) as [|[v0 f0] t] eqn:E0; [congruence|].
  destruct (mass_ge_first _ v0 f0 t eq_refl Hp) as [Hm Hf0].
  destruct (nth_error_lt_Some ((v0, f0) :: t) (length ((v0, f0) :: t) - 1)) as [[vl fl] Hn]; [cbn [length]; lia|].
  destruct (last_split _ _ Hn) as (l0 & El).
  destruct (mass_ge_last _ l0 vl fl El Hp) as [Hml Hfl].
  unfold quantile. rewrite E0, Hmn, Hmx, Hn.
  cbn [leb ofZ mul sub add div trunc QA].
  assert (L0 : Qle_bool (inject_Z 0) 1 = true) by reflexivity.
  assert (L1 : Qle_bool 1 (inject_Z 1) = true) by reflexivity.
  rewrite L0, L1. cbn [andb negb].
  set (tot := count (mkst ((v0, f0) :: t) (hmin s) (hmax s) (diffs s) (min_diff s) (cap s))).
  assert (Ec : count s = tot) by (unfold tot, count; cbn [bins]; now rewrite E0).
  assert (Em : tot = mass ((v0, f0) :: t)) by reflexivity.
  rewrite Ec.
  assert (Eq : Qtrunc (inject_Z tot * 1) = tot).
  { unfold Qtrunc, Qmult, inject_Z. cbn [Qnum Qden]. rewrite Z.mul_1_r. apply Z.quot_1_r. }
  rewrite Eq.
  assert (P0 : 0 < inject_Z f0) by now apply pos_inject.
  assert (Pl : 0 < inject_Z fl) by now apply pos_inject.
  assert (T0 : inject_Z f0 <= inject_Z tot) by (rewrite <- Zle_Qle; lia).
  assert (Tl : inject_Z fl <= inject_Z tot) by (rewrite <- Zle_Qle; lia).
  unfold two. cbn [ofZ QA]. change (inject_Z 2) with 2. change (inject_Z 1) with 1.
  destruct (Qleb_spec (inject_Z tot) (inject_Z f0 / 2)) as [H|H].
  - exfalso. assert (inject_Z f0 / 2 < inject_Z f0) by (apply Qlt_shift_div_r; lra). lra.
  - destruct (Qleb_spec (inject_Z tot - inject_Z fl / 2) (inject_Z tot)) as [H2|H2].
    + destruct (Qleb_spec 1 ((inject_Z tot - (inject_Z tot - inject_Z fl / 2)) / (inject_Z fl / 2))) as [H3|H3].
      * f_equal. unfold pmin, pmax. cbn [ltb QA].
        destruct (Qltb_spec mx mn); [lra|]. destruct (Qltb_spec mx mx); [lra|reflexivity].
      * exfalso. apply H3.
        assert (E : (inject_Z tot - (inject_Z tot - inject_Z fl / 2)) / (inject_Z fl / 2) == 1) by (field; lra).
        rewrite E. lra.
    + exfalso. apply H2. assert (0 <= inject_Z fl / 2) by (apply Qle_shift_div_l; lra). lra.
Qed.

(* ======================================================================================= *)
(* profile estimators: below = count_at, above = (count - missing) - count_at              *)
Definition est_above (nonnull : Q) (s : @C13.st Q) (x : Q) : option Q :=
  match aval (count_at QA s x) with Some b => Some (nonnull - b) | None => None end.

Lemma below_above_sum (nonnull : Q) (s : @C13.st Q) x b :
  aval (count_at QA s x) = Some b -> exists a, est_above nonnull s x = Some a /\ b + a == nonnull.
Proof. intros H. unfold est_above. rewrite H. eexists. split; [reflexivity|ring]. Qed.
