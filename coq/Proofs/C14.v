(* C14 - the estimators count_at and quantile of Model/C13.v over exact rationals. *)
From Coq Require Import QArith Lqa Psatz ZArith List Bool Lia Sorted Arith.
From Orso Require Import Model.C13 Model.C13_Q Proofs.C13_lists Proofs.C13 Proofs.C13_hist.
Import ListNotations.
Open Scope Q_scope.

Local Notation st := (@st Q).
Local Notation bin := (Q * Z)%type.

(* the clamp of QA (exact comparisons) *)
Lemma QA_clamp_between x lo hi : lo <= hi -> lo <= pmin QA (pmax QA x lo) hi <= hi.
Proof. apply (clamp_between Qplus Qminus Qmult Qdiv inject_Z Qtrunc). Qed.

(* ---------------- count_at: outside, and at the two ends ---------------- *)
Lemma count_at_outside (s : st) mn mx v :
  bins s <> [] -> hmin s = Some mn -> hmax s = Some mx -> (v < mn \/ mx < v) ->
  count_at QA s v = ANone.
Proof.
  intros Hb Hmn Hmx Hv. unfold count_at. destruct (bins s) as [|[v0 f0] t] eqn:Eb; [congruence|].
  rewrite Hmn, Hmx. cbn [ltb QA]. destruct Hv as [H|H].
  - destruct (Qltb_spec v mn); [reflexivity|lra].
  - destruct (Qltb_spec v mn); [reflexivity|]. destruct (Qltb_spec mx v); [reflexivity|lra].
Qed.

Lemma count_at_empty (s : st) v : bins s = [] -> count_at QA s v = ANone.
Proof. intros E. unfold count_at. now rewrite E. Qed.

Lemma count_at_min (s : st) mn mx v :
  bins s <> [] -> hmin s = Some mn -> hmax s = Some mx -> mn <= mx -> v == mn ->
  count_at QA s v = AInt 0.
Proof.
  intros Hb Hmn Hmx Hle Hv. unfold count_at. destruct (bins s) as [|[v0 f0] t] eqn:Eb; [congruence|].
  rewrite Hmn, Hmx. cbn [ltb eqb QA].
  destruct (Qltb_spec v mn); [lra|]. destruct (Qltb_spec mx v); [lra|]. cbn [orb].
  destruct (Qeqb_spec v mn); [reflexivity|contradiction].
Qed.

Lemma count_at_max (s : st) mn mx v :
  bins s <> [] -> hmin s = Some mn -> hmax s = Some mx -> mn < mx -> v == mx ->
  count_at QA s v = AInt (count s).
Proof.
  intros Hb Hmn Hmx Hle Hv. unfold count_at. destruct (bins s) as [|[v0 f0] t] eqn:Eb; [congruence|].
  rewrite Hmn, Hmx. cbn [ltb eqb QA].
  destruct (Qltb_spec v mn); [lra|]. destruct (Qltb_spec mx v); [lra|]. cbn [orb].
  destruct (Qeqb_spec v mn); [lra|]. destruct (Qeqb_spec v mx); [reflexivity|contradiction].
Qed.

(* ---------------- quantile: outside [0,1], bounds ---------------- *)
Lemma quantile_outside (s : st) q : (q < 0 \/ 1 < q) -> quantile QA s q = ANone \/ quantile QA s q = AErr.
Proof.
  intros Hq. unfold quantile. destruct (bins s) as [|[v0 f0] t]; [now left|].
  destruct (hmin s) as [mn|]; [|now right]. destruct (hmax s) as [mx|]; [|now right].
  cbn [leb ofZ QA]. left.
  destruct Hq as [H|H].
  - destruct (Qleb_spec (inject_Z 0) q) as [H0|H0]; [unfold inject_Z in H0; cbn in H0; lra|reflexivity].
  - destruct (Qleb_spec (inject_Z 0) q); cbn [andb negb]; [|reflexivity].
    destruct (Qleb_spec q (inject_Z 1)) as [H1|H1]; [unfold inject_Z in H1; lra|reflexivity].
Qed.

Lemma quantile_outside_valid (s : st) mn mx q :
  hmin s = Some mn -> hmax s = Some mx -> (q < 0 \/ 1 < q) -> quantile QA s q = ANone.
Proof.
  intros Hmn Hmx Hq. unfold quantile. destruct (bins s) as [|[v0 f0] t]; [reflexivity|].
  rewrite Hmn, Hmx. cbn [leb ofZ QA].
  destruct Hq as [H|H].
  - destruct (Qleb_spec (inject_Z 0) q) as [H0|H0]; [unfold inject_Z in H0; cbn in H0; lra|reflexivity].
  - destruct (Qleb_spec (inject_Z 0) q); cbn [andb negb]; [|reflexivity].
    destruct (Qleb_spec q (inject_Z 1)) as [H1|H1]; [unfold inject_Z in H1; lra|reflexivity].
Qed.

Lemma quantile_bounded (s : st) mn mx q x :
  hmin s = Some mn -> hmax s = Some mx -> mn <= mx ->
  quantile QA s q = ANum x -> mn <= x <= mx.
Proof.
  intros Hmn Hmx Hle. unfold quantile. destruct (bins s) as [|[v0 f0] t]; [discriminate|].
  rewrite Hmn, Hmx.
  destruct (negb _); [discriminate|].
  destruct (nth_error _ _) as [[vl fl]|]; [|discriminate].
  match goal with |- match ?r with _ => _ end = _ -> _ => destruct r as [y|] end; [|discriminate].
  intros E. inversion E; subst. now apply QA_clamp_between.
Qed.
