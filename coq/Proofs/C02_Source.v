(* C02 - the object that delivers the dictionaries: DataFrame(obj) reads exactly what one pass over
   the object delivers at that moment, whatever the object's iteration protocol and whatever was
   read from it before. *)
From Coq Require Import List Bool Lia Arith.
From Orso Require Import Model.C02 Proofs.C02.
Import ListNotations.

Section SourceProofs.
Variables K V : Type.
Variable eqK : forall a b : K, {a = b} + {a <> b}.
Variable vnone : V.

Notation dict := (list (K * V)).
Notation source := (source K V).
Notation frame_of_dicts := (frame_of_dicts eqK vnone).
Notation frame_from_source := (frame_from_source eqK vnone).
Notation src_step := (src_step eqK vnone).
Notation src_run := (src_run eqK vnone).

(* ---------- lists ---------- *)
Lemma skipn_nth_some {A : Type} (l : list A) (p : nat) (d : A) :
  nth_error l p = Some d -> skipn p l = d :: skipn (S p) l.
Proof.
  revert l. induction p as [|p IH]; intros [|x l] H; cbn in *; try discriminate.
  - now inversion H.
  - now apply IH.
Qed.

Lemma skipn_nth_none {A : Type} (l : list A) (p : nat) : nth_error l p = None -> skipn p l = [].
Proof. intros H. apply skipn_all2. now apply nth_error_None. Qed.

Lemma hd_skipn {A : Type} (l : list A) (p : nat) : hd_error (skipn p l) = nth_error l p.
Proof.
  destruct (nth_error l p) as [d|] eqn:E.
  - now rewrite (skipn_nth_some l p d E).
  - now rewrite (skipn_nth_none l p E).
Qed.

Lemma tl_skipn {A : Type} (l : list A) (p : nat) : tl (skipn p l) = skipn (S p) l.
Proof.
  destruct (nth_error l p) as [d|] eqn:E.
  - now rewrite (skipn_nth_some l p d E).
  - rewrite (skipn_nth_none l p E). symmetry. apply skipn_all2. apply nth_error_None in E. lia.
Qed.

(* ---------- draining ---------- *)
Lemma drain_private (fuel : nat) (s : source) (p : nat) :
  length (src_items s) - p <= fuel ->
  cur_drain fuel s (CPrivate p) = (skipn p (src_items s), s).
Proof.
  revert p. induction fuel as [|n IH]; intros p H; cbn [C02.cur_drain C02.cur_next].
  - rewrite skipn_all2 by lia. reflexivity.
  - destruct (nth_error (src_items s) p) as [d|] eqn:E.
    + rewrite IH.
      * now rewrite (skipn_nth_some _ _ _ E).
      * lia.
    + now rewrite (skipn_nth_none _ _ E).
Qed.

Lemma drain_shared (fuel : nat) (items : list dict) (pos : nat) (rw : bool) :
  length items - pos <= fuel ->
  cur_drain fuel (Source items pos rw) CShared =
  (skipn pos items, Source items (Nat.max pos (length items)) rw).
Proof.
  revert pos. induction fuel as [|n IH]; intros pos H; cbn [C02.cur_drain C02.cur_next src_items src_pos src_rewinds].
  - rewrite skipn_all2 by lia. replace (Nat.max pos (length items)) with pos by lia. reflexivity.
  - destruct (nth_error items pos) as [d|] eqn:E.
    + assert (pos < length items) by (apply nth_error_Some; congruence).
      rewrite IH by lia. rewrite (skipn_nth_some _ _ _ E).
      replace (Nat.max (S pos) (length items)) with (Nat.max pos (length items)) by lia. reflexivity.
    + assert (length items <= pos) by now apply nth_error_None.
      rewrite (skipn_nth_none _ _ E). replace (Nat.max pos (length items)) with pos by lia. reflexivity.
Qed.

(* the object after everything has been read from it *)
Definition src_spent (s : source) : source :=
  if src_rewinds s then s else Source (src_items s) (Nat.max (src_pos s) (length (src_items s))) false.

Lemma src_spent_pending (s : source) :
  src_pending (src_spent s) = if src_rewinds s then src_pending s else [].
Proof.
  destruct s as [items pos [|]]; unfold src_spent, C02.src_pending; cbn [src_rewinds src_items src_pos]; [reflexivity|].
  apply skipn_all2. lia.
Qed.

Lemma drain_all (s : source) :
  cur_drain (length (src_items s)) s (src_iter s) = (src_pending s, src_spent s).
Proof.
  destruct s as [items pos [|]]; unfold C02.src_iter, C02.src_pending, src_spent; cbn [src_rewinds src_items src_pos].
  - rewrite drain_private by (cbn [src_items]; lia). reflexivity.
  - apply drain_shared. lia.
Qed.

(* DataFrame(obj) = the frame of exactly the dictionaries one pass over obj delivers now *)
Lemma frame_from_source_spec (s : source) :
  frame_from_source s = (frame_of_dicts (src_pending s), src_spent s).
Proof.
  destruct s as [items pos [|]]; unfold C02.frame_from_source, C02.src_iter, C02.src_pending, src_spent;
    cbn [src_rewinds src_items src_pos C02.cur_next].
  - rewrite drain_private by (cbn [src_items]; lia). cbn [src_items].
    destruct items as [|d r]; reflexivity.
  - destruct (nth_error items pos) as [d|] eqn:E.
    + assert (pos < length items) by (apply nth_error_Some; congruence).
      rewrite drain_shared by lia. rewrite (skipn_nth_some _ _ _ E).
      replace (Nat.max (S pos) (length items)) with (Nat.max pos (length items)) by lia. reflexivity.
    + rewrite drain_shared by lia. reflexivity.
Qed.

(* ---------- one call ---------- *)
Definition after (o : src_op) (s : source) : list dict :=
  if src_rewinds s then src_pending s
  else match o with SrcNext => tl (src_pending s) | _ => [] end.

Lemma src_step_spec (s : source) (o : src_op) :
  snd (src_step s o) =
    match o with
    | SrcNext => SrcItem (hd_error (src_pending s))
    | SrcList => SrcItems (src_pending s)
    | SrcFrame => SrcFrameOut (fst (frame_of_dicts (src_pending s))) (snd (frame_of_dicts (src_pending s)))
    end /\
  src_pending (fst (src_step s o)) = after o s /\
  src_rewinds (fst (src_step s o)) = src_rewinds s.
Proof.
  destruct o; unfold C02.src_step, after.
  - destruct s as [items pos [|]]; unfold C02.src_iter, C02.src_pending; cbn [src_rewinds src_items src_pos C02.cur_next].
    + cbn [fst snd src_rewinds src_items]. repeat split.
    + destruct (nth_error items pos) as [d|] eqn:E; cbn [fst snd src_rewinds src_items src_pos].
      * rewrite hd_skipn, tl_skipn, E. repeat split.
      * rewrite hd_skipn, tl_skipn, E. repeat split.
        rewrite (skipn_nth_none _ _ E). symmetry. apply skipn_all2. apply nth_error_None in E. lia.
  - rewrite drain_all. cbn [fst snd]. rewrite src_spent_pending. repeat split.
    unfold src_spent. destruct (src_rewinds s) eqn:E; [exact E|reflexivity].
  - rewrite frame_from_source_spec. cbn [fst snd]. rewrite src_spent_pending. repeat split.
    unfold src_spent. destruct (src_rewinds s) eqn:E; [exact E|reflexivity].
Qed.

(* ---------- histories ---------- *)
Lemma src_run_cons (s : source) (o : src_op) (ops : list src_op) :
  fst (src_run s (o :: ops)) = fst (src_run (fst (src_step s o)) ops).
Proof.
  cbn [C02.src_run]. destruct (src_step s o) as [s1 x]. cbn [fst]. now destruct (src_run s1 ops).
Qed.

(* whatever was read before: a container still delivers everything, any other object delivers a
   suffix of what it had *)
Lemma src_run_pending (ops : list src_op) (s : source) :
  src_rewinds (fst (src_run s ops)) = src_rewinds s /\
  exists k, src_pending (fst (src_run s ops)) = skipn k (src_pending s) /\
            (src_rewinds s = true -> k = 0).
Proof.
  revert s. induction ops as [|o r IH]; intros s.
  - split; [reflexivity|]. exists 0. split; [reflexivity|reflexivity].
  - rewrite src_run_cons. destruct (IH (fst (src_step s o))) as [R [k [P Z]]].
    destruct (src_step_spec s o) as [_ [A B]]. rewrite B in R, Z. split; [exact R|].
    rewrite P, A. unfold after. destruct (src_rewinds s) eqn:E.
    + exists k. split; [reflexivity|exact Z].
    + destruct o.
      * exists (S k). split; [|discriminate].
        destruct (src_pending s); [now destruct k|reflexivity].
      * exists (length (src_pending s)). split; [|discriminate]. rewrite skipn_all. now destruct k.
      * exists (length (src_pending s)). split; [|discriminate]. rewrite skipn_all. now destruct k.
Qed.

Lemma source_frame_after_history (s : source) (ops : list src_op) :
  exists k,
    (src_rewinds s = true -> k = 0) /\
    let ds := skipn k (src_pending s) in
    snd (src_step (fst (src_run s ops)) SrcFrame) =
      SrcFrameOut (fst (frame_of_dicts ds)) (snd (frame_of_dicts ds)) /\
    length (snd (frame_of_dicts ds)) = length ds /\
    src_pending (fst (src_step (fst (src_run s ops)) SrcFrame)) = if src_rewinds s then ds else [].
Proof.
  destruct (src_run_pending ops s) as [R [k [P Z]]]. exists k. split; [exact Z|]. cbv zeta.
  destruct (src_step_spec (fst (src_run s ops)) SrcFrame) as [O [A _]].
  rewrite O, A, P. unfold after. rewrite R, P. repeat split.
  apply frame_rowcount.
Qed.

End SourceProofs.
