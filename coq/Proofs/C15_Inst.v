(* C15 - the generic lemmas instantiated for the concrete profilers; the statements here are the
   ones Props/C15.v exports. *)
From Coq Require Import List ZArith NArith Bool Lia.
From Orso Require Import Gen.C15_Profiler Model.C15 Proofs.C15 Proofs.C15_Text.
Import ListNotations.
Open Scope Z_scope.

(* ---------- count and missing, every profiler ---------- *)
Lemma count_missing_all :
  (forall E scale hash (np_hist : list Z -> list (E * Z)) wo c,
      let p := profile_num scale hash np_hist wo c in
      p_count p = zlen c /\ p_missing p = zlen (filter is_none c)) /\
  (forall E hash c,
      let p := @profile_text E hash c in
      p_count p = zlen c /\ p_missing p = zlen (filter is_none c)) /\
  (forall E c,
      let p := @profile_bool E c in
      p_count p = zlen c /\ p_missing p = zlen (filter is_none c)) /\
  (forall V E B (c : list (option B)),
      let p := @profile_plain V E B c in
      p_count p = zlen c /\ p_missing p = zlen (filter is_none c)) /\
  (forall V E c,
      let p := @profile_default V E c in
      p_count p = zlen c /\ p_missing p = zlen (filter ucell_missing c)).
Proof.
  repeat split.
  - apply core_count.
  - unfold profile_num, profile_ord. rewrite core_missing. apply nonnull_missing.
  - apply core_count.
  - unfold profile_text. rewrite core_missing. unfold zlen. rewrite map_length. apply nonnull_missing.
  - unfold profile_bool. destruct (nonnull c); reflexivity.
  - unfold profile_bool. rewrite <- nonnull_missing. destruct (nonnull c); reflexivity.
Qed.

(* ---------- numbers ---------- *)
Section Num.
Variable E : Type.
Variable scale : Z.
Variable hash : Z -> N.
Variable np_hist : list Z -> list (E * Z).
Hypothesis scale_pos : 0 < scale.

Notation prof := (profile_num scale hash np_hist).

Lemma num_minimum wo c :
  match p_minimum (prof wo c) with
  | None => forall o, In o c -> o = None
  | Some z => exists m, In (Some m) c /\ (forall y, In (Some y) c -> m <= y) /\ z = Z.quot m scale
  end.
Proof.
  unfold profile_num, profile_ord.
  pose proof (core_minimum Z Z.leb Z.eqb (trunc_z scale) hash E np_hist Z_total_order true wo (zlen c) (nonnull c) (nonnull c)) as H.
  destruct (p_minimum _) as [z|].
  - destruct H as (m & [Hin Hall] & ->). exists m. split; [now apply In_nonnull|]. split; [|reflexivity].
    intros y Hy. apply Z.leb_le. apply Hall. now apply In_nonnull.
  - now apply nonnull_all_none.
Qed.

Lemma num_maximum wo c :
  match p_maximum (prof wo c) with
  | None => forall o, In o c -> o = None
  | Some z => exists m, In (Some m) c /\ (forall y, In (Some y) c -> y <= m) /\ z = Z.quot m scale
  end.
Proof.
  unfold profile_num, profile_ord.
  pose proof (core_maximum Z Z.leb Z.eqb (trunc_z scale) hash E np_hist Z_total_order true wo (zlen c) (nonnull c) (nonnull c)) as H.
  destruct (p_maximum _) as [z|].
  - destruct H as (m & [Hin Hall] & ->). exists m. split; [now apply In_nonnull|]. split; [|reflexivity].
    intros y Hy. apply Z.leb_le. apply Hall. now apply In_nonnull.
  - now apply nonnull_all_none.
Qed.

Lemma num_histogram_mass wo c :
  (forall d, Forall (fun b => 0 <= snd b) (np_hist d)) ->
  (forall d, sumz (map snd (np_hist d)) = zlen d) ->
  sumz (map snd (p_histogram (prof wo c))) = zlen c - zlen (filter is_none c).
Proof.
  intros Hpos Hsum. unfold profile_num, profile_ord. rewrite <- nonnull_missing.
  rewrite core_histogram_mass; auto. lia.
Qed.

Lemma num_mfv wo c :
  let d := nonnull c in
  let m := p_mfv (prof wo c) in
  NoDup (map fst m) /\
  (forall v k, In (v, k) m -> k = occ Z.eqb v d /\ In (Some v) c) /\
  (forall v, In (Some v) c -> ~ In v (map fst m) -> forall w k, In (w, k) m -> occ Z.eqb v d <= k) /\
  length m = Nat.min MOST_FREQUENT_VALUE_SIZE (length (distinct Z.eqb d)).
Proof.
  cbn zeta. unfold profile_num, profile_ord, profile_core.
  destruct (nonnull c) as [|x xs] eqn:Hd.
  - cbn [p_mfv empty_profile map]. split; [constructor|]. split; [intros v k []|].
    split; [intros v Hv; apply In_nonnull in Hv; rewrite Hd in Hv; destruct Hv|reflexivity].
  - cbn [p_mfv]. rewrite <- Hd.
    destruct (most_common_spec Z Z.leb Z.eqb Z_total_order MOST_FREQUENT_VALUE_SIZE (nonnull c)) as (H1 & H2 & H3 & H4).
    split; [exact H1|]. split; [|split; [|exact H4]].
    + intros v k Hin. destruct (H2 v k Hin) as [Hk Hv]. split; [exact Hk|now apply In_nonnull].
    + intros v Hv. apply H3. now apply In_nonnull.
Qed.

Lemma num_distinct_spec c :
  NoDup (distinct Z.eqb (nonnull c)) /\ forall v, In v (distinct Z.eqb (nonnull c)) <-> In (Some v) c.
Proof.
  destruct (counter_keys Z Z.leb Z.eqb Z_total_order (nonnull c)) as [H1 H2]. split; [exact H1|].
  intro v. rewrite H2. apply In_nonnull.
Qed.

Lemma num_estimate wo c :
  (length (distinct Z.eqb (nonnull c)) < KVM_SIZE)%nat ->
  estimate_cardinality (prof wo c) = Some (zlen (distinct Z.eqb (nonnull c))).
Proof. intro H. unfold profile_num, profile_ord. apply core_estimate; [tauto|exact H]. Qed.

Lemma num_order_transitions c :
  match nonnull c with
  | [] => p_order (prof true c) = None /\ p_transitions (prof true c) = 0
  | x :: xs => p_order (prof true c) = order_spec Z.leb x xs /\ p_transitions (prof true c) = trans_count Z.eqb x xs
  end.
Proof.
  unfold profile_num, profile_ord. destruct (nonnull c) as [|x xs].
  - split; reflexivity.
  - apply (core_order_transitions Z Z.leb Z.eqb (trunc_z scale) hash E np_hist Z_total_order).
Qed.

Lemma num_additive_app wo c1 c2 :
  quad (prof wo (c1 ++ c2)) = quad_add (quad (prof wo c1)) (quad (prof wo c2)).
Proof.
  unfold profile_num, profile_ord. rewrite nonnull_app, zlen_app.
  apply (core_quad_app Z Z.leb Z.eqb (trunc_z scale) hash E np_hist (fun _ => True) Z_total_order (trunc_mono scale scale_pos));
    apply Forall_True.
Qed.

Lemma num_additive hist_merge wo c1 c2 :
  quad (add Z.eqb E hist_merge (prof wo c1) (prof wo c2)) = quad (prof wo (c1 ++ c2)).
Proof. now rewrite quad_add_spec, num_additive_app. Qed.

Lemma num_batching hist_merge wo c :
  0 < BATCH_SIZE ->
  match profile_frame Z.eqb E hist_merge (prof wo) c with
  | None => c = []
  | Some p => c <> [] /\ quad p = quad (prof wo c)
  end.
Proof. intro Hb. apply profile_frame_quad; [apply num_additive_app|exact Hb]. Qed.
End Num.

(* ---------- text ---------- *)
Section Text.
Variable E : Type.
Variable hash : list N -> N.

Notation prof := (@profile_text E hash).
Notation clipped c := (map clip (nonnull c)).

Lemma text_core c :
  prof c = profile_core lex_leb text_eqb string_to_int64 hash E (fun _ => []) false true (zlen c) (nonnull c) (clipped c).
Proof. reflexivity. Qed.

Lemma text_minimum c :
  match p_minimum (prof c) with
  | None => forall o, In o c -> o = None
  | Some z => exists m, In m (clipped c) /\ (forall y, In y (clipped c) -> lex_leb m y = true) /\ z = string_to_int64 m
  end.
Proof.
  rewrite text_core.
  pose proof (core_minimum _ lex_leb text_eqb string_to_int64 hash E (fun _ => []) text_total_order false true (zlen c) (nonnull c) (clipped c)) as H.
  destruct (p_minimum _) as [z|].
  - destruct H as (m & [Hin Hall] & ->). exists m. auto.
  - apply nonnull_all_none. now apply map_eq_nil in H.
Qed.

Lemma text_maximum c :
  match p_maximum (prof c) with
  | None => forall o, In o c -> o = None
  | Some z => exists m, In m (clipped c) /\ (forall y, In y (clipped c) -> lex_leb y m = true) /\ z = string_to_int64 m
  end.
Proof.
  rewrite text_core.
  pose proof (core_maximum _ lex_leb text_eqb string_to_int64 hash E (fun _ => []) text_total_order false true (zlen c) (nonnull c) (clipped c)) as H.
  destruct (p_maximum _) as [z|].
  - destruct H as (m & [Hin Hall] & ->). exists m. auto.
  - apply nonnull_all_none. now apply map_eq_nil in H.
Qed.

Lemma text_mfv c :
  let d := clipped c in
  let m := p_mfv (prof c) in
  NoDup (map fst m) /\
  (forall v k, In (v, k) m -> k = occ text_eqb v d /\ In v d) /\
  (forall v, In v d -> ~ In v (map fst m) -> forall w k, In (w, k) m -> occ text_eqb v d <= k) /\
  length m = Nat.min MOST_FREQUENT_VALUE_SIZE (length (distinct text_eqb d)).
Proof.
  cbn zeta. rewrite text_core. unfold profile_core.
  destruct (clipped c) as [|x xs] eqn:Hd.
  - cbn [p_mfv empty_profile map]. split; [constructor|]. split; [intros v k []|].
    split; [intros v []|reflexivity].
  - cbn [p_mfv]. apply (most_common_spec _ lex_leb text_eqb text_total_order).
Qed.

(* with no text longer than 64 characters the listed values are values of the column itself *)
Lemma text_mfv_short c :
  Forall (fun s => (length s <= SIXTY_FOUR_BYTES)%nat) (nonnull c) ->
  let d := nonnull c in
  let m := p_mfv (prof c) in
  NoDup (map fst m) /\
  (forall v k, In (v, k) m -> k = occ text_eqb v d /\ In (Some v) c) /\
  (forall v, In (Some v) c -> ~ In v (map fst m) -> forall w k, In (w, k) m -> occ text_eqb v d <= k) /\
  length m = Nat.min MOST_FREQUENT_VALUE_SIZE (length (distinct text_eqb d)).
Proof.
  intro Hshort. cbn zeta. pose proof (text_mfv c) as H. cbn zeta in H.
  rewrite (map_clip_short _ Hshort) in H. destruct H as (H1 & H2 & H3 & H4).
  split; [exact H1|]. split; [|split; [|exact H4]].
  - intros v k Hin. destruct (H2 v k Hin) as [Hk Hv]. split; [exact Hk|now apply In_nonnull].
  - intros v Hv. apply H3. now apply In_nonnull.
Qed.

Lemma text_distinct_spec c :
  NoDup (distinct text_eqb (nonnull c)) /\ forall v, In v (distinct text_eqb (nonnull c)) <-> In (Some v) c.
Proof.
  destruct (counter_keys _ lex_leb text_eqb text_total_order (nonnull c)) as [H1 H2]. split; [exact H1|].
  intro v. rewrite H2. apply In_nonnull.
Qed.

(* the sketch is taken from the whole strings, so the count is of the column's own values *)
Lemma text_estimate c :
  (length (distinct text_eqb (nonnull c)) < KVM_SIZE)%nat ->
  estimate_cardinality (prof c) = Some (zlen (distinct text_eqb (nonnull c))).
Proof.
  intro H. rewrite text_core. apply core_estimate; [|exact H].
  split; intro H0; [now apply map_eq_nil in H0|now rewrite H0].
Qed.

Lemma text_order_transitions c :
  match clipped c with
  | [] => p_order (prof c) = None /\ p_transitions (prof c) = 0
  | x :: xs => p_order (prof c) = order_spec lex_leb x xs /\ p_transitions (prof c) = trans_count text_eqb x xs
  end.
Proof.
  rewrite text_core. destruct (clipped c) as [|x xs].
  - split; reflexivity.
  - apply (core_order_transitions _ lex_leb text_eqb string_to_int64 hash E (fun _ => []) text_total_order).
Qed.

Definition valid_column (c : list (option (list N))) : Prop := Forall valid_text (nonnull c).

Lemma text_additive_app c1 c2 :
  valid_column c1 -> valid_column c2 ->
  quad (prof (c1 ++ c2)) = quad_add (quad (prof c1)) (quad (prof c2)).
Proof.
  intros V1 V2. rewrite !text_core. rewrite nonnull_app, map_app, zlen_app.
  apply (core_quad_app _ lex_leb text_eqb string_to_int64 hash E (fun _ => []) valid_text text_total_order string_to_int64_mono);
    now apply map_clip_valid.
Qed.

Lemma text_additive hist_merge c1 c2 :
  valid_column c1 -> valid_column c2 ->
  quad (add text_eqb E hist_merge (prof c1) (prof c2)) = quad (prof (c1 ++ c2)).
Proof. intros. now rewrite quad_add_spec, text_additive_app. Qed.
End Text.

(* ---------- F-C15-9: texts longer than 64 characters ---------- *)
(* two different 65-character values are listed as one value, twice, which is not a value of the column;
   no transition is counted between them *)
Definition long_a : list N := repeat 120%N 64 ++ [97%N].
Definition long_b : list N := repeat 120%N 64 ++ [98%N].

Lemma text_mfv_long_refuted :
  exists c : list (option (list N)),
    let p := @profile_text N (fun _ => 0%N) c in
    (exists v k, In (v, k) (p_mfv p) /\ ~ In (Some v) c /\ k <> occ text_eqb v (nonnull c)) /\
    (match nonnull c with x :: xs => p_transitions p <> trans_count text_eqb x xs | [] => False end).
Proof.
  exists [Some long_a; Some long_b]. cbn zeta. split.
  - exists (repeat 120%N 64), 2. split; [vm_compute; now left|]. split.
    + intros [H|[H|[]]]; vm_compute in H; discriminate.
    + vm_compute. discriminate.
  - vm_compute. discriminate.
Qed.

(* ---------- the sketch of a sum ---------- *)
Lemma num_sum_estimate E scale hash (np_hist : list Z -> list (E * Z)) hist_merge wo c1 c2 :
  nonnull c1 <> [] -> nonnull c2 <> [] ->
  (forall a b, In (Some a) (c1 ++ c2) -> In (Some b) (c1 ++ c2) -> hash a = hash b -> a = b) ->
  (length (distinct Z.eqb (nonnull (c1 ++ c2))) < KVM_SIZE)%nat ->
  estimate_cardinality (add Z.eqb E hist_merge (profile_num scale hash np_hist wo c1) (profile_num scale hash np_hist wo c2))
  = Some (zlen (distinct Z.eqb (nonnull (c1 ++ c2)))).
Proof.
  intros H1 H2 Hinj Hlt. rewrite nonnull_app in *. unfold profile_num, profile_ord.
  apply (sum_estimate Z Z.leb Z.eqb (trunc_z scale) hash E np_hist hist_merge Z_total_order); try tauto; try assumption.
  intros a b Ha Hb. apply Hinj; apply In_nonnull; now rewrite nonnull_app.
Qed.

Lemma text_sum_estimate E hash hist_merge c1 c2 :
  nonnull c1 <> [] -> nonnull c2 <> [] ->
  (forall a b, In (Some a) (c1 ++ c2) -> In (Some b) (c1 ++ c2) -> hash a = hash b -> a = b) ->
  (length (distinct text_eqb (nonnull (c1 ++ c2))) < KVM_SIZE)%nat ->
  estimate_cardinality (add text_eqb E hist_merge (@profile_text E hash c1) (@profile_text E hash c2))
  = Some (zlen (distinct text_eqb (nonnull (c1 ++ c2)))).
Proof.
  intros H1 H2 Hinj Hlt. rewrite nonnull_app in *. rewrite !text_core.
  apply (sum_estimate _ lex_leb text_eqb string_to_int64 hash E (fun _ => []) hist_merge text_total_order); try assumption.
  - split; intro H0; [now apply map_eq_nil in H0|now rewrite H0].
  - split; intro H0; [now apply map_eq_nil in H0|now rewrite H0].
  - intros a b Ha Hb. apply Hinj; apply In_nonnull; now rewrite nonnull_app.
Qed.

(* when the left batch is all-null the sum keeps the left (empty) sketch: the estimate is 0 *)
Lemma sum_estimate_left_null_refuted :
  exists c1 c2 : list (option Z),
    estimate_cardinality (add Z.eqb N (fun a _ => a) (profile_num 1 Z.to_N (fun _ => []) true c1)
                                                    (profile_num 1 Z.to_N (fun _ => []) true c2)) = Some 0 /\
    zlen (distinct Z.eqb (nonnull (c1 ++ c2))) = 1.
Proof. exists [None], [Some 5]. split; reflexivity. Qed.
