(* C07 - str(int) and int(str): the decimal rendering of an integer and its inverse. *)
From Coq Require Import List ZArith NArith Bool Lia ZifyBool.
From Orso Require Import Base.Civil Gen.C08_Tables Model.C08 Gen.C07_Tables Model.C07.
From Orso Require Import Proofs.C08_Str Proofs.C08_Utf8.
Import ListNotations.
Open Scope Z_scope.

(* ---------- digit strings ---------- *)
Definition dfold (a : Z) (c : N) : Z := a * 10 + dval c.

Lemma digits_value_app a b : digits_value (a ++ b) = fold_left dfold b (digits_value a).
Proof. unfold digits_value. now rewrite fold_left_app. Qed.

Lemma digits_value_snoc a c : digits_value (a ++ [c]) = digits_value a * 10 + dval c.
Proof. rewrite digits_value_app. reflexivity. Qed.

Lemma fold_digits_shift s acc : forallb ascii_digit s = true ->
  fold_left dfold s acc = acc * 10 ^ zlen s + fold_left dfold s 0.
Proof.
  revert acc. induction s as [|c s IH]; intros acc H.
  - cbn [fold_left]. rewrite zlen_nil. lia.
  - cbn [forallb] in H. apply andb_true_iff in H. destruct H as [Hc Hs].
    cbn [fold_left]. rewrite (IH (dfold acc c)) by assumption. rewrite (IH (dfold 0 c)) by assumption.
    rewrite zlen_cons. rewrite Z.pow_add_r by (pose proof (zlen_nonneg s); lia).
    unfold dfold. lia.
Qed.

Lemma digits_value_app_digits a b : forallb ascii_digit b = true ->
  digits_value (a ++ b) = digits_value a * 10 ^ zlen b + digits_value b.
Proof. intros H. rewrite digits_value_app. now rewrite fold_digits_shift. Qed.

Lemma dval_range c : ascii_digit c = true -> 0 <= dval c <= 9.
Proof. unfold ascii_digit, dval. lia. Qed.

Lemma digits_value_bound s : forallb ascii_digit s = true -> 0 <= digits_value s < 10 ^ zlen s.
Proof.
  induction s as [|c s IH] using rev_ind; intros H.
  - cbn. lia.
  - rewrite forallb_app in H. apply andb_true_iff in H. destruct H as [Hs Hc].
    cbn [forallb] in Hc. rewrite andb_true_r in Hc. specialize (IH Hs).
    rewrite digits_value_snoc. rewrite zlen_app. change (zlen [c]) with 1.
    replace (zlen s + 1) with (Z.succ (zlen s)) by lia. rewrite Z.pow_succ_r by apply zlen_nonneg.
    pose proof (dval_range c Hc). lia.
Qed.

Lemma digits_value_zeros n s : digits_value (repeat 48%N n ++ s) = digits_value s.
Proof.
  induction n as [|n IH]; [reflexivity|].
  cbn [repeat app]. unfold digits_value in *. cbn [fold_left]. exact IH.
Qed.

Lemma digits_value_app_zeros s n : forallb ascii_digit s = true ->
  digits_value (s ++ repeat 48%N n) = digits_value s * 10 ^ Z.of_nat n.
Proof.
  intros H. rewrite digits_value_app_digits.
  - replace (digits_value (repeat 48%N n)) with 0.
    + unfold zlen. rewrite repeat_length. lia.
    + rewrite <- (app_nil_r (repeat 48%N n)). now rewrite digits_value_zeros.
  - clear. induction n; [reflexivity|]. cbn [repeat forallb]. now rewrite IHn.
Qed.

Lemma forallb_repeat_zero n : forallb ascii_digit (repeat 48%N n) = true.
Proof. induction n; [reflexivity|]. cbn [repeat forallb]. now rewrite IHn. Qed.

(* ---------- render_nat ---------- *)
Lemma div_eucl_10 z : Z.div_eucl z 10 = (z / 10, z mod 10).
Proof. unfold Z.div, Z.modulo. now destruct (Z.div_eucl z 10). Qed.

Definition digit_char (r : Z) : N := Z.to_N (48 + r).

Lemma digit_char_ok r : 0 <= r <= 9 -> ascii_digit (digit_char r) = true /\ dval (digit_char r) = r.
Proof. intros H. unfold ascii_digit, dval, digit_char. lia. Qed.

(* a rendering: non-empty ASCII digits with value z, no leading zero unless z = 0 *)
Definition is_rendering (z : Z) (ds : list N) : Prop :=
  ds <> [] /\ forallb ascii_digit ds = true /\ digits_value ds = z /\
  (0 < z -> exists c r, ds = c :: r /\ 1 <= dval c).

Lemma digits_fuel_spec fuel : forall z acc, 0 <= z < 2 ^ Z.of_nat fuel -> fuel <> O ->
  exists ds, digits_fuel fuel z acc = ds ++ acc /\ is_rendering z ds.
Proof.
  induction fuel as [|f IH]; intros z acc Hz Hf; [congruence|].
  cbn [digits_fuel]. rewrite div_eucl_10.
  assert (0 <= z mod 10 <= 9) as Hr by (pose proof (Z.mod_pos_bound z 10); lia).
  destruct (digit_char_ok _ Hr) as (Hd & Hv). fold (digit_char (z mod 10)).
  destruct (z / 10 =? 0) eqn:Eq.
  - exists [digit_char (z mod 10)]. split; [reflexivity|].
    assert (z = z mod 10) as Hzz by (pose proof (Z.div_mod z 10); lia).
    repeat split.
    + discriminate.
    + cbn [forallb]. now rewrite Hd.
    + unfold digits_value. cbn [fold_left]. lia.
    + intros Hp. eexists _, _. split; [reflexivity|]. lia.
  - assert (0 < z / 10) as Hq by (pose proof (Z.div_pos z 10); lia).
    assert (f <> O) as Hf'.
    { intros ->. cbn in Hz. assert (z / 10 = 0) by (apply Z.div_small; lia). lia. }
    assert (0 <= z / 10 < 2 ^ Z.of_nat f) as Hq2.
    { split; [lia|]. rewrite Nat2Z.inj_succ, Z.pow_succ_r in Hz by lia.
      apply Z.div_lt_upper_bound; lia. }
    destruct (IH (z / 10) (digit_char (z mod 10) :: acc) Hq2 Hf') as (ds & Heq & Hne & Hall & Hval & Hlead).
    exists (ds ++ [digit_char (z mod 10)]). split.
    + rewrite Heq. now rewrite <- app_assoc.
    + repeat split.
      * destruct ds; discriminate.
      * rewrite forallb_app, Hall. cbn [forallb]. now rewrite Hd.
      * rewrite digits_value_snoc, Hval, Hv. pose proof (Z.div_mod z 10). lia.
      * intros _. destruct (Hlead Hq) as (c & r & -> & Hc). eexists _, _. split; [reflexivity|exact Hc].
Qed.

Lemma render_nat_spec z : 0 <= z -> is_rendering z (render_nat z).
Proof.
  intros Hz. unfold render_nat.
  destruct (digits_fuel_spec (S (Z.to_nat (Z.log2 z))) z [] ) as (ds & Heq & H); [|congruence|].
  - split; [lia|]. rewrite Nat2Z.inj_succ, Z2Nat.id by apply Z.log2_nonneg.
    destruct (Z.eq_dec z 0) as [->|Hnz]; [cbn; lia|]. apply Z.log2_spec. lia.
  - rewrite Heq, app_nil_r. exact H.
Qed.

Lemma render_nat_digits z : 0 <= z -> forallb ascii_digit (render_nat z) = true.
Proof. intros H. apply (render_nat_spec z H). Qed.
Lemma render_nat_value z : 0 <= z -> digits_value (render_nat z) = z.
Proof. intros H. apply (render_nat_spec z H). Qed.
Lemma render_nat_nonempty z : 0 <= z -> render_nat z <> [].
Proof. intros H. apply (render_nat_spec z H). Qed.

Lemma ndig_pos c : 0 <= c -> 1 <= ndig c.
Proof.
  intros H. unfold ndig. pose proof (render_nat_nonempty c H).
  destruct (render_nat c); [congruence|]. rewrite zlen_cons. pose proof (zlen_nonneg l). lia.
Qed.

(* 10^(n-1) <= c < 10^n characterises the number of digits of c > 0 *)
Lemma ndig_upper c : 0 <= c -> c < 10 ^ ndig c.
Proof.
  intros H. pose proof (digits_value_bound _ (render_nat_digits c H)) as B.
  rewrite render_nat_value in B by assumption. apply B.
Qed.

Lemma ndig_lower c : 0 < c -> 10 ^ (ndig c - 1) <= c.
Proof.
  intros H. assert (0 <= c) as H0 by lia.
  destruct (render_nat_spec c H0) as (Hne & Hall & Hval & Hlead).
  destruct (Hlead H) as (d & r & Heq & Hd).
  unfold ndig. rewrite Heq in *. rewrite zlen_cons. replace (1 + zlen r - 1) with (zlen r) by lia.
  cbn [forallb] in Hall. apply andb_true_iff in Hall. destruct Hall as [_ Hr].
  change (d :: r) with ([d] ++ r) in Hval. rewrite digits_value_app_digits in Hval by assumption.
  pose proof (digits_value_bound r Hr). unfold digits_value in Hval at 1. cbn [fold_left] in Hval.
  assert (0 < 10 ^ zlen r) by (apply Z.pow_pos_nonneg; [lia|apply zlen_nonneg]). nia.
Qed.

Lemma ndig_unique c n : 0 < c -> 10 ^ (n - 1) <= c < 10 ^ n -> ndig c = n.
Proof.
  intros Hc [Hlo Hhi]. pose proof (ndig_upper c ltac:(lia)) as U. pose proof (ndig_lower c Hc) as Lw.
  pose proof (ndig_pos c ltac:(lia)) as P.
  assert (1 <= n) as Hn.
  { destruct (Z_lt_le_dec n 1) as [Hlt|]; [|assumption].
    assert (10 ^ n <= 1).
    { destruct (Z_lt_le_dec n 0); [rewrite Z.pow_neg_r by lia; lia|]. replace n with 0 by lia. cbn. lia. }
    lia. }
  destruct (Z_lt_le_dec (ndig c) n) as [H1|H1].
  - assert (10 ^ ndig c <= 10 ^ (n - 1)) by (apply Z.pow_le_mono_r; lia). lia.
  - destruct (Z_lt_le_dec n (ndig c)) as [H2|H2]; [|lia].
    assert (10 ^ n <= 10 ^ (ndig c - 1)) by (apply Z.pow_le_mono_r; lia). lia.
Qed.

Lemma ndig_mul_pow c j : 0 < c -> 0 <= j -> ndig (c * 10 ^ j) = ndig c + j.
Proof.
  intros Hc Hj. assert (0 < 10 ^ j) by (apply Z.pow_pos_nonneg; lia).
  apply ndig_unique; [nia|].
  pose proof (ndig_upper c ltac:(lia)). pose proof (ndig_lower c Hc). pose proof (ndig_pos c ltac:(lia)).
  replace (ndig c + j - 1) with ((ndig c - 1) + j) by lia.
  rewrite !Z.pow_add_r by lia. nia.
Qed.

Lemma ndig_zero : ndig 0 = 1.
Proof. reflexivity. Qed.

(* ---------- str(int) ---------- *)
Lemma render_Z_nonneg z : 0 <= z -> render_Z z = render_nat z.
Proof. intros H. unfold render_Z. replace (z <? 0) with false by lia. reflexivity. Qed.
Lemma render_Z_neg z : z < 0 -> render_Z z = 45%N :: render_nat (- z).
Proof. intros H. unfold render_Z. replace (z <? 0) with true by lia. reflexivity. Qed.

Lemma pow8_le_pow10 n : 0 <= n -> 2 ^ (3 * n) <= 10 ^ n.
Proof.
  intros H. rewrite Z.pow_mul_r by lia. change (2 ^ 3) with 8. apply Z.pow_le_mono_l. lia.
Qed.

(* str(z) succeeds exactly when z has at most int_max_str_digits digits, and is then render_Z z *)
Lemma str_of_int_ok z : ndig (Z.abs z) <= int_max_str_digits -> str_of_int z = ROk (render_Z z).
Proof.
  intros H. unfold str_of_int. destruct (Z.log2 (Z.abs z) <? 3 * int_max_str_digits); [reflexivity|].
  pose proof (ndig_upper (Z.abs z) ltac:(lia)) as U.
  assert (10 ^ ndig (Z.abs z) <= 10 ^ int_max_str_digits) by (apply Z.pow_le_mono_r; lia).
  replace (10 ^ int_max_str_digits <=? Z.abs z) with false by lia. reflexivity.
Qed.

Lemma str_of_int_inv z s : str_of_int z = ROk s -> s = render_Z z /\ ndig (Z.abs z) <= int_max_str_digits.
Proof.
  unfold str_of_int. assert (0 <= int_max_str_digits) as HL by (vm_compute; discriminate).
  destruct (Z.log2 (Z.abs z) <? 3 * int_max_str_digits) eqn:E1.
  - intros [= <-]. split; [reflexivity|].
    destruct (Z.eq_dec (Z.abs z) 0) as [E0|Hnz].
    + rewrite E0, ndig_zero. assert (1 <= int_max_str_digits) by (vm_compute; discriminate). lia.
    + assert (Z.abs z < 2 ^ (3 * int_max_str_digits)) as Hlt.
      { apply Z.log2_lt_pow2; lia. }
      pose proof (pow8_le_pow10 _ HL). pose proof (ndig_lower (Z.abs z) ltac:(lia)) as Lw.
      destruct (Z_lt_le_dec int_max_str_digits (ndig (Z.abs z))) as [Hbad|]; [|assumption].
      assert (10 ^ int_max_str_digits <= 10 ^ (ndig (Z.abs z) - 1)) by (apply Z.pow_le_mono_r; lia). lia.
  - destruct (10 ^ int_max_str_digits <=? Z.abs z) eqn:E2; [discriminate|].
    intros [= <-]. split; [reflexivity|].
    destruct (Z.eq_dec (Z.abs z) 0) as [E0|Hnz].
    + rewrite E0, ndig_zero. assert (1 <= int_max_str_digits) by (vm_compute; discriminate). lia.
    + pose proof (ndig_lower (Z.abs z) ltac:(lia)) as Lw.
      destruct (Z_lt_le_dec int_max_str_digits (ndig (Z.abs z))) as [Hbad|]; [|assumption].
      assert (10 ^ int_max_str_digits <= 10 ^ (ndig (Z.abs z) - 1)) by (apply Z.pow_le_mono_r; lia). lia.
Qed.

(* ---------- int(str) on padded, signed digit strings ---------- *)

Lemma classify_blank c : blank c = true -> classify c = CSpace.
Proof.
  unfold blank, classify. intros H. replace (c <? 127)%N with true by lia.
  replace ((48 <=? c)%N && (c <=? 57)%N) with false by lia.
  replace (((9 <=? c)%N && (c <=? 13)%N) || (c =? 32)%N) with true by lia. reflexivity.
Qed.

Lemma skip_space_blanks ws l : forallb blank ws = true ->
  skip_space (map classify ws ++ l) = skip_space l.
Proof.
  induction ws as [|c ws IH]; intros H; [reflexivity|].
  cbn [forallb] in H. apply andb_true_iff in H. destruct H as [Hc Hs].
  cbn [map app]. rewrite classify_blank by assumption. cbn [skip_space]. now apply IH.
Qed.

Lemma skip_space_all ws : forallb blank ws = true -> skip_space (map classify ws) = [].
Proof. intros H. rewrite <- (app_nil_r (map classify ws)). now rewrite skip_space_blanks. Qed.

Definition stops (l : list cls) : Prop := match l with [] => True | CSpace :: _ => True | _ => False end.

Lemma stops_blanks ws : forallb blank ws = true -> stops (map classify ws).
Proof.
  destruct ws as [|c ws]; [intros _; exact I|]. cbn [forallb map]. intros H. apply andb_true_iff in H.
  destruct H as [Hc _]. now rewrite classify_blank.
Qed.

Lemma int_scan_digits_app s r cnt : forallb ascii_digit s = true -> stops r ->
  int_scan (map classify s ++ r) cnt false = Some (cnt + zlen s, r).
Proof.
  revert cnt. induction s as [|c s IH]; intros cnt H Hr; cbn [map app forallb] in *.
  - rewrite zlen_nil. replace (cnt + 0) with cnt by lia. destruct r as [|[] r]; cbn [int_scan]; try reflexivity; destruct Hr.
  - apply andb_true_iff in H. destruct H as [Hc Hs]. rewrite classify_digit by assumption.
    cbn [int_scan]. rewrite IH by assumption. rewrite zlen_cons. do 2 f_equal. lia.
Qed.

Lemma int_value_digits_app s r acc : forallb ascii_digit s = true -> stops r ->
  int_value (map classify s ++ r) acc = fold_left dfold s acc.
Proof.
  revert acc. induction s as [|c s IH]; intros acc H Hr; cbn [map app forallb fold_left] in *.
  - destruct r as [|[] r]; cbn [int_value]; try reflexivity; destruct Hr.
  - apply andb_true_iff in H. destruct H as [Hc Hs]. rewrite classify_digit by assumption.
    cbn [int_value]. now rewrite IH.
Qed.

Lemma py_int_core ds ws2 : ds <> [] -> forallb ascii_digit ds = true -> zlen ds <= int_max_str_digits ->
  forallb blank ws2 = true ->
  forall neg : bool,
  match map classify ds ++ map classify ws2 with
  | CDigit _ :: _ =>
      match int_scan (map classify ds ++ map classify ws2) 0 false with
      | Some (cnt, rest) =>
          match skip_space rest with
          | [] => if cnt >? int_max_str_digits then Raise ValueError
                  else let v := int_value (map classify ds ++ map classify ws2) 0 in Ok (if neg then - v else v)
          | _ => Raise ValueError
          end
      | None => Raise ValueError
      end
  | _ => Raise ValueError
  end = Ok (if (neg : bool) then - digits_value ds else digits_value ds).
Proof.
  intros Hne Hall Hlen Hws neg.
  rewrite int_scan_digits_app by (try assumption; now apply stops_blanks).
  rewrite int_value_digits_app by (try assumption; now apply stops_blanks).
  rewrite skip_space_all by assumption.
  destruct ds as [|c ds]; [congruence|]. cbn [map app].
  cbn [forallb] in Hall. apply andb_true_iff in Hall. destruct Hall as [Hc Hs].
  rewrite classify_digit by assumption.
  replace (0 + zlen (c :: ds) >? int_max_str_digits) with false by lia. reflexivity.
Qed.

(* int() of blanks, optional sign, digits, blanks *)
Lemma py_int_padded ws1 ws2 ds (neg : bool) :
  forallb blank ws1 = true -> forallb blank ws2 = true ->
  ds <> [] -> forallb ascii_digit ds = true -> zlen ds <= int_max_str_digits ->
  py_int (ws1 ++ (if neg then [45%N] else []) ++ ds ++ ws2) = Ok (if neg then - digits_value ds else digits_value ds).
Proof.
  intros H1 H2 Hne Hall Hlen. unfold py_int. rewrite !map_app. rewrite skip_space_blanks by assumption.
  pose proof (py_int_core ds ws2 Hne Hall Hlen H2) as Core.
  assert (exists d r, map classify ds ++ map classify ws2 = CDigit d :: r) as (d & r & Hd).
  { destruct ds as [|c ds]; [congruence|]. cbn [forallb] in Hall. apply andb_true_iff in Hall.
    cbn [map app]. rewrite classify_digit by apply Hall. eauto. }
  destruct neg.
  - cbn [map app]. change (classify 45) with CMinus. cbn [skip_space].
    specialize (Core true). rewrite Hd in *. cbn [skip_space]. exact Core.
  - cbn [map app]. specialize (Core false). rewrite Hd in *. cbn [skip_space]. exact Core.
Qed.

Lemma blank_ascii ws : forallb blank ws = true -> forallb (fun c => c <? 128)%N ws = true.
Proof.
  intros H. apply forallb_forall. intros c Hc. rewrite forallb_forall in H. specialize (H c Hc). unfold blank in H. lia.
Qed.

Lemma digit_ascii ds : forallb ascii_digit ds = true -> forallb (fun c => c <? 128)%N ds = true.
Proof.
  intros H. apply forallb_forall. intros c Hc. rewrite forallb_forall in H. specialize (H c Hc). unfold ascii_digit in H. lia.
Qed.

Lemma py_int_bytes_ascii b : forallb (fun c => c <? 128)%N b = true -> py_int_bytes b = of_result (py_int b).
Proof.
  intros H. unfold py_int_bytes.
  replace (existsb (fun c => (128 <=? c)%N) b) with false; [reflexivity|].
  symmetry. apply not_true_iff_false. intros Hex. apply existsb_exists in Hex. destruct Hex as (c & Hc & Hb).
  rewrite forallb_forall in H. specialize (H c Hc). lia.
Qed.

(* the rendering of z, padded with blanks, as text and as bytes, reads back as z *)
Lemma int_of_rendering z ws1 ws2 :
  ndig (Z.abs z) <= int_max_str_digits -> forallb blank ws1 = true -> forallb blank ws2 = true ->
  py_int (ws1 ++ render_Z z ++ ws2) = Ok z /\ py_int_bytes (ws1 ++ render_Z z ++ ws2) = ROk z.
Proof.
  intros Hd H1 H2.
  assert (py_int (ws1 ++ render_Z z ++ ws2) = Ok z) as Hint.
  { destruct (Z_lt_le_dec z 0) as [Hneg|Hpos].
    - rewrite render_Z_neg by assumption.
      pose proof (py_int_padded ws1 ws2 (render_nat (- z)) true H1 H2) as P. cbn [app] in P |- *.
      rewrite P.
      + rewrite render_nat_value by lia. f_equal. lia.
      + apply render_nat_nonempty. lia.
      + apply render_nat_digits. lia.
      + replace (Z.abs z) with (- z) in Hd by lia. exact Hd.
    - rewrite render_Z_nonneg by assumption.
      pose proof (py_int_padded ws1 ws2 (render_nat z) false H1 H2) as P. cbn [app] in P.
      rewrite P.
      + now rewrite render_nat_value.
      + now apply render_nat_nonempty.
      + now apply render_nat_digits.
      + replace (Z.abs z) with z in Hd by lia. exact Hd. }
  split; [exact Hint|].
  rewrite py_int_bytes_ascii; [now rewrite Hint|].
  rewrite !forallb_app. rewrite (blank_ascii _ H1), (blank_ascii _ H2). rewrite andb_true_r. cbn [andb].
  destruct (Z_lt_le_dec z 0).
  - rewrite render_Z_neg by assumption. cbn [forallb]. rewrite digit_ascii; [reflexivity|apply render_nat_digits; lia].
  - rewrite render_Z_nonneg by assumption. apply digit_ascii. now apply render_nat_digits.
Qed.

Lemma render_Z_ascii z : forallb (fun c => c <? 128)%N (render_Z z) = true.
Proof.
  destruct (Z_lt_le_dec z 0).
  - rewrite render_Z_neg by assumption. cbn [forallb]. rewrite digit_ascii; [reflexivity|apply render_nat_digits; lia].
  - rewrite render_Z_nonneg by assumption. apply digit_ascii. now apply render_nat_digits.
Qed.
