(* C14, round 7: a rejected call is unobservable.  All statements are about Model/C13.v's [exec] /
   [run_prog] (the functions the correspondence evaluates), for ANY arithmetic. *)
From Coq Require Import List ZArith Bool Lia.
From Orso Require Import Model.C13 Model.C14.
Import ListNotations.

Section Reject.
Context {T : Type}.
Variable A : arith T.

(* whatever the call: if it raises, no histogram of the session has changed *)
Lemma exec_raise_env_unchanged :
  forall (e : @env T) (o : @op T), snd (exec A e o) = BRaise -> fst (exec A e o) = e.
Proof.
  intros e o H. destruct o; cbn [exec] in *; cbn [fst snd] in *;
  repeat match goal with
  | H : context [match ?r with Some _ => _ | None => _ end] |- _ =>
      destruct r eqn:?; cbn [fst snd] in *
  end; try discriminate; reflexivity.
Qed.

Lemma update_rejects_nonpositive :
  forall (s : @st T) v c, (c <= 0)%Z -> update A s v c = None.
Proof.
  intros s v c H. unfold update. destruct (Z.leb c 0) eqn:E; [reflexivity | apply Z.leb_gt in E; lia].
Qed.

Lemma exec_update_nonpositive :
  forall (e : @env T) k v c, (c <= 0)%Z -> exec A e (OUpd k v c) = (e, BRaise).
Proof.
  intros e k v c H. cbn [exec]. destruct (get e k) as [s|]; cbn [bind].
  - rewrite (update_rejects_nonpositive s v c H). reflexivity.
  - reflexivity.
Qed.

Lemma run_prog_rejected_step :
  forall (e : @env T) o p, snd (exec A e o) = BRaise ->
  run_prog A e (o :: p) = BRaise :: run_prog A e p.
Proof.
  intros e o p H. pose proof (exec_raise_env_unchanged e o H) as H2.
  cbn [run_prog]. destruct (exec A e o) as [e' x]. cbn [fst snd] in *. subst. reflexivity.
Qed.

Lemma run_prog_rejected_update :
  forall (e : @env T) k v c p, (c <= 0)%Z ->
  run_prog A e (OUpd k v c :: p) = BRaise :: run_prog A e p.
Proof.
  intros e k v c p H. apply run_prog_rejected_step. rewrite (exec_update_nonpositive e k v c H). reflexivity.
Qed.

(* the observations of the calls that were not rejected are exactly the observations of the history
   with the rejected calls deleted: every answer given after a rejected call is the answer the same
   history without that call gives *)
Lemma run_prog_prune :
  forall (p : list (@op T)) (e : @env T),
  filter (fun x => negb (is_raise x)) (run_prog A e p) = run_prog A e (prune A e p).
Proof.
  induction p as [|o r IH]; intro e; [reflexivity|].
  cbn [run_prog prune]. destruct (exec A e o) as [e' x] eqn:E. cbn [filter].
  destruct (is_raise x) eqn:R; cbn [negb].
  - destruct x; try discriminate R.
    pose proof (exec_raise_env_unchanged e o) as H. rewrite E in H. cbn [fst snd] in H.
    rewrite (H eq_refl) in *. apply IH.
  - cbn [run_prog]. rewrite E. f_equal. apply IH.
Qed.

Lemma prune_no_raise :
  forall (p : list (@op T)) (e : @env T),
  forallb (fun x => negb (is_raise x)) (run_prog A e (prune A e p)) = true.
Proof.
  induction p as [|o r IH]; intro e; [reflexivity|].
  cbn [prune]. destruct (exec A e o) as [e' x] eqn:E.
  destruct (is_raise x) eqn:R.
  - destruct x; try discriminate R.
    pose proof (exec_raise_env_unchanged e o) as H. rewrite E in H. cbn [fst snd] in H.
    rewrite (H eq_refl) in *. apply IH.
  - cbn [run_prog]. rewrite E. cbn [forallb]. rewrite R. cbn [negb andb]. apply IH.
Qed.
End Reject.
