(* List lemmas for the distogram proofs: the positional operations of Model/C13.v in
   "split" form, and strict sortedness over concatenations. *)
From Coq Require Import List ZArith Lia Arith Sorted.
From Orso Require Import Model.C13.
Import ListNotations.

Section L.
Context {A : Type}.

Lemma split_at (l : list A) i x : nth_error l i = Some x ->
  exists l1 l2, l = l1 ++ x :: l2 /\ length l1 = i.
Proof. apply nth_error_split. Qed.

Lemma nth_error_mid (l1 l2 : list A) x : nth_error (l1 ++ x :: l2) (length l1) = Some x.
Proof. induction l1; cbn; auto. Qed.

Lemma nth_error_mid_S (l1 l2 : list A) x y : nth_error (l1 ++ x :: y :: l2) (S (length l1)) = Some y.
Proof. induction l1; cbn; auto. Qed.

Lemma set_at_split (l1 l2 : list A) x y : set_at (length l1) y (l1 ++ x :: l2) = l1 ++ y :: l2.
Proof. induction l1; cbn; [reflexivity|now f_equal]. Qed.

Lemma remove_at_split (l1 l2 : list A) x : remove_at (length l1) (l1 ++ x :: l2) = l1 ++ l2.
Proof. induction l1; cbn; [reflexivity|now f_equal]. Qed.

Lemma remove_at_split_S (l1 l2 : list A) x y : remove_at (S (length l1)) (l1 ++ x :: y :: l2) = l1 ++ x :: l2.
Proof. induction l1; cbn; [reflexivity|now f_equal]. Qed.

Lemma insert_at_split (l1 l2 : list A) x : insert_at (length l1) x (l1 ++ l2) = l1 ++ x :: l2.
Proof. induction l1; cbn; [now destruct l2|now f_equal]. Qed.

Lemma set_at_length (l : list A) i x : length (set_at i x l) = length l.
Proof. revert i; induction l; intros [|i]; cbn; auto. Qed.

Lemma remove_at_length (l : list A) i : i < length l -> length (remove_at i l) = length l - 1.
Proof. revert i; induction l; intros [|i] H; cbn in *; try lia. rewrite IHl by lia. lia. Qed.

Lemma insert_at_length (l : list A) i x : length (insert_at i x l) = S (length l).
Proof. revert i; induction l; intros [|i]; cbn; auto. Qed.

Lemma nth_error_set_at_same (l : list A) i x : i < length l -> nth_error (set_at i x l) i = Some x.
Proof. revert i; induction l; intros [|i] H; cbn in *; try lia; auto. apply IHl; lia. Qed.

Lemma nth_error_set_at_other (l : list A) i j x : i <> j -> nth_error (set_at i x l) j = nth_error l j.
Proof. revert i j; induction l; intros [|i] [|j] H; cbn; auto; try congruence. Qed.

Lemma nth_error_Some_lt (l : list A) i x : nth_error l i = Some x -> i < length l.
Proof. intros H. apply nth_error_Some. congruence. Qed.

Lemma nth_error_lt_Some (l : list A) i : i < length l -> exists x, nth_error l i = Some x.
Proof. intros H. destruct (nth_error l i) eqn:E; eauto. apply nth_error_None in E. lia. Qed.

End L.

(* ---- strict sortedness of bins by centre, for an arbitrary strict order on centres ---- *)
Section S.
Context {T : Type}.
Variable lt : T -> T -> Prop.
Hypothesis lt_trans : forall a b c, lt a b -> lt b c -> lt a c.

Definition blt (a b : T * Z) : Prop := lt (fst a) (fst b).
Definition ssorted (l : list (T * Z)) : Prop := StronglySorted blt l.

Lemma ssorted_app (l1 l2 : list (T * Z)) :
  ssorted (l1 ++ l2) <-> ssorted l1 /\ ssorted l2 /\ (forall a b, In a l1 -> In b l2 -> blt a b).
Proof.
  unfold ssorted. induction l1 as [|x l1 IH]; cbn [app].
  - split; [intros H; repeat split; auto; [constructor|intros ? ? []]|tauto].
  - split.
    + intros H. inversion H as [|? ? Hs Hf]; subst. apply IH in Hs as (S1 & S2 & C).
      rewrite Forall_app in Hf. destruct Hf as [F1 F2]. repeat split; auto.
      * constructor; auto.
      * intros a b [->|Ia] Ib; [rewrite Forall_forall in F2; auto|auto].
    + intros (S1 & S2 & C). inversion S1 as [|? ? Hs Hf]; subst. constructor.
      * apply IH. repeat split; auto. intros; apply C; cbn; auto.
      * rewrite Forall_app; split; auto. rewrite Forall_forall. intros b Ib. apply C; cbn; auto.
Qed.

Lemma ssorted_cons (x : T * Z) l : ssorted (x :: l) <-> ssorted l /\ (forall b, In b l -> blt x b).
Proof.
  unfold ssorted. split.
  - intros H; inversion H; subst. split; auto. now rewrite <- Forall_forall.
  - intros [H1 H2]. constructor; auto. now rewrite Forall_forall.
Qed.

(* replacing / inserting a middle element: it must sit strictly between its neighbours *)
Lemma ssorted_mid (l1 l2 : list (T * Z)) (m : T * Z) :
  ssorted (l1 ++ l2) -> (forall a, In a l1 -> blt a m) -> (forall b, In b l2 -> blt m b) ->
  ssorted (l1 ++ m :: l2).
Proof.
  intros H Ha Hb. apply ssorted_app in H as (S1 & S2 & C).
  apply ssorted_app. repeat split; auto.
  - apply ssorted_cons. split; auto.
  - intros a b Ia [<-|Ib]; auto.
Qed.

Lemma ssorted_drop_mid (l1 l2 : list (T * Z)) (m : T * Z) :
  ssorted (l1 ++ m :: l2) -> ssorted (l1 ++ l2).
Proof.
  intros H. apply ssorted_app in H as (S1 & S2 & C). apply ssorted_cons in S2 as [S2 C2].
  apply ssorted_app. repeat split; auto. intros a b Ia Ib. apply C; cbn; auto.
Qed.

End S.
