(* C10 - lemmas about the model of orso.row.extract_columns (Model/C10.v, Section PyDef): the
   plain-Python definition is the column-major definition, one list per requested column, and the
   compiled collector returns exactly what it returns on the collector's domain. *)
From Coq Require Import List ZArith Bool NArith Lia ZifyBool Arith.
From Orso Require Import Model.C10 Proofs.C10.
Import ListNotations.

Definition to_raise {T : Type} (o : option T) : access T :=
  match o with Some x => Ok x | None => Raise IndexError end.

Lemma mapM_to_raise : forall (T U : Type) (f : T -> option U) (l : list T),
  mapM (fun x => to_raise (f x)) l = to_raise (mapO f l).
Proof.
  intros T U f l. induction l as [|x r IH]; cbn [mapM mapO].
  - reflexivity.
  - destruct (f x) as [y|]; cbn [to_raise bind]; [|reflexivity].
    rewrite IH. destruct (mapO f r) as [ys|]; reflexivity.
Qed.

Lemma mapM_map : forall (T U W : Type) (g : T -> U) (f : U -> access W) (l : list T),
  mapM f (map g l) = mapM (fun x => f (g x)) l.
Proof.
  intros T U W g f l. induction l as [|x r IH]; cbn [map mapM]; [reflexivity|]. rewrite IH. reflexivity.
Qed.

Section PyDefLemmas.
Variable A : Type.
Variable K : Type.
Variable keq : K -> K -> bool.

(* rows[j][cols[i]] as Python evaluates it on tuples, column by column *)
Definition pydef_def (rows : list (list A)) (cols : list Z) : option (list (list A)) :=
  mapO (fun c => mapO (fun l => py_index l c) rows) cols.

Lemma py_item_int : forall (l : list A) (z : Z),
  py_item keq (PTuple l) (int_col z) = to_raise (py_index l z).
Proof. intros l z. cbn [py_item int_col as_index]. destruct (py_index l z); reflexivity. Qed.

Lemma py_rows_loop : forall (cols : list Z) (rws : list (list A)),
  mapM (fun r => mapM (py_item keq r) (map int_col cols)) (map (@PTuple A K) rws)
  = to_raise (mapO (fun l => mapO (py_index l) cols) rws).
Proof.
  intros cols rws. induction rws as [|l r IH]; cbn [map mapM mapO].
  - reflexivity.
  - rewrite mapM_map.
    rewrite (mapM_ext _ _ (fun x => py_item keq (PTuple l) (int_col x)) (fun c => to_raise (py_index l c)))
      by (intros c _; apply py_item_int).
    rewrite mapM_to_raise. destruct (mapO (py_index l) cols) as [p|]; cbn [to_raise bind]; [|reflexivity].
    rewrite IH. destruct (mapO _ r) as [ps|]; reflexivity.
Qed.

(* tuple rows, integer requests: the row-major loop with its per-position output lists IS the
   column-major definition (IndexError where some rows[j][c] does not exist) *)
Lemma extract_columns_tuples : forall (rows : list (list A)) (cols : list Z),
  extract_columns_py keq (map (@PTuple A K) rows) (map int_col cols) = to_raise (pydef_def rows cols).
Proof.
  intros rows cols. unfold extract_columns_py, pydef_def. rewrite py_rows_loop. rewrite map_length.
  rewrite <- (transpose_def A Z (fun l c => py_index l c) cols rows).
  destruct (mapO _ rows) as [ps|]; reflexivity.
Qed.

Lemma py_index_nonneg : forall (l : list A) (c : Z), (0 <= c)%Z -> py_index l c = get_def l c.
Proof.
  intros l c Hc. unfold py_index, get_def.
  destruct (c <? 0)%Z eqn:H0; [lia|].
  destruct ((c <? - Z.of_nat (length l)) || (Z.of_nat (length l) <=? c))%Z eqn:H1; [|reflexivity].
  symmetry. apply nth_error_None. lia.
Qed.

(* Python's wrap-around: a negative position -n <= c < 0 is position c + n *)
Lemma py_index_negative : forall (l : list A) (c : Z),
  (- Z.of_nat (length l) <= c < 0)%Z -> py_index l c = py_index l (c + Z.of_nat (length l)).
Proof.
  intros l c Hc. unfold py_index.
  destruct (c <? 0)%Z eqn:H0; [|lia].
  destruct (c + Z.of_nat (length l) <? 0)%Z eqn:H2; [lia|].
  destruct ((c <? - Z.of_nat (length l)) || (Z.of_nat (length l) <=? c))%Z eqn:H1; [lia|].
  destruct ((c + Z.of_nat (length l) <? - Z.of_nat (length l)) || (Z.of_nat (length l) <=? c + Z.of_nat (length l)))%Z eqn:H3; [lia|].
  reflexivity.
Qed.

Lemma pydef_def_nonneg : forall (rows : list (list A)) (cols : list Z),
  (forall c, In c cols -> (0 <= c)%Z) -> pydef_def rows cols = collect_def rows cols (length rows).
Proof.
  intros rows cols H. unfold pydef_def, collect_def. rewrite firstn_all.
  apply mapO_ext. intros c Hc. apply mapO_ext. intros l _. apply py_index_nonneg. apply H. exact Hc.
Qed.

(* non-negative requests: the plain-Python function is the definition collect_def over all rows *)
Lemma extract_columns_is_def : forall (rows : list (list A)) (cols : list Z),
  (forall c, In c cols -> (0 <= c)%Z) ->
  extract_columns_py keq (map (@PTuple A K) rows) (map int_col cols)
  = to_raise (collect_def rows cols (length rows)).
Proof.
  intros rows cols H. rewrite extract_columns_tuples. rewrite (pydef_def_nonneg rows cols H). reflexivity.
Qed.

(* "the compiled helper returns exactly what its plain-Python definition returns": rectangular rows,
   every index in 0..width-1, no limit *)
Lemma compiled_equals_pydef : forall (w : nat) (rows : list (list A)) (cols : list Z),
  rectangular A w rows -> rows <> [] -> (forall c, In c cols -> (0 <= c < Z.of_nat w)%Z) ->
  exists res, collect (map RTuple rows) cols (-1)%Z = Ok res /\
              extract_columns_py keq (map (@PTuple A K) rows) (map int_col cols) = Ok res /\
              length res = length cols.
Proof.
  intros w rows cols Hr Hne Hc.
  destruct (collect_correct A w rows cols (-1)%Z Hr) as [_ H2].
  destruct (H2 Hne) as [H3 _]. destruct (H3 Hc) as [res [Hres Hdef]].
  assert (He : eff_limit (-1) (length rows) = length rows) by reflexivity.
  rewrite He in Hdef. exists res. split; [exact Hres|]. split.
  - rewrite extract_columns_is_def; [rewrite Hdef; reflexivity|].
    intros c Hin. specialize (Hc c Hin). lia.
  - destruct (collect_def_pointwise A rows cols (length rows) res Hdef) as [Hl _]. exact Hl.
Qed.

(* one output list per requested column - repeats included - whenever the call returns *)
Lemma extract_columns_length : forall (rows : list (list A)) (cols : list Z) (res : list (list A)),
  extract_columns_py keq (map (@PTuple A K) rows) (map int_col cols) = Ok res ->
  length res = length cols /\
  forall i c, nth_error cols i = Some c ->
    exists col, nth_error res i = Some col /\ mapO (fun l => py_index l c) rows = Some col.
Proof.
  intros rows cols res H. rewrite extract_columns_tuples in H. unfold pydef_def in H.
  destruct (mapO (fun c => mapO (fun l => py_index l c) rows) cols) as [r|] eqn:E; [|discriminate H].
  cbn [to_raise] in H. injection H as <-. split.
  - apply (mapO_some_length _ _ _ _ _ E).
  - intros i c Hi. destruct (mapO_nth _ _ _ _ _ i c E Hi) as [col [Hcol Hc]].
    exists col. split; [exact Hcol|exact Hc].
Qed.

End PyDefLemmas.

(* ---------- the markdown renderer's plain-Python width = the compiled helper's running maximum ---------- *)
Lemma fold_max_acc : forall (l : list Z) (m a : Z),
  fold_right Z.max (Z.max m a) l = Z.max a (fold_right Z.max m l).
Proof. induction l as [|x r IH]; intros m a; cbn [fold_right]; [lia|]. rewrite IH. lia. Qed.

Lemma width_loop_fold : forall (vals : list (option (list N))) (m : Z),
  width_loop vals m = fold_right Z.max m (nonnull_lengths vals).
Proof.
  induction vals as [|[s|] r IH]; intros m; cbn [width_loop nonnull_lengths fold_right].
  - reflexivity.
  - rewrite IH.
    replace (if (Z.of_nat (length s) >? m)%Z then Z.of_nat (length s) else m) with (Z.max m (Z.of_nat (length s))).
    + apply fold_max_acc.
    + destruct (Z.of_nat (length s) >? m)%Z eqn:H; lia.
  - apply IH.
Qed.

Lemma md_width_agrees : forall (vals : list (option (list N))), md_data_width vals = data_width vals.
Proof. intros vals. unfold md_data_width, data_width. symmetry. apply width_loop_fold. Qed.
