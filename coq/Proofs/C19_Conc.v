(* C19 - lemmas about the interleaving semantics (single_item_cache current and pre-fix wrapper,
   lru_cache_with_expiry). *)
From Coq Require Import List ZArith NArith Bool Lia.
From Orso Require Import Model.C19.
Import ListNotations.


Section Conc.
Variables A K R : Type.
Variable key : A -> K.
Variable keqb : K -> K -> bool.
Variable f : A -> N -> R.
Variable valid : option Z.
Hypothesis keqb_spec : forall x y, keqb x y = true <-> x = y.

Notation thread := (@thread A R).
Notation cstate := (@cstate A R).
Notation sic_st := (@sic_st A R).

(* r is the value of the n-th invocation, made for a' when the clock showed tc *)
Definition produced (log : list (A * Z)) (a' : A) (r : R) (tc : Z) : Prop :=
  exists n, nth_error log n = Some (a', tc) /\ r = f a' (N.of_nat n).

Lemma produced_mono log x a' r tc : produced log a' r tc -> produced (log ++ [x]) a' r tc.
Proof.
  intros (n & Hn & Hr). exists n. split; auto. rewrite nth_error_app1; auto.
  apply nth_error_Some. congruence.
Qed.

Lemma fresh_mono now ts tc : (ts <= tc)%Z -> fresh valid now ts = true -> fresh valid now tc = true.
Proof. unfold fresh. destruct valid; auto. intros H1 H2. apply Z.leb_le in H2. apply Z.leb_le. lia. Qed.

Definition entry_ok (log : list (A * Z)) (e : option (A * R * Z)) : Prop :=
  match e with
  | Some (a', r, ts) => exists tc, produced log a' r tc /\ (ts <= tc)%Z
  | None => True
  end.

Definition thread_ok (clock : Z) (log : list (A * Z)) (t : thread) : Prop :=
  let a := t_arg t in
  match t_pc t with
  | PTime => True
  | PRead now => (now <= clock)%Z
  | PCmp now e => (now <= clock)%Z /\ entry_ok log e
  | PRetHit now ts r => exists a' tc, produced log a' r tc /\ key a' = key a /\ fresh valid now tc = true
  | PCall now => (now <= clock)%Z
  | PWrite now r => exists tc, produced log a r tc /\ (now <= tc)%Z
  | PRetMiss now r => exists tc, produced log a r tc
  | PDone now hit r =>
      exists a' tc, produced log a' r tc /\ key a' = key a /\
        match hit with Some _ => fresh valid now tc = true | None => a' = a end
  end.

Definition cinv (st : cstate) : Prop :=
  s_calls (c_sh st) = N.of_nat (length (c_log st)) /\
  entry_ok (c_log st) (s_entry (c_sh st)) /\
  Forall (thread_ok (s_now (c_sh st)) (c_log st)) (c_thr st).

Lemma entry_ok_mono log x e : entry_ok log e -> entry_ok (log ++ [x]) e.
Proof. destruct e as [[[a' r] ts]|]; cbn; auto. intros (tc & H & Hle). exists tc. split; auto using produced_mono. Qed.

Lemma thread_ok_mono clock clock' log x t :
  (clock <= clock')%Z -> thread_ok clock log t -> thread_ok clock' (log ++ [x]) t.
Proof.
  intros Hc. unfold thread_ok. destruct (t_pc t) as [|now|now e|now ts r|now|now r|now r|now hit r]; auto.
  - lia.
  - intros [H1 H2]. split; [lia|apply entry_ok_mono; auto].
  - intros (a' & tc & H1 & H2). exists a', tc. split; auto using produced_mono.
  - lia.
  - intros (tc & H1 & H2). exists tc. split; auto using produced_mono.
  - intros (tc & H1). exists tc. auto using produced_mono.
  - intros (a' & tc & H1 & H2). exists a', tc. split; auto using produced_mono.
Qed.

Lemma thread_ok_clock clock clock' log t :
  (clock <= clock')%Z -> thread_ok clock log t -> thread_ok clock' log t.
Proof.
  intros Hc. unfold thread_ok. destruct (t_pc t) as [|now|now e|now ts r|now|now r|now r|now hit r]; auto; try lia.
  intros [H1 H2]. split; [lia|auto].
Qed.

Lemma Forall_upd {X} (P : X -> Prop) l i x : Forall P l -> P x -> Forall P (upd l i x).
Proof.
  revert i; induction l as [|h t IH]; intros [|j] Hl Hx; cbn; auto; inversion Hl; subst; constructor; auto.
Qed.

(* one step of one thread keeps the invariant of the shared state and of that thread, and does not
   invalidate what the other threads know *)
Lemma tstep_inv sh log t :
  s_calls sh = N.of_nat (length log) -> entry_ok log (s_entry sh) -> thread_ok (s_now sh) log t ->
  let '(sh', log', t') := tstep key keqb f valid sh log t in
  s_calls sh' = N.of_nat (length log') /\ entry_ok log' (s_entry sh') /\ thread_ok (s_now sh') log' t' /\
  s_now sh' = s_now sh /\ (log' = log \/ exists x, log' = log ++ [x]).
Proof.
  intros Hc He Ht. destruct t as [a p]. unfold tstep, thread_ok in *. cbn [t_arg t_pc] in *.
  destruct p as [|now|now e|now ts r|now|now r|now r|now hit r]; cbn [t_arg t_pc s_calls s_entry s_now].
  - repeat split; auto. lia.
  - repeat split; auto; tauto.
  - destruct e as [[[la lr] lt]|].
    + destruct (keqb (key la) (key a) && fresh valid now lt) eqn:Ec; cbn [t_arg t_pc].
      * apply andb_prop in Ec as [Ek Ef]. apply keqb_spec in Ek. destruct Ht as [Hn (tc & Hp & Hle)].
        repeat split; auto. exists la, tc. repeat split; auto. eapply fresh_mono; eauto.
      * repeat split; auto; tauto.
    + cbn [t_arg t_pc]. repeat split; auto; tauto.
  - destruct Ht as (a' & tc & H1 & H2 & H3). repeat split; auto. exists a', tc. auto.
  - (* the call: a new invocation is logged *)
    rewrite app_length. cbn [length]. split; [rewrite Hc; lia|]. split; [apply entry_ok_mono; auto|].
    split; [|split; [auto|right; eauto]].
    exists (s_now sh). split; [|lia]. exists (length log). split.
    + rewrite nth_error_app2, Nat.sub_diag; auto.
    + rewrite Hc. reflexivity.
  - destruct Ht as (tc & Hp & Hle). repeat split; auto.
    + exists tc. auto.
    + exists tc. auto.
  - destruct Ht as (tc & Hp). repeat split; auto. exists a, tc. auto.
  - repeat split; auto.
Qed.

Lemma cstep_inv st e : cinv st -> cinv (cstep key keqb f valid st e).
Proof.
  intros (Hc & He & Ht). destruct e as [i|d]; cbn [cstep].
  - destruct (nth_error (c_thr st) i) as [t|] eqn:En; [|repeat split; auto].
    assert (Hti : thread_ok (s_now (c_sh st)) (c_log st) t).
    { rewrite Forall_forall in Ht. apply Ht. eapply nth_error_In; eauto. }
    pose proof (tstep_inv (c_sh st) (c_log st) t Hc He Hti) as H.
    destruct (tstep key keqb f valid (c_sh st) (c_log st) t) as [[sh' log'] t'].
    destruct H as (H1 & H2 & H3 & H4 & H5). unfold cinv. cbn [c_sh c_thr c_log].
    split; auto. split; auto. apply Forall_upd; auto.
    rewrite H4. destruct H5 as [->|[x ->]]; auto.
    eapply Forall_impl; [|exact Ht]. intros u. apply thread_ok_mono. lia.
  - unfold cinv, sic_tick. cbn [c_sh c_thr c_log s_calls s_entry s_now]. repeat split; auto.
    eapply Forall_impl; [|exact Ht]. intros u. apply thread_ok_clock. lia.
Qed.

Theorem crun_inv sch : forall st, cinv st -> cinv (crun key keqb f valid sch st).
Proof. induction sch as [|e sch IH]; cbn; intros st H; auto. apply IH. apply cstep_inv. exact H. Qed.

Lemma cinv_init t0 args : cinv (mkC (sic_init t0) (map (fun a => mkT a PTime) args) []).
Proof.
  repeat split; cbn; auto. apply Forall_forall. intros t Ht. apply in_map_iff in Ht as (a & <- & _). exact I.
Qed.

(* any number of threads, any schedule, any clock advances: a call that has returned holds a value
   that f produced (invocation number n, at clock tc) for arguments equal to the caller's own; served
   from the cache only if that invocation is within the validity period of the caller's clock reading *)
Theorem returns_own t0 args sch :
  let st := crun key keqb f valid sch (mkC (sic_init t0) (map (fun a => mkT a PTime) args) []) in
  forall t now hit r, In t (c_thr st) -> t_pc t = PDone now hit r ->
    exists a' n tc, nth_error (c_log st) n = Some (a', tc) /\ r = f a' (N.of_nat n) /\
      key a' = key (t_arg t) /\
      match hit with Some _ => fresh valid now tc = true | None => a' = t_arg t end.
Proof.
  intros st t now hit r Hin Hpc.
  destruct (crun_inv sch _ (cinv_init t0 args)) as (_ & _ & Hf). fold st in Hf.
  rewrite Forall_forall in Hf. specialize (Hf t Hin). unfold thread_ok in Hf. rewrite Hpc in Hf.
  destruct Hf as (a' & tc & (n & Hn & Hr) & Hk & Hh). exists a', n, tc. auto.
Qed.

(* the sequential model is the concurrent one with a single caller at a time *)
Theorem alone_is_sequential sh log a :
  let st := crun key keqb f valid (repeat (SStep 0) 7) (mkC sh [mkT a PTime] log) in
  c_sh st = fst (sic_call key keqb f valid sh a) /\
  map returned (c_thr st) = [Some (o_res (snd (sic_call key keqb f valid sh a)))].
Proof.
  destruct sh as [e now calls]. unfold sic_call. cbn [s_entry s_now s_calls].
  destruct e as [[[la lr] lt]|].
  - cbn. destruct (keqb (key la) (key a) && fresh valid now lt) eqn:Ec; cbn; rewrite ?Ec; cbn; auto.
  - cbn. auto.
Qed.

End Conc.

(* ---- the four-slot wrapper of F-C19-1 ---- *)
Definition old_f (p w n : N) : N * N * N := (p, w, n).

Theorem old_wrapper_refuted :
  exists (valid : option Z) (t0 : Z) (calls : list (N * N)) (sch : list sched),
    exists t r, In t (snd (ocrun N.eqb N.eqb old_f valid sch (old_init t0 calls))) /\
                oreturned t = Some (Some r) /\
                forall n, r <> old_f (ot_p t) (ot_w t) n.
Proof.
  exists None, 1000%Z, [(7, 0); (3, 0); (3, 0)]%N,
    (repeat (SStep 0) 8 ++ repeat (SStep 1) 4 ++ repeat (SStep 2) 5).
  exists (mkOT 3%N 0%N (ODone (Some (7, 0, 0)%N))), (7, 0, 0)%N.
  split; [vm_compute; auto|]. split; [reflexivity|]. intros n. unfold old_f. cbn. congruence.
Qed.


Section LruConcProofs.
Variables A K R : Type.
Variable key : A -> K.
Variable keqb : K -> K -> bool.
Variable f : A -> N -> R.
Variable valid : option Z.
Variable mx : nat.
Hypothesis keqb_spec : forall x y, keqb x y = true <-> x = y.

Notation item := (K * (Z * R))%type.
Notation lsh := (@lsh A K R).
Notation lthread := (@lthread A K R).

(* r is the value of a logged invocation made for arguments with key k, when the clock showed at
   least ts *)
Definition lprod (log : list (A * Z)) (k : K) (r : R) (ts : Z) : Prop :=
  exists a' n tc, nth_error log n = Some (a', tc) /\ key a' = k /\ r = f a' (N.of_nat n) /\ (ts <= tc)%Z.
(* ... and that invocation is within the validity period of the clock value [now] *)
Definition lhit (log : list (A * Z)) (k : K) (r : R) (now : Z) : Prop :=
  exists a' n tc, nth_error log n = Some (a', tc) /\ key a' = k /\ r = f a' (N.of_nat n) /\ fresh valid now tc = true.
(* r is the value of a logged invocation made for exactly a, not before [now] *)
Definition lown (log : list (A * Z)) (a : A) (r : R) (now : Z) : Prop :=
  exists n tc, nth_error log n = Some (a, tc) /\ r = f a (N.of_nat n) /\ (now <= tc)%Z.

Lemma nth_snoc_mono {X} (log : list X) x n v : nth_error log n = Some v -> nth_error (log ++ [x]) n = Some v.
Proof. intros H. rewrite nth_error_app1; auto. apply nth_error_Some. congruence. Qed.

Lemma lprod_mono log x k r ts : lprod log k r ts -> lprod (log ++ [x]) k r ts.
Proof. intros (a' & n & tc & H & H'). exists a', n, tc. split; auto using nth_snoc_mono. Qed.
Lemma lhit_mono log x k r now : lhit log k r now -> lhit (log ++ [x]) k r now.
Proof. intros (a' & n & tc & H & H'). exists a', n, tc. split; auto using nth_snoc_mono. Qed.
Lemma lown_mono log x a r now : lown log a r now -> lown (log ++ [x]) a r now.
Proof. intros (n & tc & H & H'). exists n, tc. split; auto using nth_snoc_mono. Qed.

Lemma fresh_mono' now ts tc : (ts <= tc)%Z -> fresh valid now ts = true -> fresh valid now tc = true.
Proof. unfold fresh. destruct valid; auto. intros H1 H2. apply Z.leb_le in H2. apply Z.leb_le. lia. Qed.

Definition litem_ok (log : list (A * Z)) (e : item) : Prop := lprod log (fst e) (snd (snd e)) (fst (snd e)).

Definition lthread_ok (clock : Z) (log : list (A * Z)) (t : lthread) : Prop :=
  let a := lt_arg t in
  let k := key a in
  match lt_pc t with
  | LTime => True
  | LKey now | LIterNew now | LIter now _ _ _ | LDel now _ | LGetE now | LCall now => (now <= clock)%Z
  | LCond now e => (now <= clock)%Z /\ match e with Some (ts, r) => lprod log k r ts | None => True end
  | LMove now r | LRetHit now r => lhit log k r now
  | LPopK now r | LStore now r | LLen now r | LPop now r | LRet now r => lown log a r now
  | LDone now hit (Some r) => if hit then lhit log k r now else lown log a r now
  | LDone _ _ None => True
  end.

Definition linv (st : lsh * list lthread) : Prop :=
  ls_calls (fst st) = N.of_nat (length (ls_log (fst st))) /\
  Forall (litem_ok (ls_log (fst st))) (ls_items (fst st)) /\
  Forall (lthread_ok (ls_now (fst st)) (ls_log (fst st))) (snd st).

Lemma lthread_ok_mono clock clock' log x t :
  (clock <= clock')%Z -> lthread_ok clock log t -> lthread_ok clock' (log ++ [x]) t.
Proof.
  intros Hc. unfold lthread_ok.
  destruct (lt_pc t) as [|now|now|now ver pos acc|now ks|now|now e|now r|now r|now|now r|now r|now r|now r|now r|now hit [r|]];
    auto using lhit_mono, lown_mono; try lia.
  - intros [H1 H2]. split; [lia|]. destruct e as [[ts r]|]; auto using lprod_mono.
  - destruct hit; auto using lhit_mono, lown_mono.
Qed.

Lemma lthread_ok_clock clock clock' log t :
  (clock <= clock')%Z -> lthread_ok clock log t -> lthread_ok clock' log t.
Proof.
  intros Hc. unfold lthread_ok.
  destruct (lt_pc t) as [|now|now|now ver pos acc|now ks|now|now e|now r|now r|now|now r|now r|now r|now r|now r|now hit [r|]];
    auto; try lia.
  intros [H1 H2]. split; [lia|auto].
Qed.

Lemma Forall_filter' {X} (P : X -> Prop) g l : Forall P l -> Forall P (filter g l).
Proof. intros H. apply Forall_forall. intros x Hx. apply filter_In in Hx as [Hx _]. rewrite Forall_forall in H. auto. Qed.

Lemma Forall_upd' {X} (P : X -> Prop) l i x : Forall P l -> P x -> Forall P (upd l i x).
Proof.
  revert i; induction l as [|h t IH]; intros [|j] Hl Hx; cbn; auto; inversion Hl; subst; constructor; auto.
Qed.

Lemma find_ok log k (it : list item) e :
  Forall (litem_ok log) it -> find (fun e => keqb (fst e) k) it = Some e -> litem_ok log e /\ fst e = k.
Proof.
  intros Hf He. apply find_some in He as [Hin Hk]. apply keqb_spec in Hk. rewrite Forall_forall in Hf. auto.
Qed.

Lemma set_item_ok log k v (it : list item) :
  Forall (litem_ok log) it -> lprod log k (snd v) (fst v) -> Forall (litem_ok log) (set_item keqb k v it).
Proof.
  intros Hf Hv. unfold set_item. destruct (has_key keqb k it).
  - apply Forall_forall. intros x Hx. apply in_map_iff in Hx as (y & Ey & Hy).
    rewrite Forall_forall in Hf. specialize (Hf y Hy).
    destruct (keqb (fst y) k) eqn:Ek; subst x; auto.
    apply keqb_spec in Ek. unfold litem_ok. cbn. rewrite Ek. exact Hv.
  - apply Forall_app. split; auto.
Qed.

Lemma ltstep_inv sh t :
  ls_calls sh = N.of_nat (length (ls_log sh)) ->
  Forall (litem_ok (ls_log sh)) (ls_items sh) -> lthread_ok (ls_now sh) (ls_log sh) t ->
  let '(sh', t') := ltstep key keqb f mx valid sh t in
  ls_calls sh' = N.of_nat (length (ls_log sh')) /\
  Forall (litem_ok (ls_log sh')) (ls_items sh') /\ lthread_ok (ls_now sh') (ls_log sh') t' /\
  ls_now sh' = ls_now sh /\ (ls_log sh' = ls_log sh \/ exists x, ls_log sh' = ls_log sh ++ [x]).
Proof.
  intros Hc Hi Ht. destruct t as [a p]. unfold ltstep, lthread_ok in *. cbn [lt_arg lt_pc] in *.
  destruct p as [|now|now|now ver pos acc|now ks|now|now e|now r|now r|now|now r|now r|now r|now r|now r|now hit res];
    cbn [lt_arg lt_pc].
  - repeat split; auto; lia.
  - repeat split; auto.
  - repeat split; auto.
  - destruct (negb (N.eqb ver (ls_ver sh))); [repeat split; auto|].
    destruct (nth_error (ls_items sh) pos); repeat split; auto.
  - destruct ks as [|k' rest]; [repeat split; auto|].
    destruct (has_key keqb k' (ls_items sh)); cbn [bump ls_items ls_calls ls_log ls_now lt_pc lt_arg]; repeat split; auto.
    apply Forall_filter'. exact Hi.
  - (* entry = cache.get(key) *)
    repeat split; auto.
    destruct (find (fun e : item => keqb (fst e) (key a)) (ls_items sh)) as [e|] eqn:Ef; cbn [option_map]; auto.
    destruct (find_ok _ _ _ _ Hi Ef) as [H1 H2]. unfold litem_ok in H1. rewrite H2 in H1.
    destruct e as [k0 [ts r]]. exact H1.
  - (* the condition: the entry's own timestamp is compared with the caller's clock reading *)
    destruct Ht as [Hn He]. destruct e as [[ts r]|]; [|repeat split; auto].
    destruct (fresh valid now ts) eqn:Efr; cbn [lt_pc lt_arg]; repeat split; auto.
    destruct He as (a' & n & tc & H1 & H2 & H3 & H4). exists a', n, tc. repeat split; auto.
    eapply fresh_mono'; eauto.
  - destruct (find _ (ls_items sh)) as [e|] eqn:Ef; cbn [bump ls_items ls_calls ls_log ls_now lt_pc lt_arg]; repeat split; auto.
    apply Forall_app. split; [apply Forall_filter'; exact Hi|]. constructor; auto.
    eapply find_ok; eauto.
  - repeat split; auto.
  - (* the call: a new invocation is logged *)
    cbn [ls_items ls_calls ls_log ls_now]. rewrite app_length. cbn [length].
    split; [rewrite Hc; lia|]. split.
    { eapply Forall_impl; [|exact Hi]. intros e. apply lprod_mono. }
    split; [|split; [auto|right; eauto]].
    exists (length (ls_log sh)), (ls_now sh). split; [rewrite nth_error_app2, Nat.sub_diag; auto|].
    split; [rewrite Hc; reflexivity|lia].
  - (* cache.pop(key, None) *)
    destruct (has_key keqb (key a) (ls_items sh)); cbn [bump ls_items ls_calls ls_log ls_now lt_pc lt_arg]; repeat split; auto.
    apply Forall_filter'. exact Hi.
  - cbn [bump ls_items ls_calls ls_log ls_now]. split; auto. split; [|split; [|split; auto]].
    + apply set_item_ok; auto. destruct Ht as (n & tc & H1 & H2 & H3). exists a, n, tc. cbn. auto.
    + exact Ht.
  - destruct (Nat.ltb mx (length (ls_items sh))); repeat split; auto.
  - destruct (ls_items sh) as [|x rest] eqn:El; cbn [bump ls_items ls_calls ls_log ls_now lt_pc lt_arg]; repeat split; auto.
    + rewrite El. constructor.
    + inversion Hi; auto.
  - repeat split; auto.
  - repeat split; auto.
Qed.

Lemma lcstep_inv st e : linv st -> linv (lcstep key keqb f mx valid st e).
Proof.
  intros (Hc & Hi & Ht). destruct e as [i|d]; cbn [lcstep].
  - destruct (nth_error (snd st) i) as [t|] eqn:En; [|repeat split; auto].
    assert (Hti : lthread_ok (ls_now (fst st)) (ls_log (fst st)) t).
    { rewrite Forall_forall in Ht. apply Ht. eapply nth_error_In; eauto. }
    pose proof (ltstep_inv (fst st) t Hc Hi Hti) as H.
    destruct (ltstep key keqb f mx valid (fst st) t) as [sh' t']. destruct H as (H1 & H2 & H3 & H4 & H5).
    unfold linv. cbn [fst snd]. split; auto. split; auto. apply Forall_upd'; auto.
    rewrite H4. destruct H5 as [->|[x ->]]; auto.
    eapply Forall_impl; [|exact Ht]. intros u. apply lthread_ok_mono. lia.
  - unfold linv. cbn [fst snd ls_items ls_calls ls_log ls_now]. repeat split; auto.
    eapply Forall_impl; [|exact Ht]. intros u. apply lthread_ok_clock. lia.
Qed.

Theorem lcrun_inv sch : forall st, linv st -> linv (lcrun key keqb f mx valid sch st).
Proof. induction sch as [|e sch IH]; cbn; intros st H; auto. apply IH. apply lcstep_inv. exact H. Qed.

(* every value returned (not raised) under any schedule is the value of a logged invocation of f for
   arguments with the caller's own key; when it was served from the cache that invocation ran within
   the validity period of the clock value the caller read, otherwise it is the caller's own invocation *)
Theorem lru_returns_own_fresh t0 args sch :
  let st := lcrun key keqb f mx valid sch (mkLS [] 0 t0 0 [], map (fun a => mkLT a LTime) args) in
  forall t now hit r, In t (snd st) -> lt_pc t = LDone now hit (Some r) ->
    exists a' n tc, nth_error (ls_log (fst st)) n = Some (a', tc) /\ r = f a' (N.of_nat n) /\
      key a' = key (lt_arg t) /\
      if hit then fresh valid now tc = true else a' = lt_arg t.
Proof.
  intros st t now hit r Hin Hpc.
  assert (H0 : linv (mkLS [] 0 t0 0 [], map (fun a => mkLT a (@LTime K R)) args)).
  { repeat split; cbn; auto. apply Forall_forall. intros u Hu. apply in_map_iff in Hu as (a & <- & _). exact I. }
  destruct (lcrun_inv sch _ H0) as (_ & _ & Hf). fold st in Hf. rewrite Forall_forall in Hf.
  specialize (Hf t Hin). unfold lthread_ok in Hf. rewrite Hpc in Hf. destruct hit.
  - destruct Hf as (a' & n & tc & H1 & H2 & H3 & H4). exists a', n, tc. auto.
  - destruct Hf as (n & tc & H1 & H2 & H3). exists (lt_arg t), n, tc. auto.
Qed.

End LruConcProofs.

(* ---- finding F-C19-2 (fixed by 76447ff), about the OLD step list: under interleaving the LRU
   wrapper could serve a value older than the validity period (the hit path trusted the sweep it
   made earlier and did not look at the timestamp of the entry it returned) ---- *)
Definition lru2_init : @LruOld.lsh carg ckey cres * list (@LruOld.lthread carg ckey cres) :=
  (LruOld.mkLS [] 0 1000 0 [], [LruOld.mkLT ([1%Z], []) LruOld.LTime; LruOld.mkLT ([1%Z], []) LruOld.LTime]).
Definition lru2_sched : list sched :=
  repeat (SStep 0) 7 ++ [STick 6] ++ repeat (SStep 1) 5 ++ [SStep 0] ++ repeat (SStep 1) 2.

Theorem lru_old_interleaving_stale :
  let st := LruOld.lcrun ckey_of ckeqb cf 2 (Some 5%Z) lru2_sched lru2_init in
  let st' := LruOld.lcstep ckey_of ckeqb cf 2 (Some 5%Z) st (SStep 1) in
  exists t now t' r a' tc,
    nth_error (snd st) 1 = Some t /\ LruOld.lt_pc t = LruOld.LGet now /\
    nth_error (snd st') 1 = Some t' /\ LruOld.lreturned t' = Some r /\
    nth_error (LruOld.ls_log (fst st')) 0 = Some (a', tc) /\ r = cf a' 0 /\
    fresh (Some 5%Z) now tc = false.
Proof.
  cbv zeta. eexists _, _, _, _, _, _.
  repeat split; vm_compute; reflexivity.
Qed.

(* the same schedule on the current step list: the second caller recomputes *)
Definition lru3_init : @lsh carg ckey cres * list (@lthread carg ckey cres) :=
  (mkLS [] 0 1000 0 [], [mkLT ([1%Z], []) LTime; mkLT ([1%Z], []) LTime]).
