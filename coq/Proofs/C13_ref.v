(* C13 - reference equivalence.  The reference streaming algorithm: add to a bin with an equal
   centre, else insert the new bin in order; while over capacity merge the FIRST closest
   adjacent pair (weighted centroid, clamped between the two centres).  For any arithmetic
   whose addition commutes: whenever update() succeeds on a valid histogram with an exact gap
   cache, its bins are those of the reference - provided that, when the in-place shortcut's
   two candidate gaps tie, ... (the property's "closest pair is unique" premise). *)
From Coq Require Import QArith Lqa ZArith List Bool Lia Sorted Arith.
From Orso Require Import Model.C13 Model.C13_Q Proofs.C13_lists Proofs.C13 Proofs.C13_hist Proofs.C13_cache.
Import ListNotations.
Open Scope Q_scope.

(* ---------- the reference, for any arithmetic ---------- *)
Section Ref.
Context {T : Type}.
Variable A : arith T.
Local Notation bin := (T * Z)%type.

Fixpoint ref_hit (b : list bin) (v : T) (c : Z) : option (list bin) :=
  match b with
  | [] => None
  | (x, f) :: t => if eqb A x v then Some ((x, (f + c)%Z) :: t)
                   else option_map (cons (x, f)) (ref_hit t v c)
  end.
Fixpoint ref_ins (b : list bin) (v : T) (c : Z) : list bin :=
  match b with
  | [] => [(v, c)]
  | (x, f) :: t => if ltb A x v then (x, f) :: ref_ins t v c else (v, c) :: (x, f) :: t
  end.
Definition ref_insert (b : list bin) (v : T) (c : Z) : list bin :=
  match ref_hit b v c with Some b' => b' | None => ref_ins b v c end.

(* merge the first closest adjacent pair *)
Definition ref_merge (b : list bin) : option (list bin) :=
  do i <- argmin A (gaps A b);
  do '(v1, f1) <- nth_error b i;
  do '(v2, f2) <- nth_error b (S i);
  Some (set_at i (pmin A (pmax A (centroid A v1 f1 v2 f2) v1) v2, (f1 + f2)%Z) (remove_at (S i) b)).

Fixpoint ref_trim (fuel cap : nat) (b : list bin) : option (list bin) :=
  if Nat.leb (length b) cap then Some b
  else match fuel with O => None | S k => do b' <- ref_merge b; ref_trim k cap b' end.

Definition ref_update (cap : nat) (b : list bin) (v : T) (c : Z) : option (list bin) :=
  let b1 := ref_insert b v c in ref_trim (length b1) cap b1.

(* a whole history on the reference *)
Fixpoint ref_feed (cap : nat) (b : list bin) (l : list bin) : option (list bin) :=
  match l with [] => Some b | (v, c) :: t => do b' <- ref_update cap b v c; ref_feed cap b' t end.
End Ref.

Section RefProofs.
Variables (fadd fsub fmul fdiv : Q -> Q -> Q) (fofZ : Z -> Q) (ftrunc : Q -> Z).
Notation A := (AA fadd fsub fmul fdiv fofZ ftrunc).
Notation st := (@st Q).
Notation bin := (Q * Z)%type.
Notation cache_exact := (cache_exact fadd fsub fmul fdiv fofZ ftrunc).

(* ---------- "first minimal index" ---------- *)
Definition first_min (l : list Q) (i : nat) : Prop :=
  exists m, nth_error l i = Some m /\ (forall j x, nth_error l j = Some x -> m <= x) /\
            (forall j x, (j < i)%nat -> nth_error l j = Some x -> m < x).

Lemma first_min_unique l i i' : first_min l i -> first_min l i' -> i = i'.
Proof.
  intros (m & Hm & L & F) (m' & Hm' & L' & F').
  destruct (Nat.lt_trichotomy i i') as [H|[H|H]]; [|exact H|].
  - pose proof (F' i m H Hm). pose proof (L i' m' Hm'). lra.
  - pose proof (F i' m' H Hm'). pose proof (L' i m Hm). lra.
Qed.

Lemma argmin_from_spec l : forall pre bi bm,
  nth_error pre bi = Some bm -> (forall j x, nth_error pre j = Some x -> bm <= x) ->
  (forall j x, (j < bi)%nat -> nth_error pre j = Some x -> bm < x) ->
  first_min (pre ++ l) (argmin_from A bi bm (length pre) l).
Proof.
  induction l as [|x t IH]; intros pre bi bm Hb L F; cbn [argmin_from].
  - rewrite app_nil_r. exists bm. auto.
  - assert (Hbi : (bi < length pre)%nat) by (eapply nth_error_Some_lt; eauto).
    replace (pre ++ x :: t) with ((pre ++ [x]) ++ t) by (rewrite <- app_assoc; reflexivity).
    replace (S (length pre)) with (length (pre ++ [x])) by (rewrite app_length; cbn; lia).
    cbn [ltb A]. destruct (Qltb_spec x bm) as [Hx|Hx].
    + replace (length pre) with (length (pre ++ [x]) - 1)%nat at 1 by (rewrite app_length; cbn; lia).
      replace (length (pre ++ [x]) - 1)%nat with (length pre) by (rewrite app_length; cbn; lia).
      apply IH.
      * rewrite nth_error_app2 by lia. rewrite Nat.sub_diag. reflexivity.
      * intros j y Hj. destruct (Nat.lt_ge_cases j (length pre)) as [Hlt|Hge].
        -- rewrite nth_error_app1 in Hj by exact Hlt. specialize (L j y Hj). lra.
        -- rewrite nth_error_app2 in Hj by exact Hge. destruct (j - length pre)%nat as [|k]; [|destruct k; discriminate].
           inversion Hj; subst. lra.
      * intros j y Hlt Hj. rewrite nth_error_app1 in Hj by exact Hlt. specialize (L j y Hj). lra.
    + apply IH.
      * rewrite nth_error_app1 by exact Hbi. exact Hb.
      * intros j y Hj. destruct (Nat.lt_ge_cases j (length pre)) as [Hlt|Hge].
        -- rewrite nth_error_app1 in Hj by exact Hlt. exact (L j y Hj).
        -- rewrite nth_error_app2 in Hj by exact Hge. destruct (j - length pre)%nat as [|k]; [|destruct k; discriminate].
           inversion Hj; subst. lra.
      * intros j y Hlt Hj. rewrite nth_error_app1 in Hj by lia. exact (F j y Hlt Hj).
Qed.

Lemma argmin_spec l i : argmin A l = Some i -> first_min l i.
Proof.
  destruct l as [|x t]; [discriminate|]. cbn [argmin]. intros H; inversion H; subst; clear H.
  apply (argmin_from_spec t [x] 0%nat x).
  - reflexivity.
  - intros [|[|j]] y Hj; cbn in Hj; try discriminate. inversion Hj; subst. lra.
  - intros j y Hlt. lia.
Qed.

Lemma index_of_nth m d : forall i, index_of A m d = Some i ->
  exists x, nth_error d i = Some x /\ x == m /\ (forall j y, (j < i)%nat -> nth_error d j = Some y -> ~ y == m).
Proof.
  induction d as [|y t IH]; intros i; cbn [index_of]; [discriminate|].
  cbn [eqb A]. destruct (Qeqb_spec y m) as [E|N].
  - intros H; inversion H; subst. exists y. split; [reflexivity|]. split; [exact E|]. intros j z Hlt. lia.
  - destruct (index_of A m t) as [k|] eqn:Ek; [|discriminate]. cbn [option_map]. intros H; inversion H; subst; clear H.
    destruct (IH k eq_refl) as (x & Hx & Ex & Fx). exists x. split; [exact Hx|]. split; [exact Ex|].
    intros [|j] z Hlt Hj; cbn in Hj.
    + inversion Hj; subst. exact N.
    + apply (Fx j z); [lia|exact Hj].
Qed.

Lemma index_of_first_min m d i : is_min m d -> index_of A m d = Some i -> first_min d i.
Proof.
  intros [L _] Hi. destruct (index_of_nth m d i Hi) as (x & Hx & Ex & Fx).
  exists x. split; [exact Hx|]. split.
  - intros j y Hj. apply nth_error_In in Hj. specialize (L y Hj). lra.
  - intros j y Hlt Hj. pose proof (Fx j y Hlt Hj) as N. apply nth_error_In in Hj. specialize (L y Hj). lra.
Qed.

Lemma index_of_is_argmin m d i : is_min m d -> index_of A m d = Some i -> argmin A d = Some i.
Proof.
  intros Hm Hi. pose proof (index_of_first_min m d i Hm Hi) as F.
  destruct (argmin_ok fadd fsub fmul fdiv fofZ ftrunc d) as (i' & Hi' & _).
  { destruct F as (x & Hx & _). intros ->. destruct i; discriminate. }
  rewrite Hi'. f_equal. eapply first_min_unique; [apply argmin_spec; exact Hi'|exact F].
Qed.


(* ---------- frames: what the cache maintenance leaves alone ---------- *)
Lemma update_diffs_frame (s s' : st) i :
  update_diffs A s i = Some s' -> bins s' = bins s /\ cap s' = cap s /\ hmin s' = hmin s /\ hmax s' = hmax s.
Proof.
  unfold update_diffs. destruct (diffs s) as [d|]; [|intros H; inversion H; now subst].
  destruct (Nat.ltb 0 i).
  - destruct (nth_error d (i - 1)); [|discriminate]. destruct (nth_error (bins s) i); [|discriminate].
    destruct (nth_error (bins s) (i - 1)); [|discriminate]. cbn [bind].
    destruct (Nat.ltb (S i) (length (bins s))).
    + destruct (nth_error _ i); [|discriminate]. destruct (nth_error (bins s) (S i)); [|discriminate]. cbn [bind].
      match goal with |- (if ?c then _ else _) = _ -> _ => destruct c end.
      * destruct (lmin A _); [|discriminate]. cbn [bind]. intros H; inversion H; now subst.
      * intros H; inversion H; now subst.
    + cbn [bind]. match goal with |- (if ?c then _ else _) = _ -> _ => destruct c end.
      * destruct (lmin A _); [|discriminate]. cbn [bind]. intros H; inversion H; now subst.
      * intros H; inversion H; now subst.
  - cbn [bind]. destruct (Nat.ltb (S i) (length (bins s))).
    + destruct (nth_error d i); [|discriminate]. destruct (nth_error (bins s) i); [|discriminate].
      destruct (nth_error (bins s) (S i)); [|discriminate]. cbn [bind].
      match goal with |- (if ?c then _ else _) = _ -> _ => destruct c end.
      * destruct (lmin A _); [|discriminate]. cbn [bind]. intros H; inversion H; now subst.
      * intros H; inversion H; now subst.
    + cbn [bind]. intros H; inversion H; now subst.
Qed.

(* one iteration of _trim with an exact cache is one merge of the reference *)
Lemma trim_step_ref (s s' : st) :
  cache_exact s -> trim_step A s = Some s' -> ref_merge A (bins s) = Some (bins s') /\ cap s' = cap s.
Proof.
  intros Hc. unfold trim_step, ref_merge.
  assert (Hi : forall i, match diffs s with
                         | Some d => match min_diff s with Fin m => index_of A m d | Inf => None end
                         | None => argmin A (gaps A (bins s)) end = Some i -> argmin A (gaps A (bins s)) = Some i).
  { intros i. unfold C13_cache.cache_exact in Hc. destruct (diffs s) as [d|]; [|trivial].
    destruct Hc as (_ & Hd & Hm). destruct (min_diff s) as [|m]; [discriminate|]. cbn in Hm.
    intros H. rewrite <- Hd. eapply index_of_is_argmin; eauto. }
  match goal with |- (do i <- ?X; _) = _ -> _ => destruct X as [i|] eqn:Ei; [|discriminate] end.
  rewrite (Hi i eq_refl). cbn [bind].
  destruct (nth_error (bins s) i) as [[v1 f1]|]; [|discriminate].
  destruct (nth_error (bins s) (S i)) as [[v2 f2]|]; [|discriminate]. cbn [bind].
  destruct (diffs s) as [d|].
  - destruct (nth_error d i); [|discriminate]. cbn [bind].
    match goal with |- (do s2 <- ?X; _) = _ -> _ => destruct X as [s2|] eqn:E2; [|discriminate] end.
    cbn [bind]. destruct (diffs s2) as [d2|]; [|discriminate]. cbn [bind]. destruct (lmin A d2); [|discriminate]. cbn [bind].
    intros H; inversion H; subst; clear H. cbn [bins cap with_cache].
    apply update_diffs_frame in E2 as (B & C & _). cbn [bins cap] in B, C. now rewrite B, C.
  - intros H; inversion H; subst. now cbn.
Qed.

Lemma trim_ref (fuel : nat) : forall (s s' : st),
  cache_exact s -> trim A fuel s = Some s' -> ref_trim A fuel (cap s) (bins s) = Some (bins s').
Proof.
  induction fuel as [|k IH]; intros s s' Hc; cbn [trim ref_trim].
  - destruct (Nat.leb _ _); [intros H; inversion H; now subst|discriminate].
  - destruct (Nat.leb _ _); [intros H; inversion H; now subst|].
    destruct (trim_step A s) as [s1|] eqn:T; [|discriminate]. cbn [bind].
    destruct (trim_step_ref s s1 Hc T) as [R C]. rewrite R. cbn [bind]. rewrite <- C.
    apply IH. eapply trim_step_exact; eauto.
Qed.


(* ---------- the reference insertion against locate / bisect ---------- *)
Lemma ref_hit_at (b : list bin) : forall pos vi fi v c,
  sorted b -> nth_error b pos = Some (vi, fi) -> vi == v ->
  ref_hit A b v c = Some (set_at pos (vi, (fi + c)%Z) b).
Proof.
  induction b as [|[x f] t IH]; intros pos vi fi v c Hs Hn He; [destruct pos; discriminate|].
  destruct pos as [|p]; cbn [nth_error] in Hn.
  - inversion Hn; subst. cbn [ref_hit set_at eqb A]. destruct (Qeqb_spec vi v); [reflexivity|contradiction].
  - cbn [ref_hit set_at eqb A]. destruct (Qeqb_spec x v) as [E|N].
    + exfalso. pose proof (sorted_head_lt _ _ Hs (vi, fi) (nth_error_In _ _ Hn)) as H. cbn [fst] in H. lra.
    + apply ssorted_cons in Hs as [Hs _]. rewrite (IH p vi fi v c Hs Hn He). reflexivity.
Qed.

Lemma ref_miss_split (l1 l2 : list bin) v c :
  (forall a, In a l1 -> fst a < v) -> (forall b, In b l2 -> v < fst b) ->
  ref_insert A (l1 ++ l2) v c = l1 ++ (v, c) :: l2.
Proof.
  intros Ha Hb. unfold ref_insert.
  assert (H1 : ref_hit A (l1 ++ l2) v c = None).
  { clear - Ha Hb. induction l1 as [|[x f] t IH]; cbn [app].
    - induction l2 as [|[y g] t2 IH2]; [reflexivity|]. cbn [ref_hit eqb A].
      pose proof (Hb (y, g) (or_introl eq_refl)) as H. cbn [fst] in H.
      destruct (Qeqb_spec y v); [lra|]. rewrite IH2; [reflexivity|]. intros b Ib. apply Hb. now right.
    - cbn [ref_hit eqb A]. pose proof (Ha (x, f) (or_introl eq_refl)) as H. cbn [fst] in H.
      destruct (Qeqb_spec x v); [lra|]. rewrite IH; [reflexivity|]. intros a Ia. apply Ha. now right. }
  rewrite H1. clear H1. induction l1 as [|[x f] t IH]; cbn [app].
  - destruct l2 as [|[y g] t2]; [reflexivity|]. cbn [ref_ins ltb A].
    pose proof (Hb (y, g) (or_introl eq_refl)) as H. cbn [fst] in H. destruct (Qltb_spec y v); [lra|reflexivity].
  - cbn [ref_ins ltb A]. pose proof (Ha (x, f) (or_introl eq_refl)) as H. cbn [fst] in H.
    destruct (Qltb_spec x v); [|lra]. rewrite IH; [reflexivity|]. intros a Ia. apply Ha. now right.
Qed.

Lemma ref_trim_done fuel cap (b : list bin) : (length b <= cap)%nat -> ref_trim A fuel cap b = Some b.
Proof. intros H. destruct fuel; cbn [ref_trim]; (destruct (Nat.leb_spec (length b) cap); [reflexivity|lia]). Qed.

(* ---------- the in-place shortcut is one merge of the reference ---------- *)
Definition closest_unique (g : list Q) : Prop :=
  forall i j x y, i <> j -> nth_error g i = Some x -> nth_error g j = Some y ->
                  (forall k z, nth_error g k = Some z -> x <= z) -> ~ y == x.

Hypothesis fadd_comm : forall a b, fadd a b = fadd b a.

Lemma ensure_cache_some (s s1 : st) : ensure_cache A s = Some s1 ->
  (exists d, diffs s1 = Some d) /\ cap s1 = cap s /\ bins s1 = bins s.
Proof.
  unfold ensure_cache. destruct (diffs s) as [d|] eqn:Ed.
  - intros H; inversion H; subst. split; [eauto|auto].
  - destruct (lmin A _); [|discriminate]. cbn [bind]. intros H; inversion H; subst. cbn. split; [eauto|auto].
Qed.

Lemma in_place_ref (s1 s' : st) (l1' l2' : list bin) vp fp vq fq v c ib :
  cache_exact s1 -> (exists d, diffs s1 = Some d) ->
  bins s1 = l1' ++ (vp, fp) :: (vq, fq) :: l2' -> vp < v -> v < vq ->
  length (bins s1) = cap s1 ->
  choose_in_place A s1 v (S (length l1')) = Some (Some ib) ->
  in_place A s1 v c ib = Some s' ->
  closest_unique (gaps A (l1' ++ (vp, fp) :: (v, c) :: (vq, fq) :: l2')) ->
  ref_trim A (S (length (bins s1))) (cap s1) (l1' ++ (vp, fp) :: (v, c) :: (vq, fq) :: l2') = Some (bins s').
Proof.
  intros Hc (d & Ed) Eb Hvp Hvq Hcap Hch Hin Huniq.
  set (pos := S (length l1')) in *.
  set (b := bins s1) in *.
  set (b1 := l1' ++ (vp, fp) :: (v, c) :: (vq, fq) :: l2') in *.
  assert (Hp1 : nth_error b (pos - 1) = Some (vp, fp)).
  { unfold pos. replace (S (length l1') - 1)%nat with (length l1') by lia. rewrite Eb. apply nth_error_mid. }
  assert (Hp2 : nth_error b pos = Some (vq, fq)) by (rewrite Eb; apply nth_error_mid_S).
  assert (Eb1 : b1 = insert_at pos (v, c) b).
  { unfold b1, pos. rewrite Eb.
    replace (l1' ++ (vp, fp) :: (vq, fq) :: l2') with ((l1' ++ [(vp, fp)]) ++ (vq, fq) :: l2') by (rewrite <- app_assoc; reflexivity).
    replace (S (length l1')) with (length (l1' ++ [(vp, fp)])) by (rewrite app_length; cbn; lia).
    rewrite insert_at_split, <- app_assoc. reflexivity. }
  assert (Lb : (pos < length b)%nat) by (eapply nth_error_Some_lt; eauto).
  assert (Nb1 : forall k, nth_error b1 k = if Nat.ltb k pos then nth_error b k
                                           else if Nat.eqb k pos then Some (v, c) else nth_error b (k - 1)).
  { intros k. rewrite Eb1. apply nth_error_insert_at. lia. }
  assert (Lb1 : length b1 = S (length b)) by (rewrite Eb1; apply insert_at_length).
  (* the cached minimum *)
  unfold C13_cache.cache_exact in Hc. rewrite Ed in Hc. destruct Hc as (_ & Hd & Hm). fold b in Hd.
  assert (Gpq : nth_error (gaps A b) (pos - 1) = Some (fsub vq vp)).
  { rewrite gaps_nth. replace (S (pos - 1)) with pos by (unfold pos; lia). now rewrite Hp1, Hp2. }
  destruct (min_diff s1) as [|m] eqn:Em.
  { cbn in Hm. rewrite Hm in Hd. rewrite <- Hd in Gpq. destruct (pos - 1)%nat; discriminate. }
  cbn in Hm. rewrite Hd in Hm.
  set (d1 := fsub v vp) in *. set (d2 := fsub vq v) in *.
  (* every gap of the reference's list after insertion *)
  assert (GV : forall j x, nth_error (gaps A b1) j = Some x ->
                           (j = (pos - 1)%nat /\ x = d1) \/ (j = pos /\ x = d2) \/
                           ((j < pos - 1)%nat /\ m <= x) \/ ((pos < j)%nat /\ m <= x)).
  { intros j x Hj. rewrite gaps_nth, !Nb1 in Hj.
    destruct (Nat.lt_trichotomy (S j) pos) as [H|[H|H]].
    - destruct (Nat.ltb_spec j pos); [|lia]. destruct (Nat.ltb_spec (S j) pos); [|lia].
      right; right; left. split; [lia|]. apply (is_min_In m (gaps A b) x Hm).
      apply (nth_error_In _ j). rewrite gaps_nth. exact Hj.
    - left. destruct (Nat.ltb_spec j pos); [|lia]. destruct (Nat.ltb_spec (S j) pos); [lia|].
      destruct (Nat.eqb_spec (S j) pos); [|lia]. replace j with (pos - 1)%nat in Hj by lia. rewrite Hp1 in Hj.
      cbn [fst] in Hj. inversion Hj. split; [lia|reflexivity].
    - destruct (Nat.eq_dec j pos) as [->|N].
      + right; left. destruct (Nat.ltb_spec pos pos); [lia|]. rewrite Nat.eqb_refl in Hj.
        destruct (Nat.ltb_spec (S pos) pos); [lia|]. destruct (Nat.eqb_spec (S pos) pos); [lia|].
        replace (S pos - 1)%nat with pos in Hj by lia. rewrite Hp2 in Hj. cbn [fst] in Hj. inversion Hj. split; reflexivity.
      + right; right; right. split; [lia|].
        destruct (Nat.ltb_spec j pos); [lia|]. destruct (Nat.eqb_spec j pos); [lia|].
        destruct (Nat.ltb_spec (S j) pos); [lia|]. destruct (Nat.eqb_spec (S j) pos); [lia|].
        apply (is_min_In m (gaps A b) x Hm). apply (nth_error_In _ (j - 1)). rewrite gaps_nth.
        replace (S (j - 1)) with (S j - 1)%nat by lia. exact Hj. }
  assert (G1 : nth_error (gaps A b1) (pos - 1) = Some d1).
  { rewrite gaps_nth, !Nb1. destruct (Nat.ltb_spec (pos - 1) pos); [|lia]. replace (S (pos - 1)) with pos by (unfold pos; lia).
    destruct (Nat.ltb_spec pos pos); [lia|]. rewrite Nat.eqb_refl, Hp1. reflexivity. }
  assert (G2 : nth_error (gaps A b1) pos = Some d2).
  { rewrite gaps_nth, !Nb1. destruct (Nat.ltb_spec pos pos); [lia|]. rewrite Nat.eqb_refl.
    destruct (Nat.ltb_spec (S pos) pos); [lia|]. destruct (Nat.eqb_spec (S pos) pos); [lia|].
    replace (S pos - 1)%nat with pos by lia. rewrite Hp2. reflexivity. }
  (* which neighbour was chosen *)
  unfold choose_in_place in Hch. fold b in Hch. rewrite Hp1, Hp2 in Hch. cbn [bind sub A] in Hch. fold d1 d2 in Hch.
  rewrite Em in Hch. cbn [ltb A lt_ext] in Hch.
  assert (FM : first_min (gaps A b1) ib /\ ((ib = (pos - 1)%nat /\ (0 < ib)%nat) \/ ib = pos)).
  { destruct (Qltb_spec d1 d2) as [H12|H12].
    - destruct (Qltb_spec d1 m) as [H1m|H1m]; cbn [andb] in Hch; [|discriminate].
      destruct (Nat.ltb_spec 0 (pos - 1)); [|discriminate]. inversion Hch; subst ib. split; [|left; split; [reflexivity|assumption]].
      exists d1. split; [exact G1|]. split.
      + intros j x Hj. destruct (GV j x Hj) as [[_ ->]|[[_ ->]|[[_ Hx]|[_ Hx]]]]; lra.
      + intros j x Hlt Hj. destruct (GV j x Hj) as [[E _]|[[E _]|[[_ Hx]|[E _]]]]; try lia. lra.
    - destruct (Qltb_spec d2 m) as [H2m|H2m]; cbn [andb] in Hch; [|discriminate].
      destruct (Nat.ltb_spec 0 pos); [|discriminate]. inversion Hch; subst ib. split; [|now right].
      assert (Hstrict : d2 < d1).
      { destruct (Qlt_le_dec d2 d1) as [|Hle]; [assumption|]. exfalso.
        apply (Huniq pos (pos - 1)%nat d2 d1); [unfold pos; lia|exact G2|exact G1| |lra].
        intros k z Hk. destruct (GV k z Hk) as [[_ ->]|[[_ ->]|[[_ Hx]|[_ Hx]]]]; lra. }
      exists d2. split; [exact G2|]. split.
      + intros j x Hj. destruct (GV j x Hj) as [[_ ->]|[[_ ->]|[[_ Hx]|[_ Hx]]]]; lra.
      + intros j x Hlt Hj. destruct (GV j x Hj) as [[_ ->]|[[E _]|[[_ Hx]|[E _]]]]; try lia; lra. }
  destruct FM as [FM Hib].
  assert (AM : argmin A (gaps A b1) = Some ib).
  { destruct (argmin_ok fadd fsub fmul fdiv fofZ ftrunc (gaps A b1)) as (i' & Hi' & _).
    { intros E. rewrite E in G2. destruct pos; discriminate. }
    rewrite Hi'. f_equal. eapply first_min_unique; [apply argmin_spec; exact Hi'|exact FM]. }
  (* the reference: over capacity, one merge, then within capacity *)
  cbn [ref_trim]. fold b. rewrite Lb1.
  destruct (Nat.leb_spec (S (length b)) (cap s1)); [lia|].
  unfold ref_merge. rewrite AM. cbn [bind].
  unfold in_place in Hin. fold b in Hin.
  destruct Hib as [[E1 Hpos0]|E1]; subst ib.
  - (* merged with the left neighbour *)
    rewrite Hp1 in Hin. cbn [bind] in Hin. apply update_diffs_frame in Hin as (B & _). cbn [bins with_bins] in B.
    rewrite !Nb1. destruct (Nat.ltb_spec (pos - 1) pos); [|lia]. replace (S (pos - 1)) with pos by (unfold pos; lia).
    destruct (Nat.ltb_spec pos pos); [lia|]. rewrite Nat.eqb_refl, Hp1. cbn [bind].
    assert (Hrm : remove_at pos b1 = b).
    { unfold b1. rewrite Eb. unfold pos.
      replace (l1' ++ (vp, fp) :: (v, c) :: (vq, fq) :: l2') with (l1' ++ (vp, fp) :: (v, c) :: ((vq, fq) :: l2')) by reflexivity.
      apply remove_at_split_S. }
    rewrite Hrm, B.
    assert (Epm : pmin A vp v = vp) by (unfold pmin; cbn [ltb A]; destruct (Qltb_spec v vp); [lra|reflexivity]).
    assert (Epx : pmax A vp v = v) by (unfold pmax; cbn [ltb A]; destruct (Qltb_spec vp v); [reflexivity|lra]).
    rewrite Epm, Epx. apply ref_trim_done. rewrite set_at_length. lia.
  - (* merged with the right neighbour *)
    rewrite Hp2 in Hin. cbn [bind] in Hin. apply update_diffs_frame in Hin as (B & _). cbn [bins with_bins] in B.
    rewrite !Nb1. destruct (Nat.ltb_spec pos pos); [lia|]. rewrite Nat.eqb_refl.
    destruct (Nat.ltb_spec (S pos) pos); [lia|]. destruct (Nat.eqb_spec (S pos) pos); [lia|].
    replace (S pos - 1)%nat with pos by lia. rewrite Hp2. cbn [bind].
    rewrite B.
    assert (Epm : pmin A vq v = v) by (unfold pmin; cbn [ltb A]; destruct (Qltb_spec v vq); [reflexivity|lra]).
    assert (Epx : pmax A vq v = vq) by (unfold pmax; cbn [ltb A]; destruct (Qltb_spec vq v); [lra|reflexivity]).
    rewrite Epm, Epx.
    assert (Ecen : centroid A v c vq fq = centroid A vq fq v c).
    { unfold centroid. cbn [add mul div ofZ A]. rewrite (fadd_comm (fmul v (fofZ c))). now rewrite (Z.add_comm c fq). }
    rewrite Ecen, (Z.add_comm c fq).
    assert (Hset : set_at pos (pmin A (pmax A (centroid A vq fq v c) v) vq, (fq + c)%Z) (remove_at (S pos) b1)
                   = set_at pos (pmin A (pmax A (centroid A vq fq v c) v) vq, (fq + c)%Z) b).
    { apply nth_error_ext.
      - rewrite !set_at_length, remove_at_length by lia. lia.
      - intros k. rewrite !nth_error_set_at, nth_error_remove_at, remove_at_length, Nb1 by lia.
        destruct (Nat.eqb_spec k pos) as [->|N].
        + destruct (Nat.ltb_spec pos (length b1 - 1)); [|lia]. destruct (Nat.ltb_spec pos (length b)); [reflexivity|lia].
        + destruct (Nat.ltb_spec k (S pos)).
          * destruct (Nat.ltb_spec k pos); [reflexivity|lia].
          * rewrite Nb1. destruct (Nat.ltb_spec (S k) pos); [lia|]. destruct (Nat.eqb_spec (S k) pos); [lia|].
            replace (S k - 1)%nat with k by lia. reflexivity. }
    rewrite Hset. apply ref_trim_done. rewrite set_at_length. lia.
Qed.


(* ---------- the insert path is insertion followed by the reference's merges ---------- *)
Notation insert_step := (insert_step fadd fsub fmul fdiv fofZ ftrunc).

Lemma insert_step_bins (s1 s2 : st) v c pos il :
  insert_step s1 v c pos il = Some s2 ->
  cap s2 = cap s1 /\ bins s2 = if il then bins s1 ++ [(v, c)] else insert_at pos (v, c) (bins s1).
Proof.
  unfold C13_cache.insert_step. destruct il.
  - destruct (nth_error (bins s1) (length (bins s1) - 1)) as [[vl fl]|]; [|discriminate]. cbn [bind].
    intros H; inversion H; subst. now cbn.
  - intros H. apply update_diffs_frame in H as (B & C & _). now cbn in B, C.
Qed.

Lemma insert_path_ref (s1 s' : st) (l1 l2 : list bin) v c il :
  cache_exact s1 -> bins s1 = l1 ++ l2 ->
  (il = true -> l2 = []) -> (il = false -> bins s1 <> [] -> l2 <> []) ->
  insert_path A s1 v c (length l1) il = Some s' ->
  ref_trim A (S (length (bins s1))) (cap s1) (l1 ++ (v, c) :: l2) = Some (bins s').
Proof.
  intros Hc Eb Hl Hnl. rewrite insert_path_unfold.
  destruct (insert_step s1 v c (length l1) il) as [s2|] eqn:E2; [|discriminate]. cbn [bind].
  assert (Hc2 : cache_exact s2).
  { eapply insert_step_exact; [exact Hc| | |exact E2].
    - rewrite Eb, app_length. lia.
    - intros -> NE. specialize (Hnl eq_refl NE). rewrite Eb, app_length. destruct l2; [congruence|cbn; lia]. }
  destruct (insert_step_bins s1 s2 v c (length l1) il E2) as [C2 B2].
  assert (B2' : bins s2 = l1 ++ (v, c) :: l2).
  { rewrite B2. destruct il.
    - rewrite (Hl eq_refl) in *. rewrite Eb, app_nil_r. reflexivity.
    - rewrite Eb. apply insert_at_split. }
  intros HT. apply trim_ref in HT; [|now apply exact_reframe]. cbn [bins cap] in HT.
  rewrite B2', C2 in HT. rewrite app_length in HT. cbn [length] in HT.
  rewrite Eb, app_length. replace (S (length l1 + length l2)) with (length l1 + S (length l2))%nat by lia. exact HT.
Qed.

Lemma update_miss_ref (s s' : st) (l1 l2 : list bin) v c il :
  (length (bins s) <= cap s)%nat -> cache_exact s -> bins s = l1 ++ l2 ->
  (forall a, In a l1 -> fst a < v) -> (forall b, In b l2 -> v < fst b) ->
  (il = true -> l2 = []) -> (il = false -> bins s <> [] -> l2 <> []) ->
  update_miss A s v c (length l1) il = Some s' ->
  closest_unique (gaps A (l1 ++ (v, c) :: l2)) ->
  ref_trim A (S (length (bins s))) (cap s) (l1 ++ (v, c) :: l2) = Some (bins s').
Proof.
  intros Hcap Hc Eb Ha Hb Hl Hnl. unfold update_miss.
  destruct (negb il && Nat.ltb 0 (length l1) && Nat.leb (cap s) (length (bins s))) eqn:Et.
  - apply andb_true_iff in Et as [Et E3]. apply andb_true_iff in Et as [E1 E2].
    apply negb_true_iff in E1. subst il. apply Nat.ltb_lt in E2. apply Nat.leb_le in E3.
    destruct (ensure_cache A s) as [s1|] eqn:EC; [|discriminate]. cbn [bind].
    assert (NE : bins s <> []) by (rewrite Eb; destruct l1; [cbn in E2; lia|discriminate]).
    destruct (ensure_cache_exact _ _ _ _ _ _ s s1 Hc NE EC) as [Hc1 B1].
    destruct (ensure_cache_some s s1 EC) as (Hd1 & C1 & _).
    destruct (choose_in_place A s1 v (length l1)) as [[ib|]|] eqn:Ech; [| |discriminate]; cbn [bind].
    + intros Hin Huniq.
      assert (N1 : l1 <> []) by (destruct l1; [cbn in E2; lia|discriminate]).
      destruct (exists_last N1) as (l1' & [vp fp] & E1).
      specialize (Hnl eq_refl NE). destruct l2 as [|[vq fq] l2']; [congruence|].
      assert (Eb1 : bins s1 = l1' ++ (vp, fp) :: (vq, fq) :: l2') by (rewrite B1, Eb, E1, <- app_assoc; reflexivity).
      assert (Lq : length l1 = S (length l1')) by (rewrite E1, app_length; cbn [length]; lia).
      assert (Hvp : vp < v) by (apply (Ha (vp, fp)); rewrite E1; apply in_or_app; right; now left).
      assert (Hvq : v < vq) by (apply (Hb (vq, fq)); now left).
      rewrite Lq in Ech.
      assert (Eapp : l1 ++ (v, c) :: (vq, fq) :: l2' = l1' ++ (vp, fp) :: (v, c) :: (vq, fq) :: l2')
        by (rewrite E1, <- app_assoc; reflexivity).
      rewrite Eapp in *. rewrite <- B1, <- C1.
      eapply in_place_ref; eauto. rewrite B1, C1. lia.
    + intros HT _. rewrite <- B1, <- C1. eapply insert_path_ref; eauto; rewrite B1; auto.
  - cbn [bind]. intros HT _. eapply insert_path_ref; eauto.
Qed.

Lemma miss_case (s s' : st) (l1 l2 : list bin) v c il :
  (length (bins s) <= cap s)%nat -> cache_exact s -> bins s = l1 ++ l2 ->
  (forall a, In a l1 -> fst a < v) -> (forall b, In b l2 -> v < fst b) ->
  (il = true -> l2 = []) -> (il = false -> bins s <> [] -> l2 <> []) ->
  update_miss A s v c (length l1) il = Some s' ->
  closest_unique (gaps A (ref_insert A (bins s) v c)) ->
  ref_update A (cap s) (bins s) v c = Some (bins s').
Proof.
  intros Hcap Hc Eb Ha Hb Hl Hnl HU Huniq. unfold ref_update.
  assert (RI : ref_insert A (bins s) v c = l1 ++ (v, c) :: l2) by (rewrite Eb; now apply ref_miss_split).
  rewrite RI in *. replace (length (l1 ++ (v, c) :: l2)) with (S (length (bins s))).
  - eapply update_miss_ref; eauto.
  - rewrite Eb, !app_length. cbn [length]. lia.
Qed.

Lemma hit_case (s : st) pos vi fi v c :
  sorted (bins s) -> (length (bins s) <= cap s)%nat ->
  nth_error (bins s) pos = Some (vi, fi) -> vi == v ->
  ref_update A (cap s) (bins s) v c = Some (set_at pos (vi, (fi + c)%Z) (bins s)).
Proof.
  intros Hs Hcap Hn He. unfold ref_update, ref_insert. rewrite (ref_hit_at _ pos vi fi v c Hs Hn He).
  apply ref_trim_done. now rewrite set_at_length.
Qed.

(* update() computes the reference *)
Theorem update_ref (s s' : st) v c :
  Inv s -> cache_exact s -> update A s v c = Some s' ->
  closest_unique (gaps A (ref_insert A (bins s) v c)) ->
  ref_update A (cap s) (bins s) v c = Some (bins s').
Proof.
  intros HI Hc HU Huniq. unfold update in HU.
  destruct (Z.leb c 0); [discriminate|].
  pose proof HI as (Hs & Hp & Hcap & _).
  destruct (bins s) as [|[v0 f0] t] eqn:Eb.
  - (* empty histogram *)
    cbn [locate nth_error] in HU. rewrite <- Eb in *.
    apply (miss_case s s' [] [] v c false); auto; try (now intros ? []); try (intros _ NE; congruence).
  - unfold locate in HU. cbn [leb A] in HU. destruct (Qleb_spec v v0) as [H0|H0].
    + (* at or before the first centre *)
      cbn [nth_error] in HU. cbn [eqb A] in HU. destruct (Qeqb_spec v0 v) as [He|He].
      * injection HU as HU'. subst s'. rewrite <- Eb in *.
        rewrite (hit_case s 0%nat v0 f0 v c Hs Hcap); [|rewrite Eb; reflexivity|exact He].
        cbn [bins with_bins]. rewrite Eb. reflexivity.
      * assert (Hall : forall x, In x ((v0, f0) :: t) -> v < fst x).
        { intros x [<-|Ix]; cbn [fst]; [lra|]. pose proof (sorted_head_lt _ _ Hs x Ix) as Hx. cbn [fst] in Hx. lra. }
        rewrite <- Eb in *. apply (miss_case s s' [] (bins s) v c false); auto; try (now intros ? []); try discriminate; try (now rewrite Eb).
    + destruct (nth_error_lt_Some ((v0, f0) :: t) (length ((v0, f0) :: t) - 1)) as [[vl fl] Hl]; [cbn [length]; lia|].
      rewrite Hl in HU. destruct (Qleb_spec vl v) as [H1|H1].
      * (* at or after the last centre *)
        rewrite Hl in HU. cbn [eqb A] in HU. destruct (Qeqb_spec vl v) as [He|He].
        -- injection HU as HU'. subst s'. rewrite <- Eb in *.
           rewrite (hit_case s _ vl fl v c Hs Hcap Hl He). cbn [bins with_bins]. do 2 f_equal. rewrite Eb. cbn [length]. lia.
        -- rewrite <- Eb in *.
           assert (Hall : forall a, In a (bins s) -> fst a < v).
           { intros a Ia. pose proof (sorted_all_le_last _ _ Hs Hl a Ia) as Hx. cbn [fst] in Hx. lra. }
           apply (miss_case s s' (bins s) [] v c true); auto; try (now intros ? []); try discriminate;
             try (now rewrite app_nil_r).
           (* the position passed to update_miss is not used on the append path *)
           all: revert HU; unfold update_miss; cbn [negb andb bind]; unfold insert_path; cbn [bind]; exact (fun H => H).
      * (* strictly inside *)
        destruct (bisect_spec fadd fsub fmul fdiv fofZ ftrunc ((v0, f0) :: t) v Hp) as (l1 & l2 & El & Bl & Ha & Hh).
        rewrite Bl in HU.
        assert (N1 : l1 <> []).
        { intros ->. cbn [app] in El. subst l2. cbn [fst] in Hh. lra. }
        assert (N2 : l2 <> []).
        { intros ->. rewrite app_nil_r in El. subst l1.
          assert (Hin : In (vl, fl) ((v0, f0) :: t)) by (eapply nth_error_In; eauto).
          specialize (Ha _ Hin). cbn [fst] in Ha. lra. }
        destruct l2 as [|[vq fq] l2']; [congruence|]. cbn [fst] in Hh.
        assert (Hq : nth_error ((v0, f0) :: t) (length l1) = Some (vq, fq)) by (rewrite El; apply nth_error_mid).
        rewrite Hq in HU. cbn [eqb A] in HU. destruct (Qeqb_spec vq v) as [He|He].
        -- injection HU as HU'. subst s'. rewrite <- Eb in *.
           rewrite (hit_case s _ vq fq v c Hs Hcap Hq He). reflexivity.
        -- rewrite <- Eb in *. apply (miss_case s s' l1 ((vq, fq) :: l2') v c false); auto; try discriminate.
           intros x [<-|Ix]; cbn [fst]; [lra|].
           rewrite El in Hs. apply ssorted_app in Hs as (_ & S2 & _).
           pose proof (sorted_head_lt _ _ S2 x Ix) as Hx. cbn [fst] in Hx. lra.
Qed.


(* "the closest pair is unique at each step", along the reference's own run *)
Fixpoint uniq_trace (cap : nat) (b : list bin) (l : list bin) : Prop :=
  match l with
  | [] => True
  | (v, c) :: t => closest_unique (gaps A (ref_insert A b v c)) /\
                   match ref_update A cap b v c with Some b' => uniq_trace cap b' t | None => True end
  end.

Theorem feed_ref (l : list bin) : forall (s : st),
  Inv s -> cache_exact s -> pos_counts l -> uniq_trace (cap s) (bins s) l ->
  exists s', feed A s l = Some s' /\ Inv s' /\ cache_exact s' /\ cap s' = cap s /\
             ref_feed A (cap s) (bins s) l = Some (bins s').
Proof.
  induction l as [|[v c] t IH]; intros s HI Hc Hp Hu.
  - exists s. cbn. auto.
  - inversion Hp as [|? ? Hc1 Hpt]; subst. cbn [snd] in Hc1. cbn [uniq_trace] in Hu. destruct Hu as [Hu1 Hu2].
    destruct (update_any fadd fsub fmul fdiv fofZ ftrunc s v c HI Hc1) as (s1 & U & I1 & _ & C1 & _).
    pose proof (update_exact _ _ _ _ _ _ s s1 v c Hc U) as Hc1'.
    pose proof (update_ref s s1 v c HI Hc U Hu1) as R. rewrite R in Hu2.
    rewrite <- C1 in Hu2. destruct (IH s1 I1 Hc1' Hpt Hu2) as (s' & F & I' & Hc' & C' & R').
    exists s'. cbn [feed ref_feed]. rewrite U, R. cbn [bind].
    split; [exact F|]. split; [exact I'|]. split; [exact Hc'|]. split; [now rewrite C', C1|].
    rewrite <- C1. exact R'.
Qed.

(* from an empty histogram of capacity cap >= 2 *)
Corollary history_ref (cap0 : nat) (l : list bin) :
  (2 <= cap0)%nat -> pos_counts l -> uniq_trace cap0 [] l ->
  exists s', feed A (empty cap0) l = Some s' /\ ref_feed A cap0 [] l = Some (bins s').
Proof.
  intros Hc Hp Hu. destruct (feed_ref l (empty cap0)) as (s' & F & _ & _ & _ & R); auto.
  - now apply Inv_empty.
  - exact I.
  - exists s'. split; [exact F|exact R].
Qed.


(* ---------- a decidable form of the uniqueness premise (used for the non-vacuity example) ---------- *)
Definition closest_uniqueb (g : list Q) : bool :=
  match lmin A g with
  | None => true
  | Some m => Nat.leb (length (filter (fun x => Qeq_bool x m) g)) 1
  end.

Lemma filter_two (f : Q -> bool) (g : list Q) : forall i j x y,
  (i < j)%nat -> nth_error g i = Some x -> nth_error g j = Some y -> f x = true -> f y = true ->
  (2 <= length (filter f g))%nat.
Proof.
  induction g as [|a t IH]; intros i j x y Hij Hi Hj Fx Fy; [destruct i; discriminate|].
  destruct j as [|j]; [lia|]. cbn [nth_error] in Hj. destruct i as [|i]; cbn [nth_error] in Hi.
  - inversion Hi; subst a. cbn [filter]. rewrite Fx. cbn [length].
    assert (In y (filter f t)) by (apply filter_In; split; [eapply nth_error_In; eauto|exact Fy]).
    destruct (filter f t); [contradiction|cbn; lia].
  - specialize (IH i j x y ltac:(lia) Hi Hj Fx Fy). cbn [filter]. destruct (f a); cbn [length]; lia.
Qed.

Lemma closest_uniqueb_sound (g : list Q) : closest_uniqueb g = true -> closest_unique g.
Proof.
  unfold closest_uniqueb, closest_unique. intros H i j x y Hij Hi Hj Hmin Hyx.
  destruct (lmin A g) as [m|] eqn:Em.
  - apply Nat.leb_le in H. pose proof (lmin_is_min _ _ _ _ _ _ g m Em) as [L (z & Iz & Ez)].
    assert (Exm : x == m).
    { apply In_nth_error in Iz as [k Hk]. pose proof (Hmin k z Hk). pose proof (L x (nth_error_In _ _ Hi)). lra. }
    assert (Fx : Qeq_bool x m = true) by (apply Qeq_bool_iff; exact Exm).
    assert (Fy : Qeq_bool y m = true) by (apply Qeq_bool_iff; lra).
    destruct (Nat.lt_ge_cases i j) as [Hlt|Hge].
    + pose proof (filter_two (fun x => Qeq_bool x m) g i j x y Hlt Hi Hj Fx Fy). lia.
    + pose proof (filter_two (fun x => Qeq_bool x m) g j i y x ltac:(lia) Hj Hi Fy Fx). lia.
  - destruct g; [destruct i; discriminate|discriminate].
Qed.

Fixpoint uniq_traceb (cap : nat) (b : list bin) (l : list bin) : bool :=
  match l with
  | [] => true
  | (v, c) :: t => closest_uniqueb (gaps A (ref_insert A b v c)) &&
                   match ref_update A cap b v c with Some b' => uniq_traceb cap b' t | None => true end
  end.

Lemma uniq_traceb_sound (l : list bin) : forall cap b, uniq_traceb cap b l = true -> uniq_trace cap b l.
Proof.
  induction l as [|[v c] t IH]; intros cap b H; cbn [uniq_trace uniq_traceb] in *; [exact I|].
  apply andb_true_iff in H as [H1 H2]. split; [now apply closest_uniqueb_sound|].
  destruct (ref_update A cap b v c); [now apply IH|exact I].
Qed.


(* merge(h1, h2) (and therefore h1 + h2, bulkload) feeds the right operand's bins to update: it is
   the reference run on those bins *)
Corollary merge_ref (s1 s2 : st) :
  Inv s1 -> cache_exact s1 -> Inv s2 -> uniq_trace (cap s1) (bins s1) (bins s2) ->
  exists s', merge A s1 s2 = Some s' /\ Inv s' /\ cache_exact s' /\
             ref_feed A (cap s1) (bins s1) (bins s2) = Some (bins s').
Proof.
  intros H1 Hc H2 Hu. destruct H2 as (_ & Hp & _).
  destruct (feed_ref (bins s2) s1 H1 Hc Hp Hu) as (s' & F & I' & C' & _ & R). exists s'. unfold merge. auto.
Qed.


(* h1 + h2 has the bins of merge(h1, h2): the reference run on the right operand's bins *)
Corollary hadd_ref (s1 s2 : st) :
  Inv s1 -> cache_exact s1 -> Inv s2 -> bins s2 <> [] -> uniq_trace (cap s1) (bins s1) (bins s2) ->
  exists s', hadd A s1 s2 = Some s' /\ Inv s' /\
             ref_feed A (cap s1) (bins s1) (bins s2) = Some (bins s').
Proof.
  intros H1 Hc H2 Hne Hu.
  destruct (merge_ref s1 s2 H1 Hc H2 Hu) as (sm & M & _ & _ & R).
  destruct (hadd_any fadd fsub fmul fdiv fofZ ftrunc s1 s2 H1 H2 Hne) as (s' & ? & ? & ? & ? & Hh & I' & _).
  exists s'. split; [exact Hh|]. split; [exact I'|].
  unfold hadd in Hh. rewrite M in Hh. cbn [bind] in Hh.
  destruct (omin A (hmin sm) (hmin s2)); [|discriminate]. destruct (omax A (hmax sm) (hmax s2)); [|discriminate].
  cbn [bind] in Hh. inversion Hh; subst. cbn [bins]. exact R.
Qed.


Lemma pos_filter' (pairs : list bin) : pos_counts (filter (fun p => Z.ltb 0 (snd p)) pairs).
Proof.
  unfold pos_counts. rewrite Forall_forall. intros p Hp. apply filter_In in Hp as [_ H]. apply Z.ltb_lt in H. lia.
Qed.

(* a bulk load feeds numpy's (value or midpoint, count) pairs with a positive count to update: the
   reference run on those pairs *)
Corollary bulkload_ref (s : st) (pairs : list bin) (dmin dmax : Q) :
  Inv s -> cache_exact s -> pairs <> [] ->
  uniq_trace (cap s) (bins s) (filter (fun p => Z.ltb 0 (snd p)) pairs) ->
  exists s', bulkload A s pairs dmin dmax = Some s' /\
             ref_feed A (cap s) (bins s) (filter (fun p => Z.ltb 0 (snd p)) pairs) = Some (bins s').
Proof.
  intros HI Hc Hne Hu.
  destruct (feed_ref _ s HI Hc (pos_filter' pairs) Hu) as (s1 & F & _ & _ & _ & R).
  unfold bulkload. destruct pairs as [|p0 pr] eqn:Ep; [congruence|]. rewrite <- Ep in *.
  rewrite F. cbn [bind]. eexists. split; [reflexivity|]. cbn [bins]. exact R.
Qed.

End RefProofs.

Lemma Qplus_comm_eq (a b : Q) : Qplus a b = Qplus b a.
Proof. destruct a as [an ad], b as [bn bd]. unfold Qplus. cbn [Qnum Qden]. f_equal; [lia|apply Pos.mul_comm]. Qed.

Lemma history_ref_exact (cap0 : nat) (l : list (Q * Z)) :
  (2 <= cap0)%nat -> pos_counts l -> uniq_trace Qplus Qminus Qmult Qdiv inject_Z Qtrunc cap0 [] l ->
  exists s', feed QA (empty cap0) l = Some s' /\ ref_feed QA cap0 [] l = Some (bins s').
Proof. exact (history_ref Qplus Qminus Qmult Qdiv inject_Z Qtrunc Qplus_comm_eq cap0 l). Qed.
